(* C16: the loop of Model/Cond.v is total: it never reaches a panic value (the unwraps of item_ref / defs.symbols.get that
   the model mirrors are unreachable) and it ends within  #if nodes + constants + 1  rounds, so the fuel is sufficient. *)
From Coq Require Import ZArith NArith List Bool Lia.
From CA Require Import Model.Driver Model.Cond Spec.Select Proofs.DriverP Proofs.CondEvalP Proofs.CondLoopP Proofs.CondSelectP Proofs.CondFixP.
Import ListNotations.
Open Scope list_scope.
Open Scope nat_scope.

Definition total {A} (r : er A) : Prop := r <> RPanic /\ r <> RFuel.

(* ------------------------------------------------------------------ no step produces a panic or fuel value *)
Lemma collect_total : forall its ctx t, total (collect ctx t its).
Proof.
  induction its as [|it its IH]; intros ctx t; cbn [collect]; [split; discriminate|].
  assert (K : forall c tt (f : list item * table -> list item * table),
            total (match collect c tt its with ROk (r', t') => ROk (f (r', t')) | RErr e => RErr e | RPanic => RPanic | RFuel => RFuel end)).
  { intros c tt f. destruct (IH c tt). destruct (collect c tt its) as [[? ?]| | |]; split; congruence. }
  destruct it as [lvl nm s [p|] | c ta fa | i].
  - apply (K p t (fun x => (ISym lvl nm s (Some p) :: fst x, snd x))).
  - destruct (Nat.ltb (length ctx) lvl); [split; discriminate|].
    destruct (find_entry (firstn lvl ctx ++ [nm]) t); [split; discriminate|].
    apply (K _ _ (fun x => (ISym lvl nm s (Some (firstn lvl ctx ++ [nm])) :: fst x, snd x))).
  - apply (K ctx t (fun x => (IIf c ta fa :: fst x, snd x))).
  - apply (K ctx t (fun x => (IOther i :: fst x, snd x))).
Qed.

Lemma resolve_ifs_total : forall t its, total (resolve_ifs t its).
Proof.
  intros t. induction its as [|it its IH]; cbn [resolve_ifs]; [split; discriminate|].
  destruct IH. destruct (resolve_ifs t its) as [[r' n]| | |]; try (split; congruence).
  destruct it as [lvl nm s d | c ta fa | i]; try (split; discriminate).
  destruct (eval_total (lookup t) c). destruct (eval (lookup t) c) as [[|b|z]| | |]; split; congruence.
Qed.

Ltac bump Tail t1 G1 :=
  let A := fresh in let B := fresh in
  destruct (Tail t1 G1) as [A B]; destruct (resolve_consts _ _ t1 _) as [[? ?]| | |]; split; congruence.

Lemma rc_total : forall optst ds all its t,
  (forall it, In it its -> In it all) -> Good ds t all ->
  (forall lvl nm s d, In (ISym lvl nm s d) its -> d <> None) ->
  total (resolve_consts optst ds t its).
Proof.
  intros optst ds all. induction its as [|it its IH]; intros t Sub G Dc; cbn [resolve_consts]; [split; discriminate|].
  assert (Sub' : forall x, In x its -> In x all) by (intros x Hx; apply Sub; now right).
  assert (Dc' : forall lvl nm s d, In (ISym lvl nm s d) its -> d <> None) by (intros; eapply Dc; right; eauto).
  assert (Tail : forall t1, Good ds t1 all -> total (resolve_consts optst ds t1 its)) by (intros; apply IH; auto).
  destruct it as [lvl nm [|e] d | c ta fa | i]; try (apply IH; auto).
  destruct d as [p|]; [|exfalso; eapply Dc; [left; reflexivity | reflexivity]].
  assert (Hin : In (ISym lvl nm (SConst e) (Some p)) all) by (apply Sub; now left).
  destruct (find_entry p t) as [en|] eqn:F; [|exfalso; eapply (g_declared _ _ _ G _ p Hin); [reflexivity | exact F]].
  pose proof (g_just _ _ _ G _ _ _ _ _ Hin F) as J.
  destruct (e_resolved en) eqn:ER; [bump Tail t G|].
  destruct (find_define (join_dot p) ds) as [dv|] eqn:FD.
  { destruct (set_good ds t all lvl nm e p en dv true G Hin F) as [G1 _]; [left; now apply J | rewrite FD; auto|].
    bump Tail (set_entry p dv true t) G1. }
  destruct (eval_total (lookup t) e) as [NP NF].
  destruct (eval (lookup t) e) as [w| | |] eqn:EV; try (split; congruence).
  assert (OLD : e_value en = VUnknown \/ e_value en = w) by (destruct J as [J|J]; [now left | right; congruence]).
  destruct w as [|b|z].
  - destruct (set_good ds t all lvl nm e p en VUnknown false G Hin F OLD) as [G1 _]; [rewrite FD; now left|]. apply IH; auto.
  - destruct (set_good ds t all lvl nm e p en (VBool b) (optst && static_known e) G Hin F OLD) as [G1 _]; [rewrite FD; now right|].
    bump Tail (set_entry p (VBool b) (optst && static_known e) t) G1.
  - destruct (set_good ds t all lvl nm e p en (VInt z) (optst && static_known e) G Hin F OLD) as [G1 _]; [rewrite FD; now right|].
    bump Tail (set_entry p (VInt z) (optst && static_known e) t) G1.
Qed.

Lemma round_total : forall optst ds t its prev, Good ds t its -> total (round optst ds t its prev).
Proof.
  intros optst ds t its prev G. unfold round.
  destruct (collect_total its [] t). destruct (collect [] t its) as [[its1 t1]| | |] eqn:Cl; try (split; congruence).
  destruct (collect_good ds its [] [] t its1 t1 Cl G) as [G1 _]. cbn [app] in G1.
  destruct (rc_total optst ds its1 its1 t1 (fun _ h => h) G1 (collect_declared _ _ _ _ _ Cl)).
  destruct (resolve_consts optst ds t1 its1) as [[t2 cnt]| | |]; try (split; congruence).
  destruct (resolve_ifs_total t2 its1). destruct (resolve_ifs t2 its1) as [[its2 nifs]| | |]; split; congruence.
Qed.

(* ------------------------------------------------------------------ the measure *)
Definition its_ifs (its : list item) : nat := nodes_ifs (map forget its).
Definition its_K (its : list item) : nat := nodes_consts (map forget its).

Lemma nodes_ifs_app a b : nodes_ifs (a ++ b) = nodes_ifs a + nodes_ifs b.
Proof. unfold nodes_ifs. induction a as [|x a IH]; cbn; [reflexivity | rewrite IH; lia]. Qed.
Lemma nodes_consts_app a b : nodes_consts (a ++ b) = nodes_consts a + nodes_consts b.
Proof. unfold nodes_consts. induction a as [|x a IH]; cbn; [reflexivity | rewrite IH; lia]. Qed.

Lemma forget_inject_map l : map forget (map inject l) = l.
Proof. induction l as [|x l IH]; cbn; [reflexivity | now rewrite forget_inject, IH]. Qed.

Lemma node_ifs_le : forall n, node_ifs n <= node_size n.
Proof.
  fix IH 1. intros [l nm s | c t f | i]; cbn [node_ifs node_size]; try lia.
  assert (Lt : fold_right (fun x a => node_ifs x + a) 0 t <= fold_right (fun x a => node_size x + a) 0 t).
  { induction t as [|x t IHt]; cbn; [lia|]. pose proof (IH x). lia. }
  destruct f as [l|]; [|lia].
  assert (Ll : fold_right (fun x a => node_ifs x + a) 0 l <= fold_right (fun x a => node_size x + a) 0 l).
  { induction l as [|x l IHl]; cbn; [lia|]. pose proof (IH x). lia. }
  lia.
Qed.

Lemma nodes_ifs_le l : nodes_ifs l <= nodes_size l.
Proof. unfold nodes_ifs, nodes_size. induction l as [|x l IH]; cbn; [lia|]. pose proof (node_ifs_le x). lia. Qed.

Lemma C_le_K : forall t its, C t its <= its_K its.
Proof.
  intros t. unfold its_K, nodes_consts. induction its as [|it its IH]; cbn; [lia|].
  assert (pos_counted t it <= node_consts (forget it)); [|lia].
  destruct it as [l nm [|e] [p|] | |]; cbn; try lia.
  destruct (find_entry p t) as [en|]; [destruct (counted en); lia | lia].
Qed.

Lemma resolve_ifs_measure : forall t its its' n, resolve_ifs t its = ROk (its', n) ->
  its_ifs its' + n <= its_ifs its /\ its_K its' <= its_K its.
Proof.
  intros t. unfold its_ifs, its_K. induction its as [|it its IH]; intros its' n H; cbn [resolve_ifs] in H.
  - injection H as <- <-. cbn. lia.
  - destruct (resolve_ifs t its) as [[r' m]| | |] eqn:R; try discriminate.
    destruct (IH _ _ eq_refl) as [A B].
    assert (Keep : ROk (it :: r', m) = ROk (its', n) ->
              nodes_ifs (map forget its') + n <= nodes_ifs (map forget (it :: its)) /\
              nodes_consts (map forget its') <= nodes_consts (map forget (it :: its))).
    { intro E. injection E as <- <-. cbn [map]. unfold nodes_ifs, nodes_consts in *. cbn [fold_right]. lia. }
    destruct it as [lvl nm s d | c ta fa | i]; try (apply Keep; exact H).
    destruct (eval (lookup t) c) as [[|b|z]| | |]; try discriminate; try (apply Keep; exact H).
    injection H as <- <-. rewrite map_app, nodes_ifs_app, nodes_consts_app.
    cbn [map forget]. unfold nodes_ifs at 3. unfold nodes_consts at 3. cbn [fold_right node_ifs node_consts].
    fold (nodes_ifs (map forget its)). fold (nodes_consts (map forget its)).
    unfold arm_items. destruct b.
    + rewrite forget_inject_map. fold (nodes_ifs ta). fold (nodes_consts ta). lia.
    + destruct fa as [l|]; [rewrite forget_inject_map; fold (nodes_ifs l); fold (nodes_consts l) | cbn]; lia.
Qed.

Lemma round_measure : forall optst ds t its prev its2 t2 cnt b,
  round optst ds t its prev = ROk (its2, t2, cnt, b) -> Good ds t its -> prev <= C t its ->
  prev <= cnt /\ cnt <= C t2 its2 /\
  (b = true -> its_ifs its2 + its_K its2 + prev + 1 <= its_ifs its + its_K its + cnt).
Proof.
  intros optst ds t its prev its2 t2 cnt b H G P. pose proof H as H0. unfold round in H.
  destruct (collect [] t its) as [[its1 t1]| | |] eqn:Cl; try discriminate.
  destruct (resolve_consts optst ds t1 its1) as [[t2' cnt']| | |] eqn:RC; try discriminate.
  destruct (resolve_ifs t2' its1) as [[its2' nifs]| | |] eqn:RI; try discriminate.
  injection H as <- <- <- <-.
  destruct (collect_good ds its [] [] t its1 t1 Cl G) as [G1 _]. cbn [app] in G1.
  destruct (collect_rel _ _ _ _ _ Cl) as [E01 F2].
  pose proof (C_forall2 _ _ _ _ E01 F2) as M1.
  destruct (rc_all optst ds its1 its1 t1 t2' cnt' (fun _ h => h) G1 RC) as (E12 & Lo & Up & _).
  pose proof (resolve_ifs_C _ _ _ _ RI t2') as M2.
  destruct (resolve_ifs_measure _ _ _ _ RI) as [MI MK].
  assert (FI : its_ifs its1 = its_ifs its) by (unfold its_ifs; now rewrite (collect_forget _ _ _ _ _ Cl)).
  assert (FK : its_K its1 = its_K its) by (unfold its_K; now rewrite (collect_forget _ _ _ _ _ Cl)).
  split; [lia|]. split; [lia|].
  intro E. apply negb_true_iff, andb_false_iff in E.
  destruct E as [E|E]; [apply Nat.eqb_neq in E | apply Nat.eqb_neq in E]; lia.
Qed.

(* ------------------------------------------------------------------ the loop never runs out of fuel, never panics *)
Lemma loop_total : forall optst ds fuel t its prev,
  Good ds t its -> prev <= C t its -> its_ifs its + its_K its + 1 <= fuel + prev ->
  total (loop fuel optst ds t its prev).
Proof.
  intros optst ds. induction fuel as [|k IH]; intros t its prev G P F.
  - pose proof (C_le_K t its). lia.
  - cbn [loop]. destruct (round_total optst ds t its prev G).
    destruct (round optst ds t its prev) as [[[[its2 t2] cnt] b]| | |] eqn:R; try (split; congruence).
    destruct (round_good _ _ _ _ _ _ _ _ _ R G) as (G2 & _).
    destruct (round_measure _ _ _ _ _ _ _ _ _ R G P) as (P1 & P2 & M).
    destruct b; [|split; discriminate]. apply IH; auto. pose proof (M eq_refl). lia.
Qed.

Lemma its_measure_init tree : its_ifs (map inject tree) = nodes_ifs tree /\ its_K (map inject tree) = nodes_consts tree.
Proof. unfold its_ifs, its_K. now rewrite forget_inject_map. Qed.

(* rounds <= #if nodes + constants + 1 *)
Lemma run_fuel_total : forall optst ds tree fuel, round_bound tree <= fuel ->
  total (run_fuel fuel optst ds tree).
Proof.
  intros optst ds tree fuel F. unfold round_bound in F. unfold run_fuel.
  destruct (its_measure_init tree) as [A B].
  destruct (loop_total optst ds fuel [] (map inject tree) 0 (good_init ds tree) (Nat.le_0_l _)) as [NP NF]; [lia|].
  destruct (loop fuel optst ds [] (map inject tree) 0) as [[its t]| | |]; try (split; congruence).
  destruct (existsb is_if its); [split; discriminate|]. destruct (check_unused ds t); split; discriminate.
Qed.

Lemma run_total : forall optst ds tree, total (run optst ds tree).
Proof.
  intros. apply run_fuel_total. unfold fuel_for, round_bound. pose proof (nodes_ifs_le tree). lia.
Qed.

Lemma run_ok_or_err : forall optst ds tree,
  (exists its t, run optst ds tree = ROk (its, t)) \/ (exists c, run optst ds tree = RErr c).
Proof.
  intros. destruct (run_total optst ds tree) as [NP NF].
  destruct (run optst ds tree) as [[its t]|c| |]; [left; eauto | right; eauto | congruence | congruence].
Qed.

(* any fuel at or above the bound gives the same answer as `run` *)
Lemma run_fuel_stable : forall optst ds tree fuel, round_bound tree <= fuel ->
  run_fuel fuel optst ds tree = run optst ds tree.
Proof.
  intros optst ds tree fuel F.
  set (b := round_bound tree) in *.
  assert (X : forall f, b <= f -> run_fuel f optst ds tree = run_fuel b optst ds tree).
  { intros f Hf. replace f with (b + (f - b)) by lia. apply run_fuel_mono; [reflexivity|].
    apply (run_fuel_total optst ds tree b). apply Nat.le_refl. }
  unfold run. rewrite (X fuel F). symmetry. apply X. unfold b, fuel_for, round_bound. pose proof (nodes_ifs_le tree). lia.
Qed.

Lemma run_fuel_bound : forall optst ds tree fuel, round_bound tree <= fuel ->
  run_fuel fuel optst ds tree = run optst ds tree /\ run_fuel fuel optst ds tree <> RFuel.
Proof. intros optst ds tree fuel H. split; [now apply run_fuel_stable | now apply run_fuel_total]. Qed.
