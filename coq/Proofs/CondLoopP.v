(* C16: invariants of the declare / resolve-constants / splice loop (Model/Cond.v) and its agreement with the direct
   interpreter (Spec/Select.v).  DESIGN.md A.7: the valuation only ever grows in the order Unknown ⊑ v, so a
   condition decided in some round keeps its truth value under the final valuation. *)
From Coq Require Import ZArith NArith List Bool Lia.
From CA Require Import Model.Driver Model.Cond Spec.Select Proofs.DriverP Proofs.CondEvalP.
Import ListNotations.
Open Scope list_scope.
Open Scope nat_scope.

(* ------------------------------------------------------------------ paths and the table *)
Lemma path_eqb_eq : forall a b, path_eqb a b = true <-> a = b.
Proof.
  induction a as [|x a IH]; destruct b as [|y b]; cbn; split; intro H; try discriminate; auto.
  - apply andb_true_iff in H. destruct H as [H1 H2]. apply text_eqb_eq in H1. apply IH in H2. now subst.
  - injection H as -> ->. apply andb_true_iff. split; [apply text_eqb_refl | now apply IH].
Qed.

Lemma path_eqb_refl a : path_eqb a a = true.
Proof. now apply path_eqb_eq. Qed.

Lemma path_eqb_neq a b : a <> b -> path_eqb a b = false.
Proof. intro H. destruct (path_eqb a b) eqn:E; [apply path_eqb_eq in E; contradiction | reflexivity]. Qed.

Lemma find_entry_path : forall t p en, find_entry p t = Some en -> e_path en = p.
Proof.
  induction t as [|x t IH]; cbn; intros p en H; [discriminate|].
  destruct (path_eqb (e_path x) p) eqn:E.
  - injection H as <-. now apply path_eqb_eq.
  - now apply IH.
Qed.

Lemma find_entry_in : forall t p en, find_entry p t = Some en -> In en t.
Proof.
  induction t as [|x t IH]; cbn; intros p en H; [discriminate|].
  destruct (path_eqb (e_path x) p); [injection H as <-; now left | right; eauto].
Qed.

Lemma find_entry_app : forall t p en,
  find_entry p (t ++ [en]) =
  match find_entry p t with Some x => Some x | None => if path_eqb (e_path en) p then Some en else None end.
Proof.
  induction t as [|x t IH]; cbn; intros p en; [reflexivity|].
  destruct (path_eqb (e_path x) p); [reflexivity | apply IH].
Qed.

Lemma find_set_same : forall t p v r en, find_entry p t = Some en ->
  find_entry p (set_entry p v r t) = Some {| e_path := e_path en; e_kind := e_kind en; e_value := v; e_resolved := r |}.
Proof.
  induction t as [|x t IH]; cbn; intros p v r en H; [discriminate|].
  destruct (path_eqb (e_path x) p) eqn:E.
  - injection H as <-. cbn. now rewrite E.
  - cbn. rewrite E. now apply IH.
Qed.

Lemma find_set_other : forall t p q v r, q <> p -> find_entry q (set_entry p v r t) = find_entry q t.
Proof.
  induction t as [|x t IH]; cbn; intros p q v r N; [reflexivity|].
  destruct (path_eqb (e_path x) p) eqn:E.
  - cbn. apply path_eqb_eq in E. rewrite E. now rewrite !(path_eqb_neq p q) by congruence.
  - cbn. destruct (path_eqb (e_path x) q); [reflexivity | now apply IH].
Qed.

Lemma find_set_none : forall t p v r, find_entry p t = None -> set_entry p v r t = t.
Proof.
  induction t as [|x t IH]; cbn; intros p v r H; [reflexivity|].
  destruct (path_eqb (e_path x) p); [discriminate | now rewrite IH].
Qed.

Lemma lookup_le_app : forall t en, find_entry (e_path en) t = None -> le_lk (lookup t) (lookup (t ++ [en])).
Proof.
  intros t en H l p. unfold lookup. destruct l; [|now left]. destruct p as [|h p']; [now left|].
  destruct (text_eqb h t_dollar || text_eqb h t_pc); [now left|].
  rewrite find_entry_app. destruct (find_entry (h :: p') t); [now right | now left].
Qed.

Lemma lookup_le_set : forall t p v r en, find_entry p t = Some en -> (e_value en = VUnknown \/ e_value en = v) ->
  le_lk (lookup t) (lookup (set_entry p v r t)).
Proof.
  intros t p v r en H V l q. unfold lookup. destruct l; [|now left]. destruct q as [|h q']; [now left|].
  destruct (text_eqb h t_dollar || text_eqb h t_pc); [now left|].
  destruct (path_eqb (h :: q') p) eqn:E.
  - apply path_eqb_eq in E. rewrite E, H, (find_set_same _ _ _ _ _ H). cbn. destruct V; [now left | now right].
  - rewrite find_set_other; [now right|]. intro Q. rewrite Q, path_eqb_refl in E. discriminate.
Qed.

(* ------------------------------------------------------------------ the invariant of the loop *)
Definition decl_of (it : item) : option path := match it with ISym _ _ _ d => d | _ => None end.

Record Good (ds : defines) (t : table) (its : list item) : Prop := {
  g_declared : forall it p, In it its -> decl_of it = Some p -> find_entry p t <> None;
  g_unique : forall it1 it2 p, In it1 its -> In it2 its -> decl_of it1 = Some p -> decl_of it2 = Some p -> it1 = it2;
  (* every value is justified: it is the define's, or what the constant's expression evaluates to NOW *)
  g_just : forall lvl nm e p en, In (ISym lvl nm (SConst e) (Some p)) its -> find_entry p t = Some en ->
     match find_define (join_dot p) ds with
     | Some v => (e_resolved en = false -> e_value en = VUnknown) /\ (e_resolved en = true -> e_value en = v)
     | None => e_value en = VUnknown \/ eval (lookup t) e = ROk (e_value en)
     end;
  (* every declaration belongs to a node of the current top-level list *)
  g_owner : forall en, In en t -> exists lvl nm s, In (ISym lvl nm s (Some (e_path en))) its /\ e_kind en = kind_of s }.

Lemma set_entry_in : forall t p v r en', In en' (set_entry p v r t) ->
  exists en, In en t /\ e_path en' = e_path en /\ e_kind en' = e_kind en.
Proof.
  induction t as [|x t IH]; cbn; intros p v r en' H; [contradiction|].
  destruct (path_eqb (e_path x) p).
  - destruct H as [<-|H]; [exists x; cbn; auto | exists en'; auto].
  - destruct H as [<-|H]; [exists x; auto|]. destruct (IH _ _ _ _ H) as (en & A & B). exists en; auto.
Qed.

(* one write of resolve_constant_simple *)
Lemma set_good : forall ds t all lvl nm e p en v r,
  Good ds t all -> In (ISym lvl nm (SConst e) (Some p)) all -> find_entry p t = Some en ->
  (e_value en = VUnknown \/ e_value en = v) ->
  match find_define (join_dot p) ds with
  | Some dv => v = dv /\ r = true
  | None => v = VUnknown \/ eval (lookup t) e = ROk v
  end ->
  Good ds (set_entry p v r t) all /\ le_lk (lookup t) (lookup (set_entry p v r t)).
Proof.
  intros ds t all lvl nm e p en v r G I F V J.
  assert (LE : le_lk (lookup t) (lookup (set_entry p v r t))) by (eapply lookup_le_set; eauto).
  split; [|exact LE]. constructor.
  - intros it q Hin Hd. destruct (path_eqb q p) eqn:E.
    + apply path_eqb_eq in E. subst q. rewrite (find_set_same _ _ _ _ _ F). discriminate.
    + rewrite find_set_other; [eapply g_declared; eauto|]. intro Q; subst. now rewrite path_eqb_refl in E.
  - apply (g_unique _ _ _ G).
  - intros l2 n2 e2 p2 en2 Hin Hf. destruct (path_eqb p2 p) eqn:E.
    + apply path_eqb_eq in E. subst p2.
      assert (X : ISym l2 n2 (SConst e2) (Some p) = ISym lvl nm (SConst e) (Some p)) by (eapply (g_unique _ _ _ G _ _ p); [exact Hin | exact I | reflexivity | reflexivity]).
      injection X as -> -> ->.
      rewrite (find_set_same _ _ _ _ _ F) in Hf. injection Hf as <-. cbn.
      destruct (find_define (join_dot p) ds) as [dv|].
      * destruct J as [-> ->]. split; [discriminate | reflexivity].
      * destruct J as [->|J]; [now left|]. destruct v as [|b|z]; [now left| |]; right; (eapply eval_mono; [exact LE | exact J | discriminate]).
    + assert (N : p2 <> p) by (intro Q; subst; now rewrite path_eqb_refl in E).
      rewrite find_set_other in Hf by exact N.
      pose proof (g_just _ _ _ G _ _ _ _ _ Hin Hf) as K.
      destruct (find_define (join_dot p2) ds); [exact K|].
      destruct K as [K|K]; [now left|].
      destruct (e_value en2) as [|b|z] eqn:EV; [now left| |]; right; (eapply eval_mono; [exact LE | exact K | discriminate]).
  - intros en' Hin. destruct (set_entry_in _ _ _ _ _ Hin) as (en0 & A & B & C).
    destruct (g_owner _ _ _ G _ A) as (l0 & n0 & s0 & D & K). exists l0, n0, s0. rewrite B, C. auto.
Qed.

(* ------------------------------------------------------------------ resolve_constants_simple *)
Lemma resolve_consts_good : forall optst ds all its t t' n,
  (forall it, In it its -> In it all) -> Good ds t all ->
  resolve_consts optst ds t its = ROk (t', n) ->
  Good ds t' all /\ le_lk (lookup t) (lookup t').
Proof.
  intros optst ds all. induction its as [|it its IH]; intros t t' n Sub G R.
  - cbn in R. injection R as <- <-. split; [exact G | apply le_lk_refl].
  - assert (Sub' : forall x, In x its -> In x all) by (intros x Hx; apply Sub; now right).
    assert (Rest : forall t1 n1, Good ds t1 all -> le_lk (lookup t) (lookup t1) ->
              resolve_consts optst ds t1 its = ROk (t', n1) -> Good ds t' all /\ le_lk (lookup t) (lookup t')).
    { intros t1 n1 G1 L1 R1. destruct (IH _ _ _ Sub' G1 R1) as [G' L']. split; [exact G' | eapply le_lk_trans; eauto]. }
    destruct it as [lvl nm [|e] d | c ta fa | i]; cbn [resolve_consts] in R;
      try (eapply Rest; [exact G | apply le_lk_refl | exact R]).
    destruct d as [p|]; [|discriminate].
    destruct (find_entry p t) as [en|] eqn:F; [|discriminate].
    assert (Hin : In (ISym lvl nm (SConst e) (Some p)) all) by (apply Sub; now left).
    pose proof (g_just _ _ _ G _ _ _ _ _ Hin F) as J.
    destruct (e_resolved en) eqn:ER.
    { destruct (resolve_consts optst ds t its) as [[t1 n1]| | |] eqn:R1; try discriminate.
      injection R as <- <-. eapply Rest; [exact G | apply le_lk_refl | exact R1]. }
    destruct (find_define (join_dot p) ds) as [dv|] eqn:FD.
    { destruct (resolve_consts optst ds (set_entry p dv true t) its) as [[t1 n1]| | |] eqn:R1; try discriminate.
      injection R as <- <-.
      destruct (set_good ds t all lvl nm e p en dv true G Hin F) as [G1 L1].
      - left. now apply J.
      - rewrite FD. auto.
      - eapply Rest; eauto. }
    destruct (eval (lookup t) e) as [v| | |] eqn:EV; try discriminate.
    assert (OLD : e_value en = VUnknown \/ e_value en = v).
    { destruct J as [J|J]; [now left | right; congruence]. }
    destruct v as [|b|z].
    + destruct (set_good ds t all lvl nm e p en VUnknown false G Hin F OLD) as [G1 L1].
      { rewrite FD. now left. }
      eapply Rest; eauto.
    + destruct (resolve_consts optst ds (set_entry p (VBool b) (optst && static_known e) t) its) as [[t1 n1]| | |] eqn:R1; try discriminate.
      injection R as <- <-.
      destruct (set_good ds t all lvl nm e p en (VBool b) (optst && static_known e) G Hin F OLD) as [G1 L1].
      { rewrite FD. now right. }
      eapply Rest; eauto.
    + destruct (resolve_consts optst ds (set_entry p (VInt z) (optst && static_known e) t) its) as [[t1 n1]| | |] eqn:R1; try discriminate.
      injection R as <- <-.
      destruct (set_good ds t all lvl nm e p en (VInt z) (optst && static_known e) G Hin F OLD) as [G1 L1].
      { rewrite FD. now right. }
      eapply Rest; eauto.
Qed.

(* ------------------------------------------------------------------ decls::collect *)
Lemma collect_forget : forall its ctx t its' t', collect ctx t its = ROk (its', t') -> map forget its' = map forget its.
Proof.
  induction its as [|it its IH]; intros ctx t its' t' H; cbn [collect] in H.
  - now injection H as <- <-.
  - destruct it as [lvl nm s [p|] | c ta fa | i].
    + destruct (collect p t its) as [[r' t1]| | |] eqn:R; try discriminate. injection H as <- <-. cbn. f_equal. eauto.
    + destruct (Nat.ltb (length ctx) lvl); [discriminate|].
      destruct (find_entry (firstn lvl ctx ++ [nm]) t); [discriminate|].
      match type of H with match collect ?c ?tt its with _ => _ end = _ => destruct (collect c tt its) as [[r' t1]| | |] eqn:R; try discriminate end.
      injection H as <- <-. cbn. f_equal. eauto.
    + destruct (collect ctx t its) as [[r' t1]| | |] eqn:R; try discriminate. injection H as <- <-. cbn. f_equal. eauto.
    + destruct (collect ctx t its) as [[r' t1]| | |] eqn:R; try discriminate. injection H as <- <-. cbn. f_equal. eauto.
Qed.

Lemma collect_declared : forall its ctx t its' t', collect ctx t its = ROk (its', t') ->
  forall lvl nm s d, In (ISym lvl nm s d) its' -> d <> None.
Proof.
  induction its as [|it its IH]; intros ctx t its' t' H; cbn [collect] in H.
  - injection H as <- <-. intros ? ? ? ? [].
  - destruct it as [lvl nm s [p|] | c ta fa | i].
    + destruct (collect p t its) as [[r' t1]| | |] eqn:R; try discriminate. injection H as <- <-.
      intros l n s0 d [E|I]; [injection E as <- <- <- <-; discriminate | eapply IH; eauto].
    + destruct (Nat.ltb (length ctx) lvl); [discriminate|].
      destruct (find_entry (firstn lvl ctx ++ [nm]) t); [discriminate|].
      match type of H with match collect ?c ?tt its with _ => _ end = _ => destruct (collect c tt its) as [[r' t1]| | |] eqn:R; try discriminate end.
      injection H as <- <-.
      intros l n s0 d [E|I]; [injection E as <- <- <- <-; discriminate | eapply IH; eauto].
    + destruct (collect ctx t its) as [[r' t1]| | |] eqn:R; try discriminate. injection H as <- <-.
      intros l n s0 d [E|I]; [discriminate | eapply IH; eauto].
    + destruct (collect ctx t its) as [[r' t1]| | |] eqn:R; try discriminate. injection H as <- <-.
      intros l n s0 d [E|I]; [discriminate | eapply IH; eauto].
Qed.

Lemma good_move : forall ds t pre it its, Good ds t (pre ++ it :: its) -> Good ds t ((pre ++ [it]) ++ its).
Proof. intros. now rewrite <- app_assoc. Qed.

Lemma collect_good : forall ds its pre ctx t its' t',
  collect ctx t its = ROk (its', t') -> Good ds t (pre ++ its) ->
  Good ds t' (pre ++ its') /\ le_lk (lookup t) (lookup t').
Proof.
  intros ds. induction its as [|it its IH]; intros pre ctx t its' t' H G; cbn [collect] in H.
  - injection H as <- <-. split; [exact G | apply le_lk_refl].
  - assert (Keep : forall c, match collect c t its with
                             | ROk (r', t1) => ROk (it :: r', t1) | RErr e => RErr e | RPanic => RPanic | RFuel => RFuel end = ROk (its', t') ->
                     Good ds t' (pre ++ its') /\ le_lk (lookup t) (lookup t')).
    { intros c K. destruct (collect c t its) as [[r' t1]| | |] eqn:R; try discriminate. injection K as <- <-.
      destruct (IH (pre ++ [it]) _ _ _ _ R (good_move _ _ _ _ _ G)) as [G' L']. rewrite <- app_assoc in G'. now split. }
    destruct it as [lvl nm s [p|] | c ta fa | i]; try (eapply Keep; exact H).
    destruct (Nat.ltb (length ctx) lvl); [discriminate|].
    set (p := firstn lvl ctx ++ [nm]) in *.
    destruct (find_entry p t) eqn:F; [discriminate|].
    set (en := {| e_path := p; e_kind := kind_of s; e_value := VUnknown; e_resolved := false |}) in *.
    destruct (collect p (t ++ [en]) its) as [[r' t1]| | |] eqn:R; try discriminate. injection H as <- <-.
    assert (LE : le_lk (lookup t) (lookup (t ++ [en]))) by (apply lookup_le_app; exact F).
    assert (FN : find_entry p (t ++ [en]) = Some en) by (rewrite find_entry_app, F; cbn; now rewrite path_eqb_refl).
    assert (G1 : Good ds (t ++ [en]) ((pre ++ [ISym lvl nm s (Some p)]) ++ its)).
    { rewrite <- app_assoc. cbn [app]. constructor.
      - intros it q Hin Hd. rewrite find_entry_app.
        apply in_app_or in Hin. destruct Hin as [Hin|[<-|Hin]].
        + pose proof (g_declared _ _ _ G it q (in_or_app _ _ _ (or_introl Hin)) Hd) as D.
          destruct (find_entry q t); [discriminate | contradiction].
        + cbn in Hd. injection Hd as <-. rewrite F. cbn. rewrite path_eqb_refl. discriminate.
        + pose proof (g_declared _ _ _ G it q (in_or_app _ _ _ (or_intror (in_cons _ _ _ Hin))) Hd) as D.
          destruct (find_entry q t); [discriminate | contradiction].
      - intros it1 it2 q H1 H2 D1 D2.
        assert (Split : forall x, In x (pre ++ ISym lvl nm s (Some p) :: its) ->
                          x = ISym lvl nm s (Some p) \/ In x (pre ++ ISym lvl nm s None :: its)).
        { intros x Hx. apply in_app_or in Hx.
          destruct Hx as [Hx|[Hx|Hx]]; [right; apply in_or_app; now left | now left | right; apply in_or_app; right; now right]. }
        assert (Fresh : forall x, In x (pre ++ ISym lvl nm s None :: its) -> decl_of x = Some p -> False).
        { intros x Hx Dx. apply (g_declared _ _ _ G x p Hx Dx). exact F. }
        destruct (Split _ H1) as [E1|O1]; destruct (Split _ H2) as [E2|O2].
        + congruence.
        + subst it1. cbn in D1. injection D1 as <-. exfalso. eapply Fresh; eauto.
        + subst it2. cbn in D2. injection D2 as <-. exfalso. eapply Fresh; eauto.
        + eapply (g_unique _ _ _ G); eauto.
      - intros l2 n2 e2 p2 en2 Hin Hf.
        destruct (path_eqb p2 p) eqn:E.
        + apply path_eqb_eq in E. subst p2. rewrite FN in Hf. injection Hf as <-. cbn.
          destruct (find_define (join_dot p) ds); [split; [reflexivity | discriminate] | now left].
        + assert (N : p2 <> p) by (intro Q; subst; now rewrite path_eqb_refl in E).
          assert (Hin' : In (ISym l2 n2 (SConst e2) (Some p2)) (pre ++ ISym lvl nm s None :: its)).
          { apply in_app_or in Hin. apply in_or_app. destruct Hin as [Hin|[Hin|Hin]]; [now left | congruence | right; now right]. }
          rewrite find_entry_app in Hf.
          destruct (find_entry p2 t) as [x|] eqn:F2.
          * injection Hf as <-. pose proof (g_just _ _ _ G _ _ _ _ _ Hin' F2) as K.
            destruct (find_define (join_dot p2) ds); [exact K|].
            destruct K as [K|K]; [now left|].
            destruct (e_value x) as [|b|z] eqn:EV; [now left| |]; right; (eapply eval_mono; [exact LE | exact K | discriminate]).
          * exfalso. eapply (g_declared _ _ _ G _ p2 Hin'); [reflexivity | exact F2].
      - intros en' Hin. apply in_app_or in Hin. destruct Hin as [Hin|[<-|[]]].
        + destruct (g_owner _ _ _ G _ Hin) as (l0 & n0 & s0 & D & K). exists l0, n0, s0. split; [|exact K].
          apply in_app_or in D. apply in_or_app. destruct D as [D|[D|D]]; [now left | discriminate | right; now right].
        + exists lvl, nm, s. split; [apply in_or_app; right; now left | reflexivity]. }
    destruct (IH _ _ _ _ _ R G1) as [G' L']. rewrite <- app_assoc in G'. cbn [app] in G'.
    split; [exact G' | eapply le_lk_trans; eauto].
Qed.
