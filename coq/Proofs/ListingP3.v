(* C12 lemmas, part 4: the statements of Props/C12.v about the three listing formatters, the digit round trip,
   the regression witness of finding F53 and the concrete examples. *)
From Coq Require Import ZArith NArith List Bool Lia ZifyBool Arith.
From CA Require Import Model.Formats Spec.Decoders Proofs.FmtBase Model.CharCounter Spec.LineCol Proofs.CharCounterP
  Model.Listing Model.SymFormat Spec.ListingSpec Proofs.ListingP Proofs.ListingP2 Proofs.SymFormatP.
Import ListNotations.
Open Scope N_scope.

(* ------------------------------------------------------------------ parameters *)
Lemma valid_base_cases base : valid_base base = true ->
  base = 2 \/ base = 4 \/ base = 8 \/ base = 16 \/ base = 32 \/ base = 64 \/ base = 128.
Proof.
  unfold valid_base. cbn [existsb]. rewrite !orb_true_iff, !N.eqb_eq. intuition (try discriminate).
Qed.

Lemma valid_base_digit base : valid_base base = true ->
  base = 2 ^ bits_per_digit base /\ 1 <= bits_per_digit base <= 7.
Proof.
  intro H. apply valid_base_cases in H.
  destruct H as [->|[->|[->|[->|[->|[->| ->]]]]]]; vm_compute; repeat split; congruence.
Qed.

Lemma params_pos base g : listing_params_ok base g = true -> 0 < g /\ 0 < bits_per_digit base.
Proof.
  unfold listing_params_ok, valid_group. intro H. apply andb_true_iff in H. destruct H as [Hb Hg].
  apply valid_base_digit in Hb. apply andb_true_iff in Hg. lia.
Qed.

Lemma all_clean k bs spans : Forall (tail_clean overshoot_fixed k bs) spans.
Proof. apply Forall_forall. intros s _. left. reflexivity. Qed.

(* ------------------------------------------------------------------ annotated / tcgame / addrspan *)
Definition rows_truthful (fs : fileset) (base g : N) (bs : bits) (spans : list lspan) (rows : list row) : Prop :=
  let k := bits_per_digit base in
  layout_rows overshoot_fixed fs k g bs spans = Ok rows
  /\ Forall2 (fun s r => pos_key (g * k) (r_pos r) = Some (ls_offset s)) (sort_lspans spans) rows
  /\ listed_in_order (row_ok fs (N.to_nat k) (N.to_nat g) bs) (keyed_rows g spans rows) spans = true.

Lemma annotated_truthful fs base g bs spans t :
  listing_params_ok base g = true ->
  format_annotated fs base g bs spans = Ok t ->
  exists rows, rows_truthful fs base g bs spans rows
    /\ t = header [] base (widths_of (bits_per_digit base) g (sort_lspans spans))
           ++ concat (map (render_row_annotated g (widths_of (bits_per_digit base) g (sort_lspans spans))) rows).
Proof.
  intros Hp H. destruct (params_pos base g Hp) as [Hg _].
  unfold format_annotated, format_annotated_gen in H.
  destruct (layout_rows overshoot_fixed fs (bits_per_digit base) g bs spans) as [rows|] eqn:E; [|discriminate].
  injection H as <-. exists rows. split; [|reflexivity].
  destruct (layout_rows_truthful _ _ _ _ _ _ _ Hg (all_clean _ _ _) E) as [P L].
  repeat split; assumption.
Qed.

Lemma tcgame_truthful fs base g bs spans t :
  listing_params_ok base g = true ->
  format_tcgame fs base g bs spans = Ok t ->
  (base = 2 \/ base = 16) /\
  exists rows, rows_truthful fs base g bs spans rows
    /\ t = header [35] base (widths_of (bits_per_digit base) g (sort_lspans spans))
           ++ concat (map (render_row_tcgame base g (widths_of (bits_per_digit base) g (sort_lspans spans))) rows).
Proof.
  intros Hp H. destruct (params_pos base g Hp) as [Hg _].
  unfold format_tcgame, format_tcgame_gen in H.
  destruct ((base =? 2) || (base =? 16)) eqn:B; cbn [negb] in H; [|discriminate].
  split; [apply orb_true_iff in B; rewrite !N.eqb_eq in B; exact B|].
  destruct (layout_rows overshoot_fixed fs (bits_per_digit base) g bs spans) as [rows|] eqn:E; [|discriminate].
  injection H as <-. exists rows. split; [|reflexivity].
  destruct (layout_rows_truthful _ _ _ _ _ _ _ Hg (all_clean _ _ _) E) as [P L].
  repeat split; assumption.
Qed.

Lemma addrspan_truthful fs spans t :
  Forall (loc_on_boundaries fs) spans ->
  format_addrspan fs spans = Ok t ->
  exists rows, layout_addrspan fs spans = Ok rows
    /\ Forall2 (fun s r => pos_key 8 (a_pos r) = Some (ls_offset s)) (sort_lspans spans) rows
    /\ listed_in_order (arow_ok fs) (keyed_arows spans rows) spans = true
    /\ t = addrspan_header ++ concat (map render_arow rows).
Proof.
  intros Hc H. unfold format_addrspan in H.
  destruct (layout_addrspan fs spans) as [rows|] eqn:E; [|discriminate].
  injection H as <-. exists rows.
  destruct (layout_addrspan_truthful fs spans rows Hc E) as [P L]. repeat split; assumption.
Qed.

(* ------------------------------------------------------------------ digits *)
Lemma digit_char_roundtrip k d : d < 2 ^ N.of_nat k -> digit_of_char k (digit_char false d) = Some d.
Proof.
  intro H. unfold digit_of_char, digit_char, bind.
  destruct (N.ltb_spec d 10) as [L|L].
  - replace ((48 <=? 48 + d) && (48 + d <=? 57)) with true by (symmetry; apply andb_true_iff; lia).
    replace (48 + d - 48) with d by lia. destruct (N.ltb_spec d (2 ^ N.of_nat k)); [reflexivity|lia].
  - replace ((48 <=? 97 + (d - 10)) && (97 + (d - 10) <=? 57)) with false by (symmetry; apply andb_false_iff; lia).
    replace (97 <=? 97 + (d - 10)) with true by (symmetry; apply N.leb_le; lia).
    replace (97 + (d - 10) - 87) with d by lia. destruct (N.ltb_spec d (2 ^ N.of_nat k)); [reflexivity|lia].
Qed.

Lemma map_opt_digits k ds : Forall (fun d => d < 2 ^ N.of_nat k) ds ->
  map_opt (digit_of_char k) (map (digit_char false) ds) = Some ds.
Proof.
  induction 1 as [|d r Hd _ IH]; [reflexivity|].
  cbn [map map_opt]. now rewrite digit_char_roundtrip, IH.
Qed.

Lemma digits_roundtrip base g bs off size : listing_params_ok base g = true ->
  let k := bits_per_digit base in
  let ds := span_digits overshoot_fixed bs off size k in
  base = 2 ^ k /\ 1 <= k <= 7
  /\ Forall (fun d => d < base) ds
  /\ map_opt (digit_of_char (N.to_nat k)) (map (digit_char false) ds) = Some ds
  /\ bits_of_vals (N.to_nat k) ds = pad (N.to_nat k) (bits_at bs off size)
  /\ concat (groups_of g ds) = ds /\ groups_ok (N.to_nat g) (groups_of g ds) = true.
Proof.
  intros Hp k ds. destruct (params_pos base g Hp) as [Hg Hk].
  apply andb_true_iff in Hp. destruct Hp as [Hb _]. destruct (valid_base_digit base Hb) as [B K].
  assert (Forall (fun d => d < 2 ^ k) ds) as F.
  { apply Forall_forall. intros d Hd. unfold ds, span_digits in Hd. apply in_map_iff in Hd.
    destruct Hd as (di & <- & _). apply digit_val_lt. }
  split; [exact B|]. split; [exact K|].
  split; [change (Forall (fun d => d < base) ds); rewrite B; exact F|].
  split.
  { apply map_opt_digits. rewrite N2Nat.id. exact F. }
  split; [apply span_digits_pad; exact Hk|].
  apply (chunk_spec (N.to_nat g) ltac:(lia) (length ds) ds (le_n _)).
Qed.

(* ------------------------------------------------------------------ symbols *)
Lemma symbols_truthful globals :
  format_default globals = concat (map render_default (listed_entries globals))
  /\ (forall e, In e (listed_entries globals) <-> exists h x, declared [] globals h x /\ sym_entry h x = Some e)
  /\ (forall l : list sym, nondecreasing (map sym_key (sort_by sym_key l)) = true
        /\ forall i, filter (fun s => sym_index s =? i) (sort_by sym_key l) = filter (fun s => sym_index s =? i) l).
Proof.
  split; [reflexivity|]. split; [apply listed_exactly|].
  intro l. split; [apply sym_level_sorted|apply sym_level_complete].
Qed.

Lemma mesen_truthful globals :
  format_mesen_mlb globals = concat (map render_mesen (listed_entries globals))
  /\ (forall e o, mesen_entry e = Some (MPrg o) ->
        e_kind e <> KConstant /\
        exists b outp, e_bank e = Some b /\ b_outp b = Some outp /\ o = mesen_offset e b outp /\ (0 <= o)%Z)
  /\ (forall e b outp, e_kind e <> KConstant -> e_bank e = Some b -> b_outp b = Some outp ->
        (0 <= b_addr_start b <= e_value e)%Z -> (e_value e <= usize_max)%Z ->
        (e_value e - b_addr_start b + Z.of_N (outp / 8) <= usize_max)%Z ->
        mesen_entry e = if (0 <=? mesen_offset e b outp)%Z then Some (MPrg (mesen_offset e b outp)) else None)
  /\ (forall e b, e_kind e <> KConstant -> e_bank e = Some b -> b_outp b = None -> mesen_entry e = Some (MReg (e_value e)))
  /\ (forall e, e_kind e = KConstant \/ e_bank e = None -> mesen_entry e = None).
Proof.
  split; [reflexivity|]. split; [apply mesen_prg_sound|]. split; [apply mesen_prg_complete|].
  split; [apply mesen_reg|apply mesen_skip].
Qed.

(* ------------------------------------------------------------------ examples *)
(* m.asm = "x:\n#d3 5\n#d1 1\n#d4 9" with a 3-bit address unit: output 101 1 1001 *)
Definition ex_files : fileset :=
  [([109; 46; 97; 115; 109],
    [120; 58; 10; 35; 100; 51; 32; 53; 10; 35; 100; 49; 32; 49; 10; 35; 100; 52; 32; 57])].
Definition ex_bits : bits := [true; false; true; true; true; false; false; true].
Definition ex_spans : list lspan :=
  [mk_lspan (Some 3) 1 1%Z 0 (Some (13, 14));      (* recorded out of output order *)
   mk_lspan (Some 0) 0 0%Z 0 (Some (0, 2));
   mk_lspan (Some 0) 3 0%Z 0 (Some (7, 8));
   mk_lspan (Some 4) 4 1%Z 0 (Some (19, 20))].

(*  " outp | addr | data (base 16)\n\n  0:0 |    0 |    ; x:\n  0:0 |    0 | a  ; 5\n  0:3 |    1 | 8  ; 1\n  0:4 |    1 | 9  ; 9\n" *)
Definition ex_text : list N :=
  [32; 111; 117; 116; 112; 32; 124; 32; 97; 100; 100; 114; 32; 124; 32; 100; 97; 116; 97; 32; 40; 98; 97; 115; 101; 32; 49; 54; 41; 10; 10; 32; 32; 48; 58; 48; 32; 124; 32; 32; 32; 32; 48; 32; 124; 32; 32; 32; 32; 59; 32; 120; 58; 10; 32; 32; 48; 58; 48; 32; 124; 32; 32; 32; 32; 48; 32; 124; 32; 97; 32; 32; 59; 32; 53; 10; 32; 32; 48; 58; 51; 32; 124; 32; 32; 32; 32; 49; 32; 124; 32; 56; 32; 32; 59; 32; 49; 10; 32; 32; 48; 58; 52; 32; 124; 32; 32; 32; 32; 49; 32; 124; 32; 57; 32; 32; 59; 32; 57; 10].

Definition set_nth (n : nat) (c : N) (t : list N) : list N := firstn n t ++ c :: skipn (S n) t.

Definition ex_syms : list sym :=
  [Sym 2 [98] KLabel (Some 32774%Z) false (Some (mk_bankinfo 32768%Z (Some 128))) [];          (* b, declared third *)
   Sym 0 [97] KLabel (Some 32768%Z) false (Some (mk_bankinfo 32768%Z (Some 128)))
       [Sym 3 [122] KConstant (Some (-3)%Z) false None []; Sym 1 [121] KLabel (Some 32772%Z) false (Some (mk_bankinfo 32768%Z (Some 128))) []];
   Sym 4 [104] KConstant (Some 7%Z) true None [];                                               (* noemit *)
   Sym 5 [104; 100] KLabel (Some 2%Z) false (Some (mk_bankinfo 0%Z (Some 0))) []].              (* before the header *)

Lemma example_listing :
  format_annotated ex_files 16 2 ex_bits ex_spans = Ok ex_text
  /\ rows_ok_annotated ex_files 16 2 ex_bits ex_spans ex_text = true
  /\ rows_ok_annotated ex_files 16 2 ex_bits ex_spans (set_nth 69 98 ex_text) = false     (* data `b` instead of `a` *)
  /\ rows_ok_annotated ex_files 16 2 ex_bits ex_spans (set_nth 80 50 ex_text) = false     (* position 0:2 instead of 0:3 *)
  /\ rows_ok_annotated ex_files 16 2 ex_bits ex_spans (set_nth 87 50 ex_text) = false    (* address 2 instead of 1 *)
  /\ (exists t, format_tcgame ex_files 2 3 ex_bits ex_spans = Ok t /\ rows_ok_tcgame ex_files 2 3 ex_bits ex_spans t = true)
  /\ (exists t, format_addrspan ex_files ex_spans = Ok t /\ rows_ok_addrspan ex_files ex_spans t = true).
Proof.
  split; [vm_compute; reflexivity|]. split; [vm_compute; reflexivity|]. split; [vm_compute; reflexivity|].
  split; [vm_compute; reflexivity|]. split; [vm_compute; reflexivity|].
  split; (eexists; split; [vm_compute; reflexivity|vm_compute; reflexivity]).
Qed.

(* finding F53 (repaired in /repo): with the reading used before the repair, the 3-bit item `5` (101) is listed
   as `b` and the 1-bit item `1` as `c`: the listing then fails the specification *)
Lemma pinned_witness :
  exists t, format_annotated_gen false ex_files 16 2 ex_bits ex_spans = Ok t
    /\ nth_error t 69 = Some 98 /\ nth_error t 91 = Some 99
    /\ rows_ok_annotated ex_files 16 2 ex_bits ex_spans t = false.
Proof.
  eexists. split; [vm_compute; reflexivity|]. split; [vm_compute; reflexivity|].
  split; [vm_compute; reflexivity|vm_compute; reflexivity].
Qed.

Lemma example_symbols :
  (* "a = 0x8000\na.y = 0x8004\na.z = 0x-3\nb = 0x8006\nhd = 0x2\n" *)
  format_default ex_syms
  = [97; 32; 61; 32; 48; 120; 56; 48; 48; 48; 10; 97; 46; 121; 32; 61; 32; 48; 120; 56; 48; 48; 52; 10;
     97; 46; 122; 32; 61; 32; 48; 120; 45; 51; 10; 98; 32; 61; 32; 48; 120; 56; 48; 48; 54; 10; 104; 100; 32; 61; 32; 48; 120; 50; 10]
  /\ symbols_ok_default ex_syms (format_default ex_syms) = true
  (* "P:0:a\nP:4:a_y\nP:6:b\n" : hd lies before the 16-byte header and is not listed *)
  /\ format_mesen_mlb ex_syms = [80; 58; 48; 58; 97; 10; 80; 58; 52; 58; 97; 95; 121; 10; 80; 58; 54; 58; 98; 10]
  /\ symbols_ok_mesen ex_syms (format_mesen_mlb ex_syms) = true
  /\ symbols_ok_default ex_syms (format_default ex_syms ++ [104; 32; 61; 32; 48; 120; 55; 10]) = false   (* "h = 0x7" listed *)
  /\ symbols_ok_mesen ex_syms (format_mesen_mlb ex_syms ++ [80; 58; 102; 102; 58; 104; 100; 10]) = false.  (* "P:ff:hd" *)
Proof.
  split; [vm_compute; reflexivity|]. split; [vm_compute; reflexivity|]. split; [vm_compute; reflexivity|].
  split; [vm_compute; reflexivity|]. split; [vm_compute; reflexivity|vm_compute; reflexivity].
Qed.

(* the address the layout assigns: a bank with 12-bit units at address 0x100; its second word is at 0x101 *)
Lemma example_addresses :
  let banks := [mk_bankw 0 0%Z 8 (Some 0) None; mk_bankw 1 256%Z 12 (Some 0) (Some 1200)] in
  addresses_ok banks [mk_lspan (Some 0) 0 256%Z 0 None; mk_lspan (Some 12) 12 257%Z 0 None; mk_lspan (Some 1200) 0 356%Z 0 None] = true
  /\ addresses_ok banks [mk_lspan (Some 12) 12 259%Z 0 None] = false       (* 12 >> 2 instead of 12 / 12 *)
  /\ addresses_ok banks [mk_lspan (Some 12) 12 1%Z 0 None] = false.        (* the default bank is not usable *)
Proof. vm_compute. repeat split; reflexivity. Qed.
