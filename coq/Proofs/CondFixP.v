(* C16: the loop does not stop while a constant is still becoming known.
   The loop of asm::assemble ends when resolve_constants_simple returns the same COUNT as in the previous round and no #if
   was spliced.  The count includes the constants that are already final (flag `resolved`), so an unchanged count means
   that no constant changed state in the last round, hence the final valuation is a fixed point: a constant that is still
   Unknown evaluates to Unknown under the FINAL valuation. *)
From Coq Require Import ZArith NArith List Bool Lia.
From CA Require Import Model.Driver Model.Cond Spec.Select Proofs.DriverP Proofs.CondEvalP Proofs.CondLoopP Proofs.CondSelectP.
Import ListNotations.
Open Scope list_scope.
Open Scope nat_scope.

Lemma eval_ext : forall f g e, (forall l p, f l p = g l p) -> eval f e = eval g e.
Proof.
  intros f g e H. induction e as [b|z|l p|a IH|a IH|o a IHa b IHb]; cbn [eval]; auto.
  - now rewrite H.
  - now rewrite IH.
  - now rewrite IH.
  - now rewrite IHa, IHb.
Qed.

(* what resolve_constants_simple counts: ResolutionState::Resolved *)
Definition definiteb (v : cval) : bool := match v with VUnknown => false | _ => true end.
Definition counted (en : entry) : bool := e_resolved en || definiteb (e_value en).

Definition pos_counted (t : table) (it : item) : nat :=
  match it with
  | ISym _ _ (SConst _) (Some p) => match find_entry p t with Some en => if counted en then 1 else 0 | None => 0 end
  | _ => 0
  end.
Fixpoint C (t : table) (its : list item) : nat :=
  match its with [] => 0 | it :: r => pos_counted t it + C t r end.

Lemma C_app t a b : C t (a ++ b) = C t a + C t b.
Proof. induction a as [|x a IH]; cbn; [reflexivity | rewrite IH; lia]. Qed.

(* entries only gain: counted stays counted, a definite value stays *)
Definition ent_le (t t' : table) : Prop := forall p en, find_entry p t = Some en ->
  exists en', find_entry p t' = Some en' /\ (counted en = true -> counted en' = true) /\
              (e_value en <> VUnknown -> e_value en' = e_value en).

Lemma ent_le_refl t : ent_le t t.
Proof. intros p en H. exists en. auto. Qed.

Lemma ent_le_trans a b c : ent_le a b -> ent_le b c -> ent_le a c.
Proof.
  intros A B p en H. destruct (A p en H) as (e1 & F1 & C1 & V1). destruct (B p e1 F1) as (e2 & F2 & C2 & V2).
  exists e2. split; [exact F2|]. split; [auto|]. intro N. rewrite V2; [auto | rewrite V1; auto].
Qed.

Lemma pos_counted_mono t t' it : ent_le t t' -> pos_counted t it <= pos_counted t' it.
Proof.
  intro L. destruct it as [l nm [|e] [p|] | |]; cbn; try lia.
  destruct (find_entry p t) as [en|] eqn:F; [|lia].
  destruct (L p en F) as (en' & F' & Cn & _). rewrite F'.
  destruct (counted en); [rewrite Cn by reflexivity; lia | destruct (counted en'); lia].
Qed.

Lemma C_mono t t' its : ent_le t t' -> C t its <= C t' its.
Proof. intro L. induction its as [|x r IH]; cbn; [lia|]. pose proof (pos_counted_mono t t' x L). lia. Qed.

Lemma ent_le_set : forall t p v r en, find_entry p t = Some en ->
  (counted en = true -> r || definiteb v = true) -> (e_value en <> VUnknown -> v = e_value en) ->
  ent_le t (set_entry p v r t).
Proof.
  intros t p v r en F Cn Vn q eq Fq. destruct (path_eqb q p) eqn:E.
  - apply path_eqb_eq in E. subst q. rewrite F in Fq. injection Fq as <-.
    rewrite (find_set_same _ _ _ _ _ F). eexists. split; [reflexivity|]. cbn. split; [exact Cn | exact Vn].
  - rewrite find_set_other by (intro Q; subst; now rewrite path_eqb_refl in E). exists eq. auto.
Qed.

Lemma ent_le_app : forall t en, find_entry (e_path en) t = None -> ent_le t (t ++ [en]).
Proof. intros t en H p x F. exists x. rewrite find_entry_app, F. auto. Qed.

Lemma set_entry_same : forall t p en, find_entry p t = Some en -> set_entry p (e_value en) (e_resolved en) t = t.
Proof.
  induction t as [|x t IH]; cbn; intros p en H; [discriminate|].
  destruct (path_eqb (e_path x) p); [injection H as <-; now destruct x | now rewrite IH].
Qed.

Lemma lookup_set_same_value : forall t p v r en, find_entry p t = Some en -> e_value en = v ->
  forall l q, lookup (set_entry p v r t) l q = lookup t l q.
Proof.
  intros t p v r en F V l q. unfold lookup. destruct l; [|reflexivity]. destruct q as [|h q']; [reflexivity|].
  destruct (text_eqb h t_dollar || text_eqb h t_pc); [reflexivity|].
  destruct (path_eqb (h :: q') p) eqn:E.
  - apply path_eqb_eq in E. rewrite E, F, (find_set_same _ _ _ _ _ F). cbn. now rewrite V.
  - rewrite find_set_other; [reflexivity|]. intro Q. rewrite Q, path_eqb_refl in E. discriminate.
Qed.

(* ------------------------------------------------------------------ resolve_constants_simple and its count *)
Definition still_unknown (ds : defines) (g : nat -> path -> cval) (t' : table) (its : list item) : Prop :=
  forall lvl nm e p en, In (ISym lvl nm (SConst e) (Some p)) its -> find_entry p t' = Some en ->
    find_define (join_dot p) ds = None -> e_resolved en = false -> e_value en = VUnknown -> eval g e = ROk VUnknown.

Definition rc_post (ds : defines) (t : table) (its : list item) (t' : table) (n : nat) : Prop :=
  ent_le t t' /\ C t its <= n /\ n <= C t' its /\
  (n = C t its -> (forall l q, lookup t' l q = lookup t l q) /\ still_unknown ds (lookup t) t' its).

Lemma rc_combine : forall ds t t1 t' lvl nm e p tail n1 beta,
  ent_le t t1 -> rc_post ds t1 tail t' n1 ->
  pos_counted t (ISym lvl nm (SConst e) (Some p)) <= beta -> beta <= 1 ->
  (beta = 1 -> exists e1, find_entry p t1 = Some e1 /\ counted e1 = true) ->
  (beta = pos_counted t (ISym lvl nm (SConst e) (Some p)) -> forall l q, lookup t1 l q = lookup t l q) ->
  (beta = pos_counted t (ISym lvl nm (SConst e) (Some p)) -> forall en', find_entry p t' = Some en' ->
      find_define (join_dot p) ds = None -> e_resolved en' = false -> e_value en' = VUnknown -> eval (lookup t) e = ROk VUnknown) ->
  rc_post ds t (ISym lvl nm (SConst e) (Some p) :: tail) t' (beta + n1).
Proof.
  intros ds t t1 t' lvl nm e p tail n1 beta E01 (E1 & Lo & Up & St) Hb Hb1 Hc Hl Hh.
  set (X := ISym lvl nm (SConst e) (Some p)) in *.
  pose proof (C_mono t t1 tail E01) as M01.
  split; [eapply ent_le_trans; eauto|]. split; [cbn [C]; lia|]. split.
  - cbn [C]. assert (beta <= pos_counted t' X); [|lia].
    destruct (Nat.eq_dec beta 1) as [B1|B0]; [|lia].
    destruct (Hc B1) as (e1 & F1 & C1). destruct (E1 p e1 F1) as (e2 & F2 & C2 & _).
    unfold X. cbn. rewrite F2, (C2 C1). lia.
  - cbn [C]. intro EQ.
    assert (B : beta = pos_counted t X) by lia. assert (N1 : n1 = C t1 tail) by lia.
    destruct (St N1) as [LK SU]. split.
    + intros l q. rewrite LK. now apply Hl.
    + intros l2 n2 e2 p2 en2 [I|I] F2 D2 R2 V2.
      * injection I as <- <- <- <-. eapply Hh; eauto.
      * rewrite (eval_ext (lookup t) (lookup t1)) by (intros; symmetry; now apply Hl). eapply SU; eauto.
Qed.

Lemma rc_all : forall optst ds all its t t' n,
  (forall it, In it its -> In it all) -> Good ds t all -> resolve_consts optst ds t its = ROk (t', n) ->
  rc_post ds t its t' n.
Proof.
  intros optst ds all. induction its as [|it its IH]; intros t t' n Sub G R.
  - cbn in R. injection R as <- <-. split; [apply ent_le_refl|]. split; [cbn; lia|]. split; [cbn; lia|].
    intros _. split; [reflexivity | intros ? ? ? ? ? []].
  - assert (Sub' : forall x, In x its -> In x all) by (intros x Hx; apply Sub; now right).
    assert (Skip : pos_counted t it = 0 -> (forall l nm e p, it <> ISym l nm (SConst e) (Some p)) ->
                   resolve_consts optst ds t its = ROk (t', n) -> rc_post ds t (it :: its) t' n).
    { intros Z NC R1. destruct (IH _ _ _ Sub' G R1) as (E1 & Lo & Up & St).
      split; [exact E1|]. split; [cbn [C]; lia|]. split; [cbn [C]; lia|].
      cbn [C]. rewrite Z. intro EQ. destruct (St EQ) as [LK SU]. split; [exact LK|].
      intros l2 n2 e2 p2 en2 [I|I] F2 D2 R2 V2; [now elim (NC _ _ _ _ I) | eapply SU; eauto]. }
    destruct it as [lvl nm [|e] d | c ta fa | i]; cbn [resolve_consts] in R;
      try (apply Skip; [reflexivity | intros; discriminate | exact R]).
    destruct d as [p|]; [|discriminate].
    destruct (find_entry p t) as [en|] eqn:F; [|discriminate].
    assert (Hin : In (ISym lvl nm (SConst e) (Some p)) all) by (apply Sub; now left).
    pose proof (g_just _ _ _ G _ _ _ _ _ Hin F) as J.
    assert (PC : pos_counted t (ISym lvl nm (SConst e) (Some p)) = if counted en then 1 else 0) by (cbn; now rewrite F).
    destruct (e_resolved en) eqn:ER.
    { destruct (resolve_consts optst ds t its) as [[t1 n1]| | |] eqn:R1; try discriminate. injection R as <- <-.
      change (S n1) with (1 + n1). eapply (rc_combine ds t t); [apply ent_le_refl | eapply IH; eauto | | lia | | | ].
      - rewrite PC. destruct (counted en); lia.
      - intros _. exists en. split; [exact F|]. unfold counted. now rewrite ER.
      - reflexivity.
      - intros _ en' F' _ R' _. rewrite (resolve_consts_keeps _ _ _ _ _ _ _ _ R1 F ER) in F'. injection F' as <-. congruence. }
    assert (NCnt : counted en = definiteb (e_value en)) by (unfold counted; now rewrite ER).
    destruct (find_define (join_dot p) ds) as [dv|] eqn:FD.
    { destruct (resolve_consts optst ds (set_entry p dv true t) its) as [[t1 n1]| | |] eqn:R1; try discriminate.
      injection R as <- <-.
      assert (VU : e_value en = VUnknown) by now apply J.
      destruct (set_good ds t all lvl nm e p en dv true G Hin F) as [G1 _]; [now left | rewrite FD; auto|].
      change (S n1) with (1 + n1). eapply (rc_combine ds t (set_entry p dv true t)); [ | eapply IH; eauto | | lia | | | ].
      - eapply ent_le_set; [exact F | reflexivity | rewrite VU; congruence].
      - rewrite PC, NCnt, VU. cbn. lia.
      - intros _. eexists. split; [apply (find_set_same _ _ _ _ _ F) | reflexivity].
      - rewrite PC, NCnt, VU. cbn. discriminate.
      - rewrite PC, NCnt, VU. cbn. discriminate. }
    destruct (eval (lookup t) e) as [w| | |] eqn:EV; try discriminate.
    assert (OLD : e_value en = VUnknown \/ e_value en = w) by (destruct J as [J|J]; [now left | right; congruence]).
    assert (Definite : forall v r, w = v -> definiteb v = true ->
              forall t1 n1, resolve_consts optst ds (set_entry p v r t) its = ROk (t1, n1) ->
              rc_post ds t (ISym lvl nm (SConst e) (Some p) :: its) t1 (1 + n1)).
    { intros v r -> DV t1 n1 R1.
      destruct (set_good ds t all lvl nm e p en v r G Hin F OLD) as [G1 _].
      { rewrite FD. right. exact EV. }
      eapply (rc_combine ds t (set_entry p v r t)); [ | eapply IH; eauto | | lia | | | ].
      - eapply ent_le_set; [exact F | intros _; rewrite DV; apply orb_true_r | intro N; destruct OLD; congruence].
      - rewrite PC. destruct (counted en); lia.
      - intros _. eexists. split; [apply (find_set_same _ _ _ _ _ F)|]. unfold counted. cbn. rewrite DV. apply orb_true_r.
      - rewrite PC. intro B.
        assert (CE : counted en = true) by (destruct (counted en); [reflexivity | discriminate]).
        rewrite NCnt in CE. apply (lookup_set_same_value _ _ _ _ _ F).
        destruct OLD as [O|O]; [rewrite O in CE; cbn in CE; discriminate | exact O].
      - intros _ en' F' _ _ V'.
        destruct (IH _ _ _ Sub' G1 R1) as (E1 & _).
        destruct (E1 p _ (find_set_same _ _ _ _ _ F)) as (e2 & F2 & _ & V2). cbn in V2.
        rewrite F' in F2. injection F2 as <-. rewrite V2 in V'; [subst v; discriminate | intro Q; subst v; discriminate]. }
    destruct w as [|b|z].
    + assert (VU : e_value en = VUnknown) by (destruct OLD; auto).
      assert (T1 : set_entry p VUnknown false t = t).
      { rewrite <- VU, <- ER at 1. now apply set_entry_same. }
      rewrite T1 in R. change n with (0 + n).
      eapply (rc_combine ds t t); [apply ent_le_refl | eapply IH; eauto | | lia | | | ].
      * rewrite PC, NCnt, VU. cbn. lia.
      * discriminate.
      * reflexivity.
      * intros _ en' _ _ _ _. exact EV.
    + destruct (resolve_consts optst ds (set_entry p (VBool b) (optst && static_known e) t) its) as [[t1 n1]| | |] eqn:R1; try discriminate.
      injection R as <- <-. eapply Definite; eauto.
    + destruct (resolve_consts optst ds (set_entry p (VInt z) (optst && static_known e) t) its) as [[t1 n1]| | |] eqn:R1; try discriminate.
      injection R as <- <-. eapply Definite; eauto.
Qed.

(* ------------------------------------------------------------------ collect and resolve_ifs never lower the count *)
Lemma collect_rel : forall its ctx t its' t', collect ctx t its = ROk (its', t') ->
  ent_le t t' /\ Forall2 (fun a b => b = a \/ decl_of a = None) its its'.
Proof.
  induction its as [|it its IH]; intros ctx t its' t' H; cbn [collect] in H.
  - injection H as <- <-. split; [apply ent_le_refl | constructor].
  - destruct it as [lvl nm s [p|] | c ta fa | i].
    + destruct (collect p t its) as [[r' t1]| | |] eqn:R; try discriminate. injection H as <- <-.
      destruct (IH _ _ _ _ R) as [A B]. split; [exact A | constructor; auto].
    + destruct (Nat.ltb (length ctx) lvl); [discriminate|].
      destruct (find_entry (firstn lvl ctx ++ [nm]) t) eqn:F; [discriminate|].
      match type of H with match collect ?c ?tt its with _ => _ end = _ => destruct (collect c tt its) as [[r' t1]| | |] eqn:R; try discriminate end.
      injection H as <- <-. destruct (IH _ _ _ _ R) as [A B]. split.
      * eapply ent_le_trans; [|exact A]. apply ent_le_app. exact F.
      * constructor; [now right | exact B].
    + destruct (collect ctx t its) as [[r' t1]| | |] eqn:R; try discriminate. injection H as <- <-.
      destruct (IH _ _ _ _ R) as [A B]. split; [exact A | constructor; auto].
    + destruct (collect ctx t its) as [[r' t1]| | |] eqn:R; try discriminate. injection H as <- <-.
      destruct (IH _ _ _ _ R) as [A B]. split; [exact A | constructor; auto].
Qed.

Lemma C_forall2 : forall T T' its its', ent_le T T' -> Forall2 (fun a b => b = a \/ decl_of a = None) its its' ->
  C T its <= C T' its'.
Proof.
  intros T T' its its' L F. induction F as [|a b la lb R F IH]; cbn [C]; [lia|].
  assert (pos_counted T a <= pos_counted T' b); [|lia].
  destruct R as [->|N]; [now apply pos_counted_mono|].
  destruct a as [l nm [|e] d | |]; cbn in *; try lia. subst d. lia.
Qed.

Lemma resolve_ifs_C : forall t its its' n, resolve_ifs t its = ROk (its', n) -> forall T, C T its <= C T its'.
Proof.
  intros t. induction its as [|it its IH]; intros its' n H T; cbn [resolve_ifs] in H.
  - injection H as <- <-. cbn. lia.
  - destruct (resolve_ifs t its) as [[r' m]| | |] eqn:R; try discriminate.
    pose proof (IH _ _ eq_refl T) as K.
    assert (Keep : ROk (it :: r', m) = ROk (its', n) -> C T (it :: its) <= C T its').
    { intro E. injection E as <- <-. cbn [C]. lia. }
    destruct it as [lvl nm s d | c ta fa | i]; try (apply Keep; exact H).
    destruct (eval (lookup t) c) as [[|b|z]| | |]; try discriminate; try (apply Keep; exact H).
    injection H as <- <-. rewrite C_app. cbn [C pos_counted]. lia.
Qed.

(* ------------------------------------------------------------------ the round, the loop, the run *)
Lemma round_count : forall optst ds t its prev its2 t2 cnt b,
  round optst ds t its prev = ROk (its2, t2, cnt, b) -> Good ds t its -> prev <= C t its ->
  cnt <= C t2 its2 /\ (b = false -> still_unknown ds (lookup t2) t2 its2).
Proof.
  intros optst ds t its prev its2 t2 cnt b H G P. unfold round in H.
  destruct (collect [] t its) as [[its1 t1]| | |] eqn:Cl; try discriminate.
  destruct (resolve_consts optst ds t1 its1) as [[t2' cnt']| | |] eqn:RC; try discriminate.
  destruct (resolve_ifs t2' its1) as [[its2' nifs]| | |] eqn:RI; try discriminate.
  injection H as <- <- <- <-.
  destruct (collect_good ds its [] [] t its1 t1 Cl G) as [G1 _]. cbn [app] in G1.
  destruct (collect_rel _ _ _ _ _ Cl) as [E01 F2].
  pose proof (C_forall2 _ _ _ _ E01 F2) as M1.
  destruct (rc_all optst ds its1 its1 t1 t2' cnt' (fun _ h => h) G1 RC) as (E12 & Lo & Up & St).
  pose proof (resolve_ifs_C _ _ _ _ RI t2') as M2.
  split; [lia|].
  intro E. apply negb_false_iff, andb_true_iff in E. destruct E as [E1 E2].
  apply Nat.eqb_eq in E1. apply Nat.eqb_eq in E2.
  destruct (resolve_ifs_spec _ _ _ _ RI) as (_ & _ & Z & _). rewrite (Z E2).
  assert (EQ : cnt' = C t1 its1) by lia. destruct (St EQ) as [LK SU].
  intros l2 n2 e2 p2 en2 I F D R V. rewrite (eval_ext (lookup t2') (lookup t1)) by exact LK. eapply SU; eauto.
Qed.

Lemma loop_complete : forall optst ds fuel t its prev itsF tF,
  loop fuel optst ds t its prev = ROk (itsF, tF) -> Good ds t its -> prev <= C t its ->
  still_unknown ds (lookup tF) tF itsF.
Proof.
  intros optst ds. induction fuel as [|k IH]; intros t its prev itsF tF H G P; cbn [loop] in H; [discriminate|].
  destruct (round optst ds t its prev) as [[[[its2 t2] cnt] b]| | |] eqn:R; try discriminate.
  destruct (round_good _ _ _ _ _ _ _ _ _ R G) as (G2 & _).
  destruct (round_count _ _ _ _ _ _ _ _ _ R G P) as [P2 Fin].
  destruct b; [eapply IH; eauto|]. injection H as <- <-. now apply Fin.
Qed.

(* a constant that is still unknown when the loop has ended cannot be evaluated from the final valuation either *)
Lemma run_complete : forall optst ds tree its t, run optst ds tree = ROk (its, t) ->
  forall lvl nm e p en, In (ISym lvl nm (SConst e) (Some p)) its -> find_entry p t = Some en ->
    find_define (join_dot p) ds = None -> e_resolved en = false -> e_value en = VUnknown ->
    eval (lookup t) e = ROk VUnknown.
Proof.
  intros optst ds tree its t H. unfold run, run_fuel in H.
  destruct (loop (fuel_for tree) optst ds [] (map inject tree) 0) as [[itsF tF]| | |] eqn:L; try discriminate.
  destruct (existsb is_if itsF); [discriminate|]. destruct (check_unused ds tF); [|discriminate].
  injection H as <- <-. exact (loop_complete _ _ _ _ _ _ _ _ L (good_init ds tree) (Nat.le_0_l _)).
Qed.
