(* Whole-program statements about Model.Resolver2.assemble2 (banks, bank switches, nested symbols):
   certificate (C02), pass count and budget monotonicity (C09), and the link to C06: the output of a successful
   assembly satisfies the layout invariant of Spec/LayoutInv.v for its banks and items. *)
From Coq Require Import NArith ZArith List Bool Lia Arith.
From CA Require Import Model.Lexer Model.Parser Model.Literal Model.BigIntOps Model.Evaluator Model.Matcher Model.Resolver
  Model.Resolver2 Proofs.ResolverFixP Proofs.ResolverTopP Proofs.Resolver2FixP Proofs.Resolver2MonoP.
From CA Require Model.Paths Model.Overlap Model.Cursor Model.LastPass Model.Output Model.Symbols
  Spec.OverlapSpec Spec.LayoutInv Proofs.SymbolsP Proofs.OutputP.
Import ListNotations.
Open Scope Z_scope.

(* ================================================================= A. symbol indices are distinct *)
(* decls::collect gives every declaration its own ItemRef (the next index of the declaration vector), so a
   symbol index is either a label or a constant: syms_distinct2 holds of every prepared program. *)
Definition fresh_node (a : Symbols.anode) : Prop :=
  match a with Symbols.ASym _ _ _ (Some _) => False | _ => True end.

Fixpoint irefs (ast : list Symbols.anode) : list nat :=
  match ast with
  | [] => []
  | Symbols.ASym _ _ _ (Some i) :: r => i :: irefs r
  | _ :: r => irefs r
  end.

Lemma declare_idx m ctx name level kind m1 i :
  Symbols.declare m ctx name level kind = Paths.ROk (m1, i) ->
  i = length (Symbols.m_decls m) /\ length (Symbols.m_decls m1) = S (length (Symbols.m_decls m)).
Proof.
  unfold Symbols.declare.
  destruct (Nat.ltb (length ctx) level); [discriminate|].
  destruct (Symbols.get_parent m None (firstn level ctx)) as [parent| | |]; try discriminate.
  destruct (Symbols.get_children m parent) as [ch| | |]; try discriminate.
  destruct (Symbols.aget name ch) as [dup|].
  { destruct (nth_error (Symbols.m_decls m) dup); discriminate. }
  destruct (Symbols.insert_child m parent name (length (Symbols.m_decls m))) as [m2| | |] eqn:E; try discriminate.
  assert (L : length (Symbols.m_decls m2) = length (Symbols.m_decls m)).
  { unfold Symbols.insert_child in E. destruct parent as [p|].
    - destruct (nth_error (Symbols.m_decls m) p); [|discriminate]. inversion E; subst; cbn.
      apply SymbolsP.length_set_nth.
    - inversion E; reflexivity. }
  match goal with |- match ?x with Some _ => _ | None => _ end = _ -> _ => destruct x; [|discriminate] end.
  intro H. inversion H; subst. split; [reflexivity|]. cbn. rewrite app_length. cbn. lia.
Qed.

Lemma collect_loop_irefs : forall nodes m ctx m' ast, Forall fresh_node nodes ->
  Symbols.collect_loop m ctx nodes = Paths.ROk (m', ast) ->
  irefs ast = seq (length (Symbols.m_decls m)) (length (irefs ast)) /\
  length (Symbols.m_decls m') = (length (Symbols.m_decls m) + length (irefs ast))%nat.
Proof.
  induction nodes as [|a nodes IH]; intros m ctx m' ast Hf H; cbn [Symbols.collect_loop] in H.
  - inversion H; subst. cbn. split; [reflexivity|lia].
  - inversion Hf as [|? ? Ha Hr]; subst.
    destruct a as [l n k ir|].
    + destruct ir as [i|]; [destruct Ha|].
      destruct (Symbols.declare m ctx n l k) as [[m1 i]| | |] eqn:D; try discriminate.
      destruct (nth_error (Symbols.m_decls m1) i) as [d|]; [|discriminate].
      destruct (Symbols.collect_loop m1 (Symbols.sd_ctx d) nodes) as [[m2 r']| | |] eqn:C; try discriminate.
      inversion H; subst; clear H.
      destruct (declare_idx _ _ _ _ _ _ _ D) as [-> L1].
      destruct (IH _ _ _ _ Hr C) as [I1 I2]. cbn [irefs length seq].
      rewrite L1 in I1, I2. split; [f_equal; exact I1|lia].
    + destruct (Symbols.collect_loop m ctx nodes) as [[m2 r']| | |] eqn:C; try discriminate.
      inversion H; subst; clear H. cbn [irefs]. eapply IH; eauto.
Qed.

Definition sym_ref (n : cnode) : list nat :=
  match fst n with XLabel s _ => [s] | XConst s _ _ => [s] | _ => [] end.
Definition sym_refs (ns : list cnode) : list nat := flat_map sym_ref ns.

Lemma data_nodes_refs w : forall es d c, sym_refs (data_nodes w es d c) = [].
Proof. induction es as [|e es IH]; intros d c; cbn; auto; try apply IH. Qed.

Lemma build_nodes_refs bn : forall ps ast ctxs k ns,
  build_nodes bn ps ast ctxs k = Some ns -> sym_refs ns = irefs ast.
Proof.
  induction ps as [|p ps IH]; intros ast ctxs k ns H; destruct ast as [|a ast]; destruct ctxs as [|c ctxs];
    cbn [build_nodes] in H; try discriminate.
  - inversion H; reflexivity.
  - destruct p; destruct a as [l0 n0 k0 [r|]|]; try discriminate;
      try (match type of H with context [find_sym ?a ?b ?c] => destruct (find_sym a b c); [|discriminate] end);
      match type of H with match build_nodes ?a ?b ?c ?d ?e with Some _ => _ | None => _ end = _ =>
        destruct (build_nodes a b c d e) as [rest|] eqn:B; [|discriminate] end;
      inversion H; subst; clear H; unfold sym_refs;
      try (rewrite flat_map_app; fold (sym_refs (data_nodes width elems (k_d k) c)); rewrite data_nodes_refs);
      cbn [flat_map sym_ref fst app irefs]; fold (sym_refs rest); rewrite (IH _ _ _ _ B); reflexivity.
Qed.

Lemma refs_distinct ns : NoDup (sym_refs ns) -> syms_distinct2 ns.
Proof.
  intros Hn s d0 d0' e c c' H1 H2.
  apply in_split in H1. destruct H1 as (l1 & l2 & ->).
  unfold sym_refs in Hn. rewrite flat_map_app in Hn. cbn in Hn.
  apply NoDup_remove_2 in Hn. apply Hn.
  apply in_app_or in H2. destruct H2 as [H2|[H2|H2]]; [|discriminate H2|].
  - apply in_or_app. left. apply in_flat_map. exists (XConst s d0' e, c'). split; [exact H2|now left].
  - apply in_or_app. right. apply in_flat_map. exists (XConst s d0' e, c'). split; [exact H2|now left].
Qed.

Theorem prepare_distinct ps m ns : prepare ps = Some (m, ns) -> syms_distinct2 ns.
Proof.
  unfold prepare. destruct (negb (no_dup_names (bank_names ps))); [discriminate|].
  destruct (Symbols.collect Symbols.mgr_new (map anode_of ps)) as [[m0 ast]| | |] eqn:C; try discriminate.
  destruct (Symbols.node_ctxs m0 Symbols.ctx_global ast) as [ctxs| | |]; try discriminate.
  destruct (build_nodes (bank_names ps) ps ast ctxs (mkCnt 0 0 0 0 0 0)) as [ns0|] eqn:B; [|discriminate].
  intro H. inversion H; subst; clear H.
  apply refs_distinct. rewrite (build_nodes_refs _ _ _ _ _ _ B).
  unfold Symbols.collect in C.
  assert (Hf : Forall fresh_node (map anode_of ps)).
  { apply Forall_forall. intros a Ha. apply in_map_iff in Ha. destruct Ha as (p & <- & _). destruct p; exact I. }
  destruct (collect_loop_irefs _ _ _ _ _ Hf C) as [-> _]. apply seq_NoDup.
Qed.

(* ================================================================= B. the invariant holds before the first pass *)
Lemma init2_labels_ok indexed defs nsyms ns st : init_state2 indexed defs nsyms ns = Some st -> labels_ok2 ns st.
Proof.
  unfold init_state2. cbv zeta.
  match goal with |- (if ?c then _ else _) = _ -> _ => destruct c; [discriminate|] end.
  intro H. inversion H; subst; clear H. intros s d0 c _. cbn [s_sym]. left. apply nth_repeat_unknown.
Qed.

Lemma simple_round2_labels_ok m all : syms_distinct2 all ->
  forall ns st st' cnt0 cnt, (forall n, In n ns -> In n all) -> labels_ok2 all st ->
  (fix go (ns : list cnode) (st : state) (cnt : nat) : eres (state * nat) :=
     match ns with
     | [] => EOk (st, cnt)
     | (XConst s _ e, _) :: r =>
       match eval code_ops (pvar_simple2 m st) e [] with
       | EErr => EErr
       | EOk (VFailed, _) => EErr
       | EOk (v, _) =>
         let st' := {| s_sym := set_nth (s_sym st) s v; s_instr := s_instr st; s_data := s_data st; s_res := s_res st; s_align := s_align st; s_addr := s_addr st |} in
         go r st' (match v with VUnknown => cnt | _ => S cnt end)
       end
     | _ :: r => go r st cnt
     end) ns st cnt0 = EOk (st', cnt) -> labels_ok2 all st'.
Proof.
  intro Hd. induction ns as [|n ns IH]; intros st st' cnt0 cnt Hsub Hl H.
  - inversion H; subst. exact Hl.
  - assert (Hsub' : forall x, In x ns -> In x all) by (intros x Hx; apply Hsub; now right).
    destruct n as [[s d0|s d0 e|i src|width d e|k e|k e|k e|bi|e] c]; try (eapply IH; eauto; fail).
    destruct (eval code_ops (pvar_simple2 m st) e []) as [[v c0]|]; [|discriminate].
    assert (Hl' : labels_ok2 all {| s_sym := set_nth (s_sym st) s v; s_instr := s_instr st; s_data := s_data st; s_res := s_res st; s_align := s_align st; s_addr := s_addr st |}).
    { intros s0 d1 c1 Hs0. cbn [s_sym]. assert (s0 <> s) by (intro; subst; eapply Hd; eauto; apply Hsub; now left).
      rewrite nth_set_nth_other by assumption. eapply Hl, Hs0. }
    destruct v; try discriminate; eapply IH; eauto.
Qed.

Lemma simple_loop2_labels_ok m ns : syms_distinct2 ns -> forall fuel st prev st',
  labels_ok2 ns st -> simple_loop2 fuel m ns st prev = EOk st' -> labels_ok2 ns st'.
Proof.
  intro Hd. induction fuel as [|f IH]; intros st prev st' Hl H; cbn [simple_loop2] in H.
  - inversion H; subst. exact Hl.
  - destruct (simple_round2 m ns st) as [[s c]|] eqn:E; [|discriminate].
    assert (labels_ok2 ns s) by (unfold simple_round2 in E; eapply simple_round2_labels_ok with (ns := ns); eauto).
    destruct (Nat.eqb c prev); [inversion H; subst; assumption|eauto].
Qed.

Lemma setup_ok indexed defs ps m ns banks st1 :
  setup indexed defs ps = Some (m, ns, banks, st1) -> syms_distinct2 ns /\ labels_ok2 ns st1.
Proof.
  unfold setup.
  destruct (prepare ps) as [[m0 ns0]|] eqn:P; [|discriminate].
  destruct (init_state2 indexed defs (length (Symbols.m_decls m0)) ns0) as [st0|] eqn:E0; [|discriminate].
  destruct (simple_loop2 (S (length ns0)) m0 ns0 st0 0) as [s1|] eqn:E1; [|discriminate].
  destruct (define_banks m0 s1 (bank_fields ps)) as [bs|]; [|discriminate].
  intro H. inversion H; subst; clear H.
  pose proof (prepare_distinct _ _ _ P) as Hd. split; [exact Hd|].
  eapply simple_loop2_labels_ok; eauto. eapply init2_labels_ok; eauto.
Qed.

(* ================================================================= C. the theorems *)
(* C02: every successful assembly carries a certificate, the symbol values, banks and output of the result are
   those of the certified state, and the reported pass count is within the budget; there is no other way to
   obtain output. *)
Theorem assemble2_certificate_inv indexed defs ps budget r :
  assemble2 indexed defs ps budget = Ok r ->
  exists m ns st1 st,
    setup indexed defs ps = Some (m, ns, r_banks r, st1) /\
    labels_ok2 ns st /\
    Certified2 m (r_banks r) defs max_bits ns st /\
    r_syms r = symbol_values m st /\
    out_nodes st ns = Ok (r_nodes r) /\
    Output.output_stage (Z.to_N max_bits) (r_banks r) (r_nodes r) = Ok (r_bits r, r_items r) /\
    (r_iters r <= budget)%nat.
Proof.
  intro H. unfold assemble2 in H.
  destruct (setup indexed defs ps) as [[[[m ns] banks] st1]|] eqn:S; [|discriminate].
  destruct (loop2 m banks defs max_bits ns budget 0 budget st1) as [[st n]| |] eqn:L; try discriminate.
  destruct (out_nodes st ns) as [vs| |] eqn:O; try discriminate.
  destruct (Output.output_stage (Z.to_N max_bits) banks vs) as [[bits items]| |] eqn:B; try discriminate.
  inversion H; subst; clear H. cbn [r_banks r_syms r_nodes r_bits r_items r_iters].
  destruct (setup_ok _ _ _ _ _ _ _ S) as [Hd Hl].
  destruct (loop2_inv m banks defs max_bits ns Hd budget 0 budget st1 st n Hl L ltac:(lia)) as [Hl' [Hc Hn]].
  exists m, ns, st1, st. auto 10.
Qed.

Theorem assemble2_certificate indexed defs ps budget r :
  assemble2 indexed defs ps budget = Ok r ->
  exists m ns st1 st,
    setup indexed defs ps = Some (m, ns, r_banks r, st1) /\
    Certified2 m (r_banks r) defs max_bits ns st /\
    r_syms r = symbol_values m st /\
    out_nodes st ns = Ok (r_nodes r) /\
    Output.output_stage (Z.to_N max_bits) (r_banks r) (r_nodes r) = Ok (r_bits r, r_items r) /\
    (r_iters r <= budget)%nat.
Proof.
  intro H. unfold assemble2 in H.
  destruct (setup indexed defs ps) as [[[[m ns] banks] st1]|] eqn:S; [|discriminate].
  destruct (loop2 m banks defs max_bits ns budget 0 budget st1) as [[st n]| |] eqn:L; try discriminate.
  destruct (out_nodes st ns) as [vs| |] eqn:O; try discriminate.
  destruct (Output.output_stage (Z.to_N max_bits) banks vs) as [[bits items]| |] eqn:B; try discriminate.
  inversion H; subst; clear H. cbn [r_banks r_syms r_nodes r_bits r_items r_iters].
  destruct (setup_ok _ _ _ _ _ _ _ S) as [Hd Hl].
  destruct (certificate2 m banks defs max_bits ns budget st1 st n Hd Hl L) as [Hc Hn].
  exists m, ns, st1, st. auto 10.
Qed.

(* C09: a larger budget gives the identical result (bits, items, banks, symbol values) *)
Theorem assemble2_budget_monotone indexed defs ps b b' r :
  (1 <= b)%nat -> (b <= b')%nat ->
  assemble2 indexed defs ps b = Ok r ->
  exists n', assemble2 indexed defs ps b' = Ok (mkResult (r_bits r) (r_items r) (r_banks r) (r_syms r) n' (r_nodes r)).
Proof.
  intros Hb Hle H. unfold assemble2 in *.
  destruct (setup indexed defs ps) as [[[[m ns] banks] st1]|] eqn:S; [|discriminate].
  destruct (loop2 m banks defs max_bits ns b 0 b st1) as [[st n]| |] eqn:L; try discriminate.
  destruct (setup_ok _ _ _ _ _ _ _ S) as [Hd Hl].
  destruct (budget_monotone2 m banks defs max_bits ns b b' st1 st n Hl Hd Hb Hle L) as [n' Hn'].
  rewrite Hn'.
  destruct (out_nodes st ns) as [vs| |]; try discriminate.
  destruct (Output.output_stage (Z.to_N max_bits) banks vs) as [[bits items]| |]; try discriminate.
  inversion H; subst; clear H. cbn. eauto.
Qed.

(* the pass count alone *)
Theorem assemble2_passes indexed defs ps budget r :
  assemble2 indexed defs ps budget = Ok r -> (r_iters r <= budget)%nat.
Proof. intro H. destruct (assemble2_certificate _ _ _ _ _ H) as (m & ns & st1 & st & _ & _ & _ & _ & _ & Hn). exact Hn. Qed.

(* with an #assert directive the loop cannot stop early (the directive is only decided on the last pass): the
   reported pass count is the budget itself *)
Theorem assemble2_assert_count indexed defs ps budget r m ns banks st1 :
  setup indexed defs ps = Some (m, ns, banks, st1) -> has_assert ns = true -> (1 <= budget)%nat ->
  assemble2 indexed defs ps budget = Ok r -> r_iters r = budget.
Proof.
  intros S Ha Hb H. unfold assemble2 in H. rewrite S in H.
  destruct (loop2 m banks defs max_bits ns budget 0 budget st1) as [[st n]| |] eqn:L; try discriminate.
  destruct (out_nodes st ns) as [vs| |]; try discriminate.
  destruct (Output.output_stage (Z.to_N max_bits) banks vs) as [[bits items]| |]; try discriminate.
  inversion H; subst; clear H. cbn [r_iters].
  eapply loop2_assert_count; eauto; lia.
Qed.

(* C02b / C06: the output of a successful assembly satisfies the layout invariant for its banks and items:
   no two items share an output bit, every item lies inside its bank's size and window at
   outp + (addr - addr_start) * unit + bit offset, every bit outside the items is zero, and the length is exactly
   the end of the last item with bits or filled bank -- for EVERY successful assembly (since the F49 repair a zero-sized
   written item no longer extends the output) -- and the windows of the user-defined banks are pairwise disjoint. *)
Theorem C02b_output_is_layout_ok indexed defs ps budget r :
  assemble2 indexed defs ps budget = Ok r ->
  LayoutInv.layout_ok (r_banks r) (r_items r) (r_bits r) = true /\ LayoutInv.windows_ok (r_banks r) = true.
Proof.
  intros H.
  destruct (assemble2_certificate _ _ _ _ _ H) as (m & ns & st1 & st & _ & _ & _ & _ & Ho & _).
  unfold Output.output_stage in Ho.
  destruct (Output.check_bank_overlap (r_banks r)) as [[]| |] eqn:W; try discriminate.
  split.
  - eapply OutputP.layout_full; eauto.
  - apply OutputP.bank_windows_b. exact W.
Qed.

(* the same clause by clause (the length as a formula: zero-sized items do not count), and the written bits are the
   encodings *)
Theorem C02b_output_layout_partial indexed defs ps budget r :
  assemble2 indexed defs ps budget = Ok r ->
  forallb (LayoutInv.item_ok (r_banks r)) (r_items r) = true /\
  OverlapSpec.pairwise_disjointb (LayoutInv.ranges (r_items r)) = true /\
  LayoutInv.unwritten_zero (r_items r) (r_bits r) = true /\
  N.of_nat (length (r_bits r)) = N.max (LayoutInv.fill_end (r_banks r)) (OutputP.written_end (r_items r)) /\
  LayoutInv.content_ok (r_items r) (r_bits r) = true /\
  LayoutInv.windows_ok (r_banks r) = true.
Proof.
  intro H.
  destruct (assemble2_certificate _ _ _ _ _ H) as (m & ns & st1 & st & _ & _ & _ & _ & Ho & _).
  unfold Output.output_stage in Ho.
  destruct (Output.check_bank_overlap (r_banks r)) as [[]| |] eqn:W; try discriminate.
  destruct (OutputP.layout_partial _ _ _ _ _ Ho) as (A & B & C & D & E).
  repeat split; auto. apply OutputP.bank_windows_b. exact W.
Qed.

(* ================================================================= D. non-vacuity *)
(* #bankdef b { bits = 4, addr = 16, outp = 0 } / top: / .loc: / #d8 .loc / ..d = top.loc + 1 *)
Definition ex_prog2 : list pnode :=
  [ PBankdef [98%N] (mkFields (Some (ENum 4 None)) None (Some (ENum 16 None)) None None (Some (ENum 0 None)) false);
    PLabel 0 [116%N; 111%N; 112%N];
    PLabel 1 [108%N; 111%N; 99%N];
    PData (Some 8%N) [EVar 1 [[108%N; 111%N; 99%N]]];
    PConst 2 [100%N] (EBin Add (EVar 0 [[116%N; 111%N; 112%N]; [108%N; 111%N; 99%N]]) (ENum 1 None)) ].

Example assemble2_nonvacuous :
  exists r, assemble2 true [] ex_prog2 3 = Ok r /\
    r_bits r = [false; false; false; true; false; false; false; false] /\ r_iters r = 2%nat /\
    map snd (r_syms r) = [VInt (un 16); VInt (un 16); VInt (un 17)] /\
    length (r_banks r) = 2%nat /\ Forall OutputP.no_empty_emit (r_nodes r).
Proof.
  eexists. split; [vm_compute; reflexivity|]. cbn [r_bits r_iters r_syms r_banks r_nodes map snd length].
  repeat split. repeat constructor.
Qed.

(* budget 1 cannot confirm the labels; every budget >= 2 gives the result above *)
Example assemble2_budget_nonvacuous :
  assemble2 true [] ex_prog2 1 = Err /\
  exists r, assemble2 true [] ex_prog2 2 = Ok r /\ r_iters r = 2%nat.
Proof. split; [vm_compute; reflexivity|]. eexists. split; vm_compute; reflexivity. Qed.

(* ---- #assert directives ---- *)
Definition ex_true : expr := EBin Eq (ENum 1 None) (ENum 1 None).
Definition ex_false : expr := EBin Eq (ENum 1 None) (ENum 2 None).
Definition ex_lbl : text := [108%N].                                   (* l *)
(* #d8 7 / l: / #assert l == 1 / #assert $ == 1            (address-dependent, true) *)
Definition ex_assert_addr (n : N) : list pnode :=
  [ PData (Some 8%N) [ENum 7 None]; PLabel 0 ex_lbl;
    PAssert (EBin Eq (EVar 0 [ex_lbl]) (ENum n None)); PAssert (EBin Eq (EVar 0 [[36%N]]) (ENum n None)) ].

(* a true assertion: assembles at every budget >= 2 (budget 1 cannot confirm `#d8 7`), and the pass count IS the budget *)
Example assert_true_nonvacuous :
  assemble2 true [] [PData (Some 8%N) [ENum 7 None]; PAssert ex_true] 1 = Err /\
  (exists r, assemble2 true [] [PData (Some 8%N) [ENum 7 None]; PAssert ex_true] 2 = Ok r /\ r_iters r = 2%nat) /\
  (exists r, assemble2 true [] [PData (Some 8%N) [ENum 7 None]; PAssert ex_true] 5 = Ok r /\ r_iters r = 5%nat /\
             r_bits r = [false; false; false; false; false; true; true; true]).
Proof.
  split; [vm_compute; reflexivity|]. split; eexists; (split; [vm_compute; reflexivity|]); vm_compute; auto.
Qed.

(* a false assertion never assembles: budgets 1..4 *)
Example assert_false_nonvacuous :
  forallb (fun b => match assemble2 true [] [PData (Some 8%N) [ENum 7 None]; PAssert ex_false] b with Err => true | _ => false end)
          [1; 2; 3; 4]%nat = true.
Proof. vm_compute. reflexivity. Qed.

(* address-dependent: `l == 1` and `$ == 1` hold after `#d8 7`; `== 2` does not *)
Example assert_address_nonvacuous :
  (exists r, assemble2 true [] (ex_assert_addr 1) 3 = Ok r /\ r_iters r = 3%nat) /\
  assemble2 true [] (ex_assert_addr 2) 3 = Err /\ assemble2 true [] (ex_assert_addr 1) 1 = Err.
Proof. split; [eexists; split; vm_compute; reflexivity|]. split; vm_compute; reflexivity. Qed.

(* unresolvable / ill-typed conditions: an undeclared symbol, and a condition that is not a boolean *)
Example assert_unresolvable_nonvacuous :
  assemble2 true [] [PAssert (EVar 0 [[113%N]])] 3 = Err /\ assemble2 true [] [PAssert (ENum 5 None)] 3 = Err /\
  (exists r, assemble2 true [] [PAssert ex_true] 1 = Ok r /\ r_iters r = 1%nat).
Proof. split; [vm_compute; reflexivity|]. split; [vm_compute; reflexivity|]. eexists; split; vm_compute; reflexivity. Qed.
