(* C05 round trip, the levels of the precedence-climbing parser, generically in the text:
   `Parses g bad n dp s e` : the level parser g reads the text s (after an optional blank, followed by any text r
   whose first token is not in `bad`) as the tree e and stops exactly in front of r, for every fuel >= n and
   every recursion counter d with d + dp <= PARSE_DEPTH_MAX.
   - one "stop" lemma per level (the level's parser returns what the next tighter parser returned when the
     follower is not one of its operators);
   - ONE generic lemma family for a left-associative level (`loop_base`, `loop_step`, `loop_close`), for an
     arbitrary operator list `ops` that satisfies `level_ok p ops`; the table lemma `level_split` instantiates it
     over the ten levels of `level_ops`. *)
From Coq Require Import NArith List Bool Arith Lia ZifyBool.
From CA Require Import Model.Lexer Model.Parser Spec.Printer Proofs.ParseWfP Proofs.RoundTripLex.
Import ListNotations.
Open Scope N_scope.

(* ---------- which tokens continue an operand printed at level p ---------- *)
Definition tok_level (k : tkind) : option nat :=
  match k with
  | TQuestion => Some 0 | TEqual => Some 1
  | TAt => Some 2 | TDoubleVerticalBar => Some 3 | TDoubleAmpersand => Some 4
  | TDoubleEqual | TExclamationEqual | TLessThan | TLessThanEqual | TGreaterThan | TGreaterThanEqual => Some 5
  | TVerticalBar => Some 6 | TCircumflex => Some 7 | TAmpersand => Some 8
  | TDoubleLessThan | TDoubleGreaterThan => Some 9 | TPlus | TMinus => Some 10
  | TAsterisk | TSlash | TPercent => Some 11
  | TBracketOpen => Some 12 | TGrave => Some 13 | TParenOpen => Some 15 | TDot => Some 16
  | _ => None
  end%nat.
Definition badp (p : nat) (k : tkind) : bool := match tok_level k with Some q => Nat.leb p q | None => false end.
(* at the expression level: also `:` when the operand ends with an else-less ternary *)
Definition bad0 (open : bool) (k : tkind) : bool := badp 0 k || (open && tkind_eqb k TColon).

Lemma badp_mono p p' k : (p <= p')%nat -> badp p k = false -> badp p' k = false.
Proof. unfold badp. destruct (tok_level k); [|reflexivity]. intros. apply Nat.leb_gt. apply Nat.leb_gt in H0. lia. Qed.
Lemma bad0_badp o p k : bad0 o k = false -> badp p k = false.
Proof. unfold bad0. intro H. apply orb_false_elim in H. destruct H as [H _]. revert H. apply badp_mono. lia. Qed.
Lemma bad0_mono o k : bad0 true k = false -> bad0 o k = false.
Proof. unfold bad0. destruct o; [auto|]. intro H. apply orb_false_elim in H. destruct H as [-> _]. reflexivity. Qed.

Definition Parses (g : nat -> nat -> walker -> pres expr) (bad : tkind -> bool) (n dp : nat) (s : text) (e : expr) : Prop :=
  forall f d c b r, blank b -> (n <= f)%nat -> (d + dp <= PARSE_DEPTH_MAX)%nat -> Follow bad r ->
    g f d (W c (b ++ s ++ r)) = POk e (W (c + bytes_len b + bytes_len s) r).

Lemma Parses_weaken g bad bad' n n' dp dp' s e :
  Parses g bad n dp s e -> (forall k, bad' k = false -> bad k = false) -> (n <= n')%nat -> (dp <= dp')%nat ->
  Parses g bad' n' dp' s e.
Proof.
  intros H Hb Hn Hd f d c b r Hbl Hf Hdp HF. apply H; try assumption; try lia.
  revert HF. apply follow_weaken. exact Hb.
Qed.

Lemma Parses_fuel g bad n n' dp s e : Parses g bad n dp s e -> (n <= n')%nat -> Parses g bad n' dp s e.
Proof. intros H Hn. apply (Parses_weaken _ _ _ _ _ _ _ _ _ H); auto. Qed.
Lemma Parses_bad g bad bad' n dp s e : Parses g bad n dp s e -> (forall k, bad' k = false -> bad k = false) -> Parses g bad' n dp s e.
Proof. intros H Hb. apply (Parses_weaken _ _ _ _ _ _ _ _ _ H); auto. Qed.

(* using a Parses fact on a goal whose text is only provably of the right shape *)
Lemma Parses_use g bad n dp s e : Parses g bad n dp s e ->
  forall f d c b r t, t = b ++ s ++ r -> blank b -> (n <= f)%nat -> (d + dp <= PARSE_DEPTH_MAX)%nat -> Follow bad r ->
    g f d (W c t) = POk e (W (c + bytes_len b + bytes_len s) r).
Proof. intros H f d c b r t -> Hb Hf Hd HF. apply H; assumption. Qed.

Lemma blank_nil : blank []. Proof. left; reflexivity. Qed.
Lemma blank_sp : blank [32]. Proof. right; reflexivity. Qed.
#[export] Hint Resolve blank_nil blank_sp : rt.

(* ---------- stop lemmas: leaf -> call -> unary -> short -> slice -> levels [] ---------- *)
Lemma lift_call bad n dp s e : Parses parse_leaf bad n dp s e -> bad TParenOpen = true ->
  Parses parse_call bad (S n) dp s e.
Proof.
  intros H Hb f d c b r Hbl Hf Hd HF. destruct f as [|f]; [lia|]. rewrite parse_call_S.
  rewrite (H f d c b r Hbl) by (assumption || lia). cbn [bind].
  destruct (at_linebreak _); [reflexivity|]. rewrite (follow_maybe bad r _ TParenOpen HF Hb). reflexivity.
Qed.

Lemma lift_unary bad n dp s e : Parses parse_call bad n dp s e -> lstarts s -> Parses parse_unary bad (S n) dp s e.
Proof.
  intros H Hs f d c b r Hbl Hf Hd HF. destruct f as [|f]; [lia|]. rewrite parse_unary_S.
  destruct s as [|x s]; [contradiction|]. cbn [lstarts] in Hs.
  destruct (lstart_kind x (s ++ r) Hs) as [Hw Hk]. apply leaf_kind_facts in Hk. destruct Hk as (Hi & He & Hm).
  change ((x :: s) ++ r) with (x :: s ++ r).
  rewrite (kind_maybe_none c b x (s ++ r) TExclamation Hbl Hw Hi He).
  rewrite (kind_maybe_none c b x (s ++ r) TMinus Hbl Hw Hi Hm).
  apply (H f d c b r Hbl); assumption || lia.
Qed.

Lemma lift_short bad n dp s e : Parses parse_unary bad n dp s e -> bad TGrave = true ->
  Parses parse_short bad (S n) dp s e.
Proof.
  intros H Hb f d c b r Hbl Hf Hd HF. destruct f as [|f]; [lia|]. rewrite parse_short_S.
  rewrite (H f d c b r Hbl) by (assumption || lia). cbn [bind].
  destruct (at_linebreak _); [reflexivity|]. rewrite (follow_maybe bad r _ TGrave HF Hb). reflexivity.
Qed.

Lemma lift_slice bad n dp s e : Parses parse_short bad n dp s e -> bad TBracketOpen = true ->
  Parses parse_slice bad (S n) dp s e.
Proof.
  intros H Hb f d c b r Hbl Hf Hd HF. destruct f as [|f]; [lia|]. rewrite parse_slice_S.
  rewrite (H f d c b r Hbl) by (assumption || lia). cbn [bind].
  destruct (at_linebreak _); [reflexivity|]. rewrite (follow_maybe bad r _ TBracketOpen HF Hb). reflexivity.
Qed.

Definition plev (lv : list (list (tkind * binop))) : nat -> nat -> walker -> pres expr := fun f d => parse_levels f d lv.

Lemma lift_lev0 bad n dp s e : Parses parse_slice bad n dp s e -> Parses (plev []) bad (S n) dp s e.
Proof.
  intros H f d c b r Hbl Hf Hd HF. destruct f as [|f]; [lia|]. unfold plev. rewrite parse_levels_S.
  apply (H f d c b r Hbl); assumption || lia.
Qed.

Lemma lift_assign bad n dp s e : Parses (plev level_ops) bad n dp s e -> bad TEqual = true ->
  Parses parse_assign bad (S n) dp s e.
Proof.
  intros H Hb f d c b r Hbl Hf Hd HF. destruct f as [|f]; [lia|]. rewrite parse_assign_S.
  unfold plev in H. rewrite (H f d c b r Hbl) by (assumption || lia). cbn [bind].
  rewrite (follow_maybe bad r _ TEqual HF Hb). reflexivity.
Qed.

Lemma depth_ok d dp : (d + S dp <= PARSE_DEPTH_MAX)%nat -> Nat.ltb PARSE_DEPTH_MAX (S d) = false.
Proof. intro H. apply Nat.ltb_ge. lia. Qed.

Lemma lift_expr bad n dp s e : Parses parse_assign bad n dp s e -> bad TQuestion = true ->
  Parses parse_expr bad (S n) (S dp) s e.
Proof.
  intros H Hb f d c b r Hbl Hf Hd HF. destruct f as [|f]; [lia|]. rewrite parse_expr_S. cbv zeta.
  rewrite (depth_ok d dp Hd). rewrite (H f (S d) c b r Hbl) by (assumption || lia). cbn [bind].
  rewrite (follow_maybe bad r _ TQuestion HF Hb). reflexivity.
Qed.

(* ---------- parentheses ---------- *)
Lemma sep_close x r : x = 41 \/ x = 93 \/ x = 125 \/ x = 44 \/ x = 58 \/ x = 96 \/ x = 91 \/ x = 40 \/ x = 32 -> sep (x :: r).
Proof. intros H. cbn [sep]. unfold is_ident_mid, is_ident_start, is_lower, is_upper, is_digit, in_range. lia. Qed.

Lemma follow_one bad x rest k : Lex [x] rest k -> bad k = false -> is_ident_mid x = false -> Follow bad (x :: rest).
Proof. intros HL Hk Hx. apply (follow_tok bad [] [x] rest k); auto with rt. Qed.

Lemma paren_leaf bad o n dp s e : Parses parse_expr (bad0 o) n dp s e -> Parses parse_leaf bad (S n) dp (paren s) e.
Proof.
  intros H f d c b r Hbl Hf Hd HF. destruct f as [|f]; [lia|]. rewrite parse_leaf_S. unfold paren.
  rewrite <- !app_assoc.
  rewrite (tok_is c b [40] (s ++ [41] ++ r) TParenOpen TBraceOpen Hbl (lex_popen _)). cbn [tkind_eqb].
  rewrite (tok_is c b [40] (s ++ [41] ++ r) TParenOpen TParenOpen Hbl (lex_popen _)). cbn [tkind_eqb].
  rewrite (tok_expect c b [40] (s ++ [41] ++ r) TParenOpen Hbl (lex_popen _)). cbn [bind].
  rewrite (Parses_use _ _ _ _ _ _ H f d _ [] ([41] ++ r) _ eq_refl blank_nil) by
    (lia || (apply follow_one with (k := TParenClose); [apply lex_pclose | destruct o; reflexivity | reflexivity])).
  cbn [bind].
  rewrite (tok_expect _ [] [41] r TParenClose blank_nil (lex_pclose _)). cbn [bind].
  f_equal. apply W_eq. rewrite !bytes_len_app. change (bytes_len []) with 0. lia.
Qed.

(* ---------- finding the operator of a level ---------- *)
Lemma find_op_none bad r c ops : Follow bad r -> (forall k o, In (k, o) ops -> bad k = true) -> find_op (W c r) ops = None.
Proof.
  intros HF. induction ops as [|[k o] ops IH]; intro Hb; [reflexivity|]. cbn [find_op].
  rewrite (follow_maybe bad r c k HF (Hb k o (or_introl eq_refl))). apply IH. intros k' o' Hin. apply (Hb k' o'). right. exact Hin.
Qed.

Lemma find_op_tok c b p rest k o ops : blank b -> Lex p rest k -> NoDup (map fst ops) -> In (k, o) ops ->
  find_op (W c (b ++ p ++ rest)) ops = Some (W (c + bytes_len b + bytes_len p) rest, o).
Proof.
  intros Hb HL. induction ops as [|[k' o'] ops IH]; intros Hnd Hin; [contradiction|]. cbn [find_op].
  rewrite (tok_maybe c b p rest k k' Hb HL). cbn [map fst] in Hnd. inversion Hnd as [|? ? Hni Hnd']; subst.
  destruct Hin as [E | Hin].
  - inversion E; subst. rewrite tkind_eqb_refl. reflexivity.
  - destruct (tkind_eqb k' k) eqn:E.
    + apply tkind_eqb_eq in E. subst k'. exfalso. apply Hni. apply (in_map fst) in Hin. exact Hin.
    + apply IH; assumption.
Qed.

(* ---------- ONE left-associative level, generically ---------- *)
Definition level_ok (p : nat) (ops : list (tkind * binop)) : Prop :=
  NoDup (map fst ops)
  /\ (forall k o, In (k, o) ops -> tok_level k = Some p /\ In (k, o) (concat level_ops))
  /\ (forall o, o <> Assign -> binop_prec o = p -> exists k, In (k, o) ops).

(* the loop form: after the text s the level is inside its loop with accumulator e, for ANY follower that is not
   an operator of a tighter level; `ch` operators of this level were folded on the way *)
Definition LoopParses (ops : list (tkind * binop)) (inner : list (list (tkind * binop))) (bad : tkind -> bool)
    (n dp : nat) (s : text) (e : expr) (ch : nat) : Prop :=
  forall g d c b r, blank b -> (n <= S (g + ch))%nat -> (d + dp <= PARSE_DEPTH_MAX)%nat -> Follow bad r ->
    parse_levels (S (g + ch)) d (ops :: inner) (W c (b ++ s ++ r)) =
    binary_loop g d ops inner e (W (c + bytes_len b + bytes_len s) r).

Section Level.
Variables (p : nat) (ops : list (tkind * binop)) (inner : list (list (tkind * binop))).
Hypothesis Hok : level_ok p ops.

Lemma loop_stop g d c r l : (1 <= g)%nat -> Follow (badp p) r -> binary_loop g d ops inner l (W c r) = POk l (W c r).
Proof.
  intros Hg HF. destruct g as [|g]; [lia|]. rewrite binary_loop_S. destruct (at_linebreak _); [reflexivity|].
  rewrite (find_op_none (badp p) r c ops HF); [reflexivity|].
  intros k o Hin. destruct Hok as (_ & H2 & _). destruct (H2 k o Hin) as [E _]. unfold badp. rewrite E. apply Nat.leb_refl.
Qed.

(* an operand of a tighter level starts the loop *)
Lemma loop_base n dp s e : Parses (plev inner) (badp (S p)) n dp s e -> LoopParses ops inner (badp (S p)) (S n) dp s e 0.
Proof.
  intros H g d c b r Hbl Hf Hd HF. rewrite Nat.add_0_r in *. rewrite parse_levels_S.
  unfold plev in H. rewrite (H g d c b r Hbl) by (assumption || lia). reflexivity.
Qed.

(* one more operator of this level: `a o b` where a is (in loop form) at this level and b one level tighter *)
Lemma loop_step na nb dpa dpb sa sb a b' cha o n dp :
  LoopParses ops inner (badp (S p)) na dpa sa a cha ->
  Parses (plev inner) (badp (S p)) nb dpb sb b' ->
  o <> Assign -> binop_prec o = p ->
  (na <= n)%nat -> (nb + 2 + cha <= n)%nat -> (dpa <= dp)%nat -> (dpb <= dp)%nat ->
  LoopParses ops inner (badp (S p)) n dp (sa ++ [32] ++ binop_text o ++ [32] ++ sb) (EBin o a b') (S cha).
Proof.
  intros Ha Hb Hna Hpo Hn1 Hn2 Hd1 Hd2 g d c b r Hbl Hf Hd HF.
  destruct Hok as (Hnd & H2 & H3). destruct (H3 o Hna Hpo) as [k Hin]. destruct (H2 k o Hin) as [Hk Hall].
  pose proof (fun rest => lex_binop k o rest Hall) as HL.
  replace (g + S cha)%nat with (S g + cha)%nat by lia.
  replace (b ++ (sa ++ [32] ++ binop_text o ++ [32] ++ sb) ++ r)
    with (b ++ sa ++ ([32] ++ binop_text o ++ (32 :: sb ++ r))) by (rewrite <- !app_assoc; reflexivity).
  rewrite (Ha (S g) d c b _ Hbl); try lia.
  2:{ apply follow_tok with (k := k); auto with rt. unfold badp. rewrite Hk. apply Nat.leb_gt. lia. cbn [app]. reflexivity. }
  rewrite binary_loop_S.
  rewrite (tok_atlb _ [32] (binop_text o) (32 :: sb ++ r) k blank_sp (HL _)).
  rewrite (find_op_tok _ [32] (binop_text o) (32 :: sb ++ r) k o ops blank_sp (HL _) Hnd Hin).
  unfold plev in Hb.
  rewrite (Parses_use _ _ _ _ _ _ Hb g d _ [32] r (32 :: sb ++ r) eq_refl blank_sp) by (assumption || lia).
  cbn [bind]. f_equal. apply W_eq. rewrite !bytes_len_app. lia.
Qed.

(* the loop stops in front of anything that is not an operator of this level or a tighter one *)
Lemma loop_close n dp s e ch : LoopParses ops inner (badp (S p)) n dp s e ch ->
  Parses (plev (ops :: inner)) (badp p) (Nat.max n (ch + 2)) dp s e.
Proof.
  intros H f d c b r Hbl Hf Hd HF. unfold plev.
  replace f with (S ((f - 1 - ch) + ch))%nat by lia.
  rewrite (H (f - 1 - ch)%nat d c b r Hbl); try lia.
  - apply loop_stop; [lia|exact HF].
  - revert HF. apply follow_weaken. intro k. apply badp_mono. lia.
Qed.
End Level.

(* ---------- the table: the ten levels of level_ops satisfy level_ok at precedences 2..11 ---------- *)
Lemma level_split i : (i < 10)%nat ->
  exists ops inner, skipn i level_ops = ops :: inner /\ skipn (S i) level_ops = inner /\ level_ok (2 + i) ops.
Proof.
  intro Hi.
  do 10 (destruct i as [|i];
    [ eexists; eexists; split; [reflexivity|]; split; [reflexivity|]; split; [|split];
      [ repeat constructor; cbn; intuition discriminate
      | cbn [In level_ops concat app]; intros k o H; repeat (destruct H as [H|H]; [inversion H; subst; split; [reflexivity| tauto] |]); contradiction
      | intros o Ho Hp; destruct o; try discriminate Hp; try congruence; eexists; cbn [In]; eauto 8 ]
    | ]).
  lia.
Qed.
