(* C07, blanks and comments, part 3: the matcher on two lines that differ only in the content of their gaps
   returns the same candidates up to the byte positions of the argument spans (and the excerpts).  No axioms. *)
From Coq Require Import NArith ZArith List Bool Lia ZifyBool.
Import ListNotations.
From CA Require Import Model.Lexer Model.Parser Model.Matcher Proofs.MatcherP Proofs.MatcherCaseP Proofs.MatcherPermP
  Proofs.MatcherKeysP Proofs.BlankLexP Proofs.BlankWalkP.
Open Scope N_scope.

(* ------------------------------------------------------------------------------------------------ *)
(* list facts                                                                                         *)

Lemma Forall2_app_ {X Y} (R : X -> Y -> Prop) : forall a a' b b', Forall2 R a a' -> Forall2 R b b' -> Forall2 R (a ++ b) (a' ++ b').
Proof. induction 1; intros Hb; cbn [app]; [exact Hb | constructor; auto]. Qed.
Lemma Forall2_rev_ {X Y} (R : X -> Y -> Prop) : forall a a', Forall2 R a a' -> Forall2 R (rev a) (rev a').
Proof. induction 1; cbn [rev]; [constructor|]. apply Forall2_app_; [assumption | constructor; [assumption | constructor]]. Qed.
Lemma Forall2_flat_map_ {X Y U V} (R : X -> Y -> Prop) (Q : U -> V -> Prop) (g : X -> list U) (g' : Y -> list V) :
  forall l l', Forall2 R l l' -> (forall x x', R x x' -> Forall2 Q (g x) (g' x')) -> Forall2 Q (flat_map g l) (flat_map g' l').
Proof. induction 1; intros Hg; cbn [flat_map]; [constructor|]. apply Forall2_app_; auto. Qed.
Lemma Forall2_flat_map_same {X U V} (Q : U -> V -> Prop) (g : X -> list U) (g' : X -> list V) :
  forall l, (forall x, Forall2 Q (g x) (g' x)) -> Forall2 Q (flat_map g l) (flat_map g' l).
Proof. induction l as [|x l IH]; intros Hg; cbn [flat_map]; [constructor|]. apply Forall2_app_; auto. Qed.
Lemma Forall2_map_ {X Y U V} (R : X -> Y -> Prop) (Q : U -> V -> Prop) (g : X -> U) (g' : Y -> V) :
  forall l l', Forall2 R l l' -> (forall x x', R x x' -> Q (g x) (g' x')) -> Forall2 Q (map g l) (map g' l').
Proof. induction 1; intros Hg; cbn [map]; constructor; auto. Qed.
Lemma Forall2_filter_ {X Y} (R : X -> Y -> Prop) (p : X -> bool) (p' : Y -> bool) :
  forall l l', Forall2 R l l' -> (forall x x', R x x' -> p x = p' x') -> Forall2 R (filter p l) (filter p' l').
Proof.
  induction 1 as [|x x' l l' Hx Hl IH]; intros Hp; cbn [filter]; [constructor|]. rewrite <- (Hp x x' Hx).
  destruct (p x); [constructor|]; auto.
Qed.

(* ------------------------------------------------------------------------------------------------ *)
(* the look-ahead scan                                                                                *)

Lemma look_unfold : forall f c r idx wanted seen paren brace,
  lookahead_index (S f) (c :: r) idx wanted seen paren brace =
    if c =? 59 then
      let n := snd (decide_next_token (c :: r)) in
      lookahead_index f (drop_bytes n (c :: r)) (idx + n) wanted seen paren brace
    else
    if eq_ignore_case c wanted && seen && Nat.eqb paren 0 && Nat.eqb brace 0 then Some idx
    else
      let seen' := seen || negb (is_whitespace c) in
      let next := idx + utf8_len c in
      if c =? 40 then lookahead_index f r next wanted seen' (S paren) brace
      else if c =? 41 then match paren with O => None | S p => lookahead_index f r next wanted seen' p brace end
      else if c =? 123 then lookahead_index f r next wanted seen' paren (S brace)
      else if c =? 125 then match brace with O => None | S b => lookahead_index f r next wanted seen' paren b end
      else lookahead_index f r next wanted seen' paren brace.
Proof. reflexivity. Qed.

Lemma look_fuel : forall f f' t idx wanted seen paren brace, (length t < f)%nat -> (length t < f')%nat ->
  lookahead_index f t idx wanted seen paren brace = lookahead_index f' t idx wanted seen paren brace.
Proof.
  induction f as [|f IH]; intros f' t idx wanted seen paren brace H1 H2; [lia|]. destruct f' as [|f']; [lia|].
  destruct t as [|c r]; [reflexivity|]. cbn [length] in H1, H2. rewrite !look_unfold.
  destruct (c =? 59) eqn:E59.
  - cbv zeta. destruct (decide_next_token (c :: r)) as [k n] eqn:Ed. cbn [snd].
    assert (Hn : n <> 0).
    { apply N.eqb_eq in E59. subst c. unfold decide_next_token, orelse in Ed.
      rewrite check_whitespace_nonws in Ed by reflexivity.
      destruct (check_comment (59 :: r)) as [[k2 n2]|] eqn:Ec.
      - injection Ed as <- <-. apply check_comment_some in Ec. tauto.
      - exfalso. unfold check_comment in Ec. destruct r as [|d r]; [discriminate|]. revert Ec. break_matches; discriminate. }
    cbn [drop_bytes]. apply N.eqb_neq in Hn. rewrite Hn.
    pose proof (drop_bytes_length r (n - utf8_len c)). apply IH; lia.
  - destruct (_ && _ && _ && _); [reflexivity|]. cbv zeta.
    destruct (c =? 40); [apply IH; lia|]. destruct (c =? 41); [destruct paren; [reflexivity | apply IH; lia]|].
    destruct (c =? 123); [apply IH; lia|]. destruct (c =? 125); [destruct brace; [reflexivity | apply IH; lia]|].
    apply IH; lia.
Qed.

(* canonical fuel *)
Definition lkc (t : text) (idx wanted : N) (seen : bool) (paren brace : nat) : option N :=
  lookahead_index (S (length t)) t idx wanted seen paren brace.

Lemma gapstart_ne_wanted : forall x c, gapstart x = true -> char_ok c -> eq_ignore_case x c = false.
Proof.
  intros x c. unfold gapstart, char_ok, key_char_ok, eq_ignore_case, to_lower, in_range, is_whitespace. split_ifs; lia.
Qed.

Lemma lkc_ws : forall x t idx wanted seen paren brace, is_whitespace x = true -> char_ok wanted ->
  lkc (x :: t) idx wanted seen paren brace = lkc t (idx + utf8_len x) wanted seen paren brace.
Proof.
  intros x t idx wanted seen paren brace Hx Hw. unfold lkc. cbn [length]. rewrite look_unfold.
  assert (E : (x =? 59) = false /\ (x =? 40) = false /\ (x =? 41) = false /\ (x =? 123) = false /\ (x =? 125) = false).
  { unfold is_whitespace in Hx. lia. }
  destruct E as (-> & -> & -> & -> & ->).
  rewrite (gapstart_ne_wanted x wanted) by (try assumption; unfold gapstart; rewrite Hx; reflexivity).
  cbn [andb]. cbv zeta. rewrite Hx. cbn [negb]. rewrite orb_false_r. reflexivity.
Qed.

Lemma lkc_comment : forall body t idx wanted seen paren brace, Forall (fun x => x <> 59) body ->
  lkc (ratom (AC body) ++ t) idx wanted seen paren brace = lkc t (idx + bytes_len (ratom (AC body))) wanted seen paren brace.
Proof.
  intros body t idx wanted seen paren brace Hb. unfold lkc.
  assert (Et : ratom (AC body) ++ t = 59 :: 42 :: body ++ 42 :: 59 :: t) by (cbn [ratom app]; rewrite <- app_assoc; reflexivity).
  rewrite Et at 2. cbn [length]. rewrite look_unfold. replace (59 =? 59) with true by reflexivity. cbv zeta.
  rewrite decide_comment, block_comment_simple by assumption. cbn [snd]. rewrite <- bytes_ratom_comment, <- Et.
  rewrite drop_bytes_exact. apply look_fuel; [|lia].
  rewrite Et. cbn [length]. rewrite app_length. cbn [length]. lia.
Qed.

Lemma lkc_atoms : forall g t idx wanted seen paren brace, Forall atom_ok g -> char_ok wanted ->
  lkc (ratoms g ++ t) idx wanted seen paren brace = lkc t (idx + bytes_len (ratoms g)) wanted seen paren brace.
Proof.
  induction g as [|a g IH]; intros t idx wanted seen paren brace Hg Hw.
  - cbn [ratoms flat_map app bytes_len]. rewrite N.add_0_r. reflexivity.
  - inversion Hg; subst. cbn [ratoms flat_map]. fold (ratoms g). rewrite <- app_assoc, bytes_len_app, N.add_assoc.
    destruct a as [x|body]; cbn [atom_ok] in H1.
    + cbn [ratom app bytes_len]. rewrite lkc_ws by assumption. rewrite IH by assumption. rewrite N.add_0_r. reflexivity.
    + rewrite lkc_comment by assumption. apply IH; assumption.
Qed.

Lemma lkc_plain : forall c t idx wanted seen paren brace, plain c = true ->
  lkc (c :: t) idx wanted seen paren brace =
    if eq_ignore_case c wanted && seen && Nat.eqb paren 0 && Nat.eqb brace 0 then Some idx
    else
      let next := idx + utf8_len c in
      if c =? 40 then lkc t next wanted true (S paren) brace
      else if c =? 41 then match paren with O => None | S p => lkc t next wanted true p brace end
      else if c =? 123 then lkc t next wanted true paren (S brace)
      else if c =? 125 then match brace with O => None | S b => lkc t next wanted true paren b end
      else lkc t next wanted true paren brace.
Proof.
  intros c t idx wanted seen paren brace Hc. unfold lkc. cbn [length]. rewrite look_unfold.
  assert (E : (c =? 59) = false /\ is_whitespace c = false).
  { unfold plain in Hc. destruct (is_whitespace c); [discriminate|]. split; [lia | reflexivity]. }
  destruct E as [-> ->]. cbn [negb]. rewrite orb_true_r. reflexivity.
Qed.

(* outcome of the scan on two related lines: nothing found, or the same segment *)
Definition LK (M M' : list seg) (idx idx' : N) (r r' : option N) : Prop :=
  (r = None /\ r' = None) \/
  exists n, (n < length M)%nat /\ r = Some (idx + bytes_len (render (firstn n M))) /\
            r' = Some (idx' + bytes_len (render (firstn n M'))).

Lemma LK_shift : forall s s' M M' idx idx' r r',
  LK M M' (idx + bytes_len (rseg s)) (idx' + bytes_len (rseg s')) r r' -> LK (s :: M) (s' :: M') idx idx' r r'.
Proof.
  intros s s' M M' idx idx' r r' [H|[n [Hn [E1 E2]]]]; [left; exact H|]. right. exists (S n). split; [cbn [length]; lia|].
  cbn [firstn render flat_map]. fold (render (firstn n M)) (render (firstn n M')). rewrite !bytes_len_app, !N.add_assoc. split; assumption.
Qed.

Lemma look_sim_list : forall M M', Forall2 seg_rel M M' -> Forall seg_ok M -> Forall seg_ok M' ->
  forall wanted, char_ok wanted -> forall idx idx' seen paren brace,
  LK M M' idx idx' (lkc (render M) idx wanted seen paren brace) (lkc (render M') idx' wanted seen paren brace).
Proof.
  induction 1 as [|s s' M M' Hs HM IH]; intros Hok Hok' wanted Hw idx idx' seen paren brace.
  - left. split; reflexivity.
  - inversion Hok; subst. inversion Hok'; subst. destruct s as [c|g], s' as [c'|g']; cbn in Hs; try contradiction.
    + subst c'. cbn [render flat_map rseg app]. fold (render M) (render M'). cbn [seg_ok] in H1.
      rewrite !lkc_plain by assumption.
      destruct (eq_ignore_case c wanted && seen && Nat.eqb paren 0 && Nat.eqb brace 0).
      { right. exists O. split; [cbn [length]; lia|]. cbn [firstn render flat_map bytes_len]. rewrite !N.add_0_r. split; reflexivity. }
      cbv zeta. apply LK_shift. cbn [rseg bytes_len]. rewrite !N.add_0_r.
      destruct (c =? 40); [apply IH; assumption|].
      destruct (c =? 41); [destruct paren; [left; split; reflexivity | apply IH; assumption]|].
      destruct (c =? 123); [apply IH; assumption|].
      destruct (c =? 125); [destruct brace; [left; split; reflexivity | apply IH; assumption]|].
      apply IH; assumption.
    + cbn [render flat_map rseg]. fold (render M) (render M'). destruct H1 as [_ Hg]. destruct H3 as [_ Hg'].
      rewrite !lkc_atoms by assumption. apply LK_shift. cbn [rseg]. apply IH; assumption.
Qed.

(* ------------------------------------------------------------------------------------------------ *)
Section Match.
Variables A A' : list seg.
Hypothesis HA : Forall seg_ok A.
Hypothesis HA' : Forall seg_ok A'.
Hypothesis HR : Forall2 seg_rel A A'.
Variable defs : list ruledef.
Hypothesis Hdefs : Forall ruledef_ok defs.
(* the expression parser's own fuel (200 per remaining character) is never exhausted on either line *)
Definition expr_fuel_ok (B : list seg) : Prop :=
  forall i j, (i <= j)%nat -> (j <= length B)%nat -> parse_expr (200 * fuel_of (W B i j)) 0 (W B i j) <> PFuel.
Hypothesis HF : expr_fuel_ok A.
Hypothesis HF' : expr_fuel_ok A'.

Notation ok := (ok A).
Let HL : length A' = length A := len_eq A A' HR.

(* corresponding byte positions *)
Definition srel (s s' : N) : Prop := exists k, (k <= length A)%nat /\ s = pos A k /\ s' = pos A' k.

Fixpoint mrel (m m' : imatch) {struct m} : Prop :=
  match m, m' with
  | IMatch rd ru args e, IMatch rd' ru' args' e' => rd = rd' /\ ru = ru' /\ e = e' /\
    (fix go (a a' : list iarg) : Prop :=
       match a, a' with
       | [], [] => True
       | AExpr ex s t _ :: r, AExpr ex' s' t' _ :: r' => (ex = ex' /\ srel s s' /\ srel t t') /\ go r r'
       | ANested n s t _ :: r, ANested n' s' t' _ :: r' => (mrel n n' /\ srel s s' /\ srel t t') /\ go r r'
       | _, _ => False
       end) args args'
  end.
Definition arel (x x' : iarg) : Prop :=
  match x, x' with
  | AExpr ex s t _, AExpr ex' s' t' _ => ex = ex' /\ srel s s' /\ srel t t'
  | ANested n s t _, ANested n' s' t' _ => mrel n n' /\ srel s s' /\ srel t t'
  | _, _ => False
  end.
Definition args_rel : list iarg -> list iarg -> Prop :=
  fix go (a a' : list iarg) : Prop :=
    match a, a' with
    | [], [] => True
    | AExpr ex s t _ :: r, AExpr ex' s' t' _ :: r' => (ex = ex' /\ srel s s' /\ srel t t') /\ go r r'
    | ANested n s t _ :: r, ANested n' s' t' _ :: r' => (mrel n n' /\ srel s s' /\ srel t t') /\ go r r'
    | _, _ => False
    end.
Lemma mrel_unfold : forall rd ru args e rd' ru' args' e',
  mrel (IMatch rd ru args e) (IMatch rd' ru' args' e') = (rd = rd' /\ ru = ru' /\ e = e' /\ args_rel args args').
Proof. reflexivity. Qed.
Lemma args_rel_Forall2 : forall a a', args_rel a a' <-> Forall2 arel a a'.
Proof.
  induction a as [|x a IH]; intros a'.
  - destruct a' as [|x' a']; cbn [args_rel].
    + split; intros H; [constructor | exact I].
    + split; intros H; [destruct H | inversion H].
  - destruct a' as [|x' a'].
    + split; intros H; [destruct x; destruct H | inversion H].
    + split; intros H.
      * destruct x, x'; cbn [args_rel] in H; try contradiction; destruct H as [H1 H2]; constructor; try (apply IH; exact H2); exact H1.
      * inversion H; subst. destruct x, x'; cbn [arel] in H3; try contradiction; cbn [args_rel]; (split; [exact H3 | apply IH; assumption]).
Qed.

Definition sfrel (sf sf' : sofar) : Prop :=
  sf_rd sf = sf_rd sf' /\ sf_ru sf = sf_ru sf' /\ Forall2 arel (sf_args sf) (sf_args sf').
Definition res_rel (j : nat) (mw mw' : imatch * walker) : Prop :=
  mrel (fst mw) (fst mw') /\ exists i1, (i1 <= j)%nat /\ snd mw = W A i1 j /\ snd mw' = W A' i1 j.

Lemma srel_pos : forall k, (k <= length A)%nat -> srel (pos A k) (pos A' k).
Proof. intros k H. exists k. auto. Qed.

Lemma pos_le : forall B a b, Forall seg_ok B -> (a <= b)%nat -> (b <= length B)%nat -> pos B a <= pos B b.
Proof. intros B a b HB H1 H2. rewrite (pos_mono B a b HB H1 H2). lia. Qed.
Lemma pos_min : forall B a b, Forall seg_ok B -> (a <= length B)%nat -> (b <= length B)%nat ->
  N.min (pos B a) (pos B b) = pos B (Nat.min a b).
Proof.
  intros B a b HB H1 H2. destruct (Nat.le_ge_cases a b) as [H|H].
  - rewrite Nat.min_l by assumption. apply N.min_l. apply pos_le; assumption.
  - rewrite Nat.min_r by assumption. apply N.min_r. apply pos_le; assumption.
Qed.

(* ---- the walker primitives of the matcher ---- *)
Lemma render_nil_iff : forall M, Forall seg_ok M -> render M = [] -> M = [].
Proof.
  intros [|s M] H E; [reflexivity|]. inversion H; subst. cbn [render flat_map] in E. apply app_eq_nil in E.
  destruct E as [E _]. destruct (rseg_nonempty s H2 E).
Qed.

Lemma W_over : forall B i j, Forall seg_ok B -> (i <= j)%nat -> (j <= length B)%nat -> is_over (W B i j) = Nat.eqb i j.
Proof.
  intros B i j HB H1 H2. unfold W. rewrite EW_over. destruct (Nat.eqb_spec i j) as [->|Hne].
  - rewrite mid_nil. reflexivity.
  - destruct (render (mid B i j)) eqn:E; [|reflexivity]. exfalso.
    apply render_nil_iff in E; [|apply Forall_mid; exact HB]. pose proof (mid_length B i j H2) as L. rewrite E in L. cbn in L. lia.
Qed.

Lemma over_sim : forall i j, ok i j -> is_over (W A i j) = is_over (W A' i j).
Proof. intros i j [H1 H2]. rewrite !W_over by (assumption || lia). reflexivity. Qed.

Lemma nui_sim : forall i j, ok i j -> exists k, stops A i j k /\
  next_useful_index (W A i j) = W A k j /\ next_useful_index (W A' i j) = W A' k j.
Proof.
  intros i j [H1 H2]. destruct (stops_ex A j H2 (j - i) i eq_refl H1) as [k Hs]. exists k. split; [exact Hs|].
  split; [apply W_nui; assumption | apply W_nui; [assumption | lia | eapply stops_rel; eassumption]].
Qed.

Lemma head_sim : forall k j, ok k j -> headplain (mid A k j) ->
  (k = j /\ visible (W A k j) = [] /\ visible (W A' k j) = []) \/
  (exists c r r', (k < j)%nat /\ plain c = true /\ visible (W A k j) = c :: r /\ visible (W A' k j) = c :: r' /\
     advance (W A k j) (utf8_len c) = W A (S k) j /\ advance (W A' k j) (utf8_len c) = W A' (S k) j).
Proof.
  intros k j [H1 H2] Hh. pose proof (Forall2_mid seg_rel k j A A' HR) as HM.
  destruct (headplain_cases A HA k j H1 H2 Hh) as [[-> E]|[c [M1 [Hlt [E Hc]]]]].
  - left. rewrite !W_visible, !mid_nil. auto.
  - right. rewrite E in HM. inversion HM as [|s s' l l' Hs Hl E1 E2]; subst. destruct s' as [c'|g']; cbn in Hs; [subst c'|contradiction].
    exists c, (render M1), (render l'). rewrite !W_visible, E, <- E2. cbn [render flat_map rseg app].
    split; [exact Hlt|]. split; [exact Hc|]. split; [reflexivity|]. split; [reflexivity|].
    destruct (mid_cons A k j Hlt H2) as [x [X1 X2]]. rewrite E in X2. injection X2 as <- _.
    destruct (mid_cons A' k j Hlt ltac:(lia)) as [x' [X1' X2']]. rewrite <- E2 in X2'. injection X2' as <- _.
    split.
    + rewrite <- (W_adv A k (S k) j) by lia. rewrite X1. cbn [render flat_map rseg app bytes_len]. rewrite N.add_0_r. reflexivity.
    + rewrite <- (W_adv A' k (S k) j) by lia. rewrite X1'. cbn [render flat_map rseg app bytes_len]. rewrite N.add_0_r. reflexivity.
Qed.

Lemma mec_sim : forall i j c, ok i j ->
  (maybe_expect_char (W A i j) c = None /\ maybe_expect_char (W A' i j) c = None) \/
  (exists i1, (i <= i1)%nat /\ (i1 <= j)%nat /\
     maybe_expect_char (W A i j) c = Some (W A i1 j) /\ maybe_expect_char (W A' i j) c = Some (W A' i1 j)).
Proof.
  intros i j c Hok. destruct (nui_sim i j Hok) as [k [[K1 [K2 [K3 K4]]] [N1 N2]]]. destruct Hok as [H1 H2].
  unfold maybe_expect_char. rewrite N1, N2.
  destruct (head_sim k j (conj K2 H2) K4) as [[-> [V1 V2]]|[ch [r [r' [Hlt [Hc [V1 [V2 [A1 A2]]]]]]]]].
  - rewrite V1, V2. left. split; reflexivity.
  - rewrite V1, V2. destruct (eq_ignore_case ch c); [|left; split; reflexivity].
    right. exists (S k). rewrite A1, A2. repeat split; lia.
Qed.

Lemma gap_head : forall B i j, Forall seg_ok B -> (i <= j)%nat -> (j <= length B)%nat -> ~ headplain (mid B i j) ->
  exists x v, visible (W B i j) = x :: v /\ gapstart x = true.
Proof.
  intros B i j HB H1 H2 Hh. rewrite W_visible. pose proof (Forall_mid seg_ok i j B HB) as Hf.
  destruct (mid B i j) as [|[c|g] M]; cbn [headplain] in Hh; try (exfalso; apply Hh; exact I).
  inversion Hf; subst. destruct H3 as [Hn Hg]. cbn [render flat_map rseg].
  pose proof (ratoms_vok g (flat_map rseg M) Hn Hg) as Hv.
  destruct (ratoms g ++ flat_map rseg M) as [|x v] eqn:E.
  - exfalso. apply app_eq_nil in E. destruct E as [E _]. destruct g as [|[x|b] g]; [congruence | discriminate | discriminate].
  - exists x, v. split; [reflexivity | exact Hv].
Qed.

Lemma headplain_dec : forall M, {headplain M} + {~ headplain M}.
Proof. intros [|[c|g] M]; cbn; [left; exact I | left; exact I | right; intros []]. Qed.

Lemma mecg_sim : forall i j c, ok i j -> char_ok c ->
  (maybe_expect_char_glued (W A i j) c = None /\ maybe_expect_char_glued (W A' i j) c = None) \/
  (exists i1, (i <= i1)%nat /\ (i1 <= j)%nat /\
     maybe_expect_char_glued (W A i j) c = Some (W A i1 j) /\ maybe_expect_char_glued (W A' i j) c = Some (W A' i1 j)).
Proof.
  intros i j c [H1 H2] Hc. unfold maybe_expect_char_glued.
  destruct (headplain_dec (mid A i j)) as [Hh|Hh].
  - destruct (head_sim i j (conj H1 H2) Hh) as [[-> [V1 V2]]|[ch [r [r' [Hlt [Hp [V1 [V2 [A1 A2]]]]]]]]].
    + rewrite V1, V2. left. split; reflexivity.
    + rewrite V1, V2. destruct (eq_ignore_case ch c); [|left; split; reflexivity].
      right. exists (S i). rewrite A1, A2. repeat split; lia.
  - assert (Hh' : ~ headplain (mid A' i j)).
    { intros X. apply Hh. eapply headplain_rel; [|exact X].
      apply Forall2_mid. clear -HR. induction HR; constructor; auto. destruct x, y; cbn in *; auto. }
    destruct (gap_head A i j HA H1 H2 Hh) as [x [v [V Hx]]]. destruct (gap_head A' i j HA' H1 ltac:(lia) Hh') as [x' [v' [V' Hx']]].
    rewrite V, V', (gapstart_ne_wanted x c Hx Hc), (gapstart_ne_wanted x' c Hx' Hc). left. split; reflexivity.
Qed.

Lemma ws_sim : forall i j, ok i j ->
  negb (is_over (W A i j)) && negb (tkind_eqb (fst (token_here (W A i j))) TWhitespace) && negb (tkind_eqb (fst (token_here (W A i j))) TComment) =
  negb (is_over (W A' i j)) && negb (tkind_eqb (fst (token_here (W A' i j))) TWhitespace) && negb (tkind_eqb (fst (token_here (W A' i j))) TComment).
Proof.
  intros i j [H1 H2]. rewrite <- (over_sim i j (conj H1 H2)).
  destruct (is_over (W A i j)) eqn:Eo; [reflexivity|]. cbn [negb andb].
  destruct (headplain_dec (mid A i j)) as [Hh|Hh].
  - destruct (token_sim A A' HA HA' HR i j (conj H1 H2) Hh) as [kd [n [m [T1 [T2 _]]]]]. rewrite T1, T2. reflexivity.
  - assert (Hh' : ~ headplain (mid A' i j)).
    { intros X. apply Hh. eapply headplain_rel; [|exact X].
      apply Forall2_mid. clear -HR. induction HR; constructor; auto. destruct x, y; cbn in *; auto. }
    assert (Hgap : forall B, Forall seg_ok B -> (j <= length B)%nat -> ~ headplain (mid B i j) ->
                   negb (tkind_eqb (fst (token_here (W B i j))) TWhitespace) && negb (tkind_eqb (fst (token_here (W B i j))) TComment) = false).
    { intros B HB Hj HhB. unfold W. rewrite EW_token. pose proof (Forall_mid seg_ok i j B HB) as Hf.
      destruct (mid B i j) as [|[c|g] M]; cbn [headplain] in HhB; try (exfalso; apply HhB; exact I).
      inversion Hf; subst. destruct H3 as [Hn Hg]. cbn [render flat_map rseg]. destruct g as [|[x|body] g]; [congruence| |].
      - inversion Hg; subst. cbn [ratoms flat_map ratom app]. cbn [atom_ok] in H3. rewrite (decide_ws x _ H3). reflexivity.
      - cbn [ratoms flat_map ratom app]. rewrite decide_comment. reflexivity. }
    rewrite (Hgap A HA H2 Hh), (Hgap A' HA' ltac:(lia) Hh'). reflexivity.
Qed.

Lemma look_sim : forall i j wanted, ok i j -> char_ok wanted ->
  let la := lookahead_index (S (length (visible (W A i j)))) (visible (W A i j)) (cur (W A i j)) wanted false 0 0 in
  let la' := lookahead_index (S (length (visible (W A' i j)))) (visible (W A' i j)) (cur (W A' i j)) wanted false 0 0 in
  (la = None /\ la' = None) \/
  (exists k, (i <= k)%nat /\ (k <= j)%nat /\ la = Some (pos A k) /\ la' = Some (pos A' k)).
Proof.
  intros i j wanted [H1 H2] Hw. cbv zeta. rewrite !W_visible, !W_cur.
  destruct (look_sim_list (mid A i j) (mid A' i j) (Forall2_mid seg_rel i j A A' HR) (Forall_mid seg_ok i j A HA)
              (Forall_mid seg_ok i j A' HA') wanted Hw (pos A i) (pos A' i) false 0%nat 0%nat) as [H|[n [Hn [E1 E2]]]]; [left; exact H|].
  right. rewrite mid_length in Hn by assumption. exists (i + n)%nat. unfold lkc in E1, E2. rewrite E1, E2.
  destruct (mid_firstn A i j n H1 H2 ltac:(lia)) as [-> _]. destruct (mid_firstn A' i j n H1 ltac:(lia) ltac:(lia)) as [-> _].
  rewrite <- (pos_mono A i (i + n) HA) by lia. rewrite <- (pos_mono A' i (i + n) HA') by lia. repeat split; lia.
Qed.

(* ---- the matcher ---- *)
Lemma lookahead_char_ok : forall rest c, Forall part_ok rest -> find_lookahead_char rest = Some c -> char_ok c.
Proof.
  induction rest as [|p rest IH]; intros c H E; [discriminate|]. inversion H; subst.
  destruct p; cbn [find_lookahead_char] in E; try discriminate; [apply IH; assumption | injection E as <-; exact H2].
Qed.

Definition RS (f : nat) : Prop := forall r pat i j needs sf sf', ok i j -> sfrel sf sf' -> Forall part_ok pat ->
  Forall2 (res_rel j) (match_with_rule f defs r pat (W A i j) needs sf) (match_with_rule f defs r pat (W A' i j) needs sf').
Definition DS (f : nat) : Prop := forall rdi rd i j needs, ok i j -> ruledef_ok rd ->
  Forall2 (res_rel j) (match_with_ruledef f defs rdi rd (W A i j) needs) (match_with_ruledef f defs rdi rd (W A' i j) needs).

Lemma nth_ruledef_ok : forall n, ruledef_ok (nth n defs {| rd_sub := true; rd_name := None; rd_rules := [] |}).
Proof.
  intros n. destruct (nth_in_or_default n defs {| rd_sub := true; rd_name := None; rd_rules := [] |}) as [H|H].
  - rewrite Forall_forall in Hdefs. apply Hdefs. exact H.
  - rewrite H. constructor.
Qed.

Lemma variant_sim : forall f, RS f -> DS f -> forall r i0 rest i j needs sf sf' look, ok i j -> sfrel sf sf' -> Forall part_ok rest ->
  Forall2 (res_rel j) (param_variant f defs r i0 rest (W A i j) needs sf look) (param_variant f defs r i0 rest (W A' i j) needs sf' look).
Proof.
  intros f HRS HDS r i0 rest i j needs sf sf' look Hok Hsf Hrest. pose proof Hok as [H1 H2]. unfold param_variant.
  (* the limited walker *)
  assert (Hwl : (exists k, (i <= k)%nat /\ (k <= j)%nat /\
                   (if look then match find_lookahead_char rest with
                                 | Some c => match lookahead_index (S (length (visible (W A i j)))) (visible (W A i j)) (cur (W A i j)) c false 0 0 with
                                             | Some l => Some (with_limit (W A i j) l) | None => None end
                                 | None => None end else Some (W A i j)) = Some (W A i k) /\
                   (if look then match find_lookahead_char rest with
                                 | Some c => match lookahead_index (S (length (visible (W A' i j)))) (visible (W A' i j)) (cur (W A' i j)) c false 0 0 with
                                             | Some l => Some (with_limit (W A' i j) l) | None => None end
                                 | None => None end else Some (W A' i j)) = Some (W A' i k)) \/
                ((if look then match find_lookahead_char rest with
                                 | Some c => match lookahead_index (S (length (visible (W A i j)))) (visible (W A i j)) (cur (W A i j)) c false 0 0 with
                                             | Some l => Some (with_limit (W A i j) l) | None => None end
                                 | None => None end else Some (W A i j)) = None /\
                 (if look then match find_lookahead_char rest with
                                 | Some c => match lookahead_index (S (length (visible (W A' i j)))) (visible (W A' i j)) (cur (W A' i j)) c false 0 0 with
                                             | Some l => Some (with_limit (W A' i j) l) | None => None end
                                 | None => None end else Some (W A' i j)) = None)).
  { destruct look; [|left; exists j; repeat split; lia].
    destruct (find_lookahead_char rest) as [c|] eqn:Ec; [|right; split; reflexivity].
    pose proof (lookahead_char_ok rest c Hrest Ec) as Hc.
    destruct (look_sim i j c Hok Hc) as [[-> ->]|[k [K1 [K2 [-> ->]]]]]; [right; split; reflexivity|].
    left. exists k. rewrite !W_limit by lia. repeat split; lia. }
  destruct Hwl as [[k [K1 [K2 [-> ->]]]]|[-> ->]]; [|constructor].
  destruct (nui_sim i j Hok) as [ks [[S1 [S2 _]] [-> ->]]]. rewrite !W_cur.
  assert (Hk : ok i k) by (split; lia).
  (* continuation after an argument that ends at segment i1 *)
  assert (Hcont : forall i1 (mk : N -> N -> text -> iarg) (mk' : N -> N -> text -> iarg), (i1 <= k)%nat ->
            (forall s s' e e' x x', srel s s' -> srel e e' -> arel (mk s e x) (mk' s' e' x')) ->
            Forall2 (res_rel j)
              (let w' := with_limit (W A i1 k) (lim (W A i j)) in let e := cur w' in let s := N.min (pos A ks) e in
               match_with_rule f defs r rest w' needs {| sf_rd := sf_rd sf; sf_ru := sf_ru sf; sf_args := mk s e (excerpt_of (W A i j) s e) :: sf_args sf |})
              (let w' := with_limit (W A' i1 k) (lim (W A' i j)) in let e := cur w' in let s := N.min (pos A' ks) e in
               match_with_rule f defs r rest w' needs {| sf_rd := sf_rd sf'; sf_ru := sf_ru sf'; sf_args := mk' s e (excerpt_of (W A' i j) s e) :: sf_args sf' |})).
  { intros i1 mk mk' Hi1 Hmk. cbv zeta. rewrite !W_lim by lia. rewrite !W_limit by lia. rewrite !W_cur.
    rewrite !pos_min by (assumption || lia).
    apply HRS; [split; lia | | exact Hrest].
    destruct Hsf as [R1 [R2 R3]]. repeat split; cbn [sf_rd sf_ru sf_args]; try assumption.
    constructor; [|exact R3]. apply Hmk; apply srel_pos; lia. }
  destruct (nth_rule_params (rparams r) i0) as [|n|n|n|name] eqn:Ety.
  5: { destruct (find_ruledef defs name 0) as [nrd|]; [|constructor].
       eapply Forall2_flat_map_; [apply (HDS nrd _ i k false Hk (nth_ruledef_ok nrd))|].
       intros [m w1] [m' w1'] [Hm [i1 [Hi1 [E1 E2]]]]. cbn [fst snd] in *. subst w1 w1'.
       apply (Hcont i1 (fun s e x => ANested m s e x) (fun s e x => ANested m' s e x) Hi1).
       intros. cbn [arel]. auto. }
  all: (destruct (parse_expr_sim A A' HA HA' HR (200 * fuel_of (W A i k)) (200 * fuel_of (W A' i k)) 0 i k Hk)
          as [E|[E|[[-> ->]|[ex [i1 [L1 [L2 [-> ->]]]]]]]];
        [ exfalso; exact (HF i k ltac:(lia) ltac:(lia) E)
        | exfalso; exact (HF' i k ltac:(lia) ltac:(lia) E)
        | constructor
        | apply (Hcont i1 (fun s e x => AExpr ex s e x) (fun s e x => AExpr ex s e x) L2); intros; cbn [arel]; auto ]).
Qed.

Lemma sim_all : forall f, RS f /\ DS f.
Proof.
  induction f as [|f [IHr IHd]].
  - split; intros ? **; [rewrite !mwr_O | rewrite !mwrd_O]; constructor.
  - assert (Hr : RS (S f)).
    { intros r pat i j needs sf sf' Hok Hsf Hpat. pose proof Hok as [H1 H2]. destruct pat as [|[|c|c|i0] rest].
      - rewrite !mwr_nil, <- (over_sim i j Hok). destruct (negb (is_over (W A i j)) && needs); [constructor|].
        constructor; [|constructor]. split; cbn [fst snd]; [|exists i; repeat split; lia].
        destruct Hsf as [R1 [R2 R3]]. rewrite mrel_unfold, R1, R2. repeat split. apply args_rel_Forall2, Forall2_rev_. exact R3.
      - inversion Hpat; subst. rewrite !mwr_ws, <- (ws_sim i j Hok). destruct (_ && _ && _); [constructor | apply IHr; assumption].
      - inversion Hpat; subst. rewrite !mwr_exact.
        destruct (mec_sim i j c Hok) as [[-> ->]|[i1 [L1 [L2 [-> ->]]]]]; [constructor | apply IHr; [split; lia | assumption | assumption]].
      - inversion Hpat; subst. rewrite !mwr_glued.
        destruct (mecg_sim i j c Hok H3) as [[-> ->]|[i1 [L1 [L2 [-> ->]]]]]; [constructor | apply IHr; [split; lia | assumption | assumption]].
      - inversion Hpat; subst. rewrite !mwr_param. apply Forall2_app_; apply variant_sim; assumption. }
    split; [exact Hr|].
    intros rdi rd i j needs Hok Hrd. rewrite !mwrd_S. unfold ruledef_ok in Hrd. generalize O.
    induction Hrd as [|r rs Hrr Hrs IH]; intros n; cbn [ruledef_go]; [constructor|].
    apply Forall2_app_; [|apply IH]. apply IHr; [exact Hok | repeat split; constructor | exact Hrr].
Qed.

(* ---- de-duplication and the literal filter ---- *)
Lemma srel_eqb : forall s1 s1' s2 s2', srel s1 s1' -> srel s2 s2' -> (s1 =? s2) = (s1' =? s2').
Proof.
  intros s1 s1' s2 s2' [k1 [K1 [-> ->]]] [k2 [K2 [-> ->]]].
  destruct (Nat.eq_dec k1 k2) as [->|Hne]; [rewrite !N.eqb_refl; reflexivity|].
  assert (pos A k1 <> pos A k2) by (intros E; apply Hne; exact (pos_inj A k1 k2 HA K1 K2 E)).
  assert (pos A' k1 <> pos A' k2) by (intros E; apply Hne; apply (pos_inj A' k1 k2 HA'); [lia | lia | exact E]).
  apply N.eqb_neq in H. apply N.eqb_neq in H0. congruence.
Qed.

Lemma same_match_rel : forall n a a' b b', (idepth a <= n)%nat -> mrel a a' -> mrel b b' -> same_match a b = same_match a' b'.
Proof.
  induction n as [|n IH]; intros [rd1 ru1 x e1] [rd1' ru1' x' e1'] [rd2 ru2 y e2] [rd2' ru2' y' e2'] Hd Ha Hb; [cbn [idepth] in Hd; lia|].
  rewrite mrel_unfold in Ha, Hb. destruct Ha as (-> & -> & -> & Hx). destruct Hb as (-> & -> & -> & Hy).
  rewrite !same_match_unfold. apply args_rel_Forall2 in Hx. apply args_rel_Forall2 in Hy.
  rewrite <- (Forall2_len _ _ _ Hx), <- (Forall2_len _ _ _ Hy). f_equal.
  cbn [idepth] in Hd. assert (Hd' : (args_depth idepth x <= n)%nat) by lia. clear Hd.
  revert y y' Hy Hd'. induction Hx as [|p p' x x' Hp Hx IHx]; intros y y' Hy Hd'.
  - destruct Hy; reflexivity.
  - destruct Hy as [|q q' y y' Hq Hy]; [destruct p, p'; cbn [arel] in Hp; try contradiction; reflexivity|].
    destruct p as [ex s t exc|m s t exc], p' as [ex' s' t' exc'|m' s' t' exc']; cbn [arel] in Hp; try contradiction;
    destruct q as [fx u v fxc|m2 u v fxc], q' as [fx' u' v' fxc'|m2' u' v' fxc']; cbn [arel] in Hq; try contradiction;
    cbn [args_same args_depth] in *; try reflexivity.
    + destruct Hp as (_ & P1 & P2). destruct Hq as (_ & Q1 & Q2).
      rewrite (srel_eqb _ _ _ _ P1 Q1), (srel_eqb _ _ _ _ P2 Q2), (IHx y y' Hy Hd'). reflexivity.
    + destruct Hp as (Pm & P1 & P2). destruct Hq as (Qm & Q1 & Q2).
      rewrite (srel_eqb _ _ _ _ P1 Q1), (srel_eqb _ _ _ _ P2 Q2), (IH m m' m2 m2' ltac:(lia) Pm Qm), (IHx y y' Hy ltac:(lia)). reflexivity.
Qed.

Lemma exact_count_rel : forall n a a', (idepth a <= n)%nat -> mrel a a' -> exact_count defs a = exact_count defs a'.
Proof.
  induction n as [|n IH]; intros [rd ru x e] [rd' ru' x' e'] Hd Ha; [cbn [idepth] in Hd; lia|].
  rewrite mrel_unfold in Ha. destruct Ha as (-> & -> & -> & Hx). rewrite !exact_count_unfold. f_equal.
  apply args_rel_Forall2 in Hx. cbn [idepth] in Hd. assert (Hd' : (args_depth idepth x <= n)%nat) by lia. clear Hd.
  induction Hx as [|p p' x x' Hp Hx IHx]; [reflexivity|].
  destruct p as [ex s t exc|m s t exc], p' as [ex' s' t' exc'|m' s' t' exc']; cbn [arel] in Hp; try contradiction;
    cbn [args_count args_depth] in *.
  - apply IHx. exact Hd'.
  - destruct Hp as (Pm & _). rewrite (IH m m' ltac:(lia) Pm), (IHx ltac:(lia)). reflexivity.
Qed.

Lemma dedupe_rel : forall ms ms', Forall2 mrel ms ms' -> forall seen seen', Forall2 mrel seen seen' ->
  Forall2 mrel (dedupe seen ms) (dedupe seen' ms').
Proof.
  induction 1 as [|m m' ms ms' Hm Hms IH]; intros seen seen' Hs; cbn [dedupe]; [constructor|].
  assert (E : existsb (same_match m) seen = existsb (same_match m') seen').
  { clear IH. induction Hs as [|x x' l l' Hx Hl IHl]; [reflexivity|]. cbn [existsb].
    rewrite (same_match_rel (idepth m) m m' x x' (Nat.le_refl _) Hm Hx), IHl. reflexivity. }
  rewrite <- E. destruct (existsb (same_match m) seen); [apply IH; exact Hs|].
  constructor; [exact Hm|]. apply IH. apply Forall2_app_; [exact Hs | constructor; [exact Hm | constructor]].
Qed.

Lemma set_exact_rel : forall m m' n, mrel m m' -> mrel (set_exact m n) (set_exact m' n).
Proof. intros [rd ru x e] [rd' ru' x' e'] n H. cbn [set_exact]. rewrite mrel_unfold in *. tauto. Qed.
Lemma get_exact_rel : forall m m', mrel m m' -> get_exact m = get_exact m'.
Proof. intros [rd ru x e] [rd' ru' x' e'] H. rewrite mrel_unfold in H. cbn [get_exact]. tauto. Qed.

Lemma fold_max_rel : forall l l', Forall2 mrel l l' -> forall a,
  fold_left (fun a m => N.max a (get_exact m)) l a = fold_left (fun a m => N.max a (get_exact m)) l' a.
Proof. induction 1 as [|x x' t t' Hx Ht IH]; intros a; [reflexivity|]. cbn [fold_left]. rewrite (get_exact_rel x x' Hx). apply IH. Qed.

Lemma finish_rel : forall wk wk' j, Forall2 (res_rel j) wk wk' -> Forall2 mrel (finish_matches defs wk) (finish_matches defs wk').
Proof.
  intros wk wk' j H. unfold finish_matches.
  assert (H1 : Forall2 mrel (map fst wk) (map fst wk')) by (eapply Forall2_map_; [exact H | intros x x' [Hx _]; exact Hx]).
  pose proof (dedupe_rel _ _ H1 [] [] (Forall2_nil _)) as H2.
  assert (H3 : Forall2 mrel (map (fun m => set_exact m (exact_count defs m)) (dedupe [] (map fst wk)))
                            (map (fun m => set_exact m (exact_count defs m)) (dedupe [] (map fst wk')))).
  { eapply Forall2_map_; [exact H2|]. intros x x' Hx. rewrite (exact_count_rel (idepth x) x x' (Nat.le_refl _) Hx).
    apply set_exact_rel. exact Hx. }
  set (l := map _ (dedupe [] (map fst wk))) in *. set (l' := map _ (dedupe [] (map fst wk'))) in *.
  assert (E : forall a, fold_left (fun a m => N.max a (get_exact m)) l a = fold_left (fun a m => N.max a (get_exact m)) l' a).
  { apply fold_max_rel. exact H3. }
  rewrite <- E. apply Forall2_filter_; [exact H3|]. intros x x' Hx. rewrite (get_exact_rel x x' Hx). reflexivity.
Qed.

(* ---- the prefix index ---- *)
Lemma instr_key_sim : forall n i j, ok i j -> instr_key n (W A i j) = instr_key n (W A' i j).
Proof.
  induction n as [|n IH]; intros i j Hok; [reflexivity|]. cbn [instr_key]. rewrite <- !next_useful_index_skip.
  destruct (nui_sim i j Hok) as [k [[K1 [K2 [K3 K4]]] [-> ->]]]. destruct Hok as [H1 H2].
  destruct (head_sim k j (conj K2 H2) K4) as [[-> [V1 V2]]|[ch [r [r' [Hlt [Hc [V1 [V2 [A1 A2]]]]]]]]]; rewrite V1, V2; [reflexivity|].
  destruct (ch =? 0); [reflexivity|]. rewrite A1, A2. f_equal. apply IH. split; lia.
Qed.

Lemma cand_sim : forall f i j e, ok i j ->
  Forall2 (res_rel j) (cand_matches f defs (W A i j) e) (cand_matches f defs (W A' i j) e).
Proof.
  intros f i j [a b] Hok. cbn [cand_matches]. destruct (nth_error defs a) as [d|] eqn:Ed; [|constructor].
  destruct (nth_error (rd_rules d) b) as [r|] eqn:Er; [|constructor].
  destruct (sim_all f) as [HRS _]. apply HRS; [exact Hok | repeat split; constructor|].
  rewrite Forall_forall in Hdefs. pose proof (Hdefs d (nth_error_In _ _ Ed)) as Hd. unfold ruledef_ok in Hd.
  rewrite Forall_forall in Hd. exact (Hd r (nth_error_In _ _ Er)).
Qed.

Definition match_instr_fuel (fuel : nat) (indexed : bool) (w : walker) : list imatch :=
  finish_matches defs (if indexed then working_indexed fuel defs w else working_brute fuel defs w).

Theorem match_sim : forall fuel indexed i j, ok i j ->
  Forall2 mrel (match_instr_fuel fuel indexed (W A i j)) (match_instr_fuel fuel indexed (W A' i j)).
Proof.
  intros fuel indexed i j Hok. unfold match_instr_fuel. apply (finish_rel _ _ j). destruct indexed.
  - unfold working_indexed. rewrite <- (instr_key_sim MAX_PREFIX i j Hok). apply Forall2_flat_map_same. intros e. apply cand_sim. exact Hok.
  - unfold working_brute. apply Forall2_flat_map_same. intros e. apply cand_sim. exact Hok.
Qed.

End Match.
