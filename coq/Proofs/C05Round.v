(* C05 — operators bind with the documented precedence and associativity: the printer/parser round trip.
   Spec/Printer.v prints a tree with the DOCUMENTED precedence numbers (`binop_prec`, `prec`), either fully
   parenthesised or with the minimal parentheses the documented table requires; the parser model (tied to
   src/expr/parser.rs by the correspondence stream and to its level table by C05_model_levels) reads every such
   text back as the same tree and consumes all of it; every tree the parser produces is printable, so printing and
   parsing a parsed tree is the identity.  Proof: Proofs/RoundTrip{Lex,Num,Levels,Spec,P,Main,Depth}.v,
   Proofs/ParsePrintableP.v, Proofs/PrintStrP.v. *)
From Coq Require Import NArith List Bool Arith String.
From CA Require Import Model.Lexer Model.Parser Model.Literal Spec.EvalWf Spec.Grammar Spec.Printer Proofs.RoundTripMain
  Proofs.RoundTripDepth Proofs.ParsePrintableP Proofs.PrintStrP.
Import ListNotations.
Open Scope N_scope.

(* every non-leaf parenthesised: the parser undoes the printer *)
Theorem C05_parse_print_full : forall e, wf_print e -> (depth_full e <= PARSE_DEPTH_MAX)%nat ->
  exists w, parse_text (print_full e) = POk e w /\ cur w = bytes_len (print_full e).
Proof. exact parse_full. Qed.

(* parentheses only where the documented precedence/associativity table requires them: the precedence theorem *)
Theorem C05_parse_print_min : forall e, wf_print e -> (depth_min e <= PARSE_DEPTH_MAX)%nat ->
  exists w, parse_text (print_min e) = POk e w /\ cur w = bytes_len (print_min e).
Proof. exact parse_min. Qed.

(* the depth hypotheses are the code's own recursion counter on the printed text; it is at most twice the height of
   the tree, so both round trips hold for every printable tree of height <= 24 *)
Theorem C05_print_depth : forall full e p, (p <= 16)%nat -> (pd full p e <= 2 * height e)%nat.
Proof. exact pd_height. Qed.
Theorem C05_parse_print_full_height : forall e, wf_print e -> (2 * height e < PARSE_DEPTH_MAX)%nat ->
  exists w, parse_text (print_full e) = POk e w /\ cur w = bytes_len (print_full e).
Proof. exact parse_full_height. Qed.
Theorem C05_parse_print_min_height : forall e, wf_print e -> (2 * height e < PARSE_DEPTH_MAX)%nat ->
  exists w, parse_text (print_min e) = POk e w /\ cur w = bytes_len (print_min e).
Proof. exact parse_min_height. Qed.

(* the precondition `printable` (an executable predicate, Spec/Printer.v) holds of EVERY tree the parser produces,
   whatever the source text: the two theorems above cover the whole language the parser accepts *)
Theorem C05_parse_printable : forall s e w, parse_text s = POk e w -> printable e = true.
Proof. exact parse_printable. Qed.

(* so the round trip composes: printing a parsed tree (minimally or fully parenthesised) and parsing again gives the
   same tree -- for every accepted source s, with any spacing, comments, separators, literal spellings.  The depth
   hypothesis is about the PRINTED text; it cannot be dropped (C05_reparse_needs_depth) *)
Theorem C05_reparse_stable : forall s e w, parse_text s = POk e w -> (depth_min e <= PARSE_DEPTH_MAX)%nat ->
  exists w', parse_text (print_min e) = POk e w' /\ cur w' = bytes_len (print_min e).
Proof. exact reparse_min. Qed.
Theorem C05_reparse_stable_full : forall s e w, parse_text s = POk e w -> (depth_full e <= PARSE_DEPTH_MAX)%nat ->
  exists w', parse_text (print_full e) = POk e w' /\ cur w' = bytes_len (print_full e).
Proof. exact reparse_full. Qed.
Theorem C05_reparse_stable_height : forall s e w, parse_text s = POk e w -> (2 * height e < PARSE_DEPTH_MAX)%nat ->
  exists w', parse_text (print_min e) = POk e w' /\ cur w' = bytes_len (print_min e).
Proof. intros s e w H Hh. apply parse_min_height; [exact (parse_printable s e w H)|exact Hh]. Qed.
(* why the depth hypothesis: an explicit empty else `c ? t : {}` is the same tree as `c ? t`, whose printing in
   front of a `:` needs a pair of parentheses, i.e. one more level than the source used: 46 unary minus signs in
   front of `(a ? b ? c : {} : d)` parse at counter 50, the minimal printing `-...-(a ? (b ? c) : d)` needs 51 *)
Definition deep_src : text :=
  (repeat 45 46%nat ++ [40; 97; 32; 63; 32; 98; 32; 63; 32; 99; 32; 58; 32; 123; 125; 32; 58; 32; 100; 41])%list.
Theorem C05_reparse_needs_depth :
  exists e w, parse_text deep_src = POk e w /\ parse_text (print_min e) = PErr /\ depth_min e = 51%nat.
Proof. eexists; eexists. split; [vm_compute; reflexivity|]. split; vm_compute; reflexivity. Qed.

(* string literals: the literal printer of Spec/StrCodec gives, for every quote-free string, a printable token that
   denotes the string (the lexer of the code cannot keep a double quote inside a string token) *)
Theorem C05_string_literal : forall s, scalar_text s -> forallb noq s = true ->
  printable (EStr (str_lit s)) = true /\ string_contents (str_lit s) = Some s.
Proof. exact str_lit_printable. Qed.

(* the printer's operator table IS the documented one (Spec/Grammar.documented_levels, transcribed from the wiki):
   operator o stands in the documented level number `binop_prec o` (assignment = 1 ... multiplication = 11), under
   the token whose spelling in the lexer's table is `binop_text o` *)
Definition binop_tok (o : binop) : tkind :=
  match o with
  | Assign => TEqual | Add => TPlus | Sub => TMinus | Mul => TAsterisk | Div => TSlash | Mod => TPercent
  | Shl => TDoubleLessThan | Shr => TDoubleGreaterThan | And => TAmpersand | Or => TVerticalBar | Xor => TCircumflex
  | Eq => TDoubleEqual | Ne => TExclamationEqual | Lt => TLessThan | Le => TLessThanEqual | Gt => TGreaterThan
  | Ge => TGreaterThanEqual | LazyAnd => TDoubleAmpersand | LazyOr => TDoubleVerticalBar | Concat => TAt
  end.

Theorem C05_printer_table : forall o,
  exists fn comb ops nxt, nth_error documented_levels (binop_prec o - 1) = Some (fn, comb, ops, nxt)
    /\ In (tkind_name (binop_tok o), binop_name o) ops /\ In (binop_text o, binop_tok o) specials.
Proof.
  intro o. destruct o; cbn [binop_prec Nat.sub nth_error documented_levels]; do 4 eexists;
    (split; [reflexivity|]); (split; [cbn; tauto | cbn [specials In binop_text binop_tok]; tauto]).
Qed.
(* and the unary operators are the documented ones, below the binary levels *)
Theorem C05_printer_unary :
  nth_error documented_levels 11 = Some ("parse_unary", "parse_unary_ops", [("Exclamation", "Not"); ("Minus", "Neg")], "parse_call")%string
  /\ In (unop_text Not, TExclamation) specials /\ In (unop_text Neg, TMinus) specials.
Proof. split; [reflexivity|]. split; cbn; tauto. Qed.

(* non-vacuity: `1 + 2 * 3`, `(1 + 2) * 3`, `a = b ? c : d`, `-x`8` are minimal printings of the trees the
   documented table gives them, they satisfy the hypotheses, and the theorem yields their parse *)
Definition ex_n (v : N) : expr := ENum v None.
Definition ex_v (c : N) : expr := EVar 0 [[c]].
Definition ex1 : expr := EBin Add (ex_n 1) (EBin Mul (ex_n 2) (ex_n 3)).
Definition ex2 : expr := EBin Mul (EBin Add (ex_n 1) (ex_n 2)) (ex_n 3).
Definition ex3 : expr := EBin Assign (ex_v 97) (ETern (ex_v 98) (ex_v 99) (ex_v 100)).
Definition ex4 : expr := EShort (ex_n 8) (EUn Neg (ex_v 120)).
Definition ex5 : expr :=   (* (a ? b) ? x[(c ? d):0] : f(1, {0xff}) - 2 - (3 - 4) *)
  ETern (ETern (ex_v 97) (ex_v 98) (EBlock []))
        (ESlice (ETern (ex_v 99) (ex_v 100) (EBlock [])) (ex_n 0) (ex_v 120))
        (EBin Sub (EBin Sub (ECall (ex_v 102) [ex_n 1; EBlock [ENum 255 (Some 8)]]) (ex_n 2)) (EBin Sub (ex_n 3) (ex_n 4))).

Definition ex6 : expr :=   (* ..a.bb.$ = {x = "e\n", .y}`8 ? f("", 0b101) : - -3 *)
  EBin Assign (EVar 2 [[97]; [98; 98]; [36]])
    (ETern (EShort (ex_n 8) (EBlock [EBin Assign (ex_v 120) (EStr [34; 101; 92; 110; 34]); EVar 1 [[121]]]))
           (ECall (ex_v 102) [EStr [34; 34]; ENum 5 (Some 3)])
           (EUn Neg (EUn Neg (ex_n 3)))).

Example C05_round_nonvacuous :
  print_min ex1 = [49; 32; 43; 32; 50; 32; 42; 32; 51]                                  (* 1 + 2 * 3 *)
  /\ print_min ex2 = [40; 49; 32; 43; 32; 50; 41; 32; 42; 32; 51]                       (* (1 + 2) * 3 *)
  /\ print_min ex3 = [97; 32; 61; 32; 98; 32; 63; 32; 99; 32; 58; 32; 100]              (* a = b ? c : d *)
  /\ print_min ex4 = [45; 120; 96; 56]                                                  (* -x`8 *)
  /\ print_full ex1 = [40; 49; 32; 43; 32; 40; 50; 32; 42; 32; 51; 41; 41]              (* (1 + (2 * 3)) *)
  /\ string_of_text (print_min ex5) = "(a ? b) ? x[(c ? d):0] : f(1, {0xff}) - 2 - (3 - 4)"%string
  /\ print_min ex6 = [46;46;97;46;98;98;46;36;32;61;32;123;120;32;61;32;34;101;92;110;34;44;32;46;121;125;96;56;32;63;32;
                      102;40;34;34;44;32;48;98;49;48;49;41;32;58;32;45;45;51]
  /\ Forall (fun e => wf_print e /\ (depth_min e <= PARSE_DEPTH_MAX)%nat /\ (depth_full e <= PARSE_DEPTH_MAX)%nat
                      /\ (exists w, parse_text (print_min e) = POk e w /\ cur w = bytes_len (print_min e))
                      /\ (exists w, parse_text (print_full e) = POk e w /\ cur w = bytes_len (print_full e)))
            [ex1; ex2; ex3; ex4; ex5; ex6]
  /\ (exists w, parse_text [49; 32; 43; 32; 50; 32; 42; 32; 51] = POk ex1 w)            (* `*` binds tighter than `+` *)
  /\ (exists w, parse_text [97; 32; 61; 32; 98; 32; 63; 32; 99; 32; 58; 32; 100] = POk ex3 w).
Proof.
  assert (H : Forall (fun e => wf_print e /\ (depth_min e <= PARSE_DEPTH_MAX)%nat /\ (depth_full e <= PARSE_DEPTH_MAX)%nat)
                     [ex1; ex2; ex3; ex4; ex5; ex6]).
  { repeat constructor; vm_compute; (reflexivity || (intro; discriminate)). }
  split; [vm_compute; reflexivity|]. split; [vm_compute; reflexivity|]. split; [vm_compute; reflexivity|].
  split; [vm_compute; reflexivity|]. split; [vm_compute; reflexivity|]. split; [vm_compute; reflexivity|].
  split; [vm_compute; reflexivity|].
  split; [|split].
  - revert H. apply Forall_impl. intros e (Hw & Hm & Hf).
    split; [exact Hw|]. split; [exact Hm|]. split; [exact Hf|].
    split; [apply C05_parse_print_min; assumption | apply C05_parse_print_full; assumption].
  - inversion H as [|? ? (Hw & Hm & _) _]; subst. destruct (C05_parse_print_min ex1 Hw Hm) as (w & E & _).
    exists w. exact E.
  - inversion H as [|? ? _ H2]; subst. inversion H2 as [|? ? _ H3]; subst. inversion H3 as [|? ? (Hw & Hm & _) _]; subst.
    destruct (C05_parse_print_min ex3 Hw Hm) as (w & E & _). exists w. exact E.
Qed.
