(* C05: every tree the expression parser produces is `printable` (Spec/Printer.v), for ANY source text:
   identifier tokens are `$` or keyword-free identifiers, string tokens are quote .. quote without an inner quote,
   sized literals have a positive size and fit it, variable paths are non-empty.  Hence the round trip composes:
   the minimal (or full) printing of a parsed tree parses back to the same tree (`reparse_min`, `reparse_full`). *)
From Coq Require Import ZArith NArith List Bool Arith Lia ZifyBool.
From CA Require Import Model.Lexer Model.Parser Spec.LiteralSpec Spec.Printer Proofs.LiteralP Proofs.ParseWfP
  Proofs.RoundTripLex Proofs.RoundTripMain.
Import ListNotations.
Open Scope N_scope.

(* ---------- what the lexer cuts ---------- *)
Lemma take_bytes_0 t : take_bytes 0 t = [].
Proof. destruct t; reflexivity. Qed.

Lemma take_bytes_cons n c r : n <> 0 -> take_bytes n (c :: r) = c :: take_bytes (n - utf8_len c) r.
Proof. intro H. cbn [take_bytes]. destruct (N.eqb_spec n 0); [contradiction|reflexivity]. Qed.

Lemma span_take (P : N -> bool) v : forall n rest, span_while P v = (n, rest) ->
  take_bytes n v ++ rest = v /\ forallb P (take_bytes n v) = true /\ bytes_len (take_bytes n v) = n.
Proof.
  induction v as [|c r IH]; intros n rest E; cbn [span_while] in E.
  - inversion E. repeat split.
  - destruct (P c) eqn:Pc.
    + destruct (span_while P r) as [n' rest'] eqn:E'. inversion E; subst. destruct (IH n' rest eq_refl) as (H1 & H2 & H3).
      pose proof (utf8_len_pos c). cbn [take_bytes]. destruct (N.eqb_spec (utf8_len c + n') 0); [lia|].
      replace (utf8_len c + n' - utf8_len c) with n' by lia. cbn [app forallb bytes_len]. rewrite H1, H2, H3, Pc. repeat split.
    + inversion E; subst. rewrite take_bytes_0. repeat split.
Qed.

Lemma special_kind tbl t k n : check_special_in tbl t = Some (k, n) -> In k (map snd tbl).
Proof.
  induction tbl as [|[p k0] tbl IH]; cbn [check_special_in]; [discriminate|].
  destruct (starts_with p t); [intro E; inversion E; left; reflexivity|]. intro E. right. apply IH, E.
Qed.

Lemma dnt_source v k n : decide_next_token v = (k, n) ->
  k = TWhitespace \/ k = TComment \/ k = TNumber \/ check_identifier v = Some (k, n) \/ In k (map snd specials)
  \/ check_string v = Some (k, n) \/ k = TError.
Proof.
  unfold decide_next_token.
  destruct (check_whitespace v) as [[k1 n1]|] eqn:E1; cbn [orelse].
  { intro E; inversion E; subst. unfold check_whitespace in E1. destruct (span_while is_whitespace v) as [[|p] ?]; inversion E1. tauto. }
  destruct (check_comment v) as [[k2 n2]|] eqn:E2; cbn [orelse].
  { intro E; inversion E; subst. unfold check_comment in E2. destruct v as [|c r]; [discriminate|].
    right; left.
    destruct c as [|q]; [discriminate|]. do 6 (destruct q as [q|q|]; try discriminate).
    destruct r as [|c2 r2].
    - cbn in E2. inversion E2. reflexivity.
    - destruct c2 as [|q]; [destruct (span_while _ _) in E2; inversion E2; reflexivity|].
      do 6 (destruct q as [q|q|]; try (destruct (span_while _ _) in E2; inversion E2; reflexivity)).
      inversion E2. reflexivity. }
  destruct (check_number v) as [[k3 n3]|] eqn:E3; cbn [orelse].
  { intro E; inversion E; subst. unfold check_number in E3. destruct v as [|c r]; [discriminate|].
    right; right; left.
    destruct (is_number_start c); [destruct (span_while _ _) in E3; inversion E3; reflexivity|].
    destruct (c =? 36); [destruct (span_while _ _) as [[|p] ?] in E3; inversion E3; reflexivity|].
    destruct (c =? 37); [destruct (span_while _ _) as [[|p] ?] in E3; inversion E3; reflexivity|discriminate]. }
  destruct (check_identifier v) as [[k4 n4]|] eqn:E4; cbn [orelse].
  { intro E; inversion E; subst. tauto. }
  destruct (check_special_in specials v) as [[k5 n5]|] eqn:E5; cbn [orelse].
  { intro E; inversion E; subst. apply special_kind in E5. tauto. }
  destruct (check_string v) as [[k6 n6]|] eqn:E6.
  { intro E; inversion E; subst. tauto. }
  intro E; inversion E. tauto.
Qed.

Lemma dnt_ident v n : decide_next_token v = (TIdentifier, n) -> name_ok (take_bytes n v) = true.
Proof.
  intro E. apply dnt_source in E.
  destruct E as [E | [E | [E | [E | [E | [E | E]]]]]]; try discriminate.
  - unfold check_identifier in E. destruct v as [|c r]; [discriminate|].
    destruct (N.eqb_spec c 36) as [-> | Hc].
    + inversion E. cbn [take_bytes]. change (1 =? 0) with false. change (1 - utf8_len 36) with 0. rewrite take_bytes_0. reflexivity.
    + destruct (is_ident_start c) eqn:Hs; [|discriminate].
      destruct (span_while is_ident_mid (c :: r)) as [m rest] eqn:Es.
      destruct (span_take is_ident_mid (c :: r) m rest Es) as (H1 & H2 & H3).
      destruct (text_eqb (take_bytes m (c :: r)) kw_asm) eqn:K1; [discriminate|].
      destruct (text_eqb (take_bytes m (c :: r)) kw_true) eqn:K2; [discriminate|].
      destruct (text_eqb (take_bytes m (c :: r)) kw_false) eqn:K3; [discriminate|].
      inversion E; subst n. unfold name_ok, wf_name. rewrite H2, K1, K2, K3.
      cbn [span_while] in Es. assert (Hm : is_ident_mid c = true) by (unfold is_ident_mid; rewrite Hs; reflexivity).
      rewrite Hm in Es. destruct (span_while is_ident_mid r) as [m' rest']. inversion Es; subst.
      pose proof (utf8_len_pos c). cbn [take_bytes]. destruct (N.eqb_spec (utf8_len c + m') 0); [lia|].
      rewrite Hs. cbn. apply orb_true_r.
  - exfalso. cbn [map snd specials In] in E. repeat (destruct E as [E | E]; [discriminate|]). exact E.
  - unfold check_string in E. destruct v as [|c r]; [discriminate|].
    destruct c as [|q]; [discriminate|]. do 6 (destruct q as [q|q|]; try discriminate).
    destruct (span_while _ r) as [m rest]. destruct rest as [|y rest]; [discriminate|].
    destruct y as [|q]; [discriminate|]. do 6 (destruct q as [q|q|]; try discriminate).
Qed.

Lemma dnt_string v n : decide_next_token v = (TString, n) -> str_ok (take_bytes n v) = true.
Proof.
  intro E. apply dnt_source in E.
  destruct E as [E | [E | [E | [E | [E | [E | E]]]]]]; try discriminate.
  - exfalso. unfold check_identifier in E. destruct v as [|c r]; [discriminate|].
    destruct (c =? 36); [discriminate|]. destruct (is_ident_start c); [|discriminate].
    destruct (span_while is_ident_mid (c :: r)) as [m rest].
    destruct (text_eqb _ kw_asm); [discriminate|]. destruct (text_eqb _ kw_true); [discriminate|].
    destruct (text_eqb _ kw_false); discriminate.
  - exfalso. cbn [map snd specials In] in E. repeat (destruct E as [E | E]; [discriminate|]). exact E.
  - unfold check_string in E. destruct v as [|c r]; [discriminate|].
    destruct (N.eq_dec c 34) as [-> | Hc].
    2:{ destruct c as [|q]; [discriminate|]. do 6 (destruct q as [q|q|]; try discriminate). congruence. }
    destruct (span_while (fun c => negb (c =? 34)) r) as [m rest] eqn:Es.
    destruct (span_take _ r m rest Es) as (H1 & H2 & H3).
    destruct rest as [|y rest]; [discriminate|].
    destruct (N.eq_dec y 34) as [-> | Hy].
    2:{ destruct y as [|q]; [discriminate|]. do 6 (destruct q as [q|q|]; try discriminate). congruence. }
    assert (En : n = 2 + m) by congruence. subst n. rewrite (take_bytes_cons (2 + m) 34 r) by lia.
    change (utf8_len 34) with 1. set (body := take_bytes m r) in *.
    replace (2 + m - 1) with (bytes_len (body ++ [34])).
    2:{ rewrite bytes_len_app, H3. cbn [bytes_len]. change (utf8_len 34) with 1. lia. }
    rewrite <- H1. replace (body ++ 34 :: rest) with ((body ++ [34]) ++ rest) by (rewrite <- app_assoc; reflexivity).
    rewrite take_bytes_app. unfold str_ok.
    rewrite (span_while_app (fun c => negb (c =? 34)) body [34] H2 eq_refl). reflexivity.
Qed.

(* ---------- what the walker hands to the parser ---------- *)
Lemma next_useful_tok f : forall w w1 kn, next_useful f w = (w1, kn) -> kn = token_here w1.
Proof.
  induction f as [|f IH]; intros w w1 kn H; cbn [next_useful] in H.
  - inversion H; reflexivity.
  - destruct (token_here w) as [k n] eqn:Et.
    destruct (lim w <=? cur w); [inversion H; subst; auto|].
    destruct (is_ignorable k); [|inversion H; subst; auto]. eapply IH; eauto.
Qed.

Definition tok_text_ok (k : tkind) (t : text) : Prop :=
  (k = TIdentifier -> name_ok t = true) /\ (k = TString -> str_ok t = true).

Lemma maybe_expect_text w k w' t : maybe_expect w k = Some (w', t) -> tok_text_ok k t.
Proof.
  unfold maybe_expect. destruct (next_useful (fuel_of w) w) as [w1 [k' n]] eqn:Hn.
  destruct (tkind_eqb k k') eqn:Ek; [|discriminate]. intro H; inversion H; subst. apply tkind_eqb_eq in Ek. subst k'.
  apply next_useful_tok in Hn. unfold token_here in Hn.
  destruct (lim w1 <=? cur w1); [inversion Hn; split; discriminate|].
  split; intros ->; [apply dnt_ident | apply dnt_string]; symmetry; exact Hn.
Qed.
Lemma expect_text w k t w' : expect w k = POk t w' -> tok_text_ok k t.
Proof.
  unfold expect. destruct (maybe_expect w k) as [[w1 t1]|] eqn:H; [|discriminate].
  intro E; inversion E; subst. eapply maybe_expect_text; eauto.
Qed.

Lemma number_literal_printable t v sz : number_literal t = Some (v, sz) -> printable (ENum v sz) = true.
Proof.
  intro H. destruct sz as [s|]; [|reflexivity]. cbn [printable].
  pose proof (ParseWfP.number_literal_bound t v s H) as Hb.
  assert (Hs : 0 < s).
  { rewrite number_literal_split in H. unfold number_body in H. destruct (split_prefix t) as [radix rest].
    destruct (digits radix rest 0 0) as [[v0 cnt]|]; [|discriminate].
    destruct (N.eqb_spec cnt 0); [discriminate|].
    destruct (radix =? 2); [assert (s = cnt) by congruence; lia|].
    destruct (radix =? 8); [assert (s = 3 * cnt) by congruence; lia|].
    destruct (radix =? 16); [assert (s = 4 * cnt) by congruence; lia|congruence]. }
  assert (Hv : v < 2 ^ s).
  { apply N2Z.inj_lt. rewrite N2Z.inj_pow. exact Hb. }
  apply andb_true_intro. split; lia.
Qed.

(* ---------- the invariant over the thirteen parser functions ---------- *)
Definition ok_e (r : pres expr) : Prop := forall e w', r = POk e w' -> printable e = true.
Definition ok_l (r : pres (list expr)) : Prop := forall es w', r = POk es w' -> forallb printable es = true.

Definition inv (fuel : nat) : Prop :=
  (forall depth w, ok_e (parse_expr fuel depth w)) /\
  (forall depth w, ok_e (parse_assign fuel depth w)) /\
  (forall depth lv w, ok_e (parse_levels fuel depth lv w)) /\
  (forall depth ops inner l w, printable l = true -> ok_e (binary_loop fuel depth ops inner l w)) /\
  (forall depth w, ok_e (parse_slice fuel depth w)) /\
  (forall depth w, ok_e (parse_short fuel depth w)) /\
  (forall depth w, ok_e (parse_unary fuel depth w)) /\
  (forall depth w, ok_e (parse_call fuel depth w)) /\
  (forall depth w acc, forallb printable acc = true -> ok_l (parse_args fuel depth w acc)) /\
  (forall depth w, ok_e (parse_leaf fuel depth w)) /\
  (forall depth w acc, forallb printable acc = true -> ok_l (parse_block fuel depth w acc)) /\
  (forall w level, ok_e (parse_var_dots fuel w level)) /\
  (forall w level acc, forallb name_ok acc = true -> ok_e (parse_var_names fuel w level acc)).

Lemma forallb_rev {A} (f : A -> bool) l : forallb f (rev l) = forallb f l.
Proof.
  induction l as [|x l IH]; [reflexivity|]. cbn [rev forallb]. rewrite forallb_app, IH. cbn [forallb].
  rewrite andb_true_r. apply andb_comm.
Qed.
Lemma printable_var l n acc : name_ok n = true -> forallb name_ok acc = true -> printable (EVar l (rev (n :: acc))) = true.
Proof.
  intros Hn Ha. cbn [printable]. destruct (rev (n :: acc)) as [|x p] eqn:E.
  - cbn [rev] in E. apply app_eq_nil in E. destruct E; discriminate.
  - rewrite <- E, forallb_rev. cbn [forallb]. rewrite Hn, Ha. reflexivity.
Qed.

Ltac step :=
  match goal with
  | H : bind _ _ = POk _ _ |- _ =>
      apply bind_ok in H; let a := fresh "a" in let w := fresh "w" in let Hm := fresh "Hm" in
      destruct H as (a & w & Hm & H); cbv beta in H
  | H : POk _ _ = POk _ _ |- _ => inversion H; subst; clear H
  | H : PErr = POk _ _ |- _ => discriminate H
  | H : PFuel = POk _ _ |- _ => discriminate H
  | H : (let _ := _ in _) = POk _ _ |- _ => cbv zeta in H
  | H : (if ?b then _ else _) = POk _ _ |- _ => destruct b
  | H : match maybe_expect ?w ?k with _ => _ end = POk _ _ |- _ => destruct (maybe_expect w k) as [[? ?]|]
  | H : match find_op ?w ?k with _ => _ end = POk _ _ |- _ => destruct (find_op w k) as [[? ?]|]
  | H : match next_linebreak ?f ?w with _ => _ end = POk _ _ |- _ => destruct (next_linebreak f w) as [?|]
  | H : match number_literal ?t with _ => _ end = POk _ _ |- _ =>
      let E := fresh "E" in destruct (number_literal t) as [[? ?]|] eqn:E; [apply number_literal_printable in E|]
  | H : expect ?w ?k = POk _ _ |- _ =>
      apply expect_text in H; let H1 := fresh "Hid" in let H2 := fresh "Hstr" in destruct H as [H1 H2];
      try specialize (H1 eq_refl); try specialize (H2 eq_refl)
  | H : match ?lv with [] => _ | _ :: _ => _ end = POk _ _ |- _ => destruct lv
  | H : _ = POk _ _, IH : forall _ : nat, _ |- _ => apply IH in H; [| solve [auto | cbn [printable forallb]; auto using andb_true_intro]..]
  | H : _ = POk _ _, IH : forall _ : walker, _ |- _ => apply IH in H; [| solve [auto | cbn [printable forallb]; auto using andb_true_intro]..]
  end.
Ltac fin :=
  try assumption;
  repeat match goal with H : ?x = true |- _ => rewrite H end;
  cbn [printable forallb]; rewrite ?forallb_app, ?forallb_rev; cbn [forallb];
  repeat match goal with H : ?x = true |- _ => rewrite H end;
  try reflexivity; auto using printable_var.

Lemma inv_all fuel : inv fuel.
Proof.
  induction fuel as [|f IH].
  - unfold inv, ok_e, ok_l; repeat split; intros; discriminate.
  - destruct IH as (IHexpr & IHassign & IHlevels & IHbin & IHslice & IHshort & IHunary & IHcall & IHargs & IHleaf & IHblock & IHdots & IHnames).
    unfold inv, ok_e, ok_l in *. repeat match goal with |- _ /\ _ => split end; intros.
    + rewrite parse_expr_S in H. repeat step; fin.
    + rewrite parse_assign_S in H. repeat step; fin.
    + rewrite parse_levels_S in H. repeat step; fin.
    + rewrite binary_loop_S in H0. repeat step; fin.
    + rewrite parse_slice_S in H. repeat step; fin.
    + rewrite parse_short_S in H. repeat step; fin.
    + rewrite parse_unary_S in H. repeat step; fin.
    + rewrite parse_call_S in H. repeat step; fin.
    + rewrite parse_args_S in H0. repeat step; fin.
    + rewrite parse_leaf_S in H. repeat step; fin.
    + rewrite parse_block_S in H0. repeat step; fin.
    + rewrite parse_var_dots_S in H. repeat step; fin.
    + rewrite parse_var_names_S in H0. repeat step; first [apply (printable_var level a acc); assumption | fin].
Qed.

Theorem parse_printable : forall t e w, parse_text t = POk e w -> printable e = true.
Proof.
  intros t e w H. unfold parse_text in H. destruct (inv_all (200 * S (length t))) as (Hexpr & _). eapply Hexpr; eauto.
Qed.

(* ---------- the round trip composes ---------- *)
Theorem reparse_min : forall s e w, parse_text s = POk e w -> (depth_min e <= PARSE_DEPTH_MAX)%nat ->
  exists w', parse_text (print_min e) = POk e w' /\ cur w' = bytes_len (print_min e).
Proof. intros s e w H Hd. apply parse_min; [exact (parse_printable s e w H)|exact Hd]. Qed.
Theorem reparse_full : forall s e w, parse_text s = POk e w -> (depth_full e <= PARSE_DEPTH_MAX)%nat ->
  exists w', parse_text (print_full e) = POk e w' /\ cur w' = bytes_len (print_full e).
Proof. intros s e w H Hd. apply parse_full; [exact (parse_printable s e w H)|exact Hd]. Qed.
