(* Lemmas about Model/Driver.v for C18. *)
From Coq Require Import ZArith NArith List Bool Lia.
From CA Require Import Model.CliTables Model.Driver Spec.Cli.
Import ListNotations.
Open Scope N_scope.
Open Scope list_scope.

(* ---------------------------------------------------------------- texts *)
Lemma text_eqb_eq : forall a b, text_eqb a b = true <-> a = b.
Proof.
  induction a as [|x a IH]; destruct b as [|y b]; simpl; split; intro H; try discriminate; auto.
  - apply andb_true_iff in H. destruct H as [H1 H2]. apply N.eqb_eq in H1. apply IH in H2. subst. reflexivity.
  - inversion H; subst. rewrite N.eqb_refl. simpl. apply IH. reflexivity.
Qed.
Lemma text_eqb_refl : forall a, text_eqb a a = true.
Proof. intro a. apply text_eqb_eq. reflexivity. Qed.
Lemma text_eqb_neq : forall a b, text_eqb a b = false <-> a <> b.
Proof.
  intros a b. split; intro H.
  - intro E. apply text_eqb_eq in E. congruence.
  - destruct (text_eqb a b) eqn:E; auto. apply text_eqb_eq in E. contradiction.
Qed.
Lemma text_eqb_sym : forall a b, text_eqb a b = text_eqb b a.
Proof.
  intros a b. destruct (text_eqb a b) eqn:E.
  - apply text_eqb_eq in E. subst. symmetry. apply text_eqb_refl.
  - symmetry. apply text_eqb_neq. apply text_eqb_neq in E. congruence.
Qed.

(* ---------------------------------------------------------------- split_on *)
Lemma split_on_nonempty : forall c s, split_on c s <> [].
Proof.
  intros c s. induction s as [|x r IH]; simpl; try discriminate.
  destruct (x =? c); try discriminate. destruct (split_on c r); [contradiction | discriminate].
Qed.

Lemma split_on_no_sep : forall c s, ~ In c s -> split_on c s = [s].
Proof.
  intros c s. induction s as [|x r IH]; simpl; intro H; auto.
  destruct (x =? c) eqn:E.
  - apply N.eqb_eq in E. subst. exfalso. apply H. left. reflexivity.
  - rewrite IH; auto.
Qed.

Lemma split_on_app : forall c a b, ~ In c a -> split_on c (a ++ c :: b) = a :: split_on c b.
Proof.
  intros c a b. induction a as [|x r IH]; simpl; intro H.
  - rewrite N.eqb_refl. reflexivity.
  - destruct (x =? c) eqn:E.
    + apply N.eqb_eq in E. subst. exfalso. apply H. left. reflexivity.
    + rewrite IH; auto.
Qed.

Lemma split_on_pieces_clean : forall c s p, In p (split_on c s) -> ~ In c p.
Proof.
  intros c s. induction s as [|x r IH]; simpl; intros p H.
  - destruct H as [H|[]]. subst. auto.
  - destruct (x =? c) eqn:E.
    + destruct H as [H|H]; [subst; auto | apply IH; auto].
    + destruct (split_on c r) as [|q qs] eqn:S.
      * destruct H as [H|[]]. subst. intros [K|[]]. apply N.eqb_neq in E. congruence.
      * destruct H as [H|H].
        -- subst. intros [K|K]. { apply N.eqb_neq in E. congruence. } { apply (IH q); [left; reflexivity | exact K]. }
        -- apply IH. right. exact H.
Qed.

(* ---------------------------------------------------------------- the parameter map *)
Lemma map_get_remove_same : forall k m, map_get k (map_remove k m) = None.
Proof.
  intros k m. induction m as [|[k' v] r IH]; simpl; auto.
  destruct (text_eqb k' k) eqn:E; simpl; auto. rewrite E. exact IH.
Qed.
Lemma map_get_remove_other : forall k q m, q <> k -> map_get k (map_remove q m) = map_get k m.
Proof.
  intros k q m Hne. induction m as [|[k' v] r IH]; simpl; auto.
  destruct (text_eqb k' q) eqn:E; simpl.
  - apply text_eqb_eq in E. subst. destruct (text_eqb q k) eqn:E2.
    + apply text_eqb_eq in E2. contradiction.
    + exact IH.
  - destruct (text_eqb k' k); auto.
Qed.
Lemma map_get_insert : forall k id v m, map_get k (map_insert id v m) = if text_eqb id k then Some v else map_get k m.
Proof.
  intros. unfold map_insert. simpl. destruct (text_eqb id k) eqn:E; auto.
  apply map_get_remove_other. apply text_eqb_neq. exact E.
Qed.
Lemma map_has_remove_other : forall k q m, q <> k -> map_has k (map_remove q m) = map_has k m.
Proof. intros. unfold map_has. rewrite map_get_remove_other; auto. Qed.

Lemma find_app_ : forall {A} (f : A -> bool) a b,
  find f (a ++ b) = match find f a with Some x => Some x | None => find f b end.
Proof. intros A f a b. induction a as [|x r IH]; simpl; auto. destruct (f x); auto. Qed.

(* ---------------------------------------------------------------- build_params *)
Lemma id_of_param_id : forall p, param_id p = COk (id_of p).
Proof.
  intro p. unfold param_id, id_of, pieces. destruct (split_on 58 p) eqn:E; auto.
  exfalso. exact (split_on_nonempty _ _ E).
Qed.

Lemma last_spelling_cons : forall k p r,
  last_spelling k (p :: r) = match last_spelling k r with
                             | Some sp => Some sp
                             | None => if text_eqb (id_of p) k then Some p else None
                             end.
Proof.
  intros. unfold last_spelling. simpl. rewrite find_app_.
  destruct (find (fun p0 => text_eqb (id_of p0) k) (rev r)); auto;
  try (simpl; destruct (text_eqb (id_of p) k); reflexivity).
Qed.

(* after the first loop the map holds, for each id, the value spelled last (or what was there before) *)
Lemma build_params_get : forall fid ps m0 m, build_params fid ps m0 = COk m ->
  forall k, map_get k m = match last_spelling k ps with Some sp => Some (value_of sp) | None => map_get k m0 end.
Proof.
  intros fid ps. induction ps as [|p r IH]; intros m0 m H k.
  - simpl in H. inversion H; subst. reflexivity.
  - simpl in H. rewrite last_spelling_cons.
    destruct (split_on 58 p) as [|id [|v [|x xs]]] eqn:S; try discriminate.
    + rewrite (IH _ _ H k). destruct (last_spelling k r); auto.
      rewrite map_get_insert. unfold id_of, value_of, pieces. rewrite S.
      destruct (text_eqb id k); simpl; try rewrite S; reflexivity.
    + rewrite (IH _ _ H k). destruct (last_spelling k r); auto.
      rewrite map_get_insert. unfold id_of, value_of, pieces. rewrite S.
      destruct (text_eqb id k); simpl; try rewrite S; reflexivity.
Qed.

Lemma build_params_two_part : forall fid ps m0 m, build_params fid ps m0 = COk m ->
  forall p, In p ps -> (List.length (split_on 58 p) <= 2)%nat.
Proof.
  intros fid ps. induction ps as [|q r IH]; intros m0 m H p Hin; [destruct Hin|].
  simpl in H. destruct (split_on 58 q) as [|id [|v [|x xs]]] eqn:S; try discriminate.
  - destruct Hin as [E|Hin]; [subst; rewrite S; simpl; lia | eapply IH; eauto].
  - destruct Hin as [E|Hin]; [subst; rewrite S; simpl; lia | eapply IH; eauto].
Qed.

Lemma last_spelling_some : forall k ps p, In p ps -> id_of p = k -> exists sp, last_spelling k ps = Some sp.
Proof.
  intros k ps p Hin Hid. unfold last_spelling.
  destruct (find (fun p0 => text_eqb (id_of p0) k) (rev ps)) eqn:F; eauto.
  exfalso. assert (K := find_none _ _ F p). simpl in K. rewrite <- in_rev in K. specialize (K Hin).
  rewrite Hid, text_eqb_refl in K. discriminate.
Qed.

Lemma build_params_has : forall fid ps m, build_params fid ps [] = COk m ->
  forall p, In p ps -> map_has (id_of p) m = true.
Proof.
  intros fid ps m H p Hin. unfold map_has. rewrite (build_params_get _ _ _ _ H).
  destruct (last_spelling_some (id_of p) ps p Hin eq_refl) as [sp E]. rewrite E. reflexivity.
Qed.

(* ---------------------------------------------------------------- eval_fields *)
Definition field_sem (vals : list (text * cli_validator)) (m : pmap) (f : cli_field) (v : N) : Prop :=
  match f with
  | CliConst n => v = n
  | CliArg p def vn =>
    match map_get p m with
    | None => v = def
    | Some value => exists vd, lookup vn vals = Some vd /\ parse_usize value = Some v /\ validate vd v = true
    end
  end.

Lemma field_sem_remove : forall vals m q fs l,
  Forall2 (field_sem vals (map_remove q m)) fs l -> ~ In q (field_params fs) -> Forall2 (field_sem vals m) fs l.
Proof.
  intros vals m q fs l H. induction H as [|f v fs l Hf Hr IH]; intro Hn; constructor.
  - destruct f as [n|p def vn]; simpl in *; auto.
    rewrite map_get_remove_other in Hf; auto; try (intro E; apply Hn; left; symmetry; exact E).
  - apply IH. intro K. apply Hn. unfold field_params in *. simpl. apply in_or_app. right. exact K.
Qed.

Lemma eval_fields_sem : forall vals fid fs m l m',
  NoDup (field_params fs) -> eval_fields vals fid fs m = COk (l, m') -> Forall2 (field_sem vals m) fs l.
Proof.
  intros vals fid fs. induction fs as [|f r IH]; intros m l m' Hnd H.
  - simpl in H. inversion H; subst. constructor.
  - destruct f as [n|p def vn]; simpl in H.
    + destruct (eval_fields vals fid r m) as [[l0 m0]| |] eqn:E; simpl in H; try discriminate.
      inversion H; subst. constructor; [reflexivity | eapply IH; eauto].
    + simpl in Hnd. inversion Hnd as [|? ? Hnotin Hnd']; subst.
      destruct (map_get p m) as [value|] eqn:G.
      * destruct (lookup vn vals) as [vd|] eqn:L; try discriminate.
        destruct (parse_usize value) as [v|] eqn:P; try discriminate.
        destruct (validate vd v) eqn:V; try discriminate.
        destruct (eval_fields vals fid r (map_remove p m)) as [[l0 m0]| |] eqn:E; simpl in H; try discriminate.
        inversion H; subst. constructor.
        -- simpl. rewrite G. exists vd. auto.
        -- eapply field_sem_remove; [eapply IH; eauto | exact Hnotin].
      * destruct (eval_fields vals fid r m) as [[l0 m0]| |] eqn:E; simpl in H; try discriminate.
        inversion H; subst. constructor; [simpl; rewrite G; reflexivity | eapply IH; eauto].
Qed.

(* a key that disappears during eval_fields is one of the arm's parameters *)
Lemma eval_fields_removed : forall vals fid fs m l m',
  eval_fields vals fid fs m = COk (l, m') ->
  forall k, map_has k m = true -> map_has k m' = false -> In k (field_params fs).
Proof.
  intros vals fid fs. induction fs as [|f r IH]; intros m l m' H k Hk Hk'.
  - simpl in H. inversion H; subst. congruence.
  - destruct f as [n|p def vn]; simpl in H.
    + destruct (eval_fields vals fid r m) as [[l0 m0]| |] eqn:E; simpl in H; try discriminate.
      inversion H; subst. simpl. eapply IH; eauto.
    + destruct (map_get p m) as [value|] eqn:G.
      * destruct (lookup vn vals) as [vd|] eqn:L; try discriminate.
        destruct (parse_usize value) as [v|] eqn:P; try discriminate.
        destruct (validate vd v) eqn:V; try discriminate.
        destruct (eval_fields vals fid r (map_remove p m)) as [[l0 m0]| |] eqn:E; simpl in H; try discriminate.
        inversion H; subst. simpl.
        destruct (text_eqb p k) eqn:Epk.
        -- left. apply text_eqb_eq. exact Epk.
        -- right. eapply IH; eauto. rewrite map_has_remove_other; auto. apply text_eqb_neq. exact Epk.
      * destruct (eval_fields vals fid r m) as [[l0 m0]| |] eqn:E; simpl in H; try discriminate.
        inversion H; subst. simpl. right. eapply IH; eauto.
Qed.

Lemma leftover_ok : forall fid ps m, leftover fid ps m = COk tt -> forall p, In p ps -> map_has (id_of p) m = false.
Proof.
  intros fid ps m. induction ps as [|q r IH]; intros H p Hin; [destruct Hin|].
  simpl in H. rewrite id_of_param_id in H. simpl in H.
  destruct (map_has (id_of q) m) eqn:E; try discriminate.
  destruct Hin as [K|K]; [subst; exact E | apply IH; auto].
Qed.

Lemma find_arm_some : forall arms fid a, find_arm arms fid = Some a -> In a arms /\ fst (fst a) = fid.
Proof.
  intros arms fid a. induction arms as [|x r IH]; simpl; intro H; try discriminate.
  destruct (text_eqb (fst (fst x)) fid) eqn:E.
  - inversion H; subst. split; [left; reflexivity | apply text_eqb_eq; exact E].
  - destruct (IH H). split; [right|]; assumption.
Qed.

(* ---------------------------------------------------------------- parse_output_format: everything an accepted string satisfies *)
Lemma parse_ok_inv : forall arms vals s f, parse_output_format_with arms vals s = COk f ->
  exists fid ps a m l m', split_on 44 s = fid :: ps /\ build_params fid ps [] = COk m /\ find_arm arms fid = Some a /\
    eval_fields vals fid (snd a) m = COk (l, m') /\ leftover fid ps m' = COk tt /\
    f = {| f_ctor := snd (fst a); f_fields := l |}.
Proof.
  intros arms vals s f H. unfold parse_output_format_with in H.
  destruct (split_on 44 s) as [|fid ps] eqn:S; try discriminate.
  destruct (build_params fid ps []) as [m| |] eqn:B; simpl in H; try discriminate.
  destruct (find_arm arms fid) as [a|] eqn:F; try discriminate.
  destruct (eval_fields vals fid (snd a) m) as [[l m']| |] eqn:E; simpl in H; try discriminate.
  destruct (leftover fid ps m') as [[]| |] eqn:L; simpl in H; try discriminate.
  inversion H; subst. exists fid, ps, a, m, l, m'. repeat split; auto.
Qed.

Theorem parse_sound : forall arms vals s f fid ps,
  parse_output_format_with arms vals s = COk f -> split_on 44 s = fid :: ps ->
  exists a, find_arm arms fid = Some a /\ In a arms /\ fst (fst a) = fid /\ f_ctor f = snd (fst a) /\
    (forall p, In p ps -> (List.length (pieces p) <= 2)%nat /\ In (id_of p) (field_params (snd a))) /\
    (NoDup (field_params (snd a)) -> Forall2 (field_spec vals ps) (snd a) (f_fields f)).
Proof.
  intros arms vals s f fid ps H S.
  destruct (parse_ok_inv _ _ _ _ H) as (fid' & ps' & a & m & l & m' & S' & B & F & E & L & Hf).
  rewrite S in S'. inversion S'; subst fid' ps'. clear S'.
  destruct (find_arm_some _ _ _ F) as [Hin Hname].
  exists a. repeat split; auto.
  - subst f. reflexivity.
  - eapply build_params_two_part; eauto.
  - eapply eval_fields_removed; eauto.
    + eapply build_params_has; eauto.
    + eapply leftover_ok; eauto.
  - intro Hnd. subst f. simpl.
    assert (Hs := eval_fields_sem _ _ _ _ _ _ Hnd E).
    clear - Hs B. induction Hs as [|fl v fs l0 Hf Hr IH]; constructor; auto.
    destruct fl as [n|p def vn]; simpl in *; auto.
    rewrite (build_params_get _ _ _ _ B p) in Hf. simpl in Hf.
    destruct (last_spelling p ps); auto.
Qed.

Corollary unknown_name_rejected : forall arms vals s fid ps,
  split_on 44 s = fid :: ps -> find_arm arms fid = None -> forall f, parse_output_format_with arms vals s <> COk f.
Proof.
  intros arms vals s fid ps S F f H. destruct (parse_sound _ _ _ _ _ _ H S) as (a & Fa & _). congruence.
Qed.

Corollary three_part_rejected : forall arms vals s fid ps p,
  split_on 44 s = fid :: ps -> In p ps -> (List.length (split_on 58 p) > 2)%nat ->
  forall f, parse_output_format_with arms vals s <> COk f.
Proof.
  intros arms vals s fid ps p S Hin Hl f H. destruct (parse_sound _ _ _ _ _ _ H S) as (a & _ & _ & _ & _ & Hp & _).
  destruct (Hp p Hin) as [K _]. unfold pieces in K. lia.
Qed.

Corollary unknown_param_rejected : forall arms vals s fid ps p a,
  split_on 44 s = fid :: ps -> find_arm arms fid = Some a -> In p ps -> ~ In (id_of p) (field_params (snd a)) ->
  forall f, parse_output_format_with arms vals s <> COk f.
Proof.
  intros arms vals s fid ps p a S F Hin Hn f H. destruct (parse_sound _ _ _ _ _ _ H S) as (a' & Fa & _ & _ & _ & Hp & _).
  rewrite F in Fa. inversion Fa; subst a'. destruct (Hp p Hin) as [_ K]. contradiction.
Qed.

(* ---------------------------------------------------------------- derive_output_filename *)
Lemma replace_backslash_id : forall l, ~ In 92 l -> replace_backslash l = l.
Proof.
  induction l as [|x r IH]; simpl; intro H; auto.
  destruct (x =? 92) eqn:E.
  - apply N.eqb_eq in E. subst. exfalso. apply H. left. reflexivity.
  - rewrite IH; auto.
Qed.

Theorem derive_differs : forall exts d f input name,
  derive_output_filename_with exts d f input = COk name -> name <> input.
Proof.
  intros exts d f input name H. unfold derive_output_filename_with in H.
  destruct (text_eqb _ input) eqn:E; try discriminate. inversion H; subst. apply text_eqb_neq. exact E.
Qed.

Theorem derive_extension : forall exts d f input name,
  derive_output_filename_with exts d f input = COk name ->
  file_name_split input <> None -> extension_of exts d f <> [] -> ~ In 92 (extension_of exts d f) ->
  ends_with name (46 :: extension_of exts d f).
Proof.
  intros exts d f input name H Hfn Hne Hbs. unfold derive_output_filename_with in H.
  destruct (text_eqb _ input) eqn:E; try discriminate. inversion H; subst. clear H E.
  unfold set_extension. destruct (file_name_split input) as [[front comp]|]; [|contradiction].
  destruct (extension_of exts d f) as [|e0 er] eqn:X; [contradiction|].
  exists (replace_backslash (front ++ file_stem comp)).
  unfold replace_backslash. rewrite app_assoc, map_app. f_equal.
  change (replace_backslash (46 :: e0 :: er) = 46 :: e0 :: er). apply replace_backslash_id.
  intros [K|K]; [discriminate | exact (Hbs K)].
Qed.

Theorem derive_refuses_same : forall exts d f input,
  replace_backslash (set_extension input (extension_of exts d f)) = input ->
  derive_output_filename_with exts d f input = CErr (EDerive input).
Proof. intros. unfold derive_output_filename_with. rewrite H, text_eqb_refl. reflexivity. Qed.

(* ---------------------------------------------------------------- parse_command *)
Ltac splits := repeat match goal with |- _ /\ _ => split end.
Ltac dbind H :=
  match type of H with
  | cbind ?x _ = _ => let E := fresh "E" in destruct x eqn:E; simpl in H; try discriminate
  end.

Definition raw_format (T : tables) (g : pgroup) : cres (option fmt) :=
  match pg_format g with
  | None => COk None
  | Some s => cbind (parse_output_format_with (t_arms T) (t_vals T) s) (fun f => COk (Some f))
  end.

Definition iters_rel (prev : N) (t : option text) (now : N) : Prop :=
  match t with None => now = prev | Some t => parse_usize t = Some now /\ now <> 0 end.
Definition color_rel (prev : bool) (v : option (option text)) (now : bool) : Prop :=
  match v with
  | None => now = prev
  | Some v => (v = Some t_on /\ now = true) \/ (v = Some t_off /\ now = false)
  end.

Lemma step_inv : forall T c g c', step T c g = COk c' ->
  exists f ds, raw_format T g = COk f /\ parse_defines T (pg_defines g) = COk ds /\
    c_inputs c' = c_inputs c ++ pg_free g /\
    c_groups c' = c_groups c ++ [{| cg_format := f; cg_print := pg_print g; cg_output := pg_output g |}] /\
    c_quiet c' = c_quiet c || pg_quiet g /\ c_version c' = c_version c || pg_version g /\ c_help c' = c_help c || pg_help g /\
    c_defines c' = c_defines c ++ ds /\
    iters_rel (c_iters c) (pg_iters g) (c_iters c') /\ color_rel (c_colors c) (pg_color g) (c_colors c').
Proof.
  intros T c g c' H. unfold step in H. fold (raw_format T g) in H.
  dbind H. dbind H. dbind H. dbind H. inversion H; subst c'; simpl.
  exists a, a0. splits; auto.
  - unfold iters_rel. destruct (pg_iters g) as [t|]; [|inversion E2; reflexivity].
    destruct (parse_usize t) as [n|]; try discriminate. destruct (n =? 0) eqn:Z; try discriminate.
    inversion E2; subst. split; auto. apply N.eqb_neq. exact Z.
  - unfold color_rel. destruct (pg_color g) as [[v|]|]; try discriminate; [|inversion E1; reflexivity].
    destruct (text_eqb v t_on) eqn:On.
    + inversion E1; subst. left. apply text_eqb_eq in On. subst. auto.
    + destruct (text_eqb v t_off) eqn:Off; try discriminate. inversion E1; subst. right. apply text_eqb_eq in Off. subst. auto.
Qed.

Lemma steps_inv : forall T gs c c', steps T c gs = COk c' ->
  c_inputs c' = c_inputs c ++ flat_map pg_free gs /\
  c_quiet c' = c_quiet c || existsb pg_quiet gs /\ c_version c' = c_version c || existsb pg_version gs /\
  c_help c' = c_help c || existsb pg_help gs /\
  (exists fs, Forall2 (fun g f => raw_format T g = COk f) gs fs /\
     c_groups c' = c_groups c ++ map (fun gf => {| cg_format := snd gf; cg_print := pg_print (fst gf); cg_output := pg_output (fst gf) |}) (combine gs fs)) /\
  (exists dss, Forall2 (fun g ds => parse_defines T (pg_defines g) = COk ds) gs dss /\ c_defines c' = c_defines c ++ concat dss) /\
  match last_given pg_iters gs with None => c_iters c' = c_iters c | Some t => parse_usize t = Some (c_iters c') /\ c_iters c' <> 0 end /\
  match last_given pg_color gs with None => c_colors c' = c_colors c
  | Some v => (v = Some t_on /\ c_colors c' = true) \/ (v = Some t_off /\ c_colors c' = false) end.
Proof.
  intros T gs. induction gs as [|g r IH]; intros c c' H.
  - simpl in H. inversion H; subst. simpl. rewrite !app_nil_r, !orb_false_r. splits; auto.
    + exists []. split; [constructor | simpl; try rewrite app_nil_r; reflexivity].
    + exists []. split; [constructor | simpl; try rewrite app_nil_r; reflexivity].
  - simpl in H. dbind H. rename a into c1.
    destruct (step_inv _ _ _ _ E) as (f & ds & Hf & Hd & Hi & Hg & Hq & Hv & Hh & Hdf & Hit & Hco).
    destruct (IH _ _ H) as (Ii & Iq & Iv & Ih & (fs & Ifs & Ig) & (dss & Idss & Id) & Iit & Ico).
    simpl. splits.
    + rewrite Ii, Hi, app_assoc. reflexivity.
    + rewrite Iq, Hq, orb_assoc. reflexivity.
    + rewrite Iv, Hv, orb_assoc. reflexivity.
    + rewrite Ih, Hh, orb_assoc. reflexivity.
    + exists (f :: fs). split; [constructor; auto|]. rewrite Ig, Hg. simpl. rewrite <- app_assoc. reflexivity.
    + exists (ds :: dss). split; [constructor; auto|]. rewrite Id, Hdf. simpl. rewrite <- app_assoc. reflexivity.
    + destruct (last_given pg_iters r); auto. rewrite Iit. unfold iters_rel in Hit. destruct (pg_iters g); auto.
    + destruct (last_given pg_color r); auto. rewrite Ico. unfold color_rel in Hco. destruct (pg_color g); auto.
Qed.

Lemma finish_groups_inv : forall T first gs gs', finish_groups T first gs = COk gs' ->
  Forall2 (fun g g' => finish_group T first g = COk g') gs gs'.
Proof.
  intros T first gs. induction gs as [|g r IH]; intros gs' H; simpl in H.
  - inversion H. constructor.
  - dbind H. dbind H. inversion H; subst. constructor; auto.
Qed.

Theorem command_inv : forall T gs c, parse_command_with T gs = COk c ->
  c_inputs c = flat_map pg_free gs /\
  c_quiet c = t_quiet T || existsb pg_quiet gs /\ c_version c = existsb pg_version gs /\ c_help c = existsb pg_help gs /\
  (exists dss, Forall2 (fun g ds => parse_defines T (pg_defines g) = COk ds) gs dss /\ c_defines c = concat dss) /\
  match last_given pg_iters gs with None => c_iters c = t_iters T | Some t => parse_usize t = Some (c_iters c) /\ c_iters c <> 0 end /\
  match last_given pg_color gs with None => c_colors c = t_colors T
  | Some v => (v = Some t_on /\ c_colors c = true) \/ (v = Some t_off /\ c_colors c = false) end /\
  Forall2 (fun g g' => group_decision T (hd_error (flat_map pg_free gs)) g = COk g') gs (c_groups c).
Proof.
  intros T gs c H. unfold parse_command_with in H. dbind H. dbind H. inversion H; subst c; simpl. clear H.
  destruct (steps_inv _ _ _ _ E) as (Ii & Iq & Iv & Ih & (fs & Ifs & Ig) & (dss & Idss & Id) & Iit & Ico).
  simpl in *. splits; auto.
  - exists dss. auto.
  - apply finish_groups_inv in E0. rewrite Ii, Ig in E0. clear - Ifs E0.
    remember (flat_map pg_free gs) as inputs. clear Heqinputs.
    revert a0 E0. induction Ifs as [|g f gs0 fs0 Hf Hr IH]; intros a0 E0; simpl in E0.
    + inversion E0. constructor.
    + inversion E0; subst. constructor; auto.
      unfold group_decision. fold (raw_format T g). rewrite Hf. simpl. assumption.
Qed.

(* ---------------------------------------------------------------- assemble_with_command *)
Lemma perform_done : forall wr gs done acts, perform wr gs done = ODone acts -> acts = rev done ++ map action_of gs.
Proof.
  intros wr gs. induction gs as [|g r IH]; intros done acts H; simpl in H.
  - inversion H. simpl. rewrite app_nil_r. reflexivity.
  - simpl. destruct (action_of g) as [f|name f|] eqn:A.
    + apply IH in H. rewrite H. simpl. rewrite <- app_assoc. reflexivity.
    + destruct (wr name); try discriminate. apply IH in H. rewrite H. simpl. rewrite <- app_assoc. reflexivity.
    + apply IH in H. rewrite H. simpl. rewrite <- app_assoc. reflexivity.
Qed.

Lemma Forall2_len : forall {A B} (R : A -> B -> Prop) l l', Forall2 R l l' -> List.length l = List.length l'.
Proof. intros A B R l l' H. induction H; simpl; auto. Qed.

Definition acts_once (a : action) : Prop := (exists f, a = APrint f) \/ (exists n f, a = AWrite n f).

Lemma finish_group_acts : forall T input g g', finish_group T (Some input) g = COk g' -> acts_once (action_of g').
Proof.
  intros T input g g' H. unfold finish_group in H.
  destruct (cg_print g) eqn:P.
  - inversion H; subst. unfold action_of; simpl. try rewrite P. left. eauto.
  - destruct (cg_output g) as [o|] eqn:O.
    + inversion H; subst. unfold action_of; simpl. try rewrite P. try rewrite O. right. eauto.
    + dbind H. inversion H; subst. unfold action_of; simpl. right. eauto.
Qed.

Theorem run_one_action_per_group : forall T gs c asm_ok wr acts,
  parse_command_with T gs = COk c -> run_command c asm_ok wr = ODone acts ->
  acts = map action_of (c_groups c) /\ List.length acts = List.length gs /\ Forall acts_once acts.
Proof.
  intros T gs c asm_ok wr acts Hc Hr.
  destruct (command_inv _ _ _ Hc) as (Hi & _ & _ & _ & _ & _ & _ & Hg).
  unfold run_command in Hr. destruct (c_help c); try discriminate. destruct (c_version c); try discriminate.
  destruct (c_inputs c) as [|i0 ir] eqn:I; try discriminate. destruct asm_ok; try discriminate.
  apply perform_done in Hr. simpl in Hr. subst acts. split; auto. split.
  - rewrite map_length. symmetry. eapply Forall2_len; eauto.
  - rewrite <- Hi in Hg. simpl in Hg. clear - Hg. induction Hg as [|g g' gs0 gs0' Hd Hr IH]; simpl; constructor; auto.
    unfold group_decision in Hd. dbind Hd. eapply finish_group_acts; eauto.
Qed.

(* nothing is written or printed unless the command parsed, is not help/version, has an input and assembled *)
Theorem run_no_action_otherwise : forall c asm_ok wr,
  (c_help c = true \/ c_version c = true \/ c_inputs c = [] \/ asm_ok = false) ->
  match run_command c asm_ok wr with ODone _ | OWriteFailed _ => False | _ => True end.
Proof.
  intros c asm_ok wr H. unfold run_command.
  destruct (c_help c); auto. destruct (c_version c); auto. destruct (c_inputs c); auto. destruct asm_ok; auto.
  destruct H as [H|[H|[H|H]]]; discriminate.
Qed.

(* defaults *)
Theorem default_format : forall T first g g', finish_group T first g = COk g' -> cg_format g = None ->
  cg_format g' = Some (if cg_print g then mkfmt (t_default_print T) else mkfmt (t_default_file T)).
Proof.
  intros T first g g' H N. unfold finish_group in H. rewrite N in H.
  destruct (cg_print g); [inversion H; reflexivity|].
  destruct (cg_output g); [inversion H; reflexivity|].
  destruct first; [|inversion H; reflexivity]. dbind H. inversion H. reflexivity.
Qed.

(* ---------------------------------------------------------------- parse_define_arg *)
Section Defines.
Variables (p2 p1 : list (N * N)) (e : bool).
Let pd := parse_define_with p2 p1 e.

Lemma define_bare : forall name, ~ In 61 name -> pd name = COk (name, DBool true).
Proof. intros. unfold pd, parse_define_with. rewrite split_on_no_sep; auto. Qed.

Lemma define_split : forall name value, ~ In 61 name -> ~ In 61 value -> split_on 61 (name ++ 61 :: value) = [name; value].
Proof. intros. rewrite split_on_app; auto. rewrite split_on_no_sep; auto. Qed.

Lemma define_true : forall name, ~ In 61 name -> pd (name ++ 61 :: t_true) = COk (name, DBool true).
Proof.
  intros. unfold pd, parse_define_with. rewrite define_split; auto.
  vm_compute. intuition discriminate.
Qed.
Lemma define_false : forall name, ~ In 61 name -> pd (name ++ 61 :: t_false) = COk (name, DBool false).
Proof.
  intros. unfold pd, parse_define_with. rewrite define_split; auto.
  vm_compute. intuition discriminate.
Qed.

Lemma define_two_equals : forall a b c, ~ In 61 a -> ~ In 61 b -> pd (a ++ 61 :: b ++ 61 :: c) = CErr (EDefine (a ++ 61 :: b ++ 61 :: c)).
Proof.
  intros. unfold pd, parse_define_with. rewrite split_on_app; auto. rewrite split_on_app; auto.
  destruct (split_on 61 c) eqn:S; [exfalso; exact (split_on_nonempty _ _ S) | reflexivity].
Qed.

Lemma define_number : forall name body, ~ In 61 name -> ~ In 61 body ->
  text_eqb body t_true = false -> text_eqb body t_false = false -> (forall r, body <> 45 :: r) ->
  pd (name ++ 61 :: body) =
  cbind (excerpt_as_bigint p2 p1 e body) (fun o => match o with
    | None => CErr (EDefineValue name) | Some (v, sz) => COk (name, DInt (Z.of_N v) sz) end).
Proof.
  intros name body Hn Hb Ht Hf Hneg. unfold pd, parse_define_with. rewrite define_split; auto. cbv beta iota. rewrite Ht, Hf.
  destruct body as [|c r]; [reflexivity|].
  destruct (N.eq_dec c 45) as [->|Hc]; [exfalso; exact (Hneg r eq_refl)|].
  destruct c as [|c]; [reflexivity|]. repeat (destruct c as [c|c|]; try reflexivity; try (exfalso; apply Hc; reflexivity)).
Qed.

Lemma define_negative : forall name body, ~ In 61 name -> ~ In 61 body ->
  pd (name ++ 61 :: 45 :: body) =
  cbind (excerpt_as_bigint p2 p1 e body) (fun o => match o with
    | None => CErr (EDefineValue name) | Some (v, sz) => COk (name, DInt (- Z.of_N v) None) end).
Proof.
  intros name body Hn Hb. unfold pd, parse_define_with.
  rewrite define_split; [reflexivity | assumption | intros [K|K]; [discriminate | exact (Hb K)]].
Qed.
End Defines.

Lemma define_empty_rejected : forall p2 p1 name, ~ In 61 name ->
  parse_define_with p2 p1 true (name ++ [61]) = CErr (EDefineValue name) /\
  parse_define_with p2 p1 true (name ++ [61; 45]) = CErr (EDefineValue name).
Proof.
  intros. split.
  - rewrite define_number; auto; try reflexivity; try (intros r K; discriminate).
  - change [61; 45] with (61 :: 45 :: []). rewrite define_negative; auto.
Qed.

(* ---------------------------------------------------------------- finite table obligations (re-checked on every run) *)
Lemma usage_accepted_all : forallb usage_entry_ok cli_usage_formats = true.
Proof. vm_compute. reflexivity. Qed.
Lemma usage_accepted : forall e, In e cli_usage_formats -> usage_entry_ok e = true.
Proof. apply forallb_forall. exact usage_accepted_all. Qed.

Lemma usage_examples_all : forallb usage_example_ok cli_usage_examples = true.
Proof. vm_compute. reflexivity. Qed.
Lemma usage_examples : forall e, In e cli_usage_examples -> usage_example_ok e = true.
Proof. apply forallb_forall. exact usage_examples_all. Qed.

Lemma validators_documented_all : forallb arm_documented cli_arms = true.
Proof. vm_compute. reflexivity. Qed.
Lemma names_documented_all : forallb arm_named cli_arms = true.
Proof. vm_compute. reflexivity. Qed.
Lemma extensions_documented_all : forallb extension_documented cli_variants = true.
Proof. vm_compute. reflexivity. Qed.
Lemma values_accepted_all : forallb arm_values_accepted cli_arms = true.
Proof. vm_compute. reflexivity. Qed.
Lemma params_nodup_all : forallb (fun a : arm => nodupb (field_params (snd a))) cli_arms = true.
Proof. vm_compute. reflexivity. Qed.
Lemma defaults_valid_all : forallb default_valid cli_arms = true.
Proof. vm_compute. reflexivity. Qed.
Lemma options_documented_all : forallb option_documented cli_opts = true /\ forallb option_implemented cli_usage_options = true.
Proof. split; vm_compute; reflexivity. Qed.
Lemma tables_fixed : cli_leftover_in_given_order = true /\ cli_empty_literal_is_error = true.
Proof. split; reflexivity. Qed.
Lemma defaults_documented :
  mkfmt cli_default_print = {| f_ctor := s_Annotated; f_fields := [16; 2] |} /\
  mkfmt cli_default_file = {| f_ctor := s_Binary; f_fields := [] |} /\
  cli_iters_default = cli_usage_iters_default /\ cli_colors_default = text_eqb cli_usage_color_default t_on /\
  cli_quiet_default = false.
Proof. repeat split; reflexivity. Qed.

Lemma nodupb_NoDup : forall l, nodupb l = true -> NoDup l.
Proof.
  induction l as [|x r IH]; simpl; intro H; constructor.
  - apply andb_true_iff in H. destruct H as [H _]. intro K. apply negb_true_iff in H.
    assert (existsb (text_eqb x) r = true) by (apply existsb_exists; exists x; split; [exact K | apply text_eqb_refl]). congruence.
  - apply IH. apply andb_true_iff in H. tauto.
Qed.

Lemma validator_eqb_eq : forall a b, validator_eqb a b = true -> a = b.
Proof.
  intros [l h|x] [l' h'|y]; simpl; intro H; try discriminate.
  - apply andb_true_iff in H. destruct H as [A B]. apply N.eqb_eq in A. apply N.eqb_eq in B. subst. reflexivity.
  - apply text_eqb_eq in H. subst. reflexivity.
Qed.

(* accepted by the model over the regenerated tables => name known, every parameter known and two-part, every
   value the last one spelled, a usize, inside the DOCUMENTED set; parameters not given take the default *)
Theorem accepted_is_documented : forall s f fid ps,
  parse_output_format s = COk f -> split_on 44 s = fid :: ps ->
  exists a, find_arm cli_arms fid = Some a /\ f_ctor f = snd (fst a) /\
    (forall p, In p ps -> (List.length (pieces p) <= 2)%nat /\ In (id_of p) (field_params (snd a))) /\
    Forall2 (field_spec_doc fid ps) (snd a) (f_fields f).
Proof.
  intros s f fid ps H S. unfold parse_output_format in H.
  destruct (parse_sound _ _ _ _ _ _ H S) as (a & Fa & Hin & Hname & Hc & Hp & Hv).
  exists a. splits; auto.
  assert (Hnd : NoDup (field_params (snd a))).
  { apply nodupb_NoDup. exact (proj1 (forallb_forall _ _) params_nodup_all a Hin). }
  specialize (Hv Hnd).
  assert (Hdoc := proj1 (forallb_forall _ _) validators_documented_all a Hin). unfold arm_documented in Hdoc.
  rewrite Hname in Hdoc. clear - Hv Hdoc.
  induction Hv as [|fl v fs l Hf Hr IH]; constructor.
  - simpl in Hdoc. apply andb_true_iff in Hdoc. destruct Hdoc as [Hd _].
    destruct fl as [n|p def vn]; simpl in *; auto.
    destruct (last_spelling p ps); auto. destruct Hf as (vd & L & P & V). rewrite L in Hd.
    destruct (documented_set fid p) as [d|]; try discriminate. apply validator_eqb_eq in Hd. subst. exists d. auto.
  - apply IH. simpl in Hdoc. apply andb_true_iff in Hdoc. tauto.
Qed.

(* ---------------------------------------------------------------- packaging for Props/C18.v *)
Lemma extension_in_table : forall exts d f, In (extension_of exts d f) (d :: map snd exts).
Proof.
  intros exts d f. unfold extension_of. induction exts as [|[k e] r IH]; simpl; auto.
  destruct (text_eqb k (f_ctor f)); simpl; auto. destruct IH; auto.
Qed.

Definition ext_wellformed (e : text) : bool := negb (match e with [] => true | _ => false end) && negb (existsb (N.eqb 92) e).
Lemma extensions_wellformed_all : forallb ext_wellformed (cli_default_extension :: map snd cli_extensions) = true.
Proof. vm_compute. reflexivity. Qed.

Theorem derived_name : forall f input name, derive_output_filename f input = COk name ->
  name <> input /\
  (file_name_split input <> None -> ends_with name (46 :: extension_of cli_extensions cli_default_extension f)).
Proof.
  intros f input name H. split; [eapply derive_differs; eauto|]. intro Hfn.
  assert (W := proj1 (forallb_forall _ _) extensions_wellformed_all _ (extension_in_table cli_extensions cli_default_extension f)).
  unfold ext_wellformed in W. apply andb_true_iff in W. destruct W as [W1 W2].
  eapply derive_extension; eauto.
  - intro K. rewrite K in W1. discriminate.
  - intro K. apply negb_true_iff in W2.
    assert (existsb (N.eqb 92) (extension_of cli_extensions cli_default_extension f) = true)
      by (apply existsb_exists; exists 92; split; [exact K | reflexivity]). congruence.
Qed.

Theorem tables_documented :
  (forall a, In a cli_arms -> arm_named a = true /\ arm_documented a = true /\ default_valid a = true /\
                              nodupb (field_params (snd a)) = true) /\
  (forall v, In v cli_variants -> extension_documented v = true) /\
  (forall o, In o cli_opts -> option_documented o = true) /\
  (forall u, In u cli_usage_options -> option_implemented u = true).
Proof.
  splits.
  - intros a Hin. splits.
    + exact (proj1 (forallb_forall _ _) names_documented_all a Hin).
    + exact (proj1 (forallb_forall _ _) validators_documented_all a Hin).
    + exact (proj1 (forallb_forall _ _) defaults_valid_all a Hin).
    + exact (proj1 (forallb_forall _ _) params_nodup_all a Hin).
  - apply forallb_forall. exact extensions_documented_all.
  - apply forallb_forall. exact (proj1 options_documented_all).
  - apply forallb_forall. exact (proj2 options_documented_all).
Qed.

Lemma values_accepted : forall a, In a cli_arms -> arm_values_accepted a = true.
Proof. apply forallb_forall. exact values_accepted_all. Qed.

Theorem define_parse : forall name, ~ In 61 name ->
  parse_define name = COk (name, DBool true) /\
  parse_define (name ++ 61 :: t_true) = COk (name, DBool true) /\
  parse_define (name ++ 61 :: t_false) = COk (name, DBool false) /\
  parse_define (name ++ [61]) = CErr (EDefineValue name) /\
  parse_define (name ++ [61; 45]) = CErr (EDefineValue name) /\
  (forall b c, ~ In 61 b -> parse_define (name ++ 61 :: b ++ 61 :: c) = CErr (EDefine (name ++ 61 :: b ++ 61 :: c))) /\
  (forall body, ~ In 61 body -> text_eqb body t_true = false -> text_eqb body t_false = false -> (forall r, body <> 45 :: r) ->
     parse_define (name ++ 61 :: body) =
     cbind (excerpt_as_bigint cli_radix_prefix2 cli_radix_prefix1 cli_empty_literal_is_error body) (fun o => match o with
       | None => CErr (EDefineValue name) | Some (v, sz) => COk (name, DInt (Z.of_N v) sz) end)) /\
  (forall body, ~ In 61 body ->
     parse_define (name ++ 61 :: 45 :: body) =
     cbind (excerpt_as_bigint cli_radix_prefix2 cli_radix_prefix1 cli_empty_literal_is_error body) (fun o => match o with
       | None => CErr (EDefineValue name) | Some (v, sz) => COk (name, DInt (- Z.of_N v) None) end)).
Proof.
  intros name Hn. unfold parse_define.
  assert (E : cli_empty_literal_is_error = true) by exact (proj2 tables_fixed).
  splits.
  - apply define_bare; auto.
  - apply define_true; auto.
  - apply define_false; auto.
  - rewrite E. apply define_empty_rejected; auto.
  - rewrite E. apply define_empty_rejected; auto.
  - intros. apply define_two_equals; auto.
  - intros. apply define_number; auto.
  - intros. apply define_negative; auto.
Qed.

(* the value of `NAME=-<literal>` is the UNSIZED negation of the literal, whatever size the digits would give;
   a positive literal keeps its digit-count size *)
Theorem define_negated_unsized : forall name body v sz, ~ In 61 name -> ~ In 61 body ->
  excerpt_as_bigint cli_radix_prefix2 cli_radix_prefix1 cli_empty_literal_is_error body = COk (Some (v, sz)) ->
  parse_define (name ++ 61 :: 45 :: body) = COk (name, DInt (- Z.of_N v) None).
Proof.
  intros name body v sz Hn Hb E. unfold parse_define. rewrite define_negative; auto. rewrite E. reflexivity.
Qed.

Theorem define_positive_sized : forall name body v sz, ~ In 61 name -> ~ In 61 body ->
  text_eqb body t_true = false -> text_eqb body t_false = false -> (forall r, body <> 45 :: r) ->
  excerpt_as_bigint cli_radix_prefix2 cli_radix_prefix1 cli_empty_literal_is_error body = COk (Some (v, sz)) ->
  parse_define (name ++ 61 :: body) = COk (name, DInt (Z.of_N v) sz).
Proof.
  intros name body v sz Hn Hb Ht Hf Hneg E. unfold parse_define. rewrite define_number; auto. rewrite E. reflexivity.
Qed.
