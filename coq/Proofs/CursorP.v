(* Address/position arithmetic of the bank cursor (Model/Cursor.v): round trips between the bit
   position inside a bank and the address, and the alignment padding. *)
From Coq Require Import ZArith NArith List Bool Lia ZifyBool.
From CA Require Import Model.Overlap Model.Cursor.
Import ListNotations.
Open Scope Z_scope.

Ltac Zify.zify_post_hook ::= Z.to_euclidean_division_equations.

Lemma big_add_ok mb a b c : big_add mb a b = Ok c -> c = a + b.
Proof. unfold big_add. destruct (_ >=? _); congruence. Qed.
Lemma big_sub_ok mb a b c : big_sub mb a b = Ok c -> c = a - b.
Proof. unfold big_sub. destruct (_ >=? _); congruence. Qed.
Lemma big_mul_ok mb a b c : big_mul mb a b = Ok c -> c = a * b.
Proof. unfold big_mul. destruct (_ >=? _); congruence. Qed.
Lemma to_usize_some v n : to_usize v = Some n -> 0 <= v /\ Z.of_N n = v.
Proof. unfold to_usize. destruct (_ && _) eqn:E; [|discriminate]. intros H. inversion H; subst. lia. Qed.
Lemma checked_mul_some a b c : checked_mul a b = Some c -> c = (a * b)%N.
Proof. unfold checked_mul. destruct (_ <=? _)%N; congruence. Qed.
Lemma checked_add_some' a b c : checked_add a b = Some c -> c = (a + b)%N.
Proof. unfold checked_add. destruct (_ <=? _)%N; congruence. Qed.

(* a label (last pass, no guessing) sits exactly on an address: pos = (addr - addr_start) * unit *)
Lemma eval_address_exact mb b pos a :
  eval_address mb b pos false = Ok a ->
  bk_unit b <> 0%N /\ (pos mod bk_unit b = 0)%N /\ Z.of_N pos = (a - bk_addr b) * Z.of_N (bk_unit b).
Proof.
  unfold eval_address. destruct (bk_unit b =? 0)%N eqn:Eu; [discriminate|].
  destruct (negb (pos mod bk_unit b =? 0)%N && negb false) eqn:Ee; [discriminate|].
  intros H. apply big_add_ok in H. subst a.
  assert (pos mod bk_unit b = 0)%N by lia. repeat split; try lia.
  pose proof (N.div_mod pos (bk_unit b) ltac:(lia)). nia.
Qed.

(* a misaligned position is rejected when guessing is not allowed *)
Lemma eval_address_misaligned mb b pos :
  bk_unit b <> 0%N -> (pos mod bk_unit b <> 0)%N -> eval_address mb b pos false = Err.
Proof.
  intros Hu Hm. unfold eval_address. replace (bk_unit b =? 0)%N with false by lia.
  replace (pos mod bk_unit b =? 0)%N with false by lia. reflexivity.
Qed.

(* the address recorded for an item: the address containing its first bit *)
Lemma get_address_guess mb b pos a :
  get_address mb b pos true = Ok (Some a) ->
  bk_unit b <> 0%N /\ a = bk_addr b + Z.of_N (pos / bk_unit b) /\
  (a - bk_addr b) * Z.of_N (bk_unit b) <= Z.of_N pos < (a - bk_addr b) * Z.of_N (bk_unit b) + Z.of_N (bk_unit b).
Proof.
  unfold get_address. destruct (bk_unit b =? 0)%N eqn:Eu; [discriminate|].
  rewrite andb_false_r.
  destruct (big_add mb (Z.of_N (pos / bk_unit b)) (bk_addr b)) as [c| |] eqn:E; try discriminate.
  intros H. inversion H; subst c. apply big_add_ok in E. subst a.
  split; [lia|]. split; [lia|]. nia.
Qed.

Lemma get_address_never_none mb b pos : get_address mb b pos true <> Ok None.
Proof.
  unfold get_address. destruct (bk_unit b =? 0)%N; [discriminate|]. rewrite andb_false_r.
  destruct (big_add _ _ _); discriminate.
Qed.

(* `#addr a`: the selected position is (a - addr_start) * unit, and a label placed there reads a back *)
Lemma addr_position_exact mb b a p :
  addr_position mb b a = Ok p -> bk_addr b <= a -> to_usize (a - bk_addr b) <> None ->
  Z.of_N p = (a - bk_addr b) * Z.of_N (bk_unit b).
Proof.
  unfold addr_position. intros H Hle Hfit. replace (bk_addr b <=? a) with true in H by lia.
  destruct (big_sub mb a (bk_addr b)) as [d| |] eqn:Es; try discriminate.
  apply big_sub_ok in Es. subst d.
  destruct (to_usize (a - bk_addr b)) as [x|] eqn:Et; [|congruence].
  apply to_usize_some in Et.
  destruct (checked_mul x (bk_unit b)) as [m|] eqn:Em; [|discriminate].
  apply checked_mul_some in Em. cbn in H. inversion H; subst. nia.
Qed.

Lemma addr_round_trip mb b a p a' :
  addr_position mb b a = Ok p -> bk_addr b <= a -> to_usize (a - bk_addr b) <> None ->
  eval_address mb b p false = Ok a' -> a' = a.
Proof.
  intros H Hle Hfit He. pose proof (addr_position_exact _ _ _ _ H Hle Hfit) as Hp.
  apply eval_address_exact in He. destruct He as (Hu & _ & Hq). nia.
Qed.

Lemma addr_position_below mb b a : a < bk_addr b -> addr_position mb b a = Ok 0%N.
Proof. intros H. unfold addr_position. replace (bk_addr b <=? a) with false by lia. reflexivity. Qed.

(* alignment padding: smallest pad with (address_in_bits + pad) a multiple of the alignment *)
Lemma bits_until_alignment_spec c al pad :
  bits_until_alignment c al = Ok pad -> al <> 0%N ->
  (c + Z.of_N pad) mod Z.of_N al = 0 /\ (pad < al)%N.
Proof.
  unfold bits_until_alignment. intros H Hal. replace (al =? 0)%N with false in H by lia.
  unfold big_mod in H. replace (Z.of_N al =? 0) with false in H by lia.
  destruct (to_usize (Z.rem c (Z.of_N al))) as [ex|] eqn:Et; [|discriminate].
  apply to_usize_some in Et. destruct Et as (Hnn & Hex).
  destruct (ex =? 0)%N eqn:E0; cbn [negb] in H.
  - inversion H; subst pad. split; [|lia]. assert (Z.rem c (Z.of_N al) = 0) by lia.
    rewrite Z.add_0_r. apply Z.rem_divide in H0; [|lia]. apply Z.mod_divide; [lia|exact H0].
  - destruct (ex <=? al)%N eqn:El; [|discriminate]. inversion H; subst pad. clear H.
    assert (Hr : 0 < Z.rem c (Z.of_N al) < Z.of_N al).
    { pose proof (Z.rem_bound_abs c (Z.of_N al) ltac:(lia)). lia. }
    split; [|lia].
    assert (Hc : 0 <= c).
    { destruct (Z.lt_ge_cases c 0) as [Hneg|]; [|assumption].
      pose proof (Z.rem_sign_nz c (Z.of_N al) ltac:(lia)). lia. }
    rewrite Z.rem_mod_nonneg in Hr, Hex by lia.
    rewrite N2Z.inj_sub by lia. rewrite Hex.
    replace (c + (Z.of_N al - c mod Z.of_N al)) with (Z.of_N al * (c / Z.of_N al + 1)).
    + rewrite Z.mul_comm. apply Z.mod_mul. lia.
    + pose proof (Z.div_mod c (Z.of_N al) ltac:(lia)). lia.
Qed.

Lemma bits_until_alignment_zero c : bits_until_alignment c 0 = Ok 0%N.
Proof. reflexivity. Qed.

Lemma align_position_spec mb b p al p' :
  align_position mb b p al = Ok p' -> al <> 0%N ->
  (p <= p')%N /\ (p' - p < al)%N /\ (bk_addr b * Z.of_N (bk_unit b) + Z.of_N p') mod Z.of_N al = 0.
Proof.
  unfold align_position, cur_address_in_bits. intros H Hal.
  destruct (big_mul mb (bk_addr b) (Z.of_N (bk_unit b))) as [m| |] eqn:Em; try discriminate.
  apply big_mul_ok in Em. subst m.
  destruct (big_add mb _ (Z.of_N p)) as [c| |] eqn:Ea; try discriminate.
  apply big_add_ok in Ea. subst c.
  destruct (bits_until_alignment _ al) as [pad| |] eqn:Eb; try discriminate.
  apply bits_until_alignment_spec in Eb; [|exact Hal]. destruct Eb as (Hm & Hp).
  destruct (checked_add p pad) as [q|] eqn:Ec; [|discriminate].
  apply checked_add_some' in Ec. cbn in H. inversion H; subst.
  split; [lia|]. split; [lia|]. rewrite N2Z.inj_add. rewrite <- Hm. f_equal. lia.
Qed.
