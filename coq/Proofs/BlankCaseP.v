(* C07, letter case at line level: changing the ASCII case of instruction characters that are matched against the
   literal parts of a pattern (a run of exact / glued / whitespace parts) does not change where the run ends, and for the
   leading run of a rule it does not change the candidates at all.  No axioms. *)
From Coq Require Import NArith ZArith List Bool Lia ZifyBool.
Import ListNotations.
From CA Require Import Model.Lexer Model.Parser Model.Matcher Proofs.MatcherP Proofs.MatcherCaseP Proofs.MatcherPermP
  Proofs.MatcherKeysP Proofs.BlankLexP Proofs.BlankWalkP Proofs.BlankMatchP Proofs.BlankTopP.
Open Scope N_scope.

(* same line up to the ASCII case of its plain characters (gaps identical) *)
Definition seg_relc (s s' : seg) : Prop :=
  match s, s' with Ch c, Ch c' => to_lower c = to_lower c' | Gap g, Gap g' => g = g' | _, _ => False end.

(* a run of literal parts executed on a walker *)
Fixpoint run_lits (lits : list part) (w : walker) : option walker :=
  match lits with
  | [] => Some w
  | PExact c :: r => match maybe_expect_char w c with Some w' => run_lits r w' | None => None end
  | PGlued c :: r => match maybe_expect_char_glued w c with Some w' => run_lits r w' | None => None end
  | PWs :: r =>
    if negb (is_over w) && negb (tkind_eqb (fst (token_here w)) TWhitespace) && negb (tkind_eqb (fst (token_here w)) TComment)
    then None else run_lits r w
  | PParam _ :: _ => None
  end.
Definition is_lit (p : part) : bool := match p with PParam _ => false | _ => true end.

(* the matcher runs the leading literal parts first, independently of everything else *)
Lemma mwr_lits : forall defs r lits, forallb is_lit lits = true -> forall f rest w needs sf,
  match_with_rule (length lits + f) defs r (lits ++ rest) w needs sf =
  match run_lits lits w with Some w1 => match_with_rule f defs r rest w1 needs sf | None => [] end.
Proof.
  intros defs r. induction lits as [|p lits IH]; intros Hl f rest w needs sf; [reflexivity|].
  cbn [forallb] in Hl. apply andb_true_iff in Hl. destruct Hl as [Hp Hl]. cbn [length app Nat.add run_lits].
  destruct p as [|c|c|i]; [| | |discriminate].
  - rewrite mwr_ws. destruct (_ && _ && _); [reflexivity | apply IH; exact Hl].
  - rewrite mwr_exact. destruct (maybe_expect_char w c); [apply IH; exact Hl | reflexivity].
  - rewrite mwr_glued. destruct (maybe_expect_char_glued w c); [apply IH; exact Hl | reflexivity].
Qed.

Lemma render_nil_iffc : forall M, Forall seg_ok M -> render M = [] -> M = [].
Proof.
  intros [|s M] H E; [reflexivity|]. inversion H; subst. cbn [render flat_map] in E. apply app_eq_nil in E.
  destruct E as [E _]. destruct (rseg_nonempty s H2 E).
Qed.
Lemma W_overc : forall B i j, Forall seg_ok B -> (i <= j)%nat -> (j <= length B)%nat -> is_over (W B i j) = Nat.eqb i j.
Proof.
  intros B i j HB H1 H2. unfold W. rewrite EW_over. destruct (Nat.eqb_spec i j) as [->|Hne].
  - rewrite mid_nil. reflexivity.
  - destruct (render (mid B i j)) eqn:E; [|reflexivity]. exfalso.
    apply render_nil_iffc in E; [|apply Forall_mid; exact HB]. pose proof (mid_length B i j H2) as L. rewrite E in L. cbn in L. lia.
Qed.

Section CaseSim.
Variables A A' : list seg.
Hypothesis HA : Forall seg_ok A.
Hypothesis HA' : Forall seg_ok A'.
Hypothesis HC : Forall2 seg_relc A A'.

Let HLc : length A' = length A.
Proof. symmetry. eapply Forall2_len. exact HC. Qed.

Lemma gaps_relc : forall M M', Forall2 seg_relc M M' -> forallb is_gap M = forallb is_gap M' /\ (headplain M <-> headplain M').
Proof.
  intros M M' H. split.
  - induction H as [|s s' M M' Hs HM IH]; [reflexivity|]. cbn [forallb]. rewrite IH. destruct s, s'; cbn in Hs |- *; try reflexivity; contradiction.
  - destruct H as [|s s' M M' Hs HM]; [tauto|]. destruct s, s'; cbn in *; tauto.
Qed.

Lemma stops_relc : forall i j k, stops A i j k -> stops A' i j k.
Proof.
  intros i j k [K1 [K2 [K3 K4]]]. repeat split; try assumption.
  - destruct (gaps_relc _ _ (Forall2_mid seg_relc i k A A' HC)) as [<- _]. exact K3.
  - apply (gaps_relc _ _ (Forall2_mid seg_relc k j A A' HC)). exact K4.
Qed.

Lemma nui_simc : forall i j, (i <= j)%nat -> (j <= length A)%nat -> exists k, stops A i j k /\
  next_useful_index (W A i j) = W A k j /\ next_useful_index (W A' i j) = W A' k j.
Proof.
  intros i j H1 H2. destruct (stops_ex A j H2 (j - i) i eq_refl H1) as [k Hs]. exists k. split; [exact Hs|].
  split; [apply W_nui; assumption | apply W_nui; [assumption | lia | apply stops_relc; exact Hs]].
Qed.

Lemma head_simc : forall k j, (k <= j)%nat -> (j <= length A)%nat -> headplain (mid A k j) ->
  (k = j /\ visible (W A k j) = [] /\ visible (W A' k j) = []) \/
  (exists c c' r r', (k < j)%nat /\ to_lower c = to_lower c' /\ visible (W A k j) = c :: r /\ visible (W A' k j) = c' :: r' /\
     advance (W A k j) (utf8_len c) = W A (S k) j /\ advance (W A' k j) (utf8_len c') = W A' (S k) j).
Proof.
  intros k j H1 H2 Hh. pose proof (Forall2_mid seg_relc k j A A' HC) as HM.
  destruct (headplain_cases A HA k j H1 H2 Hh) as [[-> E]|[c [M1 [Hlt [E Hc]]]]].
  - left. rewrite !W_visible, !mid_nil. auto.
  - right. rewrite E in HM. inversion HM as [|s s' l l' Hs Hl E1 E2]; subst. destruct s' as [c'|g']; cbn in Hs; [|contradiction].
    exists c, c', (render M1), (render l'). rewrite !W_visible, E, <- E2. cbn [render flat_map rseg app].
    split; [exact Hlt|]. split; [exact Hs|]. split; [reflexivity|]. split; [reflexivity|].
    destruct (mid_cons A k j Hlt H2) as [x [X1 X2]]. rewrite E in X2. injection X2 as <- _.
    destruct (mid_cons A' k j Hlt ltac:(lia)) as [x' [X1' X2']]. rewrite <- E2 in X2'. injection X2' as <- _.
    split.
    + rewrite <- (W_adv A k (S k) j) by lia. rewrite X1. cbn [render flat_map rseg app bytes_len]. rewrite N.add_0_r. reflexivity.
    + rewrite <- (W_adv A' k (S k) j) by lia. rewrite X1'. cbn [render flat_map rseg app bytes_len]. rewrite N.add_0_r. reflexivity.
Qed.

Definition both (r r' : option walker) (i j : nat) : Prop :=
  (r = None /\ r' = None) \/ (exists i1, (i <= i1)%nat /\ (i1 <= j)%nat /\ r = Some (W A i1 j) /\ r' = Some (W A' i1 j)).

Lemma mec_simc : forall i j c, (i <= j)%nat -> (j <= length A)%nat ->
  both (maybe_expect_char (W A i j) c) (maybe_expect_char (W A' i j) c) i j.
Proof.
  intros i j c H1 H2. destruct (nui_simc i j H1 H2) as [k [[K1 [K2 [K3 K4]]] [N1 N2]]].
  unfold maybe_expect_char. rewrite N1, N2.
  destruct (head_simc k j K2 H2 K4) as [[-> [V1 V2]]|[ch [ch' [r [r' [Hlt [Hc [V1 [V2 [A1 A2]]]]]]]]]].
  - rewrite V1, V2. left. split; reflexivity.
  - rewrite V1, V2. unfold eq_ignore_case. rewrite <- Hc. destruct (to_lower ch =? to_lower c); [|left; split; reflexivity].
    right. exists (S k). rewrite A1, A2. repeat split; lia.
Qed.

Lemma not_headplain_gap : forall B i j, ~ headplain (mid B i j) -> exists g M, mid B i j = Gap g :: M.
Proof. intros B i j H. destruct (mid B i j) as [|[c|g] M]; cbn in H; try (exfalso; apply H; exact I). eauto. Qed.

Lemma mecg_simc : forall i j c, (i <= j)%nat -> (j <= length A)%nat -> char_ok c ->
  both (maybe_expect_char_glued (W A i j) c) (maybe_expect_char_glued (W A' i j) c) i j.
Proof.
  intros i j c H1 H2 Hc. unfold maybe_expect_char_glued.
  destruct (headplain_dec (mid A i j)) as [Hh|Hh].
  - destruct (head_simc i j H1 H2 Hh) as [[-> [V1 V2]]|[ch [ch' [r [r' [Hlt [Hl [V1 [V2 [A1 A2]]]]]]]]]].
    + rewrite V1, V2. left. split; reflexivity.
    + rewrite V1, V2. unfold eq_ignore_case. rewrite <- Hl. destruct (to_lower ch =? to_lower c); [|left; split; reflexivity].
      right. exists (S i). rewrite A1, A2. repeat split; lia.
  - assert (Hh' : ~ headplain (mid A' i j)) by (intros X; apply Hh; apply (gaps_relc _ _ (Forall2_mid seg_relc i j A A' HC)); exact X).
    destruct (gap_head A i j HA H1 H2 Hh) as [x [v [V Hx]]]. destruct (gap_head A' i j HA' H1 ltac:(lia) Hh') as [x' [v' [V' Hx']]].
    rewrite V, V', (gapstart_ne_wanted x c Hx Hc), (gapstart_ne_wanted x' c Hx' Hc). left. split; reflexivity.
Qed.

Lemma ws_cond_plain : forall B k j, Forall seg_ok B -> (k <= j)%nat -> (j <= length B)%nat -> headplain (mid B k j) -> (k < j)%nat ->
  negb (tkind_eqb (fst (token_here (W B k j))) TWhitespace) && negb (tkind_eqb (fst (token_here (W B k j))) TComment) = true.
Proof.
  intros B k j HB H1 H2 Hh Hlt. pose proof (W_settled B HB k j H1 H2 Hh) as [Ho|Hi].
  - rewrite W_overc in Ho by assumption. apply Nat.eqb_eq in Ho. lia.
  - destruct (fst (token_here (W B k j))); try discriminate Hi; reflexivity.
Qed.

Lemma ws_cond_gap : forall B i j, Forall seg_ok B -> (j <= length B)%nat -> ~ headplain (mid B i j) ->
  negb (tkind_eqb (fst (token_here (W B i j))) TWhitespace) && negb (tkind_eqb (fst (token_here (W B i j))) TComment) = false.
Proof.
  intros B i j HB Hj HhB. unfold W. rewrite EW_token. pose proof (Forall_mid seg_ok i j B HB) as Hf.
  destruct (mid B i j) as [|[c|g] M]; cbn [headplain] in HhB; try (exfalso; apply HhB; exact I).
  inversion Hf; subst. destruct H1 as [Hn Hg]. cbn [render flat_map rseg]. destruct g as [|[x|body] g]; [congruence| |].
  - inversion Hg; subst. cbn [ratoms flat_map ratom app]. cbn [atom_ok] in H1. rewrite (decide_ws x _ H1). reflexivity.
  - cbn [ratoms flat_map ratom app]. rewrite decide_comment. reflexivity.
Qed.

Lemma ws_simc : forall i j, (i <= j)%nat -> (j <= length A)%nat ->
  negb (is_over (W A i j)) && negb (tkind_eqb (fst (token_here (W A i j))) TWhitespace) && negb (tkind_eqb (fst (token_here (W A i j))) TComment) =
  negb (is_over (W A' i j)) && negb (tkind_eqb (fst (token_here (W A' i j))) TWhitespace) && negb (tkind_eqb (fst (token_here (W A' i j))) TComment).
Proof.
  intros i j H1 H2. rewrite !W_overc by (assumption || lia). destruct (Nat.eqb_spec i j) as [E|E]; [reflexivity|]. cbn [negb andb].
  destruct (headplain_dec (mid A i j)) as [Hh|Hh].
  - assert (Hh' : headplain (mid A' i j)) by (apply (gaps_relc _ _ (Forall2_mid seg_relc i j A A' HC)); exact Hh).
    rewrite (ws_cond_plain A i j HA H1 H2 Hh ltac:(lia)), (ws_cond_plain A' i j HA' H1 ltac:(lia) Hh' ltac:(lia)). reflexivity.
  - assert (Hh' : ~ headplain (mid A' i j)) by (intros X; apply Hh; apply (gaps_relc _ _ (Forall2_mid seg_relc i j A A' HC)); exact X).
    rewrite (ws_cond_gap A i j HA H2 Hh), (ws_cond_gap A' i j HA' ltac:(lia) Hh'). reflexivity.
Qed.

(* a run of literal parts ends at the same segment on both lines *)
Theorem C07_case_literal_run : forall lits i j, (i <= j)%nat -> (j <= length A)%nat -> Forall part_ok lits ->
  both (run_lits lits (W A i j)) (run_lits lits (W A' i j)) i j.
Proof.
  induction lits as [|p lits IH]; intros i j H1 H2 Hp.
  - right. exists i. repeat split; lia.
  - inversion Hp; subst. destruct p as [|c|c|n]; cbn [run_lits].
    + rewrite <- (ws_simc i j H1 H2). destruct (_ && _ && _); [left; split; reflexivity | apply IH; assumption].
    + destruct (mec_simc i j c H1 H2) as [[-> ->]|[i1 [L1 [L2 [-> ->]]]]]; [left; split; reflexivity|].
      destruct (IH i1 j L2 H2 H4) as [X|[i2 [M1 [M2 [X1 X2]]]]]; [left; exact X|]. right. exists i2. repeat split; try assumption; lia.
    + destruct (mecg_simc i j c H1 H2 H3) as [[-> ->]|[i1 [L1 [L2 [-> ->]]]]]; [left; split; reflexivity|].
      destruct (IH i1 j L2 H2 H4) as [X|[i2 [M1 [M2 [X1 X2]]]]]; [left; exact X|]. right. exists i2. repeat split; try assumption; lia.
    + left. split; reflexivity.
Qed.

Lemma relc_bytes : forall M M', Forall2 seg_relc M M' -> bytes_len (render M) = bytes_len (render M').
Proof.
  induction 1 as [|s s' M M' Hs HM IH]; [reflexivity|]. cbn [render flat_map]. fold (render M) (render M'). rewrite !bytes_len_app, IH.
  destruct s, s'; cbn in Hs; try contradiction; [|subst; reflexivity]. cbn [rseg bytes_len]. rewrite (to_lower_utf8_len _ _ Hs). reflexivity.
Qed.
End CaseSim.

(* the leading literal run of a rule: if the two lines differ (in case only) in their first m segments and the run
   consumes at least those, the candidates of the rule are IDENTICAL (rule, arguments, spans, excerpts of arguments) *)
Theorem C07_case_leading_literals : forall P P' T defs r lits rest f needs sf,
  Forall seg_ok (P ++ T) -> Forall seg_ok (P' ++ T) -> Forall2 seg_relc P P' ->
  forallb is_lit lits = true -> Forall part_ok lits ->
  (forall i1, run_lits lits (start (render (P ++ T))) = Some (W (P ++ T) i1 (length (P ++ T))) -> (length P <= i1)%nat) ->
  map fst (match_with_rule (length lits + f) defs r (lits ++ rest) (start (render (P ++ T))) needs sf) =
  map fst (match_with_rule (length lits + f) defs r (lits ++ rest) (start (render (P' ++ T))) needs sf).
Proof.
  intros P P' T defs r lits rest f needs sf HA HA' HP Hl Hp Hcov.
  set (A := P ++ T) in *. set (A' := P' ++ T) in *.
  assert (HT : Forall2 seg_relc T T).
  { clear. induction T as [|s T IH]; constructor; [destruct s; cbn; reflexivity | exact IH]. }
  assert (HC : Forall2 seg_relc A A') by (apply Forall2_app_; assumption).
  assert (HLn : length A' = length A) by (symmetry; eapply Forall2_len; exact HC).
  assert (HPl : length P' = length P) by (symmetry; eapply Forall2_len; exact HP).
  assert (Weq : forall i1, (length P <= i1)%nat -> (i1 <= length A)%nat -> W A i1 (length A) = W A' i1 (length A')).
  { intros i1 G1 G2. unfold W, mid. rewrite HLn.
    assert (F1 : firstn (length A) A = A) by apply firstn_all.
    assert (F1' : firstn (length A) A' = A') by (apply firstn_all2; lia).
    assert (F2 : skipn (length A) A = []) by apply skipn_all.
    assert (F2' : skipn (length A) A' = []) by (apply skipn_all2; lia).
    assert (F3 : skipn i1 A = skipn (i1 - length P) T) by (unfold A; rewrite skipn_app, (skipn_all2 P) by lia; reflexivity).
    assert (F3' : skipn i1 A' = skipn (i1 - length P) T) by (unfold A'; rewrite skipn_app, (skipn_all2 P'), HPl by lia; reflexivity).
    assert (F4 : firstn i1 A = P ++ firstn (i1 - length P) T) by (unfold A; rewrite firstn_app, (firstn_all2 P) by lia; reflexivity).
    assert (F4' : firstn i1 A' = P' ++ firstn (i1 - length P) T) by (unfold A'; rewrite firstn_app, (firstn_all2 P'), HPl by lia; reflexivity).
    rewrite F1, F1', F2, F2', F3, F3', F4, F4'. unfold EW. rewrite !render_app, !bytes_len_app, (relc_bytes P P' HP). reflexivity. }
  rewrite <- !W_start. fold A A'. rewrite !mwr_lits by assumption.
  destruct (C07_case_literal_run A A' HA HA' HC lits 0 (length A) ltac:(lia) ltac:(lia) Hp) as [[E1 E2]|[i1 [L1 [L2 [E1 E2]]]]].
  - rewrite HLn, E1, E2. reflexivity.
  - rewrite HLn, E1, E2. rewrite <- W_start in Hcov. fold A in Hcov. pose proof (Hcov i1 E1) as Hm.
    rewrite <- HLn at 2. rewrite <- (Weq i1 Hm L2). reflexivity.
Qed.

(* non-vacuity: "LD 5" / "ld 5" against the pattern of `ld {x}` *)
Example C07_case_leading_literals_nonvacuous :
  let P := [Ch 76; Ch 68] in let P' := [Ch 108; Ch 100] in let T := [Gap [AW 32]; Ch 53] in
  let lits := [PExact 108; PGlued 100; PWs] in
  let r := {| rpat := lits ++ [PParam 0]; rparams := [([120], TyNone)]; rexact := 2; rexpr := EVar 0 [[120]] |} in
  Forall seg_ok (P ++ T) /\ Forall seg_ok (P' ++ T) /\ Forall2 seg_relc P P' /\ Forall part_ok lits /\
  (forall i1, run_lits lits (start (render (P ++ T))) = Some (W (P ++ T) i1 (length (P ++ T))) -> (length P <= i1)%nat) /\
  map fst (match_with_rule (length lits + 5) [] r (lits ++ [PParam 0]) (start (render (P ++ T))) true {| sf_rd := 0; sf_ru := 0; sf_args := [] |})
    = [IMatch 0 0 [AExpr (ENum 5 None) 3 4 [53]] 0] /\
  map fst (match_with_rule (length lits + 5) [] r (lits ++ [PParam 0]) (start (render (P' ++ T))) true {| sf_rd := 0; sf_ru := 0; sf_args := [] |})
    = [IMatch 0 0 [AExpr (ENum 5 None) 3 4 [53]] 0].
Proof.
  cbv zeta. split; [repeat constructor; try discriminate|]. split; [repeat constructor; try discriminate|].
  split; [repeat constructor|]. split; [repeat constructor|]. split.
  - intros i1 H. destruct i1 as [|[|i1]]; [vm_compute in H; discriminate | vm_compute in H; discriminate | cbn [length]; lia].
  - split; vm_compute; reflexivity.
Qed.
