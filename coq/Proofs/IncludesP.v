(* Lemmas about Model/Includes.v (C14: termination, cycles, #once, splicing) *)
From Coq Require Import NArith List Bool Lia Arith.
From CA Require Import Model.Paths Model.Includes Spec.PathSpec Proofs.PathsP.
Import ListNotations.
Open Scope nat_scope.

Definition nopanic {A : Type} (r : res A) : Prop := r <> RPanic /\ r <> RFuel.

(* ------------------------------------------------------------------ filter counting *)
Lemma filter_length_le : forall (A : Type) (p q : A -> bool) l,
  (forall d, p d = true -> q d = true) -> length (filter p l) <= length (filter q l).
Proof.
  induction l as [|a r IH]; intro H; cbn [filter length]; auto.
  destruct (p a) eqn:P.
  - rewrite (H a P). cbn [length]. apply le_n_S. auto.
  - destruct (q a); cbn [length]; auto.
Qed.

Lemma filter_length_lt : forall (A : Type) (p q : A -> bool) l x,
  (forall d, p d = true -> q d = true) -> In x l -> q x = true -> p x = false ->
  length (filter p l) < length (filter q l).
Proof.
  induction l as [|a r IH]; intros x H I Q P; [contradiction|].
  cbn [filter]. destruct I as [<-|I].
  - rewrite P, Q. cbn [length]. apply le_n_S. apply filter_length_le; auto.
  - specialize (IH x H I Q P). destruct (p a) eqn:Pa.
    + rewrite (H a Pa). cbn [length]. lia.
    + destruct (q a); cbn [length]; lia.
Qed.

Section WithFs.
Variable fs : text -> option file.

(* ------------------------------------------------------------------ termination *)
Variable dom : list text.
Definition unseen (seen : list text) : nat := length (filter (fun d => negb (mem d seen)) dom).

Lemma unseen_decr : forall inc seen, In inc dom -> mem inc seen = false ->
  unseen (inc :: seen) < unseen seen.
Proof.
  intros inc seen I M. unfold unseen. apply filter_length_lt with (x := inc); auto.
  - intros d H. cbn [mem] in H. apply negb_true_iff in H. apply orb_false_iff in H.
    apply negb_true_iff. tauto.
  - rewrite M. reflexivity.
  - cbn [mem]. rewrite text_eqb_refl. reflexivity.
Qed.

Lemma expand_items_nopanic : forall rec cur items seen once,
  (forall inc once', mem inc seen = false -> nopanic (rec inc (inc :: seen) once')) ->
  nopanic (expand_items rec cur items seen once).
Proof.
  intros rec cur items seen. induction items as [|it r IH]; intros once H.
  - cbn. split; discriminate.
  - destruct it as [p| |id]; cbn [expand_items].
    + destruct (navigate_no_panic cur p) as [N1 N2].
      destruct (navigate cur p) as [inc| | |] eqn:NV; try contradiction; try (split; discriminate).
      destruct (mem inc seen) eqn:M; [split; discriminate|].
      pose proof (H inc once M) as H1.
      destruct (rec inc (inc :: seen) once) as [[[ns1 o1] lg1]| | |]; try exact H1; try (split; discriminate).
      pose proof (IH o1 H) as H2.
      destruct (expand_items rec cur r seen o1) as [[[ns2 o2] lg2]| | |]; try exact H2; split; discriminate.
    + apply IH; auto.
    + pose proof (IH once H) as H2.
      destruct (expand_items rec cur r seen once) as [[[ns2 o2] lg2]| | |]; try exact H2; split; discriminate.
Qed.

Hypothesis dom_complete : forall n items, fs n = Some items -> In n dom.

Lemma expand_missing_nopanic : forall f name seen once, fs name = None ->
  nopanic (expand fs (S f) name seen once).
Proof.
  intros. cbn [expand]. rewrite H. destruct (mem name once); split; discriminate.
Qed.

Lemma expand_nopanic : forall fuel name seen once, unseen seen + 2 <= fuel ->
  nopanic (expand fs fuel name seen once).
Proof.
  induction fuel as [|f IH]; intros name seen once L; [lia|].
  cbn [expand]. destruct (mem name once); [split; discriminate|].
  destruct (fs name) as [items|] eqn:F; [|split; discriminate].
  assert (NP : nopanic (expand_items (expand fs f) name items seen
                          (if existsb is_once items then name :: once else once))).
  { apply expand_items_nopanic. intros inc once' M.
    destruct (fs inc) as [items'|] eqn:FI.
    - apply IH. pose proof (unseen_decr inc seen (dom_complete _ _ FI) M). lia.
    - destruct f as [|f']; [lia|]. apply expand_missing_nopanic; auto. }
  destruct (expand_items _ _ _ _ _) as [[[ns o] lg]| | |]; try exact NP; split; discriminate.
Qed.

Lemma expand_root_nopanic : forall root, nopanic (expand_root fs (length dom + 2) root).
Proof.
  intros. unfold expand_root. apply expand_nopanic. unfold unseen.
  pose proof (filter_length_le _ (fun d => negb (mem d [])) (fun _ => true) dom (fun _ _ => eq_refl)).
  assert (E : filter (fun _ : text => true) dom = dom).
  { clear. induction dom as [|a r IH]; cbn; auto. f_equal; auto. }
  rewrite E in H. lia.
Qed.
End WithFs.

Section Graph.
Variable fs : text -> option file.

(* ------------------------------------------------------------------ splicing: soundness w.r.t. Exp *)
Lemma expand_items_exp : forall rec cur items seen,
  (forall inc seen' once ns o lg, rec inc seen' once = ROk (ns, o, lg) -> Exp fs inc once ns o) ->
  forall once ns o lg, expand_items rec cur items seen once = ROk (ns, o, lg) ->
  ExpItems fs cur items once ns o.
Proof.
  intros rec cur items seen R. induction items as [|it r IH]; intros once ns o lg H.
  - cbn in H. inversion H; subst. constructor.
  - destruct it as [p| |id]; cbn [expand_items] in H.
    + destruct (navigate cur p) as [inc| | |] eqn:NV; try discriminate.
      destruct (mem inc seen); [discriminate|].
      destruct (rec inc (inc :: seen) once) as [[[ns1 o1] lg1]| | |] eqn:E1; try discriminate.
      destruct (expand_items rec cur r seen o1) as [[[ns2 o2] lg2]| | |] eqn:E2; try discriminate.
      inversion H; subst. eapply ExpInclude; eauto.
    + constructor. eapply IH; eauto.
    + destruct (expand_items rec cur r seen once) as [[[ns2 o2] lg2]| | |] eqn:E2; try discriminate.
      inversion H; subst. constructor. eapply IH; eauto.
Qed.

Lemma expand_exp : forall fuel name seen once ns o lg,
  expand fs fuel name seen once = ROk (ns, o, lg) -> Exp fs name once ns o.
Proof.
  induction fuel as [|f IH]; intros name seen once ns o lg H; [discriminate|].
  cbn [expand] in H. destruct (mem name once) eqn:M.
  - inversion H; subst. constructor; auto.
  - destruct (fs name) as [items|] eqn:F; [|discriminate].
    destruct (expand_items _ _ _ _ _) as [[[ns' o'] lg']| | |] eqn:E; try discriminate.
    inversion H; subst. eapply ExpFile; eauto.
    eapply expand_items_exp; [|exact E]. intros. eapply IH; eauto.
Qed.

(* ------------------------------------------------------------------ the once-set only holds files that say #once *)
Definition once_ok (once : list text) : Prop := forall n, In n once -> has_once fs n.

Lemma expand_items_once_ok : forall rec cur items seen,
  (forall inc seen' once ns o lg, once_ok once -> rec inc seen' once = ROk (ns, o, lg) -> once_ok o) ->
  forall once ns o lg, once_ok once -> expand_items rec cur items seen once = ROk (ns, o, lg) -> once_ok o.
Proof.
  intros rec cur items seen R. induction items as [|it r IH]; intros once ns o lg OK H.
  - cbn in H. inversion H; subst. auto.
  - destruct it as [p| |id]; cbn [expand_items] in H.
    + destruct (navigate cur p) as [inc| | |] eqn:NV; try discriminate.
      destruct (mem inc seen); [discriminate|].
      destruct (rec inc (inc :: seen) once) as [[[ns1 o1] lg1]| | |] eqn:E1; try discriminate.
      destruct (expand_items rec cur r seen o1) as [[[ns2 o2] lg2]| | |] eqn:E2; try discriminate.
      inversion H; subst. eapply IH; [|exact E2]. eapply R; eauto.
    + eapply IH; eauto.
    + destruct (expand_items rec cur r seen once) as [[[ns2 o2] lg2]| | |] eqn:E2; try discriminate.
      inversion H; subst. eapply IH; eauto.
Qed.

Lemma expand_once_ok : forall fuel name seen once ns o lg,
  once_ok once -> expand fs fuel name seen once = ROk (ns, o, lg) -> once_ok o.
Proof.
  induction fuel as [|f IH]; intros name seen once ns o lg OK H; [discriminate|].
  cbn [expand] in H. destruct (mem name once) eqn:M.
  - inversion H; subst. auto.
  - destruct (fs name) as [items|] eqn:F; [|discriminate].
    destruct (expand_items _ _ _ _ _) as [[[ns' o'] lg']| | |] eqn:E; try discriminate.
    inversion H; subst. eapply expand_items_once_ok; [| |exact E].
    + intros. eapply IH; eauto.
    + destruct (existsb is_once items) eqn:X; auto.
      intros n [<-|I]; auto. exists items. split; auto.
Qed.

(* ------------------------------------------------------------------ cycles *)
(* an Include item of file a that navigates to b *)
Definition inc_edge (a b : text) : Prop :=
  exists items p, fs a = Some items /\ In (Include p) items /\ navigate a p = ROk b.

Lemma expand_items_not_ok : forall rec cur items seen p inc,
  In (Include p) items -> navigate cur p = ROk inc ->
  (forall seen' once ns o lg, once_ok once -> rec inc seen' once = ROk (ns, o, lg) -> False) ->
  (forall i seen' once ns o lg, once_ok once -> rec i seen' once = ROk (ns, o, lg) -> once_ok o) ->
  forall once ns o lg, once_ok once -> expand_items rec cur items seen once = ROk (ns, o, lg) -> False.
Proof.
  intros rec cur items seen p inc I NV BAD R. induction items as [|it r IH]; intros once ns o lg OK H; [contradiction|].
  destruct it as [q| |id]; cbn [expand_items] in H.
  - destruct (navigate cur q) as [inc'| | |] eqn:NV'; try discriminate.
    destruct (mem inc' seen); [discriminate|].
    destruct (rec inc' (inc' :: seen) once) as [[[ns1 o1] lg1]| | |] eqn:E1; try discriminate.
    destruct (expand_items rec cur r seen o1) as [[[ns2 o2] lg2]| | |] eqn:E2; try discriminate.
    destruct I as [I|I].
    + inversion I; subst q. rewrite NV in NV'. inversion NV'; subst inc'. eapply BAD; eauto.
    + eapply IH; [exact I| |exact E2]. eapply R; [exact OK|exact E1].
  - destruct I as [I|I]; [discriminate|]. eapply IH; eauto.
  - destruct (expand_items rec cur r seen once) as [[[ns2 o2] lg2]| | |] eqn:E2; try discriminate.
    destruct I as [I|I]; [discriminate|]. eapply IH; eauto.
Qed.

(* an infinite path of inclusions through files that do not say #once (in a finite file system: a cycle
   of such files reached through such files) can never be expanded successfully *)
Lemma expand_path_not_ok : forall (path : nat -> text),
  (forall i, once_free fs (path i) /\ inc_edge (path i) (path (S i))) ->
  forall fuel k seen once ns o lg, once_ok once ->
  expand fs fuel (path k) seen once = ROk (ns, o, lg) -> False.
Proof.
  intros path P. induction fuel as [|f IH]; intros k seen once ns o lg OK H; [discriminate|].
  cbn [expand] in H. destruct (P k) as [(items & F & NO) (items' & p & F' & I & NV)].
  rewrite F in F'. inversion F'; subst items'.
  destruct (mem (path k) once) eqn:M.
  - apply mem_In in M. destruct (OK _ M) as (items2 & F2 & YES). rewrite F in F2. inversion F2; subst. congruence.
  - rewrite F, NO in H.
    destruct (expand_items _ _ _ _ _) as [[[ns' o'] lg']| | |] eqn:E; try discriminate.
    eapply expand_items_not_ok; [exact I|exact NV| | |exact OK|exact E].
    + intros. eapply IH; eauto.
    + intros. eapply expand_once_ok; eauto.
Qed.
End Graph.

Lemma expand_cycle_err : forall fs dom (path : nat -> text),
  (forall n items, fs n = Some items -> In n dom) ->
  (forall i, once_free fs (path i) /\ inc_edge fs (path i) (path (S i))) ->
  expand_root fs (length dom + 2) (path 0) = RErr.
Proof.
  intros fs dom path D P.
  destruct (expand_root_nopanic fs dom D (path 0)) as [N1 N2].
  destruct (expand_root fs (length dom + 2) (path 0)) as [[[ns o] lg]| | |] eqn:E; try contradiction; auto.
  exfalso. unfold expand_root in E. eapply expand_path_not_ok with (k := 0); eauto. intros n [].
Qed.


(* ------------------------------------------------------------------ cycles, in general:
   every file reachable from the root is opened by a successful expansion, and no opened file starts an
   endless chain of #once-free inclusions *)
Section CycleGeneral.
Variable fs : text -> option file.

Definition on_endless_path (n : text) : Prop :=
  exists path : nat -> text, path 0 = n /\ forall i, once_free fs (path i) /\ inc_edge fs (path i) (path (S i)).

(* G: nothing in the log of a successful expansion lies on an endless once-free path *)
Lemma expand_items_log_good : forall rec cur items seen,
  (forall i seen' once ns o lg, once_ok fs once -> rec i seen' once = ROk (ns, o, lg) ->
     once_ok fs o /\ forall n, In n lg -> ~ on_endless_path n) ->
  forall once ns o lg, once_ok fs once -> expand_items rec cur items seen once = ROk (ns, o, lg) ->
  forall n, In n lg -> ~ on_endless_path n.
Proof.
  intros rec cur items seen R. induction items as [|it r IH]; intros once ns o lg OK H n I.
  - cbn in H. inversion H; subst. contradiction.
  - destruct it as [p| |id]; cbn [expand_items] in H.
    + destruct (navigate cur p) as [inc| | |] eqn:NV; try discriminate.
      destruct (mem inc seen); [discriminate|].
      destruct (rec inc (inc :: seen) once) as [[[ns1 o1] lg1]| | |] eqn:E1; try discriminate.
      destruct (expand_items rec cur r seen o1) as [[[ns2 o2] lg2]| | |] eqn:E2; try discriminate.
      inversion H; subst. destruct (R _ _ _ _ _ _ OK E1) as [OK1 G1].
      apply in_app_or in I. destruct I as [I|I]; [apply G1; auto|]. eapply IH; eauto.
    + eapply IH; eauto.
    + destruct (expand_items rec cur r seen once) as [[[ns2 o2] lg2]| | |] eqn:E2; try discriminate.
      inversion H; subst. eapply IH; eauto.
Qed.

Lemma expand_log_good : forall fuel name seen once ns o lg, once_ok fs once ->
  expand fs fuel name seen once = ROk (ns, o, lg) -> forall n, In n lg -> ~ on_endless_path n.
Proof.
  induction fuel as [|f IH]; intros name seen once ns o lg OK H n I; [discriminate|].
  pose proof H as H0.
  cbn [expand] in H. destruct (mem name once) eqn:M.
  - inversion H; subst. contradiction.
  - destruct (fs name) as [items|] eqn:F; [|discriminate].
    destruct (expand_items _ _ _ _ _) as [[[ns' o'] lg']| | |] eqn:E; try discriminate.
    inversion H; subst. destruct I as [<-|I].
    + intros (path & P0 & P). subst name.
      eapply (expand_path_not_ok fs path P (S f) 0); eauto.
    + eapply expand_items_log_good; [| |exact E|exact I].
      * intros. split; [eapply expand_once_ok; eauto|]. intros. eapply IH; eauto.
      * destruct (existsb is_once items) eqn:X; auto.
        intros m [<-|J]; auto. exists items. split; auto.
Qed.

(* H: the log is closed under inclusion edges (up to the files already in the once-set at the start) *)
Definition closed_log (once o lg : list text) : Prop :=
  (forall n, In n o -> In n once \/ In n lg) /\
  (forall n h, In n lg -> inc_edge fs n h -> In h once \/ In h lg).

Lemma closed_log_trans : forall a b c l1 l2, closed_log a b l1 -> closed_log b c l2 -> closed_log a c (l1 ++ l2).
Proof.
  intros a b c l1 l2 [A1 C1] [A2 C2]. split.
  - intros n I. destruct (A2 n I) as [J|J]; [|right; apply in_or_app; auto].
    destruct (A1 n J); [left|right; apply in_or_app]; auto.
  - intros n h I E. apply in_app_or in I. destruct I as [I|I].
    + destruct (C1 n h I E); [left|right; apply in_or_app]; auto.
    + destruct (C2 n h I E) as [J|J]; [|right; apply in_or_app; auto].
      destruct (A1 h J); [left|right; apply in_or_app]; auto.
Qed.

Lemma expand_items_closed : forall rec cur items seen,
  (forall i seen' once ns o lg, rec i seen' once = ROk (ns, o, lg) ->
     closed_log once o lg /\ (In i once \/ In i lg)) ->
  forall once ns o lg, expand_items rec cur items seen once = ROk (ns, o, lg) ->
  closed_log once o lg /\
  (forall p h, In (Include p) items -> navigate cur p = ROk h -> In h once \/ In h lg).
Proof.
  intros rec cur items seen R. induction items as [|it r IH]; intros once ns o lg H.
  - cbn in H. inversion H; subst. split; [split; [auto|intros ? ? []]|intros ? ? []].
  - destruct it as [p| |id]; cbn [expand_items] in H.
    + destruct (navigate cur p) as [inc| | |] eqn:NV; try discriminate.
      destruct (mem inc seen); [discriminate|].
      destruct (rec inc (inc :: seen) once) as [[[ns1 o1] lg1]| | |] eqn:E1; try discriminate.
      destruct (expand_items rec cur r seen o1) as [[[ns2 o2] lg2]| | |] eqn:E2; try discriminate.
      inversion H; subst. destruct (R _ _ _ _ _ _ E1) as [CL1 IN1]. destruct (IH _ _ _ _ E2) as [CL2 D2].
      split; [eapply closed_log_trans; eauto|].
      intros q h [J|J] NV'.
      * inversion J; subst q. rewrite NV in NV'. inversion NV'; subst h.
        destruct IN1; [left|right; apply in_or_app]; auto.
      * destruct (D2 q h J NV') as [K|K]; [|right; apply in_or_app; auto].
        destruct CL1 as [A1 _]. destruct (A1 h K); [left|right; apply in_or_app]; auto.
    + destruct (IH _ _ _ _ H) as [CL D]. split; auto. intros q h [J|J]; [discriminate|]. apply D; auto.
    + destruct (expand_items rec cur r seen once) as [[[ns2 o2] lg2]| | |] eqn:E2; try discriminate.
      inversion H; subst. destruct (IH _ _ _ _ E2) as [CL D]. split; auto.
      intros q h [J|J]; [discriminate|]. apply D; auto.
Qed.

Lemma expand_closed : forall fuel name seen once ns o lg,
  expand fs fuel name seen once = ROk (ns, o, lg) ->
  closed_log once o lg /\ (In name once \/ In name lg).
Proof.
  induction fuel as [|f IH]; intros name seen once ns o lg H; [discriminate|].
  cbn [expand] in H. destruct (mem name once) eqn:M.
  - inversion H; subst. apply mem_In in M. split; [split; [auto|intros ? ? []]|auto].
  - destruct (fs name) as [items|] eqn:F; [|discriminate].
    destruct (expand_items _ _ _ _ _) as [[[ns' o'] lg']| | |] eqn:E; try discriminate.
    inversion H; subst.
    destruct (expand_items_closed _ _ _ _ (fun i s c a b l e => IH i s c a b l e) _ _ _ _ E) as [[A C] D].
    assert (W : forall x, In x (if existsb is_once items then name :: once else once) -> In x once \/ In x (name :: lg')).
    { intros x I. destruct (existsb is_once items); auto. destruct I as [<-|I]; [right; left|left]; auto. }
    split; [split|right; left; auto].
    + intros n I. destruct (A n I) as [J|J]; [apply W; auto|right; right; auto].
    + intros n h [<-|I] ED.
      * destruct ED as (items2 & p & F2 & IP & NV). rewrite F in F2. inversion F2; subst items2.
        destruct (D p h IP NV) as [J|J]; [apply W; auto|right; right; auto].
      * destruct (C n h I ED) as [J|J]; [apply W; auto|right; right; auto].
Qed.

Inductive reach (root : text) : text -> Prop :=
| reach_root : reach root root
| reach_step : forall a b, reach root a -> inc_edge fs a b -> reach root b.

Lemma expand_root_opens_reachable : forall fuel root ns o lg,
  expand_root fs fuel root = ROk (ns, o, lg) -> forall n, reach root n -> In n lg.
Proof.
  intros fuel root ns o lg H. unfold expand_root in H. apply expand_closed in H.
  destruct H as [[_ C] [[]|R]]. intros n RE. induction RE; auto.
  destruct (C a b IHRE H) as [[]|]; auto.
Qed.

Lemma expand_root_cycle_not_ok : forall fuel root c ns o lg,
  reach root c -> on_endless_path c -> expand_root fs fuel root = ROk (ns, o, lg) -> False.
Proof.
  intros fuel root c ns o lg RE OP H.
  pose proof (expand_root_opens_reachable _ _ _ _ _ H c RE) as I.
  unfold expand_root in H. eapply expand_log_good; eauto. intros n [].
Qed.
End CycleGeneral.

Lemma expand_cycle_err_general : forall fs dom root c,
  (forall n items, fs n = Some items -> In n dom) ->
  reach fs root c -> on_endless_path fs c ->
  expand_root fs (length dom + 2) root = RErr.
Proof.
  intros fs dom root c D RE OP.
  destruct (expand_root_nopanic fs dom D root) as [N1 N2].
  destruct (expand_root fs (length dom + 2) root) as [[[ns o] lg]| | |] eqn:E; try contradiction; auto.
  exfalso. eapply expand_root_cycle_not_ok; eauto.
Qed.

(* ------------------------------------------------------------------ #once: at most one expansion *)
Section OnceCount.
Variable fs : text -> option file.

Definition b2n (b : bool) : nat := if b then 1 else 0.
(* how many times file n was opened and expanded *)
Definition opened_count (n : text) (lg : list text) : nat := length (filter (text_eqb n) lg).

Definition once_acct (once o lg : list text) : Prop :=
  (forall n, In n once -> In n o) /\
  (forall n, has_once fs n -> opened_count n lg + b2n (mem n once) <= b2n (mem n o)).

Lemma opened_count_app : forall n a b, opened_count n (a ++ b) = opened_count n a + opened_count n b.
Proof. intros. unfold opened_count. rewrite filter_app, app_length. reflexivity. Qed.

Lemma once_acct_refl : forall once, once_acct once once [].
Proof. intros. split; [auto|intros; cbn; lia]. Qed.

Lemma once_acct_trans : forall a b c l1 l2, once_acct a b l1 -> once_acct b c l2 -> once_acct a c (l1 ++ l2).
Proof.
  intros a b c l1 l2 [I1 C1] [I2 C2]. split; auto.
  intros n H. rewrite opened_count_app. specialize (C1 n H). specialize (C2 n H). lia.
Qed.

Lemma expand_items_acct : forall rec cur items seen,
  (forall inc seen' once ns o lg, rec inc seen' once = ROk (ns, o, lg) -> once_acct once o lg) ->
  forall once ns o lg, expand_items rec cur items seen once = ROk (ns, o, lg) -> once_acct once o lg.
Proof.
  intros rec cur items seen R. induction items as [|it r IH]; intros once ns o lg H.
  - cbn in H. inversion H; subst. apply once_acct_refl.
  - destruct it as [p| |id]; cbn [expand_items] in H.
    + destruct (navigate cur p) as [inc| | |] eqn:NV; try discriminate.
      destruct (mem inc seen); [discriminate|].
      destruct (rec inc (inc :: seen) once) as [[[ns1 o1] lg1]| | |] eqn:E1; try discriminate.
      destruct (expand_items rec cur r seen o1) as [[[ns2 o2] lg2]| | |] eqn:E2; try discriminate.
      inversion H; subst. eapply once_acct_trans; eauto.
    + eapply IH; eauto.
    + destruct (expand_items rec cur r seen once) as [[[ns2 o2] lg2]| | |] eqn:E2; try discriminate.
      inversion H; subst. eapply IH; eauto.
Qed.

Lemma expand_acct : forall fuel name seen once ns o lg,
  expand fs fuel name seen once = ROk (ns, o, lg) -> once_acct once o lg.
Proof.
  induction fuel as [|f IH]; intros name seen once ns o lg H; [discriminate|].
  cbn [expand] in H. destruct (mem name once) eqn:M.
  - inversion H; subst. apply once_acct_refl.
  - destruct (fs name) as [items|] eqn:F; [|discriminate].
    destruct (expand_items _ _ _ _ _) as [[[ns' o'] lg']| | |] eqn:E; try discriminate.
    inversion H; subst. clear H.
    assert (A : once_acct (if existsb is_once items then name :: once else once) o lg').
    { eapply expand_items_acct; [|exact E]. intros. eapply IH; eauto. }
    destruct A as [AI AC]. split.
    + intros n I. apply AI. destruct (existsb is_once items); [right|]; auto.
    + intros n HO. specialize (AC n HO).
      unfold opened_count in *. cbn [filter].
      destruct (text_eqb n name) eqn:EQ.
      * apply text_eqb_eq in EQ. subst n. rewrite M. cbn [length b2n].
        destruct HO as (items2 & F2 & YES). rewrite F in F2. inversion F2; subst items2.
        rewrite YES in AC. cbn [mem] in AC. rewrite text_eqb_refl in AC. cbn [orb b2n] in AC. lia.
      * destruct (existsb is_once items); auto.
        cbn [mem] in AC. rewrite EQ in AC. cbn [orb] in AC. auto.
Qed.

Lemma expand_root_once : forall fuel root ns o lg n,
  expand_root fs fuel root = ROk (ns, o, lg) -> has_once fs n -> opened_count n lg <= 1.
Proof.
  intros fuel root ns o lg n H HO. unfold expand_root in H. apply expand_acct in H.
  destruct H as [_ C]. specialize (C n HO). cbn [mem b2n] in C. destruct (mem n o); cbn [b2n] in C; lia.
Qed.
End OnceCount.

Lemma expand_root_exp : forall fs fuel root ns o lg,
  expand_root fs fuel root = ROk (ns, o, lg) -> Exp fs root [] ns o.
Proof. intros fs fuel root ns o lg. exact (expand_exp fs fuel root [] [] ns o lg). Qed.

(* `<std>/` names only ever name the embedded library: the disk is never consulted for them *)
Lemma std_lookup_embedded_only : forall (A : Type) (std : list (text * A)) disk name,
  is_std_path name = true -> real_lookup std disk name = assoc name std.
Proof. intros. unfold real_lookup. rewrite H. destruct (assoc name std); reflexivity. Qed.

(* example file system for the non-vacuity examples *)
Open Scope N_scope.
Definition ex_fs (with_once : bool) (n : text) : option file :=
  if text_eqb n [109] then Some [Other 1; Include [97]; Include [97]; Other 2]
  else if text_eqb n [97] then Some ((if with_once then [Once] else []) ++ [Other 3; Include [109]])
  else None.
Close Scope N_scope.

Lemma cycle_example :
  let fs := fun n => if text_eqb n [97%N] then Some [Include [97%N]] else None in
  reach fs [97%N] [97%N] /\ on_endless_path fs [97%N] /\ expand_root fs 3 [97%N] = RErr.
Proof.
  cbv zeta. split; [constructor|split; [|reflexivity]].
  exists (fun _ => [97%N]). split; auto. intro i. split.
  - exists [Include [97%N]]. split; reflexivity.
  - exists [Include [97%N]], [97%N]. repeat split. left; auto.
Qed.

(* the real file server hands the inclusion functions and the parser the content on disk unchanged for every
   name that is not in the embedded table (no text-layer treatment at the byte layer) *)
Lemma real_lookup_verbatim : forall (A : Type) (std : list (text * A)) disk name,
  is_std_path name = false -> assoc name std = None -> real_lookup std disk name = disk name.
Proof. intros. unfold real_lookup. rewrite H, H0. reflexivity. Qed.
