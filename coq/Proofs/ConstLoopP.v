(* C15, constants: the pre-pass loop of Model/ConstPass.v started from a fresh table
   - never runs out of its fuel |constants| + 1 (and the bound is tight),
   - stops in a STABLE table (one more round changes nothing), so the theorems of ConstPassP.v apply to every run,
   - leaves an integer in exactly the constants that have a denotation (Spec/ConstDen.v): constants on a cycle,
     and everything that depends on one, stay Unknown.
   The argument (DESIGN A.7): every step only adds information (Unknown below everything), a value once known never
   changes, so the resolved count of a round is the number of known constants after it; it grows until a round adds
   nothing, and that round has evaluated every constant in the final table.
   (Proofs/CondFixP.v and Proofs/C01Complete*.v prove the analogous facts for Model/Cond.v and Model/Resolver.v; their
   lemmas are stated on those models' tables and do not apply to this one, so the argument is carried out here.) *)
From Coq Require Import ZArith NArith List Bool Arith Lia Permutation.
From CA Require Import Model.Paths Model.BigIntOps Model.Symbols Model.ConstPass Model.SymResolve Spec.ConstDen
  Proofs.SymbolsP Proofs.ConstPassP.
Import ListNotations.
Open Scope nat_scope.

Definition known (v : cval) : bool := match v with VUnknown => false | _ => true end.

(* number of constants of l that hold a value *)
Fixpoint kc (d : list sym) (l : list (nat * cexpr)) : nat :=
  match l with [] => 0 | c :: r => (if known (vals d (fst c)) then 1 else 0) + kc d r end.

Definition fresh_defs (d : list sym) : Prop := Forall (fun s => sv s = VUnknown /\ sresolved s = false) d.

Lemma vals_set_nth : forall defs r s r', r < length defs ->
  vals (set_nth r s defs) r' = if Nat.eqb r' r then sv s else vals defs r'.
Proof.
  intros defs r s r' H. unfold vals. destruct (Nat.eqb_spec r' r).
  - subst. now rewrite nth_error_set_nth_eq.
  - rewrite nth_error_set_nth_neq; auto.
Qed.

Lemma below_refl : forall d, below d d.
Proof. intros d r. auto. Qed.
Lemma below_trans : forall a b c, below a b -> below b c -> below a c.
Proof.
  intros a b c H1 H2 r. destruct (H1 r) as [E|E]; auto. rewrite E. destruct (H2 r) as [E'|E']; auto.
Qed.

Lemma kc_le_length : forall d l, kc d l <= length l.
Proof. induction l; cbn; auto. destruct (known (vals d (fst a))); lia. Qed.

Lemma known_below : forall a b r, below a b -> known (vals a r) = true -> vals a r = vals b r.
Proof. intros a b r H K. destruct (H r) as [E|E]; auto. rewrite E in K. discriminate. Qed.

Lemma kc_mono : forall a b l, below a b -> kc a l <= kc b l.
Proof.
  induction l as [|c l IH]; intros H; cbn; auto. specialize (IH H).
  destruct (known (vals a (fst c))) eqn:K.
  - rewrite <- (known_below _ _ _ H K), K. lia.
  - destruct (known (vals b (fst c))); lia.
Qed.

Lemma kc_eq_known : forall a b l, below a b -> kc a l = kc b l ->
  forall c, In c l -> known (vals a (fst c)) = known (vals b (fst c)).
Proof.
  induction l as [|c0 l IH]; intros H E c Hin; [contradiction|]. cbn in E.
  pose proof (kc_mono a b l H) as M.
  destruct (known (vals a (fst c0))) eqn:K.
  - rewrite <- (known_below _ _ _ H K), K in E.
    destruct Hin as [<-|Hin]; [now rewrite <- (known_below _ _ _ H K), K | apply IH; auto; lia].
  - destruct (known (vals b (fst c0))) eqn:K'.
    + lia.
    + destruct Hin as [<-|Hin]; [congruence | apply IH; auto; lia].
Qed.

Lemma nodup_fst_unique : forall (l : list (nat * cexpr)) r e e', NoDup (map fst l) -> In (r, e) l -> In (r, e') l -> e = e'.
Proof.
  induction l as [|[r0 e0] l IH]; intros r e e' N H1 H2; [contradiction|].
  cbn in N. inversion N as [|? ? Hnot N']; subst.
  destruct H1 as [E1|H1], H2 as [E2|H2].
  - congruence.
  - inversion E1; subst. exfalso. apply Hnot. apply (in_map fst) in H2. exact H2.
  - inversion E2; subst. exfalso. apply Hnot. apply (in_map fst) in H1. exact H1.
  - eauto.
Qed.

Section Loop.
Variable nm : names.
Variable opt : bool.
Variable m : mgr.
Variable cs : list (nat * cexpr).
Variable look : list text -> option nat.
Hypothesis look_ok : forall p, try_get_by_name m ctx_global 0 p = ROk (look p).
Hypothesis cs_nodup : NoDup (map fst cs).

Lemma eval_vals_ext : forall a b e, (forall r, vals a r = vals b r) -> eval_simple nm m a e = eval_simple nm m b e.
Proof.
  intros a b e H.
  assert (Hab : below a b) by (intro r; right; apply H).
  assert (Hba : below b a) by (intro r; right; symmetry; apply H).
  destruct (eval_monotone nm m a b e Hab) as [Ea|Ea]; auto.
  destruct (eval_monotone nm m b a e Hba) as [Eb|Eb]; congruence.
Qed.

(* the dotted references never resolve in the global context *)
Lemma dotted_unknown : forall d l p, eval_variable_simple nm m d (S l) p = ROk VUnknown.
Proof. intros. rewrite var_simple_vals. reflexivity. Qed.

Lemma eval_not_fuel : forall d e, eval_simple nm m d e <> RFuel.
Proof.
  induction e; cbn [eval_simple]; try discriminate.
  - destruct (expr_level_builtin nm lvl path); [discriminate|].
    destruct lvl; [|rewrite dotted_unknown; discriminate].
    rewrite var_simple_vals. cbn zeta. rewrite look_ok.
    destruct path; [discriminate|]. destruct (is_pc nm t); [discriminate|]. destruct (look (t :: path)); discriminate.
  - unfold binop. destruct (eval_simple nm m d e1) as [[| |]| | |]; try discriminate; try congruence;
    destruct (eval_simple nm m d e2) as [[| |]| | |]; try discriminate; try congruence;
    cbn; repeat match goal with |- context [match ?x with EOk _ => _ | EErr => _ end] => destruct x end; discriminate.
  - unfold binop. destruct (eval_simple nm m d e1) as [[| |]| | |]; try discriminate; try congruence;
    destruct (eval_simple nm m d e2) as [[| |]| | |]; try discriminate; try congruence;
    cbn; repeat match goal with |- context [match ?x with EOk _ => _ | EErr => _ end] => destruct x end; discriminate.
  - unfold binop. destruct (eval_simple nm m d e1) as [[| |]| | |]; try discriminate; try congruence;
    destruct (eval_simple nm m d e2) as [[| |]| | |]; try discriminate; try congruence;
    cbn; repeat match goal with |- context [match ?x with EOk _ => _ | EErr => _ end] => destruct x end; discriminate.
Qed.

(* ---------------------------------------------------------------- invariants *)
(* every known constant was obtained by evaluating its expression in a table below the present one *)
Definition J (d : list sym) : Prop :=
  forall r e, In (r, e) cs -> known (vals d r) = true ->
    exists d', below d' d /\ eval_simple nm m d' e = ROk (vals d r).
(* a constant flagged `resolved` holds a value *)
Definition Rv (d : list sym) : Prop :=
  forall r s, nth_error d r = Some s -> sresolved s = true -> known (sv s) = true.
(* an integer anywhere in the table is the denotation of that constant *)
Definition K (d : list sym) : Prop :=
  forall r z, vals d r = VInt z -> den (plain nm) look cs r z.

Lemma binop_inv_int : forall op ea eb z, binop op ea eb = ROk (VInt z) ->
  exists x y, ea = ROk (VInt x) /\ eb tt = ROk (VInt y) /\
              z = (match op with OAdd => x + y | OSub => x - y | OMul => x * y end)%Z.
Proof.
  intros op ea eb z H. unfold binop in H.
  destruct ea as [[|x|]| | |]; try discriminate;
  destruct (eb tt) as [[|y|]| | |]; try discriminate.
  exists x, y. split; auto. split; auto.
  eapply (binop_int op (ROk (VInt x)) (fun _ => ROk (VInt y)) (VInt z) x y) in H.
  - inversion H; auto.
  - intros va E; inversion E; auto.
  - intros vb E; inversion E; auto.
  Unshelve. all: exact tt.
Qed.

Lemma eval_int_den : forall d e zz, K d -> eval_simple nm m d e = ROk (VInt zz) -> den_e (plain nm) look cs e zz.
Proof.
  intros d e. induction e; intros zz Kd H; cbn [eval_simple] in H.
  - inversion H; subst. constructor.
  - destruct (expr_level_builtin nm lvl path) eqn:B; [discriminate|].
    destruct lvl; [|rewrite dotted_unknown in H; discriminate].
    rewrite var_simple_vals in H. cbn zeta in H. rewrite look_ok in H.
    destruct path as [|n p']; [discriminate|]. destruct (is_pc nm n) eqn:P; [discriminate|].
    destruct (look (n :: p')) as [r|] eqn:L; [|discriminate]. inversion H as [V].
    eapply de_ref; eauto. split; auto.
  - apply binop_inv_int in H. destruct H as (x & y & Ea & Eb & ->). constructor; eauto.
  - apply binop_inv_int in H. destruct H as (x & y & Ea & Eb & ->). constructor; eauto.
  - apply binop_inv_int in H. destruct H as (x & y & Ea & Eb & ->). constructor; eauto.
Qed.

Definition I3 (d : list sym) : Prop := J d /\ Rv d /\ K d.

(* ---------------------------------------------------------------- one constant *)
Lemma step_inv : forall d r e d' b, In (r, e) cs -> I3 d ->
  resolve_constant_simple nm opt m d (r, e) = ROk (d', b) ->
  below d d' /\ I3 d' /\ b = known (vals d' r) /\
  (forall r', r' <> r -> vals d' r' = vals d r') /\
  (vals d' r = VUnknown -> eval_simple nm m d e = ROk VUnknown).
Proof.
  intros d r e d' b Hin (Jd & Rd & Kd) H. unfold resolve_constant_simple in H.
  destruct (nth_error d r) as [s|] eqn:N; [|discriminate].
  assert (Lr : r < length d) by (apply nth_error_Some; congruence).
  assert (Vr : vals d r = sv s) by (unfold vals; now rewrite N).
  destruct (sresolved s) eqn:RS.
  - inversion H; subst d' b. pose proof (Rd _ _ N RS) as Kn.
    split; [apply below_refl|]. split; [repeat split; auto|]. rewrite Vr. split; auto. split; auto.
    intro E. rewrite E in Kn. discriminate.
  - destruct (eval_simple nm m d e) as [v| | |] eqn:EV; try discriminate.
    (* the table after the step: slot r holds v *)
    assert (G : forall fl, let d1 := set_nth r (mkSym v fl (sstatic s)) d in
                below d d1 /\ J d1 /\ K d1 /\ (forall r', r' <> r -> vals d1 r' = vals d r') /\ vals d1 r = v).
    { intros fl d1.
      assert (V1 : forall r', vals d1 r' = if Nat.eqb r' r then v else vals d r').
      { intros r'. unfold d1. rewrite vals_set_nth; auto. }
      assert (B : below d d1).
      { intros r'. rewrite (V1 r'). destruct (Nat.eqb_spec r' r); auto. subst r'.
        destruct (known (vals d r)) eqn:Kn; [|destruct (vals d r); try discriminate; auto].
        destruct (Jd _ _ Hin Kn) as (d0 & B0 & E0).
        destruct (eval_monotone nm m d0 d e B0) as [E1|E1].
        - rewrite E1 in E0. inversion E0 as [E2]. rewrite <- E2 in Kn. discriminate.
        - right. congruence. }
      split; auto. split; [|split; [|split]].
      - intros r2 e2 Hin2 Kn2. rewrite (V1 r2) in *. destruct (Nat.eqb_spec r2 r).
        + subst r2. rewrite (nodup_fst_unique _ _ _ _ cs_nodup Hin2 Hin). exists d. split; auto.
        + destruct (Jd _ _ Hin2 Kn2) as (d0 & B0 & E0). exists d0. split; auto. eapply below_trans; eauto.
      - intros r2 z Hz. rewrite (V1 r2) in Hz. destruct (Nat.eqb_spec r2 r).
        + subst. econstructor; eauto. eapply eval_int_den; eauto.
        + auto.
      - intros r' Hne. rewrite V1. destruct (Nat.eqb_spec r' r); congruence.
      - rewrite V1. now rewrite Nat.eqb_refl. }
    assert (RvG : forall fl, (fl = true -> known v = true) -> Rv (set_nth r (mkSym v fl (sstatic s)) d)).
    { intros fl Hfl r2 s2 N2 R2. destruct (Nat.eq_dec r r2).
      - subst r2. rewrite nth_error_set_nth_eq in N2; auto. inversion N2; subst s2. cbn in *. auto.
      - rewrite nth_error_set_nth_neq in N2; auto. eauto. }
    assert (Fin : forall fl, (fl = true -> known v = true) ->
              below d (set_nth r (mkSym v fl (sstatic s)) d) /\ I3 (set_nth r (mkSym v fl (sstatic s)) d) /\
              known v = known (vals (set_nth r (mkSym v fl (sstatic s)) d) r) /\
              (forall r', r' <> r -> vals (set_nth r (mkSym v fl (sstatic s)) d) r' = vals d r') /\
              (vals (set_nth r (mkSym v fl (sstatic s)) d) r = VUnknown -> ROk v = ROk VUnknown)).
    { intros fl Hfl. destruct (G fl) as (B & J1 & K1 & O1 & V1). pose proof (RvG fl Hfl) as R1.
      split; [exact B|]. split; [exact (conj J1 (conj R1 K1))|]. rewrite V1.
      split; [reflexivity|]. split; [exact O1|]. intro E; now rewrite E. }
    destruct v as [|z|].
    + inversion H; subst d' b. apply (Fin false). discriminate.
    + destruct (opt && sstatic s); inversion H; subst d' b.
      * apply (Fin true). reflexivity.
      * apply (Fin false). discriminate.
    + destruct (opt && sstatic s); inversion H; subst d' b.
      * apply (Fin true). reflexivity.
      * apply (Fin false). discriminate.
Qed.

(* ---------------------------------------------------------------- one round *)
Lemma round_inv : forall l d d' k, incl l cs -> NoDup (map fst l) -> I3 d ->
  resolve_constants_simple nm opt m d l = ROk (d', k) ->
  below d d' /\ I3 d' /\ k = kc d' l /\
  (forall r', ~ In r' (map fst l) -> vals d' r' = vals d r') /\
  (forall r e, In (r, e) l -> vals d' r = VUnknown ->
     exists dm, below d dm /\ below dm d' /\ eval_simple nm m dm e = ROk VUnknown).
Proof.
  induction l as [|[r e] l IH]; intros d d' k Hincl Hnd Hi H; cbn [resolve_constants_simple] in H.
  - inversion H; subst. split; [apply below_refl|]. split; [exact Hi|]. split; [reflexivity|]. split; [auto|].
    intros r e Hx; destruct Hx.
  - destruct (resolve_constant_simple nm opt m d (r, e)) as [[d1 b]| | |] eqn:S1; try discriminate.
    destruct (resolve_constants_simple nm opt m d1 l) as [[d2 k2]| | |] eqn:S2; try discriminate.
    inversion H; subst d' k; clear H.
    cbn in Hnd. inversion Hnd as [|? ? Hnot Hnd']; subst.
    assert (Hin : In (r, e) cs) by (apply Hincl; left; auto).
    destruct (step_inv d r e d1 b Hin Hi S1) as (B1 & I1 & Eb & O1 & U1).
    destruct (IH d1 d2 k2 (fun x Hx => Hincl x (or_intror Hx)) Hnd' I1 S2) as (B2 & I2 & Ek & O2 & U2).
    assert (Vr : vals d2 r = vals d1 r) by (apply O2; exact Hnot).
    split; [eapply below_trans; eauto|]. split; [exact I2|]. split; [|split].
    + cbn [kc fst]. rewrite Vr, <- Eb, <- Ek. destruct b; reflexivity.
    + intros r' Hn. cbn in Hn. rewrite O2 by tauto. apply O1. intro; subst; tauto.
    + intros r0 e0 [E|Hin0] Hu.
      * inversion E; subst r0 e0. rewrite Vr in Hu. exists d. split; [apply below_refl|]. split; [eapply below_trans; eauto | auto].
      * destruct (U2 _ _ Hin0 Hu) as (dm & Ba & Bb & Ev). exists dm. split; [eapply below_trans; eauto|]. split; auto.
Qed.

Lemma round_not_fuel : forall l d, resolve_constants_simple nm opt m d l <> RFuel.
Proof.
  induction l as [|[r e] l IH]; intros d; cbn [resolve_constants_simple]; [discriminate|].
  destruct (resolve_constant_simple nm opt m d (r, e)) as [[d1 b]| | |] eqn:S1; try discriminate.
  - specialize (IH d1). destruct (resolve_constants_simple nm opt m d1 l) as [[d2 k2]| | |]; try discriminate. congruence.
  - exfalso. unfold resolve_constant_simple in S1. destruct (nth_error d r); [|discriminate].
    destruct (sresolved s); [discriminate|].
    pose proof (eval_not_fuel d e) as NF.
    destruct (eval_simple nm m d e) as [[| |]| | |]; try discriminate; try congruence;
    destruct (opt && sstatic s); discriminate.
Qed.

(* a round that does not raise the count leaves a stable table *)
Lemma round_stable : forall d d1 k, I3 d -> resolve_constants_simple nm opt m d cs = ROk (d1, k) ->
  k = kc d cs -> stable nm m cs d1.
Proof.
  intros d d1 k Hi H Ek.
  destruct (round_inv cs d d1 k (incl_refl _) cs_nodup Hi H) as (B & (J1 & R1 & K1) & Ek1 & O & U).
  assert (KE : forall c, In c cs -> known (vals d (fst c)) = known (vals d1 (fst c))).
  { apply kc_eq_known; auto. congruence. }
  assert (VE : forall x, vals d x = vals d1 x).
  { intros x. destruct (in_dec Nat.eq_dec x (map fst cs)) as [Hin|Hn]; [|symmetry; apply O; auto].
    apply in_map_iff in Hin. destruct Hin as ([x' e] & Ex & Hin). cbn in Ex. subst x'.
    destruct (B x) as [E|E]; auto. specialize (KE _ Hin). cbn in KE. rewrite E in KE. cbn in KE.
    rewrite E. destruct (vals d1 x); try discriminate; auto. }
  intros r e Hin. destruct (known (vals d1 r)) eqn:Kn.
  - destruct (J1 _ _ Hin Kn) as (d0 & B0 & E0).
    destruct (eval_monotone nm m d0 d1 e B0) as [E1|E1]; [|congruence].
    rewrite E1 in E0. inversion E0 as [E2]. rewrite <- E2 in Kn. discriminate.
  - assert (Eu : vals d1 r = VUnknown) by (destruct (vals d1 r); try discriminate; auto).
    destruct (U _ _ Hin Eu) as (dm & Ba & Bb & Ev). rewrite Eu, <- Ev.
    apply eval_vals_ext. intros x. destruct (Bb x) as [E|E]; auto.
    destruct (Ba x) as [E'|E']; [rewrite <- VE, E', E; auto | congruence].
Qed.

(* ---------------------------------------------------------------- the loop *)
Lemma loop_spec : forall fuel prev d, I3 d -> prev = kc d cs -> length cs - prev < fuel ->
  match prepass_loop fuel nm opt m cs prev d with
  | ROk dF => stable nm m cs dF /\ I3 dF /\ below d dF
  | RFuel => False
  | _ => True
  end.
Proof.
  induction fuel; intros prev d Hi Ep Hf; [lia|]. cbn [prepass_loop].
  pose proof (round_not_fuel cs d) as NF.
  destruct (resolve_constants_simple nm opt m d cs) as [[d1 k]| | |] eqn:R; auto; try congruence.
  destruct (round_inv cs d d1 k (incl_refl _) cs_nodup Hi R) as (B & I1 & Ek & _ & _).
  destruct (Nat.eqb_spec k prev) as [E|NE].
  - split; [apply (round_stable d d1 k Hi R); congruence|]. split; auto.
  - assert (Hm : prev <= k) by (subst; apply kc_mono; auto).
    pose proof (kc_le_length d1 cs).
    specialize (IHfuel k d1 I1 Ek ltac:(lia)).
    destruct (prepass_loop fuel nm opt m cs k d1); auto.
    destruct IHfuel as (S & I2 & B2). split; auto. split; auto. eapply below_trans; eauto.
Qed.

Lemma fresh_vals : forall d, fresh_defs d -> forall r, vals d r = VUnknown.
Proof.
  intros d F r. unfold vals. destruct (nth_error d r) eqn:N; auto.
  apply nth_error_In in N. unfold fresh_defs in F. rewrite Forall_forall in F. apply F in N. tauto.
Qed.
(* (1) the fuel |cs| + 1 is always enough; (2) the table the loop stops in is stable;
   (3) it holds an integer exactly where the constant has a denotation *)
Theorem prepass_spec : forall d0, fresh_defs d0 ->
  prepass nm opt m cs d0 <> RFuel /\
  forall d, prepass nm opt m cs d0 = ROk d ->
    stable nm m cs d /\ (forall r z, vals d r = VInt z <-> den (plain nm) look cs r z).
Proof.
  intros d0 F. unfold prepass.
  pose proof (loop_spec (S (length cs)) 0 d0) as L.
  assert (NDc : forall l, NoDup (map fst l) -> forall d, fresh_defs d -> kc d l = 0).
  { intros l _ d Fd. induction l; cbn; auto. rewrite (fresh_vals d Fd). cbn. auto. }
  assert (I0 : I3 d0).
  { pose proof (fresh_vals d0 F) as V. split; [|split].
    - intros r e _ Kn. rewrite V in Kn. discriminate.
    - intros r s N Rs. apply nth_error_In in N. unfold fresh_defs in F. rewrite Forall_forall in F. apply F in N. destruct N; congruence.
    - intros r z E. rewrite V in E. discriminate. }
  specialize (L I0 (eq_sym (NDc cs cs_nodup d0 F)) ltac:(lia)).
  split.
  - intro E. rewrite E in L. exact L.
  - intros d E. rewrite E in L. destruct L as (S & (_ & _ & Kd) & _). split; auto.
    intros r z. split; [apply Kd | apply (stable_den nm m cs look look_ok d S)].
Qed.
End Loop.

(* ---------------------------------------------------------------- consequences *)
Lemma define_symbols_fresh : forall n f, fresh_defs (define_symbols n f).
Proof. intros. unfold fresh_defs, define_symbols. apply Forall_forall. intros s H. apply in_map_iff in H. destruct H as (r & <- & _). cbn. auto. Qed.

(* the global lookup the denotation is parametric in exists for every table built by decls::collect *)
Lemma global_lookup : forall m F next, Inv m F next ->
  forall p, try_get_by_name m ctx_global 0 p = ROk (Scope.scope_resolve F [] 0 p).
Proof. intros m F next I p. apply (lookup_core m F next [] [] I eq_refl). Qed.

(* denotations do not depend on how the items are numbered *)
Lemma den_rename : forall pl look look' cs cs' (sigma : nat -> nat),
  (forall p r, look p = Some r -> look' p = Some (sigma r)) ->
  (forall r e, In (r, e) cs -> In (sigma r, e) cs') ->
  forall r z, den pl look cs r z -> den pl look' cs' (sigma r) z.
Proof.
  intros pl look look' cs cs' sigma HL HC.
  apply (den_mut pl look cs (fun r z => den pl look' cs' (sigma r) z) (fun e z => den_e pl look' cs' e z)).
  - intros r e z Hin _ IH. econstructor; eauto.
  - constructor.
  - intros p r z P L _ IH. eapply de_ref; eauto.
  - intros; constructor; auto.
  - intros; constructor; auto.
  - intros; constructor; auto.
Qed.

(* Order independence.  Two runs of the pre-pass: the same constants (same expressions) visited in another order,
   possibly with the items numbered differently (sigma) as happens when declarations move in the source; both tables
   resolve global names alike up to that numbering.  Then every address-free acyclic constant ends with the same
   value, its denotation, in both. *)
Theorem order_independent_renumbered : forall nm opt opt' m m' cs cs' look look' sigma d0 d0' d d',
  (forall p, try_get_by_name m ctx_global 0 p = ROk (look p)) ->
  (forall p, try_get_by_name m' ctx_global 0 p = ROk (look' p)) ->
  NoDup (map fst cs) -> NoDup (map fst cs') ->
  (forall p r, look p = Some r -> look' p = Some (sigma r)) ->
  (forall r e, In (r, e) cs -> In (sigma r, e) cs') ->
  fresh_defs d0 -> fresh_defs d0' ->
  prepass nm opt m cs d0 = ROk d -> prepass nm opt' m' cs' d0' = ROk d' ->
  forall r z, den (plain nm) look cs r z -> vals d r = VInt z /\ vals d' (sigma r) = VInt z.
Proof.
  intros nm opt opt' m m' cs cs' look look' sigma d0 d0' d d' L L' N N' HL HC F F' P P' r z D.
  destruct (prepass_spec nm opt m cs look L N d0 F) as (_ & S).
  destruct (prepass_spec nm opt' m' cs' look' L' N' d0' F') as (_ & S').
  destruct (S d P) as (_ & E). destruct (S' d' P') as (_ & E').
  split; [apply E; auto | apply E'; eapply den_rename; eauto].
Qed.

Theorem order_independent : forall nm opt m cs cs' look d0 d0' d d',
  (forall p, try_get_by_name m ctx_global 0 p = ROk (look p)) ->
  NoDup (map fst cs) -> Permutation cs cs' ->
  fresh_defs d0 -> fresh_defs d0' ->
  prepass nm opt m cs d0 = ROk d -> prepass nm opt m cs' d0' = ROk d' ->
  forall r z, den (plain nm) look cs r z -> vals d r = VInt z /\ vals d' r = VInt z.
Proof.
  intros nm opt m cs cs' look d0 d0' d d' L N P F F' R R' r z D.
  assert (N' : NoDup (map fst cs')) by (eapply Permutation_NoDup; [apply Permutation_map; exact P | exact N]).
  apply (order_independent_renumbered nm opt opt m m cs cs' look look (fun x => x) d0 d0' d d'); auto.
  intros r0 e Hin. eapply Permutation_in; eauto.
Qed.

(* cycles: a constant without denotation never holds an integer, and the pre-pass itself reports nothing *)
Theorem no_den_no_value : forall nm opt m cs look d0 d,
  (forall p, try_get_by_name m ctx_global 0 p = ROk (look p)) -> NoDup (map fst cs) -> fresh_defs d0 ->
  prepass nm opt m cs d0 = ROk d ->
  forall r, (forall z, ~ den (plain nm) look cs r z) -> forall z, vals d r <> VInt z.
Proof.
  intros nm opt m cs look d0 d L N F P r ND z E.
  destruct (prepass_spec nm opt m cs look L N d0 F) as (_ & S). destruct (S d P) as (_ & Iff).
  apply (ND z). apply Iff. exact E.
Qed.

(* ---------------------------------------------------------------- examples *)
Definition names0 : names := mkNames (fun _ => false) (fun _ => false) (fun _ => false).
Definition tA : text := [97%N].
Definition tB : text := [98%N].
(*  a = b ; b = a  *)
Definition cyc_nodes : list anode := [ASym 0 tA KConstant None; ASym 0 tB KConstant None].
Definition cyc_cs : list (nat * cexpr) := [(0, CRef 0 [tB]); (1, CRef 0 [tA])].

Lemma cycle_example :
  exists m ast F next, collect mgr_new cyc_nodes = ROk (m, ast) /\ Inv m F next /\
    exists d, prepass names0 true m cyc_cs (define_symbols 2 (expr_of cyc_cs)) = ROk d /\
      vals d 0 = VUnknown /\ vals d 1 = VUnknown /\
      (forall z, ~ den (plain names0) (Scope.scope_resolve F [] 0) cyc_cs 0 z) /\
      (forall z, ~ den (plain names0) (Scope.scope_resolve F [] 0) cyc_cs 1 z).
Proof.
  destruct (collect mgr_new cyc_nodes) as [[m ast]| | |] eqn:C; try (vm_compute in C; discriminate).
  destruct (collect_reaches cyc_nodes m ast I C) as (encls & F & next & _ & Iv).
  exists m, ast, F, next. split; auto. split; auto.
  assert (ND : NoDup (map fst cyc_cs)) by (cbn; repeat constructor; cbn; intuition discriminate).
  destruct (prepass_spec names0 true m cyc_cs _ (global_lookup m F next Iv) ND _ (define_symbols_fresh 2 (expr_of cyc_cs)))
    as (_ & S).
  vm_compute in C. inversion C; subst m ast. clear C.
  destruct (prepass names0 true _ cyc_cs (define_symbols 2 (expr_of cyc_cs))) as [d| | |] eqn:P;
    try (vm_compute in P; discriminate).
  exists d. split; auto. destruct (S d eq_refl) as (_ & Iff).
  vm_compute in P. inversion P; subst d. clear P.
  split; [reflexivity|]. split; [reflexivity|].
  split; intros z D; apply Iff in D; vm_compute in D; discriminate.
Qed.
