(* C08b: the constants pre-pass of the Resolver2 fragment with and without the static-value optimisation. *)
From Coq Require Import NArith ZArith List Bool Lia.
Import ListNotations.
From CA Require Import Model.Lexer Model.Parser Model.Literal Model.BigIntOps Model.Evaluator Model.Matcher Model.Resolver
  Model.Resolver2 Model.StaticKnown Model.ResolverS Model.ResolverS2 Spec.StaticSpec
  Proofs.ResolverFixP Proofs.CertUniqueP Proofs.StaticKnownP Proofs.ResolverSSimP Proofs.ResolverSPreP Proofs.ResolverS2P.
From CA Require Model.Paths Model.Overlap Model.Cursor Model.Symbols.
Open Scope Z_scope.

Fixpoint sr2_go (m : Symbols.mgr) (ns : list cnode) (st : state) (cnt : nat) : eres (state * nat) :=
  match ns with
  | [] => EOk (st, cnt)
  | (XConst s _ e, _) :: r =>
    match eval code_ops (pvar_simple2 m st) e [] with
    | EErr => EErr
    | EOk (VFailed, _) => EErr
    | EOk (v, _) => sr2_go m r (upd_sym st s v) (match v with VUnknown => cnt | _ => S cnt end)
    end
  | _ :: r => sr2_go m r st cnt
  end.

Lemma simple_round2_go m ns st : simple_round2 m ns st = sr2_go m ns st 0.
Proof.
  unfold simple_round2. generalize 0%nat. revert st. induction ns as [|[n c0] r IH]; intros st c; [reflexivity|].
  destruct n; cbn [sr2_go]; try apply IH.
  destruct (eval code_ops (pvar_simple2 m st) e []) as [[v c1]|]; [|reflexivity].
  destruct v; try reflexivity; apply IH.
Qed.

Fixpoint srS2_go (m : Symbols.mgr) (K : kinfo) (opt : bool) (ns : list cnode) (x : sstate) (cnt : nat) : eres (sstate * nat) :=
  match ns with
  | [] => EOk (x, cnt)
  | (XConst s _ e, _) :: r =>
    if flag (fz_sym x) s then srS2_go m K opt r x (S cnt) else
    match eval code_ops (pvar_simple2 m (ss x)) e [] with
    | EErr => EErr
    | EOk (VFailed, _) => EErr
    | EOk (v, _) =>
      match v with
      | VUnknown => srS2_go m K opt r (with_state x (upd_sym (ss x) s v)) cnt
      | _ => if opt && flag (k_sym K) s
             then srS2_go m K opt r {| ss := upd_sym (ss x) s v; fz_sym := set_nth (fz_sym x) s true; fz_instr := fz_instr x; fz_data := fz_data x |} (S cnt)
             else srS2_go m K opt r (with_state x (upd_sym (ss x) s v)) (S cnt)
      end
    end
  | _ :: r => srS2_go m K opt r x cnt
  end.

Lemma simple_round2S_go m K opt ns x : simple_round2S m K opt ns x = srS2_go m K opt ns x 0.
Proof.
  unfold simple_round2S. generalize 0%nat. revert x. induction ns as [|[n c0] r IH]; intros x c; [reflexivity|].
  destruct n; cbn [srS2_go]; try apply IH.
  destruct (flag (fz_sym x) s); [apply IH|].
  destruct (eval code_ops (pvar_simple2 m (ss x)) e []) as [[v c1]|]; [|reflexivity].
  destruct v; try reflexivity; try apply IH; destruct (opt && flag (k_sym K) s); apply IH.
Qed.

Section Pre2.
Variable m : Symbols.mgr.
Variable ns : list cnode.
Variable K : kinfo.
Variable opt : bool.
Hypothesis HKsym : forall r, nth_error (k_sym K) r = Some true -> exists d0 e c, In (XConst r d0 e, c) ns /\ const_known e = true.
Hypothesis Hasm : opt = true -> forall s d0 e c, In (XConst s d0 e, c) ns -> asm_call_free e = true.
Hypothesis Hnd : opt = true -> NoDup (flat_map sref ns).

Definition PInv2 (x : sstate) : Prop :=
  (forall s, flag (fz_sym x) s = true -> opt = true /\ exists d0 e c v c', In (XConst s d0 e, c) ns /\ const_known e = true /\
      cval e = EOk (v, c') /\ nth_error (s_sym (ss x)) s = Some v /\ should_propagate v = false) /\
  length (fz_sym x) = length (s_sym (ss x)).

Lemma pinv2_write x s v : PInv2 x -> flag (fz_sym x) s = false -> PInv2 (with_state x (upd_sym (ss x) s v)).
Proof.
  intros [P1 P2] Fs. split; cbn [ss with_state upd_sym fz_sym s_sym].
  - intros s0 F0. destruct (P1 s0 F0) as [Ho (d0 & e & c & v0 & c' & H1 & H2 & H3 & H4 & H5)]. split; [exact Ho|].
    exists d0, e, c, v0, c'. repeat split; auto. rewrite nth_error_set_nth_other; [exact H4|]. intro; subst; congruence.
  - rewrite set_nth_length. exact P2.
Qed.

Lemma go_sim2 : forall l, incl l ns -> forall x cnt, PInv2 x ->
  match sr2_go m l (ss x) cnt with
  | EErr => srS2_go m K opt l x cnt = EErr
  | EOk (st', c') => exists x', srS2_go m K opt l x cnt = EOk (x', c') /\ ss x' = st' /\ PInv2 x' /\
                                fz_instr x' = fz_instr x /\ fz_data x' = fz_data x
  end.
Proof.
  induction l as [|[n cn] l IH]; intros Hincl x cnt HP.
  - cbn. exists x. auto.
  - assert (Hincl' : incl l ns) by (intros y Hy; apply Hincl; now right).
    assert (Hin : In (n, cn) ns) by (apply Hincl; now left).
    assert (Skip : forall x1 c1, PInv2 x1 -> fz_instr x1 = fz_instr x -> fz_data x1 = fz_data x ->
              match sr2_go m l (ss x1) c1 with
              | EErr => srS2_go m K opt l x1 c1 = EErr
              | EOk (st', c') => exists x', srS2_go m K opt l x1 c1 = EOk (x', c') /\ ss x' = st' /\ PInv2 x' /\
                                            fz_instr x' = fz_instr x /\ fz_data x' = fz_data x
              end).
    { intros x1 c1 HP1 E1 E2. specialize (IH Hincl' x1 c1 HP1).
      destruct (sr2_go m l (ss x1) c1) as [[st' c']|]; [|exact IH].
      destruct IH as (x' & H1 & H2 & H3 & H4 & H5). exists x'. split; [exact H1|]. split; [exact H2|]. split; [exact H3|]. split; congruence. }
    destruct n as [s d0|s d0 e|i src|width d e|k e|k e|k e|bi|e]; cbn [sr2_go srS2_go]; try (apply Skip; auto).
    destruct (flag (fz_sym x) s) eqn:Fs.
    + destruct HP as [P1 P2]. destruct (P1 s Fs) as [Ho (d0' & e' & c' & v & c1 & H1 & H2 & H3 & H4 & H5)].
      assert (e' = e) by (eapply const_unique2; [exact (Hnd Ho)|exact H1|exact Hin]). subst e'.
      rewrite (closed_known_indep_free (pvar_simple2 m (ss x)) dummy_var e [] (Hasm Ho s d0 e cn Hin) H2).
      unfold cval in H3. rewrite H3. rewrite (upd_sym_same _ _ _ H4).
      destruct v; try discriminate; apply Skip; auto; split; assumption.
    + destruct (eval code_ops (pvar_simple2 m (ss x)) e []) as [[v c]|] eqn:Ev; [|reflexivity].
      assert (Frz : forall (Hv : should_propagate v = false), opt && flag (k_sym K) s = true ->
                PInv2 {| ss := upd_sym (ss x) s v; fz_sym := set_nth (fz_sym x) s true; fz_instr := fz_instr x; fz_data := fz_data x |}).
      { intros Hv Hc. apply andb_prop in Hc. destruct Hc as [Ho Hk]. destruct HP as [P1 P2]. split; cbn [ss fz_sym upd_sym s_sym].
        - intros s0 F0. split; [exact Ho|]. destruct (Nat.eq_dec s0 s) as [->|Hne].
          + assert (Hks : nth_error (k_sym K) s = Some true).
            { unfold flag in Hk. destruct (nth_error (k_sym K) s) as [bb|]; [subst; reflexivity|discriminate]. }
            destruct (HKsym s Hks) as (d0' & e' & c' & Hin' & Hk').
            assert (e' = e) by (eapply const_unique2; [exact (Hnd Ho)|exact Hin'|exact Hin]). subst e'.
            exists d0, e, cn, v, c. split; [exact Hin|]. split; [exact Hk'|]. split.
            { unfold cval. rewrite <- (closed_known_indep_free (pvar_simple2 m (ss x)) dummy_var e [] (Hasm Ho s d0 e cn Hin) Hk'). exact Ev. }
            split; [|exact Hv].
            assert (Hlt : (s < length (s_sym (ss x)))%nat).
            { rewrite <- P2. unfold flag in F0. destruct (nth_error (set_nth (fz_sym x) s true) s) eqn:E; [|discriminate].
              assert (H : nth_error (set_nth (fz_sym x) s true) s <> None) by congruence.
              apply nth_error_Some in H. rewrite set_nth_length in H. exact H. }
            destruct (nth_error (s_sym (ss x)) s) as [prev|] eqn:Ep; [|apply nth_error_None in Ep; lia].
            exact (nth_error_set_nth_same _ _ _ _ Ep).
          + rewrite flag_set_other in F0 by exact Hne. destruct (P1 s0 F0) as [_ (d1 & e0 & c0 & v0 & c2 & H1 & H2 & H3 & H4 & H5)].
            exists d1, e0, c0, v0, c2. repeat split; auto. rewrite nth_error_set_nth_other by exact Hne. exact H4.
        - rewrite !set_nth_length. exact P2. }
      assert (Other : forall v0, v = v0 -> should_propagate v0 = false ->
                match sr2_go m l (upd_sym (ss x) s v0) (S cnt) with
                | EErr => (if opt && flag (k_sym K) s
                           then srS2_go m K opt l {| ss := upd_sym (ss x) s v0; fz_sym := set_nth (fz_sym x) s true; fz_instr := fz_instr x; fz_data := fz_data x |} (S cnt)
                           else srS2_go m K opt l (with_state x (upd_sym (ss x) s v0)) (S cnt)) = EErr
                | EOk (st', c') => exists x', (if opt && flag (k_sym K) s
                           then srS2_go m K opt l {| ss := upd_sym (ss x) s v0; fz_sym := set_nth (fz_sym x) s true; fz_instr := fz_instr x; fz_data := fz_data x |} (S cnt)
                           else srS2_go m K opt l (with_state x (upd_sym (ss x) s v0)) (S cnt)) = EOk (x', c') /\ ss x' = st' /\ PInv2 x' /\
                                              fz_instr x' = fz_instr x /\ fz_data x' = fz_data x
                end).
      { intros v0 -> Hv0. destruct (opt && flag (k_sym K) s) eqn:C.
        - apply (Skip {| ss := upd_sym (ss x) s v0; fz_sym := set_nth (fz_sym x) s true; fz_instr := fz_instr x; fz_data := fz_data x |} (S cnt));
            [apply Frz; [exact Hv0|reflexivity]|reflexivity|reflexivity].
        - apply (Skip (with_state x (upd_sym (ss x) s v0)) (S cnt)); [apply pinv2_write; assumption|reflexivity|reflexivity]. }
      destruct v.
      * apply (Skip (with_state x (upd_sym (ss x) s VUnknown)) cnt); [apply pinv2_write; assumption|reflexivity|reflexivity].
      * reflexivity.
      * apply (Other VVoid eq_refl eq_refl).
      * apply (Other (VInt b) eq_refl eq_refl).
      * apply (Other (VStr s0 enc) eq_refl eq_refl).
      * apply (Other (VBool b) eq_refl eq_refl).
      * apply (Other (VBuiltin name) eq_refl eq_refl).
Qed.

Lemma pre_sim2 : forall fuel x prev, PInv2 x ->
  match simple_loop2 fuel m ns (ss x) prev with
  | EErr => simple_loop2S fuel m K opt ns x prev = EErr
  | EOk st1 => exists x1, simple_loop2S fuel m K opt ns x prev = EOk x1 /\ ss x1 = st1 /\ PInv2 x1 /\
                          fz_instr x1 = fz_instr x /\ fz_data x1 = fz_data x
  end.
Proof.
  induction fuel as [|f IH]; intros x prev HP; cbn [simple_loop2 simple_loop2S].
  - exists x. auto.
  - rewrite simple_round2_go, simple_round2S_go.
    pose proof (go_sim2 ns (fun y Hy => Hy) x 0%nat HP) as H.
    destruct (sr2_go m ns (ss x) 0) as [[st' c']|]; [|rewrite H; reflexivity].
    destruct H as (x' & H1 & H2 & H3 & H4 & H5). rewrite H1. subst st'.
    destruct (Nat.eqb c' prev).
    + exists x'. auto.
    + specialize (IH x' c' H3). destruct (simple_loop2 f m ns (ss x') c') as [st1|]; [|exact IH].
      destruct IH as (x1 & G1 & G2 & G3 & G4 & G5). exists x1. split; [exact G1|]. split; [exact G2|]. split; [exact G3|]. split; congruence.
Qed.
End Pre2.

(* ---------- after a round every statically known constant holds its value ---------- *)
Section PreGood2.
Variable m : Symbols.mgr.

Definition goodL2 (l : list cnode) (st : state) : Prop :=
  forall s d0 e c, In (XConst s d0 e, c) l -> const_known e = true ->
    exists v c', cval e = EOk (v, c') /\ nth_error (s_sym st) s = Some v /\ should_propagate v = false.

Lemma sr2_go_shape : forall l st cnt st' c', sr2_go m l st cnt = EOk (st', c') ->
  length (s_sym st') = length (s_sym st) /\ s_instr st' = s_instr st /\ s_data st' = s_data st.
Proof.
  induction l as [|[n cn] r IH]; intros st cnt st' c' H; [cbn in H; inversion H; subst; auto|].
  destruct n; cbn [sr2_go] in H; try (exact (IH _ _ _ _ H)).
  destruct (eval code_ops (pvar_simple2 m st) e []) as [[v c]|]; [|discriminate].
  destruct v; try discriminate; (destruct (IH _ _ _ _ H) as (G1 & G2 & G3); cbn [upd_sym s_sym s_instr s_data] in *;
    rewrite set_nth_length in G1; auto).
Qed.

Lemma sr2_go_good : forall l2 l1 st cnt st' c',
  sr2_go m l2 st cnt = EOk (st', c') -> goodL2 l1 st -> NoDup (flat_map sref (l1 ++ l2)) ->
  (forall s, In s (flat_map sref l2) -> (s < length (s_sym st))%nat) ->
  (forall s d0 e c, In (XConst s d0 e, c) l2 -> asm_call_free e = true) ->
  goodL2 (l1 ++ l2) st'.
Proof.
  induction l2 as [|[n cn] r IH]; intros l1 st cnt st' c' H Hg Hnd Hr Hasm.
  - cbn in H. inversion H; subst. rewrite app_nil_r. exact Hg.
  - assert (Step : forall st1 c1, sr2_go m r st1 c1 = EOk (st', c') -> goodL2 (l1 ++ [(n, cn)]) st1 ->
               length (s_sym st1) = length (s_sym st) -> goodL2 (l1 ++ (n, cn) :: r) st').
    { intros st1 c1 H1 Hg1 HL.
      change (l1 ++ (n, cn) :: r) with (l1 ++ [(n, cn)] ++ r). change (l1 ++ (n, cn) :: r) with (l1 ++ [(n, cn)] ++ r) in Hnd.
      rewrite app_assoc. rewrite app_assoc in Hnd.
      eapply (IH (l1 ++ [(n, cn)]) st1 c1 st' c' H1 Hg1 Hnd).
      - intros s Hs. rewrite HL. apply Hr. cbn [flat_map]. apply in_or_app. now right.
      - intros s d0 e c Hin. apply (Hasm s d0 e c). now right. }
    assert (Keep : forall st1, s_sym st1 = s_sym st -> (forall s d0 e, n <> XConst s d0 e) -> goodL2 (l1 ++ [(n, cn)]) st1).
    { intros st1 E Hn s d0 e c Hin Hk. apply in_app_or in Hin. destruct Hin as [Hin|[Hin|[]]]; [|exfalso; inversion Hin; eapply Hn; eauto].
      rewrite E. exact (Hg s d0 e c Hin Hk). }
    destruct n as [s d0|s d0 e|i src|width d e|k e|k e|k e|bi|e]; cbn [sr2_go] in H;
      try (eapply Step; [exact H|apply Keep; [reflexivity|intros; discriminate]|reflexivity]).
    destruct (eval code_ops (pvar_simple2 m st) e []) as [[v c]|] eqn:Ev; [|discriminate].
    assert (Hlt : (s < length (s_sym st))%nat) by (apply Hr; cbn; now left).
    assert (G : v <> VFailed -> goodL2 (l1 ++ [(XConst s d0 e, cn)]) (upd_sym st s v)).
    { intros Hnf s0 d1 e0 c0 Hin Hk. cbn [upd_sym s_sym]. apply in_app_or in Hin. destruct Hin as [Hin|[Hin|[]]].
      - assert (s0 <> s).
        { intro; subst s0. rewrite flat_map_app in Hnd. eapply NoDup_app_disj; [exact Hnd| |cbn; left; reflexivity].
          apply in_flat_map. exists (XConst s d1 e0, c0). split; [exact Hin|cbn; now left]. }
        rewrite nth_error_set_nth_other by assumption. exact (Hg s0 d1 e0 c0 Hin Hk).
      - inversion Hin; subst s0 d1 e0 c0.
        assert (Hf : asm_call_free e = true) by (apply (Hasm s d0 e cn); now left).
        rewrite (closed_known_indep_free (pvar_simple2 m st) dummy_var e [] Hf Hk) in Ev.
        exists v, c. split; [exact Ev|]. split.
        + destruct (nth_error (s_sym st) s) as [prev|] eqn:Ep; [|apply nth_error_None in Ep; lia].
          exact (nth_error_set_nth_same _ _ _ _ Ep).
        + eapply closed_known_value; [exact Hk|exact Hf|exact Ev]. }
    destruct v; try discriminate;
      (eapply Step; [exact H|apply G; discriminate|cbn [upd_sym s_sym]; apply set_nth_length]).
Qed.
End PreGood2.
