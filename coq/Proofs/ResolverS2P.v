(* C08b: the static-value optimisation on the fragment of Model/Resolver2.v (banks, nested symbols, #assert).
   1. the scope the matcher's own AST walk (match_all) hands to the static analysis of an instruction IS the scope the
      resolver iterator resolves that instruction in (Symbols.node_ctxs) -- for every node that is not a symbol declaration;
   2. static_known_sound for scoped lookups;
   3. the resolver with flags simulates Resolver2 node by node, step by step, pass by pass (as Proofs/ResolverSSimP.v). *)
From Coq Require Import NArith ZArith List Bool Lia.
Import ListNotations.
From CA Require Import Model.Lexer Model.Parser Model.Literal Model.BigIntOps Model.Evaluator Model.Matcher Model.Resolver
  Model.Resolver2 Model.StaticKnown Model.ResolverS Model.ResolverS2 Spec.StaticSpec
  Proofs.ResolverFixP Proofs.CertUniqueP Proofs.StaticKnownP Proofs.ResolverSSimP Proofs.Resolver2FixP Proofs.Resolver2MonoP.
From CA Require Model.Paths Model.Overlap Model.Cursor Model.LastPass Model.Output Model.Symbols.
Open Scope Z_scope.

(* ---------- 1. the matcher's scope walk ---------- *)
Theorem matcher_scope_is_node_scope : forall nodes m ctx cs,
  Symbols.node_ctxs m ctx nodes = Paths.ROk cs ->
  exists cs', matcher_ctxs m ctx nodes = Paths.ROk cs' /\ length cs' = length cs /\
    forall j, nth_error nodes j = Some Symbols.AOther -> nth_error cs' j = nth_error cs j.
Proof.
  induction nodes as [|a r IH]; intros m ctx cs H; cbn [Symbols.node_ctxs matcher_ctxs] in *.
  - inversion H; subst. exists []. split; [reflexivity|]. split; [reflexivity|]. intros [|j] Hj; discriminate.
  - destruct a as [l n k [i|]|].
    + destruct (nth_error (Symbols.m_decls m) i) as [d|]; [|discriminate].
      destruct (Symbols.node_ctxs m (Symbols.sd_ctx d) r) as [cs0| | |] eqn:E; try discriminate.
      inversion H; subst; clear H. destruct (IH _ _ _ E) as (cs' & H1 & H2 & H3). rewrite H1.
      exists (ctx :: cs'). split; [reflexivity|]. split; [cbn; congruence|].
      intros [|j] Hj; [discriminate|]. cbn. apply H3. exact Hj.
    + discriminate.
    + destruct (Symbols.node_ctxs m ctx r) as [cs0| | |] eqn:E; try discriminate.
      inversion H; subst; clear H. destruct (IH _ _ _ E) as (cs' & H1 & H2 & H3). rewrite H1.
      exists (ctx :: cs'). split; [reflexivity|]. split; [cbn; congruence|].
      intros [|j] Hj; [reflexivity|]. cbn. apply H3. exact Hj.
Qed.

(* a walk that opens a scope at labels only (seeded change C15-6) is a different function: after a constant that has
   children, the next instruction is looked up under the previous label *)
Fixpoint matcher_ctxs_labels_only (m : Symbols.mgr) (ctx : list text) (nodes : list Symbols.anode) : Paths.res (list (list text)) :=
  match nodes with
  | [] => Paths.ROk []
  | Symbols.AOther :: r =>
    match matcher_ctxs_labels_only m ctx r with Paths.ROk cs => Paths.ROk (ctx :: cs) | e => e end
  | Symbols.ASym _ _ k ir :: r =>
    match ir with
    | None => Paths.RPanic
    | Some i =>
      match nth_error (Symbols.m_decls m) i with
      | None => Paths.RPanic
      | Some d =>
        match matcher_ctxs_labels_only m (match k with Symbols.KLabel => Symbols.sd_ctx d | _ => ctx end) r with
        | Paths.ROk cs => Paths.ROk (ctx :: cs) | e => e
        end
      end
    end
  end.

Definition ex_a : text := [97%N].
Definition ex_k : text := [107%N].
Definition ex_scope_ast : list Symbols.anode :=
  [Symbols.ASym 0 ex_a Symbols.KLabel None; Symbols.AOther; Symbols.ASym 0 ex_k Symbols.KConstant None; Symbols.AOther].

Theorem labels_only_walk_refuted :
  exists m ast cs cs', Symbols.collect Symbols.mgr_new ex_scope_ast = Paths.ROk (m, ast) /\
    Symbols.node_ctxs m Symbols.ctx_global ast = Paths.ROk cs /\
    matcher_ctxs_labels_only m Symbols.ctx_global ast = Paths.ROk cs' /\
    nth_error ast 3 = Some Symbols.AOther /\ nth_error cs 3 = Some [ex_k] /\ nth_error cs' 3 = Some [ex_a].
Proof. vm_compute. do 4 eexists. repeat split; reflexivity. Qed.

(* ---------- 2. providers ---------- *)
(* no symbol is reachable under the name of an asm built-in function from any context (F54 class, outside the model) *)
Definition reserved_free2 (m : Symbols.mgr) : Prop :=
  forall n ctx, known_asm_builtin n = true -> Symbols.try_get_by_name m ctx 0 [n] = Paths.ROk None.

Lemma asm_not_pc n : known_asm_builtin n = true -> is_pc n = false.
Proof. exact (asm_name_not_addr n). Qed.

Section Sim2.
Variable m : Symbols.mgr.
Variable banks : list Cursor.bank.
Variable defs : list ruledef.
Variable mb : Z.
Variable ns : list cnode.
Variable K : kinfo.
Hypothesis Hres : reserved_free2 m.

Lemma pvar2_asm st ctx addr cg n : known_asm_builtin n = true -> pvar2 m st ctx addr cg 0%N [n] = EErr.
Proof.
  intro H. unfold pvar2. rewrite (asm_not_pc n H). unfold Symbols.get_by_name. cbn [N.to_nat]. rewrite (Hres n ctx H). reflexivity.
Qed.
Lemma asm_agree_pvar2 st ctx addr cg st' ctx' addr' cg' : asm_agree (pvar2 m st ctx addr cg) (pvar2 m st' ctx' addr' cg').
Proof. intros n H. rewrite !pvar2_asm by exact H. reflexivity. Qed.
Lemma asm_agree_pvar2_dummy st ctx addr cg : asm_agree (pvar2 m st ctx addr cg) dummy_var.
Proof. intros n H. rewrite pvar2_asm by exact H. reflexivity. Qed.

Definition good2 (st : state) : Prop :=
  forall s d0 e c, In (XConst s d0 e, c) ns -> const_known e = true ->
    exists v c', cval e = EOk (v, c') /\ nth_error (s_sym st) s = Some v /\ should_propagate v = false.

Hypothesis HKsym : forall r, nth_error (k_sym K) r = Some true -> exists d0 e c, In (XConst r d0 e, c) ns /\ const_known e = true.

Notation G c := (global_known2 true m c (k_sym K)).

(* static_known_sound for scoped lookups: in one and the same symbol context, two states in which the statically known
   constants hold their values answer alike for every name the analysis calls known *)
Lemma good_agree2 c st st' addr addr' cg cg' : good2 st -> good2 st' ->
  pv_agree (G c) (pvar2 m st c addr cg) (pvar2 m st' c addr' cg').
Proof.
  intros Hg Hg' l p HG. unfold global_known2 in HG.
  assert (L : match Symbols.try_get_by_name m c (N.to_nat l) p with
              | Paths.ROk (Some r) => match nth_error (k_sym K) r with Some b => b | None => false end
              | _ => false end = true ->
              (match Symbols.get_by_name m c (N.to_nat l) p with
               | Paths.ROk r => match nth_error (s_sym st) r with Some VUnknown => if cg then EOk VUnknown else EErr | Some v => EOk v | None => EErr end
               | _ => EErr end) =
              (match Symbols.get_by_name m c (N.to_nat l) p with
               | Paths.ROk r => match nth_error (s_sym st') r with Some VUnknown => if cg' then EOk VUnknown else EErr | Some v => EOk v | None => EErr end
               | _ => EErr end)).
  { unfold Symbols.get_by_name. destruct (Symbols.try_get_by_name m c (N.to_nat l) p) as [[r|]| | |]; try discriminate.
    destruct (nth_error (k_sym K) r) as [b|] eqn:Kb; [|discriminate]. intros ->.
    destruct (HKsym r Kb) as (d0 & e & c0 & Hin & Hk).
    destruct (Hg r d0 e c0 Hin Hk) as (v & c1 & Hv & Hs & Hp). destruct (Hg' r d0 e c0 Hin Hk) as (v' & c1' & Hv' & Hs' & Hp').
    rewrite Hv in Hv'. inversion Hv'; subst v' c1'. rewrite Hs, Hs'. destruct v; try reflexivity. discriminate. }
  unfold pvar2. destruct l as [|l]; [destruct p as [|first rest]|]; try (apply L; exact HG).
  cbn [andb] in HG. destruct (is_pc first); [discriminate|]. apply L. exact HG.
Qed.

(* ---------- 3. the simulation ---------- *)
Definition frozen_instr_ok2 (i : nat) (d : instr_def) (c : list text) : Prop :=
  forall st' b pos last src, good2 st' -> nth_error (s_instr st') i = Some d ->
    resolve_node2 m defs mb last (XInstr i src) c st' b pos = Ok (st', Resolved).

Definition frozen_data_ok2 (d : nat) (w : option N) (e : expr) (bb : bigint) : Prop :=
  forall c st' b pos last, nth_error (s_data st') d = Some bb ->
    resolve_node2 m defs mb last (XData w d e) c st' b pos = Ok (st', Resolved).

Definition kinstr_ok2 (st : state) : Prop :=
  forall i src c d, In (XInstr i src, c) ns -> nth_error (s_instr st) i = Some d -> flag (k_instr K) i = true ->
    forallb (match_known true defs (G c)) (i_matches d) = true /\ forallb (match_kinded defs) (i_matches d) = true.

Lemma const_noop2 st b pos last s d0 e c : good2 st -> In (XConst s d0 e, c) ns -> const_known e = true ->
  resolve_node2 m defs mb last (XConst s d0 e) c st b pos = Ok (st, Resolved).
Proof.
  intros Hg Hin Hk. destruct (Hg s d0 e c Hin Hk) as (v & c' & Hv & Hs & Hp). unfold resolve_node2. cbv zeta.
  rewrite (closed_known_indep _ dummy_var e [] (asm_agree_pvar2_dummy _ _ _ _) Hk). unfold cval in Hv. rewrite Hv.
  replace (match v with VFailed => true | _ => false end) with false by (destruct v; try reflexivity; discriminate Hp).
  rewrite andb_false_r.
  rewrite (nth_error_nth' _ _ VUnknown _ Hs). rewrite value_identical_refl.
  rewrite (set_nth_same_entry _ _ _ Hs). rewrite state_eta. reflexivity.
Qed.

Lemma resolve_matches_indep2 pv pv' G0 ms : pv_agree G0 pv pv' -> asm_agree pv pv' ->
  forallb (match_known true defs G0) ms = true -> forallb (match_kinded defs) ms = true ->
  resolve_matches defs pv ms = resolve_matches defs pv' ms.
Proof.
  intros Hg Ha. unfold resolve_matches. induction ms as [|x ms IH]; intros Hk Hkd; [reflexivity|].
  cbn [forallb] in Hk, Hkd. apply andb_prop in Hk. destruct Hk as [Hk1 Hk2]. apply andb_prop in Hkd. destruct Hkd as [Hd1 Hd2].
  rewrite (match_known_indep defs G0 pv pv' Hg Ha x Hd1 Hk1). rewrite (IH Hk2 Hd2). reflexivity.
Qed.

Lemma freeze_instr_ok2 i d c st addr cg bb :
  good2 st -> forallb (match_known true defs (G c)) (i_matches d) = true -> forallb (match_kinded defs) (i_matches d) = true ->
  smallest_encodings defs (pvar2 m st c addr cg) cg (i_matches d) = EOk (Some [bb]) ->
  frozen_instr_ok2 i {| i_matches := i_matches d; i_enc := bb |} c.
Proof.
  intros Hg Hk Hkd Hs st' b pos last src Hg' Hd. unfold resolve_node2. cbv zeta. rewrite Hd. cbn [i_matches i_enc].
  rewrite resolve_encoding_smallest.
  set (pv' := pvar2 m st' c (Cursor.eval_address mb b pos (negb last)) (negb last)).
  assert (E : smallest_encodings defs pv' (negb last) (i_matches d) = EOk (Some [bb])).
  { unfold smallest_encodings in *.
    rewrite (resolve_matches_indep2 pv' (pvar2 m st c addr cg) (G c) (i_matches d)
               (good_agree2 _ _ _ _ _ _ _ Hg' Hg) (asm_agree_pvar2 _ _ _ _ _ _ _ _) Hk Hkd).
    destruct (resolve_matches defs (pvar2 m st c addr cg) (i_matches d)) as [rs|]; [|discriminate].
    destruct (flat_map (fun r => match r with MResolved b0 => [b0] | _ => [] end) rs) as [|b0 rest]; [discriminate|].
    cbv zeta in *.
    match type of Hs with (if _ && Nat.ltb 1 (length ?l) then _ else _) = _ => set (cands := l) in * end.
    match type of Hs with (if ?q then _ else _) = _ => destruct q; [discriminate|] end.
    assert (Hc : cands = [bb]) by congruence. rewrite Hc. change (Nat.ltb 1 (length [bb])) with false. rewrite andb_false_r. reflexivity. }
  rewrite E. cbn [hd_error]. rewrite bigint_identical_refl.
  rewrite (set_nth_same_entry _ _ _ Hd). rewrite state_eta. reflexivity.
Qed.

Lemma freeze_data_ok2 d w e v b0 : data_known e = true ->
  (exists st c addr cg c', eval code_ops (pvar2 m st c addr cg) e [] = EOk (v, c')) -> expect_error_or_bigint v = EOk (VInt b0) ->
  elem_checked w b0 = true -> frozen_data_ok2 d w e (sliced w b0).
Proof.
  intros Hk (st & c & addr & cg & c' & He) Hx Hc c2 st' b pos last Hnth. unfold resolve_node2. cbv zeta.
  rewrite (closed_known_indep _ (pvar2 m st c addr cg) e [] (asm_agree_pvar2 _ _ _ _ _ _ _ _) Hk). rewrite He. rewrite Hx.
  assert (Hchk : (if last then match w with Some w0 => negb (size_or_min b0 >? Z.of_N w0) | None => match bsz b0 with Some _ => true | None => false end end else true) = true).
  { destruct last; [exact Hc|reflexivity]. }
  rewrite Hchk. cbn [negb]. fold (sliced w b0).
  rewrite (nth_error_nth' (s_data st') d (mk 0 (Some 0%N)) _ Hnth). rewrite bigint_identical_refl.
  rewrite (set_nth_same_entry _ _ _ Hnth). rewrite state_eta. reflexivity.
Qed.
End Sim2.
