(* C08b: the static-value optimisation on the fragment of Model/Resolver2.v (banks, nested symbols, #assert).
   1. the scope the matcher's own AST walk (match_all) hands to the static analysis of an instruction IS the scope the
      resolver iterator resolves that instruction in (Symbols.node_ctxs) -- for every node that is not a symbol declaration;
   2. static_known_sound for scoped lookups;
   3. the resolver with flags simulates Resolver2 node by node, step by step, pass by pass (as Proofs/ResolverSSimP.v). *)
From Coq Require Import NArith ZArith List Bool Lia.
Import ListNotations.
From CA Require Import Model.Lexer Model.Parser Model.Literal Model.BigIntOps Model.Evaluator Model.Matcher Model.Resolver
  Model.Resolver2 Model.StaticKnown Model.ResolverS Model.ResolverS2 Spec.StaticSpec
  Proofs.ResolverFixP Proofs.CertUniqueP Proofs.StaticKnownP Proofs.ResolverSSimP Proofs.Resolver2FixP Proofs.Resolver2MonoP.
From CA Require Model.Paths Model.Overlap Model.Cursor Model.LastPass Model.Output Model.Symbols.
Open Scope Z_scope.

(* ---------- 1. the matcher's scope walk ---------- *)
Theorem matcher_scope_is_node_scope : forall nodes m ctx cs,
  Symbols.node_ctxs m ctx nodes = Paths.ROk cs ->
  exists cs', matcher_ctxs m ctx nodes = Paths.ROk cs' /\ length cs' = length cs /\
    forall j, nth_error nodes j = Some Symbols.AOther -> nth_error cs' j = nth_error cs j.
Proof.
  induction nodes as [|a r IH]; intros m ctx cs H; cbn [Symbols.node_ctxs matcher_ctxs] in *.
  - inversion H; subst. exists []. split; [reflexivity|]. split; [reflexivity|]. intros [|j] Hj; discriminate.
  - destruct a as [l n k [i|]|].
    + destruct (nth_error (Symbols.m_decls m) i) as [d|]; [|discriminate].
      destruct (Symbols.node_ctxs m (Symbols.sd_ctx d) r) as [cs0| | |] eqn:E; try discriminate.
      inversion H; subst; clear H. destruct (IH _ _ _ E) as (cs' & H1 & H2 & H3). rewrite H1.
      exists (ctx :: cs'). split; [reflexivity|]. split; [cbn; congruence|].
      intros [|j] Hj; [discriminate|]. cbn. apply H3. exact Hj.
    + discriminate.
    + destruct (Symbols.node_ctxs m ctx r) as [cs0| | |] eqn:E; try discriminate.
      inversion H; subst; clear H. destruct (IH _ _ _ E) as (cs' & H1 & H2 & H3). rewrite H1.
      exists (ctx :: cs'). split; [reflexivity|]. split; [cbn; congruence|].
      intros [|j] Hj; [reflexivity|]. cbn. apply H3. exact Hj.
Qed.

(* a walk that opens a scope at labels only (seeded change C15-6) is a different function: after a constant that has
   children, the next instruction is looked up under the previous label *)
Fixpoint matcher_ctxs_labels_only (m : Symbols.mgr) (ctx : list text) (nodes : list Symbols.anode) : Paths.res (list (list text)) :=
  match nodes with
  | [] => Paths.ROk []
  | Symbols.AOther :: r =>
    match matcher_ctxs_labels_only m ctx r with Paths.ROk cs => Paths.ROk (ctx :: cs) | e => e end
  | Symbols.ASym _ _ k ir :: r =>
    match ir with
    | None => Paths.RPanic
    | Some i =>
      match nth_error (Symbols.m_decls m) i with
      | None => Paths.RPanic
      | Some d =>
        match matcher_ctxs_labels_only m (match k with Symbols.KLabel => Symbols.sd_ctx d | _ => ctx end) r with
        | Paths.ROk cs => Paths.ROk (ctx :: cs) | e => e
        end
      end
    end
  end.

Definition ex_a : text := [97%N].
Definition ex_k : text := [107%N].
Definition ex_scope_ast : list Symbols.anode :=
  [Symbols.ASym 0 ex_a Symbols.KLabel None; Symbols.AOther; Symbols.ASym 0 ex_k Symbols.KConstant None; Symbols.AOther].

Theorem labels_only_walk_refuted :
  exists m ast cs cs', Symbols.collect Symbols.mgr_new ex_scope_ast = Paths.ROk (m, ast) /\
    Symbols.node_ctxs m Symbols.ctx_global ast = Paths.ROk cs /\
    matcher_ctxs_labels_only m Symbols.ctx_global ast = Paths.ROk cs' /\
    nth_error ast 3 = Some Symbols.AOther /\ nth_error cs 3 = Some [ex_k] /\ nth_error cs' 3 = Some [ex_a].
Proof. vm_compute. do 4 eexists. repeat split; reflexivity. Qed.

(* ---------- 2. providers ---------- *)
(* no symbol is reachable under the name of an asm built-in function from any context (F54 class, outside the model) *)
Definition reserved_free2 (m : Symbols.mgr) : Prop :=
  forall n ctx, known_asm_builtin n = true -> Symbols.try_get_by_name m ctx 0 [n] = Paths.ROk None.

Lemma asm_not_pc n : known_asm_builtin n = true -> is_pc n = false.
Proof. exact (asm_name_not_addr n). Qed.

(* ---------- item references are used once ---------- *)
Lemma flat_map_nodup_inj {A} (f : A -> list nat) (l : list A) : NoDup (flat_map f l) ->
  forall a b k, In a l -> In b l -> In k (f a) -> In k (f b) -> a = b.
Proof.
  induction l as [|x l IH]; intros Hnd a b k Ha Hb Hka Hkb; [destruct Ha|]. cbn [flat_map] in Hnd.
  assert (Hin : forall y, In y l -> In k (f y) -> In k (flat_map f l)) by (intros y Hy Hk; apply in_flat_map; eauto).
  destruct Ha as [->|Ha], Hb as [Hb|Hb].
  - exact Hb.
  - exfalso. eapply NoDup_app_disj; [exact Hnd|exact Hka|eauto].
  - subst x. exfalso. eapply NoDup_app_disj; [exact Hnd|exact Hkb|eauto].
  - eapply IH; eauto. eapply NoDup_app_r; eauto.
Qed.

Definition sref (n : cnode) : list nat := match fst n with XLabel s _ => [s] | XConst s _ _ => [s] | _ => [] end.
Definition iref (n : cnode) : list nat := match fst n with XInstr i _ => [i] | _ => [] end.
Definition dref (n : cnode) : list nat := match fst n with XData _ d _ => [d] | _ => [] end.
(* the node list is numbered the way Resolver2.build_nodes numbers it: every item reference is used by one node *)
Definition canonical2 (ns : list cnode) : Prop :=
  NoDup (flat_map sref ns) /\ NoDup (flat_map iref ns) /\ NoDup (flat_map dref ns).

Section Sim2.
Variable m : Symbols.mgr.
Variable banks : list Cursor.bank.
Variable defs : list ruledef.
Variable mb : Z.
Variable ns : list cnode.
Variable K : kinfo.
Hypothesis Hres : reserved_free2 m.

Lemma pvar2_asm st ctx addr cg n : known_asm_builtin n = true -> pvar2 m st ctx addr cg 0%N [n] = EErr.
Proof.
  intro H. unfold pvar2. rewrite (asm_not_pc n H). unfold Symbols.get_by_name. cbn [N.to_nat]. rewrite (Hres n ctx H). reflexivity.
Qed.
Lemma asm_agree_pvar2 st ctx addr cg st' ctx' addr' cg' : asm_agree (pvar2 m st ctx addr cg) (pvar2 m st' ctx' addr' cg').
Proof. intros n H. rewrite !pvar2_asm by exact H. reflexivity. Qed.
Lemma asm_agree_pvar2_dummy st ctx addr cg : asm_agree (pvar2 m st ctx addr cg) dummy_var.
Proof. intros n H. rewrite pvar2_asm by exact H. reflexivity. Qed.

Definition good2 (st : state) : Prop :=
  forall s d0 e c, In (XConst s d0 e, c) ns -> const_known e = true ->
    exists v c', cval e = EOk (v, c') /\ nth_error (s_sym st) s = Some v /\ should_propagate v = false.

Hypothesis HKsym : forall r, nth_error (k_sym K) r = Some true -> exists d0 e c, In (XConst r d0 e, c) ns /\ const_known e = true.

Notation G c := (global_known2 true m c (k_sym K)).

(* static_known_sound for scoped lookups: in one and the same symbol context, two states in which the statically known
   constants hold their values answer alike for every name the analysis calls known *)
Lemma good_agree2 c st st' addr addr' cg cg' : good2 st -> good2 st' ->
  pv_agree (G c) (pvar2 m st c addr cg) (pvar2 m st' c addr' cg').
Proof.
  intros Hg Hg' l p HG. unfold global_known2 in HG.
  assert (L : match Symbols.try_get_by_name m c (N.to_nat l) p with
              | Paths.ROk (Some r) => match nth_error (k_sym K) r with Some b => b | None => false end
              | _ => false end = true ->
              (match Symbols.get_by_name m c (N.to_nat l) p with
               | Paths.ROk r => match nth_error (s_sym st) r with Some VUnknown => if cg then EOk VUnknown else EErr | Some v => EOk v | None => EErr end
               | _ => EErr end) =
              (match Symbols.get_by_name m c (N.to_nat l) p with
               | Paths.ROk r => match nth_error (s_sym st') r with Some VUnknown => if cg' then EOk VUnknown else EErr | Some v => EOk v | None => EErr end
               | _ => EErr end)).
  { unfold Symbols.get_by_name. destruct (Symbols.try_get_by_name m c (N.to_nat l) p) as [[r|]| | |]; try discriminate.
    destruct (nth_error (k_sym K) r) as [b|] eqn:Kb; [|discriminate]. intros ->.
    destruct (HKsym r Kb) as (d0 & e & c0 & Hin & Hk).
    destruct (Hg r d0 e c0 Hin Hk) as (v & c1 & Hv & Hs & Hp). destruct (Hg' r d0 e c0 Hin Hk) as (v' & c1' & Hv' & Hs' & Hp').
    rewrite Hv in Hv'. inversion Hv'; subst v' c1'. rewrite Hs, Hs'. destruct v; try reflexivity. discriminate. }
  unfold pvar2. destruct l as [|l]; [destruct p as [|first rest]|]; try (apply L; exact HG).
  cbn [andb] in HG. destruct (is_pc first); [discriminate|]. apply L. exact HG.
Qed.

(* ---------- 3. the simulation ---------- *)
Definition frozen_instr_ok2 (i : nat) (d : instr_def) (c : list text) : Prop :=
  forall st' b pos last src, good2 st' -> nth_error (s_instr st') i = Some d ->
    resolve_node2 m defs mb last (XInstr i src) c st' b pos = Ok (st', Resolved).

Definition frozen_data_ok2 (d : nat) (w : option N) (e : expr) (bb : bigint) : Prop :=
  forall c st' b pos last, nth_error (s_data st') d = Some bb ->
    resolve_node2 m defs mb last (XData w d e) c st' b pos = Ok (st', Resolved).

Definition kinstr_ok2 (st : state) : Prop :=
  forall i src c d, In (XInstr i src, c) ns -> nth_error (s_instr st) i = Some d -> flag (k_instr K) i = true ->
    forallb (match_known true defs (G c)) (i_matches d) = true /\ forallb (match_kinded defs) (i_matches d) = true.

Lemma const_noop2 st b pos last s d0 e c : good2 st -> In (XConst s d0 e, c) ns -> const_known e = true ->
  resolve_node2 m defs mb last (XConst s d0 e) c st b pos = Ok (st, Resolved).
Proof.
  intros Hg Hin Hk. destruct (Hg s d0 e c Hin Hk) as (v & c' & Hv & Hs & Hp). unfold resolve_node2. cbv zeta.
  rewrite (closed_known_indep _ dummy_var e [] (asm_agree_pvar2_dummy _ _ _ _) Hk). unfold cval in Hv. rewrite Hv.
  replace (match v with VFailed => true | _ => false end) with false by (destruct v; try reflexivity; discriminate Hp).
  rewrite andb_false_r.
  rewrite (nth_error_nth' _ _ VUnknown _ Hs). rewrite value_identical_refl.
  rewrite (set_nth_same_entry _ _ _ Hs). rewrite state_eta. reflexivity.
Qed.

Lemma resolve_matches_indep2 pv pv' G0 ms : pv_agree G0 pv pv' -> asm_agree pv pv' ->
  forallb (match_known true defs G0) ms = true -> forallb (match_kinded defs) ms = true ->
  resolve_matches defs pv ms = resolve_matches defs pv' ms.
Proof.
  intros Hg Ha. unfold resolve_matches. induction ms as [|x ms IH]; intros Hk Hkd; [reflexivity|].
  cbn [forallb] in Hk, Hkd. apply andb_prop in Hk. destruct Hk as [Hk1 Hk2]. apply andb_prop in Hkd. destruct Hkd as [Hd1 Hd2].
  rewrite (match_known_indep defs G0 pv pv' Hg Ha x Hd1 Hk1). rewrite (IH Hk2 Hd2). reflexivity.
Qed.

Lemma freeze_instr_ok2 i d c st addr cg bb :
  good2 st -> forallb (match_known true defs (G c)) (i_matches d) = true -> forallb (match_kinded defs) (i_matches d) = true ->
  smallest_encodings defs (pvar2 m st c addr cg) cg (i_matches d) = EOk (Some [bb]) ->
  frozen_instr_ok2 i {| i_matches := i_matches d; i_enc := bb |} c.
Proof.
  intros Hg Hk Hkd Hs st' b pos last src Hg' Hd. unfold resolve_node2. cbv zeta. rewrite Hd. cbn [i_matches i_enc].
  rewrite resolve_encoding_smallest.
  set (pv' := pvar2 m st' c (Cursor.eval_address mb b pos (negb last)) (negb last)).
  assert (E : smallest_encodings defs pv' (negb last) (i_matches d) = EOk (Some [bb])).
  { unfold smallest_encodings in *.
    rewrite (resolve_matches_indep2 pv' (pvar2 m st c addr cg) (G c) (i_matches d)
               (good_agree2 _ _ _ _ _ _ _ Hg' Hg) (asm_agree_pvar2 _ _ _ _ _ _ _ _) Hk Hkd).
    destruct (resolve_matches defs (pvar2 m st c addr cg) (i_matches d)) as [rs|]; [|discriminate].
    destruct (flat_map (fun r => match r with MResolved b0 => [b0] | _ => [] end) rs) as [|b0 rest]; [discriminate|].
    cbv zeta in *.
    match type of Hs with (if _ && Nat.ltb 1 (length ?l) then _ else _) = _ => set (cands := l) in * end.
    match type of Hs with (if ?q then _ else _) = _ => destruct q; [discriminate|] end.
    assert (Hc : cands = [bb]) by congruence. rewrite Hc. change (Nat.ltb 1 (length [bb])) with false. rewrite andb_false_r. reflexivity. }
  rewrite E. cbn [hd_error]. rewrite bigint_identical_refl.
  rewrite (set_nth_same_entry _ _ _ Hd). rewrite state_eta. reflexivity.
Qed.

Lemma freeze_data_ok2 d w e v b0 : data_known e = true ->
  (exists st c addr cg c', eval code_ops (pvar2 m st c addr cg) e [] = EOk (v, c')) -> expect_error_or_bigint v = EOk (VInt b0) ->
  elem_checked w b0 = true -> frozen_data_ok2 d w e (sliced w b0).
Proof.
  intros Hk (st & c & addr & cg & c' & He) Hx Hc c2 st' b pos last Hnth. unfold resolve_node2. cbv zeta.
  rewrite (closed_known_indep _ (pvar2 m st c addr cg) e [] (asm_agree_pvar2 _ _ _ _ _ _ _ _) Hk). rewrite He. rewrite Hx.
  assert (Hchk : (if last then match w with Some w0 => negb (size_or_min b0 >? Z.of_N w0) | None => match bsz b0 with Some _ => true | None => false end end else true) = true).
  { destruct last; [exact Hc|reflexivity]. }
  rewrite Hchk. cbn [negb]. fold (sliced w b0).
  rewrite (nth_error_nth' (s_data st') d (mk 0 (Some 0%N)) _ Hnth). rewrite bigint_identical_refl.
  rewrite (set_nth_same_entry _ _ _ Hnth). rewrite state_eta. reflexivity.
Qed.
(* ---------- the invariant ---------- *)
Variable opt : bool.
(* every statically known data element passes the checks of its directive *)
Hypothesis Hok : forall w d e c, In (XData w d e, c) ns -> data_known e = true -> elem_strict_ok w e = true.
Hypothesis HKdata : forall w d e c, In (XData w d e, c) ns -> flag (k_data K) d = true -> data_known e = true.
Hypothesis Hcan : opt = true -> canonical2 ns.

Definition Inv2 (x : sstate) : Prop :=
  (opt = true -> good2 (ss x) /\ kinstr_ok2 (ss x)) /\
  (forall i, flag (fz_instr x) i = true -> opt = true /\ exists d, nth_error (s_instr (ss x)) i = Some d /\
       forall src c, In (XInstr i src, c) ns -> frozen_instr_ok2 i d c) /\
  (forall d, flag (fz_data x) d = true -> exists bb, nth_error (s_data (ss x)) d = Some bb /\
       forall w e c, In (XData w d e, c) ns -> frozen_data_ok2 d w e bb) /\
  (forall s, flag (fz_sym x) s = true -> opt = true /\ exists d0 e c, In (XConst s d0 e, c) ns /\ const_known e = true) /\
  lens x.

Lemma good2_same st st' : s_sym st' = s_sym st -> good2 st -> good2 st'.
Proof. intros E Hg s d0 e c Hin Hk. rewrite E. exact (Hg s d0 e c Hin Hk). Qed.
Lemma kinstr2_same st st' : s_instr st' = s_instr st -> kinstr_ok2 st -> kinstr_ok2 st'.
Proof. intros E Hk i src c d Hin Hd. rewrite E in Hd. exact (Hk i src c d Hin Hd). Qed.

Lemma const_unique2 s d0 e c d0' e' c' : NoDup (flat_map sref ns) ->
  In (XConst s d0 e, c) ns -> In (XConst s d0' e', c') ns -> e = e'.
Proof.
  intros Hnd H1 H2.
  assert (E : (XConst s d0 e, c) = (XConst s d0' e', c')) by (eapply (flat_map_nodup_inj sref ns Hnd _ _ s); eauto; cbn; auto).
  congruence.
Qed.
Lemma label_not_const2 s d0 c d0' e c' : NoDup (flat_map sref ns) -> In (XLabel s d0, c) ns -> In (XConst s d0' e, c') ns -> False.
Proof.
  intros Hnd H1 H2.
  assert (E : (XLabel s d0, c) = (XConst s d0' e, c')) by (eapply (flat_map_nodup_inj sref ns Hnd _ _ s); eauto; cbn; auto).
  discriminate.
Qed.

Variable last : bool.
Notation NF2 n c st b pos := (resolve_node2 m defs mb last n c st b pos).

Definition plain2 (n : xnode) : Prop := match n with XInstr _ _ | XData _ _ _ => False | _ => True end.

Lemma plain_keeps2 n c st b pos st' r : plain2 n -> NF2 n c st b pos = Ok (st', r) ->
  s_instr st' = s_instr st /\ s_data st' = s_data st /\ length (s_sym st') = length (s_sym st).
Proof.
  intros Hp H. unfold resolve_node2 in H. cbv zeta in H.
  destruct n as [s d0|s d0 e|i src|width d e|k e|k e|k e|bi|e]; try destruct Hp;
    repeat match type of H with
           | Ok _ = Ok _ => inversion H; subst; clear H; cbn [s_sym s_instr s_data]; rewrite ?set_nth_length; auto
           | match ?q with _ => _ end = _ => destruct q; try discriminate H
           | (if ?q then _ else _) = _ => destruct q; try discriminate H
           | (let _ := _ in _) = _ => cbv zeta in H
           end.
Qed.

Lemma good_step2 n c st b pos st' r : NoDup (flat_map sref ns) -> good2 st -> In (n, c) ns ->
  NF2 n c st b pos = Ok (st', r) -> good2 st'.
Proof.
  intros Hnd Hg Hin H.
  destruct n as [s d0|s d0 e|i src|width d e|k e|k e|k e|bi|e].
  - unfold resolve_node2 in H. cbv zeta in H.
    destruct (Cursor.eval_address mb b pos (negb last)) as [a| |]; try discriminate.
    inversion H; subst; clear H. intros s0 d1 e0 c0 Hin0 Hk0. cbn [s_sym].
    assert (s0 <> s) by (intro; subst; eapply label_not_const2; eauto).
    rewrite nth_error_set_nth_other by assumption. exact (Hg s0 d1 e0 c0 Hin0 Hk0).
  - unfold resolve_node2 in H. cbv zeta in H.
    destruct (eval code_ops _ e []) as [[v c1]|] eqn:E; [|discriminate].
    match type of H with (if ?q then _ else _) = _ => destruct q; [discriminate|] end.
    inversion H; subst; clear H. intros s0 d1 e0 c0 Hin0 Hk0. cbn [s_sym].
    destruct (Hg s0 d1 e0 c0 Hin0 Hk0) as (v0 & c2 & Hv & Hs & Hp).
    destruct (Nat.eq_dec s0 s) as [->|Hne].
    + assert (e0 = e) by (eapply const_unique2; eauto). subst e0.
      rewrite (closed_known_indep _ dummy_var e [] (asm_agree_pvar2_dummy _ _ _ _) Hk0) in E. unfold cval in Hv. rewrite Hv in E.
      inversion E; subst. exists v, c1. split; [exact Hv|]. split; [exact (nth_error_set_nth_same _ _ _ _ Hs)|exact Hp].
    + rewrite nth_error_set_nth_other by assumption. exists v0, c2. auto.
  - unfold resolve_node2 in H. cbv zeta in H. destruct (nth_error (s_instr st) i) as [d|]; [|discriminate].
    destruct (resolve_encoding defs _ _ (i_matches d)) as [chosen|]; [|discriminate].
    inversion H; subst. eapply good2_same; [|exact Hg]. reflexivity.
  - unfold resolve_node2 in H. cbv zeta in H.
    destruct (eval code_ops _ e []) as [[v c1]|]; [|discriminate].
    destruct (expect_error_or_bigint v) as [v'|]; [|discriminate].
    match type of H with match ?q with _ => _ end = _ => destruct q as [menc|]; [|discriminate] end.
    match type of H with (if negb ?q then _ else _) = _ => destruct q; cbn [negb] in H; [|discriminate] end.
    inversion H; subst. eapply good2_same; [|exact Hg]. destruct menc; reflexivity.
  - unfold resolve_node2 in H. cbv zeta in H.
    repeat match type of H with
           | Ok _ = Ok _ => inversion H; subst; clear H; eapply good2_same; [|exact Hg]; reflexivity
           | match ?q with _ => _ end = _ => destruct q; try discriminate H
           | (if ?q then _ else _) = _ => destruct q; try discriminate H
           end.
  - unfold resolve_node2 in H. cbv zeta in H.
    repeat match type of H with
           | Ok _ = Ok _ => inversion H; subst; clear H; eapply good2_same; [|exact Hg]; reflexivity
           | match ?q with _ => _ end = _ => destruct q; try discriminate H
           | (if ?q then _ else _) = _ => destruct q; try discriminate H
           end.
  - unfold resolve_node2 in H. cbv zeta in H.
    repeat match type of H with
           | Ok _ = Ok _ => inversion H; subst; clear H; eapply good2_same; [|exact Hg]; reflexivity
           | match ?q with _ => _ end = _ => destruct q; try discriminate H
           | (if ?q then _ else _) = _ => destruct q; try discriminate H
           end.
  - cbn in H. inversion H; subst. exact Hg.
  - unfold resolve_node2 in H. cbv zeta in H.
    repeat match type of H with
           | Ok _ = Ok _ => inversion H; subst; clear H; exact Hg
           | match ?q with _ => _ end = _ => destruct q; try discriminate H
           | (if ?q then _ else _) = _ => destruct q; try discriminate H
           end.
Qed.
(* ---------- one node ---------- *)
Variable first : bool.
Notation NS2 n c x b pos := (resolve_nodeS2 m defs mb K opt first last n c x b pos).

Definition npost2 (x : sstate) (st' : state) (rF : resolution) (x' : sstate) (rT : resolution) : Prop :=
  ss x' = st' /\ le_res rF rT /\ (opt && first = false -> same_flags x x' /\ rT = rF) /\ Inv2 x' /\ sub_flags x x'.

Lemma inv2_plain n c x b pos st' r : plain2 n -> In (n, c) ns -> Inv2 x -> NF2 n c (ss x) b pos = Ok (st', r) -> Inv2 (with_state x st').
Proof.
  intros Hp Hin (I1 & I2 & I3 & I4 & I5) H. destruct (plain_keeps2 _ _ _ _ _ _ _ Hp H) as (Ei & Ed & El).
  unfold Inv2, lens. cbn [ss with_state fz_sym fz_instr fz_data]. rewrite Ei, Ed, El.
  split; [|split; [|split; [|split]]]; auto.
  intro Ho. destruct (I1 Ho) as [Hg Hk]. split.
  - eapply good_step2; [exact (proj1 (Hcan Ho))|exact Hg|exact Hin|exact H].
  - eapply kinstr2_same; eauto.
Qed.

Lemma npost2_same x st' r : Inv2 (with_state x st') -> npost2 x st' r (with_state x st') r.
Proof.
  intro HI. unfold npost2. split; [reflexivity|]. split; [apply le_res_refl|]. split; [intros _; split; [apply same_flags_ws|reflexivity]|].
  split; [exact HI|apply sub_flags_ws].
Qed.
Lemma npost2_skip x : Inv2 x -> npost2 x (ss x) Resolved x Resolved.
Proof.
  intro HI. unfold npost2. split; [reflexivity|]. split; [apply le_res_refl|]. split; [intros _; split; [apply same_flags_refl|reflexivity]|].
  split; [exact HI|apply sub_flags_refl].
Qed.

Lemma kinstr2_upd st i d d' : kinstr_ok2 st -> nth_error (s_instr st) i = Some d -> i_matches d' = i_matches d -> kinstr_ok2 (upd_instr st i d').
Proof.
  intros Hk Hd Hm j src c dj Hin Hj Fj. cbn [upd_instr s_instr] in Hj. destruct (Nat.eq_dec j i) as [->|Hne].
  - rewrite (nth_error_set_nth_same _ _ _ _ Hd) in Hj. inversion Hj; subst dj. rewrite Hm. exact (Hk i src c d Hin Hd Fj).
  - rewrite nth_error_set_nth_other in Hj by exact Hne. exact (Hk j src c dj Hin Hj Fj).
Qed.

Lemma node_sim2 n c x b pos : In (n, c) ns -> Inv2 x ->
  match NF2 n c (ss x) b pos with
  | Ok (st', rF) => exists x' rT, NS2 n c x b pos = Ok (x', rT) /\ npost2 x st' rF x' rT
  | Err => NS2 n c x b pos = Err
  | Panic => NS2 n c x b pos = Panic
  end.
Proof.
  intros Hin HI.
  assert (Plain : plain2 n ->
    NS2 n c x b pos = match NF2 n c (ss x) b pos with Err => Err | Panic => Panic | Ok (st', res) => Ok (with_state x st', res) end ->
    match NF2 n c (ss x) b pos with
    | Ok (st', rF) => exists x' rT, NS2 n c x b pos = Ok (x', rT) /\ npost2 x st' rF x' rT
    | Err => NS2 n c x b pos = Err
    | Panic => NS2 n c x b pos = Panic
    end).
  { intros Hp E. rewrite E. destruct (NF2 n c (ss x) b pos) as [[st' r]| |] eqn:F; try reflexivity.
    exists (with_state x st'), r. split; [reflexivity|]. apply npost2_same. eapply inv2_plain; eauto. }
  pose proof HI as (I1 & I2 & I3 & I4 & L1 & L2 & L3).
  destruct n as [s d0|s d0 e|i src|width d e|k e|k e|k e|bi|e]; try (apply Plain; [exact I|reflexivity]).
  - (* constant *)
    cbn [resolve_nodeS2]. destruct (flag (fz_sym x) s) eqn:Fs.
    + destruct (I4 s Fs) as (Ho & d0' & e' & c' & Hin' & Hk').
      assert (e' = e) by (eapply const_unique2; [exact (proj1 (Hcan Ho))|exact Hin'|exact Hin]). subst e'.
      rewrite (const_noop2 (ss x) b pos last s d0 e c (proj1 (I1 Ho)) Hin Hk').
      exists x, Resolved. split; [reflexivity|]. apply npost2_skip. exact HI.
    + destruct (NF2 (XConst s d0 e) c (ss x) b pos) as [[st' r]| |] eqn:F; try reflexivity.
      assert (HI' : Inv2 (with_state x st')) by (eapply inv2_plain; eauto; exact I).
      destruct (opt && first && flag (k_sym K) s) eqn:C.
      * apply andb_prop in C. destruct C as [C Ck]. pose proof C as Cof. apply andb_prop in C. destruct C as [Ho Hf].
        eexists. exists Resolved. split; [reflexivity|]. unfold npost2. cbn [ss]. split; [reflexivity|]. split; [intros _; reflexivity|].
        split; [intro Hc; rewrite Cof in Hc; discriminate Hc|]. split.
        -- destruct HI' as (J1 & J2 & J3 & J4 & J5). unfold Inv2, lens in *. cbn [ss with_state fz_sym fz_instr fz_data] in *.
           rewrite set_nth_length. split; [exact J1|]. split; [exact J2|]. split; [exact J3|]. split; [|exact J5].
           intros s0 F0. destruct (flag_true_set _ _ _ F0) as [->|Fq]; [|exact (J4 s0 Fq)]. split; [exact Ho|].
           apply HKsym. unfold flag in Ck. destruct (nth_error (k_sym K) s) as [bb|]; [subst bb; reflexivity|discriminate].
        -- repeat split; cbn [fz_sym fz_instr fz_data]; auto. intros j Hj. apply flag_set_mono. exact Hj.
      * exists (with_state x st'), r. split; [reflexivity|]. apply npost2_same. exact HI'.
  - (* instruction *)
    cbn [resolve_nodeS2]. unfold resolve_node2. cbv zeta.
    destruct (nth_error (s_instr (ss x)) i) as [d|] eqn:Hd; cbv beta iota; [|reflexivity].
    destruct (flag (fz_instr x) i) eqn:Fi.
    + destruct (I2 i Fi) as (Ho & d1 & Hd1 & Hokd). rewrite Hd in Hd1. inversion Hd1; subst d1.
      pose proof (Hokd src c Hin (ss x) b pos last src (proj1 (I1 Ho)) Hd) as E. unfold resolve_node2 in E. cbv zeta in E. rewrite Hd in E.
      rewrite E. exists x, Resolved. split; [reflexivity|]. apply npost2_skip. exact HI.
    + rewrite resolve_encoding_smallest.
      destruct (smallest_encodings defs _ (negb last) (i_matches d)) as [encs|] eqn:Es; [|reflexivity].
      set (chosen := match encs with Some cc => hd_error cc | None => None end).
      assert (Ech : match encs with None => EOk None | Some cc => EOk (hd_error cc) end = EOk chosen) by (destruct encs; reflexivity).
      rewrite Ech. clear Ech. cbv zeta.
      set (d' := match chosen with Some bb => {| i_matches := i_matches d; i_enc := bb |} | None => d end).
      assert (Hm : i_matches d' = i_matches d) by (unfold d'; destruct chosen; reflexivity).
      fold (upd_instr (ss x) i d').
      assert (Keep : Inv2 (with_state x (upd_instr (ss x) i d'))).
      { unfold Inv2, lens. cbn [ss with_state upd_instr fz_sym fz_instr fz_data s_sym s_instr s_data]. rewrite set_nth_length.
        split; [|split; [|split; [|split]]]; auto.
        - intro Ho. destruct (I1 Ho) as [Hg Hk]. split; [eapply good2_same; [|exact Hg]; reflexivity|exact (kinstr2_upd _ _ _ _ Hk Hd Hm)].
        - intros j Fj. destruct (I2 j Fj) as (Ho & dj & Hj & Hokj). split; [exact Ho|]. exists dj. split; [|exact Hokj].
          rewrite nth_error_set_nth_other; [exact Hj|]. intro; subst; congruence. }
      match goal with |- context [if ?q then Ok ({| ss := _; fz_sym := _; fz_instr := set_nth _ _ _; fz_data := _ |}, _) else _] => destruct q eqn:Fz end.
      * destruct chosen as [bb|] eqn:Hch; [|discriminate].
        apply andb_prop in Fz. destruct Fz as [Fz Hsingle]. apply andb_prop in Fz. destruct Fz as [Cof Ki].
        pose proof Cof as Cof'. apply andb_prop in Cof. destruct Cof as [Ho Hf].
        destruct encs as [cc|]; [|discriminate]. apply Nat.eqb_eq in Hsingle.
        assert (cc = [bb]).
        { destruct cc as [|b1 [|b2 cc]]; cbn in Hsingle; try discriminate. unfold chosen in Hch. cbn in Hch. congruence. }
        subst cc. destruct (I1 Ho) as [Hg Hk]. destruct (Hk i src c d Hin Hd Ki) as [Hkn Hkd].
        eexists. exists Resolved. split; [reflexivity|]. unfold npost2. cbn [ss]. split; [reflexivity|]. split; [intros _; reflexivity|].
        split; [intro Hc; rewrite Cof' in Hc; discriminate Hc|]. split.
        -- destruct Keep as (J1 & J2 & J3 & J4 & J5). unfold Inv2, lens in *. cbn [ss with_state upd_instr fz_sym fz_instr fz_data s_sym s_instr s_data] in *.
           rewrite set_nth_length in *. split; [exact J1|]. split; [|split; [exact J3|split; [exact J4|exact J5]]].
           intros j Fj. split; [exact Ho|]. destruct (Nat.eq_dec j i) as [->|Hne].
           ++ exists d'. split; [exact (nth_error_set_nth_same _ _ _ _ Hd)|]. intros src' c' Hin'.
              assert (E : (XInstr i src', c') = (XInstr i src, c))
                by (eapply (flat_map_nodup_inj iref ns (proj1 (proj2 (Hcan Ho))) _ _ i); eauto; cbn; auto).
              inversion E; subst. unfold d'. eapply freeze_instr_ok2; eauto.
           ++ rewrite flag_set_other in Fj by exact Hne. exact (proj2 (J2 j Fj)).
        -- repeat split; cbn [fz_sym fz_instr fz_data]; auto. intros j Hj. apply flag_set_mono. exact Hj.
      * eexists (with_state x (upd_instr (ss x) i d')), _. split; [reflexivity|]. apply npost2_same. exact Keep.
  - (* data element *)
    cbn [resolve_nodeS2]. destruct (flag (fz_data x) d) eqn:Fd.
    + destruct (I3 d Fd) as (bb & Hb & Hall). rewrite (Hall width e c Hin c (ss x) b pos last Hb).
      exists x, Resolved. split; [reflexivity|]. apply npost2_skip. exact HI.
    + unfold resolve_node2. cbv zeta.
      destruct (eval code_ops _ e []) as [[v c1]|] eqn:Ev; [|reflexivity].
      destruct (expect_error_or_bigint v) as [v'|] eqn:Ex; [|reflexivity].
      assert (Write : forall bb, Inv2 (with_state x (upd_data (ss x) d bb))).
      { intro bb. unfold Inv2, lens. cbn [ss with_state upd_data fz_sym fz_instr fz_data s_sym s_instr s_data]. rewrite set_nth_length.
        split; [exact I1|]. split; [exact I2|]. split; [|split; [exact I4|auto]].
        intros d1 F1. destruct (I3 d1 F1) as (b1 & Hb1 & Hall1). exists b1. split; [|exact Hall1].
        rewrite nth_error_set_nth_other; [exact Hb1|]. intro; subst; congruence. }
      destruct (flag (k_data K) d) eqn:Kd.
      * pose proof (HKdata width d e c Hin Kd) as Hkn.
        assert (Hv : exists b0, v' = VInt b0 /\ elem_checked width b0 = true).
        { pose proof (Hok width d e c Hin Hkn) as Hs. unfold elem_strict_ok in Hs.
          rewrite <- (closed_known_indep (pvar2 m (ss x) c (Cursor.eval_address mb b pos (negb last)) (negb last)) dummy_var e []
                        (asm_agree_pvar2_dummy _ _ _ _) Hkn) in Hs. rewrite Ev, Ex in Hs.
          destruct v'; try discriminate. eauto. }
        destruct Hv as [b0 [-> Hchk]]. rewrite orb_true_r. unfold elem_checked in Hchk. rewrite Hchk.
        replace (if last then true else true) with true by (destruct last; reflexivity). cbn [negb].
        fold (sliced width b0). fold (upd_data (ss x) d (sliced width b0)).
        destruct (opt && first) eqn:Hof; cbn [andb].
        -- destruct (bsz (sliced width b0)) eqn:Bs.
           ++ apply andb_prop in Hof. destruct Hof as [Ho Hf].
              eexists. exists Resolved. split; [reflexivity|]. unfold npost2. cbn [ss]. split; [reflexivity|]. split; [intros _; reflexivity|].
              split; [intro Hc; rewrite Ho, Hf in Hc; discriminate Hc|]. split.
              ** destruct (Write (sliced width b0)) as (J1 & J2 & J3 & J4 & J5). unfold Inv2, lens in *.
                 cbn [ss with_state upd_data fz_sym fz_instr fz_data s_sym s_instr s_data] in *. rewrite set_nth_length in *.
                 split; [exact J1|]. split; [exact J2|]. split; [|split; [exact J4|exact J5]].
                 intros d1 F1. destruct (Nat.eq_dec d1 d) as [->|Hne].
                 --- assert (Hlt : (d < length (s_data (ss x)))%nat).
                     { rewrite <- L3. unfold flag in F1. destruct (nth_error (set_nth (fz_data x) d true) d) eqn:E; [|discriminate].
                       assert (Hn : nth_error (set_nth (fz_data x) d true) d <> None) by congruence.
                       apply nth_error_Some in Hn. rewrite set_nth_length in Hn. exact Hn. }
                     destruct (nth_error (s_data (ss x)) d) as [prev|] eqn:Ep; [|apply nth_error_None in Ep; lia].
                     exists (sliced width b0). split; [exact (nth_error_set_nth_same _ _ _ _ Ep)|].
                     intros w' e' c' Hin'.
                     assert (E : (XData w' d e', c') = (XData width d e, c))
                       by (eapply (flat_map_nodup_inj dref ns (proj2 (proj2 (Hcan Ho))) _ _ d); eauto; cbn; auto).
                     inversion E; subst. eapply freeze_data_ok2; eauto. do 5 eexists. exact Ev.
                 --- rewrite flag_set_other in F1 by exact Hne. exact (J3 d1 F1).
              ** repeat split; cbn [fz_sym fz_instr fz_data]; auto. intros j Hj. apply flag_set_mono. exact Hj.
           ++ eexists (with_state x (upd_data (ss x) d (sliced width b0))), _. split; [reflexivity|]. apply npost2_same. apply Write.
        -- eexists (with_state x (upd_data (ss x) d (sliced width b0))), _. split; [reflexivity|]. apply npost2_same. apply Write.
      * rewrite orb_false_r.
        destruct (match v' with VInt b0 => EOk (Some b0) | _ => if last then EErr else EOk None end) as [menc|]; [|reflexivity].
        match goal with |- context [if negb ?q then _ else _] => destruct q; cbn [negb]; [|reflexivity] end.
        destruct menc as [b0|].
        -- rewrite !andb_false_r. cbn [andb]. fold (sliced width b0). fold (upd_data (ss x) d (sliced width b0)).
           eexists (with_state x (upd_data (ss x) d (sliced width b0))), _. split; [reflexivity|]. apply npost2_same. apply Write.
        -- exists (with_state x (ss x)), Unresolved. split; [reflexivity|]. apply npost2_same. rewrite with_state_ss. exact HI.
Qed.
(* ---------- one step of the iterator, one pass ---------- *)
Definition post2 (x : sstate) (accF accT : resolution) (st' : state) (rF : resolution) (x' : sstate) (rT : resolution) : Prop :=
  ss x' = st' /\ le_res rF rT /\ (opt && first = false -> same_flags x x' /\ (accT = accF -> rT = rF)) /\ Inv2 x' /\ sub_flags x x'.

Lemma pass_sim2 : forall l, incl l ns -> forall x c prev accF accT, Inv2 x -> le_res accF accT ->
  match pass2 m banks defs mb last l (ss x) c prev accF with
  | Ok (st', rF) => exists x' rT, pass2S m banks defs mb K opt first last l x c prev accT = Ok (x', rT) /\ post2 x accF accT st' rF x' rT
  | Err => pass2S m banks defs mb K opt first last l x c prev accT = Err
  | Panic => pass2S m banks defs mb K opt first last l x c prev accT = Panic
  end.
Proof.
  induction l as [|[n cn] l IH]; intros Hincl x c prev accF accT HI Hle; cbn [pass2 pass2S].
  - destruct (Cursor.advance mb banks c prev) as [c1| |]; try reflexivity.
    exists x, accT. split; [reflexivity|]. unfold post2.
    split; [reflexivity|]. split; [exact Hle|]. split; [intros _; split; [apply same_flags_refl|auto]|]. split; [exact HI|apply sub_flags_refl].
  - unfold step2, step2S. cbn [fst snd].
    destruct (Cursor.advance mb banks c prev) as [c1| |]; try reflexivity.
    destruct (Cursor.enter mb banks c1 (shape n)) as [c2| |]; try reflexivity.
    destruct (Cursor.cur_bank banks c2) as [[b pos]| |]; try reflexivity.
    pose proof (node_sim2 n cn x b pos (Hincl _ (or_introl eq_refl)) HI) as Hn.
    destruct (resolve_node2 m defs mb last n cn (ss x) b pos) as [[st1 r1]| |]; try (rewrite Hn; reflexivity).
    destruct Hn as (x1 & rT1 & HT1 & Hss1 & Hr1 & Hsm1 & HI1 & Hsub1). rewrite HT1. subst st1.
    assert (Hincl' : incl l ns) by (intros y Hy; apply Hincl; now right).
    specialize (IH Hincl' x1 c2 (Some (view (ss x1) n)) (merge accF r1) (merge accT rT1) HI1 (le_merge _ _ _ _ Hle Hr1)).
    destruct (pass2 m banks defs mb last l (ss x1) c2 (Some (view (ss x1) n)) (merge accF r1)) as [[st' rF]| |]; try exact IH.
    destruct IH as (x' & rT & HT & Hss & Hr & Hsm & HI' & Hsub). exists x', rT. split; [exact HT|].
    unfold post2. split; [exact Hss|]. split; [exact Hr|]. split; [|split; [exact HI'|eapply sub_flags_trans; eauto]].
    intro Hof. destruct (Hsm1 Hof) as [Hs1 Ha1]. destruct (Hsm Hof) as [Hs2 Ha2].
    split; [eapply same_flags_trans; eauto|]. intro Hacc. apply Ha2. subst accT. rewrite Ha1. reflexivity.
Qed.
End Sim2.

(* a pass before the last one never reports Resolved when the program has an #assert (also with the flags) *)
Lemma pass2S_sticky m banks defs mb K opt first last : forall l x c prev x',
  pass2S m banks defs mb K opt first last l x c prev Unresolved = Ok (x', Resolved) -> False.
Proof.
  induction l as [|n l IH]; intros x c prev x' H; cbn [pass2S] in H.
  - destruct (Cursor.advance mb banks c prev); discriminate.
  - destruct (step2S m banks defs mb K opt first last n x c prev) as [[[[x1 r1] c1] p1]| |]; try discriminate.
    cbn [merge] in H. eauto.
Qed.

Lemma pass2S_guess_assert m banks defs mb K opt first : forall l, has_assert l = true -> forall x c prev acc x' r,
  pass2S m banks defs mb K opt first false l x c prev acc = Ok (x', r) -> r = Unresolved.
Proof.
  induction l as [|n l IH]; intros Ha x c prev acc x' r H; cbn [has_assert existsb] in Ha; [discriminate|].
  cbn [pass2S] in H.
  destruct (step2S m banks defs mb K opt first false n x c prev) as [[[[x1 q] c'] p']| |] eqn:E; try discriminate.
  destruct (is_assert (fst n)) eqn:A.
  - assert (q = Unresolved).
    { unfold step2S in E.
      destruct (Cursor.advance mb banks c prev) as [c1| |]; try discriminate.
      destruct (Cursor.enter mb banks c1 (shape (fst n))) as [c2| |]; try discriminate.
      destruct (Cursor.cur_bank banks c2) as [[b pos]| |]; try discriminate.
      destruct (fst n); try discriminate A. cbn in E. now inversion E. }
    subst q. destruct r; [|reflexivity]. exfalso.
    replace (merge acc Unresolved) with Unresolved in H by (destruct acc; reflexivity).
    eapply pass2S_sticky; eauto.
  - cbn [orb] in Ha. eapply IH; eauto.
Qed.

(* ---------- resolve_iteratively ---------- *)
Section Loop2.
Variable m : Symbols.mgr.
Variable banks : list Cursor.bank.
Variable defs : list ruledef.
Variable mb : Z.
Variable ns : list cnode.
Variable K : kinfo.
Hypothesis Hres : reserved_free2 m.
Hypothesis HKsym : forall r, nth_error (k_sym K) r = Some true -> exists d0 e c, In (XConst r d0 e, c) ns /\ const_known e = true.
Variable opt : bool.
Hypothesis Hok : forall w d e c, In (XData w d e, c) ns -> data_known e = true -> elem_strict_ok w e = true.
Hypothesis HKdata : forall w d e c, In (XData w d e, c) ns -> flag (k_data K) d = true -> data_known e = true.
Hypothesis Hcan : opt = true -> canonical2 ns.

Notation INV := (Inv2 m defs mb ns K opt).
Notation PS first last x := (run_passS m banks defs mb K opt first last ns x).
Notation PF last st := (run_pass m banks defs mb last ns st).

Lemma whole_pass2 first last x : INV x ->
  match PF last (ss x) with
  | Ok (st', rF) => exists x' rT, PS first last x = Ok (x', rT) /\ ss x' = st' /\ le_res rF rT /\ (opt && first = false -> rT = rF) /\ INV x'
  | Err => PS first last x = Err
  | Panic => PS first last x = Panic
  end.
Proof.
  intro HI. unfold run_pass, run_passS.
  pose proof (pass_sim2 m banks defs mb ns K Hres HKsym opt Hok HKdata Hcan last first ns (fun y Hy => Hy) x
                (Cursor.init_cursor banks) None Resolved Resolved HI (le_res_refl _)) as H.
  destruct (pass2 m banks defs mb last ns (ss x) (Cursor.init_cursor banks) None Resolved) as [[st' rF]| |]; try exact H.
  destruct H as (x' & rT & HT & Hss & Hr & Hsm & HI' & _). exists x', rT.
  split; [exact HT|]. split; [exact Hss|]. split; [exact Hr|]. split; [|exact HI'].
  intro Hof. destruct (Hsm Hof) as [_ Ha]. auto.
Qed.

Definition lockstep2 (F : ores (state * nat)) (T : ores (sstate * nat)) : Prop :=
  match F with
  | Ok (st, n) => exists x', T = Ok (x', n) /\ ss x' = st
  | Err => T = Err
  | Panic => T = Panic
  end.

Lemma confirm_lockstep2 x i : INV x ->
  lockstep2 (match PF true (ss x) with Ok (st', Resolved) => Ok (st', i) | Ok (_, Unresolved) => Err | Err => Err | Panic => Panic end)
            (match PS false true x with Ok (x', Resolved) => Ok (x', i) | Ok (_, Unresolved) => Err | Err => Err | Panic => Panic end).
Proof.
  intro HI. pose proof (whole_pass2 false true x HI) as H.
  destruct (PF true (ss x)) as [[st' rF]| |]; try (rewrite H; reflexivity).
  destruct H as (x' & rT & HT & Hss & _ & Heq & _). rewrite HT. rewrite (Heq (andb_false_r _)).
  destruct rF; cbn; [eauto|reflexivity].
Qed.

Lemma loop_later2 : forall k i max x, INV x -> (opt = false \/ (1 <= i)%nat) ->
  lockstep2 (loop2 m banks defs mb ns k i max (ss x)) (loop2S m banks defs mb K opt ns k i max x).
Proof.
  induction k as [|k IH]; intros i max x HI Hi; cbn [loop2 loop2S].
  - apply confirm_lockstep2. exact HI.
  - assert (Hof : opt && Nat.eqb (S i) 1 = false).
    { destruct Hi as [->|Hi]; [reflexivity|]. destruct i; [lia|]. apply andb_false_r. }
    pose proof (whole_pass2 (Nat.eqb (S i) 1) (Nat.eqb (S i) max) x HI) as H.
    destruct (PF (Nat.eqb (S i) max) (ss x)) as [[st' rF]| |]; try (rewrite H; reflexivity).
    destruct H as (x' & rT & HT & Hss & _ & Heq & HI'). rewrite HT. rewrite (Heq Hof). subst st'.
    destruct rF.
    + destruct (Nat.eqb (S i) max); [cbn; eauto|]. apply confirm_lockstep2. exact HI'.
    + destruct (Nat.eqb (S i) max); [reflexivity|]. apply IH; [exact HI'|]. right. lia.
Qed.

Lemma loop_off2 b x : opt = false -> INV x ->
  lockstep2 (loop2 m banks defs mb ns b 0 b (ss x)) (loop2S m banks defs mb K opt ns b 0 b x).
Proof. intros Ho HI. apply loop_later2; [exact HI|now left]. Qed.

(* the one-pass situation *)
Definition one_pass2 (b : nat) (x : sstate) (F : ores (state * nat)) (T : ores (sstate * nat)) : Prop :=
  exists x2, (1 <= b)%nat /\ INV x2 /\
    PS true (Nat.eqb 1 b) x = Ok (x2, Resolved) /\ PF (Nat.eqb 1 b) (ss x) = Ok (ss x2, Unresolved) /\
    T = (if Nat.eqb 1 b then Ok (x2, 1%nat)
         else match PS false true x2 with Ok (x', Resolved) => Ok (x', 1%nat) | Ok (_, Unresolved) => Err | Err => Err | Panic => Panic end) /\
    F = (if Nat.eqb 1 b then Err else loop2 m banks defs mb ns (b - 1) 1 b (ss x2)).

Lemma loop_cases2 b x : INV x ->
  let F := loop2 m banks defs mb ns b 0 b (ss x) in
  let T := loop2S m banks defs mb K opt ns b 0 b x in
  lockstep2 F T \/ one_pass2 b x F T.
Proof.
  intros HI F T. subst F T. destruct b as [|k].
  - left. cbn [loop2 loop2S]. apply confirm_lockstep2. exact HI.
  - cbn [loop2 loop2S]. change (Nat.eqb 1 1) with true.
    pose proof (whole_pass2 true (Nat.eqb 1 (S k)) x HI) as H.
    destruct (PF (Nat.eqb 1 (S k)) (ss x)) as [[st' rF]| |] eqn:EF; try (left; rewrite H; reflexivity).
    destruct H as (x' & rT & HT & Hss & Hle & _ & HI'). subst st'.
    destruct rF.
    + left. rewrite HT. rewrite (Hle eq_refl).
      destruct (Nat.eqb 1 (S k)); [cbn; eauto|]. apply confirm_lockstep2. exact HI'.
    + destruct rT.
      * right. exists x'. rewrite HT. replace (S k - 1)%nat with k by lia.
        split; [lia|]. split; [exact HI'|]. split; [reflexivity|]. split; [exact EF|]. split; reflexivity.
      * left. rewrite HT. destruct (Nat.eqb 1 (S k)); [reflexivity|]. apply loop_later2; [exact HI'|]. right. lia.
Qed.

(* forward direction: an optimised success at a budget >= 2 in the one-pass situation *)
Hypothesis Hdist : syms_distinct2 ns.

Lemma one_pass_fwd2 b x F T : one_pass2 b x F T -> labels_ok2 ns (ss x) -> (2 <= b)%nat ->
  forall x' n, T = Ok (x', n) -> n = 1%nat /\ F = Ok (ss x', 2%nat).
Proof.
  intros (x2 & Hb & HI2 & HT1 & HF1 & HT & HF) Hl Hb2 x' n HTok.
  assert (E1 : Nat.eqb 1 b = false) by (apply Nat.eqb_neq; lia). rewrite E1 in *.
  assert (Hl2 : labels_ok2 ns (ss x2)) by (eapply pass2_labels_ok; [exact Hdist|exact Hl|exact HF1]).
  subst T. pose proof (whole_pass2 false true x2 HI2) as H.
  destruct (PS false true x2) as [[xc rc]| |] eqn:EC; try discriminate. destruct rc; [|discriminate].
  inversion HTok; subst x' n; clear HTok.
  destruct (PF true (ss x2)) as [[stc rF]| |] eqn:EFc; try discriminate.
  destruct H as (x'' & rT & HT' & Hss & _ & Heq & _). inversion HT'; subst x'' rT; clear HT'.
  rewrite <- (Heq (andb_false_r _)) in EFc. subst stc.
  assert (Hfix : ss xc = ss x2) by (eapply pass2_fix; [exact Hl2|exact EFc]).
  split; [reflexivity|]. subst F. rewrite Hfix in *.
  destruct b as [|[|k]]; try lia. replace (S (S k) - 1)%nat with (S k) by lia. cbn [loop2].
  destruct k as [|k].
  - change (Nat.eqb 2 2) with true. rewrite EFc. reflexivity.
  - assert (E2 : Nat.eqb 2 (S (S (S k))) = false) by reflexivity. rewrite E2.
    destruct (has_assert ns) eqn:Ha.
    + (* with an #assert a guessing pass reports Unresolved: the loop goes on to its last pass; not needed here *)
      exfalso. unfold run_passS in HT1.
      pose proof (pass2S_guess_assert m banks defs mb K opt true ns Ha _ _ _ _ _ _ HT1). discriminate.
    + rewrite (run_pass_agree_no_assert m banks defs mb ns _ _ Ha EFc). rewrite EFc. reflexivity.
Qed.
(* the unoptimised run cannot succeed where the optimised one fails, in the one-pass situation at budgets >= 2; for
   b >= 3 this uses the replay lemma (Proofs/ResolverS2FrameP.v) as hypothesis FL *)
Lemma one_pass_bwd2 b x F T : one_pass2 b x F T -> (2 <= b)%nat ->
  ((3 <= b)%nat -> forall x2, PS true false x = Ok (x2, Resolved) -> INV x2 -> PF false (ss x2) = Ok (ss x2, Resolved)) ->
  forall st n, F = Ok (st, n) -> exists x', T = Ok (x', 1%nat) /\ ss x' = st /\ n = 2%nat.
Proof.
  intros (x2 & Hb & HI2 & HT1 & HF1 & HT & HF) Hb2 FL st n HFok.
  assert (E1 : Nat.eqb 1 b = false) by (apply Nat.eqb_neq; lia). rewrite E1 in *. subst F T.
  pose proof (whole_pass2 false true x2 HI2) as H.
  destruct b as [|[|[|k]]]; try lia.
  - (* b = 2 *)
    change (2 - 1)%nat with 1%nat in HFok. cbn [loop2] in HFok. change (Nat.eqb 2 2) with true in HFok.
    destruct (PF true (ss x2)) as [[stc rF]| |]; try discriminate. destruct rF; [|discriminate].
    inversion HFok; subst st n; clear HFok.
    destruct H as (x' & rT & HT' & Hss & _ & Heq & _). rewrite HT'. rewrite (Heq (andb_false_r _)). eauto.
  - (* b >= 3 *)
    replace (S (S (S k)) - 1)%nat with (S (S k)) in HFok by lia. cbn [loop2] in HFok.
    assert (E2 : Nat.eqb 2 (S (S (S k))) = false) by reflexivity. rewrite E2 in HFok.
    rewrite (FL ltac:(lia) x2 HT1 HI2) in HFok.
    destruct (PF true (ss x2)) as [[stc rF]| |]; try discriminate. destruct rF; [|discriminate].
    inversion HFok; subst st n; clear HFok.
    destruct H as (x' & rT & HT' & Hss & _ & Heq & _). rewrite HT'. rewrite (Heq (andb_false_r _)). eauto.
Qed.

End Loop2.
