(* Witnesses (computed) for the statements about the static-value optimisation that are false:
   - the literal reading of C08 for this switch ("for every budget"): `#d8 1` at budget 1 (finding F70);
   - get_match_statically_known without the all-arguments condition (before the repair of F72);
   - the matcher's query_variable without the `$` / `pc` test (before the repair of F73).
   And a non-vacuity instance of the switch theorem. *)
From Coq Require Import NArith ZArith List Bool String Ascii Lia.
Import ListNotations.
From CA Require Import Model.Lexer Model.Parser Model.Literal Model.BigIntOps Model.Evaluator Model.Matcher Model.Resolver
  Model.StaticKnown Model.ResolverS Spec.StaticSpec Proofs.ResolverFixP Proofs.StaticKnownP Proofs.ResolverSTopP.
Open Scope Z_scope.

Definition txt (s : string) : text := map N_of_ascii (list_ascii_of_string s).
Definition nl : string := String (ascii_of_nat 10) EmptyString.
Definition pe (s : string) : expr := match parse_full (txt s) with Some e => e | None => EBool false end.

Lemma reserved_free_by_computation names :
  find_sym names s_incbin 0 = None -> find_sym names s_incbinstr 0 = None -> find_sym names s_inchexstr 0 = None ->
  reserved_free names.
Proof.
  intros H1 H2 H3 n H. unfold known_asm_builtin in H. apply orb_prop in H. destruct H as [H|H]; [apply orb_prop in H; destruct H as [H|H]|];
    apply text_eqb_eq in H; subst; assumption.
Qed.

(* ---------- #d8 1 ---------- *)
Definition d_ns : list node := Eval vm_compute in [NData (Some 8%N) [(0%nat, pe "1")]].

Lemma d_hyps : reserved_free [] /\ canonical (List.length (@nil text)) d_ns /\ data_static_ok d_ns /\ consts_asm_free d_ns /\ matches_kinded true [] d_ns.
Proof.
  split; [apply reserved_free_by_computation; reflexivity|]. split.
  { split; [constructor|]. split; [intros s []|]. split; [reflexivity|constructor]. }
  split.
  { intros w el d e Hn He _. destruct Hn as [Hn|[]]. inversion Hn; subst. destruct He as [He|[]]. inversion He; subst. vm_compute. reflexivity. }
  split; [intros s e [H|[]]; discriminate H|].
  intros i src m [H|[]]. discriminate H.
Qed.

Theorem static_switch_refuted :
  exists indexed defs names ns b r,
    reserved_free names /\ canonical (List.length names) ns /\ data_static_ok ns /\ consts_asm_free ns /\ matches_kinded indexed defs ns /\
    assembleS true true true indexed defs names ns b = Some r /\ assembleS true true false indexed defs names ns b = None.
Proof.
  exists true, [], [], d_ns, 1%nat, (1, 8, [], 1%nat).
  destruct d_hyps as (H1 & H2 & H3 & H4 & H5). repeat (split; [assumption|]). split; vm_compute; reflexivity.
Qed.

(* the same program one pass later, without the optimisation *)
Example d8_one_pass_later : assembleS true true false true [] [] d_ns 2 = Some (1, 8, [], 2%nat).
Proof. vm_compute. reflexivity. Qed.

(* ---------- F72: an argument that is not statically known ---------- *)
Definition a_rules : text := txt ("#ruledef {" ++ nl ++ "ld {x: u1} => 0x00" ++ nl ++ "ld {x: u16} => 0x1111" ++ nl ++ "}" ++ nl).
Definition a_defs : list ruledef := Eval vm_compute in match parse_defs a_rules with Some d => d | None => [] end.
Definition a_names : list text := Eval vm_compute in [txt "lbl"; txt "fwd"].
(* #res fwd - fwd + 2 / lbl: / ld lbl / fwd: *)
Definition a_ns : list node := Eval vm_compute in [NRes 0 (pe "fwd - fwd + 2"); NLabel 0; NInstr 0 (txt "ld lbl"); NLabel 1].

Lemma a_hyps : reserved_free a_names /\ canonical (List.length a_names) a_ns /\ data_static_ok a_ns /\ consts_asm_free a_ns /\ matches_kinded true a_defs a_ns.
Proof.
  split; [apply reserved_free_by_computation; reflexivity|]. split.
  { split; [repeat constructor; cbn; intuition discriminate|]. split; [|split; [reflexivity|repeat constructor; cbn; intuition]].
    intros s Hs. cbn in Hs. destruct Hs as [<-|[<-|[]]]; cbn; lia. }
  split; [intros w el d e Hn; cbn in Hn; repeat (destruct Hn as [Hn|Hn]; try discriminate Hn); destruct Hn|].
  split; [intros s e Hn; cbn in Hn; repeat (destruct Hn as [Hn|Hn]; try discriminate Hn); destruct Hn|].
  intros i src m Hn Hm. cbn in Hn. repeat (destruct Hn as [Hn|Hn]; try discriminate Hn); [|destruct Hn].
  inversion Hn; subst i src. clear Hn. vm_compute in Hm.
  repeat (destruct Hm as [Hm|Hm]; [subst m; vm_compute; reflexivity|]). destruct Hm.
Qed.

(* with the analysis as it was before the repair, the two settings succeed with different bits and symbol values *)
Theorem static_argcheck_needed :
  exists indexed defs names ns b,
    reserved_free names /\ canonical (List.length names) ns /\ data_static_ok ns /\ consts_asm_free ns /\ matches_kinded indexed defs ns /\
    assembleS false true true indexed defs names ns b = Some (0, 24, [VInt (un 2); VInt (un 3)], 3%nat) /\
    assembleS false true false indexed defs names ns b = Some (4369, 32, [VInt (un 2); VInt (un 4)], 3%nat).
Proof.
  exists true, a_defs, a_names, a_ns, 3%nat.
  destruct a_hyps as (H1 & H2 & H3 & H4 & H5). repeat (split; [assumption|]). split; vm_compute; reflexivity.
Qed.

(* non-vacuity of the switch theorem: the same program under the analysis as it is *)
Example switch_nonvacuous :
  assembleS true true true true a_defs a_names a_ns 3 = Some (4369, 32, [VInt (un 2); VInt (un 4)], 3%nat) /\
  assembleS true true false true a_defs a_names a_ns 3 = Some (4369, 32, [VInt (un 2); VInt (un 4)], 3%nat).
Proof.
  assert (E : assembleS true true true true a_defs a_names a_ns 3 = Some (4369, 32, [VInt (un 2); VInt (un 4)], 3%nat))
    by (vm_compute; reflexivity).
  split; [exact E|].
  destruct a_hyps as (H1 & H2 & H3 & H4 & H5).
  destruct (static_switch_fwd true a_defs a_names a_ns H1 H2 H4 H5 3 _ _ _ ltac:(lia) E) as [n' [E' [->|[C _]]]]; [exact E'|discriminate C].
Qed.

(* ---------- F73: a constant named pc ---------- *)
Definition p_rules : text := txt ("#ruledef {" ++ nl ++ "ld => pc`8" ++ nl ++ "}" ++ nl).
Definition p_defs : list ruledef := Eval vm_compute in match parse_defs p_rules with Some d => d | None => [] end.
Definition p_names : list text := Eval vm_compute in [txt "pc"; txt "fwd"].
(* pc = 5 / #res fwd - fwd + 2 / ld / fwd: *)
Definition p_ns : list node := Eval vm_compute in [NConst 0 (pe "5"); NRes 0 (pe "fwd - fwd + 2"); NInstr 0 (txt "ld"); NLabel 1].

Lemma p_hyps : reserved_free p_names /\ canonical (List.length p_names) p_ns /\ data_static_ok p_ns /\ consts_asm_free p_ns /\ matches_kinded true p_defs p_ns.
Proof.
  split; [apply reserved_free_by_computation; reflexivity|]. split.
  { split; [repeat constructor; cbn; intuition discriminate|]. split; [|split; [reflexivity|repeat constructor; cbn; intuition]].
    intros s Hs. cbn in Hs. destruct Hs as [<-|[<-|[]]]; cbn; lia. }
  split; [intros w el d e Hn; cbn in Hn; repeat (destruct Hn as [Hn|Hn]; try discriminate Hn); destruct Hn|].
  split.
  { intros s e Hn. cbn in Hn. repeat (destruct Hn as [Hn|Hn]; try discriminate Hn); [|destruct Hn]. inversion Hn; subst. reflexivity. }
  intros i src m Hn Hm. cbn in Hn. repeat (destruct Hn as [Hn|Hn]; try discriminate Hn); [|destruct Hn].
  inversion Hn; subst i src. clear Hn. vm_compute in Hm.
  repeat (destruct Hm as [Hm|Hm]; [subst m; vm_compute; reflexivity|]). destruct Hm.
Qed.

Theorem static_pccheck_needed :
  exists indexed defs names ns b,
    reserved_free names /\ canonical (List.length names) ns /\ data_static_ok ns /\ consts_asm_free ns /\ matches_kinded indexed defs ns /\
    assembleS true false true indexed defs names ns b = Some (0, 24, [VInt (un 5); VInt (un 3)], 3%nat) /\
    assembleS true false false indexed defs names ns b = Some (2, 24, [VInt (un 5); VInt (un 3)], 3%nat).
Proof.
  exists true, p_defs, p_names, p_ns, 3%nat.
  destruct p_hyps as (H1 & H2 & H3 & H4 & H5). repeat (split; [assumption|]). split; vm_compute; reflexivity.
Qed.
