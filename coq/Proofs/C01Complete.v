(* C01_complete: a size-static program the language definition accepts is assembled to the same bits and symbols
   whenever the budget is at least 3 + chain, where chain = (passes after which every symbol is right) - 1 is
   computed by an abstract run of the passes on which symbols are known (CompleteP.sym_passes). *)
From Coq Require Import NArith ZArith List Bool Lia.
From CA Require Import Model.Lexer Model.Parser Model.Literal Model.BigIntOps Model.Evaluator Model.Matcher Model.Resolver
  Spec.Denote Spec.Chain Proofs.ResolverFixP Proofs.ResolverMonoP Proofs.ResolverTopP
  Proofs.CertifiedP Proofs.DenoteP Proofs.StaticSizeP Proofs.CertUniqueP Proofs.DenoteCompleteP Proofs.C01Sound
  Proofs.C01CompleteP Proofs.C01CompleteSemP.
Import ListNotations.
Open Scope Z_scope.

Theorem denote_framed indexed defs names ns out syms :
  syms_distinct ns -> denote indexed defs names ns = DOk out syms ->
  exists st0 st, init_state indexed defs (length names) ns = Some st0 /\ size_static defs ns st0 = true /\
    frame ns st0 st /\ labels_ok ns st /\ Certified names defs ns st /\ out = build_output ns st /\ syms = s_sym st /\
    exists d1 d2 r3, layout ns st0 0 = Some d1 /\ const_sweeps (S (length ns)) names ns d1 = Some d2 /\
      pass names defs false ns d2 0 Resolved = EOk (st, r3).
Proof.
  intros Hd H. unfold denote in H.
  destruct (init_state indexed defs (length names) ns) as [st0|] eqn:E0; [|discriminate].
  destruct (size_static defs ns st0) eqn:Es; cbn [negb] in H; [|discriminate].
  destruct (layout ns st0 0) as [st1|] eqn:E1; [|discriminate].
  destruct (const_sweeps (S (length ns)) names ns st1) as [st2|] eqn:E2; [|discriminate].
  destruct (pass names defs false ns st2 0 Resolved) as [[st3 r3]|] eqn:E3; [|discriminate].
  destruct (pass names defs true ns st3 0 Resolved) as [[st4 r4]|] eqn:E4; [|discriminate].
  destruct r4; [|discriminate]. inversion H; subst; clear H.
  assert (L0 : labels_ok ns st0) by (eapply init_labels_ok; eauto).
  assert (L1 : labels_ok ns st1) by (eapply layout_labels_ok; eauto).
  assert (L2 : labels_ok ns st2) by (eapply const_sweeps_labels_ok; eauto).
  assert (L3 : labels_ok ns st3) by (eapply pass_labels_ok; eauto).
  assert (st4 = st3) by (eapply pass_fix; eauto). subst st4.
  exists st0, st3. split; [reflexivity|]. split; [exact Es|]. split.
  { eapply frame_trans; [eapply layout_frame; [|exact E1]; auto|].
    eapply frame_trans; [eapply const_sweeps_frame; exact E2|].
    eapply pass_frame_gen; [|exact E3]. auto. }
  split; [exact L3|]. split; [exact E4|]. split; [reflexivity|]. split; [reflexivity|].
  exists st1, st2, r3. auto.
Qed.

(* ---------- the theorem ---------- *)
Theorem C01_complete_rules : forall indexed defs names ns out syms P b,
  syms_distinct ns -> defs_ok defs = true -> pats_ok defs = true -> data_canonical ns ->
  denote indexed defs names ns = DOk out syms ->
  sym_passes names ns = Some P -> (P + 2 <= b)%nat ->
  exists n, assemble indexed defs names ns b = Some (out, syms, n) /\ (n <= P + 2)%nat.
Proof.
  intros indexed defs names ns out syms P b Hd Hdefs Hpats Hcan Hden HP Hb.
  destruct (denote_framed _ _ _ _ _ _ Hd Hden) as [st0 [st [Hi [Hst [HF [HL [HC [-> [-> _]]]]]]]]].
  assert (HX : cert_ctx names defs ns st0 st).
  { constructor; try assumption.
    - eapply init_state_instr_ok; eauto.
    - eapply canonical_data_slots; eauto.
    - eapply init_matches_typed; eauto. }
  assert (Hs0 : forall i v, nth_error (s_sym st0) i = Some v -> v = VUnknown).
  { intros i v. rewrite (init_state_shape _ _ _ _ _ Hi). apply repeat_unknown. }
  destruct (simple_loop_ok names defs ns st0 st HX (S (length ns)) st0 O (symok_st0 names defs ns st0 st HX Hs0)) as [st1 [H1 S1]].
  pose proof (pinv_after_simple names defs ns st0 st HX st1 H1 S1 (init_labels_ok _ _ _ _ _ Hi)) as I1.
  pose proof (reach names defs ns st0 st HX P st1 I1 HP) as HR.
  destruct (loop_reach names defs ns st Hd HC (S P) st1 b O b (p_lab _ _ _ _ _ I1) HR ltac:(lia) ltac:(lia)) as [n [Hn Hle]].
  exists n. split; [|lia]. unfold assemble. rewrite Hi, H1, Hn. reflexivity.
Qed.

Lemma budget_bound_spec names ns B : budget_bound names ns = Some B ->
  exists P, sym_passes names ns = Some P /\ B = (P + 2)%nat.
Proof.
  unfold budget_bound, chain. destruct (sym_passes names ns) as [P|] eqn:E; [|discriminate]. cbn [option_map].
  intro H. injection H as <-. exists P. split; [reflexivity|].
  unfold sym_passes in E. destruct (sym_passes_from_spec _ _ _ _ _ _ E) as [q [-> _]]. cbn. lia.
Qed.

(* C01_complete for every program whose constants settle syntactically (budget_bound = Some B) *)
Theorem C01_complete_bound : forall indexed defs names ns out syms B b,
  syms_distinct ns -> defs_ok defs = true -> pats_ok defs = true -> data_canonical ns ->
  denote indexed defs names ns = DOk out syms ->
  budget_bound names ns = Some B -> (B <= b)%nat ->
  exists n, assemble indexed defs names ns b = Some (out, syms, n) /\ (n <= B)%nat.
Proof.
  intros indexed defs names ns out syms B b Hd Hdefs Hpats Hcan Hden HB Hb.
  destruct (budget_bound_spec _ _ _ HB) as [P [HP ->]]. eapply C01_complete_rules; eauto.
Qed.

Theorem C01_complete_parsed : forall t indexed defs names ns out syms B b,
  parse_defs t = Some defs -> no_param_assign defs = true ->
  syms_distinct ns -> data_canonical ns ->
  denote indexed defs names ns = DOk out syms ->
  budget_bound names ns = Some B -> (B <= b)%nat ->
  exists n, assemble indexed defs names ns b = Some (out, syms, n) /\ (n <= B)%nat.
Proof.
  intros t indexed defs names ns out syms B b Hp Hna Hd Hcan Hden HB Hb.
  destruct (parse_defs_wf _ _ Hp) as [H1 H2]. eapply C01_complete_bound; eauto.
Qed.

(* without any syntactic condition on the constants: length ns + 5 passes always suffice *)
Theorem C01_complete_any : forall indexed defs names ns out syms b,
  syms_distinct ns -> defs_ok defs = true -> pats_ok defs = true -> data_canonical ns ->
  denote indexed defs names ns = DOk out syms ->
  (length ns + 5 <= b)%nat ->
  exists n, assemble indexed defs names ns b = Some (out, syms, n) /\ (n <= length ns + 5)%nat.
Proof.
  intros indexed defs names ns out syms b Hd Hdefs Hpats Hcan Hden Hb.
  destruct (denote_framed _ _ _ _ _ _ Hd Hden) as [st0 [st [Hi [Hst [HF [HL [HC [-> [-> [d1 [d2 [r3 [E1 [E2 E3]]]]]]]]]]]]]].
  assert (HX : cert_ctx names defs ns st0 st).
  { constructor; try assumption.
    - eapply init_state_instr_ok; eauto.
    - eapply canonical_data_slots; eauto.
    - eapply init_matches_typed; eauto. }
  assert (Hs0 : forall i v, nth_error (s_sym st0) i = Some v -> v = VUnknown).
  { intros i v. rewrite (init_state_shape _ _ _ _ _ Hi). apply repeat_unknown. }
  destruct (simple_loop_ok names defs ns st0 st HX (S (length ns)) st0 O (symok_st0 names defs ns st0 st HX Hs0)) as [st1 [H1 S1]].
  pose proof (pinv_after_simple names defs ns st0 st HX st1 H1 S1 (init_labels_ok _ _ _ _ _ Hi)) as I1.
  pose proof (reach_sem names defs ns st0 st HX Hs0 d1 d2 r3 st1 E1 E2 E3 I1) as HR.
  destruct (loop_reach names defs ns st Hd HC (length ns + 4) st1 b O b (p_lab _ _ _ _ _ I1) HR ltac:(lia) ltac:(lia)) as [n [Hn Hle]].
  exists n. split; [|lia]. unfold assemble. rewrite Hi, H1, Hn. reflexivity.
Qed.

(* C01_complete at full strength: every size-static program the definition accepts is assembled, to the same answer,
   within budget_total = 3 + chain passes (length ns + 5 where the syntactic chain is undefined) *)
Theorem C01_complete : forall indexed defs names ns out syms b,
  syms_distinct ns -> defs_ok defs = true -> pats_ok defs = true -> data_canonical ns ->
  denote indexed defs names ns = DOk out syms ->
  (budget_total names ns <= b)%nat ->
  exists n, assemble indexed defs names ns b = Some (out, syms, n) /\ (n <= budget_total names ns)%nat.
Proof.
  intros indexed defs names ns out syms b Hd Hdefs Hpats Hcan Hden Hb. unfold budget_total in *.
  destruct (budget_bound names ns) as [B|] eqn:EB.
  - eapply C01_complete_bound; eauto.
  - eapply C01_complete_any; eauto.
Qed.

Theorem C01_complete_text : forall t indexed defs names ns out syms b,
  parse_defs t = Some defs -> no_param_assign defs = true ->
  syms_distinct ns -> data_canonical ns ->
  denote indexed defs names ns = DOk out syms ->
  (budget_total names ns <= b)%nat ->
  exists n, assemble indexed defs names ns b = Some (out, syms, n) /\ (n <= budget_total names ns)%nat.
Proof.
  intros t indexed defs names ns out syms b Hp Hna Hd Hcan Hden Hb.
  destruct (parse_defs_wf _ _ Hp) as [H1 H2]. eapply C01_complete; eauto.
Qed.

(* ---------- non-vacuity and tightness ---------- *)
From Coq Require Import String.
Local Open Scope string_scope.
(* the example program of C01_sound: start: ld 5 / k = end + 1 / jmp end / #d8 k / #res 2 / end:   chain 1, bound 4 *)
Example ex_bound : budget_bound ex_names ex_ns = Some 4%nat.
Proof. vm_compute. reflexivity. Qed.

Example C01_complete_nonvacuous :
  exists n, assemble true ex_defs ex_names ex_ns 4 = Some ((17614197753865, 48), [VInt (un 0); VInt (un 8); VInt (un 9)], n) /\ (n <= 4)%nat.
Proof.
  destruct C01_sound_parsed_nonvacuous as [Hna [Hcan Hden]].
  exact (C01_complete_parsed ex_rules true ex_defs ex_names ex_ns _ _ 4%nat 4%nat ex_defs_parsed Hna ex_distinct Hcan Hden ex_bound (le_n _)).
Qed.

(* the bound is tight: `jmp end / end:` has chain 0 and needs exactly 3 passes ... *)
Definition tight0_ns : list node := Eval vm_compute in [NInstr 0 (txt "jmp end"); NLabel 0].
Example bound_tight_chain0 :
  budget_bound [txt "end"] tight0_ns = Some 3%nat /\
  denote true ex_defs [txt "end"] tight0_ns = DOk (2097155, 24) [VInt (un 3)] /\
  assemble true ex_defs [txt "end"] tight0_ns 2 = None /\
  assemble true ex_defs [txt "end"] tight0_ns 3 = Some ((2097155, 24), [VInt (un 3)], 3%nat).
Proof. vm_compute. auto. Qed.

(* ... and `#d8 k / k = end / end:` has chain 1 and needs exactly 4 *)
Definition tight1_ns : list node := Eval vm_compute in [NData (Some 8%N) [(0%nat, pe "k")]; NConst 0 (pe "end"); NLabel 1].
Example bound_tight_chain1 :
  budget_bound [txt "k"; txt "end"] tight1_ns = Some 4%nat /\
  denote true [] [txt "k"; txt "end"] tight1_ns = DOk (1, 8) [VInt (un 1); VInt (un 1)] /\
  assemble true [] [txt "k"; txt "end"] tight1_ns 3 = None /\
  assemble true [] [txt "k"; txt "end"] tight1_ns 4 = Some ((1, 8), [VInt (un 1); VInt (un 1)], 4%nat).
Proof. vm_compute. auto. Qed.

(* the budget matters: below the bound a size-static program that the definition accepts legitimately fails *)
Theorem C01_complete_needs_budget :
  exists indexed defs names ns out syms B, denote indexed defs names ns = DOk out syms /\
    budget_bound names ns = Some B /\ assemble indexed defs names ns (B - 1) = None.
Proof.
  exists true, ex_defs, [txt "end"], tight0_ns, (2097155, 24), [VInt (un 3)], 3%nat.
  destruct bound_tight_chain0 as [A [B [C _]]]. auto.
Qed.

(* where the bound is undefined: a constant that names itself syntactically without depending on itself *)
Definition selfname_ns : list node := Eval vm_compute in [NConst 0 (pe "1 == 1 || a"); NData (Some 8%N) [(0%nat, pe "7")]].
Example bound_undefined_on_syntactic_cycle :
  budget_bound [txt "a"] selfname_ns = None /\
  denote true [] [txt "a"] selfname_ns = DOk (7, 8) [VBool true] /\
  assemble true [] [txt "a"] selfname_ns 2 = Some ((7, 8), [VBool true], 2%nat).
Proof. vm_compute. auto. Qed.

Example C01_complete_on_syntactic_cycle :
  budget_total [txt "a"] selfname_ns = 7%nat /\
  exists n, assemble true [] [txt "a"] selfname_ns 7 = Some ((7, 8), [VBool true], n) /\ (n <= 7)%nat.
Proof.
  split; [vm_compute; reflexivity|].
  apply (C01_complete true [] [txt "a"] selfname_ns (7, 8) [VBool true] 7%nat).
  - intros s e Hl. cbn in Hl. repeat (destruct Hl as [Hl|Hl]; try discriminate Hl). contradiction.
  - reflexivity. - reflexivity. - reflexivity.
  - vm_compute. reflexivity.
  - vm_compute. lia.
Qed.
