(* C11, part 3: witnesses of the two Intel HEX findings and non-vacuity examples. *)
From Coq Require Import Ascii String ZArith NArith List Bool Lia.
From CA Require Import Model.Formats Spec.Decoders.
Import ListNotations.
Open Scope N_scope.

(* F24: a second block at byte address 0x10000 is written with address field 0000 *)
Definition wrap_bits : list bool := val_bits 8 1 ++ repeat false (524288 - 8) ++ val_bits 8 2.
Definition wrap_spans : list span := [(Some 0, 8); (Some 524288, 8)].

Lemma intelhex_wrap_witness :
  exists recs, decode_intelhex_records (format_intelhex 8 wrap_bits wrap_spans) = Some recs
               /\ image 8 recs 0 = Some 2 /\ firstn 8 wrap_bits = val_bits 8 1.
Proof. eexists. split; [vm_compute; reflexivity|]. split; vm_compute; reflexivity. Qed.

(* F45: `#d4 1` / `#res 1` / `#d4 2` *)
Definition unaligned_bits : list bool := val_bits 4 1 ++ repeat false 8 ++ val_bits 4 2.
Definition unaligned_spans : list span := [(Some 0, 4); (Some 12, 4)].

Lemma intelhex_unaligned_witness :
  exists recs, decode_intelhex_records (format_intelhex 8 unaligned_bits unaligned_spans) = Some recs
               /\ image 8 recs 1 = Some 32 /\ firstn 8 (skipn 8 unaligned_bits) = val_bits 8 2.
Proof. eexists. split; [vm_compute; reflexivity|]. split; vm_compute; reflexivity. Qed.

Lemma all_empty :
  decode_binary (format_binary []) = Some [] /\ decode_binstr (format_binstr []) = Some [] /\
  decode_hexstr (format_hexstr []) = Some [] /\ decode_bindump true (format_bindump []) = Some [] /\
  decode_hexdump true (format_hexdump []) = Some [] /\ decode_mif (format_mif []) = Some [] /\
  decode_intelhex 8 (format_intelhex 8 [] []) = Some [] /\ decode_intelhex 16 (format_intelhex 16 [] []) = Some [] /\
  decode_intelhex 32 (format_intelhex 32 [] []) = Some [] /\
  decode_comma false (format_deccomma []) = Some [] /\ decode_comma true (format_hexcomma []) = Some [] /\
  decode_space false (format_decspace []) = Some [] /\ decode_space true (format_hexspace []) = Some [] /\
  decode_c false (format_decc []) = Some [] /\ decode_c true (format_hexc []) = Some [] /\
  decode_logisim 8 (format_logisim8 []) = Some [] /\ decode_logisim 16 (format_logisim16 []) = Some [].
Proof. repeat split; vm_compute; reflexivity. Qed.

Lemma nonvacuous :
  let b := [true; false; true; false; false; true; false; true; true; true; true; false; true] in
  format_hexstr b = [97; 53; 101; 56] /\
  decode_hexstr (format_hexstr b) = Some (b ++ [false; false; false]) /\
  decode_intelhex 8 (format_intelhex 8 b [(Some 0, 13)]) = Some (b ++ [false; false; false]) /\
  decode_hexdump true (format_hexdump b) = Some (b ++ [false; false; false]) /\
  decode_intelhex 8 [58; 48; 50; 48; 48; 48; 48; 48; 48; 65; 53; 69; 56; 55; 50; 10; 58; 48; 48; 48; 48; 48; 48; 48; 49; 70; 70] = None /\
  decode_mif (removelast (format_mif b)) = None.
Proof. repeat split; vm_compute; reflexivity. Qed.
