(* Invariant of the (repaired) overlap checker: entries strictly ordered, every size positive,
   each entry ends before the next begins.  With it: an accepted request is disjoint from every
   entry, every positive-size request accepted so far is an entry.  The binary search enters only
   through its contract (Spec/OverlapSpec.search_ok). *)
From Coq Require Import NArith List Bool Lia Sorted ZifyBool PeanoNat Arith.
From CA Require Import Model.Overlap Spec.OverlapSpec.
Import ListNotations.
Open Scope N_scope.

Ltac llia := solve [lia | exfalso; lia].

Definition before (a b : entry) : Prop := fst a + snd a <= fst b.
Definition inv (es : list entry) : Prop :=
  Forall (fun e => 0 < snd e) es /\ StronglySorted before es.

(* ---------------------------------------------------------------- list facts *)
Lemma ss_app {A} (R : A -> A -> Prop) l1 l2 :
  StronglySorted R (l1 ++ l2) <->
  StronglySorted R l1 /\ StronglySorted R l2 /\ (forall a b, In a l1 -> In b l2 -> R a b).
Proof.
  induction l1 as [|x l1 IH]; cbn [app].
  - split; [intros H; repeat split; auto; [constructor | intros ? ? []] | intros (_ & H & _); exact H].
  - split.
    + intros H. inversion H as [|? ? Hs Hf]; subst. apply IH in Hs. destruct Hs as (S1 & S2 & C).
      rewrite Forall_app in Hf. destruct Hf as (F1 & F2). repeat split; auto.
      * constructor; auto.
      * intros a b [->|Ha] Hb; [rewrite Forall_forall in F2; auto | auto].
    + intros (S1 & S2 & C). inversion S1 as [|? ? Hs Hf]; subst. constructor.
      * apply IH. repeat split; auto. intros a b Ha Hb. apply C; [right|]; auto.
      * rewrite Forall_app. split; auto. rewrite Forall_forall. intros b Hb. apply C; [left|]; auto.
Qed.

Lemma ss_nth {A} (R : A -> A -> Prop) l : StronglySorted R l ->
  forall i j a b, (i < j)%nat -> nth_error l i = Some a -> nth_error l j = Some b -> R a b.
Proof.
  induction 1 as [|x l Hs IH Hf]; intros i j a b Hlt Hi Hj.
  - destruct i; discriminate.
  - destruct j as [|j]; [llia|]. cbn in Hj. destruct i as [|i]; cbn in Hi.
    + inversion Hi; subst. rewrite Forall_forall in Hf. apply Hf. eapply nth_error_In; eauto.
    + apply (IH i j a b); auto. llia.
Qed.

Lemma in_firstn_nth {A} (l : list A) i a : In a (firstn i l) ->
  exists j, (j < i)%nat /\ nth_error l j = Some a.
Proof.
  revert i. induction l as [|x l IH]; intros i H.
  - rewrite firstn_nil in H. destruct H.
  - destruct i as [|i]; [destruct H|]. cbn in H. destruct H as [->|H].
    + exists 0%nat. split; [llia|reflexivity].
    + destruct (IH _ H) as (j & Hj & E). exists (S j). split; [llia|exact E].
Qed.

Lemma in_skipn_nth {A} (l : list A) i a : In a (skipn i l) ->
  exists j, (i <= j)%nat /\ nth_error l j = Some a.
Proof.
  revert i. induction l as [|x l IH]; intros i H.
  - rewrite skipn_nil in H. destruct H.
  - destruct i as [|i].
    + cbn [skipn] in H. destruct (In_nth_error _ _ H) as (j & E). exists j. split; [llia|exact E].
    + cbn [skipn] in H. destruct (IH _ H) as (j & Hj & E). exists (S j). split; [llia|exact E].
Qed.

Lemma nth_error_some_lt {A} (l : list A) i : (i < length l)%nat -> exists a, nth_error l i = Some a.
Proof.
  intros H. destruct (nth_error l i) eqn:E; [eauto|]. apply nth_error_None in E. llia.
Qed.

Lemma inv_sorted_keys es : inv es -> sorted_keys es.
Proof.
  intros (_ & S) i j a b Hlt Hi Hj. pose proof (ss_nth _ _ S _ _ _ _ Hlt Hi Hj) as H.
  unfold before in H. llia.
Qed.

Lemma inv_nil : inv [].
Proof. split; constructor. Qed.

Lemma checked_add_some a b c : checked_add a b = Some c -> c = a + b.
Proof. unfold checked_add. destruct (a + b <=? usize_max); congruence. Qed.

(* ---------------------------------------------------------------- check_overlap *)
Lemma overlap_at_spec es p s r idx :
  inv es -> search_result_ok es p r -> 0 < s ->
  check_overlap_at es p s r = Ok (idx, None) ->
  (idx <= length es)%nat /\
  (forall a, In a (firstn idx es) -> before a (p, s)) /\
  (forall b, In b (skipn idx es) -> before (p, s) b).
Proof.
  intros (Hpos & Hss) Hr Hs H. destruct r as [i|i]; cbn [check_overlap_at] in H.
  - destruct Hr as (e & He & Hk). rewrite He in H.
    rewrite Forall_forall in Hpos. pose proof (Hpos e (nth_error_In _ _ He)) as Hp.
    replace (0 <? snd e) with true in H by llia. replace (0 <? s) with true in H by llia.
    cbn in H. discriminate.
  - destruct Hr as (Hi & Hlo & Hhi).
    (* next *)
    assert (Hnext : forall nx, nth_error es i = Some nx -> p + s <= fst nx /\ idx = i) .
    { intros nx Hn. assert (Hl : (i < length es)%nat) by (apply nth_error_Some; congruence).
      replace (Nat.ltb i (length es)) with true in H by (symmetry; apply Nat.ltb_lt; exact Hl).
      rewrite Hn in H. destruct (checked_add p s) as [e|] eqn:Ec; [|discriminate].
      apply checked_add_some in Ec. subst e.
      destruct (fst nx <? p + s) eqn:El; [discriminate|].
      split; [llia|].
      destruct (Nat.ltb 0 i && Nat.ltb (i - 1) (length es)); [|congruence].
      destruct (nth_error es (i - 1)); [|discriminate].
      destruct (checked_add (fst e) (snd e)); [|discriminate].
      destruct (p <? n); congruence. }
    assert (Hidx : idx = i).
    { destruct (nth_error es i) as [nx|] eqn:En; [apply (Hnext nx eq_refl)|].
      apply nth_error_None in En.
      replace (Nat.ltb i (length es)) with false in H by (symmetry; apply Nat.ltb_ge; exact En).
      destruct (Nat.ltb 0 i && Nat.ltb (i - 1) (length es)); [|congruence].
      destruct (nth_error es (i - 1)); [|discriminate].
      destruct (checked_add (fst e) (snd e)); [|discriminate].
      destruct (p <? n); congruence. }
    subst idx.
    assert (Hprev : forall pv, (0 < i)%nat -> nth_error es (i - 1) = Some pv -> fst pv + snd pv <= p).
    { intros pv Hi0 Hpv.
      assert (Hrest : (if Nat.ltb 0 i && Nat.ltb (i - 1) (length es) then
            match nth_error es (i - 1) with
            | None => Panic
            | Some pv => match checked_add (fst pv) (snd pv) with
                | None => Panic
                | Some e => if p <? e then Ok ((i - 1)%nat, Some pv) else Ok (i, @None entry)
                end
            end else Ok (i, None)) = Ok (i, None)).
      { destruct (Nat.ltb i (length es)).
        - destruct (nth_error es i); [|discriminate].
          destruct (checked_add p s); [|discriminate].
          destruct (fst e <? n); [discriminate|exact H].
        - exact H. }
      replace (Nat.ltb 0 i) with true in Hrest by (symmetry; apply Nat.ltb_lt; exact Hi0).
      replace (Nat.ltb (i - 1) (length es)) with true in Hrest by (symmetry; apply Nat.ltb_lt; llia).
      cbn [andb] in Hrest. rewrite Hpv in Hrest.
      destruct (checked_add (fst pv) (snd pv)) as [e|] eqn:Ec; [|discriminate].
      apply checked_add_some in Ec. subst e.
      destruct (p <? fst pv + snd pv) eqn:El; [discriminate|]. llia. }
    split; [exact Hi|]. split.
    + intros a Ha. destruct (in_firstn_nth _ _ _ Ha) as (j & Hj & Ej). unfold before. cbn [fst snd].
      destruct (nth_error_some_lt es (i - 1)) as (pv & Epv); [llia|].
      pose proof (Hprev pv ltac:(llia) Epv) as Hp.
      destruct (Nat.eq_dec j (i - 1)) as [->|Hne].
      * rewrite Epv in Ej. inversion Ej; subst. exact Hp.
      * pose proof (ss_nth _ _ Hss j (i - 1)%nat a pv ltac:(llia) Ej Epv) as Hb. unfold before in Hb. llia.
    + intros b Hb. destruct (in_skipn_nth _ _ _ Hb) as (j & Hj & Ej). unfold before. cbn [fst snd].
      assert (Hl : (i < length es)%nat) by (assert (j < length es)%nat by (apply nth_error_Some; congruence); llia).
      destruct (nth_error_some_lt es i Hl) as (nx & Enx).
      destruct (Hnext nx Enx) as (Hn & _).
      destruct (Nat.eq_dec j i) as [->|Hne].
      * rewrite Enx in Ej. inversion Ej; subst. exact Hn.
      * pose proof (ss_nth _ _ Hss i j nx b ltac:(llia) Enx Ej) as Hb'. unfold before in Hb'. llia.
Qed.

(* ---------------------------------------------------------------- one accepted request *)
Lemma disjoint_sym a b : disjoint a b -> disjoint b a.
Proof. unfold disjoint. tauto. Qed.

Lemma step_pos search es p s es' :
  search_ok search -> inv es -> 0 < s ->
  check_and_insert_with search es p s = Ok es' ->
  inv es' /\ (forall e, In e es' <-> e = (p, s) \/ In e es) /\ (forall e, In e es -> disjoint e (p, s)).
Proof.
  intros Hsearch Hinv Hs H. unfold check_and_insert_with in H.
  replace (s =? 0) with false in H by llia. unfold check_and_insert_pinned_with in H.
  pose proof (Hsearch es p (inv_sorted_keys _ Hinv)) as Hr.
  destruct (check_overlap_at es p s (search es p)) as [[idx [ov|]]| |] eqn:Ec; try discriminate.
  destruct (overlap_at_spec _ _ _ _ _ Hinv Hr Hs Ec) as (Hidx & Hbef & Haft).
  unfold insert_at in H. replace (Nat.leb idx (length es)) with true in H by (symmetry; apply Nat.leb_le; exact Hidx).
  inversion H; subst es'. clear H.
  destruct Hinv as (Hpos & Hss).
  rewrite <- (firstn_skipn idx es) in Hpos, Hss.
  rewrite Forall_app in Hpos. destruct Hpos as (P1 & P2).
  apply ss_app in Hss. destruct Hss as (S1 & S2 & C).
  split; [split|split].
  - rewrite Forall_app. split; [exact P1|]. constructor; [cbn; llia | exact P2].
  - apply ss_app. split; [exact S1|]. split.
    + constructor; [exact S2|]. rewrite Forall_forall. exact Haft.
    + intros a b Ha [<-|Hb]; [apply Hbef; exact Ha | apply C; assumption].
  - intros e. rewrite in_app_iff. cbn [In]. rewrite <- (firstn_skipn idx es) at 3. rewrite in_app_iff.
    split; [intros [?|[?|?]] | intros [?|[?|?]]]; auto.
  - intros e He. rewrite <- (firstn_skipn idx es) in He. apply in_app_iff in He. destruct He as [He|He].
    + left. apply Hbef in He. exact He.
    + right. apply Haft in He. exact He.
Qed.

Lemma fold_stuck_err (step : list entry -> N -> N -> res (list entry)) ops :
  fold_left (fun acc op => match acc with Ok l => step l (fst op) (snd op) | Err => Err | Panic => Panic end)
            ops (@Err (list entry)) = Err.
Proof. induction ops; cbn; auto. Qed.
Lemma fold_stuck_panic (step : list entry -> N -> N -> res (list entry)) ops :
  fold_left (fun acc op => match acc with Ok l => step l (fst op) (snd op) | Err => Err | Panic => Panic end)
            ops (@Panic (list entry)) = Panic.
Proof. induction ops; cbn; auto. Qed.

Lemma run_cons step p s ops es0 es :
  run_with step ((p, s) :: ops) es0 = Ok es ->
  exists es1, step es0 p s = Ok es1 /\ run_with step ops es1 = Ok es.
Proof.
  unfold run_with. cbn [fold_left fst snd]. intros H.
  destruct (step es0 p s) as [es1| |] eqn:E.
  - exists es1. split; auto.
  - rewrite fold_stuck_err in H. discriminate.
  - rewrite fold_stuck_panic in H. discriminate.
Qed.

(* ---------------------------------------------------------------- any accepted sequence *)
Lemma run_inv search : search_ok search -> forall ops es0 es,
  inv es0 -> run_with (check_and_insert_with search) ops es0 = Ok es ->
  inv es /\
  (forall e, In e es0 -> In e es) /\
  (forall e, In e es -> In e es0 \/ (In e ops /\ 0 < snd e)) /\
  (forall i a, nth_error ops i = Some a -> 0 < snd a -> In a es) /\
  (forall i j a b, (i < j)%nat -> nth_error ops i = Some a -> nth_error ops j = Some b ->
      0 < snd a -> 0 < snd b -> disjoint a b) /\
  (forall e i b, In e es0 -> nth_error ops i = Some b -> 0 < snd b -> disjoint e b).
Proof.
  intros Hsearch ops. induction ops as [|[p s] ops IH]; intros es0 es Hinv H.
  - unfold run_with in H. cbn in H. inversion H; subst.
    split; [exact Hinv|]. split; [auto|]. split; [auto|]. split; [|split].
    + intros [|i] a Ha; discriminate.
    + intros [|i] j a b _ Ha; discriminate.
    + intros e [|i] b _ Hb; discriminate.
  - destruct (run_cons _ _ _ _ _ _ H) as (es1 & Hstep & Hrest).
    destruct (N.eq_dec s 0) as [Hz|Hnz].
    + (* zero-sized request: state unchanged *)
      unfold check_and_insert_with in Hstep. replace (s =? 0) with true in Hstep by llia.
      inversion Hstep; subst es1.
      destruct (IH _ _ Hinv Hrest) as (I1 & I2 & I3 & I4 & I5 & I6).
      split; [exact I1|]. split; [exact I2|]. split; [|split; [|split]].
      * intros e He. destruct (I3 e He) as [?|[? ?]]; [left|right; split; [right|]]; auto.
      * intros [|i] a Ha Hp; cbn in Ha; [inversion Ha; subst; cbn in Hp; llia | eapply I4; eauto].
      * intros [|i] [|j] a b Hlt Ha Hb Hpa Hpb; cbn in Ha, Hb; try llia.
        -- inversion Ha; subst. cbn in Hpa. llia.
        -- eapply (I5 i j); eauto. llia.
      * intros e [|i] b He Hb Hpb; cbn in Hb; [inversion Hb; subst; cbn in Hpb; llia | eapply I6; eauto].
    + assert (Hs : 0 < s) by llia.
      destruct (step_pos _ _ _ _ _ Hsearch Hinv Hs Hstep) as (J1 & J2 & J3).
      destruct (IH _ _ J1 Hrest) as (I1 & I2 & I3 & I4 & I5 & I6).
      split; [exact I1|]. split; [|split; [|split; [|split]]].
      * intros e He. apply I2, J2. right. exact He.
      * intros e He. destruct (I3 e He) as [He1|[? ?]].
        -- apply J2 in He1. destruct He1 as [->|?]; [right; split; [left; reflexivity | exact Hs] | left; assumption].
        -- right. split; [right|]; assumption.
      * intros [|i] a Ha Hp; cbn in Ha; [inversion Ha; subst; apply I2, J2; left; reflexivity | eapply I4; eauto].
      * intros [|i] [|j] a b Hlt Ha Hb Hpa Hpb; cbn in Ha, Hb; try llia.
        -- inversion Ha; subst. eapply (I6 (p, s) j b); eauto. apply J2. left. reflexivity.
        -- eapply (I5 i j); eauto. llia.
      * intros e [|i] b He Hb Hpb; cbn in Hb.
        -- inversion Hb; subst. apply J3. exact He.
        -- eapply (I6 e i b); eauto. apply J2. right. exact He.
Qed.

Theorem overlap_sound search : search_ok search -> forall ops es,
  run_with (check_and_insert_with search) ops [] = Ok es ->
  forall i j a b, i <> j -> nth_error ops i = Some a -> nth_error ops j = Some b ->
    0 < snd a -> 0 < snd b -> disjoint a b.
Proof.
  intros Hsearch ops es H i j a b Hne Ha Hb Hpa Hpb.
  destruct (run_inv _ Hsearch _ _ _ inv_nil H) as (_ & _ & _ & _ & I5 & _).
  destruct (Nat.lt_ge_cases i j) as [Hlt|Hge].
  - eapply (I5 i j); eauto.
  - apply disjoint_sym. eapply (I5 j i); eauto. llia.
Qed.

(* an accepted request shares no bit with an earlier positive-size request *)
Theorem overlap_complete search : search_ok search -> forall ops es p s,
  run_with (check_and_insert_with search) ops [] = Ok es -> 0 < s ->
  (exists i a, nth_error ops i = Some a /\ 0 < snd a /\ ~ disjoint a (p, s)) ->
  forall es', check_and_insert_with search es p s <> Ok es'.
Proof.
  intros Hsearch ops es p s H Hs (i & a & Ha & Hpa & Hnd) es' Hstep.
  destruct (run_inv _ Hsearch _ _ _ inv_nil H) as (I1 & _ & _ & I4 & _ & _).
  destruct (step_pos _ _ _ _ _ Hsearch I1 Hs Hstep) as (_ & _ & J3).
  apply Hnd, J3. eapply I4; eauto.
Qed.

(* ---------------------------------------------------------------- no panic when ends fit in usize *)
Definition fits (e : entry) : Prop := fst e + snd e <= usize_max.

Lemma checked_add_fits a b : a + b <= usize_max -> checked_add a b = Some (a + b).
Proof. intros H. unfold checked_add. replace (a + b <=? usize_max) with true by llia. reflexivity. Qed.

Lemma step_no_panic search es p s :
  search_ok search -> inv es -> Forall fits es -> fits (p, s) ->
  check_and_insert_with search es p s <> Panic.
Proof.
  intros Hsearch Hinv Hfit Hps. unfold check_and_insert_with. destruct (s =? 0); [discriminate|].
  unfold check_and_insert_pinned_with.
  pose proof (Hsearch es p (inv_sorted_keys _ Hinv)) as Hr.
  rewrite Forall_forall in Hfit. unfold fits in *. cbn [fst snd] in Hps.
  destruct (search es p) as [i|i]; cbn [check_overlap_at].
  - destruct Hr as (e & He & _). rewrite He.
    assert (Hl : (i < length es)%nat) by (apply nth_error_Some; congruence).
    destruct ((0 <? snd e) && (0 <? s)); [discriminate|].
    unfold insert_at. replace (Nat.leb (S i) (length es)) with true by (symmetry; apply Nat.leb_le; llia).
    discriminate.
  - destruct Hr as (Hi & _ & _).
    assert (Hins : insert_at i (p, s) es <> Panic).
    { unfold insert_at. replace (Nat.leb i (length es)) with true by (symmetry; apply Nat.leb_le; llia). discriminate. }
    assert (Hprevpart :
      match (if Nat.ltb 0 i && Nat.ltb (i - 1) (length es) then
            match nth_error es (i - 1) with
            | None => Panic
            | Some pv => match checked_add (fst pv) (snd pv) with
                | None => Panic
                | Some e => if p <? e then Ok ((i - 1)%nat, Some pv) else Ok (i, @None entry)
                end
            end else Ok (i, None)) with
      | Panic => Panic | Err => Err | Ok (_, Some _) => Err | Ok (idx, None) => insert_at idx (p, s) es end <> Panic).
    { destruct (Nat.ltb 0 i && Nat.ltb (i - 1) (length es)) eqn:Eb; [|exact Hins].
      apply andb_prop in Eb. destruct Eb as (_ & Eb). apply Nat.ltb_lt in Eb.
      destruct (nth_error_some_lt es (i - 1) Eb) as (pv & Epv). rewrite Epv.
      rewrite (checked_add_fits _ _ (Hfit pv (nth_error_In _ _ Epv))).
      destruct (p <? fst pv + snd pv); [discriminate|exact Hins]. }
    destruct (Nat.ltb i (length es)) eqn:El; [|exact Hprevpart].
    apply Nat.ltb_lt in El. destruct (nth_error_some_lt es i El) as (nx & Enx). rewrite Enx.
    rewrite (checked_add_fits _ _ Hps).
    destruct (fst nx <? p + s); [discriminate|exact Hprevpart].
Qed.

Theorem overlap_complete_err search : search_ok search -> forall ops es p s,
  run_with (check_and_insert_with search) ops [] = Ok es -> 0 < s ->
  Forall fits ops -> fits (p, s) ->
  (exists i a, nth_error ops i = Some a /\ 0 < snd a /\ ~ disjoint a (p, s)) ->
  check_and_insert_with search es p s = Err.
Proof.
  intros Hsearch ops es p s H Hs Hfo Hfp Hex.
  pose proof (overlap_complete _ Hsearch _ _ _ _ H Hs Hex) as Hno.
  destruct (run_inv _ Hsearch _ _ _ inv_nil H) as (I1 & _ & I3 & _).
  assert (Hfe : Forall fits es).
  { rewrite Forall_forall in *. intros e He. destruct (I3 e He) as [[]|[Hin _]]. auto. }
  pose proof (step_no_panic _ _ _ _ Hsearch I1 Hfe Hfp) as Hnp.
  destruct (check_and_insert_with search es p s) as [es'| |]; [exfalso; eapply Hno; eauto | reflexivity | congruence].
Qed.

(* disjoint means: no common bit *)
Lemma disjoint_no_common_bit a b : 0 < snd a -> 0 < snd b ->
  (disjoint a b <-> forall k, ~ (covers a k /\ covers b k)).
Proof.
  unfold disjoint, covers. intros Ha Hb. split.
  - intros H k. llia.
  - intros H. destruct (N.le_gt_cases (fst a) (fst b)) as [Hle|Hgt].
    + pose proof (H (fst b)). llia.
    + pose proof (H (fst a)). llia.
Qed.

(* ---------------------------------------------------------------- the concrete searches meet the contract *)
Lemma lsearch_from_spec es p k :
  (forall i j a b, (i < j)%nat -> nth_error es i = Some a -> nth_error es j = Some b -> fst a <= fst b) ->
  match lsearch_from es p k with
  | Found i => (k <= i)%nat /\ exists e, nth_error es (i - k) = Some e /\ fst e = p
  | Missing i => (k <= i)%nat /\ (i - k <= length es)%nat /\
                 (forall j e, (j < i - k)%nat -> nth_error es j = Some e -> fst e < p) /\
                 (forall j e, (i - k <= j)%nat -> nth_error es j = Some e -> p < fst e)
  end.
Proof.
  revert k. induction es as [|x es IH]; intros k Hs; cbn [lsearch_from].
  - split; [llia|]. split; [cbn; llia|]. split; intros j e ? Hj; destruct j; discriminate.
  - assert (Hs' : forall i j a b, (i < j)%nat -> nth_error es i = Some a -> nth_error es j = Some b -> fst a <= fst b).
    { intros i j a b Hlt Ha Hb. apply (Hs (S i) (S j) a b); auto. llia. }
    assert (Hx : forall j e, nth_error es j = Some e -> fst x <= fst e).
    { intros j e He. apply (Hs 0%nat (S j) x e); auto. llia. }
    specialize (IH (S k) Hs').
    destruct (fst x <? p) eqn:E1.
    + destruct (lsearch_from es p (S k)) as [i|i].
      * destruct IH as (Hk & e & He & Hp). split; [llia|]. exists e. split; [|exact Hp].
        replace (i - k)%nat with (S (i - S k)) by llia. exact He.
      * destruct IH as (Hk & Hl & Hlo & Hhi). split; [llia|]. split; [cbn; llia|]. split.
        -- intros [|j] e Hj He; cbn in He; [inversion He; subst; llia | apply (Hlo j); [llia|exact He]].
        -- intros [|j] e Hj He; [llia|]. cbn in He. apply (Hhi j); [llia|exact He].
    + destruct (fst x =? p) eqn:E2.
      * destruct (lsearch_from es p (S k)) as [i|i].
        -- destruct IH as (Hk & e & He & Hp). split; [llia|]. exists e. split; [|exact Hp].
           replace (i - k)%nat with (S (i - S k)) by llia. exact He.
        -- split; [llia|]. exists x. split; [|llia]. replace (k - k)%nat with 0%nat by llia. reflexivity.
      * split; [llia|]. replace (k - k)%nat with 0%nat by llia. split; [llia|]. split; [intros; llia|].
        intros [|j] e _ He; cbn in He; [inversion He; subst; llia | pose proof (Hx j e He); llia].
Qed.

Theorem lsearch_ok : search_ok lsearch.
Proof.
  intros es p Hs. unfold lsearch. pose proof (lsearch_from_spec es p 0 Hs) as H.
  destruct (lsearch_from es p 0) as [i|i]; cbn [search_result_ok].
  - destruct H as (_ & e & He & Hp). rewrite Nat.sub_0_r in He. eauto.
  - destruct H as (_ & Hl & Hlo & Hhi). rewrite Nat.sub_0_r in *. auto.
Qed.

(* the std loop: base + size <= len, the key at base is <= p unless base = 0, keys from base+size on are > p *)
Lemma bsearch_loop_spec es p : sorted_keys es -> forall fuel base size,
  (1 <= size)%nat -> (size <= fuel)%nat -> (base + size <= length es)%nat ->
  (base = 0%nat \/ exists e, nth_error es base = Some e /\ fst e <= p) ->
  (forall j e, (base + size <= j)%nat -> nth_error es j = Some e -> p < fst e) ->
  exists b, bsearch_loop fuel es p base size = Some b /\ (b < length es)%nat /\
    (b = 0%nat \/ exists e, nth_error es b = Some e /\ fst e <= p) /\
    (forall j e, (b + 1 <= j)%nat -> nth_error es j = Some e -> p < fst e).
Proof.
  intros Hs fuel. induction fuel as [|fuel IH]; intros base size H1 Hf Hb Hlow Hhigh.
  - llia.
  - cbn [bsearch_loop]. destruct (Nat.leb size 1) eqn:E1.
    + apply Nat.leb_le in E1. assert (size = 1%nat) by llia. subst size.
      exists base. split; [reflexivity|]. split; [llia|]. split; [exact Hlow|exact Hhigh].
    + apply Nat.leb_gt in E1.
      assert (Hhalf : (1 <= Nat.div2 size /\ 2 * Nat.div2 size <= size)%nat).
      { rewrite Nat.div2_div. pose proof (Nat.mul_div_le size 2 ltac:(llia)).
        assert (1 <= size / 2)%nat by (apply Nat.div_le_lower_bound; llia). llia. }
      set (half := Nat.div2 size) in *.
      destruct (nth_error_some_lt es (base + half)) as (e & Ee); [llia|]. rewrite Ee.
      destruct (p <? fst e) eqn:Ep.
      * apply IH; try llia; auto.
        intros j e' Hj He'.
        destruct (Nat.eq_dec j (base + half)) as [->|Hne].
        -- rewrite Ee in He'. inversion He'; subst. llia.
        -- pose proof (Hs (base + half)%nat j e e' ltac:(llia) Ee He'). llia.
      * apply IH; try llia.
        -- right. exists e. split; [exact Ee|llia].
        -- intros j e' Hj He'. apply (Hhigh j e'); [llia|exact He'].
Qed.

Theorem bsearch_ok : search_ok bsearch.
Proof.
  intros es p Hs. unfold bsearch. destruct es as [|x es'] eqn:Ees.
  - cbn. split; [llia|]. split; intros j e ? Hj; destruct j; discriminate.
  - rewrite <- Ees in *. assert (Hlen : (1 <= length es)%nat) by (subst es; cbn; llia).
    destruct (bsearch_loop_spec es p Hs (length es) 0 (length es)) as (b & Eb & Hbl & Hlow & Hhigh);
      try llia; auto.
    { intros j e Hj He. assert (j < length es)%nat by (apply nth_error_Some; congruence). llia. }
    rewrite Eb. destruct (nth_error_some_lt es b Hbl) as (e & Ee). rewrite Ee.
    destruct (fst e =? p) eqn:E1; [cbn; exists e; split; [exact Ee|llia]|].
    destruct (fst e <? p) eqn:E2; cbn [search_result_ok].
    + split; [llia|]. split.
      * intros j e' Hj He'. destruct (Nat.eq_dec j b) as [->|Hne].
        -- rewrite Ee in He'. inversion He'; subst. llia.
        -- pose proof (Hs j b e' e ltac:(llia) He' Ee). llia.
      * intros j e' Hj He'. apply (Hhigh j e'); [llia|exact He'].
    + destruct Hlow as [->|(e0 & Ee0 & Hle)].
      * split; [llia|]. split; [intros; llia|].
        intros j e' _ He'. destruct (Nat.eq_dec j 0) as [->|Hne].
        -- rewrite Ee in He'. inversion He'; subst. llia.
        -- pose proof (Hs 0%nat j e e' ltac:(llia) Ee He'). llia.
      * rewrite Ee in Ee0. inversion Ee0; subst. llia.
Qed.

(* ---------------------------------------------------------------- executable disjointness *)
Lemma disjointb_iff a b : disjointb a b = true <-> disjoint a b.
Proof. unfold disjointb, disjoint. llia. Qed.

Lemma all_disjoint_from_spec a l : all_disjoint_from a l = true <->
  forall b, In b l -> 0 < snd b -> disjoint a b.
Proof.
  induction l as [|x l IH]; cbn [all_disjoint_from].
  - split; [intros _ b [] | reflexivity].
  - rewrite andb_true_iff, IH, orb_true_iff, disjointb_iff. split.
    + intros (H1 & H2) b [<-|Hb] Hp; [destruct H1; [llia|assumption] | auto].
    + intros H. split.
      * destruct (N.eq_dec (snd x) 0); [left; llia | right; apply H; [left; reflexivity | llia]].
      * intros b Hb. apply H. right. exact Hb.
Qed.

Lemma pairwise_disjointb_spec l : pairwise_disjointb l = true <->
  forall i j a b, (i < j)%nat -> nth_error l i = Some a -> nth_error l j = Some b ->
    0 < snd a -> 0 < snd b -> disjoint a b.
Proof.
  induction l as [|x l IH]; cbn [pairwise_disjointb].
  - split; [intros _ i j a b _ Hi; destruct i; discriminate | reflexivity].
  - rewrite andb_true_iff, IH, orb_true_iff, all_disjoint_from_spec. split.
    + intros (H1 & H2) [|i] [|j] a b Hlt Ha Hb Hpa Hpb; cbn in Ha, Hb; try llia.
      * inversion Ha; subst. destruct H1 as [H1|H1]; [llia|]. apply H1; [eapply nth_error_In; eauto | exact Hpb].
      * apply (H2 i j); auto. llia.
    + intros H. split.
      * destruct (N.eq_dec (snd x) 0); [left; llia | right].
        intros b Hb Hpb. destruct (In_nth_error _ _ Hb) as (j & Ej).
        apply (H 0%nat (S j) x b); auto; llia.
      * intros i j a b Hlt Ha Hb. apply (H (S i) (S j)); auto. llia.
Qed.

(* ---------------------------------------------------------------- the pinned algorithm (F19) *)
(* with the toolchain's binary search: the witness of DESIGN.md section 7 *)
Lemma pinned_accepts_F19 :
  run_pinned [(0, 8); (0, 0); (0, 8)] = Ok [(0, 8); (0, 0); (0, 8)] /\ ~ disjoint (0, 8) (0, 8).
Proof. split; [vm_compute; reflexivity | unfold disjoint; cbn; llia]. Qed.

Lemma repaired_rejects_F19 : forall search, search_ok search ->
  run_with (check_and_insert_with search) [(0, 8); (0, 0); (0, 8)] [] <> Ok [(0, 8); (0, 0); (0, 8)] /\
  forall es, run_with (check_and_insert_with search) [(0, 8); (0, 0); (0, 8)] [] <> Ok es.
Proof.
  intros search Hs.
  assert (G : forall es, run_with (check_and_insert_with search) [(0, 8); (0, 0); (0, 8)] [] <> Ok es).
  { intros es H.
    pose proof (overlap_sound _ Hs _ _ H 0%nat 2%nat (0, 8) (0, 8) ltac:(discriminate) eq_refl eq_refl) as D.
    cbn [snd] in D. specialize (D ltac:(llia) ltac:(llia)). unfold disjoint in D. cbn in D. llia. }
  split; [apply G | exact G].
Qed.

(* whatever index the binary search reports among equal keys, the pinned algorithm accepts two
   requests sharing 8 bits once a zero-sized entry sits between them *)
Lemma sorted_keys_small (l : list entry) :
  (forall i j a b, (i < j)%nat -> nth_error l i = Some a -> nth_error l j = Some b -> fst a <= fst b) ->
  sorted_keys l.
Proof. intros H. exact H. Qed.

Lemma pinned_accepts_any_search : forall search, search_ok search ->
  run_with (check_and_insert_pinned_with search) [(0, 16); (0, 0); (8, 8)] [] = Ok [(0, 16); (0, 0); (8, 8)] /\
  ~ disjoint (0, 16) (8, 8).
Proof.
  intros search Hs. split; [|unfold disjoint; cbn; llia].
  (* step 1 *)
  assert (S1 : check_and_insert_pinned_with search [] 0 16 = Ok [(0, 16)]).
  { assert (K : sorted_keys []) by (intros i j a b _ Hi; destruct i; discriminate).
    pose proof (Hs [] 0 K) as R. unfold check_and_insert_pinned_with.
    destruct (search [] 0) as [i|i]; cbn [search_result_ok] in R.
    - destruct R as (e & He & _). destruct i; discriminate.
    - destruct R as (Hi & _). cbn in Hi. assert (i = 0%nat) by llia. subst i. reflexivity. }
  (* step 2 *)
  assert (S2 : check_and_insert_pinned_with search [(0, 16)] 0 0 = Ok [(0, 16); (0, 0)]).
  { assert (K : sorted_keys [(0, 16)]).
    { intros i j a b Hlt Hi Hj. destruct j as [|[|j]]; cbn in Hj; try discriminate. exfalso; llia. }
    pose proof (Hs [(0, 16)] 0 K) as R. unfold check_and_insert_pinned_with.
    destruct (search [(0, 16)] 0) as [i|i]; cbn [search_result_ok] in R.
    - destruct R as (e & He & _). destruct i as [|[|i]]; cbn in He; try discriminate. reflexivity.
    - exfalso. destruct R as (Hi & Hlo & Hhi). cbn in Hi. destruct i as [|i].
      + specialize (Hhi 0%nat (0, 16) ltac:(llia) eq_refl). cbn in Hhi. llia.
      + specialize (Hlo 0%nat (0, 16) ltac:(llia) eq_refl). cbn in Hlo. llia. }
  (* step 3 *)
  assert (S3 : check_and_insert_pinned_with search [(0, 16); (0, 0)] 8 8 = Ok [(0, 16); (0, 0); (8, 8)]).
  { assert (K : sorted_keys [(0, 16); (0, 0)]).
    { intros i j a b Hlt Hi Hj. destruct i as [|[|i]]; cbn in Hi; try (destruct i; discriminate);
      destruct j as [|[|j]]; cbn in Hj; try (destruct j; discriminate);
      inversion Hi; inversion Hj; subst; cbn; llia. }
    pose proof (Hs [(0, 16); (0, 0)] 8 K) as R. unfold check_and_insert_pinned_with.
    destruct (search [(0, 16); (0, 0)] 8) as [i|i]; cbn [search_result_ok] in R.
    - exfalso. destruct R as (e & He & Hk). destruct i as [|[|i]]; cbn in He; try (destruct i; discriminate);
        inversion He; subst; cbn in Hk; llia.
    - destruct R as (Hi & Hlo & Hhi). cbn in Hi. destruct i as [|[|[|i]]]; try (exfalso; llia).
      + specialize (Hhi 0%nat (0, 16) ltac:(llia) eq_refl). cbn in Hhi. exfalso; llia.
      + specialize (Hhi 1%nat (0, 0) ltac:(llia) eq_refl). cbn in Hhi. exfalso; llia.
      + reflexivity. }
  unfold run_with. cbn [fold_left fst snd]. rewrite S1. cbn [fold_left fst snd]. rewrite S2. exact S3.
Qed.
