(* Soundness of the executable certificate check of Spec/Certificate2.v: when cert_check2 accepts a claimed result
   (symbol values, bank definitions, bits) there IS a resolver state carrying the claimed symbol values that is
   certified in the sense of theorem certificate2 (a strict pass from it changes nothing and reports everything
   resolved) and whose output, through Model/Output.v, is exactly the claimed bit string. *)
From Coq Require Import NArith ZArith List Bool Lia.
From CA Require Import Model.Lexer Model.Parser Model.Literal Model.BigIntOps Model.Evaluator Model.Matcher Model.Resolver
  Model.Resolver2 Spec.Certificate2 Proofs.ResolverFixP Proofs.Resolver2FixP.
From CA Require Model.Paths Model.Overlap Model.Cursor Model.LastPass Model.Output Model.Symbols.
Import ListNotations.
Open Scope Z_scope.

Lemma bools_eqb_eq : forall a b, bools_eqb a b = true -> a = b.
Proof.
  induction a as [|x a IH]; intros [|y b] H; cbn in H; try discriminate; [reflexivity|].
  apply andb_prop in H. destruct H as [H1 H2]. apply Bool.eqb_prop in H1. subst. f_equal. auto.
Qed.

Lemma reconstruct2_syms m banks defs mb out : forall ns st c prev,
  s_sym (reconstruct2 m banks defs mb ns st out c prev) = s_sym st.
Proof.
  induction ns as [|[n ctx] ns IH]; intros st c prev; cbn [reconstruct2]; [reflexivity|].
  destruct (Cursor.advance mb banks c prev) as [c1| |]; try reflexivity.
  destruct (Cursor.enter mb banks c1 (shape n)) as [c2| |]; try reflexivity.
  destruct (Cursor.cur_bank banks c2) as [[b pos]| |]; try reflexivity.
  cbv zeta. rewrite IH.
  destruct n; try reflexivity. destruct (nth_error (s_instr st) i); reflexivity.
Qed.

Lemma labels_unsized_ok ns st : labels_unsized ns (s_sym st) = true -> labels_ok2 ns st.
Proof.
  unfold labels_unsized. intros H s d0 ctx Hin. rewrite forallb_forall in H. specialize (H _ Hin). cbn [fst] in H.
  destruct (nth s (s_sym st) VUnknown) as [| | |b| | |]; try discriminate.
  destruct b as [v [sz|]]; cbn in H; [discriminate|]. right. exists v. reflexivity.
Qed.

Theorem cert_check2_sound indexed defs ps claimed banks out :
  cert_check2 indexed defs ps claimed banks out = true ->
  exists m ns st vs items,
    prepare ps = Some (m, ns) /\
    s_sym st = map (fun d => lookup_claim claimed (Symbols.sd_name d)) (Symbols.m_decls m) /\
    Certified2 m banks defs max_bits ns st /\
    out_nodes st ns = Ok vs /\
    Output.output_stage (Z.to_N max_bits) banks vs = Ok (out, items).
Proof.
  unfold cert_check2. intro H.
  destruct (prepare ps) as [[m ns]|]; [|discriminate].
  destruct (init_state2 indexed defs (length (Symbols.m_decls m)) ns) as [st0|]; [|discriminate].
  cbv zeta in H.
  match type of H with match ?x with EOk _ => _ | EErr => _ end = _ => destruct x as [bs|]; [|discriminate] end.
  match type of H with (if negb ?c then _ else _) = _ => destruct c; cbn [negb] in H; [|discriminate] end.
  match type of H with (if negb ?c then _ else _) = _ => destruct c eqn:Hlab; cbn [negb] in H; [|discriminate] end.
  match type of H with match run_pass _ _ _ _ _ _ ?s with _ => _ end = _ => set (st := s) in * end.
  destruct (run_pass m banks defs max_bits true ns st) as [[st' r]| |] eqn:P; try discriminate.
  destruct r; [|discriminate].
  destruct (out_nodes st ns) as [vs| |] eqn:O; try discriminate.
  destruct (Output.output_stage (Z.to_N max_bits) banks vs) as [[bits items]| |] eqn:B; try discriminate.
  apply bools_eqb_eq in H. subst bits.
  assert (Hs : s_sym st = map (fun d => lookup_claim claimed (Symbols.sd_name d)) (Symbols.m_decls m)).
  { unfold st. rewrite reconstruct2_syms. reflexivity. }
  assert (Hl : labels_ok2 ns st) by (apply labels_unsized_ok; rewrite Hs; exact Hlab).
  assert (st' = st) by (eapply pass2_fix; eauto). subst st'.
  exists m, ns, st, vs, items. auto 10.
Qed.
