(* C11 round-trip theorems, part 1: binary, bit/hex strings, Logisim, separated values, C arrays. *)
From Coq Require Import Ascii String ZArith NArith List Bool Lia ZifyBool Arith.
From CA Require Import Model.Formats Spec.Decoders Proofs.FmtBase.
Import ListNotations.
Open Scope N_scope.
Ltac Zify.zify_post_hook ::= Z.div_mod_to_equations.

Lemma vals_in_bound k bs v : (0 < k)%nat -> In v (vals k bs) -> v < 2 ^ N.of_nat k.
Proof. intros Hk Hin. pose proof (vals_bound k bs Hk) as F. rewrite Forall_forall in F. now apply F. Qed.

(* ------------------------------------------------------------------ binary *)
Theorem binary_roundtrip bs : decode_binary (format_binary bs) = Some (pad 8 bs).
Proof.
  unfold decode_binary, format_binary. fold (vals 8 bs). rewrite map_opt_id.
  - cbn [bind]. now rewrite vals_pad by lia.
  - intros x Hx. apply below_ok. exact (vals_in_bound 8 bs x ltac:(lia) Hx).
Qed.

(* ------------------------------------------------------------------ binstr / hexstr *)
Lemma str_roundtrip k bs : (0 < k <= 4)%nat -> decode_str k (format_str k bs) = Some (pad k bs).
Proof.
  intro Hk. unfold decode_str, format_str.
  rewrite <- (map_map snd (digit_char false)). fold (vals k bs).
  rewrite (map_opt_map _ (digit_char false) (fun v => v)).
  - rewrite map_id. cbn [bind]. now rewrite vals_pad by lia.
  - intros v Hv. pose proof (vals_in_bound k bs v ltac:(lia) Hv) as Hb.
    assert (2 ^ N.of_nat k <= 16) as H16.
    { change 16 with (2 ^ 4). apply N.pow_le_mono_r; lia. }
    rewrite hex_val_digit_char by lia. cbn [bind]. now apply below_ok.
Qed.

Theorem binstr_roundtrip bs : decode_binstr (format_binstr bs) = Some (pad 1 bs).
Proof. apply str_roundtrip. lia. Qed.
Theorem hexstr_roundtrip bs : decode_hexstr (format_hexstr bs) = Some (pad 4 bs).
Proof. apply str_roundtrip. lia. Qed.

(* ------------------------------------------------------------------ facts about the white-space class *)
Lemma ws_clean_hex : clean is_ws hexchars. Proof. reflexivity. Qed.
Lemma comma_clean_hex : clean (N.eqb 44) hexchars. Proof. reflexivity. Qed.

Lemma clean_48 p : clean p hexchars -> p 48 = false.
Proof. unfold clean. cbn [hexchars forallb]. intro H. apply andb_true_iff in H. destruct H as [H _]. now apply negb_true_iff. Qed.

Lemma hexpad_clean p w u n : clean p hexchars -> clean p (pad_left 48 w (fmt_num 16 u n)).
Proof. intro H. apply clean_pad_left; [now apply clean_48|apply clean_fmt_num; [lia|exact H]]. Qed.

Lemma hexpad_nonempty w u n : pad_left 48 w (fmt_num 16 u n) <> [].
Proof. apply pad_left_nonempty, fmt_num_nonempty. lia. Qed.

(* ------------------------------------------------------------------ logisim *)
Lemma logisim_tokens k vs : forall idx,
  tokens is_ws (concat (map (render_logisim_item k) (number_from idx (N.of_nat k) vs)))
  = map (fun v => pad_left 48 (Nat.div k 4) (hex_lower v)) vs.
Proof.
  induction vs as [|v r IH]; intro idx; [reflexivity|].
  cbn [number_from map concat]. unfold render_logisim_item at 1. cbn [fst snd].
  rewrite <- !app_assoc. cbn [app].
  rewrite tokens_app; [|apply hexpad_nonempty|apply hexpad_clean, ws_clean_hex|reflexivity].
  f_equal. destruct (_ =? 0); cbn [app]; [rewrite tokens_sep by reflexivity|]; apply IH.
Qed.

Lemma logisim_roundtrip k bs : (0 < k)%nat ->
  decode_logisim k (format_logisim k bs) = Some (pad k bs).
Proof.
  intro Hk. unfold decode_logisim, format_logisim.
  rewrite strip_prefix_app. cbn [bind app].
  rewrite chunks_numbered by exact Hk. rewrite logisim_tokens.
  rewrite (map_opt_map _ _ (fun v => v)).
  - rewrite map_id. cbn [bind]. now rewrite vals_pad.
  - intros v Hv. unfold hex_lower. rewrite parse_hex_fmt. cbn [bind]. apply below_ok.
    exact (vals_in_bound k bs v Hk Hv).
Qed.

Theorem logisim8_roundtrip bs : decode_logisim 8 (format_logisim8 bs) = Some (pad 8 bs).
Proof. apply logisim_roundtrip. lia. Qed.
Theorem logisim16_roundtrip bs : decode_logisim 16 (format_logisim16 bs) = Some (pad 16 bs).
Proof. apply logisim_roundtrip. lia. Qed.

(* ------------------------------------------------------------------ one rendered byte *)
Definition hexflag (r : radix) : bool := match r with Dec => false | Hex => true end.

Lemma render_byte_clean p r v : clean p hexchars -> p 120 = false -> clean p (render_byte r v).
Proof.
  intros H Hx. destruct r; cbn [render_byte].
  - apply clean_fmt_num; [lia|exact H].
  - cbn [app]. apply clean_cons; [now apply clean_48|]. apply clean_cons; [exact Hx|]. now apply hexpad_clean.
Qed.

Lemma render_byte_nonempty r v : render_byte r v <> [].
Proof. destruct r; cbn [render_byte]; [apply fmt_num_nonempty; lia|cbn [app]; congruence]. Qed.

Lemma parse_byte_render r v : v < 256 -> parse_byte (hexflag r) (render_byte r v) = Some v.
Proof.
  intro Hv. destruct r; cbn [hexflag render_byte parse_byte].
  - unfold parse_byte. rewrite parse_dec_fmt. cbn [bind]. now apply below_ok.
  - rewrite strip_prefix_app. cbn [bind]. unfold hex02x, hex_lower. rewrite parse_hex_fmt. cbn [bind].
    now apply below_ok.
Qed.

(* the first character of a rendered byte is a decimal digit *)
Lemma render_byte_first r v : exists c t, render_byte r v = c :: t /\ 48 <= c <= 57.
Proof.
  destruct r; cbn [render_byte].
  - unfold dec, fmt_num. destruct (digits_spec 10 v ltac:(lia)) as (_ & F & NE).
    destruct (digits 10 v) as [|d ds]; [congruence|]. cbn [map]. eexists _, _. split; [reflexivity|].
    inversion F; subst. unfold digit_char. destruct (N.ltb_spec d 10); lia.
  - cbn [app]. eexists _, _. split; [reflexivity|lia].
Qed.

(* ------------------------------------------------------------------ white-space separated *)
Lemma space_tokens r len vs : forall idx,
  len <= idx + 8 * N.of_nat (length vs) -> idx + 8 * N.of_nat (length vs) < len + 8 ->
  tokens is_ws (concat (map (render_sep_item r [32] len) (number_from idx 8 vs))) = map (render_byte r) vs.
Proof.
  induction vs as [|v t IH]; intros idx H1 H2; [reflexivity|].
  cbn [number_from map concat]. unfold render_sep_item at 1. cbn [fst snd].
  cbn [length] in H1, H2. rewrite Nat2N.inj_succ in H1, H2.
  destruct t as [|v2 t].
  - destruct (N.ltb_spec (idx + 8) len); [cbn [length] in *; lia|].
    cbn [number_from map concat]. rewrite !app_nil_r.
    apply tokens_one; [apply render_byte_nonempty|apply render_byte_clean; reflexivity].
  - destruct (N.ltb_spec (idx + 8) len); [|cbn [length] in *; lia].
    rewrite <- !app_assoc. cbn [app].
    rewrite tokens_app; [|apply render_byte_nonempty|apply render_byte_clean; reflexivity|reflexivity].
    f_equal. destruct (_ =? 0); cbn [app]; [rewrite tokens_sep by reflexivity|]; (apply IH; lia).
Qed.

Lemma blen_bounds bs : blen bs <= 0 + 8 * N.of_nat (length (vals 8 bs))
                       /\ 0 + 8 * N.of_nat (length (vals 8 bs)) < blen bs + 8.
Proof. pose proof (vals_count 8 bs ltac:(lia)). unfold blen. lia. Qed.

Lemma space_roundtrip r bs :
  decode_space (hexflag r) (format_separator r [32] bs) = Some (pad 8 bs).
Proof.
  unfold decode_space, format_separator. rewrite chunks_numbered by lia.
  destruct (blen_bounds bs) as [B1 B2].
  change (N.of_nat 8) with 8. rewrite space_tokens by assumption.
  rewrite (map_opt_map _ _ (fun v => v)).
  - rewrite map_id. cbn [bind]. now rewrite vals_pad by lia.
  - intros v Hv. apply parse_byte_render. apply (vals_in_bound 8 bs v ltac:(lia) Hv).
Qed.

Theorem decspace_roundtrip bs : decode_space false (format_decspace bs) = Some (pad 8 bs).
Proof. apply (space_roundtrip Dec). Qed.
Theorem hexspace_roundtrip bs : decode_space true (format_hexspace bs) = Some (pad 8 bs).
Proof. apply (space_roundtrip Hex). Qed.

(* ------------------------------------------------------------------ comma separated *)
Lemma one_token_pre pre tok : forallb is_ws pre = true -> tok <> [] -> clean is_ws tok ->
  one_token (pre ++ tok) = Some tok.
Proof. intros. unfold one_token. rewrite tokens_seps by assumption. now rewrite tokens_one. Qed.

Lemma comma_fields r len vs : forall idx pre,
  vs <> [] -> forallb is_ws pre = true -> clean (N.eqb 44) pre ->
  Forall (fun v => v < 256) vs ->
  len <= idx + 8 * N.of_nat (length vs) -> idx + 8 * N.of_nat (length vs) < len + 8 ->
  map_opt (fun f => bind (one_token f) (parse_byte (hexflag r)))
          (split_on 44 (pre ++ concat (map (render_sep_item r [44; 32] len) (number_from idx 8 vs))))
  = Some vs.
Proof.
  induction vs as [|v t IH]; intros idx pre NE Hpre Hpc F H1 H2; [congruence|].
  cbn [number_from map concat]. unfold render_sep_item at 1. cbn [fst snd].
  cbn [length] in H1, H2. rewrite Nat2N.inj_succ in H1, H2.
  inversion F as [|? ? Hv Ft]; subst.
  assert (clean (N.eqb 44) (render_byte r v)) as Hc by (apply render_byte_clean; reflexivity).
  assert (clean is_ws (render_byte r v)) as Hw by (apply render_byte_clean; reflexivity).
  destruct t as [|v2 t].
  - destruct (N.ltb_spec (idx + 8) len); [cbn [length] in *; lia|].
    cbn [number_from map concat]. rewrite !app_nil_r.
    unfold split_on. rewrite split_by_clean by (apply clean_app; assumption).
    cbn [map_opt]. rewrite one_token_pre by (try assumption; apply render_byte_nonempty).
    cbn [bind]. now rewrite parse_byte_render.
  - destruct (N.ltb_spec (idx + 8) len); [|cbn [length] in *; lia].
    rewrite <- !app_assoc. cbn [app]. rewrite app_assoc.
    unfold split_on. rewrite split_by_app; [|apply clean_app; assumption|reflexivity].
    cbn [map_opt]. rewrite one_token_pre by (try assumption; apply render_byte_nonempty).
    cbn [bind]. rewrite parse_byte_render by exact Hv.
    fold (split_on 44).
    match goal with |- context [split_on 44 (32 :: ?a ++ ?b)] =>
      change (32 :: a ++ b) with ((32 :: a) ++ b);
      rewrite (IH (idx + 8) (32 :: a)); [reflexivity|congruence| | |exact Ft|lia|lia]
    end; destruct (_ =? 0); reflexivity.
Qed.

Lemma comma_roundtrip r bs :
  decode_comma (hexflag r) (format_separator r [44; 32] bs) = Some (pad 8 bs).
Proof.
  unfold decode_comma, format_separator. rewrite chunks_numbered by lia. change (N.of_nat 8) with 8.
  destruct (blen_bounds bs) as [B1 B2].
  pose proof (vals_pad 8 bs ltac:(lia)) as VP. pose proof (vals_bound 8 bs ltac:(lia)) as VB.
  destruct (vals 8 bs) as [|v t] eqn:E.
  - cbn. unfold bits_of_vals in VP. cbn in VP. now rewrite <- VP.
  - assert (forallb is_ws (concat (map (render_sep_item r [44; 32] (blen bs)) (number_from 0 8 (v :: t)))) = false) as NB.
    { cbn [number_from map concat]. unfold render_sep_item at 1. cbn [fst snd].
      destruct (render_byte_first r v) as (c & tl & Ec & Hc). rewrite Ec. cbn [app forallb].
      unfold is_ws. replace (c =? 32) with false by (symmetry; apply N.eqb_neq; lia).
      replace (c =? 10) with false by (symmetry; apply N.eqb_neq; lia).
      replace (c =? 9) with false by (symmetry; apply N.eqb_neq; lia).
      replace (c =? 13) with false by (symmetry; apply N.eqb_neq; lia). reflexivity. }
    rewrite NB.
    rewrite <- (app_nil_l (concat _)).
    rewrite comma_fields; [|congruence|reflexivity|reflexivity|exact VB|exact B1|exact B2].
    cbn [bind]. now rewrite VP.
Qed.

Theorem deccomma_roundtrip bs : decode_comma false (format_deccomma bs) = Some (pad 8 bs).
Proof. apply (comma_roundtrip Dec). Qed.
Theorem hexcomma_roundtrip bs : decode_comma true (format_hexcomma bs) = Some (pad 8 bs).
Proof. apply (comma_roundtrip Hex). Qed.

(* ------------------------------------------------------------------ C arrays *)
Lemma text_eqb_first c t c' t' : c <> c' -> text_eqb (c :: t) (c' :: t') = false.
Proof. intro H. cbn [text_eqb]. apply N.eqb_neq in H. now rewrite H. Qed.

Lemma comment_tokens w a rest :
  tokens is_ws (c_comment w a ++ rest)
  = [47; 42] :: (48 :: 120 :: pad_left 48 w (hex_lower a)) :: [42; 47] :: tokens is_ws rest.
Proof.
  unfold c_comment. rewrite <- !app_assoc. cbn [app].
  change (47 :: 42 :: 32 :: ?x) with ([47; 42] ++ 32 :: x).
  rewrite (tokens_app is_ws [47; 42] 32) by (reflexivity || congruence). f_equal.
  change (48 :: 120 :: ?x ++ ?y) with ((48 :: 120 :: x) ++ y).
  rewrite tokens_app; [|congruence| |reflexivity].
  - reflexivity.
  - apply clean_cons; [reflexivity|]. apply clean_cons; [reflexivity|]. apply hexpad_clean, ws_clean_hex.
Qed.

Lemma c_items_comment hx w a rest count need :
  a = count ->
  c_items hx ([47; 42] :: (48 :: 120 :: pad_left 48 w (hex_lower a)) :: [42; 47] :: rest) count need
  = c_items hx rest count need.
Proof.
  intros ->. cbn [c_items]. change (text_eqb [47; 42] [125; 59]) with false. cbv iota.
  change (text_eqb [47; 42] [47; 42]) with true. cbv iota.
  change (text_eqb [42; 47] [42; 47]) with true. cbv iota.
  change (48 :: 120 :: ?x) with ([48; 120] ++ x). rewrite strip_prefix_app. cbn [bind].
  unfold hex_lower. rewrite parse_hex_fmt. now rewrite N.eqb_refl.
Qed.

Lemma c_items_item hx tk num comma rest count v :
  (exists c tl, tk = c :: tl /\ 48 <= c <= 57) -> split_last_comma tk = Some (num, comma) ->
  parse_byte hx num = Some v ->
  c_items hx (tk :: rest) count false
  = bind (c_items hx rest (count + 1) (negb comma)) (fun vs => Some (v :: vs)).
Proof.
  intros (c & tl & -> & Hc) Hs Hp. cbn [c_items].
  rewrite text_eqb_first by lia. rewrite text_eqb_first by lia.
  rewrite Hs. cbn [bind fst snd]. rewrite Hp. reflexivity.
Qed.

Lemma c_walk r w len vs : forall idx count,
  idx = 8 * count -> Forall (fun v => v < 256) vs ->
  len <= idx + 8 * N.of_nat (length vs) -> (vs <> [] -> idx + 8 * N.of_nat (length vs) < len + 8) ->
  c_items (hexflag r)
    (tokens is_ws (concat (map (render_c_item r w len) (number_from idx 8 vs)) ++ [10] ++ [125; 59]))
    count false = Some vs.
Proof.
  induction vs as [|v t IH]; intros idx count Hidx F H1 H2.
  - cbn [number_from map concat app]. rewrite tokens_sep by reflexivity.
    rewrite tokens_one by (reflexivity || congruence). reflexivity.
  - specialize (H2 ltac:(congruence)).
    cbn [number_from map concat]. unfold render_c_item at 1. cbn [fst snd].
    cbn [length] in H1, H2. rewrite Nat2N.inj_succ in H1, H2.
    inversion F as [|? ? Hv Ft]; subst.
    assert (clean (N.eqb 44) (render_byte r v)) as Hc by (apply render_byte_clean; reflexivity).
    assert (clean is_ws (render_byte r v)) as Hw by (apply render_byte_clean; reflexivity).
    destruct (render_byte_first r v) as (c & tl & Ec & Hcr).
    destruct t as [|v2 t].
    + destruct (N.ltb_spec (8 * count + 8) len); [cbn [length] in *; lia|].
      cbn [number_from map concat]. rewrite !app_nil_r. cbn [app].
      rewrite tokens_app; [|apply render_byte_nonempty|exact Hw|reflexivity].
      rewrite tokens_one by (reflexivity || congruence).
      rewrite (c_items_item _ _ (render_byte r v) false _ _ v);
        [|eauto|unfold split_last_comma, split_on; now rewrite split_by_clean by exact Hc
         |now apply parse_byte_render].
      reflexivity.
    + destruct (N.ltb_spec (8 * count + 8) len); [|cbn [length] in *; lia].
      rewrite <- !app_assoc. cbn [app].
      change (render_byte r v ++ 44 :: 32 :: ?x) with (render_byte r v ++ [44] ++ 32 :: x).
      rewrite app_assoc.
      rewrite tokens_app; [| |apply clean_app; [exact Hw|reflexivity]|reflexivity].
      2:{ intro E. apply app_eq_nil in E. destruct E. congruence. }
      rewrite (c_items_item _ _ (render_byte r v) true _ _ v);
        [|rewrite Ec; cbn [app]; eauto
         |unfold split_last_comma, split_on; now rewrite split_by_app by (exact Hc || reflexivity)
         |now apply parse_byte_render].
      cbn [negb].
      assert (forall rest, c_items (hexflag r) (tokens is_ws rest) (count + 1) false = Some (v2 :: t) ->
              c_items (hexflag r) (tokens is_ws
                 ((if (8 * count + 8) / 8 mod 16 =? 0 then [10; 9] ++ c_comment w ((8 * count + 8) / 8) else []) ++ rest))
                 (count + 1) false = Some (v2 :: t)) as Hstep.
      { intros rest Hr. destruct (_ =? 0); [|exact Hr].
        rewrite <- app_assoc. cbn [app]. rewrite !tokens_sep by reflexivity.
        rewrite comment_tokens, c_items_comment; [exact Hr|].
        replace (8 * count + 8) with ((count + 1) * 8) by lia. apply N.div_mul. lia. }
      rewrite Hstep; [reflexivity|].
      change (number_from (8 * count + 8) 8 (v2 :: t)) with (number_from (8 * count + 8) 8 (v2 :: t)).
      apply IH; [lia|exact Ft|lia|intros _; lia].
Qed.

Lemma byte_num_count bs : byte_num bs = N.of_nat (length (vals 8 bs)).
Proof.
  pose proof (vals_count 8 bs ltac:(lia)). unfold byte_num, blen.
  set (n := length bs) in *. set (m := length (vals 8 bs)) in *. clearbody n m.
  pose proof (N.div_mod (N.of_nat n) 8 ltac:(lia)). pose proof (N.mod_lt (N.of_nat n) 8 ltac:(lia)).
  destruct (N.eqb_spec (N.of_nat n mod 8) 0) as [E|E]; lia.
Qed.

Lemma c_roundtrip r bs : decode_c (hexflag r) (format_c_array r bs) = Some (pad 8 bs).
Proof.
  unfold decode_c, format_c_array. rewrite strip_prefix_app. cbn [bind].
  cbn [app]. rewrite !tokens_sep by reflexivity.
  rewrite comment_tokens, c_items_comment by reflexivity.
  rewrite chunks_numbered by lia. change (N.of_nat 8) with 8.
  destruct (blen_bounds bs) as [B1 B2].
  rewrite c_walk; [|reflexivity|apply (vals_bound 8 bs); lia|exact B1|intros _; exact B2].
  cbn [bind]. now rewrite vals_pad by lia.
Qed.

Theorem decc_roundtrip bs : decode_c false (format_decc bs) = Some (pad 8 bs).
Proof. apply (c_roundtrip Dec). Qed.
Theorem hexc_roundtrip bs : decode_c true (format_hexc bs) = Some (pad 8 bs).
Proof. apply (c_roundtrip Hex). Qed.
