(* Whole-program statements about Model.ResolverS.assembleS (C08, static half): with the optimisation off it is
   Model.Resolver.assemble; with it on, the same programs assemble to the same bits and symbol values, one pass earlier in
   the situation of finding F70. *)
From Coq Require Import NArith ZArith List Bool Lia.
Import ListNotations.
From CA Require Import Model.Lexer Model.Parser Model.Literal Model.BigIntOps Model.Evaluator Model.Matcher Model.Resolver
  Model.StaticKnown Model.ResolverS Spec.StaticSpec Proofs.EvalSemP Proofs.EvalMonoP Proofs.ResolverFixP Proofs.ResolverMonoP
  Proofs.ResolverTopP Proofs.CertUniqueP Proofs.StaticKnownP Proofs.ResolverSSimP Proofs.ResolverSPreP Proofs.ResolverSSwitchP Proofs.ResolverSFrameP Proofs.ResolverSBadP.
Open Scope Z_scope.

(* ---------- the tables of flags ---------- *)
Lemma nth_error_set_nth_true (l : list bool) s b i : nth_error (set_nth l s b) i = Some true -> (i = s /\ b = true) \/ nth_error l i = Some true.
Proof.
  intro H. destruct (Nat.eq_dec i s) as [->|Hne].
  - destruct (nth_error l s) as [y|] eqn:E.
    + rewrite (nth_error_set_nth_same _ _ _ _ E) in H. inversion H. now left.
    + rewrite (nth_error_set_nth_none _ _ _ E) in H. congruence.
  - rewrite nth_error_set_nth_other in H by exact Hne. now right.
Qed.

Lemma nth_error_repeat_false n i : nth_error (repeat false n) i <> Some true.
Proof. revert i. induction n as [|n IH]; intros [|i]; cbn; try discriminate. apply IH. Qed.

Lemma ksym_spec nsyms ns i : nth_error (sym_known_table nsyms ns) i = Some true ->
  exists e, In (NConst i e) ns /\ const_known e = true.
Proof.
  unfold sym_known_table.
  assert (G : forall l tbl, (forall j, nth_error tbl j = Some true -> exists e, In (NConst j e) ns /\ const_known e = true) ->
              incl l ns ->
              forall j, nth_error (fold_left (fun tbl n => match n with NConst s e => set_nth tbl s (const_known e) | _ => tbl end) l tbl) j = Some true ->
              exists e, In (NConst j e) ns /\ const_known e = true).
  { induction l as [|n l IH]; intros tbl Ht Hincl j Hj; [exact (Ht j Hj)|].
    cbn [fold_left] in Hj. eapply IH; [|intros y Hy; apply Hincl; now right|exact Hj].
    intros k Hk. destruct n; try (exact (Ht k Hk)).
    destruct (nth_error_set_nth_true _ _ _ _ Hk) as [[-> Hb]|Hk']; [|exact (Ht k Hk')].
    exists e. split; [apply Hincl; now left|exact Hb]. }
  apply G; [|intros y Hy; exact Hy]. intros j Hj. exfalso. eapply nth_error_repeat_false; eauto.
Qed.

Lemma nth_error_seq_inv' a n j d : nth_error (seq a n) j = Some d -> d = (a + j)%nat.
Proof.
  revert a j. induction n as [|n IH]; intros a [|j] H; cbn in H; try discriminate.
  - injection H as <-. lia. - apply IH in H. lia.
Qed.

Lemma data_aligned {B} (f : nat * expr -> B) : forall ns w el d e, In (NData w el) ns -> In (d, e) el ->
  exists j, nth_error (dids ns) j = Some d /\
            nth_error (flat_map (fun n => match n with NData _ el => map f el | _ => [] end) ns) j = Some (f (d, e)).
Proof.
  induction ns as [|n r IH]; intros w el d e Hn He; [destruct Hn|].
  unfold dids. cbn [flat_map]. fold (dids r).
  destruct Hn as [->|Hn].
  - destruct (In_nth_error _ _ He) as [j Hj]. exists j.
    assert (j < length el)%nat by (apply nth_error_Some; congruence).
    rewrite !nth_error_app1 by (rewrite map_length; assumption).
    split; [rewrite (map_nth_error fst _ _ Hj)|rewrite (map_nth_error f _ _ Hj)]; reflexivity.
  - destruct (IH w el d e Hn He) as [j [H1 H2]].
    set (hd_ids := match n with NData _ el0 => map fst el0 | _ => [] end).
    set (hd_dat := match n with NData _ el0 => map f el0 | _ => [] end).
    assert (HL : length hd_ids = length hd_dat) by (destruct n; subst hd_ids hd_dat; cbn [length]; rewrite ?map_length; reflexivity).
    exists (length hd_ids + j)%nat. split.
    + rewrite nth_error_app2 by lia. replace (length hd_ids + j - length hd_ids)%nat with j by lia. exact H1.
    + rewrite HL. rewrite nth_error_app2 by lia. replace (length hd_dat + j - length hd_dat)%nat with j by lia. exact H2.
Qed.

Lemma kdata_spec ns : dids ns = seq 0 (length (dids ns)) -> forall w el d e, In (NData w el) ns -> In (d, e) el ->
  flag (flat_map (fun n => match n with NData _ elems => map (fun de => data_known (snd de)) elems | _ => [] end) ns) d = data_known e.
Proof.
  intros Hc w el d e Hn He. destruct (data_aligned (fun de => data_known (snd de)) ns w el d e Hn He) as [j [H1 H2]].
  rewrite Hc in H1. apply nth_error_seq_inv' in H1. cbn in H1. subst j. unfold flag. rewrite H2. reflexivity.
Qed.

Lemma flag_repeat_false n i : flag (repeat false n) i = false.
Proof. unfold flag. destruct (nth_error (repeat false n) i) as [[|]|] eqn:E; try reflexivity. exfalso. eapply nth_error_repeat_false; eauto. Qed.

Lemma canonical_distinct nsyms ns : canonical nsyms ns -> syms_distinct ns.
Proof. intros [Hnd _] s e Hl Hc. eapply label_not_const; eauto. Qed.

Section Top.
Variable indexed : bool.
Variable defs : list ruledef.
Variable names : list text.
Variable ns : list node.
Variables ac pc opt : bool.
Hypothesis Hres : reserved_free names.
Hypothesis Hcanon : canonical (length names) ns.
Hypothesis Hok : data_static_ok ns.
Hypothesis Hflags : opt = true -> ac = true /\ pc = true.
Hypothesis Hasm : opt = true -> consts_asm_free ns.
Hypothesis Hkd : opt = true -> matches_kinded indexed defs ns.
Variable st0 : state.
Hypothesis Hinit : init_state indexed defs (length names) ns = Some st0.

Let K := known_info ac pc defs names ns st0.

Lemma HKsym : forall i, nth_error (k_sym K) i = Some true -> exists e, In (NConst i e) ns /\ const_known e = true.
Proof. intros i H. exact (ksym_spec _ _ _ H). Qed.

Lemma HKdata : forall w elems d e, In (NData w elems) ns -> In (d, e) elems -> flag (k_data K) d = true -> data_known e = true.
Proof.
  intros w el d e Hn He H. unfold K, known_info in H. cbn [k_data] in H.
  rewrite (kdata_spec ns (proj1 (proj2 (proj2 Hcanon))) w el d e Hn He) in H. exact H.
Qed.

Lemma Hcan : opt = true -> NoDup (dids ns) /\ NoDup (sids ns).
Proof. intros _. destruct Hcanon as (H1 & _ & H3 & _). split; [rewrite H3; apply seq_NoDup|exact H1]. Qed.

Lemma Hdist : syms_distinct ns.
Proof. eapply canonical_distinct; eauto. Qed.

Lemma init_shape : s_sym st0 = repeat VUnknown (length names) /\
  (forall d, In d (s_instr st0) -> exists i src, In (NInstr i src) ns /\ i_matches d = match_instr indexed defs src).
Proof.
  revert Hinit. unfold init_state. cbv zeta.
  match goal with |- (if ?c then _ else _) = _ -> _ => destruct c; [discriminate|] end.
  intro H. inversion H; subst; clear H. split; [reflexivity|]. cbn [s_instr]. intros d Hd.
  apply in_map_iff in Hd. destruct Hd as [src [<- Hs]]. apply in_flat_map in Hs. destruct Hs as [n [Hn Hs]].
  destruct n; try (destruct Hs; fail). destruct Hs as [<-|[]]. cbn [i_matches]. eauto.
Qed.

Lemma kinstr0 : opt = true -> kinstr_ok names defs K st0.
Proof.
  intros Ho i d Hd Hf. destruct (Hflags Ho) as [Ea Ep].
  unfold K, known_info in Hf. cbn [k_instr] in Hf. unfold flag in Hf. rewrite Ea, Ep in Hf.
  rewrite nth_error_map, Hd in Hf. cbn [option_map] in Hf. split; [unfold K, known_info; cbn [k_sym]; exact Hf|].
  apply forallb_forall. intros m Hm. destruct (proj2 init_shape d (nth_error_In _ _ Hd)) as (j & src & Hn & Em).
  rewrite Em in Hm. exact (Hkd Ho j src m Hn Hm).
Qed.

Lemma pinv0 : PInv ns opt (init_sstate st0).
Proof.
  split; cbn [init_sstate fz_sym ss].
  - intros s F. rewrite flag_repeat_false in F. discriminate.
  - apply repeat_length.
Qed.

(* the pre-pass: same state; afterwards the invariant of the main loop holds *)
Lemma prepass :
  match simple_loop (S (length ns)) names ns st0 0 with
  | EErr => simple_loopS (S (length ns)) names K opt ns (init_sstate st0) 0 = EErr
  | EOk st1 => exists x1, simple_loopS (S (length ns)) names K opt ns (init_sstate st0) 0 = EOk x1 /\ ss x1 = st1 /\
                          Inv names defs ns K opt x1 /\ labels_ok ns st1 /\ s_data st1 = s_data st0
  end.
Proof.
  pose proof (pre_sim names ns K opt HKsym Hasm (fun Ho => proj1 Hcanon) (S (length ns)) (init_sstate st0) 0%nat pinv0) as H.
  cbn [ss init_sstate] in H.
  destruct (simple_loop (S (length ns)) names ns st0 0) as [st1|] eqn:E; [|exact H].
  destruct H as (x1 & H1 & H2 & [P1 P2] & H4 & H5). exists x1. split; [exact H1|]. split; [exact H2|].
  assert (Hl : labels_ok ns st1).
  { eapply simple_loop_labels_ok; [exact Hdist| |exact E]. eapply init_labels_ok; exact Hinit. }
  cut (Inv names defs ns K opt x1 /\ s_data st1 = s_data st0); [intros [A B]; auto|].
  (* what the pre-pass leaves *)
  assert (Q : (opt = true -> good ns st1) /\ s_instr st1 = s_instr st0 /\ s_data st1 = s_data st0).
  { clear H1 H2 P1 P2 H4 H5 Hl x1.
    assert (G : forall fuel st prev st', simple_loop fuel names ns st prev = EOk st' ->
                length (s_sym st) = length names ->
                (opt = true -> good ns st \/ (1 <= fuel)%nat) ->
                (opt = true -> good ns st') /\ s_instr st' = s_instr st /\ s_data st' = s_data st).
    { induction fuel as [|f IH]; intros st prev st' Hs HL Hg; cbn [simple_loop] in Hs.
      - inversion Hs; subst. split; [|auto]. intro Ho. destruct (Hg Ho) as [Hgo|Hf]; [exact Hgo|lia].
      - rewrite simple_round_go in Hs. destruct (sr_go names ns st 0) as [[sta c]|] eqn:Er; [|discriminate].
        assert (Hr : (opt = true -> good ns sta) /\ length (s_sym sta) = length (s_sym st) /\ s_instr sta = s_instr st /\ s_data sta = s_data st).
        { destruct (sr_go_shape names ns st 0%nat sta c Er) as (S1 & S2 & S3). split; [|auto].
          intro Ho. destruct (sr_go_good names ns [] st 0%nat sta c Er) as (G1 & _).
          - intros s e [].
          - exact (proj1 Hcanon).
          - intros s Hs'. rewrite HL. exact (proj1 (proj2 Hcanon) s Hs').
          - exact (Hasm Ho).
          - exact G1. }
        destruct Hr as (R1 & R2 & R3 & R4).
        destruct (Nat.eqb c prev).
        + inversion Hs; subst. auto.
        + destruct (IH sta c st' Hs) as (I1 & I2 & I3); [congruence|intro Ho; left; exact (R1 Ho)|].
          split; [exact I1|]. split; congruence. }
    apply (G _ _ _ _ E); [rewrite (proj1 init_shape); apply repeat_length|]. intros _. right. lia. }
  destruct Q as (Q1 & Q2 & Q3). subst st1. split; [|exact Q3].
  split; [|split; [|split; [|split]]].
  - intro Ho. split; [exact (Q1 Ho)|]. eapply kinstr_same; [exact Q2|exact (kinstr0 Ho)].
  - intros i F. rewrite H4 in F. cbn [init_sstate fz_instr] in F. rewrite flag_repeat_false in F. discriminate.
  - intros d F. rewrite H5 in F. cbn [init_sstate fz_data] in F. rewrite flag_repeat_false in F. discriminate.
  - intros s F. destruct (P1 s F) as [Ho (e & v & c & G1 & G2 & _)]. split; [exact Ho|]. eauto.
  - unfold lens. rewrite H4, H5. cbn [init_sstate fz_instr fz_data]. rewrite !repeat_length, Q2, Q3. split; [exact P2|split; reflexivity].
Qed.
End Top.

Lemma init_data_length indexed defs nsyms ns st0 : init_state indexed defs nsyms ns = Some st0 ->
  length (s_data st0) = length (dids ns).
Proof.
  unfold init_state. cbv zeta.
  match goal with |- (if ?c then _ else _) = _ -> _ => destruct c; [discriminate|] end.
  intro H. inversion H; subst; clear H. cbn [s_data]. unfold dids.
  induction ns as [|n r IH]; [reflexivity|]. cbn [flat_map]. rewrite !app_length, IH. f_equal.
  destruct n; try reflexivity. rewrite !map_length. reflexivity.
Qed.

(* ---------- whole runs ---------- *)
Definition outF (ns : list node) (F : eres (state * nat)) : option (Z * Z * list value * nat) :=
  match F with EErr => None | EOk (st, n) => Some (build_output ns st, s_sym st, n) end.
Definition outT (ns : list node) (T : eres (sstate * nat)) : option (Z * Z * list value * nat) :=
  match T with EErr => None | EOk (x, n) => Some (build_output ns (ss x), s_sym (ss x), n) end.

Lemma lockstep_out ns F T : lockstep F T -> outT ns T = outF ns F.
Proof.
  unfold lockstep. destruct F as [[st n]|]; [intros (x' & -> & <-); reflexivity|intros ->; reflexivity].
Qed.

Section Runs.
Variable indexed : bool.
Variable defs : list ruledef.
Variable names : list text.
Variable ns : list node.
Variables ac pc opt : bool.
Hypothesis Hcanon : canonical (length names) ns.
Hypothesis Hflags : opt = true -> ac = true /\ pc = true.
Hypothesis Hasm : opt = true -> consts_asm_free ns.
Hypothesis Hkd : opt = true -> matches_kinded indexed defs ns.

(* both runs fail before the main loop, or they reach it with the same state *)
Lemma runs :
  (forall b, assembleS ac pc opt indexed defs names ns b = None /\ assemble indexed defs names ns b = None) \/
  exists st0 x1, let K := known_info ac pc defs names ns st0 in
    Inv names defs ns K opt x1 /\ labels_ok ns (ss x1) /\
    (forall d, In d (dids ns) -> (d < length (s_data (ss x1)))%nat) /\
    (forall i, nth_error (k_sym K) i = Some true -> exists e, In (NConst i e) ns /\ const_known e = true) /\
    (forall w elems d e, In (NData w elems) ns -> In (d, e) elems -> flag (k_data K) d = true -> data_known e = true) /\
    forall b, assembleS ac pc opt indexed defs names ns b = outT ns (loopS names defs K opt ns b 0 b x1) /\
              assemble indexed defs names ns b = outF ns (loop names defs ns b 0 b (ss x1)).
Proof.
  unfold assembleS, assemble.
  destruct (init_state indexed defs (length names) ns) as [st0|] eqn:E0; [|left; auto].
  pose proof (prepass indexed defs names ns ac pc opt Hcanon Hflags Hasm Hkd st0 E0) as H.
  destruct (simple_loop (S (length ns)) names ns st0 0) as [st1|]; [|left; intro b; rewrite H; auto].
  destruct H as (x1 & H1 & H2 & HI & Hl & Hsd). right. exists st0, x1. cbv zeta. rewrite H1. subst st1.
  split; [exact HI|]. split; [exact Hl|].
  split.
  { intros d Hd. rewrite Hsd, (init_data_length _ _ _ _ _ E0). destruct Hcanon as (_ & _ & Hc & _). rewrite Hc in Hd.
    apply in_seq in Hd. lia. }
  split; [exact (HKsym defs names ns ac pc st0)|]. split; [exact (HKdata defs names ns ac pc Hcanon st0)|].
  intro b. split; reflexivity.
Qed.
End Runs.

(* ---------- a statically known data element that fails its directive's checks ---------- *)
Lemma loopS_bad names defs K opt ns w el d e : reserved_free names ->
  In (NData w el) ns -> In (d, e) el -> data_known e = true -> elem_strict_ok w e = false -> flag (k_data K) d = true ->
  NoDup (dids ns) -> forall k i max x r, flag (fz_data x) d = false -> loopS names defs K opt ns k i max x = EOk r -> False.
Proof.
  intros Hres Hn He Hk Hs Hkd Hnd k i max x r Fd H. destruct k as [|k]; cbn [loopS] in H.
  - destruct (passS names defs K opt false true ns x 0 Resolved) as [[x' r']|] eqn:E; [|discriminate].
    eapply (passS_bad names Hres K opt false true defs w el d e); eauto.
  - destruct (passS names defs K opt (Nat.eqb (S i) 1) (Nat.eqb (S i) max) ns x 0 Resolved) as [[x' r']|] eqn:E; [|discriminate].
    eapply (passS_bad names Hres K opt (Nat.eqb (S i) 1) (Nat.eqb (S i) max) defs w el d e); eauto.
Qed.

Lemma bad_all_fail indexed defs names ns ac pc opt b w el d e :
  reserved_free names -> canonical (length names) ns -> (opt = true -> consts_asm_free ns) ->
  bad_elem ns w el d e ->
  assembleS ac pc opt indexed defs names ns b = None /\ assemble indexed defs names ns b = None.
Proof.
  intros Hres Hcanon Hasm (Hn & He & Hk & Hs). split.
  - unfold assembleS. destruct (init_state indexed defs (length names) ns) as [st0|] eqn:E0; [|reflexivity].
    set (K := known_info ac pc defs names ns st0).
    pose proof (pre_sim names ns K opt (HKsym defs names ns ac pc st0) Hasm (fun _ => proj1 Hcanon) (S (length ns)) (init_sstate st0) 0%nat
                  (pinv0 ns opt st0)) as H.
    cbn [ss init_sstate] in H.
    destruct (simple_loop (S (length ns)) names ns st0 0) as [st1|]; [|rewrite H; reflexivity].
    destruct H as (x1 & H1 & _ & _ & _ & H5). rewrite H1.
    destruct (loopS names defs K opt ns b 0 b x1) as [[x n]|] eqn:EL; [|reflexivity]. exfalso.
    eapply (loopS_bad names defs K opt ns w el d e Hres Hn He Hk Hs); [| |rewrite H5; cbn [init_sstate fz_data]; apply flag_repeat_false|exact EL].
    + unfold K, known_info. cbn [k_data]. rewrite (kdata_spec ns (proj1 (proj2 (proj2 Hcanon))) w el d e Hn He). exact Hk.
    + destruct Hcanon as (_ & _ & H3 & _). rewrite H3. apply seq_NoDup.
  - destruct (assemble indexed defs names ns b) as [[[o s] n]|] eqn:EA; [|reflexivity]. exfalso.
    destruct (assemble_certificate _ _ _ _ _ _ _ _ (canonical_distinct _ _ Hcanon) EA) as (st & Hc & _).
    unfold Certified in Hc. eapply (pass_bad names Hres defs w el d e He Hk Hs ns Hn); exact Hc.
Qed.

Lemma ft {P : Prop} : false = true -> P.
Proof. discriminate. Qed.

(* with the optimisation off, the model with flags is the model without *)
Theorem assembleS_off_ok ac pc indexed defs names ns b :
  reserved_free names -> canonical (length names) ns -> data_static_ok ns ->
  assembleS ac pc false indexed defs names ns b = assemble indexed defs names ns b.
Proof.
  intros Hres Hcanon Hok.
  destruct (runs indexed defs names ns ac pc false Hcanon ft ft ft) as [Hn|(st0 & x1 & HI & Hl & _ & HKs & HKd & Hb)].
  - destruct (Hn b) as [-> ->]. reflexivity.
  - destruct (Hb b) as [-> ->]. apply lockstep_out.
    apply (loop_off names defs ns _ Hres HKs HKd false Hok ft b x1 eq_refl HI).
Qed.

Theorem assembleS_off ac pc indexed defs names ns b :
  reserved_free names -> canonical (length names) ns ->
  assembleS ac pc false indexed defs names ns b = assemble indexed defs names ns b.
Proof.
  intros Hres Hcanon. destruct (data_static_okb ns) eqn:Eok.
  - apply assembleS_off_ok; auto. apply okb_true. exact Eok.
  - destruct (okb_false ns Eok) as (w & el & d & e & Hbad).
    destruct (bad_all_fail indexed defs names ns ac pc false b w el d e Hres Hcanon ft Hbad) as [-> ->]. reflexivity.
Qed.

Definition counts_ok (n n' : nat) : Prop := n' = n \/ (n = 1%nat /\ n' = 2%nat).

Section Switch.
Variable indexed : bool.
Variable defs : list ruledef.
Variable names : list text.
Variable ns : list node.
Hypothesis Hres : reserved_free names.
Hypothesis Hcanon : canonical (length names) ns.
Hypothesis Hok : data_static_ok ns.
Hypothesis Hasm : consts_asm_free ns.
Hypothesis Hkd : matches_kinded indexed defs ns.

Notation AT b := (assembleS true true true indexed defs names ns b).
Notation AF b := (assemble indexed defs names ns b).

Lemma cases_ok b :
  AT b = AF b \/
  (exists o s, (1 <= b)%nat /\ AT b = Some (o, s, 1%nat) /\ (b = 1%nat -> AF b = None) /\ ((2 <= b)%nat -> AF b = Some (o, s, 2%nat)) /\
               exists st, Certified names defs ns st /\ s = s_sym st /\ o = build_output ns st) \/
  ((2 <= b)%nat /\ AT b = None /\ AF b = None).
Proof.
  destruct (runs indexed defs names ns true true true Hcanon (fun _ => conj eq_refl eq_refl) (fun _ => Hasm) (fun _ => Hkd))
    as [Hn|(st0 & x1 & HI & Hl & Hrange & HKs & HKd & Hb)].
  - left. destruct (Hn b) as [-> ->]. reflexivity.
  - destruct (Hb b) as [ET EF]. rewrite ET, EF. clear Hb ET EF.
    set (K := known_info true true defs names ns st0) in *.
    assert (Hnd2 : NoDup (dids ns) /\ NoDup (sids ns)).
    { destruct Hcanon as (H1 & _ & H3 & _). split; [rewrite H3; apply seq_NoDup|exact H1]. }
    assert (Hcan : true = true -> NoDup (dids ns) /\ NoDup (sids ns)) by (intros _; exact Hnd2).
    pose proof (canonical_distinct _ _ Hcanon) as Hd.
    assert (FL : forall m x2, passS names defs K true true m ns x1 0 Resolved = EOk (x2, Resolved) ->
                   pass names defs m ns (ss x2) 0 Resolved = EOk (ss x2, Resolved)).
    { intros m x2 HT. destruct Hcanon as (H1 & _ & _ & H4).
      exact (replay_pass names defs ns K Hres HKs HKd Hok Hnd2 Hd true m ns (fun y Hy => Hy) H1 H4 (proj1 Hnd2) x1 0 x2 HI Hl Hrange HT). }
    destruct (loop_cases names defs ns K Hres HKs HKd true Hok Hcan b x1 HI) as [L|O].
    + left. apply lockstep_out. exact L.
    + pose proof O as (x2 & Hb1 & HI2 & HT1 & HF1 & _).
      destruct (Nat.eq_dec b 1) as [->|Hne].
      * right. left. destruct (one_pass_b1 names defs ns K true x1 _ _ O) as [EF [x2' ET]]. rewrite EF, ET.
        change (Nat.eqb 1 1) with true in HT1. pose proof (FL true x2 HT1) as Hfix.
        destruct O as (x3 & _ & _ & HT3 & _ & HT' & _). change (Nat.eqb 1 1) with true in HT3, HT'.
        rewrite HT1 in HT3. inversion HT3; subst x3. rewrite ET in HT'. inversion HT'; subst x2'.
        do 2 eexists. split; [lia|]. split; [reflexivity|]. split; [reflexivity|]. split; [lia|].
        exists (ss x2). split; [exact Hfix|]. split; reflexivity.
      * assert (Hb2 : (2 <= b)%nat) by lia.
        destruct (loopS names defs K true ns b 0 b x1) as [[x' n]|] eqn:ET.
        -- right. left.
           destruct (one_pass_fwd names defs ns K Hres HKs HKd true Hok Hcan Hd b x1 _ _ O Hl Hb2 x' n eq_refl) as [-> EF].
           destruct (certificate names defs ns b (ss x1) (ss x') 2%nat Hd Hl EF) as [Hc _].
           rewrite EF. cbn [outT outF]. do 2 eexists. split; [lia|]. split; [reflexivity|]. split; [lia|]. split; [reflexivity|].
           exists (ss x'). split; [exact Hc|]. split; reflexivity.
        -- right. right. split; [exact Hb2|]. split; [reflexivity|].
           destruct (loop names defs ns b 0 b (ss x1)) as [[st n]|] eqn:EF; [|reflexivity]. exfalso.
           destruct (Nat.eq_dec b 2) as [->|Hne2].
           ++ destruct (one_pass_bwd2 names defs ns K Hres HKs HKd true Hok Hcan x1 _ _ O st n eq_refl) as [_ (x' & ET' & _)].
              discriminate ET'.
           ++ assert (Hb3 : (3 <= b)%nat) by lia.
              assert (E1 : Nat.eqb 1 b = false) by (apply Nat.eqb_neq; lia).
              pose proof (one_pass_ge3 names defs ns K Hres HKs HKd true Hok Hcan b x1 _ _ O Hb3) as G. cbv beta iota in G.
              destruct G as [_ (x' & ET' & _)]; [|discriminate ET'].
              intros x3 HT3 _. exact (FL false x3 HT3).
Qed.
End Switch.

Lemma cases indexed defs names ns :
  reserved_free names -> canonical (length names) ns -> consts_asm_free ns -> matches_kinded indexed defs ns ->
  forall b,
  assembleS true true true indexed defs names ns b = assemble indexed defs names ns b \/
  (exists o s, (1 <= b)%nat /\ assembleS true true true indexed defs names ns b = Some (o, s, 1%nat) /\
               (b = 1%nat -> assemble indexed defs names ns b = None) /\
               ((2 <= b)%nat -> assemble indexed defs names ns b = Some (o, s, 2%nat)) /\
               exists st, Certified names defs ns st /\ s = s_sym st /\ o = build_output ns st) \/
  ((2 <= b)%nat /\ assembleS true true true indexed defs names ns b = None /\ assemble indexed defs names ns b = None).
Proof.
  intros Hres Hcanon Hasm Hkd b. destruct (data_static_okb ns) eqn:Eok.
  - apply cases_ok; auto. apply okb_true. exact Eok.
  - destruct (okb_false ns Eok) as (w & el & d & e & Hbad).
    destruct (bad_all_fail indexed defs names ns true true true b w el d e Hres Hcanon (fun _ => Hasm) Hbad) as [-> ->]. now left.
Qed.

(* ---------- the switch theorem, stated between the two settings of the same model ---------- *)
Section SwitchStatements.
Variable indexed : bool.
Variable defs : list ruledef.
Variable names : list text.
Variable ns : list node.
Hypothesis Hres : reserved_free names.
Hypothesis Hcanon : canonical (length names) ns.
Hypothesis Hasm : consts_asm_free ns.
Hypothesis Hkd : matches_kinded indexed defs ns.

Notation ON b := (assembleS true true true indexed defs names ns b).
Notation OFF b := (assembleS true true false indexed defs names ns b).

Theorem static_switch_cases b :
  ON b = OFF b \/
  (exists o s, (1 <= b)%nat /\ ON b = Some (o, s, 1%nat) /\ (b = 1%nat -> OFF b = None) /\ ((2 <= b)%nat -> OFF b = Some (o, s, 2%nat)) /\
               exists st, Certified names defs ns st /\ s = s_sym st /\ o = build_output ns st) \/
  ((2 <= b)%nat /\ ON b = None /\ OFF b = None).
Proof. rewrite (assembleS_off true true indexed defs names ns b Hres Hcanon). apply cases; assumption. Qed.

Theorem static_switch_same_result b o s n o' s' n' :
  ON b = Some (o, s, n) -> OFF b = Some (o', s', n') -> o = o' /\ s = s' /\ counts_ok n n'.
Proof.
  intros H1 H2. destruct (static_switch_cases b) as [E|[(o0 & s0 & Hb & E1 & E2 & E3 & _)|(Hb & E1 & _)]].
  - rewrite E, H2 in H1. inversion H1; subst. repeat split. now left.
  - rewrite E1 in H1. inversion H1; subst o0 s0 n. destruct (Nat.eq_dec b 1) as [->|Hne].
    + rewrite (E2 eq_refl) in H2. discriminate.
    + rewrite E3 in H2 by lia. inversion H2; subst. repeat split. right. auto.
  - rewrite E1 in H1. discriminate.
Qed.

Theorem static_switch_fwd b o s n : (2 <= b)%nat ->
  ON b = Some (o, s, n) -> exists n', OFF b = Some (o, s, n') /\ counts_ok n n'.
Proof.
  intros Hb H1. destruct (static_switch_cases b) as [E|[(o0 & s0 & _ & E1 & _ & E3 & _)|(_ & E1 & _)]].
  - exists n. rewrite <- E. split; [exact H1|now left].
  - rewrite E1 in H1. inversion H1; subst o0 s0 n. exists 2%nat. split; [exact (E3 Hb)|right; auto].
  - rewrite E1 in H1. discriminate.
Qed.

Theorem static_switch_bwd b o s n' :
  OFF b = Some (o, s, n') -> exists n, ON b = Some (o, s, n) /\ counts_ok n n'.
Proof.
  intros H2. destruct (static_switch_cases b) as [E|[(o0 & s0 & Hb1 & E1 & E2 & E3 & _)|(Hb2 & E1 & E2)]].
  - exists n'. rewrite E. split; [exact H2|now left].
  - destruct (Nat.eq_dec b 1) as [->|Hne].
    + rewrite (E2 eq_refl) in H2. discriminate.
    + rewrite E3 in H2 by lia. inversion H2; subst. exists 1%nat. split; [exact E1|right; auto].
  - rewrite E2 in H2. discriminate.
Qed.

(* for budgets >= 2 the same programs succeed *)
Theorem static_switch_success b : (2 <= b)%nat -> (ON b = None <-> OFF b = None).
Proof.
  intro Hb. split; intro H.
  - destruct (OFF b) as [[[o s] n']|] eqn:E; [|reflexivity]. destruct (static_switch_bwd b o s n' E) as [n [E' _]]. congruence.
  - destruct (ON b) as [[[o s] n]|] eqn:E; [|reflexivity]. destruct (static_switch_fwd b o s n Hb E) as [n' [E' _]]. congruence.
Qed.

Theorem static_switch_budget1 o s n :
  ON 1 = Some (o, s, n) -> OFF 1 = Some (o, s, n) \/ (n = 1%nat /\ OFF 1 = None).
Proof.
  intro H1. destruct (static_switch_cases 1) as [E|[(o0 & s0 & _ & E1 & E2 & _)|(Hb & _)]].
  - left. rewrite <- E. exact H1.
  - right. rewrite E1 in H1. inversion H1; subst. split; [reflexivity|exact (E2 eq_refl)].
  - lia.
Qed.

(* every success of the optimised run carries the certificate of C02: its final state is a fixed point of the strict,
   unoptimised pass, from which the output is built *)
Theorem static_on_certified b o s n :
  ON b = Some (o, s, n) -> exists st, Certified names defs ns st /\ s = s_sym st /\ o = build_output ns st.
Proof.
  intro H1. destruct (static_switch_cases b) as [E|[(o0 & s0 & _ & E1 & _ & _ & Hc)|(_ & E1 & _)]].
  - rewrite E, (assembleS_off true true indexed defs names ns b Hres Hcanon) in H1.
    destruct (assemble_certificate _ _ _ _ _ _ _ _ (canonical_distinct _ _ Hcanon) H1) as (st & Hc & Hs & Ho & _). eauto.
  - rewrite E1 in H1. inversion H1; subst. exact Hc.
  - rewrite E1 in H1. discriminate.
Qed.
End SwitchStatements.

(* ---------- static_known_sound in the form of the property statement ---------- *)
Theorem static_known_sound_expr L G pv pv' e ctx :
  pv_agree G pv pv' -> asm_agree pv pv' -> covers L ctx -> expr_known L G e = true ->
  eval code_ops pv e ctx = eval code_ops pv' e ctx.
Proof. intros Hg Ha Hc Hk. exact (expr_known_indep L G pv pv' Hg false (fun _ => Ha) e ctx Hk eq_refl Hc). Qed.

Theorem static_known_sound_states names ns K :
  reserved_free names ->
  (forall i, nth_error (k_sym K) i = Some true -> exists e, In (NConst i e) ns /\ const_known e = true) ->
  forall st st' pos pos' cg cg', good ns st -> good ns st' ->
  pv_agree (global_known true names (k_sym K)) (pvar names st pos cg) (pvar names st' pos' cg') /\
  asm_agree (pvar names st pos cg) (pvar names st' pos' cg').
Proof.
  intros Hres HK st st' pos pos' cg cg' Hg Hg'.
  exact (conj (good_agree names ns K HK st st' pos pos' cg cg' Hg Hg') (asm_agree_pvar names Hres st pos cg st' pos' cg')).
Qed.
