(* Resolver2 (banks, bank switches, nested symbols): a pass that reports Resolved leaves the state unchanged, hence
   every successful result of resolve_iteratively is a fixed point of the last-mode pass -- the certificate of C02
   for the larger fragment.  Also: the reported number of passes never exceeds the budget.
   The new node kinds only move cursors (Model/Cursor.v) or switch banks; they never touch the state. *)
From Coq Require Import NArith ZArith List Bool Lia.
From CA Require Import Model.Lexer Model.Parser Model.Literal Model.BigIntOps Model.Evaluator Model.Matcher Model.Resolver
  Model.Resolver2 Proofs.ResolverFixP.
From CA Require Model.Paths Model.Overlap Model.Cursor Model.LastPass Model.Output Model.Symbols.
Import ListNotations.
Open Scope Z_scope.

(* labels hold unsized integers (or are still unknown): the only writer is the label resolver *)
Definition labels_ok2 (ns : list cnode) (st : state) : Prop :=
  forall s d0 ctx, In (XLabel s d0, ctx) ns -> label_value_ok (nth s (s_sym st) VUnknown).
(* a symbol index is either a label or a constant *)
Definition syms_distinct2 (ns : list cnode) : Prop :=
  forall s d0 d0' e c c', In (XLabel s d0, c) ns -> ~ In (XConst s d0' e, c') ns.

Lemma set_nth_nth_error {A} (l : list A) i d : nth_error l i = Some d -> set_nth l i d = l.
Proof.
  revert i. induction l as [|x l IH]; intros [|i] Hd; cbn in *; try discriminate.
  - now inversion Hd.
  - f_equal. auto.
Qed.

Section Fix.
Variable m : Symbols.mgr.
Variable banks : list Cursor.bank.
Variable defs : list ruledef.
Variable mb : Z.
Variable last : bool.

(* one node *)
Lemma resolve_node2_fix ns n ctx st b pos st' :
  labels_ok2 ns st -> In (n, ctx) ns ->
  resolve_node2 m defs mb last n ctx st b pos = Ok (st', Resolved) -> st' = st.
Proof.
  intros Hl Hin H. unfold resolve_node2 in H. cbv zeta in H.
  destruct n as [s d0|s d0 e|i src|width d e|r e|a e|a e|bi|e].
  - (* label *)
    destruct (Cursor.eval_address mb b pos (negb last)) as [a| |]; try discriminate.
    destruct (value_eqv (VInt (un a)) (nth s (s_sym st) VUnknown)) eqn:E; [|discriminate].
    inversion H; subst; clear H.
    destruct (Hl s d0 ctx Hin) as [Hu|[a' Ha]].
    + rewrite Hu in E. discriminate.
    + rewrite Ha in E. cbn in E. unfold bigint_eqv in E. cbn in E. apply Z.eqb_eq in E. subst a'.
      rewrite <- Ha. rewrite set_nth_same. destruct st; reflexivity.
  - (* constant *)
    match type of H with match ?x with EOk _ => _ | EErr => _ end = _ => destruct x as [[v c]|]; [|discriminate] end.
    match type of H with (if ?c then _ else _) = _ => destruct c; [discriminate|] end.
    destruct (value_identical v (nth s (s_sym st) VUnknown)) eqn:E; [|discriminate].
    inversion H; subst; clear H. apply value_identical_eq in E. rewrite E.
    rewrite set_nth_same. destruct st; reflexivity.
  - (* instruction *)
    destruct (nth_error (s_instr st) i) as [d|] eqn:Hd; [|discriminate].
    match type of H with match ?x with EOk _ => _ | EErr => _ end = _ => destruct x as [[e|]|]; try discriminate end.
    destruct (bigint_identical (i_enc d) e) eqn:E; [|discriminate].
    inversion H; subst; clear H. apply bigint_identical_eq in E. subst e.
    assert ({| i_matches := i_matches d; i_enc := i_enc d |} = d) as -> by (destruct d; reflexivity).
    rewrite (set_nth_nth_error _ _ _ Hd). destruct st; reflexivity.
  - (* data element *)
    match type of H with match ?x with EOk _ => _ | EErr => _ end = _ => destruct x as [[v c]|]; [|discriminate] end.
    destruct (expect_error_or_bigint v) as [v'|]; [|discriminate].
    destruct (match v' with VInt b0 => EOk (Some b0) | _ => if last then EErr else EOk None end) as [menc|]; [|discriminate].
    match type of H with (if negb ?c then _ else _) = _ => destruct c; cbn [negb] in H; [|discriminate] end.
    destruct menc as [e0|]; [|discriminate].
    match type of H with Ok (_, if ?c then _ else _) = _ => destruct c eqn:E; [|discriminate] end.
    apply bigint_identical_eq in E. inversion H; subst st'; clear H. rewrite <- E.
    rewrite set_nth_same. destruct st; reflexivity.
  - (* res *)
    match type of H with match ?x with EOk _ => _ | EErr => _ end = _ => destruct x as [[v c]|]; [|discriminate] end.
    destruct (expect_error_or_bigint v) as [v'|]; [|discriminate].
    match type of H with match ?x with EErr => _ | EOk _ => _ end = _ => destruct x as [z|]; [|discriminate] end.
    destruct (z * Z.of_N (Cursor.bk_unit b) >? usize_max); [discriminate|].
    destruct (z * Z.of_N (Cursor.bk_unit b) =? nth r (s_res st) 0) eqn:E; [|discriminate].
    inversion H; subst; clear H. apply Z.eqb_eq in E. rewrite E. rewrite set_nth_same. destruct st; reflexivity.
  - (* align *)
    match type of H with match ?x with EOk _ => _ | EErr => _ end = _ => destruct x as [[v c]|]; [|discriminate] end.
    match type of H with match ?x with EErr => _ | EOk _ => _ end = _ => destruct x as [z|]; [|discriminate] end.
    destruct (z =? nth a (s_align st) 0) eqn:E; cbn [negb] in H; [|discriminate].
    apply Z.eqb_eq in E.
    destruct (last && (z =? 0)); [discriminate|].
    inversion H; subst; clear H. rewrite set_nth_same. destruct st; reflexivity.
  - (* addr *)
    match type of H with match ?x with EOk _ => _ | EErr => _ end = _ => destruct x as [[v c]|]; [|discriminate] end.
    destruct (expect_error_or_bigint v) as [v'|]; [|discriminate].
    match type of H with (if negb (?z =? ?p) then _ else _) = _ => destruct (z =? p) eqn:E; cbn [negb] in H; [|discriminate] end.
    apply Z.eqb_eq in E.
    assert (G : st' = {| s_sym := s_sym st; s_instr := s_instr st; s_data := s_data st; s_res := s_res st; s_align := s_align st;
                         s_addr := set_nth (s_addr st) a (match v' with VInt b0 => bv b0 | _ => 0 end) |}).
    { destruct last.
      - match type of H with match ?x with Ok _ => _ | Err => _ | Panic => _ end = _ => destruct x; try discriminate end.
        now inversion H.
      - now inversion H. }
    rewrite G, E. rewrite set_nth_same. destruct st; reflexivity.
  - (* bank switch *)
    now inversion H.
  - (* #assert: Resolved only on the last pass, and the state is never touched *)
    destruct (negb last); [discriminate|].
    match type of H with match ?x with EOk _ => _ | EErr => _ end = _ => destruct x as [[v c]|]; [|discriminate] end.
    destruct v as [| | | | |[|]|]; try discriminate. now inversion H.
Qed.

Lemma step2_fix ns nc st c prev st' c' prev' :
  labels_ok2 ns st -> In nc ns ->
  step2 m banks defs mb last nc st c prev = Ok (st', Resolved, c', prev') -> st' = st.
Proof.
  intros Hl Hin H. unfold step2 in H.
  destruct (Cursor.advance mb banks c prev) as [c1| |]; try discriminate.
  destruct (Cursor.enter mb banks c1 (shape (fst nc))) as [c2| |]; try discriminate.
  destruct (Cursor.cur_bank banks c2) as [[b pos]| |]; try discriminate.
  destruct (resolve_node2 m defs mb last (fst nc) (snd nc) st b pos) as [[s r]| |] eqn:E; try discriminate.
  inversion H; subst; clear H.
  eapply resolve_node2_fix; eauto. destruct nc; exact Hin.
Qed.

Lemma pass2_unresolved_sticky ns st c prev st' :
  pass2 m banks defs mb last ns st c prev Unresolved = Ok (st', Resolved) -> False.
Proof.
  revert st c prev; induction ns as [|n ns IH]; intros st c prev H; cbn [pass2] in H.
  - destruct (Cursor.advance mb banks c prev); discriminate.
  - destruct (step2 m banks defs mb last n st c prev) as [[[[s r] c'] p']| |]; try discriminate.
    destruct r; cbn [merge] in H; eauto.
Qed.

Lemma pass2_fix_gen all ns st c prev st' :
  (forall n, In n ns -> In n all) -> labels_ok2 all st ->
  pass2 m banks defs mb last ns st c prev Resolved = Ok (st', Resolved) -> st' = st.
Proof.
  revert st c prev; induction ns as [|n ns IH]; intros st c prev Hsub Hl H; cbn [pass2] in H.
  - destruct (Cursor.advance mb banks c prev); try discriminate. now inversion H.
  - destruct (step2 m banks defs mb last n st c prev) as [[[[s r] c'] p']| |] eqn:E; try discriminate.
    destruct r; cbn [merge] in H.
    + apply step2_fix with (ns := all) in E; [|exact Hl|apply Hsub; now left]. subst s.
      apply IH in H; auto. intros x Hx. apply Hsub. now right.
    + exfalso. eapply pass2_unresolved_sticky; eauto.
Qed.

Theorem pass2_fix ns st st' :
  labels_ok2 ns st -> run_pass m banks defs mb last ns st = Ok (st', Resolved) -> st' = st.
Proof. intros Hl H. unfold run_pass in H. eapply pass2_fix_gen with (all := ns); eauto. Qed.

(* ---- the labels_ok2 invariant is preserved by every pass ---- *)
Lemma resolve_node2_labels_ok ns n ctx st b pos st' r :
  syms_distinct2 ns -> labels_ok2 ns st -> In (n, ctx) ns ->
  resolve_node2 m defs mb last n ctx st b pos = Ok (st', r) -> labels_ok2 ns st'.
Proof.
  intros Hd Hl Hin H.
  assert (Hsame : s_sym st' = s_sym st -> labels_ok2 ns st').
  { intros E s d0 c Hs. rewrite E. eapply Hl, Hs. }
  unfold resolve_node2 in H. cbv zeta in H.
  destruct n as [s d0|s d0 e|i src|width d e|k e|k e|k e|bi|e].
  - destruct (Cursor.eval_address mb b pos (negb last)) as [a| |]; try discriminate.
    inversion H; subst; clear H. intros s0 d1 c0 Hs0. cbn [s_sym].
    destruct (Nat.eq_dec s0 s) as [->|Hne].
    + destruct (nth_set_nth_same (s_sym st) s (VInt (un a)) VUnknown) as [E|E]; rewrite E.
      * right. eauto. * eapply Hl, Hs0.
    + rewrite nth_set_nth_other by exact Hne. eapply Hl, Hs0.
  - match type of H with match ?x with EOk _ => _ | EErr => _ end = _ => destruct x as [[v c]|]; [|discriminate] end.
    match type of H with (if ?c then _ else _) = _ => destruct c; [discriminate|] end.
    inversion H; subst; clear H. intros s0 d1 c0 Hs0. cbn [s_sym].
    assert (s0 <> s) by (intro; subst; eapply Hd; eauto).
    rewrite nth_set_nth_other by assumption. eapply Hl, Hs0.
  - destruct (nth_error (s_instr st) i) as [d|]; [|discriminate].
    match type of H with match ?x with EOk _ => _ | EErr => _ end = _ => destruct x as [chosen|]; [|discriminate] end.
    inversion H; subst; clear H. apply Hsame. reflexivity.
  - match type of H with match ?x with EOk _ => _ | EErr => _ end = _ => destruct x as [[v c]|]; [|discriminate] end.
    destruct (expect_error_or_bigint v) as [v'|]; [|discriminate].
    destruct (match v' with VInt b0 => EOk (Some b0) | _ => if last then EErr else EOk None end) as [menc|]; [|discriminate].
    match type of H with (if negb ?c then _ else _) = _ => destruct c; cbn [negb] in H; [|discriminate] end.
    inversion H; subst; clear H. apply Hsame. destruct menc; reflexivity.
  - match type of H with match ?x with EOk _ => _ | EErr => _ end = _ => destruct x as [[v c]|]; [|discriminate] end.
    destruct (expect_error_or_bigint v) as [v'|]; [|discriminate].
    match type of H with match ?x with EErr => _ | EOk _ => _ end = _ => destruct x as [z|]; [|discriminate] end.
    destruct (z * Z.of_N (Cursor.bk_unit b) >? usize_max); [discriminate|].
    inversion H; subst; clear H. apply Hsame. reflexivity.
  - match type of H with match ?x with EOk _ => _ | EErr => _ end = _ => destruct x as [[v c]|]; [|discriminate] end.
    match type of H with match ?x with EErr => _ | EOk _ => _ end = _ => destruct x as [z|]; [|discriminate] end.
    destruct (negb (z =? nth k (s_align st) 0)); [inversion H; subst; apply Hsame; reflexivity|].
    destruct (last && (z =? 0)); [discriminate|]. inversion H; subst. apply Hsame. reflexivity.
  - match type of H with match ?x with EOk _ => _ | EErr => _ end = _ => destruct x as [[v c]|]; [|discriminate] end.
    destruct (expect_error_or_bigint v) as [v'|]; [|discriminate].
    match type of H with (if negb ?c then _ else _) = _ => destruct (negb c); [inversion H; subst; apply Hsame; reflexivity|] end.
    destruct last.
    + match type of H with match ?x with Ok _ => _ | Err => _ | Panic => _ end = _ => destruct x; try discriminate end.
      inversion H; subst. apply Hsame. reflexivity.
    + inversion H; subst. apply Hsame. reflexivity.
  - inversion H; subst. exact Hl.
  - destruct (negb last); [inversion H; subst; exact Hl|].
    match type of H with match ?x with EOk _ => _ | EErr => _ end = _ => destruct x as [[v c]|]; [|discriminate] end.
    destruct v as [| | | | |[|]|]; try discriminate. inversion H; subst. exact Hl.
Qed.

Lemma pass2_labels_ok_gen all : syms_distinct2 all ->
  forall ns st c prev acc st' r, (forall n, In n ns -> In n all) -> labels_ok2 all st ->
  pass2 m banks defs mb last ns st c prev acc = Ok (st', r) -> labels_ok2 all st'.
Proof.
  intros Hd. induction ns as [|n ns IH]; intros st c prev acc st' r Hsub Hl H; cbn [pass2] in H.
  - destruct (Cursor.advance mb banks c prev); try discriminate. now inversion H; subst.
  - destruct (step2 m banks defs mb last n st c prev) as [[[[s q] c'] p']| |] eqn:E; try discriminate.
    eapply IH; [| |exact H].
    + intros x Hx. apply Hsub. now right.
    + unfold step2 in E.
      destruct (Cursor.advance mb banks c prev) as [c1| |]; try discriminate.
      destruct (Cursor.enter mb banks c1 (shape (fst n))) as [c2| |]; try discriminate.
      destruct (Cursor.cur_bank banks c2) as [[b pos]| |]; try discriminate.
      destruct (resolve_node2 m defs mb last (fst n) (snd n) st b pos) as [[s0 r0]| |] eqn:E2; try discriminate.
      inversion E; subst; clear E.
      eapply resolve_node2_labels_ok; eauto. destruct n. apply Hsub. now left.
Qed.

Lemma pass2_labels_ok ns st st' r : syms_distinct2 ns -> labels_ok2 ns st ->
  run_pass m banks defs mb last ns st = Ok (st', r) -> labels_ok2 ns st'.
Proof. intros Hd Hl H. unfold run_pass in H. eapply pass2_labels_ok_gen with (ns := ns); eauto. Qed.
End Fix.

(* ---- resolve_iteratively ---- *)
Section Loop.
Variable m : Symbols.mgr.
Variable banks : list Cursor.bank.
Variable defs : list ruledef.
Variable mb : Z.
Variable ns : list cnode.
Hypothesis Hd : syms_distinct2 ns.

Notation P last st := (run_pass m banks defs mb last ns st).

Lemma loop2_inv k i max st st' n : labels_ok2 ns st ->
  loop2 m banks defs mb ns k i max st = Ok (st', n) -> (k + i = max)%nat ->
  labels_ok2 ns st' /\ P true st' = Ok (st', Resolved) /\ (n <= max)%nat.
Proof.
  revert i st. induction k as [|k IH]; intros i st Hl H E; cbn [loop2] in H.
  - destruct (P true st) as [[s r]| |] eqn:Q; try discriminate. destruct r; [|discriminate].
    assert (s = st) by (eapply pass2_fix; eauto). subst s.
    inversion H; subst st' n.
    split; [exact Hl|]. split; [exact Q|lia].
  - destruct (P (Nat.eqb (S i) max) st) as [[s r]| |] eqn:Q; try discriminate.
    pose proof (pass2_labels_ok _ _ _ _ _ _ _ _ _ Hd Hl Q) as Hls.
    destruct r.
    + assert (s = st) by (eapply pass2_fix; eauto). subst s.
      destruct (Nat.eqb (S i) max) eqn:L.
      * inversion H; subst st' n. apply Nat.eqb_eq in L. split; [exact Hl|]. split; [exact Q|lia].
      * destruct (P true st) as [[s2 r2]| |] eqn:Q2; try discriminate. destruct r2; [|discriminate].
        assert (s2 = st) by (eapply pass2_fix; eauto). subst s2.
        inversion H; subst st' n.
        split; [exact Hl|]. split; [exact Q2|]. apply Nat.eqb_neq in L. lia.
    + destruct (Nat.eqb (S i) max) eqn:L; [discriminate|].
      apply IH in H; [exact H|exact Hls|lia].
Qed.
End Loop.

(* The certificate of a result: a last-mode pass from it changes nothing and reports everything resolved, i.e.
   every label equals the address (addr_start + position / unit of its bank, position on an address boundary) of the
   per-bank cursor that reaches it, every instruction's stored encoding is the unique smallest one among its
   resolved candidates evaluated under this very state in the symbol context of the instruction, every data
   element, reservation, alignment and address equals its expression under this state, every `#addr` lies in its
   bank, and no cursor arithmetic overflows. *)
Definition Certified2 (m : Symbols.mgr) (banks : list Cursor.bank) (defs : list ruledef) (mb : Z) (ns : list cnode) (st : state) : Prop :=
  run_pass m banks defs mb true ns st = Ok (st, Resolved).

Theorem certificate2 m banks defs mb ns budget st st' n :
  syms_distinct2 ns -> labels_ok2 ns st ->
  loop2 m banks defs mb ns budget 0 budget st = Ok (st', n) ->
  Certified2 m banks defs mb ns st' /\ (n <= budget)%nat.
Proof.
  intros Hd Hl H. destruct (loop2_inv m banks defs mb ns Hd budget 0 budget st st' n Hl H ltac:(lia)) as [_ [Hc Hn]].
  split; assumption.
Qed.
