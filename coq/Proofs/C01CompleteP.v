(* C01_complete: a size-static program that the language definition accepts is assembled, to the same answer, within
   3 + chain passes, where `chain` is the number of extra passes the constants need to settle (computed by an abstract
   run of the passes on "which symbols are known").
   Part 1 (this file): one guessing pass from an under-informed state. *)
From Coq Require Import NArith ZArith List Bool Lia.
From CA Require Import Model.Lexer Model.Parser Model.Literal Model.BigIntOps Model.Evaluator Model.Matcher Model.Resolver
  Spec.Denote Spec.Chain Proofs.EvalSemP Proofs.EvalMonoP Proofs.ResolverFixP Proofs.ResolverMonoP Proofs.ResolverTopP
  Proofs.CertifiedP Proofs.DenoteP Proofs.StaticSizeP Proofs.CertUniqueP Proofs.DenoteCompleteP.
Import ListNotations.
Open Scope Z_scope.

(* ---------- under a provider that answers Unknown where the other knows, a match resolves alike or to Unknown ---------- *)
Section Sou.
Variable defs : list ruledef.
Variables pv1 pv2 : N -> list text -> eres value.
Hypothesis Hrel : forall l p, pv1 l p = pv2 l p \/ pv1 l p = EOk VUnknown.

Lemma eval_sou e ctx : eval code_ops pv1 e ctx = eval code_ops pv2 e ctx \/ exists c, eval code_ops pv1 e ctx = EOk (VUnknown, c).
Proof. apply eval_unknown_or_same. intros l p _. apply Hrel. Qed.

Lemma resolve_match_sou : forall m, resolve_match defs pv1 m = resolve_match defs pv2 m \/ resolve_match defs pv1 m = EOk VUnknown.
Proof.
  fix IH 1. intros [rd ru args ex]. cbn [resolve_match].
  destruct (get_rule defs rd ru) as [r|]; [|left; reflexivity].
  match goal with |- ?f args ?p [] = ?g args ?p [] \/ _ =>
    assert (G : forall a q c, f a q c = g a q c \/ f a q c = EOk VUnknown); [|apply G] end.
  fix IHa 1. intros [|a args0] params ctx.
  - cbn beta iota. destruct (eval_sou (rexpr r) ctx) as [S|[c S]]; rewrite S; [left; reflexivity|right; reflexivity].
  - destruct a as [e s t exc|n s t exc].
    + destruct params as [|[pn pt] pr]; cbn beta iota; [left; reflexivity|].
      destruct (eval_sou e []) as [S|[c S]]; rewrite S; [|right; reflexivity].
      destruct (eval code_ops pv2 e []) as [[x c]|]; [|left; reflexivity].
      destruct (should_propagate x); [left; reflexivity|].
      destruct (constrain x pt) as [c0|]; [|left; reflexivity].
      destruct (should_propagate c0); [left; reflexivity|]. apply IHa.
    + destruct params as [|[pn pt] pr]; cbn beta iota; [left; reflexivity|].
      destruct (IH n) as [S|S]; rewrite S; [|right; reflexivity].
      destruct (resolve_match defs pv2 n) as [x|]; [|left; reflexivity].
      destruct (should_propagate x); [left; reflexivity|]. apply IHa.
Qed.

Lemma resolve_matches_sou : forall ms rs2, resolve_matches defs pv2 ms = EOk rs2 -> exists rs1, resolve_matches defs pv1 ms = EOk rs1.
Proof.
  unfold resolve_matches. induction ms as [|m ms IH]; intros rs2 H; [eauto|].
  cbn beta iota in H |- *.
  destruct (resolve_match defs pv2 m) as [v|] eqn:E; [|discriminate].
  assert (Tail : exists l, (fix go (ms : list imatch) : eres (list mres) :=
        match ms with [] => EOk [] | m :: r => match resolve_match defs pv1 m with EErr => EErr | EOk v =>
          match coallesce v with
          | VUnknown => match go r with EOk l => EOk (MUnresolved :: l) | EErr => EErr end
          | VFailed => match go r with EOk l => EOk (MFailed :: l) | EErr => EErr end
          | VInt b => match bsz b with Some _ => match go r with EOk l => EOk (MResolved b :: l) | EErr => EErr end | None => EErr end
          | _ => EErr end end end) ms = EOk l).
  { destruct (coallesce v) as [| | |bb| | |]; try discriminate;
      try (destruct (bsz bb); [|discriminate]);
      match type of H with match ?x with _ => _ end = _ => destruct x as [l|] eqn:G; [|discriminate] end;
      exact (IH l eq_refl). }
  destruct Tail as [l Hl].
  destruct (resolve_match_sou m) as [S|S]; rewrite S.
  - rewrite E. destruct (coallesce v) as [| | |bb| | |]; try discriminate; rewrite ?Hl; eauto.
    destruct (bsz bb); [eauto|discriminate].
  - cbn [coallesce]. rewrite Hl. eauto.
Qed.
End Sou.

(* what the guessing mode selects is one of the resolved candidates, or nothing *)
Lemma resolve_encoding_guess defs pv ms rs : resolve_matches defs pv ms = EOk rs ->
  exists ch, resolve_encoding defs pv true ms = EOk ch /\ forall b, ch = Some b -> In b (resolved_of rs).
Proof.
  intro H. unfold resolve_encoding. rewrite H. fold (resolved_of rs).
  destruct (resolved_of rs) as [|b0 rest] eqn:R; [exists None; split; [reflexivity|discriminate]|].
  cbn [negb andb]. eexists. split; [reflexivity|].
  intros b Hb.
  match type of Hb with hd_error (filter ?f ?l) = _ =>
    destruct (filter f l) as [|c cs] eqn:C; [discriminate|];
    cbn in Hb; injection Hb as ->;
    assert (Hin : In b (filter f l)) by (rewrite C; now left);
    apply filter_In in Hin; exact (proj1 Hin) end.
Qed.

(* ---------- the abstract run (Spec.Chain): which symbols are certainly right after each pass ---------- *)
Lemma expr_vars_eq : forall e, expr_vars e = evars e.
Proof. reflexivity. Qed.
Lemma decl_ids_eq ns : decl_ids ns = sym_ids ns.
Proof. reflexivity. Qed.

Lemma memb_In i l : memb i l = true <-> In i l.
Proof. unfold memb. destruct (in_dec Nat.eq_dec i l); split; intro; auto; discriminate. Qed.

Section Weak.
Variable names : list text.
Variable defs : list ruledef.
Variable ns : list node.
Variables st0 st : state.
Hypothesis HX : cert_ctx names defs ns st0 st.

Lemma in_mid' (n : node) l1 l2 : ns = l1 ++ n :: l2 -> In n ns.
Proof. intros ->. apply in_or_app. right. now left. Qed.

(* the symbol table of an under-informed state *)
Record symok (K : list nat) (l : list value) : Prop := {
  so_len : length l = length (s_sym st);
  so_weak : forall i, nth_error l i = nth_error (s_sym st) i \/ nth_error l i = Some VUnknown;
  so_known : forall i, sym_known ns K i = true -> nth_error l i = nth_error (s_sym st) i }.

Lemma symok_write K K' l s v' : symok K l ->
  (v' = nth s (s_sym st) VUnknown \/ v' = VUnknown) ->
  (forall i, i <> s -> sym_known ns K' i = true -> sym_known ns K i = true) ->
  (sym_known ns K' s = true -> v' = nth s (s_sym st) VUnknown) ->
  symok K' (set_nth l s v').
Proof.
  intros [HL W Kn] Hv Hoth Hs. constructor.
  - now rewrite set_nth_length.
  - intro i. destruct (Nat.eq_dec i s) as [->|Hne]; [|rewrite nth_error_set_nth_other by exact Hne; apply W].
    destruct (nth_error l s) as [z|] eqn:El.
    + rewrite (nth_error_set_nth_same _ _ _ _ El). destruct Hv as [->| ->]; [left|now right].
      rewrite nth_nth_error. destruct (nth_error (s_sym st) s) eqn:Et; [reflexivity|]. apply nth_error_None in Et.
      assert (s < length l)%nat by (apply nth_error_Some; congruence). lia.
    + rewrite nth_error_set_nth_none by exact El. apply W.
  - intros i Hi. destruct (Nat.eq_dec i s) as [->|Hne].
    + rewrite (Hs Hi). apply set_nth_target. exact HL.
    + rewrite nth_error_set_nth_other by exact Hne. apply Kn. apply Hoth; assumption.
Qed.

Lemma sym_known_cons_other K s i : i <> s -> sym_known ns (s :: K) i = sym_known ns K i.
Proof.
  intro Hne. unfold sym_known. f_equal. unfold memb.
  destruct (in_dec Nat.eq_dec i (s :: K)) as [H|H], (in_dec Nat.eq_dec i K) as [H'|H']; try reflexivity.
  - destruct H as [H|H]; [congruence|contradiction]. - exfalso. apply H. now right.
Qed.
Lemma sym_known_remove_other K s i : sym_known ns (remove Nat.eq_dec s K) i = true -> sym_known ns K i = true.
Proof.
  unfold sym_known. intro H. apply orb_prop in H. destruct H as [H|H]; [|rewrite H; apply orb_true_r].
  apply memb_In in H. apply in_remove in H. destruct H as [H _]. apply memb_In in H. now rewrite H.
Qed.
Lemma sym_known_remove_self K s : In s (sym_ids ns) -> sym_known ns (remove Nat.eq_dec s K) s = false.
Proof.
  intro Hs. unfold sym_known. change (decl_ids ns) with (sym_ids ns). apply orb_false_iff. split.
  - destruct (memb s (remove Nat.eq_dec s K)) eqn:E; [|reflexivity]. apply memb_In in E. apply remove_In in E. destruct E.
  - apply negb_false_iff. now apply memb_In.
Qed.

(* every resolved candidate of an instruction, under any provider, has the size of the certified encoding *)
Lemma cand_size ns1 i src ns2 : ns = ns1 ++ NInstr i src :: ns2 ->
  exists d, nth_error (s_instr st) i = Some d /\
    (forall pv rs b, resolve_matches defs pv (i_matches d) = EOk rs -> In b (resolved_of rs) -> size_of b = size_of (i_enc d)) /\
    exists rs, resolve_matches defs (pvar names st (cursor ns1 st 0) true) (i_matches d) = EOk rs.
Proof.
  intro E. destruct (instr_size names defs ns st0 st HX _ _ _ _ E) as [d0 [d [H0 [H1 [Hm [Hsz Hre]]]]]].
  exists d. split; [exact H1|].
  pose proof (static_at names defs ns st0 st HX _ (in_mid' _ _ _ E)) as Hs. cbn beta iota in Hs. rewrite H0 in Hs.
  destruct (all_same_static_inv _ _ Hs) as [s [_ Hall]].
  assert (Hty : forall m, In m (i_matches d) -> match_typed defs m = true).
  { intros m Hm'. rewrite Hm in Hm'. eapply (cx_typed _ _ _ _ _ HX); [eapply nth_error_In; exact H0|exact Hm']. }
  assert (Hany : forall pv rs b, resolve_matches defs pv (i_matches d) = EOk rs -> In b (resolved_of rs) -> size_of b = s).
  { intros pv rs b Hrs Hb.
    destruct (resolve_matches_sizes defs pv (cx_defs _ _ _ _ _ HX) _ _ _ Hty Hrs Hb) as [m [Hmin Hsz']].
    rewrite Hm in Hmin. exact (Hsz' s (Hall m Hmin)). }
  destruct (resolve_encoding_strict _ _ _ _ Hre) as [rs [Hrs [Hb _]]].
  split.
  - intros pv rs' b Hrs' Hb'. rewrite (Hany _ _ _ Hrs' Hb'). symmetry. exact (Hany _ _ _ Hrs Hb).
  - exists rs. eapply resolve_matches_mono; [apply pvar_mono|exact Hrs].
Qed.

(* ---------- the invariant of a guessing pass from an under-informed state `o` ---------- *)
Record winv (K : list nat) (ns1 : list node) (o cur : state) : Prop := {
  w_sym : symok K (s_sym cur);
  w_match : map i_matches (s_instr cur) = map i_matches (s_instr st);
  w_sz : sz_agree ns st cur;
  w_dlen : length (s_data cur) = length (s_data st);
  w_res : upd_rel (res_ids ns1) (s_res cur) (s_res o) (s_res st);
  w_align : upd_rel (align_ids ns1) (s_align cur) (s_align o) (s_align st);
  w_addr : upd_rel (addr_ids ns1) (s_addr cur) (s_addr o) (s_addr st) }.

Lemma pv_rel K cur pos : symok K (s_sym cur) ->
  forall l p, pvar names cur pos true l p = pvar names st pos true l p \/ pvar names cur pos true l p = EOk VUnknown.
Proof. intros S l p. apply pvar_weak. apply (so_weak _ _ S). Qed.

Lemma eval_weak K cur pos e v c : symok K (s_sym cur) ->
  eval code_ops (pvar names st pos false) e [] = EOk (v, c) ->
  (eval code_ops (pvar names cur pos true) e [] = EOk (v, c) \/
   exists c', eval code_ops (pvar names cur pos true) e [] = EOk (VUnknown, c')) /\
  (reads_known names ns K e = true -> eval code_ops (pvar names cur pos true) e [] = EOk (v, c)).
Proof.
  intros S Hev. pose proof (eval_mono code_ops _ _ (pvar_mono names st pos) _ _ _ Hev) as Hev'. split.
  - destruct (eval_sou (pvar names cur pos true) (pvar names st pos true) (pv_rel K cur pos S) e []) as [E|E];
      [left; now rewrite E|right; exact E].
  - intro Hr. rewrite <- Hev'. apply eval_ext. intros l p Hlp. apply pvar_same.
    intros n s' -> -> Hd Hf. apply (so_known _ _ S).
    unfold reads_known in Hr. rewrite forallb_forall in Hr. rewrite <- expr_vars_eq in Hlp. specialize (Hr _ Hlp). cbn beta iota in Hr.
    rewrite Hd, Hf in Hr. exact Hr.
Qed.

(* ---------- data elements ---------- *)
Record dinv (cur cur' : state) : Prop := {
  d_sym : s_sym cur' = s_sym cur;
  d_instr : s_instr cur' = s_instr cur;
  d_res : s_res cur' = s_res cur;
  d_align : s_align cur' = s_align cur;
  d_addr : s_addr cur' = s_addr cur;
  d_len : length (s_data cur') = length (s_data st);
  d_sz : forall d, In d (data_ids ns) -> size_of (nth d (s_data cur') dflt) = size_of (nth d (s_data st) dflt) }.

Lemma data_weak K cur w : symok K (s_sym cur) -> forall el cur' pos acc,
  dinv cur cur' -> data_cert names st w el pos -> (forall d e, In (d, e) el -> In d (data_ids ns)) ->
  exists st'' r, data_go names false w el cur' pos acc =
      EOk (st'', r, fold_left (fun p (de : nat * expr) => p + size_of (nth (fst de) (s_data st) dflt)) el pos)
    /\ dinv cur st''.
Proof.
  intro S. induction el as [|[d e] r IH]; intros cur' pos acc I Hc Hin; cbn [data_go].
  - exists cur', acc. split; [reflexivity|exact I].
  - cbn [data_cert] in Hc. destruct Hc as [[v [c [b [Ev [Ex [Hb Hn]]]]]] Hr].
    assert (S' : symok K (s_sym cur')) by (rewrite (d_sym _ _ I); exact S).
    assert (Hd : In d (data_ids ns)) by (eapply Hin; now left).
    assert (Hin' : forall d0 e0, In (d0, e0) r -> In d0 (data_ids ns)) by (intros; eapply Hin; right; eauto).
    cbv zeta. cbn [negb].
    destruct (proj1 (eval_weak K cur' pos e v c S' Ev)) as [E|[c' E]]; rewrite E.
    + rewrite Ex. cbn beta iota. cbn [negb].
      rewrite <- Hn. cbn [s_data]. change (mk 0 (Some 0%N)) with dflt.
      rewrite (nth_set_nth_target (s_data cur') (s_data st) d dflt (d_len _ _ I)).
      cbn [fold_left fst]. apply IH; [|exact Hr|exact Hin'].
      destruct I as [A B C D F L Z]. constructor; cbn [s_sym s_instr s_data s_res s_align s_addr]; try assumption.
      * now rewrite set_nth_length.
      * intros d' Hd'. destruct (Nat.eq_dec d' d) as [->|Hne].
        -- now rewrite (nth_set_nth_target (s_data cur') (s_data st) d dflt L).
        -- rewrite nth_set_nth_other by exact Hne. apply Z, Hd'.
    + cbn [expect_error_or_bigint coallesce]. cbn beta iota. cbn [negb]. change (mk 0 (Some 0%N)) with dflt.
      rewrite (d_sz _ _ I d Hd). cbn [fold_left fst]. apply IH; [exact I|exact Hr|exact Hin'].
Qed.

Ltac winv_same I :=
  destruct I as [S M Z L R A D]; constructor; cbn [s_sym s_instr s_data s_res s_align s_addr]; try assumption;
  try (eapply upd_rel_same; [eassumption|ids_tac]).

Lemma matches_at cur i d : map i_matches (s_instr cur) = map i_matches (s_instr st) -> nth_error (s_instr st) i = Some d ->
  exists dc, nth_error (s_instr cur) i = Some dc /\ i_matches dc = i_matches d.
Proof.
  intros Hm Hd.
  assert (E : nth_error (map i_matches (s_instr cur)) i = nth_error (map i_matches (s_instr st)) i) by now rewrite Hm.
  rewrite !nth_error_map, Hd in E. cbn in E. destruct (nth_error (s_instr cur) i) as [dc|]; [|discriminate].
  exists dc. split; [reflexivity|]. cbn in E. congruence.
Qed.

Lemma node_weak K ns1 n ns2 o cur : ns = ns1 ++ n :: ns2 -> winv K ns1 o cur ->
  exists cur' res, resolve_node names defs false n cur (cursor ns1 st 0) = EOk (cur', res, advance st n (cursor ns1 st 0))
    /\ winv (kstep names ns K n) (ns1 ++ [n]) o cur'.
Proof.
  intros E I. set (pos := cursor ns1 st 0). pose proof (in_mid' _ _ _ E) as Hin.
  destruct n as [s|s e|i src|w el|k e|k e|k e]; cbn [resolve_node negb kstep].
  - (* label *)
    destruct (label_at names defs ns st0 st HX _ _ _ E) as [Hal Hv]. fold pos in Hal, Hv.
    unfold address_at. cbn [negb]. rewrite andb_false_r. eexists _, _. split; [reflexivity|].
    winv_same I. eapply symok_write; [exact S|left; now symmetry| |intros _; now symmetry].
    intros j Hne Hj. now rewrite sym_known_cons_other in Hj.
  - (* constant *)
    destruct (const_at names defs ns st0 st HX _ _ _ _ E) as [v [c [Hev Hv]]]. fold pos in Hev.
    destruct (eval_weak K cur pos e v c (w_sym _ _ _ _ I) Hev) as [Hcase Hrk].
    assert (Hs : In s (sym_ids ns)) by (eapply in_ids_const; eauto).
    destruct (reads_known names ns K e) eqn:Rk.
    + rewrite (Hrk eq_refl). cbn [andb]. eexists _, _. split; [reflexivity|].
      winv_same I. eapply symok_write; [exact S|left; now symmetry| |intros _; now symmetry].
      intros j Hne Hj. now rewrite sym_known_cons_other in Hj.
    + destruct Hcase as [Ec|[c' Ec]]; rewrite Ec; cbn [andb]; (eexists _, _; split; [reflexivity|]); winv_same I.
      * eapply symok_write; [exact S|left; now symmetry| |intros _; now symmetry].
        intros j _ Hj. eapply sym_known_remove_other; eauto.
      * eapply symok_write; [exact S|now right| |].
        -- intros j _ Hj. eapply sym_known_remove_other; eauto.
        -- intro Hk. rewrite (sym_known_remove_self K s Hs) in Hk. discriminate.
  - (* instruction *)
    destruct (cand_size _ _ _ _ E) as [d [H1 [Hany [rs Hrs]]]]. fold pos in Hrs.
    destruct (matches_at cur i d (w_match _ _ _ _ I) H1) as [dc [Hdc Hmc]]. rewrite Hdc, Hmc.
    destruct (resolve_matches_sou defs (pvar names cur pos true) (pvar names st pos true)
                (pv_rel K cur pos (w_sym _ _ _ _ I)) _ _ Hrs) as [rs1 Hrs1].
    destruct (resolve_encoding_guess _ _ _ _ Hrs1) as [ch [Hch Hchin]]. rewrite Hch.
    assert (Hi : In i (instr_ids ns)) by (eapply in_ids_instr; eauto).
    set (d' := match ch with Some b => {| i_matches := i_matches d; i_enc := b |} | None => dc end).
    assert (Hsz' : size_of (i_enc d') = size_of (i_enc d)).
    { subst d'. destruct ch as [b|]; cbn [i_enc].
      - eapply Hany; [exact Hrs1|]. apply Hchin. reflexivity.
      - pose proof (proj1 (w_sz _ _ _ _ I) i Hi) as Q. unfold isz in Q. now rewrite Hdc, H1 in Q. }
    assert (Hm' : i_matches d' = i_matches dc) by (subst d'; destruct ch; cbn [i_matches]; congruence).
    eexists _, _. split.
    + cbn [advance]. rewrite H1. fold d'. rewrite Hsz'. reflexivity.
    + fold d'. winv_same I.
      * rewrite map_set_nth. rewrite <- M. apply set_nth_id. intros y Hy. rewrite nth_error_map, Hdc in Hy. cbn in Hy. congruence.
      * destruct Z as [Zi Zd]. split; [|exact Zd]. cbn [s_instr]. intros j Hj. unfold isz.
        destruct (Nat.eq_dec j i) as [->|Hne].
        -- rewrite (nth_error_set_nth_same _ _ _ _ Hdc), H1. exact Hsz'.
        -- rewrite nth_error_set_nth_other by exact Hne. apply Zi, Hj.
  - (* data *)
    pose proof (data_at names defs ns st0 st HX _ _ _ _ E) as Hc. fold pos in Hc.
    assert (I0 : dinv cur cur).
    { constructor; try reflexivity; [exact (w_dlen _ _ _ _ I)|exact (proj2 (w_sz _ _ _ _ I))]. }
    destruct (data_weak K cur w (w_sym _ _ _ _ I) el cur pos Resolved I0 Hc) as [st'' [r [H1 H2]]].
    { intros d e He. eapply in_ids_data; eauto. }
    exists st'', r. split; [exact H1|].
    destruct H2 as [A B C D F L Zd]. destruct I as [S M [Zi _] _ R Al Ad]. constructor.
    + now rewrite A. + now rewrite B.
    + split; [intros j Hj; rewrite B; apply Zi, Hj|exact Zd].
    + exact L.
    + rewrite C. eapply upd_rel_same; [exact R|ids_tac].
    + rewrite D. eapply upd_rel_same; [exact Al|ids_tac].
    + rewrite F. eapply upd_rel_same; [exact Ad|ids_tac].
  - (* reserve *)
    destruct (cert_at names defs ns st0 st HX _ _ _ E) as [p' H]. fold pos in H.
    apply resolve_node_agree in H. cbn [resolve_node negb] in H.
    destruct (res_at names defs ns st0 st HX _ _ _ _ E) as [b [c [Hlit Hv]]].
    rewrite (eval_closed _ (pvar names st pos true) _ _ _ [] Hlit) in H. rewrite (eval_closed _ (pvar names cur pos true) _ _ _ [] Hlit).
    cbn [expect_error_or_bigint coallesce] in H |- *.
    destruct ((bv b <? 0) || (bv b >? u32_max)); [discriminate|].
    cbn [advance]. rewrite Hv. eexists _, _. split; [reflexivity|].
    winv_same I. eapply upd_rel_write; [exact R|ids_tac|]. eapply nth_target. exact Hv.
  - (* align *)
    destruct (cert_at names defs ns st0 st HX _ _ _ E) as [p' H]. fold pos in H.
    apply resolve_node_agree in H. cbn [resolve_node negb] in H.
    destruct (align_at names defs ns st0 st HX _ _ _ _ E) as [b [c [Hlit Hv]]].
    rewrite (eval_closed _ (pvar names st pos true) _ _ _ [] Hlit) in H. rewrite (eval_closed _ (pvar names cur pos true) _ _ _ [] Hlit).
    destruct ((bv b <? 0) || (bv b >? usize_max)); [discriminate|].
    cbn [advance andb]. rewrite Hv.
    destruct (negb (bv b =? nth k (s_align cur) 0)); (eexists _, _; split; [reflexivity|]);
      winv_same I; (eapply upd_rel_write; [exact A|ids_tac|]; eapply nth_target; exact Hv).
  - (* address *)
    destruct (cert_at names defs ns st0 st HX _ _ _ E) as [p' H]. fold pos in H.
    apply resolve_node_agree in H. cbn [resolve_node negb] in H.
    destruct (addr_at names defs ns st0 st HX _ _ _ _ E) as [b [c [Hlit [Hv Hr]]]].
    rewrite (eval_closed _ (pvar names st pos true) _ _ _ [] Hlit) in H. rewrite (eval_closed _ (pvar names cur pos true) _ _ _ [] Hlit).
    cbn [expect_error_or_bigint coallesce] in H |- *. cbv zeta. cbn [advance andb]. rewrite Hv. cbv zeta.
    destruct (negb (bv b =? nth k (s_addr cur) 0)); (eexists _, _; split; [reflexivity|]);
      winv_same I; (eapply upd_rel_write; [exact D|ids_tac|]; eapply nth_target; exact Hv).
Qed.

Lemma kpass_snoc K l n : kpass names ns K (l ++ [n]) = kstep names ns (kpass names ns K l) n.
Proof. unfold kpass. now rewrite fold_left_app. Qed.

Lemma pass_weak : forall ns2 ns1 K o cur acc, ns = ns1 ++ ns2 -> winv K ns1 o cur ->
  exists cur' r, pass names defs false ns2 cur (cursor ns1 st 0) acc = EOk (cur', r) /\ winv (kpass names ns K ns2) ns o cur'.
Proof.
  induction ns2 as [|n ns2 IH]; intros ns1 K o cur acc E I; cbn [pass].
  - rewrite app_nil_r in E. subst ns1. exists cur, acc. auto.
  - destruct (node_weak _ _ _ _ _ _ E I) as [cur' [res [H1 I1]]]. rewrite H1.
    rewrite <- (cursor_snoc ns1 n st 0). unfold kpass. cbn [fold_left]. apply IH; [rewrite <- app_assoc; exact E|exact I1].
Qed.
End Weak.

(* ---------- a guessing pass from a state `o` that already holds every symbol: it lands on the certified state ---------- *)
Section Final.
Variable names : list text.
Variable defs : list ruledef.
Variable ns : list node.
Variables st0 st o : state.
Hypothesis HX : cert_ctx names defs ns st0 st.
Hypothesis Ho_sym : s_sym o = s_sym st.
Hypothesis Ho_res : s_res o = s_res st.
Hypothesis Ho_align : s_align o = s_align st.
Hypothesis Ho_addr : s_addr o = s_addr st.
Hypothesis Ho_match : map i_matches (s_instr o) = map i_matches (s_instr st).
Hypothesis Ho_fi : fr (instr_ids ns) (s_instr o) (s_instr st).
Hypothesis Ho_fd : fr (data_ids ns) (s_data o) (s_data st).

Record finv (ns1 : list node) (cur : state) : Prop := {
  fi_sym : s_sym cur = s_sym st;
  fi_res : s_res cur = s_res st;
  fi_align : s_align cur = s_align st;
  fi_addr : s_addr cur = s_addr st;
  fi_instr : upd_rel (instr_ids ns1) (s_instr cur) (s_instr o) (s_instr st);
  fi_data : upd_rel (data_ids ns1) (s_data cur) (s_data o) (s_data st) }.

Lemma data_final w : forall el pre ns1 cur pos acc,
  finv (ns1 ++ [NData w pre]) cur -> data_cert names st w el pos ->
  exists st' r, data_go names false w el cur pos acc =
      EOk (st', r, fold_left (fun p (de : nat * expr) => p + size_of (nth (fst de) (s_data st) dflt)) el pos)
    /\ finv (ns1 ++ [NData w (pre ++ el)]) st'.
Proof.
  induction el as [|[d e] r IH]; intros pre ns1 cur pos acc I Hc; cbn [data_go].
  - exists cur, acc. rewrite app_nil_r. split; [reflexivity|exact I].
  - cbn [data_cert] in Hc. destruct Hc as [[v [c [b [Ev [Ex [Hb Hn]]]]]] Hr].
    cbv zeta. cbn [negb]. rewrite (eval_guess names st _ _ _ _ _ (fi_sym _ _ I) Ev). rewrite Ex. cbn beta iota. cbn [negb].
    rewrite <- Hn. cbn [s_data]. change (mk 0 (Some 0%N)) with dflt.
    rewrite (nth_set_nth_target (s_data cur) (s_data st) d dflt (proj1 (fi_data _ _ I))).
    match goal with |- exists st' r0, data_go _ _ _ _ ?c ?p ?a = _ /\ _ =>
      destruct (IH (pre ++ [(d, e)]) ns1 c p a) as [st' [r' [H1 H2]]]; [|exact Hr|] end.
    + destruct I as [A B C D Ei Ed]. constructor; cbn [s_sym s_instr s_data s_res s_align s_addr]; try assumption.
      * eapply upd_rel_same; [exact Ei|]. intro i. unfold instr_ids. rewrite !flat_map_app. cbn [flat_map]. tauto.
      * eapply upd_rel_write; [exact Ed|apply data_ids_snoc|]. eapply nth_target. reflexivity.
    + exists st', r'. split; [exact H1|]. rewrite <- app_assoc in H2. exact H2.
Qed.

Ltac finv_same I :=
  destruct I as [A B C D Ei Ed]; constructor; cbn [s_sym s_instr s_data s_res s_align s_addr]; try assumption;
  try (eapply upd_rel_same; [eassumption|ids_tac]).

Lemma node_final ns1 n ns2 cur : ns = ns1 ++ n :: ns2 -> finv ns1 cur ->
  exists cur' res, resolve_node names defs false n cur (cursor ns1 st 0) = EOk (cur', res, advance st n (cursor ns1 st 0))
    /\ finv (ns1 ++ [n]) cur'.
Proof.
  intros E I. set (pos := cursor ns1 st 0).
  destruct n as [s|s e|i src|w el|k e|k e|k e]; cbn [resolve_node negb].
  - (* label *)
    destruct (label_at names defs ns st0 st HX _ _ _ E) as [Hal Hv]. fold pos in Hal, Hv.
    unfold address_at. cbn [negb]. rewrite andb_false_r. eexists _, _. split; [reflexivity|].
    finv_same I. rewrite A. apply set_nth_id. eapply nth_target; exact Hv.
  - (* constant *)
    destruct (const_at names defs ns st0 st HX _ _ _ _ E) as [v [c [Hev Hv]]]. fold pos in Hev.
    rewrite (eval_guess names st _ _ _ _ _ (fi_sym _ _ I) Hev). cbn [andb]. eexists _, _. split; [reflexivity|].
    finv_same I. rewrite A. apply set_nth_id. eapply nth_target; exact Hv.
  - (* instruction *)
    destruct (instr_size names defs ns st0 st HX _ _ _ _ E) as [d0 [d [H0 [H1 [Hm [Hsz Hre]]]]]]. fold pos in Hre.
    assert (Hdc : exists dc, nth_error (s_instr cur) i = Some dc /\ i_matches dc = i_matches d).
    { destruct (upd_rel_either _ _ _ _ i (fi_instr _ _ I)) as [Q|Q]; rewrite Q; [exists d; auto|].
      exact (matches_at st o i d Ho_match H1). }
    destruct Hdc as [dc [Hdc Hmc]]. rewrite Hdc, Hmc.
    rewrite (resolve_encoding_mono defs (pvar names st pos false) (pvar names cur pos true)) with (b := i_enc d); [|
      intros l p v Hp; rewrite (pvar_sym_eq names st _ _ _ _ _ (fi_sym _ _ I)); apply (pvar_mono names st pos); exact Hp | exact Hre].
    assert (Hnew : {| i_matches := i_matches d; i_enc := i_enc d |} = d) by (destruct d; reflexivity).
    rewrite Hnew. eexists _, _. split.
    + cbn [advance]. rewrite H1. reflexivity.
    + finv_same I. eapply upd_rel_write; [exact Ei|ids_tac|]. intros y Hy. congruence.
  - (* data *)
    pose proof (data_at names defs ns st0 st HX _ _ _ _ E) as Hc. fold pos in Hc.
    assert (I0 : finv (ns1 ++ [NData w []]) cur).
    { destruct I as [A B C D Ei Ed]. constructor; try assumption.
      - eapply upd_rel_same; [exact Ei|]. ids_tac.
      - eapply upd_rel_same; [exact Ed|]. intro j. unfold data_ids. rewrite flat_map_app, in_app_iff. cbn. tauto. }
    destruct (data_final w el [] ns1 cur pos Resolved I0 Hc) as [st' [r [H1 H2]]].
    exists st', r. split; [exact H1|exact H2].
  - (* reserve *)
    destruct (cert_at names defs ns st0 st HX _ _ _ E) as [p' H]. fold pos in H.
    pose proof (resolve_node_advance _ _ _ _ _ _ H) as Hp. apply resolve_node_agree in H. cbn [resolve_node negb] in H.
    destruct (res_at names defs ns st0 st HX _ _ _ _ E) as [b [c [Hlit Hv]]].
    rewrite (eval_closed _ (pvar names st pos true) _ _ _ [] Hlit) in H. rewrite (eval_closed _ (pvar names cur pos true) _ _ _ [] Hlit). cbn [expect_error_or_bigint coallesce] in H |- *.
    destruct ((bv b <? 0) || (bv b >? u32_max)); [discriminate|].
    injection H as _ _ Hp'. rewrite <- Hp, <- Hp'. eexists _, _. split; [reflexivity|].
    finv_same I. rewrite B. apply set_nth_id. eapply nth_target. exact Hv.
  - (* align *)
    destruct (cert_at names defs ns st0 st HX _ _ _ E) as [p' H]. fold pos in H.
    pose proof (resolve_node_advance _ _ _ _ _ _ H) as Hp. apply resolve_node_agree in H. cbn [resolve_node negb] in H.
    destruct (align_at names defs ns st0 st HX _ _ _ _ E) as [b [c [Hlit Hv]]].
    rewrite (eval_closed _ (pvar names st pos true) _ _ _ [] Hlit) in H. rewrite (eval_closed _ (pvar names cur pos true) _ _ _ [] Hlit).
    destruct ((bv b <? 0) || (bv b >? usize_max)); [discriminate|].
    rewrite (fi_align _ _ I). rewrite Hv in H |- *. rewrite Z.eqb_refl in H |- *. cbn [negb andb] in H |- *.
    injection H as _ Hp'. rewrite <- Hp, <- Hp'. eexists _, _. split; [reflexivity|].
    finv_same I. rewrite <- Hv. apply set_nth_id. eapply nth_target. reflexivity.
  - (* address *)
    destruct (cert_at names defs ns st0 st HX _ _ _ E) as [p' H]. fold pos in H.
    pose proof (resolve_node_advance _ _ _ _ _ _ H) as Hp. apply resolve_node_agree in H. cbn [resolve_node negb] in H.
    destruct (addr_at names defs ns st0 st HX _ _ _ _ E) as [b [c [Hlit [Hv Hr]]]].
    rewrite (eval_closed _ (pvar names st pos true) _ _ _ [] Hlit) in H. rewrite (eval_closed _ (pvar names cur pos true) _ _ _ [] Hlit). cbn [expect_error_or_bigint coallesce] in H |- *. cbv zeta in H |- *.
    rewrite (fi_addr _ _ I). rewrite Hv in H |- *. rewrite Z.eqb_refl in H |- *. cbn [negb andb] in H |- *.
    injection H as _ Hp'. rewrite <- Hp, <- Hp'. eexists _, _. split; [reflexivity|].
    finv_same I. rewrite <- Hv. apply set_nth_id. eapply nth_target. reflexivity.
Qed.

Lemma final_ok : forall ns2 ns1 cur acc, ns = ns1 ++ ns2 -> finv ns1 cur ->
  exists st3 r, pass names defs false ns2 cur (cursor ns1 st 0) acc = EOk (st3, r) /\ finv ns st3.
Proof.
  induction ns2 as [|n ns2 IH]; intros ns1 cur acc E I; cbn [pass].
  - rewrite app_nil_r in E. subst ns1. exists cur, acc. auto.
  - destruct (node_final _ _ _ _ E I) as [cur' [res [H1 I1]]]. rewrite H1.
    rewrite <- cursor_snoc. apply IH; [rewrite <- app_assoc; exact E|exact I1].
Qed.

Lemma finv_final st3 : finv ns st3 -> st3 = st.
Proof.
  intros [A B C D Ei Ed].
  assert (Hi : s_instr st3 = s_instr st) by (eapply upd_rel_done; [exact Ei|exact Ho_fi]).
  assert (Hdt : s_data st3 = s_data st) by (eapply upd_rel_done; [exact Ed|exact Ho_fd]).
  destruct st3, st; cbn in *; congruence.
Qed.


Theorem final_pass acc : exists r, pass names defs false ns o 0 acc = EOk (st, r).
Proof.
  assert (I0 : finv [] o).
  { constructor; try assumption; apply upd_rel_init; [exact (proj1 Ho_fi)|exact (proj1 Ho_fd)]. }
  destruct (final_ok ns [] o acc eq_refl I0) as [st3 [r [H3 I3]]]. cbn [cursor fold_left] in H3.
  rewrite (finv_final _ I3) in H3. eauto.
Qed.
End Final.

(* ---------- the run of the assembler ---------- *)
Fixpoint guess_iter (names : list text) (defs : list ruledef) (ns : list node) (m : nat) (cur : state) : eres state :=
  match m with
  | O => EOk cur
  | S m' => match pass names defs false ns cur 0 Resolved with
            | EOk (c2, _) => guess_iter names defs ns m' c2
            | EErr => EErr end
  end.
Fixpoint kiter (names : list text) (ns : list node) (p : nat) (K : list nat) : list nat :=
  match p with O => K | S q => kiter names ns q (kpass names ns K ns) end.

Lemma fr_sym {A} I (a b : list A) : fr I a b -> fr I b a.
Proof. intros [L H]. split; [congruence|]. intros i Hi. symmetry. apply H, Hi. Qed.

Lemma sym_passes_from_spec names ns : forall fuel K p P, sym_passes_from names ns fuel K p = Some P ->
  exists q, P = (p + S q)%nat /\ all_known ns (kiter names ns (S q) K) = true.
Proof.
  induction fuel as [|f IH]; intros K p P H; cbn [sym_passes_from] in H; [discriminate|]. cbv zeta in H.
  destruct (all_known ns (kpass names ns K ns)) eqn:A.
  - injection H as <-. exists O. split; [lia|exact A].
  - destruct (IH _ _ _ H) as [q [-> Hq]]. exists (S q). split; [lia|exact Hq].
Qed.

Lemma simple_go_same names : forall ns st st' cnt0 cnt,
  (fix go (ns : list node) (st : state) (cnt : nat) : eres (state * nat) :=
     match ns with
     | [] => EOk (st, cnt)
     | NConst s e :: r =>
       match eval code_ops (pvar_simple names st) e [] with
       | EErr => EErr
       | EOk (VFailed, _) => EErr
       | EOk (v, _) =>
         let st' := {| s_sym := set_nth (s_sym st) s v; s_instr := s_instr st; s_data := s_data st; s_res := s_res st; s_align := s_align st; s_addr := s_addr st |} in
         go r st' (match v with VUnknown => cnt | _ => S cnt end)
       end
     | _ :: r => go r st cnt
     end) ns st cnt0 = EOk (st', cnt) -> s_instr st' = s_instr st /\ s_data st' = s_data st.
Proof.
  induction ns as [|n ns IH]; intros st st' cnt0 cnt H.
  - inversion H; subst. auto.
  - destruct n as [s|s e|i src|width elems|k e|k e|k e]; try (eapply IH; eauto; fail).
    destruct (eval code_ops (pvar_simple names st) e []) as [[v c]|]; [|discriminate].
    destruct v; try discriminate; apply IH in H; exact H.
Qed.
Lemma simple_loop_same names ns : forall fuel st prev st', simple_loop fuel names ns st prev = EOk st' ->
  s_instr st' = s_instr st /\ s_data st' = s_data st.
Proof.
  induction fuel as [|f IH]; intros st prev st' H; cbn [simple_loop] in H.
  - inversion H; subst. auto.
  - destruct (simple_round names ns st) as [[s c]|] eqn:E; [|discriminate].
    unfold simple_round in E. apply simple_go_same in E. destruct E as [E1 E2].
    destruct (Nat.eqb c prev); [inversion H; subst; auto|]. apply IH in H. destruct H. split; congruence.
Qed.

Section Run.
Variable names : list text.
Variable defs : list ruledef.
Variable ns : list node.
Variables st0 st : state.
Hypothesis HX : cert_ctx names defs ns st0 st.
Hypothesis Hsym0 : forall i v, nth_error (s_sym st0) i = Some v -> v = VUnknown.
Let HF := cx_frame _ _ _ _ _ HX.
Let Hd := cx_distinct _ _ _ _ _ HX.

Record pinv (K : list nat) (cur : state) : Prop := {
  p_sym : symok ns st K (s_sym cur);
  p_match : map i_matches (s_instr cur) = map i_matches (s_instr st);
  p_sz : sz_agree ns st cur;
  p_dlen : length (s_data cur) = length (s_data st);
  p_frame : frame ns st0 cur;
  p_lab : labels_ok ns cur }.

Lemma symok_st0 : symok ns st [] (s_sym st0).
Proof.
  constructor.
  - exact (proj1 (f_sym _ _ _ HF)).
  - intro i. destruct (nth_error (s_sym st0) i) as [v|] eqn:E.
    + right. f_equal. eapply Hsym0; eauto.
    + left. symmetry. eapply nth_error_None_len; [exact (proj1 (f_sym _ _ _ HF))|exact E].
  - intros i Hi. apply (proj2 (f_sym _ _ _ HF)). intro Hin. unfold sym_known in Hi. change (decl_ids ns) with (sym_ids ns) in Hi. cbn in Hi.
    apply memb_In in Hin. rewrite Hin in Hi. discriminate.
Qed.

(* the pre-pass of address-free constants keeps the symbol table under-informed, and does not fail *)
Lemma pvar_simple_rel cur pos : symok ns st [] (s_sym cur) ->
  forall l p, pvar_simple names cur l p = pvar names st pos true l p \/ pvar_simple names cur l p = EOk VUnknown.
Proof.
  intros S l p. unfold pvar_simple, pvar. destruct l; [|now right]. destruct p as [|first rest]; [now right|].
  destruct rest as [|r2 rest].
  - destruct (text_eqb first s_dollar || text_eqb first s_pc); [now right|].
    destruct (find_sym names first 0) as [i|]; [|now right].
    rewrite nth_nth_error. destruct (so_weak _ _ _ _ S i) as [E|E]; rewrite E; [|now right].
    destruct (nth_error (s_sym st) i) as [[]|]; auto.
  - destruct (text_eqb first s_dollar || text_eqb first s_pc); now right.
Qed.

Lemma simple_go_ok : forall ns2 ns1 cur cnt0, ns = ns1 ++ ns2 -> symok ns st [] (s_sym cur) ->
  exists cur' cnt,
  (fix go (ns : list node) (st : state) (cnt : nat) : eres (state * nat) :=
     match ns with
     | [] => EOk (st, cnt)
     | NConst s e :: r =>
       match eval code_ops (pvar_simple names st) e [] with
       | EErr => EErr
       | EOk (VFailed, _) => EErr
       | EOk (v, _) =>
         let st' := {| s_sym := set_nth (s_sym st) s v; s_instr := s_instr st; s_data := s_data st; s_res := s_res st; s_align := s_align st; s_addr := s_addr st |} in
         go r st' (match v with VUnknown => cnt | _ => S cnt end)
       end
     | _ :: r => go r st cnt
     end) ns2 cur cnt0 = EOk (cur', cnt) /\ symok ns st [] (s_sym cur').
Proof.
  induction ns2 as [|n ns2 IH]; intros ns1 cur cnt0 E S.
  - exists cur, cnt0. auto.
  - assert (E' : ns = (ns1 ++ [n]) ++ ns2) by (rewrite <- app_assoc; exact E).
    destruct n as [s|s e|i src|w el|k e|k e|k e]; try (apply (IH _ _ _ E' S)).
    destruct (const_at names defs ns st0 st HX _ _ _ _ E) as [v [c [Hev Hv]]].
    set (pos := cursor ns1 st 0) in *.
    pose proof (eval_mono code_ops _ _ (pvar_mono names st pos) _ _ _ Hev) as Hev'.
    assert (Hin : In (NConst s e) ns) by (rewrite E; apply in_or_app; right; now left).
    assert (Hs : In s (sym_ids ns)) by (eapply in_ids_const; eauto).
    assert (W : forall v', (v' = nth s (s_sym st) VUnknown \/ v' = VUnknown) ->
              symok ns st [] (s_sym {| s_sym := set_nth (s_sym cur) s v'; s_instr := s_instr cur; s_data := s_data cur;
                                        s_res := s_res cur; s_align := s_align cur; s_addr := s_addr cur |})).
    { intros v' Hv'. cbn [s_sym]. eapply symok_write; [exact S|exact Hv'|auto|].
      intro Hk. unfold sym_known in Hk. change (decl_ids ns) with (sym_ids ns) in Hk. cbn in Hk. apply memb_In in Hs. rewrite Hs in Hk. discriminate. }
    destruct (eval_sou (pvar_simple names cur) (pvar names st pos true) (pvar_simple_rel cur pos S) e []) as [Q|[c' Q]]; rewrite Q.
    + rewrite Hev'. pose proof (const_not_failed names defs ns st0 st HX _ _ _ _ E) as Hnf. rewrite Hv in Hnf.
      assert (W' := W v (or_introl (eq_sym Hv))).
      destruct v; try contradiction; cbv zeta; apply (IH _ _ _ E' W').
    + cbv zeta. apply (IH _ _ _ E' (W VUnknown (or_intror eq_refl))).
Qed.

Lemma simple_loop_ok : forall fuel cur prev, symok ns st [] (s_sym cur) ->
  exists cur', simple_loop fuel names ns cur prev = EOk cur' /\ symok ns st [] (s_sym cur').
Proof.
  induction fuel as [|f IH]; intros cur prev S; cbn [simple_loop]; [eauto|].
  destruct (simple_go_ok ns [] cur O eq_refl S) as [c1 [cnt [H1 S1]]].
  change (simple_round names ns cur = EOk (c1, cnt)) in H1. rewrite H1. destruct (Nat.eqb cnt prev); [eauto|apply IH; exact S1].
Qed.

Lemma pinv_after_simple st1 : simple_loop (S (length ns)) names ns st0 0 = EOk st1 -> symok ns st [] (s_sym st1) -> labels_ok ns st0 ->
  pinv [] st1.
Proof.
  intros H S L0. destruct (simple_loop_same _ _ _ _ _ _ H) as [Ei Ed].
  assert (F1 : frame ns st0 st1) by (eapply simple_loop_frame; eauto).
  constructor; try assumption.
  - rewrite Ei. exact (f_match _ _ _ HF).
  - apply (sz_agree_either names defs ns st0 st HX); intro i; right; congruence.
  - rewrite Ed. exact (proj1 (f_data _ _ _ HF)).
  - eapply simple_loop_labels_ok; eauto.
Qed.

Lemma fr_between {A} I (o c t : list A) : fr I o c -> fr I o t -> fr I c t.
Proof. intros H1 H2. eapply fr_trans; [apply fr_sym; exact H1|exact H2]. Qed.

(* one guessing pass from an under-informed state *)
Lemma pass_step K o : pinv K o ->
  exists c r, pass names defs false ns o 0 Resolved = EOk (c, r) /\ pinv (kpass names ns K ns) c /\
    s_res c = s_res st /\ s_align c = s_align st /\ s_addr c = s_addr st.
Proof.
  intros [S M Z L F Lb].
  assert (W0 : winv ns st K [] o o).
  { constructor; try assumption; apply upd_rel_init.
    - rewrite <- (proj1 (f_res _ _ _ F)). exact (proj1 (f_res _ _ _ HF)).
    - rewrite <- (proj1 (f_align _ _ _ F)). exact (proj1 (f_align _ _ _ HF)).
    - rewrite <- (proj1 (f_addr _ _ _ F)). exact (proj1 (f_addr _ _ _ HF)). }
  destruct (pass_weak names defs ns st0 st HX ns [] K o o Resolved eq_refl W0) as [c [r [H W]]]. cbn [cursor fold_left] in H.
  exists c, r. split; [exact H|].
  assert (Fc : frame ns o c) by (eapply pass_frame_gen; [|exact H]; auto).
  destruct W as [S' M' Z' L' R A D]. split; [|split; [|split]].
  - constructor; try assumption; [eapply frame_trans; eauto|eapply pass_labels_ok; eauto].
  - eapply upd_rel_done; [exact R|]. eapply fr_between; [exact (f_res _ _ _ F)|exact (f_res _ _ _ HF)].
  - eapply upd_rel_done; [exact A|]. eapply fr_between; [exact (f_align _ _ _ F)|exact (f_align _ _ _ HF)].
  - eapply upd_rel_done; [exact D|]. eapply fr_between; [exact (f_addr _ _ _ F)|exact (f_addr _ _ _ HF)].
Qed.

Lemma iter_steps : forall q K o, pinv K o ->
  exists c, guess_iter names defs ns (S q) o = EOk c /\ pinv (kiter names ns (S q) K) c /\
    s_res c = s_res st /\ s_align c = s_align st /\ s_addr c = s_addr st.
Proof.
  induction q as [|q IH]; intros K o I.
  - destruct (pass_step K o I) as [c [r [H [I' E]]]]. exists c. cbn [guess_iter kiter]. rewrite H. auto.
  - destruct (pass_step K o I) as [c [r [H [I' _]]]]. destruct (IH _ _ I') as [c2 [H2 R2]].
    exists c2. split; [|exact R2]. change (guess_iter names defs ns (S (S q)) o) with
      (match pass names defs false ns o 0 Resolved with EOk (c2, _) => guess_iter names defs ns (S q) c2 | EErr => EErr end).
    rewrite H. exact H2.
Qed.

Lemma all_known_sym K l : all_known ns K = true -> symok ns st K l -> l = s_sym st.
Proof.
  intros A S. apply nth_error_ext; [exact (so_len _ _ _ _ S)|]. intro i. apply (so_known _ _ _ _ S).
  unfold sym_known. change (decl_ids ns) with (sym_ids ns). destruct (memb i (sym_ids ns)) eqn:E; [|apply orb_true_r].
  unfold all_known in A. change (decl_ids ns) with (sym_ids ns) in A. rewrite forallb_forall in A. apply memb_In in E. rewrite (A i E). reflexivity.
Qed.

(* after P under-informed passes every symbol is right; one more pass lands on the certified state *)
Lemma reach P st1 : pinv [] st1 -> sym_passes names ns = Some P ->
  guess_iter names defs ns (S P) st1 = EOk st.
Proof.
  intros I HP. unfold sym_passes in HP. destruct (sym_passes_from_spec _ _ _ _ _ _ HP) as [q [-> A]]. cbn [Nat.add].
  destruct (iter_steps q [] st1 I) as [c [H [Ic [Er [Ea Ed]]]]].
  assert (Hs : s_sym c = s_sym st) by (eapply all_known_sym; [exact A|exact (p_sym _ _ Ic)]).
  destruct (final_pass names defs ns st0 st c HX Hs Er Ea Ed (p_match _ _ Ic)) with (acc := Resolved) as [r Hr].
  - eapply fr_between; [exact (f_instr _ _ _ (p_frame _ _ Ic))|exact (f_instr _ _ _ HF)].
  - eapply fr_between; [exact (f_data _ _ _ (p_frame _ _ Ic))|exact (f_data _ _ _ HF)].
  - clear - H Hr. revert st1 H. generalize (S q) as m. induction m as [|m IH]; intros s1 H.
    + cbn [guess_iter] in H. injection H as ->. cbn [guess_iter]. now rewrite Hr.
    + cbn [guess_iter] in H |- *. destruct (pass names defs false ns s1 0 Resolved) as [[c2 r2]|]; [|discriminate].
      apply IH. exact H.
Qed.
End Run.

(* ---------- resolve_iteratively reaches a state that m guessing passes reach, within m + 1 passes ---------- *)
Section LoopReach.
Variable names : list text.
Variable defs : list ruledef.
Variable ns : list node.
Variable st : state.
Hypothesis Hd : syms_distinct ns.
Hypothesis HC : Certified names defs ns st.

Lemma fix_iter cur r : pass names defs false ns cur 0 Resolved = EOk (cur, r) ->
  forall m, guess_iter names defs ns m cur = EOk cur.
Proof. intros H. induction m as [|m IH]; cbn [guess_iter]; [reflexivity|]. rewrite H. exact IH. Qed.

Lemma loop_at_fix k i max : (1 <= k)%nat -> (k + i = max)%nat -> loop names defs ns k i max st = EOk (st, S i).
Proof.
  intros Hk E. destruct k as [|k]; [lia|]. cbn [loop]. unfold Certified in HC.
  destruct (Nat.eqb (S i) max).
  - rewrite HC. reflexivity.
  - rewrite (pass_agree _ _ _ _ _ _ HC). rewrite HC. reflexivity.
Qed.

Lemma loop_reach : forall m cur k i max, labels_ok ns cur -> guess_iter names defs ns m cur = EOk st ->
  (k + i = max)%nat -> (m + 1 <= k)%nat ->
  exists n, loop names defs ns k i max cur = EOk (st, n) /\ (n <= i + m + 1)%nat.
Proof.
  induction m as [|m IH]; intros cur k i max Hl H E Hk.
  - cbn [guess_iter] in H. injection H as ->. exists (S i). split; [apply loop_at_fix; lia|lia].
  - cbn [guess_iter] in H.
    destruct (pass names defs false ns cur 0 Resolved) as [[c2 r]|] eqn:P; [|discriminate].
    destruct k as [|k]; [lia|]. cbn [loop].
    assert (L : Nat.eqb (S i) max = false) by (apply Nat.eqb_neq; lia). rewrite L, P.
    destruct r.
    + assert (c2 = cur) by (eapply pass_fix; eauto). subst c2.
      rewrite (fix_iter _ _ P m) in H. injection H as ->.
      unfold Certified in HC. rewrite HC. exists (S i). split; [reflexivity|lia].
    + destruct (IH c2 k (S i) max) as [n [Hn Hle]]; try lia; [eapply pass_labels_ok; eauto|exact H|].
      exists n. split; [exact Hn|lia].
Qed.
End LoopReach.
