(* C05 round trip, the induction: for every printable tree e, `pr full p e` is read as e at every level p
   (`all_Q`, by induction on the size of e, both printers at once), and the closing statement about `parse_text`:
   the fuel 200 * (1 + length) of parse_text is enough (`size_le_len`), the depth hypothesis is the code's counter. *)
From Coq Require Import NArith List Bool Arith Lia ZifyBool.
From CA Require Import Model.Lexer Model.Parser Spec.Printer Proofs.ParseWfP Proofs.RoundTripLex Proofs.RoundTripNum
  Proofs.RoundTripLevels Proofs.RoundTripSpec Proofs.RoundTripP.
Import ListNotations.
Open Scope N_scope.

Section Main.
Variable full : bool.
Notation pr := (pr full).
Notation pd := (pd full).
Notation body := (body full).
Notation bd := (bd full).
Notation Q := (Q full).

Lemma assign_dec o : o = Assign \/ o <> Assign.
Proof. destruct o; (left; reflexivity) || (right; discriminate). Qed.

Lemma in_size_le x (es : list expr) : In x es -> (size x <= list_sum (map size es))%nat.
Proof.
  induction es as [|y es IH]; [contradiction|]. cbn [map].
  change (list_sum (size y :: map size es)) with (size y + list_sum (map size es))%nat.
  intros [-> | Hin]; [lia|]. specialize (IH Hin). lia.
Qed.

Lemma elems_ok n (es : list expr) :
  (forall e, (size e <= n)%nat -> printable e = true -> Q e) ->
  (list_sum (map size es) <= n)%nat -> forallb printable es = true -> Forall (ElemOK full) es.
Proof.
  intros IH Hs Hw. rewrite Forall_forall. intros x Hin. rewrite forallb_forall in Hw.
  pose proof (in_size_le x es Hin). split; [apply IH; [lia|]|]; apply Hw; exact Hin.
Qed.

Theorem all_Q : forall n e, (size e <= n)%nat -> printable e = true -> Q e.
Proof.
  induction n as [|n IH]; intros e Hs Hw; [pose proof (size_pos e); lia|].
  apply spec_pr.
  2:{ intro H15. apply body_lstarts; [exact Hw|]. pose proof (olev_le e). lia. }
  unfold OwnSpec.
  destruct e as [v sz|bb|raw|lv path|uo a|o a b0|c t f0|l r0 a|s a|es|f0 args].
  - apply (Parses_fuel _ _ 1%nat); [apply own_num; exact Hw | unfold K; cbn [size]; lia].
  - apply (Parses_fuel _ _ 1%nat); [apply own_bool | unfold K; cbn [size]; lia].
  - apply (Parses_fuel _ _ 1%nat); [apply own_str; exact Hw | unfold K; cbn [size]; lia].
  - cbn [printable] in Hw. destruct path as [|nm path]; [discriminate|]. cbn [forallb] in Hw.
    apply andb_prop in Hw. destruct Hw as [Hn Hp].
    apply (Parses_fuel _ _ (N.to_nat lv + length path + 3)%nat); [apply own_var; assumption | unfold K; cbn [size length]; lia].
  - cbn [printable size] in *.
    apply (Parses_fuel _ _ (K * size a + 1)%nat); [apply own_un; [apply IH; [lia|exact Hw] | exact Hw] | unfold K; lia].
  - cbn [printable size] in *. apply andb_prop in Hw. destruct Hw as [Wa Wb].
    assert (Qa : Q a) by (apply IH; [lia|exact Wa]). assert (Qb : Q b0) by (apply IH; [lia|exact Wb]).
    destruct (assign_dec o) as [-> | Ho].
    + change (Parses parse_expr (bad0 (ends_open b0)) (K * S (size a + size b0) - 70) (S (bd (EBin Assign a b0)))
                (body (EBin Assign a b0)) (EBin Assign a b0)).
      apply (Parses_fuel _ _ (K * (size a + size b0) + 10)%nat); [apply own_assign; assumption | unfold K; lia].
    + pose proof (binop_range o Ho) as Hq.
      assert (El : olev (EBin o a b0) = S (S (binop_prec o - 2))) by (unfold olev; cbn [prec]; destruct o; try congruence; reflexivity).
      rewrite El. rewrite SpecAt_bin by lia.
      assert (Ec : ochain full (EBin o a b0) = S (chain full (binop_prec o) a)) by (destruct o; try congruence; reflexivity).
      rewrite Ec.
      pose proof (own_bin full o a b0 Ho Qa Qb) as H. revert H. apply BinSpec_weaken; unfold K; lia.
  - cbn [printable size] in *. apply andb_prop in Hw. destruct Hw as [Hw Wf]. apply andb_prop in Hw. destruct Hw as [Wc Wt].
    apply (Parses_fuel _ _ (K * (size c + size t + size f0) + 50)%nat); [|unfold K; lia].
    apply own_tern; apply IH; assumption || lia.
  - cbn [printable size] in *. apply andb_prop in Hw. destruct Hw as [Hw Wa]. apply andb_prop in Hw. destruct Hw as [Wl Wr].
    change (Parses (plev []) (badp 12) (K * S (size l + size r0 + size a) - 70) (bd (ESlice l r0 a)) (body (ESlice l r0 a)) (ESlice l r0 a)).
    apply (Parses_fuel _ _ (S (K * (size l + size r0 + size a) + 50))); [|unfold K; lia].
    apply lift_lev0. apply own_slice; try (apply IH; assumption || lia). exact Wr.
  - cbn [printable size] in *. apply andb_prop in Hw. destruct Hw as [Ws Wa].
    apply (Parses_fuel _ _ (K * (size s + size a) + 1)%nat); [|unfold K; lia].
    apply own_short; apply IH; assumption || lia.
  - cbn [printable size] in Hw, Hs. apply own_block. apply (elems_ok n); [exact IH | lia | exact Hw].
  - cbn [printable size] in Hw, Hs. apply andb_prop in Hw. destruct Hw as [Wf Wa].
    apply own_call; [apply IH; [lia|exact Wf] | apply (elems_ok n); [exact IH | lia | exact Wa]].
Qed.

(* ---------- the fuel of parse_text ---------- *)
Lemma sepby_len sp (es : list expr) : (forall x, In x es -> (size x <= length (pr 0 x))%nat) ->
  (list_sum (map size es) <= length (sepby sp (map (pr 0) es)))%nat.
Proof.
  induction es as [|x es IH]; intro H; [cbn; lia|].
  pose proof (H x (or_introl eq_refl)) as Hx.
  assert (IH' : (list_sum (map size es) <= length (sepby sp (map (pr 0) es)))%nat) by (apply IH; intros; apply H; right; assumption).
  cbn [map]. change (list_sum (size x :: map size es)) with (size x + list_sum (map size es))%nat.
  destruct es as [|y es].
  - cbn [map sepby]. cbn. lia.
  - cbn [map] in *. rewrite sepby_cons2. rewrite !app_length. lia.
Qed.

Lemma names_len (path : list text) : (forall x, In x path -> (1 <= length x)%nat) ->
  (length path <= length (sepby [46%N] path))%nat.
Proof.
  induction path as [|x path IH]; intro H; [cbn; lia|].
  pose proof (H x (or_introl eq_refl)). assert (IH' := IH (fun y Hy => H y (or_intror Hy))).
  destruct path as [|y path]; [cbn [sepby length]; lia|]. rewrite sepby_cons2, !app_length. cbn [length] in *. lia.
Qed.

Lemma size_le_len : forall n e, (size e <= n)%nat -> printable e = true -> forall p, (size e <= length (pr p e))%nat.
Proof.
  induction n as [|n IH]; intros e Hs Hw p; [pose proof (size_pos e); lia|].
  assert (Hb : (size e <= length (body e))%nat).
  { destruct e as [v sz|bb|raw|lv path|uo a|o a b0|c t f0|l r0 a|s a|es|f0 args]; cbn [printable size body] in *.
    - destruct (print_num_shape v sz Hw) as (d0 & s0 & -> & _). cbn [length]. lia.
    - destruct bb; cbn; lia.
    - destruct (str_ok_shape raw Hw) as (bd0 & -> & _). cbn [length]. lia.
    - destruct path as [|nm path]; [discriminate|]. rewrite forallb_forall in Hw.
      unfold print_var. rewrite app_length, repeat_length.
      pose proof (names_len (nm :: path) ltac:(intros x Hx; destruct (name_first x (Hw x Hx)) as (c0 & n' & -> & _); cbn [length]; lia)).
      cbn [length] in *. lia.
    - pose proof (IH a ltac:(lia) Hw 14%nat). rewrite app_length. destruct uo; cbn [unop_text length]; lia.
    - apply andb_prop in Hw. destruct Hw as [Wa Wb].
      destruct o; rewrite !app_length; cbn [length];
        match goal with |- context [length (pr ?p1 a)] => pose proof (IH a ltac:(lia) Wa p1) end;
        match goal with |- context [length (pr ?p2 b0)] => pose proof (IH b0 ltac:(lia) Wb p2) end; lia.
    - apply andb_prop in Hw. destruct Hw as [Hw Wf]. apply andb_prop in Hw. destruct Hw as [Wc Wt].
      pose proof (IH c ltac:(lia) Wc 2%nat). pose proof (IH t ltac:(lia) Wt 0%nat). pose proof (IH f0 ltac:(lia) Wf 0%nat).
      destruct (is_empty_block f0) eqn:Eb.
      + assert (Ef : f0 = EBlock []) by (destruct f0 as [| | | | | | | | |[|? ?]|]; try discriminate; reflexivity). subst f0.
        rewrite !app_length. cbn [length size map list_sum fold_right] in *. lia.
      + unfold gtext, paren. destruct (guard_paren full t); rewrite !app_length; cbn [length]; lia.
    - apply andb_prop in Hw. destruct Hw as [Hw Wa]. apply andb_prop in Hw. destruct Hw as [Wl Wr].
      pose proof (IH l ltac:(lia) Wl 0%nat). pose proof (IH r0 ltac:(lia) Wr 0%nat). pose proof (IH a ltac:(lia) Wa 13%nat).
      unfold gtext, paren. destruct (guard_paren full l); rewrite !app_length; cbn [length]; lia.
    - apply andb_prop in Hw. destruct Hw as [Ws Wa].
      pose proof (IH s ltac:(lia) Ws 16%nat). pose proof (IH a ltac:(lia) Wa 14%nat). rewrite !app_length; cbn [length]; lia.
    - rewrite forallb_forall in Hw.
      pose proof (sepby_len [44; 32] es ltac:(intros x Hx; pose proof (in_size_le x es Hx); apply IH; [lia|apply Hw; exact Hx])).
      rewrite !app_length; cbn [length]; lia.
    - apply andb_prop in Hw. destruct Hw as [Wf Wa]. rewrite forallb_forall in Wa.
      pose proof (IH f0 ltac:(lia) Wf 16%nat).
      pose proof (sepby_len [44; 32] args ltac:(intros x Hx; pose proof (in_size_le x args Hx); apply IH; [lia|apply Wa; exact Hx])).
      rewrite !app_length; cbn [length]; lia. }
  rewrite pr_eq. destruct (needs_paren full p e); [|exact Hb]. unfold paren. rewrite !app_length. cbn [length]. lia.
Qed.

Theorem round_trip e : printable e = true -> (S (pd 0 e) <= PARSE_DEPTH_MAX)%nat ->
  parse_text (pr 0 e) = POk e (W (bytes_len (pr 0 e)) []).
Proof.
  intros Hw Hd. pose proof (all_Q (size e) e (le_n _) Hw 0%nat ltac:(lia)) as H.
  change (Parses parse_expr (bad0 (guard_paren full e)) (K * size e) (S (pd 0 e)) (pr 0 e) e) in H.
  unfold parse_text.
  change {| tail := pr 0 e; cur := 0; lim := bytes_len (pr 0 e) |} with (W 0 (pr 0 e)).
  rewrite (PU _ _ _ _ _ _ H [] [] blank_nil).
  - f_equal.
  - cbn [app]. rewrite app_nil_r. reflexivity.
  - pose proof (size_le_len (size e) e (le_n _) Hw 0%nat). unfold K. lia.
  - lia.
  - split; [exact I|]. left. split; [reflexivity|]. destruct (guard_paren full e); reflexivity.
Qed.

End Main.

(* ---------- the two statements ---------- *)
Theorem parse_full : forall e, wf_print e -> (depth_full e <= PARSE_DEPTH_MAX)%nat ->
  exists w, parse_text (print_full e) = POk e w /\ cur w = bytes_len (print_full e).
Proof.
  intros e Hw Hd. eexists. split; [apply (round_trip true e Hw Hd)|reflexivity].
Qed.

Theorem parse_min : forall e, wf_print e -> (depth_min e <= PARSE_DEPTH_MAX)%nat ->
  exists w, parse_text (print_min e) = POk e w /\ cur w = bytes_len (print_min e).
Proof.
  intros e Hw Hd. eexists. split; [apply (round_trip false e Hw Hd)|reflexivity].
Qed.
