(* What the matcher produces is `match_kinded` (Spec/StaticSpec.v): an expression argument sits at a parameter of
   integer / unspecified type, a nested match at a parameter of sub-rule type, one argument per parameter -- for rule
   sets whose patterns list their parameters in order, which is what parse_defs produces.  (Strengthening of the
   `match_typed` invariant of Proofs/C01Sound.v, same proof.) *)
From Coq Require Import NArith ZArith List Bool Lia.
From CA Require Import Model.Lexer Model.Parser Model.Literal Model.BigIntOps Model.Evaluator Model.Matcher Model.Resolver
  Model.StaticKnown Spec.StaticSpec Proofs.StaticSizeP Proofs.MatcherP Proofs.MatcherPermP Proofs.MatcherKeysP Proofs.CertUniqueP Proofs.C01Sound
  Proofs.StaticKnownP.
Import ListNotations.
Open Scope Z_scope.

Definition karg_ok (defs : list ruledef) (r : rule) (i : nat) (a : iarg) : Prop :=
  match a with
  | AExpr _ _ _ _ => forall nm, nth_rule_params (rparams r) i <> TyRule nm
  | ANested m _ _ _ => (exists nm, nth_rule_params (rparams r) i = TyRule nm) /\ match_kinded defs m = true
  end.

Lemma kinded_from_shape defs r : forall n a extra ps,
  Forall2 (karg_ok defs r) (seq a n) extra -> skipn a (rparams r) = ps -> length ps = n -> kinded_go defs extra ps = true.
Proof.
  induction n as [|n IH]; intros a extra ps HF Hs HL; cbn [seq] in HF.
  - inversion HF; subst. destruct (skipn a (rparams r)); [reflexivity|discriminate HL].
  - inversion HF as [|i x is xs Hx Hxs]; subst.
    destruct (skipn a (rparams r)) as [|[pn pt] ps'] eqn:E; [discriminate HL|].
    destruct (skipn_params _ _ _ _ _ E) as [Ht Hsk]. cbn [length] in HL.
    destruct x as [e s0 t0 exc|m s0 t0 exc]; cbn [kinded_go].
    + cbn [karg_ok] in Hx. rewrite Ht in Hx. rewrite (IH (S a) xs ps' Hxs Hsk ltac:(lia)).
      destruct pt; try reflexivity. exfalso. eapply Hx. reflexivity.
    + destruct Hx as [[nm Hnm] Hm]. rewrite Ht in Hnm. subst pt. rewrite Hm. cbn [andb]. eapply IH; eauto; lia.
Qed.

Section MatcherKinded.
Variable defs : list ruledef.
Hypothesis Hpats : pats_ok defs = true.

Lemma shape_of i d j r : nth_error defs i = Some d -> nth_error (rd_rules d) j = Some r ->
  pat_params (rpat r) = seq 0 (length (rparams r)).
Proof.
  intros Hd Hr. unfold pats_ok in Hpats. rewrite forallb_forall in Hpats.
  pose proof (Hpats d (nth_error_In _ _ Hd)) as H. rewrite forallb_forall in H.
  pose proof (H r (nth_error_In _ _ Hr)) as H'. unfold rule_shape_ok in H'.
  destruct (list_eq_dec Nat.eq_dec (pat_params (rpat r)) (seq 0 (length (rparams r)))); [assumption|discriminate].
Qed.

Definition KR_at (f : nat) : Prop := forall r pat w needs sf m w',
  In (m, w') (match_with_rule f defs r pat w needs sf) ->
  exists extra, m = IMatch (sf_rd sf) (sf_ru sf) (rev (sf_args sf) ++ extra) 0 /\ Forall2 (karg_ok defs r) (pat_params pat) extra.
Definition KD_at (f : nat) : Prop := forall rdi rd w needs m w',
  nth_error defs rdi = Some rd -> In (m, w') (match_with_ruledef f defs rdi rd w needs) -> match_kinded defs m = true.

Lemma krule_top f i d j r w needs m w' : KR_at f ->
  nth_error defs i = Some d -> nth_error (rd_rules d) j = Some r ->
  In (m, w') (match_with_rule f defs r (rpat r) w needs {| sf_rd := i; sf_ru := j; sf_args := [] |}) ->
  match_kinded defs m = true.
Proof.
  intros HR Hd Hr Hin. destruct (HR _ _ _ _ _ _ _ Hin) as [extra [-> HF]]. cbn [sf_rd sf_ru sf_args rev app].
  rewrite match_kinded_unfold. unfold get_rule. rewrite Hd, Hr.
  rewrite (shape_of _ _ _ _ Hd Hr) in HF. eapply kinded_from_shape; [exact HF|reflexivity|reflexivity].
Qed.

Lemma matcher_kinded_step : forall f, KR_at f /\ KD_at f.
Proof.
  induction f as [|f [IHR IHD]].
  - split; [intros r pat w needs sf m w' H; rewrite mwr_O in H; destruct H
           |intros rdi rd w needs m w' _ H; rewrite mwrd_O in H; destruct H].
  - assert (HR : KR_at (S f)).
    { intros r pat w needs sf m w' H. destruct pat as [|[|c|c|i] rest].
      - rewrite mwr_nil in H. destruct (negb (is_over w) && needs); [destruct H|].
        destruct H as [H|[]]. injection H as <- _. exists []. rewrite app_nil_r. split; [reflexivity|constructor].
      - rewrite mwr_ws in H. destruct (_ && _ && _); [destruct H|]. exact (IHR _ _ _ _ _ _ _ H).
      - rewrite mwr_exact in H. destruct (maybe_expect_char w c); [|destruct H]. exact (IHR _ _ _ _ _ _ _ H).
      - rewrite mwr_glued in H. destruct (maybe_expect_char_glued w c); [|destruct H]. exact (IHR _ _ _ _ _ _ _ H).
      - rewrite mwr_param in H.
        assert (Hv : forall look, In (m, w') (param_variant f defs r i rest w needs sf look) ->
                  exists extra, m = IMatch (sf_rd sf) (sf_ru sf) (rev (sf_args sf) ++ extra) 0 /\
                                Forall2 (karg_ok defs r) (pat_params (PParam i :: rest)) extra).
        { intros look Hin. unfold param_variant in Hin.
          destruct (if look then _ else _) as [wl|]; [|destruct Hin].
          cbv zeta in Hin.
          destruct (nth_rule_params (rparams r) i) as [|k|k|k|name] eqn:Ty.
          1-4: (destruct (parse_expr (200 * fuel_of wl) 0 wl) as [ex wx| |]; [|destruct Hin|destruct Hin];
                 destruct (IHR _ _ _ _ _ _ _ Hin) as [extra [-> HF]]; cbn [sf_rd sf_ru sf_args rev] in *;
                 eexists (_ :: extra); rewrite <- app_assoc; split; [reflexivity|]; constructor; [cbn [karg_ok]; intros nm0; rewrite Ty; discriminate|exact HF]).
          destruct (find_ruledef defs name 0) as [nrd|] eqn:Fr; [|destruct Hin].
          apply in_flat_map in Hin. destruct Hin as [[mn wn] [Hn Hin]].
          destruct (IHR _ _ _ _ _ _ _ Hin) as [extra [-> HF]]. cbn [sf_rd sf_ru sf_args rev] in *.
          eexists (_ :: extra). rewrite <- app_assoc. split; [reflexivity|]. constructor; [|exact HF].
          split; [eauto|]. destruct (find_ruledef_nth _ _ _ _ Fr) as [d [Hd _]]. rewrite Nat.sub_0_r in Hd.
          eapply IHD; [exact Hd|]. rewrite (CertUniqueP.nth_error_nth' _ _ _ _ Hd) in Hn. exact Hn. }
        apply in_app_or in H. destruct H as [H|H]; eapply Hv; exact H. }
    split; [exact HR|].
    intros rdi rd w needs m w' Hd H. rewrite mwrd_S in H.
    destruct (ruledef_go_in _ _ _ _ _ _ _ _ H) as [j [r [Hr Hin]]]. cbn [Nat.add] in Hin.
    exact (krule_top f _ _ _ _ _ _ _ _ IHR Hd Hr Hin).
Qed.

Lemma cand_kinded f w e m w' : In (m, w') (cand_matches f defs w e) -> match_kinded defs m = true.
Proof.
  destruct e as [i j]. unfold cand_matches.
  destruct (nth_error defs i) as [d|] eqn:Hd; [|intros []].
  destruct (nth_error (rd_rules d) j) as [r|] eqn:Hr; [|intros []].
  intro H. eapply krule_top; eauto. apply matcher_kinded_step.
Qed.

Lemma dedupe_in : forall ms seen m, In m (dedupe seen ms) -> In m ms.
Proof.
  induction ms as [|x ms IH]; intros seen m H; cbn [dedupe] in H; [destruct H|].
  destruct (existsb (same_match x) seen); [right; eapply IH; eauto|].
  destruct H as [->|H]; [now left|right; eapply IH; eauto].
Qed.

Lemma finish_kinded working m :
  (forall m0 w0, In (m0, w0) working -> match_kinded defs m0 = true) -> In m (finish_matches defs working) -> match_kinded defs m = true.
Proof.
  intros Hw H. unfold finish_matches in H. apply filter_In in H. destruct H as [H _].
  apply in_map_iff in H. destruct H as [m0 [<- H]]. apply dedupe_in in H. apply in_map_iff in H.
  destruct H as [[m1 w1] [<- H]]. cbn [fst]. specialize (Hw _ _ H).
  destruct m1 as [rd ru args ex]. cbn [set_exact]. rewrite match_kinded_unfold in *. exact Hw.
Qed.

Theorem matcher_kinded indexed src m : In m (match_instr indexed defs src) -> match_kinded defs m = true.
Proof.
  unfold match_instr. destruct indexed.
  - rewrite match_instr_at_indexed. apply finish_kinded. intros m0 w0 H. unfold working_indexed in H.
    apply in_flat_map in H. destruct H as [e [_ H]]. eapply cand_kinded; eauto.
  - rewrite match_instr_at_brute. apply finish_kinded. intros m0 w0 H. unfold working_brute in H.
    apply in_flat_map in H. destruct H as [e [_ H]]. eapply cand_kinded; eauto.
Qed.


Theorem init_matches_kinded indexed ns : matches_kinded indexed defs ns.
Proof. intros i src m _ Hm. eapply matcher_kinded; eauto. Qed.
End MatcherKinded.

(* rule sets that come from text *)
Theorem parsed_matches_kinded t defs indexed ns : parse_defs t = Some defs -> matches_kinded indexed defs ns.
Proof. intro H. apply init_matches_kinded. exact (proj1 (parse_defs_wf t defs H)). Qed.
