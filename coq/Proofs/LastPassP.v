(* The last resolver pass (Model/LastPass.v): a label between two addresses is an error. *)
From Coq Require Import ZArith NArith List Bool Lia.
From CA Require Import Model.Overlap Model.Cursor Model.LastPass Proofs.CursorP.
Import ListNotations.
Open Scope N_scope.

Lemma misaligned_label_rejected mb b pos d0 v :
  bk_unit b <> 0 -> pos mod bk_unit b <> 0 -> check_node mb b pos (NSymbol true d0 v) = Err.
Proof. intros Hu Hm. cbn [check_node]. rewrite (eval_address_misaligned mb b pos Hu Hm). reflexivity. Qed.

Lemma label_value_is_address mb b pos d0 v n' :
  check_node mb b pos (NSymbol true d0 v) = Ok n' ->
  exists a, n' = NSymbol true d0 a /\ Z.of_N pos = ((a - bk_addr b) * Z.of_N (bk_unit b))%Z.
Proof.
  cbn [check_node]. destruct (eval_address mb b pos false) as [a| |] eqn:E; try discriminate.
  intros H. inversion H; subst. exists a. split; [reflexivity|]. apply eval_address_exact in E. tauto.
Qed.

Lemma align_zero_rejected mb b pos : check_node mb b pos (NAlign 0) = Err.
Proof. reflexivity. Qed.

Lemma addr_below_bank_rejected mb b pos a : (a < bk_addr b)%Z -> check_node mb b pos (NAddr a) = Err.
Proof. intros H. cbn [check_node]. replace (a <? bk_addr b)%Z with true by lia. reflexivity. Qed.
