(* Lemmas for C15: the symbol table of Model/Symbols.v refines the forest of Spec/Scope.v. *)
From Coq Require Import NArith List Bool Arith Lia.
From CA Require Import Model.Paths Model.Symbols Spec.Scope Proofs.PathsP.
Import ListNotations.
Open Scope nat_scope.

(* ------------------------------------------------------------------ association lists *)
Lemma aget_ainsert : forall k' k v m,
  aget k' (ainsert k v m) = if text_eqb k' k then Some v else aget k' m.
Proof.
  induction m as [|[k0 v0] r IH]; cbn.
  - destruct (text_eqb k' k); auto.
  - destruct (text_eqb k k0) eqn:E; cbn.
    + apply text_eqb_eq in E. subst k0. destruct (text_eqb k' k); auto.
    + destruct (text_eqb k' k0) eqn:E2.
      * destruct (text_eqb k' k) eqn:E3; auto.
        apply text_eqb_eq in E2, E3. subst. rewrite text_eqb_refl in E. discriminate.
      * apply IH.
Qed.

Lemma nth_error_set_nth_eq : forall A (l : list A) i x, i < length l -> nth_error (set_nth i x l) i = Some x.
Proof. induction l; intros [|i] x H; cbn in *; try lia; auto. apply IHl. lia. Qed.
Lemma nth_error_set_nth_neq : forall A (l : list A) i j x, i <> j -> nth_error (set_nth i x l) j = nth_error l j.
Proof. induction l; intros [|i] [|j] x H; cbn; auto; try congruence. Qed.
Lemma length_set_nth : forall A (l : list A) i x, length (set_nth i x l) = length l.
Proof. induction l; intros [|i] x; cbn; auto. Qed.

(* ------------------------------------------------------------------ forests *)
Definition find_id (nm : text) (f : forest) : option nat :=
  match find_child nm f with Some (i, _) => Some i | None => None end.

Fixpoint uniq (f : forest) : Prop :=
  match f with FNil => True | FCons n _ k r => find_child n r = None /\ uniq k /\ uniq r end.

Fixpoint rnames (f : forest) : list text :=
  match f with
  | FNil => []
  | FCons n _ k FNil => n :: rnames k
  | FCons _ _ _ r => rnames r
  end.

Fixpoint occ (i : nat) (x : forest) (f : forest) : Prop :=
  match f with FNil => False | FCons _ j k r => (j = i /\ k = x) \/ occ i x k \/ occ i x r end.

Fixpoint walk (f : forest) (names : list text) : option (list nat) :=
  match names with
  | [] => Some []
  | n :: r => match find_child n f with
              | None => None
              | Some (i, k) => match walk k r with Some l => Some (i :: l) | None => None end
              end
  end.

Fixpoint reach (f : forest) (names : list text) : option forest :=
  match names with
  | [] => Some f
  | n :: r => match find_child n f with None => None | Some (_, k) => reach k r end
  end.

Lemma rnames_eq : forall f, rnames f = match last_sibling f with None => [] | Some (n, _, k) => n :: rnames k end.
Proof. induction f as [|n i k IHk r IHr]; auto. destruct r; [reflexivity | exact IHr]. Qed.
Lemma enclosing_eq : forall f, enclosing f = match last_sibling f with None => [] | Some (_, i, k) => i :: enclosing k end.
Proof. induction f as [|n i k IHk r IHr]; auto. destruct r; [reflexivity | exact IHr]. Qed.
Lemma length_rnames : forall f, length (rnames f) = length (enclosing f).
Proof.
  induction f as [|n i k IHk r IHr]; auto. destruct r; [cbn; now rewrite IHk | exact IHr].
Qed.

Lemma find_last : forall f n i k, uniq f -> last_sibling f = Some (n, i, k) -> find_child n f = Some (i, k).
Proof.
  induction f as [|n0 i0 k0 IHk r IHr]; intros n i k U L; [discriminate|].
  destruct U as (U1 & U2 & U3). destruct r as [|n1 i1 k1 r1].
  - cbn in L. inversion L; subst. cbn. now rewrite text_eqb_refl.
  - change (last_sibling (FCons n1 i1 k1 r1) = Some (n, i, k)) in L.
    specialize (IHr _ _ _ U3 L).
    change (find_child n (FCons n0 i0 k0 (FCons n1 i1 k1 r1))) with
      (if text_eqb n n0 then Some (i0, k0) else find_child n (FCons n1 i1 k1 r1)).
    destruct (text_eqb n n0) eqn:E; auto.
    apply text_eqb_eq in E. subst. rewrite U1 in IHr. discriminate.
Qed.

Lemma uniq_last : forall f n i k, uniq f -> last_sibling f = Some (n, i, k) -> uniq k.
Proof.
  induction f as [|n0 i0 k0 IHk r IHr]; intros n i k U L; [discriminate|].
  destruct U as (U1 & U2 & U3). destruct r.
  - cbn in L. inversion L; subst; auto.
  - eapply IHr; eauto.
Qed.

Lemma uniq_find : forall f n i k, uniq f -> find_child n f = Some (i, k) -> uniq k.
Proof.
  induction f as [|n0 i0 k0 IHk r IHr]; intros n i k U F; [discriminate|].
  destruct U as (U1 & U2 & U3). cbn in F. destruct (text_eqb n n0).
  - inversion F; subst; auto.
  - eauto.
Qed.

Lemma occ_find : forall f n i k, find_child n f = Some (i, k) -> occ i k f.
Proof.
  induction f as [|n0 i0 k0 IHk r IHr]; intros n i k F; [discriminate|].
  cbn in F. destruct (text_eqb n n0).
  - inversion F; subst. left; auto.
  - right; right. eauto.
Qed.
Lemma occ_find_trans : forall f n i k j x, find_child n f = Some (i, k) -> occ j x k -> occ j x f.
Proof.
  induction f as [|n0 i0 k0 IHk r IHr]; intros n i k j x F O; [discriminate|].
  cbn in F. destruct (text_eqb n n0).
  - inversion F; subst. right; left; auto.
  - right; right. eauto.
Qed.
Lemma occ_ids : forall f i x, occ i x f -> In i (ids f).
Proof.
  induction f as [|n0 i0 k0 IHk r IHr]; intros i x O; [contradiction|].
  cbn. destruct O as [[E _]|[O|O]]; [left; auto | right; apply in_or_app; left; eauto | right; apply in_or_app; right; eauto].
Qed.
Lemma subtree_none : forall f i, ~ In i (ids f) -> subtree i f = None.
Proof.
  induction f as [|n0 i0 k0 IHk r IHr]; intros i H; auto.
  cbn in *. destruct (Nat.eqb_spec i0 i); [exfalso; auto|].
  rewrite IHk, IHr; auto; intro; apply H; right; apply in_or_app; auto.
Qed.
Lemma nodup_app : forall (a b : list nat), NoDup (a ++ b) ->
  NoDup a /\ NoDup b /\ (forall x, In x a -> ~ In x b).
Proof.
  induction a; cbn; intros b H.
  - repeat split; auto. constructor.
  - inversion H; subst. destruct (IHa _ H3) as (A & B & C). repeat split; auto.
    + constructor; auto. intro; apply H2; apply in_or_app; auto.
    + intros x [E|I]; [subst; intro; apply H2; apply in_or_app; auto | auto].
Qed.

Lemma occ_subtree : forall f i x, NoDup (ids f) -> occ i x f -> subtree i f = Some x.
Proof.
  induction f as [|n0 i0 k0 IHk r IHr]; intros i x N O; [contradiction|].
  cbn in N. inversion N as [|? ? Hnot N']; subst.
  destruct (nodup_app _ _ N') as (Nk & Nr & Dis).
  cbn. destruct O as [[E1 E2]|[O|O]].
  - subst. now rewrite Nat.eqb_refl.
  - destruct (Nat.eqb_spec i0 i); [subst; exfalso; apply Hnot; apply in_or_app; left; eapply occ_ids; eauto|].
    now rewrite (IHk _ _ Nk O).
  - destruct (Nat.eqb_spec i0 i); [subst; exfalso; apply Hnot; apply in_or_app; right; eapply occ_ids; eauto|].
    rewrite subtree_none; auto.
    intro Hin. apply occ_ids in O. exact (Dis _ Hin O).
Qed.

Lemma last_cons_some : forall r n i k, last_sibling (FCons n i k r) <> None.
Proof.
  induction r as [|n1 i1 k1 _ r1 IH]; intros n i k; [discriminate|].
  change (last_sibling (FCons n1 i1 k1 r1) <> None). apply IH.
Qed.

(* walking the names of the rightmost path yields the enclosing identities *)
Lemma walk_rnames : forall f, uniq f -> walk f (rnames f) = Some (enclosing f).
Proof.
  induction f as [|n i k IHk r IHr]; intros U; auto.
  destruct U as (U1 & U2 & U3). destruct r as [|n1 i1 k1 r1].
  - cbn. rewrite text_eqb_refl. now rewrite (IHk U2).
  - change (rnames (FCons n i k (FCons n1 i1 k1 r1))) with (rnames (FCons n1 i1 k1 r1)).
    change (enclosing (FCons n i k (FCons n1 i1 k1 r1))) with (enclosing (FCons n1 i1 k1 r1)).
    specialize (IHr U3). revert IHr.
    rewrite (rnames_eq (FCons n1 i1 k1 r1)).
    destruct (last_sibling (FCons n1 i1 k1 r1)) as [[[ln li] lk]|] eqn:L; [|exfalso; eapply last_cons_some; eauto].
    intro IH.
    change (walk (FCons n i k (FCons n1 i1 k1 r1)) (ln :: rnames lk)) with
      (match (if text_eqb ln n then Some (i, k) else find_child ln (FCons n1 i1 k1 r1)) with
       | None => None | Some (i', k') => match walk k' (rnames lk) with Some l => Some (i' :: l) | None => None end end).
    destruct (text_eqb ln n) eqn:E; [|exact IH].
    apply text_eqb_eq in E. subst. pose proof (find_last _ _ _ _ U3 L) as F. rewrite U1 in F. discriminate.
Qed.

Lemma reach_rnames : forall k f, uniq f -> k <= length (rnames f) -> reach f (firstn k (rnames f)) = scope_at k f.
Proof.
  induction k; intros f U H; auto.
  rewrite rnames_eq in *. cbn [scope_at].
  destruct (last_sibling f) as [[[n i] kk]|] eqn:L; [|cbn in H; lia].
  cbn [firstn reach]. rewrite (find_last _ _ _ _ U L). apply IHk; [eapply uniq_last; eauto | cbn in H; lia].
Qed.

Lemma scope_at_none : forall k f, scope_at k f = None <-> length (rnames f) < k.
Proof.
  induction k; intros f; cbn.
  - split; [discriminate | lia].
  - rewrite rnames_eq. destruct (last_sibling f) as [[[n i] kk]|]; cbn.
    + rewrite IHk. lia.
    + split; auto; lia.
Qed.

(* scope_insert through scope_at *)
Lemma insert_skip : forall k f nm id, scope_at k f = None -> scope_insert k f nm id = None.
Proof.
  induction k; intros f nm id H; cbn in *; [discriminate|].
  destruct (last_sibling f) as [[[n i] kk]|]; auto. now rewrite IHk.
Qed.
Lemma insert_dup : forall k f s nm id x, scope_at k f = Some s -> find_child nm s = Some x -> scope_insert k f nm id = None.
Proof.
  induction k; intros f s nm id x H F; cbn in *.
  - inversion H; subst. now rewrite F.
  - destruct (last_sibling f) as [[[n i] kk]|]; auto. now rewrite (IHk _ _ _ _ _ H F).
Qed.
Lemma insert_ok : forall k f s nm id, scope_at k f = Some s -> find_child nm s = None ->
  exists f', scope_insert k f nm id = Some f'.
Proof.
  induction k; intros f s nm id H F; cbn in *.
  - inversion H; subst. rewrite F. eauto.
  - destruct (last_sibling f) as [[[n i] kk]|]; [|discriminate].
    destruct (IHk _ _ nm id H F) as (f' & E). rewrite E. eauto.
Qed.

(* add_sibling / with_last_kids *)
Lemma find_child_add : forall f nm id nm',
  find_child nm' (add_sibling f nm id) =
  match find_child nm' f with Some x => Some x | None => if text_eqb nm' nm then Some (id, FNil) else None end.
Proof.
  induction f as [|n i k IHk r IHr]; intros; cbn; auto.
  destruct (text_eqb nm' n); auto.
Qed.
Lemma find_id_add : forall f nm id nm', find_child nm f = None ->
  find_id nm' (add_sibling f nm id) = if text_eqb nm' nm then Some id else find_id nm' f.
Proof.
  intros. unfold find_id. rewrite find_child_add.
  destruct (text_eqb nm' nm) eqn:E.
  - apply text_eqb_eq in E. subst. now rewrite H.
  - destruct (find_child nm' f) as [[? ?]|]; auto.
Qed.
Lemma find_child_with_last : forall f kids' nm' n i kk, last_sibling f = Some (n, i, kk) ->
  forall j x, find_child nm' f = Some (j, x) ->
  find_child nm' (with_last_kids f kids') = Some (j, x) \/ (j = i /\ x = kk /\ find_child nm' (with_last_kids f kids') = Some (j, kids')).
Proof.
  induction f as [|n0 i0 k0 IHk r IHr]; intros kids' nm' n i kk L j x F; [discriminate|].
  destruct r as [|n1 i1 k1 r1].
  - cbn in L. inversion L; subst. cbn in *. destruct (text_eqb nm' n); [|discriminate].
    inversion F; subst. right; auto.
  - change (with_last_kids (FCons n0 i0 k0 (FCons n1 i1 k1 r1)) kids') with
      (FCons n0 i0 k0 (with_last_kids (FCons n1 i1 k1 r1) kids')).
    cbn [find_child] in *. destruct (text_eqb nm' n0); [left; auto|].
    eapply IHr; eauto.
Qed.
Lemma find_child_with_last_none : forall f kids' nm', find_child nm' f = None -> find_child nm' (with_last_kids f kids') = None.
Proof.
  induction f as [|n0 i0 k0 IHk r IHr]; intros; auto.
  destruct r as [|n1 i1 k1 r1].
  - cbn in *. destruct (text_eqb nm' n0); [discriminate | auto].
  - change (with_last_kids (FCons n0 i0 k0 (FCons n1 i1 k1 r1)) kids') with
      (FCons n0 i0 k0 (with_last_kids (FCons n1 i1 k1 r1) kids')).
    cbn [find_child] in *. destruct (text_eqb nm' n0); [discriminate|]. apply IHr; auto.
Qed.
Lemma find_id_with_last : forall f kids' nm', find_id nm' (with_last_kids f kids') = find_id nm' f.
Proof.
  intros. unfold find_id. destruct (last_sibling f) as [[[n i] kk]|] eqn:L.
  - destruct (find_child nm' f) as [[j x]|] eqn:F.
    + destruct (find_child_with_last _ kids' _ _ _ _ L _ _ F) as [E|(? & ? & E)]; now rewrite E.
    + now rewrite find_child_with_last_none.
  - destruct f as [|? ? ? r]; auto. exfalso. eapply last_cons_some; eauto.
Qed.

(* walks survive later insertions *)
Lemma walk_insert : forall k f f' nm id names l,
  scope_insert k f nm id = Some f' -> walk f names = Some l -> walk f' names = Some l.
Proof.
  induction k; intros f f' nm id names l I W.
  - cbn in I. destruct (find_child nm f) eqn:F; [discriminate|]. inversion I; subst; clear I.
    destruct names as [|n r]; auto. cbn in *. rewrite find_child_add.
    destruct (find_child n f) as [[i kk]|]; [auto | discriminate].
  - cbn in I. destruct (last_sibling f) as [[[ln li] lk]|] eqn:L; [|discriminate].
    destruct (scope_insert k lk nm id) as [lk'|] eqn:I'; [|discriminate]. inversion I; subst; clear I.
    destruct names as [|n r]; auto. cbn in *.
    destruct (find_child n f) as [[i kk]|] eqn:F; [|discriminate].
    destruct (walk kk r) as [l'|] eqn:W'; [|discriminate].
    destruct (find_child_with_last _ lk' _ _ _ _ L _ _ F) as [E|(E1 & E2 & E)]; rewrite E.
    + now rewrite W'.
    + subst. now rewrite (IHk _ _ _ _ _ _ I' W').
Qed.

(* rightmost path after an insertion *)
Lemma last_add : forall f nm id, last_sibling (add_sibling f nm id) = Some (nm, id, FNil).
Proof.
  induction f as [|n i k IHk r IHr]; intros; auto.
  cbn [add_sibling]. specialize (IHr nm id). destruct (add_sibling r nm id) eqn:E; [discriminate IHr | exact IHr].
Qed.
Lemma last_with_last : forall f kids' n i kk, last_sibling f = Some (n, i, kk) ->
  last_sibling (with_last_kids f kids') = Some (n, i, kids').
Proof.
  induction f as [|n0 i0 k0 IHk r IHr]; intros; [discriminate|].
  destruct r as [|n1 i1 k1 r1].
  - cbn in *. inversion H; subst; auto.
  - change (with_last_kids (FCons n0 i0 k0 (FCons n1 i1 k1 r1)) kids') with
      (FCons n0 i0 k0 (with_last_kids (FCons n1 i1 k1 r1) kids')).
    specialize (IHr kids' _ _ _ H).
    destruct (with_last_kids (FCons n1 i1 k1 r1) kids') eqn:E; [discriminate IHr | exact IHr].
Qed.
Lemma rnames_insert : forall k f f' nm id, scope_insert k f nm id = Some f' ->
  rnames f' = firstn k (rnames f) ++ [nm].
Proof.
  induction k; intros f f' nm id I; cbn in I.
  - destruct (find_child nm f); [discriminate|]. inversion I; subst.
    rewrite rnames_eq, last_add. reflexivity.
  - destruct (last_sibling f) as [[[ln li] lk]|] eqn:L; [|discriminate].
    destruct (scope_insert k lk nm id) as [lk'|] eqn:I'; [|discriminate]. inversion I; subst.
    rewrite rnames_eq, (last_with_last _ lk' _ _ _ L). rewrite (rnames_eq f), L. cbn. f_equal. eauto.
Qed.

(* ------------------------------------------------------------------ the table represents the forest *)
Fixpoint sim (ds : list sdecl) (f : forest) : Prop :=
  match f with
  | FNil => True
  | FCons _ i k r =>
      (exists d, nth_error ds i = Some d /\ forall nm, aget nm (sd_children d) = find_id nm k) /\ sim ds k /\ sim ds r
  end.
Definition repc (ds : list sdecl) (ch : amap) (f : forest) : Prop :=
  (forall nm, aget nm ch = find_id nm f) /\ sim ds f.

Lemma sim_find : forall ds f n i k, sim ds f -> find_child n f = Some (i, k) ->
  exists d, nth_error ds i = Some d /\ repc ds (sd_children d) k.
Proof.
  induction f as [|n0 i0 k0 IHk r IHr]; intros n i k S F; [discriminate|].
  destruct S as ((d & D1 & D2) & S1 & S2). cbn in F. destruct (text_eqb n n0).
  - inversion F; subst. exists d. split; auto. split; auto.
  - eauto.
Qed.

Lemma sim_last : forall ds f n i k, sim ds f -> last_sibling f = Some (n, i, k) ->
  exists d, nth_error ds i = Some d /\ repc ds (sd_children d) k.
Proof.
  induction f as [|n0 i0 k0 IHk r IHr]; intros n i k S L; [discriminate|].
  destruct S as ((d & D1 & D2) & S1 & S2). destruct r.
  - cbn in L. inversion L; subst. exists d. split; auto. split; auto.
  - eapply IHr; eauto.
Qed.

Lemma get_children_some : forall m i d, nth_error (m_decls m) i = Some d -> get_children m (Some i) = ROk (sd_children d).
Proof. intros. cbn. now rewrite H. Qed.

Lemma trav_desc : forall m path f parent ch, get_children m parent = ROk ch -> repc (m_decls m) ch f ->
  traverse m parent path = ROk (descend f path).
Proof.
  induction path as [|n r IH]; intros f parent ch G [R S]; auto.
  cbn [traverse descend]. rewrite G, R. unfold find_id.
  destruct (find_child n f) as [[i k]|] eqn:F; auto.
  destruct r as [|n' r']; auto.
  destruct (sim_find _ _ _ _ _ S F) as (d & D & Rk).
  eapply IH; eauto. apply get_children_some; auto.
Qed.

Lemma gp_k : forall m k names f parent ch l,
  get_children m parent = ROk ch -> repc (m_decls m) ch f -> walk f names = Some l -> k <= length names ->
  exists tgt chT fT, get_parent m parent (firstn k names) = ROk tgt /\ get_children m tgt = ROk chT /\
    repc (m_decls m) chT fT /\ reach f (firstn k names) = Some fT /\
    match k with
    | O => tgt = parent
    | S k' => exists i, tgt = Some i /\ nth_error l k' = Some i /\ occ i fT f
    end.
Proof.
  induction k; intros names f parent ch l G R W Hk.
  - exists parent, ch, f. cbn. auto.
  - destruct names as [|n r]; [cbn in Hk; lia|]. cbn in W.
    destruct (find_child n f) as [[i kk]|] eqn:F; [|discriminate].
    destruct (walk kk r) as [l'|] eqn:W'; [|discriminate]. inversion W; subst; clear W.
    destruct R as [R S]. destruct (sim_find _ _ _ _ _ S F) as (d & D & Rk).
    destruct (IHk r kk (Some i) (sd_children d) l' (get_children_some _ _ _ D) Rk W' ltac:(cbn in Hk; lia))
      as (tgt & chT & fT & G1 & G2 & G3 & G4 & G5).
    exists tgt, chT, fT. cbn [firstn get_parent reach]. rewrite G, R. unfold find_id. rewrite F.
    split; [exact G1|]. split; [exact G2|]. split; [exact G3|]. split; [exact G4|].
    destruct k.
    + subst tgt. exists i. cbn in G4. inversion G4; subst.
      split; [reflexivity|]. split; [reflexivity|]. eapply occ_find; eauto.
    + destruct G5 as (j & E1 & E2 & E3). exists j.
      split; [exact E1|]. split; [exact E2|]. eapply occ_find_trans; eauto.
Qed.

(* nodes untouched by an update keep their representation *)
Lemma sim_other : forall ds ds' f, sim ds f -> (forall i, In i (ids f) -> nth_error ds' i = nth_error ds i) -> sim ds' f.
Proof.
  induction f as [|n i k IHk r IHr]; intros S H; auto.
  destruct S as ((d & D1 & D2) & S1 & S2). cbn in H.
  split; [|split].
  - exists d. rewrite H; auto.
  - apply IHk; auto. intros; apply H. right; apply in_or_app; auto.
  - apply IHr; auto. intros; apply H. right; apply in_or_app; auto.
Qed.

Lemma sim_add : forall ds f nm id dn, sim ds f -> nth_error ds id = Some dn -> sd_children dn = [] ->
  sim ds (add_sibling f nm id).
Proof.
  induction f as [|n i k IHk r IHr]; intros nm id dn S D E; cbn.
  - repeat split; auto. exists dn. split; auto. intros; rewrite E; reflexivity.
  - destruct S as (S0 & S1 & S2). repeat split; eauto.
Qed.

Lemma ids_last : forall f n i kk, last_sibling f = Some (n, i, kk) ->
  exists pre, ids f = pre ++ i :: ids kk.
Proof.
  induction f as [|n0 i0 k0 IHk r IHr]; intros n i kk L; [discriminate|].
  destruct r as [|n1 i1 k1 r1].
  - cbn in L. inversion L; subst. exists []. cbn. now rewrite app_nil_r.
  - destruct (IHr _ _ _ L) as (pre & E). exists (i0 :: ids k0 ++ pre).
    change (ids (FCons n0 i0 k0 (FCons n1 i1 k1 r1))) with (i0 :: ids k0 ++ ids (FCons n1 i1 k1 r1)).
    rewrite E. cbn. now rewrite <- app_assoc.
Qed.

Lemma enclosing_in_ids : forall f k j, nth_error (enclosing f) k = Some j -> In j (ids f).
Proof.
  induction f as [|n i kk IHk r IHr]; intros k j H; [destruct k; discriminate|].
  destruct r as [|n1 i1 k1 r1].
  - cbn in H. destruct k; cbn in H.
    + inversion H; subst. left; auto.
    + right. apply in_or_app. left. eauto.
  - right. apply in_or_app. right. eapply IHr. exact H.
Qed.

(* what `declare` does to the item table, as seen from the forest *)
Definition UPD (ds ds' : list sdecl) (tgt : option nat) (nm : text) (idx : nat) : Prop :=
  (exists dn, nth_error ds' idx = Some dn /\ sd_children dn = []) /\
  (forall j, j < idx -> Some j <> tgt -> nth_error ds' j = nth_error ds j) /\
  (forall p, tgt = Some p -> exists d d', nth_error ds p = Some d /\ nth_error ds' p = Some d' /\
                                        sd_children d' = ainsert nm idx (sd_children d)).

Lemma sim_with_last : forall ds ds' f n i kk kk',
  sim ds f -> last_sibling f = Some (n, i, kk) -> sim ds' kk' ->
  (exists d', nth_error ds' i = Some d' /\ forall nm, aget nm (sd_children d') = find_id nm kk') ->
  (forall j, In j (ids f) -> j <> i -> ~ In j (ids kk) -> nth_error ds' j = nth_error ds j) ->
  NoDup (ids f) ->
  sim ds' (with_last_kids f kk').
Proof.
  induction f as [|n0 i0 k0 IHk r IHr]; intros n i kk kk' S L S' D H N; [discriminate|].
  destruct S as (S0 & S1 & S2). destruct r as [|n1 i1 k1 r1].
  - cbn in L. inversion L; subst. cbn. repeat split; auto.
  - change (with_last_kids (FCons n0 i0 k0 (FCons n1 i1 k1 r1)) kk') with
      (FCons n0 i0 k0 (with_last_kids (FCons n1 i1 k1 r1) kk')).
    change (last_sibling (FCons n1 i1 k1 r1) = Some (n, i, kk)) in L.
    change (ids (FCons n0 i0 k0 (FCons n1 i1 k1 r1))) with (i0 :: ids k0 ++ ids (FCons n1 i1 k1 r1)) in *.
    inversion N as [|? ? Hnot N']; subst. destruct (nodup_app _ _ N') as (Nk & Nr & Dis).
    destruct (ids_last _ _ _ _ L) as (pre & E).
    assert (Hin : forall j, j = i \/ In j (ids kk) -> In j (ids (FCons n1 i1 k1 r1))).
    { intros j [->|Hj]; rewrite E; apply in_or_app; right; [left; auto | right; auto]. }
    cbn [sim]. split; [|split].
    + destruct S0 as (d & D1 & D2). exists d. split; auto. rewrite H; auto.
      * left; auto.
      * intro; subst. apply Hnot. apply in_or_app; right. apply Hin; auto.
      * intro Hj. apply Hnot. apply in_or_app; right. apply Hin; auto.
    + apply sim_other with (ds := ds); auto. intros j Hj. apply H.
      * right; apply in_or_app; auto.
      * intro; subst. eapply Dis; eauto.
      * intro Hj'. eapply Dis; eauto.
    + eapply IHr; eauto. intros j Hj. apply H. right; apply in_or_app; auto.
Qed.

Lemma sim_update : forall ds ds' nm idx k f f1 pid,
  scope_insert k f nm idx = Some f1 -> sim ds f -> NoDup (ids f) -> (forall i, In i (ids f) -> i < idx) ->
  (forall p, pid = Some p -> ~ In p (ids f)) ->
  UPD ds ds' (match k with O => pid | S k' => nth_error (enclosing f) k' end) nm idx ->
  sim ds' f1.
Proof.
  induction k; intros f f1 pid I S N Lt P U.
  - cbn in I. destruct (find_child nm f) eqn:F; [discriminate|]. inversion I; subst; clear I.
    destruct U as ((dn & D1 & D2) & U2 & U3).
    eapply sim_add; eauto. apply sim_other with (ds := ds); auto.
    intros i Hi. apply U2; auto. intro E. apply (P i); auto.
  - cbn in I. destruct (last_sibling f) as [[[ln li] lk]|] eqn:L; [|discriminate].
    destruct (scope_insert k lk nm idx) as [lk'|] eqn:I'; [|discriminate]. inversion I; subst; clear I.
    destruct (ids_last _ _ _ _ L) as (pre & E).
    assert (Nl : NoDup (li :: ids lk)). { rewrite E in N. apply nodup_app in N. tauto. }
    inversion Nl as [|? ? Hli Nlk]; subst.
    assert (Lt' : forall i, In i (ids lk) -> i < idx). { intros; apply Lt. rewrite E. apply in_or_app; right; right; auto. }
    assert (tgt_eq : nth_error (enclosing f) k = match k with O => Some li | S k' => nth_error (enclosing lk) k' end).
    { rewrite enclosing_eq, L. destruct k; reflexivity. }
    rewrite tgt_eq in U.
    assert (S' : sim ds' lk').
    { destruct (sim_last _ _ _ _ _ S L) as (d & D & Rk).
      eapply (IHk lk lk' (Some li)); eauto. apply Rk.
      intros p Ep. inversion Ep; subst; auto. }
    destruct (sim_last _ _ _ _ _ S L) as (d & D & Rk).
    destruct U as (U1 & U2 & U3).
    eapply sim_with_last; eauto.
    + destruct k.
      * destruct (U3 li eq_refl) as (d0 & d' & E0 & E1 & E2). rewrite D in E0. inversion E0; subst d0.
        exists d'. split; auto. intros nm'. rewrite E2, aget_ainsert.
        cbn in I'. destruct (find_child nm lk) eqn:Fl; [discriminate|]. inversion I'; subst.
        rewrite find_id_add; auto. destruct (text_eqb nm' nm); auto. apply Rk.
      * exists d. split.
        -- rewrite U2; auto.
           ++ apply Lt. rewrite E. apply in_or_app; right; left; auto.
           ++ intro Eq. symmetry in Eq. apply enclosing_in_ids in Eq. contradiction.
        -- intros nm'. cbn in I'.
           destruct (last_sibling lk) as [[[a b] c]|]; [|discriminate].
           destruct (scope_insert k c nm idx); [|discriminate]. inversion I'; subst.
           rewrite find_id_with_last. apply Rk.
    + intros j Hj Hne Hnk. apply U2; auto.
      destruct k; intro Eq.
      * inversion Eq; subst; auto.
      * symmetry in Eq. apply enclosing_in_ids in Eq. contradiction.
Qed.

(* ------------------------------------------------------------------ invariants kept by an insertion *)
From Coq Require Import Permutation.

Lemma uniq_add : forall f nm id, uniq f -> find_child nm f = None -> uniq (add_sibling f nm id).
Proof.
  induction f as [|n i k IHk r IHr]; intros nm id U F; cbn; auto.
  destruct U as (U1 & U2 & U3). cbn in F. destruct (text_eqb nm n) eqn:E; [discriminate|].
  repeat split; auto. rewrite find_child_add, U1.
  destruct (text_eqb n nm) eqn:E2; auto. apply text_eqb_eq in E2. subst. rewrite text_eqb_refl in E. discriminate.
Qed.
Lemma uniq_with_last : forall f kk', uniq f -> uniq kk' -> uniq (with_last_kids f kk').
Proof.
  induction f as [|n i k IHk r IHr]; intros kk' U U'; auto.
  destruct U as (U1 & U2 & U3). destruct r as [|n1 i1 k1 r1].
  - cbn. auto.
  - change (with_last_kids (FCons n i k (FCons n1 i1 k1 r1)) kk') with
      (FCons n i k (with_last_kids (FCons n1 i1 k1 r1) kk')).
    cbn [uniq]. repeat split; auto. apply find_child_with_last_none; auto.
Qed.
Lemma uniq_insert : forall k f f' nm id, uniq f -> scope_insert k f nm id = Some f' -> uniq f'.
Proof.
  induction k; intros f f' nm id U I; cbn in I.
  - destruct (find_child nm f) eqn:F; [discriminate|]. inversion I; subst. apply uniq_add; auto.
  - destruct (last_sibling f) as [[[ln li] lk]|] eqn:L; [|discriminate].
    destruct (scope_insert k lk nm id) as [lk'|] eqn:I'; [|discriminate]. inversion I; subst.
    apply uniq_with_last; auto. eapply (IHk lk lk'); [eapply uniq_last; eauto | exact I'].
Qed.

Lemma ids_add : forall f nm id, ids (add_sibling f nm id) = ids f ++ [id].
Proof. induction f; intros; cbn; auto. rewrite IHf2. now rewrite app_assoc. Qed.
Lemma perm_with_last : forall f n i kk kk' id, last_sibling f = Some (n, i, kk) ->
  Permutation (ids kk') (id :: ids kk) -> Permutation (ids (with_last_kids f kk')) (id :: ids f).
Proof.
  induction f as [|n0 i0 k0 IHk r IHr]; intros n i kk kk' id L P; [discriminate|].
  destruct r as [|n1 i1 k1 r1].
  - cbn in L. inversion L; subst. cbn. rewrite !app_nil_r.
    eapply perm_trans; [apply perm_skip; exact P | apply perm_swap].
  - change (with_last_kids (FCons n0 i0 k0 (FCons n1 i1 k1 r1)) kk') with
      (FCons n0 i0 k0 (with_last_kids (FCons n1 i1 k1 r1) kk')).
    change (ids (FCons n0 i0 k0 (FCons n1 i1 k1 r1))) with (i0 :: ids k0 ++ ids (FCons n1 i1 k1 r1)).
    cbn [ids]. specialize (IHr _ _ _ _ _ L P).
    eapply perm_trans; [apply perm_skip; apply Permutation_app_head; exact IHr|].
    eapply perm_trans; [apply perm_skip; apply Permutation_sym; apply Permutation_middle|].
    apply perm_swap.
Qed.
Lemma perm_insert : forall k f f' nm id, scope_insert k f nm id = Some f' -> Permutation (ids f') (id :: ids f).
Proof.
  induction k; intros f f' nm id I; cbn in I.
  - destruct (find_child nm f); [discriminate|]. inversion I; subst. rewrite ids_add.
    apply Permutation_sym, Permutation_cons_append.
  - destruct (last_sibling f) as [[[ln li] lk]|] eqn:L; [|discriminate].
    destruct (scope_insert k lk nm id) as [lk'|] eqn:I'; [|discriminate]. inversion I; subst.
    eapply perm_with_last; eauto.
Qed.

Lemma find_id_insert_root : forall k f f' nm id nm', scope_insert k f nm id = Some f' ->
  find_id nm' f' = match k with O => if text_eqb nm' nm then Some id else find_id nm' f | S _ => find_id nm' f end.
Proof.
  intros k f f' nm id nm' I. destruct k; cbn in I.
  - destruct (find_child nm f) eqn:F; [discriminate|]. inversion I; subst. apply find_id_add; auto.
  - destruct (last_sibling f) as [[[ln li] lk]|]; [|discriminate].
    destruct (scope_insert k lk nm id); [|discriminate]. inversion I; subst. apply find_id_with_last.
Qed.

Record Inv (m : mgr) (F : forest) (next : nat) : Prop := mkInv {
  inv_glob : forall nm, aget nm (m_globals m) = find_id nm F;
  inv_sim : sim (m_decls m) F;
  inv_uniq : uniq F;
  inv_nodup : NoDup (ids F);
  inv_lt : forall i, In i (ids F) -> i < next;
  inv_len : length (m_decls m) = next }.

Lemma inv_new : Inv mgr_new FNil 0.
Proof. constructor; cbn; auto. constructor. intros; contradiction. Qed.

Lemma nth_error_app_last : forall A (l : list A) x, nth_error (l ++ [x]) (length l) = Some x.
Proof. induction l; cbn; auto. Qed.
Lemma nth_error_app_lt : forall A (l : list A) x j, j < length l -> nth_error (l ++ [x]) j = nth_error l j.
Proof. intros. apply nth_error_app1; auto. Qed.

Lemma option_eq_dec_some : forall (j : nat) (o : option nat), {Some j = o} + {Some j <> o}.
Proof. intros j [x|]; [destruct (Nat.eq_dec j x); [left; congruence | right; congruence] | right; discriminate]. Qed.

(* one declaration *)
Lemma declare_step : forall m F next k nm kind, Inv m F next ->
  match scope_insert k F nm next with
  | None => declare m (rnames F) nm k kind = RErr
  | Some F1 =>
      exists m1, declare m (rnames F) nm k kind = ROk (m1, next) /\ Inv m1 F1 (S next) /\
        (exists d, nth_error (m_decls m1) next = Some d /\ sd_ctx d = rnames F1) /\
        (forall j d, nth_error (m_decls m) j = Some d ->
                     exists d', nth_error (m_decls m1) j = Some d' /\ sd_ctx d' = sd_ctx d)
  end.
Proof.
  intros m F next k nm kind [Ig Is Iu In_ Il Ilen].
  unfold declare. rewrite Ilen. destruct (length (rnames F) <? k) eqn:Lk.
  - apply Nat.ltb_lt in Lk. rewrite insert_skip; auto. apply scope_at_none; auto.
  - apply Nat.ltb_ge in Lk.
    destruct (gp_k m k (rnames F) F None (m_globals m) (enclosing F) eq_refl (conj Ig Is) (walk_rnames _ Iu) Lk)
      as (tgt & chT & fT & G1 & G2 & (G3 & G3s) & G4 & G5).
    rewrite reach_rnames in G4; auto.
    rewrite G1, G2, G3. unfold find_id.
    destruct (find_child nm fT) as [[j x]|] eqn:Ff.
    + rewrite (insert_dup _ _ _ _ _ _ G4 Ff).
      destruct (sim_find _ _ _ _ _ G3s Ff) as (d & D & _). now rewrite D.
    + destruct (insert_ok _ _ _ nm next G4 Ff) as (F1 & I). rewrite I.
      (* the parent's entry *)
      assert (HT : exists m1, insert_child m tgt nm next = ROk m1 /\ m_globals m1 = (match tgt with None => ainsert nm next (m_globals m) | Some _ => m_globals m end) /\
                 length (m_decls m1) = next /\
                 (forall j, Some j <> tgt -> nth_error (m_decls m1) j = nth_error (m_decls m) j) /\
                 (forall p, tgt = Some p -> exists d d', nth_error (m_decls m) p = Some d /\ nth_error (m_decls m1) p = Some d' /\
                     sd_children d' = ainsert nm next (sd_children d) /\ sd_ctx d' = sd_ctx d /\ sd_name d' = sd_name d)).
      { destruct tgt as [p|]; cbn.
        - cbn in G2. destruct (nth_error (m_decls m) p) as [d|] eqn:D; [|discriminate].
          eexists. split; [reflexivity|]. cbn. split; [reflexivity|]. split; [rewrite length_set_nth; auto|]. split.
          + intros j Hj. apply nth_error_set_nth_neq. congruence.
          + intros p' E. inversion E; subst p'. exists d. eexists. split; [exact D|]. split.
            * apply nth_error_set_nth_eq. apply nth_error_Some. congruence.
            * cbn. auto.
        - eexists. split; [reflexivity|]. cbn. repeat split; auto. intros; discriminate. }
      destruct HT as (m1 & HI & Hg & Hlen & Hother & Hp). rewrite HI.
      assert (HF : exists fn, (match tgt with
                       | Some p => match nth_error (m_decls m1) p with Some d => Some (sd_name d ++ [c_dot] ++ nm) | None => None end
                       | None => Some nm end) = Some fn).
      { destruct tgt as [p|]; [|eauto]. destruct (Hp p eq_refl) as (d & d' & _ & E & _). rewrite E. eauto. }
      destruct HF as (fn & HF). rewrite HF.
      eexists. split; [reflexivity|].
      set (dn := mkDecl fn kind k (firstn k (rnames F) ++ [nm]) []).
      assert (TG : tgt = match k with O => None | S k' => nth_error (enclosing F) k' end).
      { destruct k; auto. destruct G5 as (i & E1 & E2 & _). congruence. }
      split; [|split].
      * constructor; cbn.
        -- intros nm'. rewrite (find_id_insert_root _ _ _ _ _ nm' I), Hg. destruct k.
           ++ subst tgt. rewrite aget_ainsert. destruct (text_eqb nm' nm); auto.
           ++ destruct G5 as (i & E1 & _). subst tgt. apply Ig.
        -- eapply (sim_update (m_decls m) (m_decls m1 ++ [dn]) nm next k F F1 None); eauto.
           ++ intros; discriminate.
           ++ rewrite <- TG. split; [|split].
              ** exists dn. rewrite <- Hlen. split; [apply nth_error_app_last | reflexivity].
              ** intros j Hj Hne. rewrite nth_error_app_lt by lia. apply Hother; auto.
              ** intros p E. destruct (Hp p E) as (d & d' & E0 & E1 & E2 & _).
                 exists d, d'. split; auto. split; auto. rewrite nth_error_app_lt; auto.
                 rewrite Hlen, <- Ilen. apply nth_error_Some. congruence.
        -- eapply uniq_insert; eauto.
        -- eapply Permutation_NoDup; [apply Permutation_sym; eapply perm_insert; eauto|].
           constructor; auto. intro Hin. apply Il in Hin. lia.
        -- intros i Hi. eapply Permutation_in in Hi; [|eapply perm_insert; eauto].
           destruct Hi as [<-|Hi]; [lia | apply Il in Hi; lia].
        -- rewrite app_length, Hlen. cbn. lia.
      * exists dn. cbn. rewrite <- Hlen. split; [apply nth_error_app_last|]. cbn.
        symmetry. eapply rnames_insert; eauto.
      * intros j d D. cbn.
        assert (j < next) by (rewrite <- Ilen; apply nth_error_Some; congruence).
        rewrite nth_error_app_lt by lia.
        destruct (option_eq_dec_some j tgt) as [E|NE].
        -- destruct (Hp j (eq_sym E)) as (d0 & d' & E0 & E1 & _ & E3 & _). rewrite D in E0. inversion E0; subst.
           exists d'. auto.
        -- exists d. rewrite Hother; auto.
Qed.

(* ------------------------------------------------------------------ the declaration walk *)
Definition prog_of (nodes : list anode) : prog :=
  map (fun a => match a with ASym l n _ _ => Some (l, n) | AOther => None end) nodes.

(* a freshly parsed program: no node has an item yet *)
Fixpoint fresh (nodes : list anode) : Prop :=
  match nodes with
  | [] => True
  | ASym _ _ _ (Some _) :: _ => False
  | _ :: r => fresh r
  end.

Lemma collect_loop_spec : forall nodes m F next, Inv m F next -> fresh nodes ->
  match scopes_from F next (prog_of nodes) with
  | None => collect_loop m (rnames F) nodes = RErr
  | Some (encls, Ff) =>
      exists m' ast' next', collect_loop m (rnames F) nodes = ROk (m', ast') /\ Inv m' Ff next' /\
        (forall names l, walk F names = Some l -> walk Ff names = Some l) /\
        (forall j d, nth_error (m_decls m) j = Some d ->
                     exists d', nth_error (m_decls m') j = Some d' /\ sd_ctx d' = sd_ctx d) /\
        exists ctxs, node_ctxs m' (rnames F) ast' = ROk ctxs /\ Forall2 (fun c e => walk Ff c = Some e) ctxs encls
  end.
Proof.
  induction nodes as [|a r IH]; intros m F next I Fr.
  - cbn. exists m, [], next. split; [reflexivity|]. split; [exact I|]. split; [auto|]. split; [eauto|].
    exists []. split; [reflexivity | constructor].
  - destruct a as [l n k [i|]|]; [contradiction| |].
    + cbn [prog_of map scopes_from]. fold (prog_of r).
      pose proof (declare_step m F next l n k I) as DS.
      destruct (scope_insert l F n next) as [F1|] eqn:SI.
      * destruct DS as (m1 & D & I1 & (dn & Dn & Dctx) & Pres).
        specialize (IH m1 F1 (S next) I1 Fr).
        cbn [collect_loop]. rewrite D, Dn, Dctx.
        destruct (scopes_from F1 (S next) (prog_of r)) as [[encls Ff]|].
        -- destruct IH as (m' & ast' & next' & C & I' & Mono & Pres' & ctxs & NC & FA).
           rewrite C. exists m', (ASym l n k (Some next) :: ast'), next'.
           split; [reflexivity|]. split; [exact I'|]. split; [|split].
           ++ intros names l0 W. apply Mono. eapply walk_insert; eauto.
           ++ intros j d Dj. destruct (Pres _ _ Dj) as (d1 & E1 & E2). destruct (Pres' _ _ E1) as (d2 & E3 & E4).
              exists d2. split; auto. congruence.
           ++ destruct (Pres' _ _ Dn) as (d2 & E3 & E4).
              cbn [node_ctxs]. rewrite E3, E4, Dctx, NC. eexists. split; [reflexivity|].
              constructor; auto. apply Mono. apply walk_rnames. apply (inv_uniq _ _ _ I1).
        -- now rewrite IH.
      * cbn [collect_loop]. now rewrite DS.
    + cbn [prog_of map scopes_from]. fold (prog_of r).
      specialize (IH m F next I Fr). cbn [collect_loop].
      destruct (scopes_from F next (prog_of r)) as [[encls Ff]|].
      * destruct IH as (m' & ast' & next' & C & I' & Mono & Pres' & ctxs & NC & FA).
        rewrite C. exists m', (AOther :: ast'), next'.
        split; [reflexivity|]. split; [exact I'|]. split; [exact Mono|]. split; [exact Pres'|].
        cbn [node_ctxs]. rewrite NC. eexists. split; [reflexivity|].
        constructor; auto. apply Mono. apply walk_rnames. apply (inv_uniq _ _ _ I).
      * now rewrite IH.
Qed.

Lemma Forall2_nth_left : forall A B (P : A -> B -> Prop) la lb i a, Forall2 P la lb -> nth_error la i = Some a ->
  exists b, nth_error lb i = Some b /\ P a b.
Proof.
  intros A B P la lb i a H. revert i. induction H; intros [|i] E; cbn in *; try discriminate.
  - inversion E; subst. eauto.
  - eauto.
Qed.

Lemma walk_length : forall names f l, walk f names = Some l -> length l = length names.
Proof.
  induction names as [|n r IH]; intros f l W; cbn in W.
  - inversion W; auto.
  - destruct (find_child n f) as [[i k]|]; [|discriminate].
    destruct (walk k r) as [l'|] eqn:W'; [|discriminate]. inversion W; subst. cbn. f_equal. eauto.
Qed.

(* the heart of C15_lookup: in any table that represents forest F, a context whose names walk to the
   identities `encl` makes try_get_by_name the scope walk of the specification *)
Lemma lookup_core : forall m F next ctx encl, Inv m F next -> walk F ctx = Some encl ->
  forall k path, try_get_by_name m ctx k path = ROk (scope_resolve F encl k path).
Proof.
  intros m F next ctx encl [Ig Is Iu In_ Il Ilen] W k path.
  unfold try_get_by_name. pose proof (walk_length _ _ _ W) as WL.
  destruct (length ctx <? k) eqn:Lk.
  - apply Nat.ltb_lt in Lk. destruct k; [lia|]. cbn.
    assert (E : nth_error encl k = None) by (apply nth_error_None; lia). now rewrite E.
  - apply Nat.ltb_ge in Lk.
    destruct (gp_k m k ctx F None (m_globals m) encl eq_refl (conj Ig Is) W Lk)
      as (tgt & chT & fT & G1 & G2 & G3 & G4 & G5).
    rewrite G1. rewrite (trav_desc m path fT tgt chT G2 G3).
    destruct k.
    + cbn in G4. inversion G4; subst. reflexivity.
    + destruct G5 as (i & E1 & E2 & E3). cbn. rewrite E2. now rewrite (occ_subtree _ _ _ In_ E3).
Qed.

Lemma node_ctxs_length : forall (m : mgr) ast c ctxs, node_ctxs m c ast = ROk ctxs -> length ctxs = length ast.
Proof.
  induction ast as [|a r IHr]; intros c ctxs H; cbn in H.
  - inversion H; subst; reflexivity.
  - destruct a as [l n k [i|]|]; try discriminate.
    + destruct (nth_error (m_decls m) i); [|discriminate].
      destruct (node_ctxs m (sd_ctx s) r) eqn:E; try discriminate. inversion H; subst. cbn. f_equal. eauto.
    + destruct (node_ctxs m c r) eqn:E; try discriminate. inversion H; subst. cbn. f_equal. eauto.
Qed.
Lemma collect_loop_length : forall nodes m0 c m ast, collect_loop m0 c nodes = ROk (m, ast) -> length ast = length nodes.
Proof.
  induction nodes as [|a r IHr]; intros m0 c m ast H; cbn in H.
  - inversion H; subst; reflexivity.
  - destruct a as [l n k ir|].
    + destruct (match ir with Some i => ROk (m0, i) | None => declare m0 c n l k end) as [[m1 i]| | |]; try discriminate.
      destruct (nth_error (m_decls m1) i); [|discriminate].
      destruct (collect_loop m1 (sd_ctx s) r) as [[m2 r']| | |] eqn:E; try discriminate.
      inversion H; subst. cbn. f_equal. eauto.
    + destruct (collect_loop m0 c r) as [[m2 r']| | |] eqn:E; try discriminate.
      inversion H; subst. cbn. f_equal. eauto.
Qed.

Theorem lookup_spec : forall nodes m ast, fresh nodes -> collect mgr_new nodes = ROk (m, ast) ->
  exists encls F ctxs,
    scopes (prog_of nodes) = Some (encls, F) /\ node_ctxs m ctx_global ast = ROk ctxs /\
    length ctxs = length nodes /\
    forall i ctx, nth_error ctxs i = Some ctx ->
      exists encl, nth_error encls i = Some encl /\
        forall k path, try_get_by_name m ctx k path = ROk (scope_resolve F encl k path).
Proof.
  intros nodes m ast Fr C. unfold collect in C.
  pose proof (collect_loop_spec nodes mgr_new FNil 0 inv_new Fr) as H. cbn [rnames] in H.
  unfold scopes. unfold ctx_global in *.
  destruct (scopes_from FNil 0 (prog_of nodes)) as [[encls Ff]|].
  - destruct H as (m' & ast' & next' & C' & I' & _ & _ & ctxs & NC & FA).
    rewrite C in C'. inversion C'; subst m' ast'.
    exists encls, Ff, ctxs. split; auto. split; auto. split.
    + rewrite (node_ctxs_length _ _ _ _ NC). eapply collect_loop_length; eauto.
    + intros i ctx Hc.
      destruct (Forall2_nth_left _ _ _ _ _ _ _ FA Hc) as (encl & He & Hw).
      exists encl. split; auto. eapply lookup_core; eauto.
  - rewrite C in H. discriminate.
Qed.

(* ------------------------------------------------------------------ rejected declarations *)
Lemma insert_none_iff : forall k f nm id,
  scope_insert k f nm id = None <-> skips_level f k = true \/ duplicate_in_scope f k nm = true.
Proof.
  intros. unfold skips_level, duplicate_in_scope.
  destruct (scope_at k f) as [s|] eqn:A.
  - destruct (find_child nm s) as [x|] eqn:F.
    + rewrite (insert_dup _ _ _ _ id _ A F). tauto.
    + destruct (insert_ok _ _ _ nm id A F) as (f' & E). rewrite E.
      split; [discriminate | intros [H|H]; discriminate].
  - rewrite (insert_skip _ _ nm id A). tauto.
Qed.

Theorem collect_errors : forall nodes, fresh nodes ->
  (collect mgr_new nodes = RErr <-> scopes (prog_of nodes) = None) /\
  collect mgr_new nodes <> RPanic /\ collect mgr_new nodes <> RFuel.
Proof.
  intros nodes Fr. unfold collect, scopes, ctx_global.
  pose proof (collect_loop_spec nodes mgr_new FNil 0 inv_new Fr) as H. cbn [rnames] in H.
  destruct (scopes_from FNil 0 (prog_of nodes)) as [[encls Ff]|].
  - destruct H as (m' & ast' & next' & C & _). rewrite C.
    repeat split; try discriminate.
  - rewrite H. repeat split; auto; discriminate.
Qed.

(* one more declaration after any accepted program *)
Theorem declare_errors : forall m F next k nm kind, Inv m F next ->
  (declare m (rnames F) nm k kind = RErr <-> skips_level F k = true \/ duplicate_in_scope F k nm = true) /\
  declare m (rnames F) nm k kind <> RPanic /\ declare m (rnames F) nm k kind <> RFuel.
Proof.
  intros m F next k nm kind I. pose proof (declare_step m F next k nm kind I) as DS.
  rewrite <- (insert_none_iff k F nm next).
  destruct (scope_insert k F nm next) as [F1|].
  - destruct DS as (m1 & D & _). rewrite D. repeat split; discriminate.
  - rewrite DS. repeat split; auto; discriminate.
Qed.

(* the state after an accepted program satisfies the invariant, with the context = the rightmost names *)
Theorem collect_reaches : forall nodes m ast, fresh nodes -> collect mgr_new nodes = ROk (m, ast) ->
  exists encls F next, scopes (prog_of nodes) = Some (encls, F) /\ Inv m F next.
Proof.
  intros nodes m ast Fr C. unfold collect, ctx_global in C.
  pose proof (collect_loop_spec nodes mgr_new FNil 0 inv_new Fr) as H. cbn [rnames] in H. unfold scopes.
  destruct (scopes_from FNil 0 (prog_of nodes)) as [[encls Ff]|].
  - destruct H as (m' & ast' & next' & C' & I' & _). rewrite C in C'. inversion C'; subst. eauto.
  - rewrite C in H. discriminate.
Qed.

(* ------------------------------------------------------------------ use before declaration *)
Lemma scope_resolve_depends : forall F e1 e2 k path,
  (match k with O => True | S k' => nth_error e1 k' = nth_error e2 k' end) ->
  scope_resolve F e1 k path = scope_resolve F e2 k path.
Proof. intros F e1 e2 [|k] path H; cbn; auto. now rewrite H. Qed.

Theorem forward_spec : forall nodes m ast, fresh nodes -> collect mgr_new nodes = ROk (m, ast) ->
  exists encls F ctxs,
    scopes (prog_of nodes) = Some (encls, F) /\ node_ctxs m ctx_global ast = ROk ctxs /\
    forall i j ci cj ei ej,
      nth_error ctxs i = Some ci -> nth_error ctxs j = Some cj ->
      nth_error encls i = Some ei -> nth_error encls j = Some ej ->
      forall k path,
        (match k with O => True | S k' => nth_error ei k' = nth_error ej k' end) ->
        try_get_by_name m ci k path = try_get_by_name m cj k path /\
        try_get_by_name m ci k path = ROk (scope_resolve F ei k path).
Proof.
  intros nodes m ast Fr C.
  destruct (lookup_spec nodes m ast Fr C) as (encls & F & ctxs & S & NC & _ & L).
  exists encls, F, ctxs. split; auto. split; auto.
  intros i j ci cj ei ej Hi Hj Ei Ej k path Hk.
  destruct (L _ _ Hi) as (ei' & Ei' & Li). destruct (L _ _ Hj) as (ej' & Ej' & Lj).
  rewrite Ei in Ei'. rewrite Ej in Ej'. inversion Ei'; inversion Ej'; subst.
  rewrite Li, Lj. split; auto. f_equal. apply scope_resolve_depends; auto.
Qed.
