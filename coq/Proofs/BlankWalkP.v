(* C07, blanks and comments, part 2: walkers over a segment list addressed by segment indices; the walker primitives
   and the expression parser on two lines that differ only in the content of their gaps.  No axioms. *)
From Coq Require Import NArith ZArith List Bool Lia ZifyBool.
Import ListNotations.
From CA Require Import Model.Lexer Model.Parser Model.Matcher Proofs.MatcherP Proofs.MatcherCaseP Proofs.MatcherKeysP
  Proofs.ParseWfP Proofs.BlankLexP.
Open Scope N_scope.

(* ------------------------------------------------------------------------------------------------ *)
(* list facts                                                                                         *)

Definition mid {X} (A : list X) (i j : nat) : list X := skipn i (firstn j A).

Lemma firstn_mid {X} (A : list X) : forall i j, (i <= j)%nat -> firstn j A = firstn i A ++ mid A i j.
Proof.
  intros i j H. unfold mid. rewrite <- (firstn_skipn i (firstn j A)) at 1. f_equal.
  rewrite firstn_firstn. f_equal. lia.
Qed.

Lemma mid_length {X} (A : list X) : forall i j, (j <= length A)%nat -> length (mid A i j) = (j - i)%nat.
Proof. intros i j H. unfold mid. rewrite skipn_length, firstn_length. lia. Qed.

Lemma mid_split {X} (A : list X) : forall i k j, (i <= k)%nat -> (k <= j)%nat -> (j <= length A)%nat ->
  mid A i j = mid A i k ++ mid A k j.
Proof.
  intros i k j H1 H2 H3. unfold mid at 1. rewrite (firstn_mid A k j H2). rewrite skipn_app.
  rewrite firstn_length. replace (i - Nat.min k (length A))%nat with O by lia. reflexivity.
Qed.

Lemma mid_nil {X} (A : list X) : forall i, mid A i i = [].
Proof. intros i. unfold mid. apply skipn_all2. rewrite firstn_length. lia. Qed.

Lemma mid_skipn {X} (A : list X) : forall i j, (i <= j)%nat -> (j <= length A)%nat -> mid A i j ++ skipn j A = skipn i A.
Proof.
  intros i j H1 H2. rewrite <- (firstn_skipn j A) at 3. rewrite skipn_app, firstn_length.
  replace (i - Nat.min j (length A))%nat with O by lia. reflexivity.
Qed.

Lemma mid_firstn {X} (A : list X) : forall i j m, (i <= j)%nat -> (j <= length A)%nat -> (m <= j - i)%nat ->
  firstn m (mid A i j) = mid A i (i + m) /\ skipn m (mid A i j) = mid A (i + m) j.
Proof.
  intros i j m H1 H2 H3. rewrite (mid_split A i (i + m) j) by lia.
  assert (L : length (mid A i (i + m)) = m) by (rewrite mid_length; lia).
  split.
  - rewrite firstn_app, L, Nat.sub_diag, firstn_O, app_nil_r. rewrite <- L at 1. apply firstn_all.
  - rewrite skipn_app, L, Nat.sub_diag. cbn [skipn]. rewrite <- L at 1. rewrite skipn_all. reflexivity.
Qed.

Lemma mid_cons {X} (A : list X) : forall i j, (i < j)%nat -> (j <= length A)%nat ->
  exists x, mid A i (S i) = [x] /\ mid A i j = x :: mid A (S i) j.
Proof.
  intros i j H1 H2. pose proof (mid_length A i (S i) ltac:(lia)) as L.
  destruct (mid A i (S i)) as [|x [|y l]] eqn:E; cbn [length] in L; try lia.
  exists x. split; [reflexivity|]. rewrite (mid_split A i (S i) j) by lia. rewrite E. reflexivity.
Qed.

Lemma Forall2_len {X Y} (R : X -> Y -> Prop) : forall l l', Forall2 R l l' -> length l = length l'.
Proof. induction 1; cbn [length]; congruence. Qed.
Lemma Forall2_firstn {X Y} (R : X -> Y -> Prop) : forall n l l', Forall2 R l l' -> Forall2 R (firstn n l) (firstn n l').
Proof.
  induction n as [|n IH]; intros l l' H; [constructor|]. destruct H; cbn [firstn]; constructor; auto.
Qed.
Lemma Forall2_skipn {X Y} (R : X -> Y -> Prop) : forall n l l', Forall2 R l l' -> Forall2 R (skipn n l) (skipn n l').
Proof.
  induction n as [|n IH]; intros l l' H; [exact H|]. destruct H; cbn [skipn]; [constructor | auto].
Qed.
Lemma Forall2_mid {X Y} (R : X -> Y -> Prop) : forall i j l l', Forall2 R l l' -> Forall2 R (mid l i j) (mid l' i j).
Proof. intros. unfold mid. apply Forall2_skipn, Forall2_firstn. assumption. Qed.
Lemma Forall_firstn_ {X} (P : X -> Prop) : forall n l, Forall P l -> Forall P (firstn n l).
Proof. induction n as [|n IH]; intros l H; [constructor|]. destruct H; cbn [firstn]; constructor; auto. Qed.
Lemma Forall_skipn_ {X} (P : X -> Prop) : forall n l, Forall P l -> Forall P (skipn n l).
Proof. induction n as [|n IH]; intros l H; [exact H|]. destruct H; cbn [skipn]; [constructor | auto]. Qed.
Lemma Forall_mid {X} (P : X -> Prop) : forall i j l, Forall P l -> Forall P (mid l i j).
Proof. intros. unfold mid. apply Forall_skipn_, Forall_firstn_. assumption. Qed.

(* ------------------------------------------------------------------------------------------------ *)
(* walkers addressed by segment indices                                                               *)

Definition W (A : list seg) (i j : nat) : walker :=
  EW (render (firstn i A)) (render (mid A i j)) (render (skipn j A)).
Definition pos (A : list seg) (i : nat) : N := bytes_len (render (firstn i A)).

Lemma W_cur : forall A i j, cur (W A i j) = pos A i.
Proof. reflexivity. Qed.
Lemma W_lim : forall A i j, (i <= j)%nat -> lim (W A i j) = pos A j.
Proof. intros A i j H. unfold W, EW, pos. cbn [lim]. rewrite (firstn_mid A i j H), render_app, bytes_len_app. reflexivity. Qed.
Lemma W_visible : forall A i j, visible (W A i j) = render (mid A i j).
Proof. intros. apply EW_visible. Qed.

Lemma W_adv : forall A i k j, (i <= k)%nat -> (k <= j)%nat -> (j <= length A)%nat ->
  advance (W A i j) (bytes_len (render (mid A i k))) = W A k j.
Proof.
  intros A i k j H1 H2 H3. unfold W. rewrite (mid_split A i k j H1 H2 H3), render_app, EW_advance.
  rewrite (firstn_mid A i k H1), render_app. reflexivity.
Qed.

Lemma W_limit : forall A i j k, (i <= j)%nat -> (j <= length A)%nat -> (i <= k)%nat -> (k <= length A)%nat ->
  with_limit (W A i j) (pos A k) = W A i k.
Proof.
  intros A i j k H1 H2 H3 H4. unfold with_limit, W, EW, pos. cbn [tail cur lim]. f_equal.
  - rewrite <- !render_app, !mid_skipn by assumption. reflexivity.
  - rewrite (firstn_mid A i k H3), render_app, bytes_len_app. reflexivity.
Qed.

Lemma pos_mono : forall A i k, Forall seg_ok A -> (i <= k)%nat -> (k <= length A)%nat ->
  pos A k = pos A i + bytes_len (render (mid A i k)).
Proof. intros A i k _ H1 H2. unfold pos. rewrite (firstn_mid A i k H1), render_app, bytes_len_app. reflexivity. Qed.

Lemma rseg_nonempty : forall s, seg_ok s -> rseg s <> [].
Proof.
  intros [c|g] H; cbn [rseg]; [discriminate|]. destruct H as [Hn Hf]. destruct g as [|a g]; [congruence|].
  destruct a; cbn; discriminate.
Qed.

Lemma render_pos_bytes : forall M, Forall seg_ok M -> M <> [] -> 0 < bytes_len (render M).
Proof.
  intros [|s M] H Hn; [congruence|]. inversion H; subst. cbn [render flat_map]. rewrite bytes_len_app.
  pose proof (rseg_nonempty s H2) as Hr. destruct (rseg s) as [|c r]; [congruence|]. cbn [bytes_len].
  pose proof (utf8_len_pos c). lia.
Qed.

Lemma pos_strict : forall A i k, Forall seg_ok A -> (i < k)%nat -> (k <= length A)%nat -> pos A i < pos A k.
Proof.
  intros A i k HA H1 H2. rewrite (pos_mono A i k HA) by lia.
  assert (0 < bytes_len (render (mid A i k))).
  { apply render_pos_bytes; [apply Forall_mid; exact HA|]. intros E. pose proof (mid_length A i k H2). rewrite E in H. cbn in H. lia. }
  lia.
Qed.

Lemma pos_inj : forall A i k, Forall seg_ok A -> (i <= length A)%nat -> (k <= length A)%nat -> pos A i = pos A k -> i = k.
Proof.
  intros A i k HA H1 H2 E. destruct (Nat.lt_trichotomy i k) as [H|[H|H]]; [|exact H|].
  - pose proof (pos_strict A i k HA H H2). lia.
  - pose proof (pos_strict A k i HA H H1). lia.
Qed.

(* ------------------------------------------------------------------------------------------------ *)
(* skipping the gaps in front of the cursor                                                           *)

Definition is_gap (s : seg) : bool := match s with Gap _ => true | Ch _ => false end.
Definition headplain (M : list seg) : Prop := match M with Gap _ :: _ => False | _ => True end.
(* k is where the first non-gap segment at or after i (below j) sits, or j *)
Definition stops (A : list seg) (i j k : nat) : Prop :=
  (i <= k)%nat /\ (k <= j)%nat /\ forallb is_gap (mid A i k) = true /\ headplain (mid A k j).

Lemma stops_ex : forall A j, (j <= length A)%nat -> forall n i, (j - i = n)%nat -> (i <= j)%nat -> exists k, stops A i j k.
Proof.
  intros A j Hj. induction n as [|n IH]; intros i Hn Hi.
  - exists i. assert (i = j) by lia. subst. repeat split; try lia; rewrite mid_nil; reflexivity.
  - destruct (mid_cons A i j ltac:(lia) Hj) as [x [E1 E2]]. destruct x as [c|g].
    + exists i. repeat split; try lia; [rewrite mid_nil; reflexivity | rewrite E2; exact I].
    + destruct (IH (S i) ltac:(lia) ltac:(lia)) as [k [K1 [K2 [K3 K4]]]]. exists k. repeat split; try lia; [|exact K4].
      rewrite (mid_split A i (S i) k) by lia. rewrite E1. cbn [app forallb is_gap]. exact K3.
Qed.

Lemma forallb_gap_rel : forall M M', Forall2 seg_rel M M' -> forallb is_gap M = forallb is_gap M'.
Proof.
  induction 1 as [|s s' M M' Hs HM IH]; [reflexivity|]. cbn [forallb]. rewrite IH.
  destruct s, s'; cbn in Hs |- *; try reflexivity; contradiction.
Qed.
Lemma headplain_rel : forall M M', Forall2 seg_rel M M' -> headplain M -> headplain M'.
Proof. intros M M' H. destruct H as [|s s' M M' Hs HM]; [auto|]. destruct s, s'; cbn in *; auto. Qed.

Lemma stops_rel : forall A A' i j k, Forall2 seg_rel A A' -> stops A i j k -> stops A' i j k.
Proof.
  intros A A' i j k HR [K1 [K2 [K3 K4]]]. repeat split; try assumption.
  - rewrite <- (forallb_gap_rel _ _ (Forall2_mid seg_rel i k A A' HR)). exact K3.
  - eapply headplain_rel; [apply Forall2_mid; exact HR | exact K4].
Qed.

Lemma F_gaps {X} (F : walker -> X) : gap_step F -> forall G pre v post, Forall seg_ok G -> forallb is_gap G = true ->
  F (EW pre (render G ++ v) post) = F (EW (pre ++ render G) v post).
Proof.
  intros HF. induction G as [|s G IH]; intros pre v post Hok Hg.
  - cbn [render flat_map app]. rewrite app_nil_r. reflexivity.
  - inversion Hok; subst. cbn [forallb] in Hg. apply andb_true_iff in Hg. destruct Hg as [Hs Hg].
    destruct s as [c|g]; [discriminate|]. cbn [render flat_map rseg]. fold (render G). rewrite <- app_assoc.
    destruct H1 as [_ Hat]. rewrite (F_atoms F HF g pre (render G ++ v) post Hat). rewrite IH by assumption.
    rewrite <- app_assoc. reflexivity.
Qed.

Section One.
Variable B : list seg.
Hypothesis HB : Forall seg_ok B.

Lemma W_gaps {X} (F : walker -> X) : gap_step F -> forall i j k, (j <= length B)%nat -> stops B i j k -> F (W B i j) = F (W B k j).
Proof.
  intros HF i j k Hj [K1 [K2 [K3 _]]]. unfold W. rewrite (mid_split B i k j K1 K2 Hj), render_app.
  rewrite (F_gaps F HF) by (try apply Forall_mid; assumption).
  rewrite (firstn_mid B i k K1), render_app. reflexivity.
Qed.

Lemma headplain_cases : forall k j, (k <= j)%nat -> (j <= length B)%nat -> headplain (mid B k j) ->
  (k = j /\ mid B k j = []) \/ (exists c M1, (k < j)%nat /\ mid B k j = Ch c :: M1 /\ plain c = true).
Proof.
  intros k j H1 H2 Hh. destruct (mid B k j) as [|s M1] eqn:E.
  - left. pose proof (mid_length B k j H2) as L. rewrite E in L. cbn in L. split; [lia | reflexivity].
  - right. destruct s as [c|g]; [|destruct Hh]. exists c, M1.
    pose proof (mid_length B k j H2) as L. rewrite E in L. cbn [length] in L. split; [lia|]. split; [reflexivity|].
    pose proof (Forall_mid seg_ok k j B HB) as Hf. rewrite E in Hf. inversion Hf; subst. assumption.
Qed.

Lemma W_settled : forall k j, (k <= j)%nat -> (j <= length B)%nat -> headplain (mid B k j) -> settled (W B k j).
Proof.
  intros k j H1 H2 Hh. destruct (headplain_cases k j H1 H2 Hh) as [[-> E]|[c [M1 [Hlt [E Hc]]]]].
  - left. unfold W. rewrite EW_over, E. reflexivity.
  - right. unfold W. rewrite EW_token, E. cbn [render flat_map rseg app].
    destruct (decide_next_token (c :: flat_map rseg M1)) as [kd n] eqn:Ed. cbn [fst].
    eapply plain_token_not_ignorable; eassumption.
Qed.

Lemma W_nui : forall i j k, (j <= length B)%nat -> stops B i j k -> next_useful_index (W B i j) = W B k j.
Proof.
  intros i j k Hj Hs. rewrite (W_gaps next_useful_index nui_gap_step i j k Hj Hs).
  destruct Hs as [K1 [K2 [_ K4]]]. rewrite next_useful_index_skip. apply skip_settled. apply W_settled; assumption.
Qed.
End One.

(* ------------------------------------------------------------------------------------------------ *)
(* the leading run of plain characters                                                                *)

Fixpoint chrun (M : list seg) : text := match M with Ch c :: r => c :: chrun r | _ => [] end.

Lemma chrun_render : forall M, Forall seg_ok M ->
  render M = chrun M ++ render (skipn (length (chrun M)) M) /\ vok (render (skipn (length (chrun M)) M)).
Proof.
  induction M as [|s M IH]; intros H; [split; [reflexivity | exact I]|]. inversion H; subst.
  destruct s as [c|g]; cbn [chrun].
  - destruct (IH H3) as [E V]. cbn [length skipn render flat_map rseg app]. fold (render M). split; [rewrite E at 1; reflexivity | exact V].
  - cbn [length skipn app]. split; [reflexivity|]. cbn [render flat_map rseg]. destruct H2 as [Hn Hf]. apply ratoms_vok; assumption.
Qed.

Lemma chrun_rel : forall M M', Forall2 seg_rel M M' -> chrun M = chrun M'.
Proof.
  induction 1 as [|s s' M M' Hs HM IH]; [reflexivity|]. destruct s, s'; cbn in Hs |- *; try contradiction; [|reflexivity].
  subst. f_equal. exact IH.
Qed.

Lemma chrun_firstn : forall M m, (m <= length (chrun M))%nat -> render (firstn m M) = firstn m (chrun M).
Proof.
  induction M as [|s M IH]; intros m H; [destruct m; reflexivity|]. destruct s as [c|g]; cbn [chrun length] in *.
  - destruct m as [|m]; [reflexivity|]. cbn [firstn render flat_map rseg app]. fold (render (firstn m M)). rewrite IH by lia. reflexivity.
  - assert (m = O) by lia. subst. reflexivity.
Qed.

Lemma chrun_length : forall M, (length (chrun M) <= length M)%nat.
Proof. induction M as [|[c|g] M IH]; cbn [chrun length]; lia. Qed.

(* ------------------------------------------------------------------------------------------------ *)
(* two lines that differ only in the content of their gaps                                            *)

Section Two.
Variables A A' : list seg.
Hypothesis HA : Forall seg_ok A.
Hypothesis HA' : Forall seg_ok A'.
Hypothesis HR : Forall2 seg_rel A A'.

Lemma len_eq : length A' = length A.
Proof. symmetry. eapply Forall2_len. exact HR. Qed.

Definition ok (i j : nat) : Prop := (i <= j)%nat /\ (j <= length A)%nat.

(* the token under the cursor when no gap is in front: same kind, same length, same text, and it ends at a segment boundary *)
Lemma token_sim : forall k j, ok k j -> headplain (mid A k j) ->
  exists kd n m, token_here (W A k j) = (kd, n) /\ token_here (W A' k j) = (kd, n) /\ (k + m <= j)%nat /\
    advance (W A k j) n = W A (k + m) j /\ advance (W A' k j) n = W A' (k + m) j /\
    take_bytes n (visible (W A k j)) = take_bytes n (visible (W A' k j)) /\
    (kd = TLineBreak /\ k = j \/ is_ignorable kd = false /\ (k < j)%nat).
Proof.
  intros k j [H1 H2] Hh. pose proof len_eq as HL.
  pose proof (Forall2_mid seg_rel k j A A' HR) as HM.
  destruct (headplain_cases A HA k j H1 H2 Hh) as [[-> E]|[c [M1 [Hlt [E Hc]]]]].
  - exists TLineBreak, 0, O. unfold W. rewrite !EW_token, !mid_nil. cbn [render flat_map].
    rewrite !advance_zero, Nat.add_0_r. repeat split; try reflexivity; try lia.
    all: try (rewrite !take_bytes_0; reflexivity).
    all: try (left; split; reflexivity).
    all: rewrite !mid_nil; reflexivity.
  - set (M := mid A k j) in *. set (M' := mid A' k j) in *.
    pose proof (chrun_rel _ _ HM) as Hu.
    destruct (chrun_render M (Forall_mid seg_ok k j A HA)) as [Er Hv].
    destruct (chrun_render M' (Forall_mid seg_ok k j A' HA')) as [Er' Hv'].
    rewrite <- Hu in Er', Hv'. set (u := chrun M) in *.
    assert (Eu : u = c :: chrun M1) by (unfold u; rewrite E; reflexivity).
    destruct (decide_next_token u) as [kd n] eqn:Ed.
    assert (T1 : token_here (W A k j) = (kd, n)).
    { unfold W. rewrite EW_token. fold M. rewrite Er. rewrite Eu in *. cbn [app]. rewrite <- Ed.
      change (c :: chrun M1 ++ ?v) with ((c :: chrun M1) ++ v). apply decide_app; assumption. }
    assert (T2 : token_here (W A' k j) = (kd, n)).
    { unfold W. rewrite EW_token. fold M'. rewrite Er'. rewrite Eu in *. cbn [app]. rewrite <- Ed.
      change (c :: chrun M1 ++ ?v) with ((c :: chrun M1) ++ v). apply decide_app; assumption. }
    rewrite Eu in Ed. destruct (plain_token_len _ _ _ _ Hc Ed) as [m [Hm En]]. rewrite <- Eu in Hm, En, Ed.
    assert (Lu : (length u <= j - k)%nat).
    { unfold u. pose proof (chrun_length M). unfold M in H. rewrite mid_length in H by assumption. exact H. }
    exists kd, n, m. split; [exact T1|]. split; [exact T2|]. split; [lia|].
    assert (F1 : render (mid A k (k + m)) = firstn m u).
    { destruct (mid_firstn A k j m H1 H2 ltac:(lia)) as [<- _]. apply chrun_firstn. exact Hm. }
    assert (F2 : render (mid A' k (k + m)) = firstn m u).
    { destruct (mid_firstn A' k j m H1 ltac:(lia) ltac:(lia)) as [<- _]. rewrite Hu. apply (chrun_firstn M').
      rewrite <- Hu. exact Hm. }
    split; [rewrite En, <- F1; apply W_adv; lia|].
    split; [rewrite En, <- F2; apply W_adv; lia|].
    split.
    + assert (Hx : forall v, take_bytes (bytes_len (firstn m u)) (u ++ v) = firstn m u).
      { intros v. replace (u ++ v) with (firstn m u ++ (skipn m u ++ v)) by (rewrite app_assoc, firstn_skipn; reflexivity).
        apply take_bytes_exact. }
      rewrite !W_visible. fold M M'. rewrite Er, Er', En, !Hx. reflexivity.
    + right. split; [|exact Hlt]. rewrite Eu in Ed. eapply plain_token_not_ignorable; eassumption.
Qed.

(* next_useful: same index, same token *)
Lemma nu_sim : forall i j, ok i j -> exists k kd n m, stops A i j k /\
  next_useful (fuel_of (W A i j)) (W A i j) = (W A k j, (kd, n)) /\
  next_useful (fuel_of (W A' i j)) (W A' i j) = (W A' k j, (kd, n)) /\ (k + m <= j)%nat /\
  advance (W A k j) n = W A (k + m) j /\ advance (W A' k j) n = W A' (k + m) j /\
  take_bytes n (visible (W A k j)) = take_bytes n (visible (W A' k j)) /\
  (kd = TLineBreak /\ k = j \/ is_ignorable kd = false /\ (k < j)%nat).
Proof.
  intros i j [H1 H2]. destruct (stops_ex A j H2 (j - i) i eq_refl H1) as [k Hs].
  pose proof (stops_rel A A' i j k HR Hs) as Hs'. pose proof len_eq as HL.
  destruct Hs as [K1 [K2 [K3 K4]]] eqn:EHs. clear EHs.
  destruct (token_sim k j (conj K2 H2) K4) as [kd [n [m [T1 [T2 [Hm [A1 [A2 [Tx Hk]]]]]]]]].
  exists k, kd, n, m. split; [repeat split; assumption|].
  rewrite !next_useful_skip, <- !next_useful_index_skip.
  rewrite (W_nui A HA i j k H2 ltac:(repeat split; assumption)), (W_nui A' HA' i j k ltac:(lia) Hs'), T1, T2.
  repeat split; assumption.
Qed.

Lemma me_sim : forall i j kx, ok i j ->
  (maybe_expect (W A i j) kx = None /\ maybe_expect (W A' i j) kx = None) \/
  (exists i1 t, (i <= i1)%nat /\ (i1 <= j)%nat /\
     maybe_expect (W A i j) kx = Some (W A i1 j, t) /\ maybe_expect (W A' i j) kx = Some (W A' i1 j, t)).
Proof.
  intros i j kx Hok. destruct (nu_sim i j Hok) as [k [kd [n [m [[K1 [K2 _]] [N1 [N2 [Hm [A1 [A2 [Tx _]]]]]]]]]]].
  unfold maybe_expect. rewrite N1, N2. destruct (tkind_eqb kx kd); [|left; split; reflexivity].
  right. exists (k + m)%nat, (take_bytes n (visible (W A k j))). rewrite A1, A2, Tx. repeat split; try lia; reflexivity.
Qed.

Lemma nuis_sim : forall i j kx, ok i j -> next_useful_is (W A i j) kx = next_useful_is (W A' i j) kx.
Proof.
  intros i j kx Hok. destruct (nu_sim i j Hok) as [k [kd [n [m [_ [N1 [N2 _]]]]]]].
  unfold next_useful_is. rewrite N1, N2. reflexivity.
Qed.

Lemma nl_sim : forall i j, ok i j ->
  (nlc (W A i j) = None /\ nlc (W A' i j) = None) \/
  (nlc (W A i j) = Some (W A j j) /\ nlc (W A' i j) = Some (W A' j j)).
Proof.
  intros i j [H1 H2]. destruct (stops_ex A j H2 (j - i) i eq_refl H1) as [k Hs].
  pose proof (stops_rel A A' i j k HR Hs) as Hs'. pose proof len_eq as HL.
  rewrite (W_gaps A HA nlc nlc_gap_step i j k H2 Hs), (W_gaps A' HA' nlc nlc_gap_step i j k ltac:(lia) Hs').
  destruct Hs as [K1 [K2 [K3 K4]]].
  destruct (token_sim k j (conj K2 H2) K4) as [kd [n [m [T1 [T2 [Hm [A1 [A2 [Tx Hk]]]]]]]]].
  unfold nlc, fuel_of. cbn [next_linebreak]. rewrite T1, T2.
  destruct Hk as [[-> ->]|[Hi Hlt]].
  - right. cbn [tkind_eqb]. rewrite A1, A2. assert (m = O) by lia. subst m. rewrite Nat.add_0_r. split; reflexivity.
  - left. rewrite Hi. destruct kd; try discriminate Hi; split; reflexivity.
Qed.

Lemma al_sim : forall i j, ok i j -> at_linebreak (W A i j) = at_linebreak (W A' i j).
Proof.
  intros i j Hok. unfold at_linebreak. change (next_linebreak (fuel_of ?w) ?w) with (nlc w).
  destruct (nl_sim i j Hok) as [[-> ->]|[-> ->]]; reflexivity.
Qed.

Lemma fo_sim : forall ops i j, ok i j ->
  (find_op (W A i j) ops = None /\ find_op (W A' i j) ops = None) \/
  (exists i1 o, (i <= i1)%nat /\ (i1 <= j)%nat /\
     find_op (W A i j) ops = Some (W A i1 j, o) /\ find_op (W A' i j) ops = Some (W A' i1 j, o)).
Proof.
  induction ops as [|[kx o] ops IH]; intros i j Hok; [left; split; reflexivity|]. cbn [find_op].
  destruct (me_sim i j kx Hok) as [[-> ->]|[i1 [t [L1 [L2 [-> ->]]]]]]; [apply IH; exact Hok|].
  right. exists i1, o. repeat split; assumption.
Qed.

(* ---- results of the expression parser ---- *)
Definition rsim {X} (j i : nat) (r r' : pres X) : Prop :=
  r = PFuel \/ r' = PFuel \/ (r = PErr /\ r' = PErr) \/
  exists a i1, (i <= i1)%nat /\ (i1 <= j)%nat /\ r = POk a (W A i1 j) /\ r' = POk a (W A' i1 j).

Lemma rsim_fuel_l {X} j i (r' : pres X) : rsim j i PFuel r'. Proof. left. reflexivity. Qed.
Lemma rsim_fuel_r {X} j i (r : pres X) : rsim j i r PFuel. Proof. right. left. reflexivity. Qed.
Lemma rsim_err {X} j i : @rsim X j i PErr PErr. Proof. right. right. left. split; reflexivity. Qed.
Lemma rsim_ok {X} j i i1 (a : X) : (i <= i1)%nat -> (i1 <= j)%nat -> rsim j i (POk a (W A i1 j)) (POk a (W A' i1 j)).
Proof. intros. right. right. right. exists a, i1. repeat split; assumption. Qed.
Lemma rsim_weaken {X} j i i0 (r r' : pres X) : (i0 <= i)%nat -> rsim j i r r' -> rsim j i0 r r'.
Proof.
  intros H [E|[E|[E|[a [i1 [L1 [L2 [E1 E2]]]]]]]]; [left; exact E | right; left; exact E | right; right; left; exact E|].
  right. right. right. exists a, i1. repeat split; try assumption. lia.
Qed.
Lemma rsim_bind {X Y} j i (m m' : pres X) (k k' : X -> walker -> pres Y) :
  rsim j i m m' ->
  (forall a i1, (i <= i1)%nat -> (i1 <= j)%nat -> rsim j i1 (k a (W A i1 j)) (k' a (W A' i1 j))) ->
  rsim j i (bind m k) (bind m' k').
Proof.
  intros [E|[E|[[E1 E2]|[a [i1 [L1 [L2 [E1 E2]]]]]]]] Hk; subst.
  - left. reflexivity.
  - destruct m as [a w| |]; cbn [bind]; [right; left; reflexivity | right; left; reflexivity | left; reflexivity].
  - apply rsim_err.
  - cbn [bind]. eapply rsim_weaken; [exact L1 | apply Hk; assumption].
Qed.

Lemma expect_sim : forall i j kx, ok i j -> rsim j i (expect (W A i j) kx) (expect (W A' i j) kx).
Proof.
  intros i j kx Hok. unfold expect. destruct (me_sim i j kx Hok) as [[-> ->]|[i1 [t [L1 [L2 [-> ->]]]]]];
    [apply rsim_err | apply rsim_ok; assumption].
Qed.

Definition psim (f f' : nat) : Prop :=
  (forall d i j, ok i j -> rsim j i (parse_expr f d (W A i j)) (parse_expr f' d (W A' i j))) /\
  (forall d i j, ok i j -> rsim j i (parse_assign f d (W A i j)) (parse_assign f' d (W A' i j))) /\
  (forall d lv i j, ok i j -> rsim j i (parse_levels f d lv (W A i j)) (parse_levels f' d lv (W A' i j))) /\
  (forall d ops inner l i j, ok i j -> rsim j i (binary_loop f d ops inner l (W A i j)) (binary_loop f' d ops inner l (W A' i j))) /\
  (forall d i j, ok i j -> rsim j i (parse_slice f d (W A i j)) (parse_slice f' d (W A' i j))) /\
  (forall d i j, ok i j -> rsim j i (parse_short f d (W A i j)) (parse_short f' d (W A' i j))) /\
  (forall d i j, ok i j -> rsim j i (parse_unary f d (W A i j)) (parse_unary f' d (W A' i j))) /\
  (forall d i j, ok i j -> rsim j i (parse_call f d (W A i j)) (parse_call f' d (W A' i j))) /\
  (forall d acc i j, ok i j -> rsim j i (parse_args f d (W A i j) acc) (parse_args f' d (W A' i j) acc)) /\
  (forall d i j, ok i j -> rsim j i (parse_leaf f d (W A i j)) (parse_leaf f' d (W A' i j))) /\
  (forall d acc i j, ok i j -> rsim j i (parse_block f d (W A i j) acc) (parse_block f' d (W A' i j) acc)) /\
  (forall level i j, ok i j -> rsim j i (parse_var_dots f (W A i j) level) (parse_var_dots f' (W A' i j) level)) /\
  (forall level acc i j, ok i j -> rsim j i (parse_var_names f (W A i j) level acc) (parse_var_names f' (W A' i j) level acc)).

Ltac okk := solve [unfold ok in *; lia].

Ltac sim_step IHt :=
  first
  [ apply rsim_fuel_l
  | apply rsim_fuel_r
  | apply rsim_err
  | apply rsim_ok; [okk | okk]
  | IHt
  | (eapply rsim_weaken; [| apply expect_sim; okk]; okk)
  | apply rsim_bind; [| intros ? ? ? ?]
  | match goal with
    | |- rsim _ _ (let _ := _ in _) _ => cbv zeta
    | |- context [at_linebreak (W A ?i ?j)] => rewrite (al_sim i j ltac:(okk))
    | |- context [next_useful_is (W A ?i ?j) ?k] => rewrite (nuis_sim i j k ltac:(okk))
    | |- context [maybe_expect (W A ?i ?j) ?k] =>
        let E1 := fresh "E" in let E2 := fresh "E" in
        destruct (me_sim i j k ltac:(okk)) as [[E1 E2]|(? & ? & ? & ? & E1 & E2)]; rewrite E1, E2; clear E1 E2; cbv beta iota
    | |- context [find_op (W A ?i ?j) ?k] =>
        let E1 := fresh "E" in let E2 := fresh "E" in
        destruct (fo_sim k i j ltac:(okk)) as [[E1 E2]|(? & ? & ? & ? & E1 & E2)]; rewrite E1, E2; clear E1 E2; cbv beta iota
    | |- context [next_linebreak (fuel_of (W A ?i ?j)) (W A ?i ?j)] =>
        let E1 := fresh "E" in let E2 := fresh "E" in
        change (next_linebreak (fuel_of (W A i j)) (W A i j)) with (nlc (W A i j));
        change (next_linebreak (fuel_of (W A' i j)) (W A' i j)) with (nlc (W A' i j));
        destruct (nl_sim i j ltac:(okk)) as [[E1 E2]|[E1 E2]]; rewrite E1, E2; clear E1 E2; cbv beta iota
    | |- rsim _ _ (if ?b then _ else _) (if ?b then _ else _) => destruct b
    | |- rsim _ _ (match ?x with _ => _ end) (match ?x with _ => _ end) => destruct x
    end ].

Lemma psim_all : forall f f', psim f f'.
Proof.
  induction f as [|f IH]; intros f'.
  - unfold psim. repeat split; intros; apply rsim_fuel_l.
  - destruct f' as [|f']; [unfold psim; repeat split; intros; apply rsim_fuel_r|].
    destruct (IH f') as (I1 & I2 & I3 & I4 & I5 & I6 & I7 & I8 & I9 & I10 & I11 & I12 & I13).
    unfold psim. repeat match goal with |- _ /\ _ => split end; intros.
    + rewrite !parse_expr_S. repeat sim_step ltac:(first [(eapply rsim_weaken; [| apply I1; okk]; okk) | (eapply rsim_weaken; [| apply I2; okk]; okk)]).
    + rewrite !parse_assign_S. repeat sim_step ltac:(first [(eapply rsim_weaken; [| apply I1; okk]; okk) | (eapply rsim_weaken; [| apply I3; okk]; okk)]).
    + rewrite !parse_levels_S. repeat sim_step ltac:(first [(eapply rsim_weaken; [| apply I5; okk]; okk) | (eapply rsim_weaken; [| apply I3; okk]; okk) | (eapply rsim_weaken; [| apply I4; okk]; okk)]).
    + rewrite !binary_loop_S. repeat sim_step ltac:(first [(eapply rsim_weaken; [| apply I3; okk]; okk) | (eapply rsim_weaken; [| apply I4; okk]; okk)]).
    + rewrite !parse_slice_S. repeat sim_step ltac:(first [(eapply rsim_weaken; [| apply I6; okk]; okk) | (eapply rsim_weaken; [| apply I1; okk]; okk)]).
    + rewrite !parse_short_S. repeat sim_step ltac:(first [(eapply rsim_weaken; [| apply I7; okk]; okk) | (eapply rsim_weaken; [| apply I10; okk]; okk)]).
    + rewrite !parse_unary_S. repeat sim_step ltac:(first [(eapply rsim_weaken; [| apply I7; okk]; okk) | (eapply rsim_weaken; [| apply I8; okk]; okk)]).
    + rewrite !parse_call_S. repeat sim_step ltac:(first [(eapply rsim_weaken; [| apply I10; okk]; okk) | (eapply rsim_weaken; [| apply I9; okk]; okk)]).
    + rewrite !parse_args_S. repeat sim_step ltac:(first [(eapply rsim_weaken; [| apply I1; okk]; okk) | (eapply rsim_weaken; [| apply I9; okk]; okk)]).
    + rewrite !parse_leaf_S. repeat sim_step ltac:(first [(eapply rsim_weaken; [| apply I11; okk]; okk) | (eapply rsim_weaken; [| apply I1; okk]; okk) | (eapply rsim_weaken; [| apply I12; okk]; okk)]).
    + rewrite !parse_block_S. repeat sim_step ltac:(first [(eapply rsim_weaken; [| apply I1; okk]; okk) | (eapply rsim_weaken; [| apply I11; okk]; okk)]).
    + rewrite !parse_var_dots_S. repeat sim_step ltac:(first [(eapply rsim_weaken; [| apply I13; okk]; okk) | (eapply rsim_weaken; [| apply I12; okk]; okk)]).
    + rewrite !parse_var_names_S. repeat sim_step ltac:(first [(eapply rsim_weaken; [| apply I13; okk]; okk)]).
Qed.

Theorem parse_expr_sim : forall f f' d i j, ok i j -> rsim j i (parse_expr f d (W A i j)) (parse_expr f' d (W A' i j)).
Proof. intros f f'. destruct (psim_all f f') as [H _]. exact H. Qed.

End Two.
