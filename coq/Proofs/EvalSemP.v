(* C05: the evaluator instantiated with the code's big-integer algorithms (code_ops) equals the evaluator
   instantiated with their closed mathematical forms (math_ops), on every well-formed expression, together with
   the invariant that makes it true: every value the evaluator produces is well formed (sized non-negative
   integers fit their size, texts are made of scalar values). *)
From Coq Require Import ZArith NArith List Bool Lia ZifyBool.
From CA Require Import Model.Lexer Model.Parser Model.Literal Model.BigIntOps Model.Evaluator
  Spec.Sem Spec.SemEval Spec.EvalWf Proofs.BitOpsP.
Import ListNotations.
Open Scope Z_scope.

(* ---------- induction principle for the nested lists of EBlock / ECall ---------- *)
Section ExprInd.
Variable P : expr -> Prop.
Hypothesis HNum : forall v sz, P (ENum v sz).
Hypothesis HBool : forall b, P (EBool b).
Hypothesis HStr : forall raw, P (EStr raw).
Hypothesis HVar : forall level path, P (EVar level path).
Hypothesis HUn : forall o a, P a -> P (EUn o a).
Hypothesis HBin : forall o a b, P a -> P b -> P (EBin o a b).
Hypothesis HTern : forall c t f, P c -> P t -> P f -> P (ETern c t f).
Hypothesis HSlice : forall l r a, P l -> P r -> P a -> P (ESlice l r a).
Hypothesis HShort : forall s a, P s -> P a -> P (EShort s a).
Hypothesis HBlock : forall es, Forall P es -> P (EBlock es).
Hypothesis HCall : forall f args, P f -> Forall P args -> P (ECall f args).
Fixpoint expr_ind' (e : expr) : P e :=
  match e with
  | ENum v sz => HNum v sz
  | EBool b => HBool b
  | EStr raw => HStr raw
  | EVar l p => HVar l p
  | EUn o a => HUn o a (expr_ind' a)
  | EBin o a b => HBin o a b (expr_ind' a) (expr_ind' b)
  | ETern c t f => HTern c t f (expr_ind' c) (expr_ind' t) (expr_ind' f)
  | ESlice l r a => HSlice l r a (expr_ind' l) (expr_ind' r) (expr_ind' a)
  | EShort s a => HShort s a (expr_ind' s) (expr_ind' a)
  | EBlock es => HBlock es ((fix go (es : list expr) : Forall P es :=
                               match es with [] => Forall_nil P | x :: r => Forall_cons x (expr_ind' x) (go r) end) es)
  | ECall f args => HCall f args (expr_ind' f)
                      ((fix go (es : list expr) : Forall P es :=
                          match es with [] => Forall_nil P | x :: r => Forall_cons x (expr_ind' x) (go r) end) args)
  end.
End ExprInd.

Lemma wf_expr_block es : wf_expr (EBlock es) <-> Forall wf_expr es.
Proof.
  cbn [wf_expr]. induction es as [|x r IH].
  - split; [constructor|exact (fun _ => I)].
  - split.
    + intros [Hx Hr]. constructor; [exact Hx|apply IH; exact Hr].
    + intro H. inversion H; subst. split; [assumption|apply IH; assumption].
Qed.
Lemma wf_expr_call f es : wf_expr (ECall f es) <-> wf_expr f /\ Forall wf_expr es.
Proof.
  pose proof (wf_expr_block es) as HB. cbn [wf_expr] in *. tauto.
Qed.

(* ---------- well-formedness of the values produced by the mathematical primitives ---------- *)
Lemma pow2_pos n : 0 < 2 ^ Z.of_N n.
Proof. apply Z.pow_pos_nonneg; lia. Qed.

Lemma wf_un v : wf (un v).
Proof. exact I. Qed.

Lemma wf_sem_slice x l r : wf x -> wf (sem_slice x l r).
Proof.
  intro Hx. unfold sem_slice.
  assert (Hm : wf (mk (sem_slice_bits (bv x) l r) (Some (l - r)%N))).
  { unfold wf. cbn [bsz bv mk]. intros _. unfold sem_slice_bits. apply Z.mod_pos_bound. apply pow2_pos. }
  destruct (bsz x) as [size|]; [|exact Hm].
  destruct ((0 <=? bv x) && (l =? size)%N && (r =? 0)%N); [exact Hx|exact Hm].
Qed.

Lemma wf_sem_concat a asz b bsz0 : wf (sem_concat a asz b bsz0).
Proof.
  unfold wf, sem_concat. cbn [bsz bv mk]. intros _. unfold sem_concat_bits.
  rewrite N2Z.inj_add, Z.pow_add_r by lia.
  pose proof (Z.mod_pos_bound (bv a) (2 ^ Z.of_N asz) (pow2_pos asz)).
  pose proof (Z.mod_pos_bound (bv b) (2 ^ Z.of_N bsz0) (pow2_pos bsz0)). nia.
Qed.

Lemma reverse_bytes_bound v k : 0 <= reverse_bytes v k < 256 ^ Z.of_nat k.
Proof.
  revert v. induction k as [|k IH]; intro v.
  - cbn. lia.
  - cbn [reverse_bytes]. rewrite Nat2Z.inj_succ, Z.pow_succ_r by lia.
    specialize (IH (v / 256)). pose proof (Z.mod_pos_bound v 256 ltac:(lia)).
    assert (0 < 256 ^ Z.of_nat k) by (apply Z.pow_pos_nonneg; lia). nia.
Qed.

Lemma wf_sem_le x size : (size mod 8 = 0)%N -> wf (sem_le x size).
Proof.
  intro Hm. unfold wf, sem_le. cbn [bsz bv mk]. intros _.
  assert (Hk : Z.of_N size = 8 * Z.of_nat (N.to_nat (size / 8))).
  { rewrite N_nat_Z. rewrite (N.div_mod size 8) at 1 by lia. rewrite Hm. lia. }
  rewrite Hk, pow256 by lia. apply reverse_bytes_bound.
Qed.

Lemma wf_import_bytes bs : Forall (fun b => 0 <= b < 256) bs -> wf (import_bytes bs).
Proof.
  intro H. unfold wf, import_bytes. cbn [bsz bv mk]. intros _.
  rewrite from_bytes_be_le_value.
  assert (Hr : forall b, In b (rev bs) -> 0 <= b < 256).
  { intros b Hb. apply in_rev in Hb. rewrite Forall_forall in H. exact (H b Hb). }
  pose proof (le_value_bound (rev bs) Hr) as Hb. rewrite rev_length in Hb.
  replace (Z.of_N (N.of_nat (8 * length bs))) with (8 * Z.of_nat (length bs)) by lia.
  rewrite pow256 by lia. lia.
Qed.

(* every byte an encoder produces is a byte, for texts of scalar values *)
Lemma scalar_lt c : is_scalar c = true -> (c < 1114112)%N.
Proof. unfold is_scalar. lia. Qed.

Lemma Forall_flat_map {A B} (P : B -> Prop) (f : A -> list B) l :
  (forall a, In a l -> Forall P (f a)) -> Forall P (flat_map f l).
Proof.
  induction l as [|a r IH]; intro H; cbn [flat_map]; [constructor|].
  apply Forall_app. split; [apply H; left; reflexivity|apply IH; intros; apply H; right; assumption].
Qed.

Lemma utf8_bytes_range s : scalar_text s -> Forall (fun b => 0 <= b < 256) (utf8_bytes s).
Proof.
  induction 1 as [|c r Hc Hr IH]; cbn [utf8_bytes]; [constructor|].
  apply Forall_app. split; [|exact IH]. apply scalar_lt in Hc.
  set (z := Z.of_N c). assert (0 <= z < 1114112) by lia.
  destruct (z <? 128) eqn:E1; [repeat constructor; lia|].
  destruct (z <? 2048) eqn:E2.
  { repeat constructor; Z.div_mod_to_equations; lia. }
  destruct (z <? 65536) eqn:E3.
  { repeat constructor; Z.div_mod_to_equations; lia. }
  repeat constructor; Z.div_mod_to_equations; lia.
Qed.

Lemma utf16_units_range s : scalar_text s -> Forall (fun u => 0 <= u < 65536) (utf16_units s).
Proof.
  induction 1 as [|c r Hc Hr IH]; cbn [utf16_units]; [constructor|].
  apply Forall_app. split; [|exact IH]. apply scalar_lt in Hc.
  set (z := Z.of_N c). assert (0 <= z < 1114112) by lia.
  destruct (z <? 65536) eqn:E1; [repeat constructor; lia|].
  repeat constructor; Z.div_mod_to_equations; lia.
Qed.

Lemma encode_bytes_range enc s : scalar_text s -> Forall (fun b => 0 <= b < 256) (encode enc s).
Proof.
  intro Hs. unfold encode.
  destruct enc as [|p]; [apply utf8_bytes_range; exact Hs|].
  assert (H16 : forall f : Z -> list Z, (forall u, 0 <= u < 65536 -> Forall (fun b => 0 <= b < 256) (f u)) ->
                Forall (fun b => 0 <= b < 256) (flat_map f (utf16_units s))).
  { intros f Hf. apply Forall_flat_map. intros u Hu. apply Hf.
    pose proof (utf16_units_range s Hs) as H. rewrite Forall_forall in H. exact (H u Hu). }
  assert (H32 : forall f : N -> list Z, (forall c, (c < 1114112)%N -> Forall (fun b => 0 <= b < 256) (f c)) ->
                Forall (fun b => 0 <= b < 256) (flat_map f s)).
  { intros f Hf. apply Forall_flat_map. intros c Hc. apply Hf. apply scalar_lt.
    unfold scalar_text in Hs. rewrite Forall_forall in Hs. exact (Hs c Hc). }
  assert (Hasc : Forall (fun b => 0 <= b < 256) (map (fun c => let c := Z.of_N c in if c >=? 256 then 0 else c) s)).
  { apply Forall_forall. intros b Hb. apply in_map_iff in Hb. destruct Hb as [c [<- _]]. cbv zeta.
    destruct (Z.of_N c >=? 256) eqn:E; lia. }
  assert (T32 : forall f : N -> list Z,
     (forall c, f c = [Z.of_N c / 16777216; (Z.of_N c / 65536) mod 256; (Z.of_N c / 256) mod 256; Z.of_N c mod 256] \/
                f c = [Z.of_N c mod 256; (Z.of_N c / 256) mod 256; (Z.of_N c / 65536) mod 256; Z.of_N c / 16777216]) ->
     Forall (fun b => 0 <= b < 256) (flat_map f s)).
  { intros f Hf. apply H32. intros c Hc. destruct (Hf c) as [-> | ->]; repeat constructor; Z.div_mod_to_equations; lia. }
  assert (T16 : forall f : Z -> list Z,
     (forall u, f u = [u / 256; u mod 256] \/ f u = [u mod 256; u / 256]) ->
     Forall (fun b => 0 <= b < 256) (flat_map f (utf16_units s))).
  { intros f Hf. apply H16. intros u Hu. destruct (Hf u) as [-> | ->]; repeat constructor; Z.div_mod_to_equations; lia. }
  destruct p as [[p|p|]|[p|p|]|]; try destruct p;
    first [exact Hasc
          | apply T32; intro c; cbv zeta; (left; reflexivity) || (right; reflexivity)
          | apply T16; intro u; (left; reflexivity) || (right; reflexivity)].
Qed.

Theorem wf_str_bigint s enc : scalar_text s -> wf (str_bigint s enc).
Proof. intro Hs. apply wf_import_bytes. apply encode_bytes_range. exact Hs. Qed.

(* ---------- string literals denote texts of scalar values ---------- *)
Open Scope N_scope.
(* `unescape` with its literal patterns (92 = backslash, 123 = open brace) restated through `=?` *)
Definition unescape_step (f : nat) (c : N) (r : text) : option text :=
  if c =? 92 then
    match r with
    | [] => None
    | e :: r2 =>
      let simple (k : N) := match unescape f r2 with Some s => Some (k :: s) | None => None end in
      if e =? 48 then simple 0 else if e =? 116 then simple 9 else if e =? 114 then simple 13
      else if e =? 110 then simple 10 else if e =? 39 then simple 39 else if e =? 34 then simple 34
      else if e =? 92 then simple 92
      else if e =? 120 then
        match r2 with
        | h1 :: h2 :: r3 =>
          match hex_digit h1, hex_digit h2 with
          | Some a, Some b => let byte := (a * 16 + b) mod 256 in
                              if 127 <? byte then None
                              else match unescape f r3 with Some s => Some (byte :: s) | None => None end
          | _, _ => None
          end
        | _ => None
        end
      else if e =? 117 then
        match r2 with
        | b :: r3 =>
          if b =? 123 then
            match unescape_u r3 7 0 with
            | Some (cp, r4) => match unescape f r4 with Some s => Some (cp :: s) | None => None end
            | None => None
            end
          else None
        | [] => None
        end
      else None
    end
  else match unescape f r with Some s => Some (c :: s) | None => None end.

Lemma unescape_cons f c r : unescape (S f) (c :: r) = unescape_step f c r.
Proof.
  unfold unescape_step. destruct (N.eqb_spec c 92) as [->|Hc].
  - cbn [unescape]. destruct r as [|e r2]; [reflexivity|]. cbv zeta.
    repeat match goal with |- (if ?b then _ else _) = _ => destruct b; [reflexivity|] end.
    destruct (e =? 117); [|reflexivity].
    destruct r2 as [|b r3]; [reflexivity|].
    destruct (N.eqb_spec b 123) as [->|Hb]; [reflexivity|].
    destruct b as [|p]; [reflexivity|].
    do 7 (destruct p as [p|p|]; try reflexivity). exfalso; apply Hb; reflexivity.
  - destruct c as [|p]; [reflexivity|].
    do 7 (destruct p as [p|p|]; try reflexivity). exfalso; apply Hc; reflexivity.
Qed.

Lemma unescape_u_scalar i : forall t cp c r, scalar_text t -> unescape_u t i cp = Some (c, r) ->
  is_scalar c = true /\ scalar_text r.
Proof.
  induction i as [|i IH]; intros t cp c r Ht E; [destruct t; discriminate|].
  destruct t as [|x t']; [discriminate|]. inversion Ht; subst. cbn [unescape_u] in E.
  destruct (x =? 125).
  - destruct (is_scalar cp) eqn:Es; [|discriminate]. inversion E; subst. split; assumption.
  - destruct (hex_digit x); [|discriminate]. eapply IH; eassumption.
Qed.

Lemma hex_digit_lt c d : hex_digit c = Some d -> d < 16.
Proof.
  unfold hex_digit, in_range. intro E.
  destruct ((48 <=? c) && (c <=? 57)) eqn:E1; [inversion E; lia|].
  destruct ((97 <=? c) && (c <=? 102)) eqn:E2; [inversion E; lia|].
  destruct ((65 <=? c) && (c <=? 70)) eqn:E3; [inversion E; lia|discriminate].
Qed.

Lemma unescape_scalar fuel : forall t s, scalar_text t -> unescape fuel t = Some s -> scalar_text s.
Proof.
  induction fuel as [|f IH]; intros t s Ht E; [discriminate|].
  destruct t as [|c r]; [inversion E; constructor|].
  rewrite unescape_cons in E. unfold unescape_step in E. inversion Ht as [|? ? Hc Hr]; subst.
  destruct (c =? 92).
  2:{ destruct (unescape f r) eqn:E1; [|discriminate]. inversion E; subst.
      constructor; [assumption|eapply IH; eassumption]. }
  destruct r as [|e r2]; [discriminate|]. inversion Hr as [|? ? He Hr2]; subst. cbv zeta in E.
  repeat match type of E with
  | (if ?b then match unescape f r2 with _ => _ end else _) = _ =>
      destruct b; [destruct (unescape f r2) eqn:E1; [|discriminate]; inversion E; subst;
                   constructor; [reflexivity|eapply IH; eassumption]|]
  end.
  destruct (e =? 120).
  { destruct r2 as [|h1 [|h2 r3]]; try discriminate.
    inversion Hr2 as [|? ? ? Hr3']; subst. inversion Hr3' as [|? ? ? Hr3]; subst.
    destruct (hex_digit h1) as [a|]; [|discriminate]. destruct (hex_digit h2) as [b|]; [|discriminate].
    destruct (127 <? (a * 16 + b) mod 256) eqn:Eb; [discriminate|].
    destruct (unescape f r3) eqn:E1; [|discriminate]. inversion E; subst.
    constructor; [unfold is_scalar; lia|eapply IH; eassumption]. }
  destruct (e =? 117); [|discriminate].
  destruct r2 as [|b r3]; [discriminate|]. inversion Hr2; subst.
  destruct (b =? 123); [|discriminate].
  destruct (unescape_u r3 7 0) as [[cp r4]|] eqn:Eu; [|discriminate].
  destruct (unescape_u_scalar _ _ _ _ _ ltac:(eassumption) Eu) as [Hcp Hr4].
  destruct (unescape f r4) eqn:E1; [|discriminate]. inversion E; subst.
  constructor; [assumption|eapply IH; eassumption].
Qed.
Open Scope Z_scope.

Lemma Forall_removelast {A} (P : A -> Prop) l : Forall P l -> Forall P (removelast l).
Proof.
  induction 1 as [|x r Hx Hr IH]; [constructor|]. cbn [removelast].
  destruct r; [constructor|]. constructor; assumption.
Qed.

Theorem str_contents_scalar raw s : scalar_text raw -> string_contents raw = Some s -> scalar_text s.
Proof.
  intros Hr E. unfold string_contents in E. eapply unescape_scalar; [|exact E].
  unfold strip_quotes. apply Forall_removelast. destruct Hr; [constructor|assumption].
Qed.

Lemma get_bigint_wf v x : wf_value v -> get_bigint v = Some x -> wf x.
Proof.
  destruct v; cbn [get_bigint wf_value]; intros Hw E; inversion E; subst; [exact Hw|apply wf_str_bigint; exact Hw].
Qed.

(* ---------- the two instantiations agree, operation by operation ---------- *)
Definition wf_res (r : eres value) : Prop := match r with EOk v => wf_value v | EErr => True end.

Lemma int_binop_good o x y :
  int_binop code_ops o x y = int_binop math_ops o x y /\ wf_res (int_binop math_ops o x y).
Proof.
  destruct o; cbn [int_binop wf_res]; try (split; [reflexivity|exact I]).
  - unfold checked_add. destruct (_ >=? _); split; try reflexivity; exact I.
  - unfold checked_sub. destruct (_ >=? _); split; try reflexivity; exact I.
  - unfold checked_mul. destruct (_ >=? _); split; try reflexivity; exact I.
  - unfold checked_div. destruct (_ =? _); split; try reflexivity; exact I.
  - unfold checked_mod. destruct (_ =? _); split; try reflexivity; exact I.
  - unfold checked_shl. destruct (_ || _); [split; [reflexivity|exact I]|].
    destruct (_ >=? _); split; try reflexivity; exact I.
  - unfold checked_shr. destruct (_ || _); split; try reflexivity; exact I.
  - destruct (bsz x) as [sa|]; [|split; [reflexivity|exact I]].
    destruct (bsz y) as [sb|]; [|split; [reflexivity|exact I]].
    cbn [code_ops math_ops op_concat]. rewrite concat_spec. split; [reflexivity|]. cbn [wf_res wf_value]. apply wf_sem_concat.
Qed.

Lemma checked_slice_good x l r : wf x ->
  checked_slice code_ops x l r = checked_slice math_ops x l r /\
  match checked_slice math_ops x l r with EOk b => wf b | EErr => True end.
Proof.
  intro Hx. unfold checked_slice. destruct (l <? r); [split; [reflexivity|exact I]|].
  destruct (_ >? _); [split; [reflexivity|exact I]|].
  cbn [code_ops math_ops op_slice]. rewrite slice_spec. split; [reflexivity|apply wf_sem_slice; exact Hx].
Qed.

Lemma eval_builtin_good n args : Forall wf_value args ->
  eval_builtin code_ops n args = eval_builtin math_ops n args /\ wf_res (eval_builtin math_ops n args).
Proof.
  intro Ha. unfold eval_builtin.
  destruct (text_eqb n (s_assert)).
  { destruct args as [|[| | | | |c|] [|m [|? ?]]]; try (split; [reflexivity|exact I]).
    - destruct c; split; try reflexivity; exact I.
    - destruct c; [split; [reflexivity|exact I]|]. destruct m; split; try reflexivity; exact I. }
  destruct (text_eqb n (s_sizeof)).
  { destruct args as [|v [|? ?]]; try (split; [reflexivity|exact I]).
    destruct (get_bigint v) as [b|]; [|split; [reflexivity|exact I]].
    destruct (bsz b); split; try reflexivity; exact I. }
  destruct (text_eqb n (s_le)).
  { destruct args as [|[| | |b| | |] [|? ?]]; try (split; [reflexivity|exact I]).
    destruct (bsz b) as [s|] eqn:Es; [|split; [reflexivity|exact I]].
    destruct (N.eqb_spec (s mod 8) 0) as [Hm|]; [|split; [reflexivity|exact I]].
    inversion Ha; subst. cbn [code_ops math_ops op_le].
    rewrite (convert_le_spec b s) by assumption.
    split; [reflexivity|]. cbn [wf_res wf_value]. apply wf_sem_le. exact Hm. }
  destruct (text_eqb n (s_strlen)).
  { destruct args as [|[| | | |s e| |] [|? ?]]; split; try reflexivity; exact I. }
  split; [reflexivity|].
  match goal with |- wf_res (match ?E with _ => _ end) => destruct E as [e|] end; [|exact I].
  destruct args as [|[| | | |s e0| |] [|? ?]]; try exact I.
  inversion Ha; subst. cbn [wf_res wf_value] in *. assumption.
Qed.

(* ---------- the evaluator ---------- *)
Definition good (r1 r2 : eres (value * locals)) : Prop :=
  r1 = r2 /\ match r2 with EOk (v, c) => wf_value v /\ wf_ctx c | EErr => True end.

Lemma good_err : good EErr EErr.
Proof. split; [reflexivity|exact I]. Qed.
Lemma good_ok v c : wf_value v -> wf_ctx c -> good (EOk (v, c)) (EOk (v, c)).
Proof. intros; split; [reflexivity|split; assumption]. Qed.

Lemma lookup_wf c n v : wf_ctx c -> lookup c n = Some v -> wf_value v.
Proof.
  induction 1 as [|[k v0] r Hk Hr IH]; cbn [lookup]; [discriminate|].
  destruct (text_eqb k n); [intro E; inversion E; subst; exact Hk|exact IH].
Qed.

Section Eval.
Variable pvar : N -> list text -> eres value.
Hypothesis Hpvar : wf_pvar pvar.

Definition goodE (e : expr) : Prop :=
  forall ctx, wf_ctx ctx -> good (eval code_ops pvar e ctx) (eval math_ops pvar e ctx).

(* evaluate a subexpression in both instantiations at once *)
Ltac step IH ctx Hc v c Hv Hc' :=
  let Heq := fresh "Heq" in let Hw := fresh "Hw" in
  destruct (IH ctx Hc) as [Heq Hw]; rewrite Heq; clear Heq;
  destruct (eval math_ops pvar _ ctx) as [[v c]|]; [destruct Hw as [Hv Hc']|exact good_err];
  (destruct (should_propagate v); [apply good_ok; assumption|]).

Lemma pvar_good level path ctx : wf_ctx ctx ->
  good (match pvar level path with EOk v => EOk (v, ctx) | EErr => EErr end)
       (match pvar level path with EOk v => EOk (v, ctx) | EErr => EErr end).
Proof.
  intro Hc. destruct (pvar level path) as [v|] eqn:E; [|exact good_err].
  apply good_ok; [exact (Hpvar _ _ _ E)|exact Hc].
Qed.

Lemma binop_vals_good o a b ctx : wf_value a -> wf_value b -> wf_ctx ctx ->
  good (match get_bigint a, get_bigint b with
        | Some x, Some y => match int_binop code_ops o x y with EOk v => EOk (v, ctx) | EErr => EErr end
        | _, _ => EErr end)
       (match get_bigint a, get_bigint b with
        | Some x, Some y => match int_binop math_ops o x y with EOk v => EOk (v, ctx) | EErr => EErr end
        | _, _ => EErr end).
Proof.
  intros Ha Hb Hc. destruct (get_bigint a) as [x|]; [|exact good_err].
  destruct (get_bigint b) as [y|]; [|exact good_err].
  destruct (int_binop_good o x y) as [-> Hw].
  destruct (int_binop math_ops o x y); [apply good_ok; assumption|exact good_err].
Qed.

Lemma good_generic_bin o a b : goodE a -> goodE b ->
  forall ctx, wf_ctx ctx ->
  good (match eval code_ops pvar a ctx with
        | EErr => EErr
        | EOk (a1, ctx0) => if should_propagate a1 then EOk (a1, ctx0) else
          match eval code_ops pvar b ctx0 with
          | EErr => EErr
          | EOk (b0, ctx1) => if should_propagate b0 then EOk (b0, ctx1) else
            match get_bigint a1, get_bigint b0 with
            | Some x, Some y => match int_binop code_ops o x y with EOk v => EOk (v, ctx1) | EErr => EErr end
            | _, _ => EErr end
          end
        end)
       (match eval math_ops pvar a ctx with
        | EErr => EErr
        | EOk (a1, ctx0) => if should_propagate a1 then EOk (a1, ctx0) else
          match eval math_ops pvar b ctx0 with
          | EErr => EErr
          | EOk (b0, ctx1) => if should_propagate b0 then EOk (b0, ctx1) else
            match get_bigint a1, get_bigint b0 with
            | Some x, Some y => match int_binop math_ops o x y with EOk v => EOk (v, ctx1) | EErr => EErr end
            | _, _ => EErr end
          end
        end).
Proof.
  intros IHa IHb ctx Hc.
  step IHa ctx Hc a1 c0 Ha1 Hc0.
  step IHb c0 Hc0 b0 c1 Hb0 Hc1.
  apply binop_vals_good; assumption.
Qed.

Ltac bin_generic IH1 IH2 ctx Hc :=
  let a1 := fresh "a1" in let c0 := fresh "c0" in let Ha1 := fresh "Ha1" in let Hc0 := fresh "Hc0" in
  let b0 := fresh "b0" in let c1 := fresh "c1" in let Hb0 := fresh "Hb0" in let Hc1 := fresh "Hc1" in
  step IH1 ctx Hc a1 c0 Ha1 Hc0; step IH2 c0 Hc0 b0 c1 Hb0 Hc1;
  destruct a1; try (apply binop_vals_good; assumption);
  destruct b0; try (apply binop_vals_good; assumption);
  first [exact good_err | apply good_ok; [exact I|assumption]].

Theorem eval_good : forall e, wf_expr e -> goodE e.
Proof.
  induction e using expr_ind'; intros Hwf ctx Hc; cbn [eval].
  - (* ENum *) apply good_ok; [|exact Hc]. cbn [wf_value]. unfold wf. cbn [bsz bv mk].
    destruct sz as [s|]; [|exact I]. cbn [wf_expr] in Hwf. intros _. exact Hwf.
  - apply good_ok; [exact I|exact Hc].
  - (* EStr *) destruct (string_contents raw) as [s|] eqn:E; [|exact good_err].
    apply good_ok; [|exact Hc]. cbn [wf_value]. exact (str_contents_scalar raw s Hwf E).
  - (* EVar *)
    destruct level as [|p]; [|apply pvar_good; exact Hc].
    destruct path as [|n [|? ?]]; try (apply pvar_good; exact Hc).
    destruct (is_builtin n); [apply good_ok; [exact I|exact Hc]|].
    destruct (lookup ctx n) as [v|] eqn:E; [apply good_ok; [exact (lookup_wf _ _ _ Hc E)|exact Hc]|].
    apply pvar_good; exact Hc.
  - (* EUn *) cbn [wf_expr] in Hwf. specialize (IHe Hwf).
    step IHe ctx Hc v c Hv Hc'.
    destruct v; try exact good_err; destruct o; try exact good_err; try (apply good_ok; [exact I|exact Hc']).
    cbn [code_ops math_ops op_not]. rewrite not_bytes_spec. apply good_ok; [exact I|exact Hc'].
  - (* EBin *) cbn [wf_expr] in Hwf. destruct Hwf as [Hwa Hwb]. specialize (IHe1 Hwa). specialize (IHe2 Hwb).
    destruct o.
    + (* Assign *)
      destruct e1; try exact good_err. destruct level; try exact good_err.
      destruct path as [|n [|? ?]]; try exact good_err.
      step IHe2 ctx Hc v c Hv Hc'. apply good_ok; [exact I|]. constructor; [exact Hv|exact Hc'].
    + bin_generic IHe1 IHe2 ctx Hc.
    + bin_generic IHe1 IHe2 ctx Hc.
    + bin_generic IHe1 IHe2 ctx Hc.
    + bin_generic IHe1 IHe2 ctx Hc.
    + bin_generic IHe1 IHe2 ctx Hc.
    + bin_generic IHe1 IHe2 ctx Hc.
    + bin_generic IHe1 IHe2 ctx Hc.
    + bin_generic IHe1 IHe2 ctx Hc.
    + bin_generic IHe1 IHe2 ctx Hc.
    + bin_generic IHe1 IHe2 ctx Hc.
    + bin_generic IHe1 IHe2 ctx Hc.
    + bin_generic IHe1 IHe2 ctx Hc.
    + bin_generic IHe1 IHe2 ctx Hc.
    + bin_generic IHe1 IHe2 ctx Hc.
    + bin_generic IHe1 IHe2 ctx Hc.
    + bin_generic IHe1 IHe2 ctx Hc.
    + (* LazyAnd *)
      step IHe1 ctx Hc v c Hv Hc'. destruct v; try exact good_err.
      destruct (eqb b false); [apply good_ok; assumption|].
      step IHe2 c Hc' v2 c2 Hv2 Hc2. destruct v2; try exact good_err. apply good_ok; assumption.
    + (* LazyOr *)
      step IHe1 ctx Hc v c Hv Hc'. destruct v; try exact good_err.
      destruct (eqb b true); [apply good_ok; assumption|].
      step IHe2 c Hc' v2 c2 Hv2 Hc2. destruct v2; try exact good_err. apply good_ok; assumption.
    + bin_generic IHe1 IHe2 ctx Hc.
  - (* ETern *) cbn [wf_expr] in Hwf. destruct Hwf as [Hw1 [Hw2 Hw3]].
    specialize (IHe1 Hw1). specialize (IHe2 Hw2). specialize (IHe3 Hw3).
    step IHe1 ctx Hc v c Hv Hc'. destruct v; try exact good_err.
    destruct b; [apply IHe2|apply IHe3]; exact Hc'.
  - (* ESlice *) cbn [wf_expr] in Hwf. destruct Hwf as [Hw1 [Hw2 Hw3]].
    specialize (IHe1 Hw1). specialize (IHe2 Hw2). specialize (IHe3 Hw3).
    step IHe3 ctx Hc v c Hv Hc'.
    destruct (get_bigint v) as [x|] eqn:G; [|exact good_err].
    pose proof (get_bigint_wf v x Hv G) as Hx.
    step IHe1 c Hc' lv c1 Hlv Hc1. step IHe2 c1 Hc1 rv c2 Hrv Hc2.
    destruct (expect_usize lv) as [lz|]; [|exact good_err].
    destruct (expect_usize rv) as [rz|]; [|exact good_err].
    destruct (lz + 1 >? usize_max); [exact good_err|].
    destruct (checked_slice_good x (lz + 1) rz Hx) as [-> Hw].
    destruct (checked_slice math_ops x (lz + 1) rz); [apply good_ok; assumption|exact good_err].
  - (* EShort *) cbn [wf_expr] in Hwf. destruct Hwf as [Hw1 Hw2].
    specialize (IHe1 Hw1). specialize (IHe2 Hw2).
    step IHe2 ctx Hc v c Hv Hc'.
    destruct (get_bigint v) as [x|] eqn:G; [|exact good_err].
    pose proof (get_bigint_wf v x Hv G) as Hx.
    step IHe1 c Hc' sv c1 Hsv Hc1.
    destruct (expect_usize sv) as [sz|]; [|exact good_err].
    destruct (checked_slice_good x sz 0 Hx) as [-> Hw].
    destruct (checked_slice math_ops x sz 0); [apply good_ok; assumption|exact good_err].
  - (* EBlock *) apply wf_expr_block in Hwf.
    assert (Hg : Forall goodE es).
    { clear ctx Hc. induction H as [|x r Hx Hr IHr]; [constructor|].
      inversion Hwf; subst. constructor; [apply Hx; assumption|apply IHr; assumption]. }
    clear H Hwf.
    assert (Hl : wf_value VVoid) by exact I. revert Hl. generalize VVoid as last. revert ctx Hc.
    induction Hg as [|x r Hx Hr IHr]; intros ctx Hc last Hl.
    + apply good_ok; assumption.
    + step Hx ctx Hc v c Hv Hc'. apply IHr; assumption.
  - (* ECall *) apply wf_expr_call in Hwf. destruct Hwf as [Hwf Hwa]. specialize (IHe Hwf).
    assert (Hg : Forall goodE args).
    { clear ctx Hc. induction H as [|x r Hx Hr IHr]; [constructor|].
      inversion Hwa; subst. constructor; [apply Hx; assumption|apply IHr; assumption]. }
    clear H Hwa.
    step IHe ctx Hc fv c Hfv Hc'.
    assert (Hacc : Forall wf_value (@nil value)) by constructor. revert Hacc. generalize (@nil value) as acc.
    revert c Hc'. clear ctx Hc.
    induction Hg as [|x r Hx Hr IHr]; intros ctx Hc acc Hacc.
    + destruct fv; try exact good_err.
      destruct (eval_builtin_good name (rev acc) (Forall_rev Hacc)) as [-> Hw].
      destruct (eval_builtin math_ops name (rev acc)); [apply good_ok; assumption|exact good_err].
    + step Hx ctx Hc v c Hv Hc'. apply IHr; [assumption|]. constructor; assumption.
Qed.

End Eval.

Theorem eval_sem : forall pvar e ctx, wf_pvar pvar -> wf_expr e -> wf_ctx ctx ->
  eval code_ops pvar e ctx = eval math_ops pvar e ctx.
Proof. intros pvar e ctx Hp He Hc. exact (proj1 (eval_good pvar Hp e He ctx Hc)). Qed.

Theorem eval_wf : forall pvar e ctx v ctx', wf_pvar pvar -> wf_expr e -> wf_ctx ctx ->
  eval math_ops pvar e ctx = EOk (v, ctx') -> wf_value v /\ wf_ctx ctx'.
Proof.
  intros pvar e ctx v ctx' Hp He Hc E. pose proof (proj2 (eval_good pvar Hp e He ctx Hc)) as H.
  rewrite E in H. exact H.
Qed.
