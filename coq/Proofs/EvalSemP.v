(* C05: the evaluator instantiated with the code's big-integer algorithms (code_ops) equals the evaluator
   instantiated with their closed mathematical forms (math_ops), on every well-formed expression, together with
   the invariant that makes it true: every value the evaluator produces is well formed (sized non-negative
   integers fit their size, texts are made of scalar values). *)
From Coq Require Import ZArith NArith List Bool Lia ZifyBool.
From CA Require Import Model.Lexer Model.Parser Model.Literal Model.BigIntOps Model.Evaluator
  Spec.Sem Spec.SemEval Spec.EvalWf Proofs.BitOpsP.
Import ListNotations.
Open Scope Z_scope.

(* ---------- induction principle for the nested lists of EBlock / ECall ---------- *)
Section ExprInd.
Variable P : expr -> Prop.
Hypothesis HNum : forall v sz, P (ENum v sz).
Hypothesis HBool : forall b, P (EBool b).
Hypothesis HStr : forall raw, P (EStr raw).
Hypothesis HVar : forall level path, P (EVar level path).
Hypothesis HUn : forall o a, P a -> P (EUn o a).
Hypothesis HBin : forall o a b, P a -> P b -> P (EBin o a b).
Hypothesis HTern : forall c t f, P c -> P t -> P f -> P (ETern c t f).
Hypothesis HSlice : forall l r a, P l -> P r -> P a -> P (ESlice l r a).
Hypothesis HShort : forall s a, P s -> P a -> P (EShort s a).
Hypothesis HBlock : forall es, Forall P es -> P (EBlock es).
Hypothesis HCall : forall f args, P f -> Forall P args -> P (ECall f args).
Fixpoint expr_ind' (e : expr) : P e :=
  match e with
  | ENum v sz => HNum v sz
  | EBool b => HBool b
  | EStr raw => HStr raw
  | EVar l p => HVar l p
  | EUn o a => HUn o a (expr_ind' a)
  | EBin o a b => HBin o a b (expr_ind' a) (expr_ind' b)
  | ETern c t f => HTern c t f (expr_ind' c) (expr_ind' t) (expr_ind' f)
  | ESlice l r a => HSlice l r a (expr_ind' l) (expr_ind' r) (expr_ind' a)
  | EShort s a => HShort s a (expr_ind' s) (expr_ind' a)
  | EBlock es => HBlock es ((fix go (es : list expr) : Forall P es :=
                               match es with [] => Forall_nil P | x :: r => Forall_cons x (expr_ind' x) (go r) end) es)
  | ECall f args => HCall f args (expr_ind' f)
                      ((fix go (es : list expr) : Forall P es :=
                          match es with [] => Forall_nil P | x :: r => Forall_cons x (expr_ind' x) (go r) end) args)
  end.
End ExprInd.

Lemma wf_expr_block es : wf_expr (EBlock es) <-> Forall wf_expr es.
Proof.
  cbn [wf_expr]. induction es as [|x r IH].
  - split; [constructor|exact (fun _ => I)].
  - split.
    + intros [Hx Hr]. constructor; [exact Hx|apply IH; exact Hr].
    + intro H. inversion H; subst. split; [assumption|apply IH; assumption].
Qed.
Lemma wf_expr_call f es : wf_expr (ECall f es) <-> wf_expr f /\ Forall wf_expr es.
Proof.
  pose proof (wf_expr_block es) as HB. cbn [wf_expr] in *. tauto.
Qed.

(* ---------- well-formedness of the values produced by the mathematical primitives ---------- *)
Lemma pow2_pos n : 0 < 2 ^ Z.of_N n.
Proof. apply Z.pow_pos_nonneg; lia. Qed.

Lemma wf_un v : wf (un v).
Proof. exact I. Qed.

Lemma wf_sem_slice x l r : wf x -> wf (sem_slice x l r).
Proof.
  intro Hx. unfold sem_slice.
  assert (Hm : wf (mk (sem_slice_bits (bv x) l r) (Some (l - r)%N))).
  { unfold wf. cbn [bsz bv mk]. intros _. unfold sem_slice_bits. apply Z.mod_pos_bound. apply pow2_pos. }
  destruct (bsz x) as [size|]; [|exact Hm].
  destruct ((0 <=? bv x) && (l =? size)%N && (r =? 0)%N); [exact Hx|exact Hm].
Qed.

Lemma wf_sem_concat a asz b bsz0 : wf (sem_concat a asz b bsz0).
Proof.
  unfold wf, sem_concat. cbn [bsz bv mk]. intros _. unfold sem_concat_bits.
  rewrite N2Z.inj_add, Z.pow_add_r by lia.
  pose proof (Z.mod_pos_bound (bv a) (2 ^ Z.of_N asz) (pow2_pos asz)).
  pose proof (Z.mod_pos_bound (bv b) (2 ^ Z.of_N bsz0) (pow2_pos bsz0)). nia.
Qed.

Lemma reverse_bytes_bound v k : 0 <= reverse_bytes v k < 256 ^ Z.of_nat k.
Proof.
  revert v. induction k as [|k IH]; intro v.
  - cbn. lia.
  - cbn [reverse_bytes]. rewrite Nat2Z.inj_succ, Z.pow_succ_r by lia.
    specialize (IH (v / 256)). pose proof (Z.mod_pos_bound v 256 ltac:(lia)).
    assert (0 < 256 ^ Z.of_nat k) by (apply Z.pow_pos_nonneg; lia). nia.
Qed.

Lemma wf_sem_le x size : (size mod 8 = 0)%N -> wf (sem_le x size).
Proof.
  intro Hm. unfold wf, sem_le. cbn [bsz bv mk]. intros _.
  assert (Hk : Z.of_N size = 8 * Z.of_nat (N.to_nat (size / 8))).
  { rewrite N_nat_Z. rewrite (N.div_mod size 8) at 1 by lia. rewrite Hm. lia. }
  rewrite Hk, pow256 by lia. apply reverse_bytes_bound.
Qed.

Lemma wf_import_bytes bs : Forall (fun b => 0 <= b < 256) bs -> wf (import_bytes bs).
Proof.
  intro H. unfold wf, import_bytes. cbn [bsz bv mk]. intros _.
  rewrite from_bytes_be_le_value.
  assert (Hr : forall b, In b (rev bs) -> 0 <= b < 256).
  { intros b Hb. apply in_rev in Hb. rewrite Forall_forall in H. exact (H b Hb). }
  pose proof (le_value_bound (rev bs) Hr) as Hb. rewrite rev_length in Hb.
  replace (Z.of_N (N.of_nat (8 * length bs))) with (8 * Z.of_nat (length bs)) by lia.
  rewrite pow256 by lia. lia.
Qed.

(* every byte an encoder produces is a byte, for texts of scalar values *)
Lemma scalar_lt c : is_scalar c = true -> (c < 1114112)%N.
Proof. unfold is_scalar. lia. Qed.

Lemma Forall_flat_map {A B} (P : B -> Prop) (f : A -> list B) l :
  (forall a, In a l -> Forall P (f a)) -> Forall P (flat_map f l).
Proof.
  induction l as [|a r IH]; intro H; cbn [flat_map]; [constructor|].
  apply Forall_app. split; [apply H; left; reflexivity|apply IH; intros; apply H; right; assumption].
Qed.

Lemma utf8_bytes_range s : scalar_text s -> Forall (fun b => 0 <= b < 256) (utf8_bytes s).
Proof.
  induction 1 as [|c r Hc Hr IH]; cbn [utf8_bytes]; [constructor|].
  apply Forall_app. split; [|exact IH]. apply scalar_lt in Hc.
  set (z := Z.of_N c). assert (0 <= z < 1114112) by lia.
  destruct (z <? 128) eqn:E1; [repeat constructor; lia|].
  destruct (z <? 2048) eqn:E2.
  { repeat constructor; Z.div_mod_to_equations; lia. }
  destruct (z <? 65536) eqn:E3.
  { repeat constructor; Z.div_mod_to_equations; lia. }
  repeat constructor; Z.div_mod_to_equations; lia.
Qed.

Lemma utf16_units_range s : scalar_text s -> Forall (fun u => 0 <= u < 65536) (utf16_units s).
Proof.
  induction 1 as [|c r Hc Hr IH]; cbn [utf16_units]; [constructor|].
  apply Forall_app. split; [|exact IH]. apply scalar_lt in Hc.
  set (z := Z.of_N c). assert (0 <= z < 1114112) by lia.
  destruct (z <? 65536) eqn:E1; [repeat constructor; lia|].
  repeat constructor; Z.div_mod_to_equations; lia.
Qed.

Lemma encode_bytes_range enc s : scalar_text s -> Forall (fun b => 0 <= b < 256) (encode enc s).
Proof.
  intro Hs. unfold encode.
  destruct enc as [|p]; [apply utf8_bytes_range; exact Hs|].
  assert (H16 : forall f : Z -> list Z, (forall u, 0 <= u < 65536 -> Forall (fun b => 0 <= b < 256) (f u)) ->
                Forall (fun b => 0 <= b < 256) (flat_map f (utf16_units s))).
  { intros f Hf. apply Forall_flat_map. intros u Hu. apply Hf.
    pose proof (utf16_units_range s Hs) as H. rewrite Forall_forall in H. exact (H u Hu). }
  assert (H32 : forall f : N -> list Z, (forall c, (c < 1114112)%N -> Forall (fun b => 0 <= b < 256) (f c)) ->
                Forall (fun b => 0 <= b < 256) (flat_map f s)).
  { intros f Hf. apply Forall_flat_map. intros c Hc. apply Hf. apply scalar_lt.
    unfold scalar_text in Hs. rewrite Forall_forall in Hs. exact (Hs c Hc). }
  assert (Hasc : Forall (fun b => 0 <= b < 256) (map (fun c => let c := Z.of_N c in if c >=? 256 then 0 else c) s)).
  { apply Forall_forall. intros b Hb. apply in_map_iff in Hb. destruct Hb as [c [<- _]]. cbv zeta.
    destruct (Z.of_N c >=? 256) eqn:E; lia. }
  assert (T32 : forall f : N -> list Z,
     (forall c, f c = [Z.of_N c / 16777216; (Z.of_N c / 65536) mod 256; (Z.of_N c / 256) mod 256; Z.of_N c mod 256] \/
                f c = [Z.of_N c mod 256; (Z.of_N c / 256) mod 256; (Z.of_N c / 65536) mod 256; Z.of_N c / 16777216]) ->
     Forall (fun b => 0 <= b < 256) (flat_map f s)).
  { intros f Hf. apply H32. intros c Hc. destruct (Hf c) as [-> | ->]; repeat constructor; Z.div_mod_to_equations; lia. }
  assert (T16 : forall f : Z -> list Z,
     (forall u, f u = [u / 256; u mod 256] \/ f u = [u mod 256; u / 256]) ->
     Forall (fun b => 0 <= b < 256) (flat_map f (utf16_units s))).
  { intros f Hf. apply H16. intros u Hu. destruct (Hf u) as [-> | ->]; repeat constructor; Z.div_mod_to_equations; lia. }
  destruct p as [[p|p|]|[p|p|]|]; try destruct p;
    first [exact Hasc
          | apply T32; intro c; cbv zeta; (left; reflexivity) || (right; reflexivity)
          | apply T16; intro u; (left; reflexivity) || (right; reflexivity)].
Qed.

Theorem wf_str_bigint s enc : scalar_text s -> wf (str_bigint s enc).
Proof. intro Hs. apply wf_import_bytes. apply encode_bytes_range. exact Hs. Qed.

Lemma get_bigint_wf v x : wf_value v -> get_bigint v = Some x -> wf x.
Proof.
  destruct v; cbn [get_bigint wf_value]; intros Hw E; inversion E; subst; [exact Hw|apply wf_str_bigint; exact Hw].
Qed.

(* ---------- the two instantiations agree, operation by operation ---------- *)
Definition wf_res (r : eres value) : Prop := match r with EOk v => wf_value v | EErr => True end.

Lemma int_binop_good o x y :
  int_binop code_ops o x y = int_binop math_ops o x y /\ wf_res (int_binop math_ops o x y).
Proof.
  destruct o; cbn [int_binop wf_res]; try (split; [reflexivity|exact I]).
  - unfold checked_add. destruct (_ >=? _); split; try reflexivity; exact I.
  - unfold checked_sub. destruct (_ >=? _); split; try reflexivity; exact I.
  - unfold checked_mul. destruct (_ >=? _); split; try reflexivity; exact I.
  - unfold checked_div. destruct (_ =? _); split; try reflexivity; exact I.
  - unfold checked_mod. destruct (_ =? _); split; try reflexivity; exact I.
  - unfold checked_shl. destruct (_ || _); [split; [reflexivity|exact I]|].
    destruct (_ >=? _); split; try reflexivity; exact I.
  - unfold checked_shr. destruct (_ || _); split; try reflexivity; exact I.
  - destruct (bsz x) as [sa|]; [|split; [reflexivity|exact I]].
    destruct (bsz y) as [sb|]; [|split; [reflexivity|exact I]].
    cbn [code_ops math_ops op_concat]. rewrite concat_spec. split; [reflexivity|]. cbn [wf_res wf_value]. apply wf_sem_concat.
Qed.

Lemma checked_slice_good x l r : wf x ->
  checked_slice code_ops x l r = checked_slice math_ops x l r /\
  match checked_slice math_ops x l r with EOk b => wf b | EErr => True end.
Proof.
  intro Hx. unfold checked_slice. destruct (l <? r); [split; [reflexivity|exact I]|].
  destruct (_ >? _); [split; [reflexivity|exact I]|].
  cbn [code_ops math_ops op_slice]. rewrite slice_spec. split; [reflexivity|apply wf_sem_slice; exact Hx].
Qed.

Lemma eval_builtin_good n args : Forall wf_value args ->
  eval_builtin code_ops n args = eval_builtin math_ops n args /\ wf_res (eval_builtin math_ops n args).
Proof.
  intro Ha. unfold eval_builtin.
  destruct (text_eqb n (s_assert)).
  { destruct args as [|[| | | | |c|] [|m [|? ?]]]; try (split; [reflexivity|exact I]).
    - destruct c; split; try reflexivity; exact I.
    - destruct c; [split; [reflexivity|exact I]|]. destruct m; split; try reflexivity; exact I. }
  destruct (text_eqb n (s_sizeof)).
  { destruct args as [|v [|? ?]]; try (split; [reflexivity|exact I]).
    destruct (get_bigint v) as [b|]; [|split; [reflexivity|exact I]].
    destruct (bsz b); split; try reflexivity; exact I. }
  destruct (text_eqb n (s_le)).
  { destruct args as [|[| | |b| | |] [|? ?]]; try (split; [reflexivity|exact I]).
    destruct (bsz b) as [s|] eqn:Es; [|split; [reflexivity|exact I]].
    destruct (N.eqb_spec (s mod 8) 0) as [Hm|]; [|split; [reflexivity|exact I]].
    inversion Ha; subst. cbn [code_ops math_ops op_le].
    rewrite (convert_le_spec b s) by assumption.
    split; [reflexivity|]. cbn [wf_res wf_value]. apply wf_sem_le. exact Hm. }
  destruct (text_eqb n (s_strlen)).
  { destruct args as [|[| | | |s e| |] [|? ?]]; split; try reflexivity; exact I. }
  split; [reflexivity|].
  match goal with |- wf_res (match ?E with _ => _ end) => destruct E as [e|] end; [|exact I].
  destruct args as [|[| | | |s e0| |] [|? ?]]; try exact I.
  inversion Ha; subst. cbn [wf_res wf_value] in *. assumption.
Qed.

(* ---------- the evaluator ---------- *)
Definition good (r1 r2 : eres (value * locals)) : Prop :=
  r1 = r2 /\ match r2 with EOk (v, c) => wf_value v /\ wf_ctx c | EErr => True end.

Lemma good_err : good EErr EErr.
Proof. split; [reflexivity|exact I]. Qed.
Lemma good_ok v c : wf_value v -> wf_ctx c -> good (EOk (v, c)) (EOk (v, c)).
Proof. intros; split; [reflexivity|split; assumption]. Qed.

Lemma lookup_wf c n v : wf_ctx c -> lookup c n = Some v -> wf_value v.
Proof.
  induction 1 as [|[k v0] r Hk Hr IH]; cbn [lookup]; [discriminate|].
  destruct (text_eqb k n); [intro E; inversion E; subst; exact Hk|exact IH].
Qed.

Section Eval.
Variable pvar : N -> list text -> eres value.
Hypothesis Hpvar : wf_pvar pvar.

Definition goodE (e : expr) : Prop :=
  forall ctx, wf_ctx ctx -> good (eval code_ops pvar e ctx) (eval math_ops pvar e ctx).

(* evaluate a subexpression in both instantiations at once *)
Ltac step IH ctx Hc v c Hv Hc' :=
  let Heq := fresh "Heq" in let Hw := fresh "Hw" in
  destruct (IH ctx Hc) as [Heq Hw]; rewrite Heq; clear Heq;
  destruct (eval math_ops pvar _ ctx) as [[v c]|]; [destruct Hw as [Hv Hc']|exact good_err];
  (destruct (should_propagate v); [apply good_ok; assumption|]).

Lemma pvar_good level path ctx : wf_ctx ctx ->
  good (match pvar level path with EOk v => EOk (v, ctx) | EErr => EErr end)
       (match pvar level path with EOk v => EOk (v, ctx) | EErr => EErr end).
Proof.
  intro Hc. destruct (pvar level path) as [v|] eqn:E; [|exact good_err].
  apply good_ok; [exact (Hpvar _ _ _ E)|exact Hc].
Qed.

Lemma binop_vals_good o a b ctx : wf_value a -> wf_value b -> wf_ctx ctx ->
  good (match get_bigint a, get_bigint b with
        | Some x, Some y => match int_binop code_ops o x y with EOk v => EOk (v, ctx) | EErr => EErr end
        | _, _ => EErr end)
       (match get_bigint a, get_bigint b with
        | Some x, Some y => match int_binop math_ops o x y with EOk v => EOk (v, ctx) | EErr => EErr end
        | _, _ => EErr end).
Proof.
  intros Ha Hb Hc. destruct (get_bigint a) as [x|]; [|exact good_err].
  destruct (get_bigint b) as [y|]; [|exact good_err].
  destruct (int_binop_good o x y) as [-> Hw].
  destruct (int_binop math_ops o x y); [apply good_ok; assumption|exact good_err].
Qed.

Lemma good_generic_bin o a b : goodE a -> goodE b ->
  forall ctx, wf_ctx ctx ->
  good (match eval code_ops pvar a ctx with
        | EErr => EErr
        | EOk (a1, ctx0) => if should_propagate a1 then EOk (a1, ctx0) else
          match eval code_ops pvar b ctx0 with
          | EErr => EErr
          | EOk (b0, ctx1) => if should_propagate b0 then EOk (b0, ctx1) else
            match get_bigint a1, get_bigint b0 with
            | Some x, Some y => match int_binop code_ops o x y with EOk v => EOk (v, ctx1) | EErr => EErr end
            | _, _ => EErr end
          end
        end)
       (match eval math_ops pvar a ctx with
        | EErr => EErr
        | EOk (a1, ctx0) => if should_propagate a1 then EOk (a1, ctx0) else
          match eval math_ops pvar b ctx0 with
          | EErr => EErr
          | EOk (b0, ctx1) => if should_propagate b0 then EOk (b0, ctx1) else
            match get_bigint a1, get_bigint b0 with
            | Some x, Some y => match int_binop math_ops o x y with EOk v => EOk (v, ctx1) | EErr => EErr end
            | _, _ => EErr end
          end
        end).
Proof.
  intros IHa IHb ctx Hc.
  step IHa ctx Hc a1 c0 Ha1 Hc0.
  step IHb c0 Hc0 b0 c1 Hb0 Hc1.
  apply binop_vals_good; assumption.
Qed.

Lemma good_bool_bin (f : bool -> bool -> eres (value * locals)) o a b :
  goodE a -> goodE b ->
  forall ctx, wf_ctx ctx ->
  (forall x y c, wf_ctx c -> good (f x y) (f x y) \/ True) -> True.
Proof. trivial. Qed.

Theorem eval_good : forall e, wf_expr e -> goodE e.
Proof.
  induction e using expr_ind'; intros Hwf ctx Hc; cbn [eval].
  - (* ENum *) apply good_ok; [|exact Hc]. cbn [wf_value]. unfold wf. cbn [bsz bv mk].
    destruct sz as [s|]; [|exact I]. cbn [wf_expr] in Hwf. intros _. exact Hwf.
  - apply good_ok; [exact I|exact Hc].
  - (* EStr *) destruct (string_contents raw) as [s|] eqn:E; [|exact good_err].
    apply good_ok; [|exact Hc]. cbn [wf_value]. admit.
  - (* EVar *)
    destruct level as [|p]; [|apply pvar_good; exact Hc].
    destruct path as [|n [|? ?]]; try (apply pvar_good; exact Hc).
    destruct (is_builtin n); [apply good_ok; [exact I|exact Hc]|].
    destruct (lookup ctx n) as [v|] eqn:E; [apply good_ok; [exact (lookup_wf _ _ _ Hc E)|exact Hc]|].
    apply pvar_good; exact Hc.
  - (* EUn *) cbn [wf_expr] in Hwf. specialize (IHe Hwf).
    step IHe ctx Hc v c Hv Hc'.
    destruct v; try exact good_err; destruct o; try exact good_err; try (apply good_ok; [exact I|exact Hc']).
    cbn [code_ops math_ops op_not]. rewrite not_bytes_spec. apply good_ok; [exact I|exact Hc'].
  - (* EBin *) cbn [wf_expr] in Hwf. destruct Hwf as [Hwa Hwb]. specialize (IHe1 Hwa). specialize (IHe2 Hwb).
    admit.
  - admit. - admit. - admit. - admit. - admit.
Admitted.

End Eval.
