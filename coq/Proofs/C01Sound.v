(* C01: for a size-static program the assembler's answer IS the language definition's answer. *)
From Coq Require Import NArith ZArith List Bool Lia.
From CA Require Import Model.Lexer Model.Parser Model.Literal Model.BigIntOps Model.Evaluator Model.Matcher Model.Resolver
  Spec.Denote Proofs.ResolverFixP Proofs.ResolverMonoP Proofs.ResolverTopP
  Proofs.CertifiedP Proofs.DenoteP Proofs.StaticSizeP Proofs.CertUniqueP Proofs.DenoteCompleteP
  Proofs.MatcherP Proofs.MatcherPermP Proofs.MatcherKeysP.
Import ListNotations.
Open Scope Z_scope.

(* well-formedness of what the front end hands to the resolver (all decidable, all true of what customasm's own
   front end produces EXCEPT the second conjunct of `rule_ok`, see StaticSizeP):
   - defs_ok      : parameter names of a rule are distinct; no production assigns to one of its parameters;
   - matches_typed: a nested match only sits at a parameter that is not of integer type;
   - data_slots   : each data element refers to its own slot of the initial state (canonical numbering). *)
Definition prog_ok (indexed : bool) (defs : list ruledef) (names : list text) (ns : list node) : Prop :=
  defs_ok defs = true /\
  forall st0, init_state indexed defs (length names) ns = Some st0 -> matches_typed defs st0 /\ data_slots ns st0.

Lemma repeat_unknown n i v : nth_error (repeat VUnknown n) i = Some v -> v = VUnknown.
Proof. intro H. apply nth_error_In in H. now apply repeat_spec in H. Qed.

(* two certified states inside the frame of the same initial state are equal *)
Theorem certified_unique : forall names defs ns st0 st st',
  cert_ctx names defs ns st0 st -> cert_ctx names defs ns st0 st' ->
  (forall i v, nth_error (s_sym st0) i = Some v -> v = VUnknown) ->
  consts_acyclic names ns -> st = st'.
Proof.
  intros names defs ns st0 st st' H1 H2 Hs [rank Hr].
  destruct (reconstruct names defs ns st0 st H1 Hs rank Hr) as [a [b [r [L [S P]]]]].
  destruct (reconstruct names defs ns st0 st' H2 Hs rank Hr) as [a' [b' [r' [L' [S' P']]]]].
  rewrite L in L'. injection L' as <-. rewrite S in S'. injection S' as <-. rewrite P in P'. now injection P' as ->.
Qed.

(* the definition reconstructs every certified state of a size-static program *)
Theorem denote_complete : forall indexed defs names ns st0 st,
  init_state indexed defs (length names) ns = Some st0 ->
  cert_ctx names defs ns st0 st -> consts_acyclic names ns ->
  denote indexed defs names ns = DOk (build_output ns st) (s_sym st).
Proof.
  intros indexed defs names ns st0 st Hi HX [rank Hr].
  assert (Hs : forall i v, nth_error (s_sym st0) i = Some v -> v = VUnknown).
  { intros i v. rewrite (init_state_shape _ _ _ _ _ Hi). apply repeat_unknown. }
  destruct (reconstruct names defs ns st0 st HX Hs rank Hr) as [a [b [r [L [S P]]]]].
  unfold denote. rewrite Hi, (cx_static _ _ _ _ _ HX). cbn [negb]. rewrite L, S, P.
  pose proof (cx_cert _ _ _ _ _ HX) as Hc. unfold Certified in Hc. rewrite Hc. reflexivity.
Qed.

Theorem C01_sound : forall indexed defs names ns budget out syms n,
  syms_distinct ns -> consts_acyclic names ns -> prog_ok indexed defs names ns ->
  assemble indexed defs names ns budget = Some (out, syms, n) ->
  denote indexed defs names ns <> DUnsupported ->
  denote indexed defs names ns = DOk out syms.
Proof.
  intros indexed defs names ns budget out syms n Hd Hac [Hdefs Hok] Ha Hsup.
  destruct (assemble_framed _ _ _ _ _ _ _ _ Hd Ha) as [st0 [st [Hi [HF [HL [HC [-> ->]]]]]]].
  destruct (Hok st0 Hi) as [Hty Hsl].
  assert (Hst : size_static defs ns st0 = true).
  { destruct (size_static defs ns st0) eqn:E; [reflexivity|]. exfalso. apply Hsup. unfold denote. rewrite Hi, E. reflexivity. }
  eapply denote_complete; [exact Hi| |exact Hac].
  constructor; try assumption. eapply init_state_instr_ok; eauto.
Qed.

(* uniqueness alone (no completeness needed): whatever the definition answers, it is the assembler's answer *)
Theorem C01_sound_partial2 : forall indexed defs names ns budget out syms n out' syms',
  syms_distinct ns -> consts_acyclic names ns -> prog_ok indexed defs names ns ->
  assemble indexed defs names ns budget = Some (out, syms, n) ->
  denote indexed defs names ns = DOk out' syms' -> out' = out /\ syms' = syms.
Proof.
  intros indexed defs names ns budget out syms n out' syms' Hd Hac Hok Ha Hden.
  assert (H : denote indexed defs names ns = DOk out syms).
  { eapply C01_sound; eauto. rewrite Hden. discriminate. }
  rewrite H in Hden. injection Hden as <- <-. auto.
Qed.

(* ---------- the well-formedness conditions as one executable check ---------- *)
Definition matches_typedb (defs : list ruledef) (st0 : state) : bool :=
  forallb (fun d => forallb (match_typed defs) (i_matches d)) (s_instr st0).
Definition data_slotsb (ns : list node) (st0 : state) : bool :=
  forallb (fun n => match n with
                    | NData w el =>
                      forallb (fun de => match nth_error (s_data st0) (fst de) with
                                         | Some b => bigint_identical b
                                             (match w with
                                              | Some w => mk 0 (Some w)
                                              | None => mk 0 (Some (Z.to_N (match static_size [] (snd de) with Some s => s | None => 0 end))) end)
                                         | None => false end) el
                    | _ => true end) ns.
Definition prog_okb (indexed : bool) (defs : list ruledef) (names : list text) (ns : list node) : bool :=
  defs_ok defs &&
  match init_state indexed defs (length names) ns with
  | None => true
  | Some st0 => matches_typedb defs st0 && data_slotsb ns st0
  end.

Lemma prog_okb_ok indexed defs names ns : prog_okb indexed defs names ns = true -> prog_ok indexed defs names ns.
Proof.
  unfold prog_okb. intro H. apply andb_prop in H. destruct H as [H1 H2]. split; [exact H1|].
  intros st0 Hi. rewrite Hi in H2. apply andb_prop in H2. destruct H2 as [Ht Hs]. split.
  - intros d m Hd Hm. unfold matches_typedb in Ht. rewrite forallb_forall in Ht. specialize (Ht d Hd).
    rewrite forallb_forall in Ht. exact (Ht m Hm).
  - intros w el d e Hn He. unfold data_slotsb in Hs. rewrite forallb_forall in Hs. specialize (Hs _ Hn). cbn beta iota in Hs.
    rewrite forallb_forall in Hs. specialize (Hs _ He). cbn [fst snd] in Hs.
    destruct (nth_error (s_data st0) d) as [b|]; [|discriminate]. apply bigint_identical_eq in Hs. now subst.
Qed.

(* ---------- data_slots follows from the canonical numbering of data elements (what the front end produces) ---------- *)
Definition data_canonical (ns : list node) : Prop := data_ids ns = seq 0 (length (data_ids ns)).

Definition init_datum (w : option N) (de : nat * expr) : bigint :=
  match w with
  | Some w => mk 0 (Some w)
  | None => mk 0 (Some (Z.to_N (match static_size [] (snd de) with Some s => s | None => 0 end))) end.
Definition init_datas (ns : list node) : list bigint :=
  flat_map (fun n => match n with NData w elems => map (init_datum w) elems | _ => [] end) ns.

Lemma nth_error_seq_inv a n j d : nth_error (seq a n) j = Some d -> d = (a + j)%nat.
Proof.
  revert a j. induction n as [|n IH]; intros a [|j] H; cbn in H; try discriminate.
  - injection H as <-. lia. - apply IH in H. lia.
Qed.

Lemma init_datas_aligned : forall ns w el d e, In (NData w el) ns -> In (d, e) el ->
  exists j, nth_error (data_ids ns) j = Some d /\ nth_error (init_datas ns) j = Some (init_datum w (d, e)).
Proof.
  induction ns as [|n r IH]; intros w el d e Hn He; [destruct Hn|].
  unfold data_ids, init_datas. cbn [flat_map]. fold (data_ids r) (init_datas r).
  destruct Hn as [->|Hn].
  - destruct (In_nth_error _ _ He) as [j Hj]. exists j.
    assert (j < length el)%nat by (apply nth_error_Some; congruence).
    rewrite !nth_error_app1 by (rewrite map_length; assumption).
    split; [rewrite (map_nth_error fst _ _ Hj)|rewrite (map_nth_error (init_datum w) _ _ Hj)]; reflexivity.
  - destruct (IH w el d e Hn He) as [j [H1 H2]].
    set (hd_ids := match n with NData _ el0 => map fst el0 | _ => [] end).
    set (hd_dat := match n with NData w0 elems => map (init_datum w0) elems | _ => [] end).
    assert (HL : length hd_ids = length hd_dat) by (destruct n; subst hd_ids hd_dat; cbn [length]; rewrite ?map_length; reflexivity).
    exists (length hd_ids + j)%nat. split.
    + rewrite nth_error_app2 by lia. replace (length hd_ids + j - length hd_ids)%nat with j by lia. exact H1.
    + rewrite HL. rewrite nth_error_app2 by lia. replace (length hd_dat + j - length hd_dat)%nat with j by lia. exact H2.
Qed.

Lemma init_state_data indexed defs nsyms ns st0 : init_state indexed defs nsyms ns = Some st0 -> s_data st0 = init_datas ns.
Proof.
  unfold init_state. cbv zeta.
  match goal with |- (if ?c then _ else _) = _ -> _ => destruct c; [discriminate|] end.
  intro H. inversion H; subst; reflexivity.
Qed.

Theorem canonical_data_slots indexed defs nsyms ns st0 :
  init_state indexed defs nsyms ns = Some st0 -> data_canonical ns -> data_slots ns st0.
Proof.
  intros Hi Hc w el d e Hn He. rewrite (init_state_data _ _ _ _ _ Hi).
  destruct (init_datas_aligned ns w el d e Hn He) as [j [H1 H2]].
  rewrite Hc in H1. apply nth_error_seq_inv in H1. cbn in H1. subst j. exact H2.
Qed.

(* ---------- matches_typed is an invariant of the matcher (for rules whose pattern lists its parameters in order,
   which is what parse_pattern produces) ---------- *)
Definition pat_params (p : list part) : list nat := flat_map (fun x => match x with PParam i => [i] | _ => [] end) p.
Definition rule_shape_ok (r : rule) : bool :=
  if list_eq_dec Nat.eq_dec (pat_params (rpat r)) (seq 0 (length (rparams r))) then true else false.
Definition pats_ok (defs : list ruledef) : bool := forallb (fun d => forallb rule_shape_ok (rd_rules d)) defs.

Fixpoint typed_go (defs : list ruledef) (args : list iarg) (params : list (text * pty)) : bool :=
  match args, params with
  | AExpr _ _ _ _ :: ar, _ :: pr => typed_go defs ar pr
  | ANested n _ _ _ :: ar, (_, pt) :: pr =>
    match pt with TyU _ | TyS _ | TyI _ => false | _ => true end && match_typed defs n && typed_go defs ar pr
  | _, _ => true
  end.

Lemma match_typed_unfold defs rd ru args ex :
  match_typed defs (IMatch rd ru args ex) =
  match get_rule defs rd ru with None => true | Some r => typed_go defs args (rparams r) end.
Proof.
  cbn [match_typed]. destruct (get_rule defs rd ru) as [r|]; [|reflexivity].
  generalize (rparams r). induction args as [|a ar IH]; intros ps; [destruct ps; reflexivity|].
  destruct a; destruct ps as [|[pn pt] pr]; cbn [typed_go]; try reflexivity; rewrite <- IH; reflexivity.
Qed.

Definition arg_ok (defs : list ruledef) (r : rule) (i : nat) (a : iarg) : Prop :=
  match a with
  | AExpr _ _ _ _ => True
  | ANested m _ _ _ => (exists nm, nth_rule_params (rparams r) i = TyRule nm) /\ match_typed defs m = true
  end.

Lemma skipn_params : forall (l : list (text * pty)) a pn pt rest,
  skipn a l = (pn, pt) :: rest -> nth_rule_params l a = pt /\ skipn (S a) l = rest.
Proof.
  induction l as [|[k t] l IH]; intros [|a] pn pt rest H; cbn in H; try discriminate.
  - injection H as -> -> ->. split; reflexivity.
  - destruct (IH a pn pt rest H) as [H1 H2]. split; [exact H1|exact H2].
Qed.

Lemma typed_from_shape defs r : forall n a extra ps,
  Forall2 (arg_ok defs r) (seq a n) extra -> skipn a (rparams r) = ps -> typed_go defs extra ps = true.
Proof.
  induction n as [|n IH]; intros a extra ps HF Hs; cbn [seq] in HF.
  - inversion HF; subst. destruct (skipn a (rparams r)); reflexivity.
  - inversion HF as [|i x is xs Hx Hxs]; subst.
    destruct (skipn a (rparams r)) as [|[pn pt] ps'] eqn:E; [destruct x; reflexivity|].
    destruct (skipn_params _ _ _ _ _ E) as [Ht Hsk].
    destruct x as [e s0 t0 exc|m s0 t0 exc]; cbn [typed_go].
    + eapply IH; eauto.
    + destruct Hx as [[nm Hnm] Hm]. rewrite Ht in Hnm. subst pt. rewrite Hm. cbn [andb]. eapply IH; eauto.
Qed.

Lemma find_ruledef_nth : forall defs name i0 k, find_ruledef defs name i0 = Some k ->
  exists d, nth_error defs (k - i0) = Some d /\ (i0 <= k)%nat.
Proof.
  induction defs as [|d ds IH]; intros name i0 k H; cbn [find_ruledef] in H; [discriminate|].
  assert (Rec : find_ruledef ds name (S i0) = Some k -> exists d0, nth_error (d :: ds) (k - i0) = Some d0 /\ (i0 <= k)%nat).
  { intro H'. destruct (IH _ _ _ H') as [d0 [H1 H2]]. exists d0. split; [|lia].
    replace (k - i0)%nat with (S (k - S i0)) by lia. exact H1. }
  destruct (rd_name d) as [n|]; [|exact (Rec H)].
  destruct (text_eqb n name); [|exact (Rec H)].
  injection H as <-. exists d. rewrite Nat.sub_diag. split; [reflexivity|lia].
Qed.

Lemma ruledef_go_in f defs rdi w needs : forall rs j0 x, In x (ruledef_go f defs rdi w needs rs j0) ->
  exists j r, nth_error rs j = Some r /\
    In x (match_with_rule f defs r (rpat r) w needs {| sf_rd := rdi; sf_ru := j0 + j; sf_args := [] |}).
Proof.
  induction rs as [|r rs IH]; intros j0 x H; cbn [ruledef_go] in H; [destruct H|].
  apply in_app_or in H. destruct H as [H|H].
  - exists O, r. rewrite Nat.add_0_r. split; [reflexivity|exact H].
  - destruct (IH _ _ H) as [j [r' [H1 H2]]]. exists (S j), r'. split; [exact H1|].
    replace (j0 + S j)%nat with (S j0 + j)%nat by lia. exact H2.
Qed.

Section MatcherTyped.
Variable defs : list ruledef.
Hypothesis Hpats : pats_ok defs = true.

Lemma shape_of i d j r : nth_error defs i = Some d -> nth_error (rd_rules d) j = Some r ->
  pat_params (rpat r) = seq 0 (length (rparams r)).
Proof.
  intros Hd Hr. unfold pats_ok in Hpats. rewrite forallb_forall in Hpats.
  pose proof (Hpats d (nth_error_In _ _ Hd)) as H. rewrite forallb_forall in H.
  pose proof (H r (nth_error_In _ _ Hr)) as H'. unfold rule_shape_ok in H'.
  destruct (list_eq_dec Nat.eq_dec (pat_params (rpat r)) (seq 0 (length (rparams r)))); [assumption|discriminate].
Qed.

Definition R_at (f : nat) : Prop := forall r pat w needs sf m w',
  In (m, w') (match_with_rule f defs r pat w needs sf) ->
  exists extra, m = IMatch (sf_rd sf) (sf_ru sf) (rev (sf_args sf) ++ extra) 0 /\ Forall2 (arg_ok defs r) (pat_params pat) extra.
Definition D_at (f : nat) : Prop := forall rdi rd w needs m w',
  nth_error defs rdi = Some rd -> In (m, w') (match_with_ruledef f defs rdi rd w needs) -> match_typed defs m = true.

Lemma rule_top f i d j r w needs m w' : R_at f ->
  nth_error defs i = Some d -> nth_error (rd_rules d) j = Some r ->
  In (m, w') (match_with_rule f defs r (rpat r) w needs {| sf_rd := i; sf_ru := j; sf_args := [] |}) ->
  match_typed defs m = true.
Proof.
  intros HR Hd Hr Hin. destruct (HR _ _ _ _ _ _ _ Hin) as [extra [-> HF]]. cbn [sf_rd sf_ru sf_args rev app].
  rewrite match_typed_unfold. unfold get_rule. rewrite Hd, Hr.
  rewrite (shape_of _ _ _ _ Hd Hr) in HF. eapply typed_from_shape; [exact HF|reflexivity].
Qed.

Lemma matcher_typed_step : forall f, R_at f /\ D_at f.
Proof.
  induction f as [|f [IHR IHD]].
  - split; [intros r pat w needs sf m w' H; rewrite mwr_O in H; destruct H
           |intros rdi rd w needs m w' _ H; rewrite mwrd_O in H; destruct H].
  - assert (HR : R_at (S f)).
    { intros r pat w needs sf m w' H. destruct pat as [|[|c|c|i] rest].
      - rewrite mwr_nil in H. destruct (negb (is_over w) && needs); [destruct H|].
        destruct H as [H|[]]. injection H as <- _. exists []. rewrite app_nil_r. split; [reflexivity|constructor].
      - rewrite mwr_ws in H. destruct (_ && _ && _); [destruct H|]. exact (IHR _ _ _ _ _ _ _ H).
      - rewrite mwr_exact in H. destruct (maybe_expect_char w c); [|destruct H]. exact (IHR _ _ _ _ _ _ _ H).
      - rewrite mwr_glued in H. destruct (maybe_expect_char_glued w c); [|destruct H]. exact (IHR _ _ _ _ _ _ _ H).
      - rewrite mwr_param in H.
        assert (Hv : forall look, In (m, w') (param_variant f defs r i rest w needs sf look) ->
                  exists extra, m = IMatch (sf_rd sf) (sf_ru sf) (rev (sf_args sf) ++ extra) 0 /\
                                Forall2 (arg_ok defs r) (pat_params (PParam i :: rest)) extra).
        { intros look Hin. unfold param_variant in Hin.
          destruct (if look then _ else _) as [wl|]; [|destruct Hin].
          cbv zeta in Hin.
          destruct (nth_rule_params (rparams r) i) as [|k|k|k|name] eqn:Ty.
          1-4: (destruct (parse_expr (200 * fuel_of wl) 0 wl) as [ex wx| |]; [|destruct Hin|destruct Hin];
                 destruct (IHR _ _ _ _ _ _ _ Hin) as [extra [-> HF]]; cbn [sf_rd sf_ru sf_args rev] in *;
                 eexists (_ :: extra); rewrite <- app_assoc; split; [reflexivity|]; constructor; [exact I|exact HF]).
          destruct (find_ruledef defs name 0) as [nrd|] eqn:Fr; [|destruct Hin].
          apply in_flat_map in Hin. destruct Hin as [[mn wn] [Hn Hin]].
          destruct (IHR _ _ _ _ _ _ _ Hin) as [extra [-> HF]]. cbn [sf_rd sf_ru sf_args rev] in *.
          eexists (_ :: extra). rewrite <- app_assoc. split; [reflexivity|]. constructor; [|exact HF].
          split; [eauto|]. destruct (find_ruledef_nth _ _ _ _ Fr) as [d [Hd _]]. rewrite Nat.sub_0_r in Hd.
          eapply IHD; [exact Hd|]. rewrite (nth_error_nth' _ _ _ _ Hd) in Hn. exact Hn. }
        apply in_app_or in H. destruct H as [H|H]; eapply Hv; exact H. }
    split; [exact HR|].
    intros rdi rd w needs m w' Hd H. rewrite mwrd_S in H.
    destruct (ruledef_go_in _ _ _ _ _ _ _ _ H) as [j [r [Hr Hin]]]. cbn [Nat.add] in Hin.
    exact (rule_top f _ _ _ _ _ _ _ _ IHR Hd Hr Hin).
Qed.

Lemma cand_typed f w e m w' : In (m, w') (cand_matches f defs w e) -> match_typed defs m = true.
Proof.
  destruct e as [i j]. unfold cand_matches.
  destruct (nth_error defs i) as [d|] eqn:Hd; [|intros []].
  destruct (nth_error (rd_rules d) j) as [r|] eqn:Hr; [|intros []].
  intro H. eapply rule_top; eauto. apply matcher_typed_step.
Qed.

Lemma dedupe_in : forall ms seen m, In m (dedupe seen ms) -> In m ms.
Proof.
  induction ms as [|x ms IH]; intros seen m H; cbn [dedupe] in H; [destruct H|].
  destruct (existsb (same_match x) seen); [right; eapply IH; eauto|].
  destruct H as [->|H]; [now left|right; eapply IH; eauto].
Qed.

Lemma finish_typed working m :
  (forall m0 w0, In (m0, w0) working -> match_typed defs m0 = true) -> In m (finish_matches defs working) -> match_typed defs m = true.
Proof.
  intros Hw H. unfold finish_matches in H. apply filter_In in H. destruct H as [H _].
  apply in_map_iff in H. destruct H as [m0 [<- H]]. apply dedupe_in in H. apply in_map_iff in H.
  destruct H as [[m1 w1] [<- H]]. cbn [fst]. specialize (Hw _ _ H).
  destruct m1 as [rd ru args ex]. cbn [set_exact]. rewrite match_typed_unfold in *. exact Hw.
Qed.

Theorem matcher_typed indexed src m : In m (match_instr indexed defs src) -> match_typed defs m = true.
Proof.
  unfold match_instr. destruct indexed.
  - rewrite match_instr_at_indexed. apply finish_typed. intros m0 w0 H. unfold working_indexed in H.
    apply in_flat_map in H. destruct H as [e [_ H]]. eapply cand_typed; eauto.
  - rewrite match_instr_at_brute. apply finish_typed. intros m0 w0 H. unfold working_brute in H.
    apply in_flat_map in H. destruct H as [e [_ H]]. eapply cand_typed; eauto.
Qed.

Theorem init_matches_typed indexed nsyms ns st0 : init_state indexed defs nsyms ns = Some st0 -> matches_typed defs st0.
Proof.
  unfold init_state. cbv zeta.
  match goal with |- (if ?c then _ else _) = _ -> _ => destruct c; [discriminate|] end.
  intro H. inversion H; subst; clear H. intros d m Hd Hm. cbn [s_instr] in Hd. apply in_map_iff in Hd.
  destruct Hd as [src [<- _]]. cbn [i_matches] in Hm. eapply matcher_typed; eauto.
Qed.
End MatcherTyped.

(* C01_sound with the front-end conditions stated on the inputs only *)
Theorem C01_sound' : forall indexed defs names ns budget out syms n,
  syms_distinct ns -> consts_acyclic names ns ->
  defs_ok defs = true -> pats_ok defs = true -> data_canonical ns ->
  assemble indexed defs names ns budget = Some (out, syms, n) ->
  denote indexed defs names ns <> DUnsupported ->
  denote indexed defs names ns = DOk out syms.
Proof.
  intros indexed defs names ns budget out syms n Hd Hac Hdefs Hpats Hcan Ha Hsup.
  eapply C01_sound; eauto. split; [exact Hdefs|]. intros st0 Hi. split.
  - eapply init_matches_typed; eauto.
  - eapply canonical_data_slots; eauto.
Qed.

(* ---------- every rule set produced by parse_defs lists its parameters in order and names them distinctly ---------- *)
Definition rule_wf (r : rule) : Prop := rule_shape_ok r = true /\ distinct (map fst (rparams r)) = true.

Lemma text_eqb_sym a b : text_eqb a b = text_eqb b a.
Proof.
  destruct (text_eqb a b) eqn:E.
  - apply ResolverFixP.text_eqb_eq in E. subst. symmetry. apply text_eqb_rfl.
  - symmetry. destruct (text_eqb b a) eqn:E'; [|reflexivity]. apply ResolverFixP.text_eqb_eq in E'. subst.
    rewrite text_eqb_rfl in E. discriminate.
Qed.

Lemma distinct_snoc : forall l x, distinct l = true -> existsb (text_eqb x) l = false -> distinct (l ++ [x]) = true.
Proof.
  induction l as [|y l IH]; intros x Hd Hx; [reflexivity|]. cbn [app distinct] in *.
  apply andb_prop in Hd. destruct Hd as [H1 H2]. cbn [existsb] in Hx. apply orb_false_iff in Hx. destruct Hx as [Hx1 Hx2].
  rewrite IH by assumption. rewrite andb_true_r. rewrite existsb_app. cbn [existsb]. rewrite orb_false_r.
  apply negb_true_iff in H1. rewrite H1. cbn [orb]. rewrite text_eqb_sym, Hx1. reflexivity.
Qed.

Lemma find_param_existsb : forall ps n, find_param ps n = existsb (text_eqb n) (map fst ps).
Proof.
  induction ps as [|[k t] ps IH]; intro n; [reflexivity|]. cbn [find_param map fst existsb]. rewrite IH, text_eqb_sym. reflexivity.
Qed.

Lemma pat_params_app a b : pat_params (a ++ b) = pat_params a ++ pat_params b.
Proof. unfold pat_params. apply flat_map_app. Qed.
Lemma pat_params_glued t : pat_params (lower_glued t) = [].
Proof. induction t as [|c r IH]; [reflexivity|exact IH]. Qed.
Lemma pat_params_exacts t : pat_params (lower_exacts t) = [].
Proof. destruct t as [|c r]; [reflexivity|]. cbn [lower_exacts]. exact (pat_params_glued r). Qed.

Lemma parse_pattern_wf : forall fuel is_sub w pat params w' pat' params' e,
  parse_pattern fuel is_sub w pat params = Some (w', pat', params', e) ->
  pat_params (rev pat) = seq 0 (length params) -> distinct (map fst (rev params)) = true ->
  pat_params pat' = seq 0 (length params') /\ distinct (map fst params') = true.
Proof.
  induction fuel as [|f IH]; intros is_sub w pat params w' pat' params' e H Hp Hd; [discriminate|].
  cbn [parse_pattern] in H.
  assert (Hexit : pat_params (rev pat) = seq 0 (length (rev params)) /\ distinct (map fst (rev params)) = true)
    by (rewrite rev_length; auto).
  destruct (is_over w || next_useful_is w THeavyArrowRight) eqn:E0.
  { injection H as _ <- <- _. exact Hexit. }
  destruct (token_here w) as [k n] eqn:Et.
  destruct (tkind_eqb k TBraceOpen) eqn:Eb.
  - assert (Hnext : forall w0 nm ty, find_param params nm = false ->
              parse_pattern f is_sub w0 (PParam (length params) :: pat) ((nm, ty) :: params) = Some (w', pat', params', e) ->
              pat_params pat' = seq 0 (length params') /\ distinct (map fst params') = true).
    { intros w0 nm ty Hf H0. eapply IH; [exact H0| |].
      - cbn [rev length]. rewrite pat_params_app, Hp. change (pat_params [PParam (length params)]) with [length params].
        rewrite seq_S. reflexivity.
      - cbn [rev]. rewrite map_app. cbn [map fst]. apply distinct_snoc; [exact Hd|].
        rewrite find_param_existsb in Hf. rewrite map_rev.
        rewrite <- Hf. clear. generalize (map fst params) as l. intro l.
        induction l as [|y l IHl]; [reflexivity|]. cbn [rev]. rewrite existsb_app, IHl. cbn [existsb]. rewrite orb_false_r. apply orb_comm. }
    clear IH Hp Hd Et Eb E0.
    break_hyps; try discriminate;
      try (injection H as _ <- <- _; exact Hexit);
      try (eapply Hnext; eassumption).
  - destruct (is_allowed_pattern_token k) eqn:Ea.
    + eapply IH; [exact H| |exact Hd]. rewrite rev_app_distr, rev_involutive, pat_params_app, pat_params_exacts, app_nil_r. exact Hp.
    + destruct (tkind_eqb k TWhitespace); [|discriminate].
      eapply IH; [exact H| |exact Hd]. cbn [rev]. rewrite pat_params_app. cbn. rewrite app_nil_r. exact Hp.
Qed.

Lemma parse_rule_wf : forall is_sub w r w', parse_rule is_sub w = Some (r, w') -> rule_wf r.
Proof.
  intros is_sub w r w' H. unfold parse_rule in H.
  destruct (parse_pattern _ is_sub _ [] []) as [[[[w1 pat] params] es]|] eqn:Ep; [|discriminate].
  destruct (parse_pattern_wf _ _ _ _ _ _ _ _ _ Ep eq_refl eq_refl) as [H1 H2].
  clear Ep. break_hyps; try discriminate; injection H as <- _; (split; [|exact H2]);
    unfold rule_shape_ok; cbn [rpat rparams]; rewrite H1;
    destruct (list_eq_dec Nat.eq_dec (seq 0 (length params)) (seq 0 (length params))); congruence.
Qed.

Lemma parse_rules_wf : forall fuel is_sub w acc rs w', parse_rules fuel is_sub w acc = Some (rs, w') ->
  Forall rule_wf acc -> Forall rule_wf rs.
Proof.
  induction fuel as [|f IH]; intros is_sub w acc rs w' H Ha; [discriminate|]. cbn [parse_rules] in H.
  destruct (next_useful_is w TBraceClose).
  { injection H as <- _. apply Forall_rev. exact Ha. }
  destruct (parse_rule is_sub w) as [[r w1]|] eqn:Er; [|discriminate].
  destruct (next_linebreak (fuel_of w1) w1) as [w2|]; [|discriminate].
  eapply IH; [exact H|]. constructor; [eapply parse_rule_wf; exact Er | exact Ha].
Qed.

Lemma parse_ruledefs_wf : forall fuel w acc ds, parse_ruledefs fuel w acc = Some ds ->
  Forall (fun d => Forall rule_wf (rd_rules d)) acc -> Forall (fun d => Forall rule_wf (rd_rules d)) ds.
Proof.
  induction fuel as [|f IH]; intros w acc ds H Ha; [discriminate|]. cbn [parse_ruledefs] in H.
  destruct (is_over _).
  { injection H as <-. apply Forall_rev. exact Ha. }
  assert (Hnext : forall w0 is_sub name rules w1,
             parse_rules (fuel_of w1) is_sub w1 [] = Some (rules, w0) ->
             forall w2, parse_ruledefs f w2 ({| rd_sub := is_sub; rd_name := name; rd_rules := rules |} :: acc) = Some ds ->
             Forall (fun d => Forall rule_wf (rd_rules d)) ds).
  { intros w0 is_sub name rules w1 Hr w2 H0. eapply IH; [exact H0|]. constructor; [|exact Ha].
    cbn [rd_rules]. eapply parse_rules_wf; [exact Hr | constructor]. }
  clear IH Ha.
  break_hyps; try discriminate; eapply Hnext; eassumption.
Qed.

Definition no_param_assign (defs : list ruledef) : bool :=
  forallb (fun d => forallb (fun r => no_assign (map fst (rparams r)) (rexpr r)) (rd_rules d)) defs.

Theorem parse_defs_wf : forall t defs, parse_defs t = Some defs ->
  pats_ok defs = true /\ (no_param_assign defs = true -> defs_ok defs = true).
Proof.
  intros t defs H. unfold parse_defs in H.
  pose proof (parse_ruledefs_wf _ _ _ _ H (Forall_nil _)) as Hall. rewrite Forall_forall in Hall. split.
  - unfold pats_ok. apply forallb_forall. intros d Hd. apply forallb_forall. intros r Hr.
    specialize (Hall d Hd). rewrite Forall_forall in Hall. exact (proj1 (Hall r Hr)).
  - intro Hna. unfold defs_ok, no_param_assign in *. rewrite forallb_forall in Hna. apply forallb_forall. intros d Hd.
    specialize (Hna d Hd). rewrite forallb_forall in Hna. apply forallb_forall. intros r Hr.
    specialize (Hall d Hd). rewrite Forall_forall in Hall. unfold StaticSizeP.rule_ok. rewrite (proj2 (Hall r Hr)), (Hna r Hr). reflexivity.
Qed.

(* the theorem for rule sets that come from text: the only condition on the rules that customasm does not itself
   guarantee is `no_param_assign` *)
Theorem C01_sound_parsed : forall t indexed defs names ns budget out syms n,
  parse_defs t = Some defs -> no_param_assign defs = true ->
  syms_distinct ns -> consts_acyclic names ns -> data_canonical ns ->
  assemble indexed defs names ns budget = Some (out, syms, n) ->
  denote indexed defs names ns <> DUnsupported ->
  denote indexed defs names ns = DOk out syms.
Proof.
  intros t indexed defs names ns budget out syms n Hp Hna Hd Hac Hcan Ha Hsup.
  destruct (parse_defs_wf _ _ Hp) as [H1 H2]. eapply C01_sound'; eauto.
Qed.

(* ---------- non-vacuity: a concrete size-static program with a forward reference and an address-dependent constant ---------- *)
From Coq Require Import String Ascii.
Definition txt (s : string) : text := map N_of_ascii (list_ascii_of_string s).
Definition nl : string := String (ascii_of_nat 10) EmptyString.
(* #ruledef { ld {x: u8} => 0x10 @ x  /  jmp {a: u16} => 0x20 @ a } *)
Definition ex_rules : text :=
  txt ("#ruledef {" ++ nl ++ "ld {x: u8} => 0x10 @ x" ++ nl ++ "jmp {a: u16} => 0x20 @ a" ++ nl ++ "}" ++ nl).
Definition ex_defs : list ruledef := Eval vm_compute in match parse_defs ex_rules with Some d => d | None => [] end.
Definition pe (s : string) : expr := match parse_full (txt s) with Some e => e | None => EBool false end.
Definition ex_names : list text := [txt "start"; txt "end"; txt "k"].
(* start:  ld 5   k = end + 1   jmp end   #d8 k   #res 2   end: *)
Definition ex_ns : list node := Eval vm_compute in
  [NLabel 0; NInstr 0 (txt "ld 5"); NConst 2 (pe "end + 1"); NInstr 1 (txt "jmp end");
   NData (Some 8%N) [(0%nat, pe "k")]; NRes 0 (pe "2"); NLabel 1].

Example ex_defs_parsed : parse_defs ex_rules = Some ex_defs.
Proof. vm_compute. reflexivity. Qed.

Example ex_distinct : syms_distinct ex_ns.
Proof.
  intros s e Hl Hc. cbn in Hl, Hc.
  repeat (destruct Hl as [Hl|Hl]; try discriminate Hl); try contradiction;
    injection Hl as <-; repeat (destruct Hc as [Hc|Hc]; try discriminate Hc); contradiction.
Qed.

Example ex_acyclic : consts_acyclic ex_names ex_ns.
Proof.
  exists (fun _ => O). intros s e Hin. cbn in Hin.
  repeat (destruct Hin as [Hin|Hin]; try discriminate Hin); try contradiction.
  injection Hin as <- <-. split; [cbn; lia|].
  intros s' [n [Hn [_ Hf]]] Hc. cbn in Hn. destruct Hn as [Hn|[]]. injection Hn as <-.
  vm_compute in Hf. injection Hf as <-. cbn in Hc. destruct Hc as [Hc|[]]. discriminate.
Qed.

Example ex_prog_ok : prog_ok true ex_defs ex_names ex_ns.
Proof. apply prog_okb_ok. vm_compute. reflexivity. Qed.

Example ex_size_static : denote true ex_defs ex_names ex_ns <> DUnsupported.
Proof. vm_compute. discriminate. Qed.

(* 10 05 | 20 00 08 | 09 ; start = 0, end = 8, k = 9; three passes *)
Example ex_assembles : assemble true ex_defs ex_names ex_ns 10 =
  Some ((17614197753865, 48), [VInt (un 0); VInt (un 8); VInt (un 9)], 3%nat).
Proof. vm_compute. reflexivity. Qed.

Example C01_sound_nonvacuous :
  denote true ex_defs ex_names ex_ns = DOk (17614197753865, 48) [VInt (un 0); VInt (un 8); VInt (un 9)].
Proof.
  exact (C01_sound true ex_defs ex_names ex_ns 10 _ _ _ ex_distinct ex_acyclic ex_prog_ok ex_assembles ex_size_static).
Qed.

Example C01_sound_parsed_nonvacuous :
  no_param_assign ex_defs = true /\ data_canonical ex_ns /\
  denote true ex_defs ex_names ex_ns = DOk (17614197753865, 48) [VInt (un 0); VInt (un 8); VInt (un 9)].
Proof.
  assert (Hna : no_param_assign ex_defs = true) by (vm_compute; reflexivity).
  assert (Hcan : data_canonical ex_ns) by reflexivity.
  split; [exact Hna|]. split; [exact Hcan|].
  exact (C01_sound_parsed ex_rules true ex_defs ex_names ex_ns 10 _ _ _ ex_defs_parsed Hna ex_distinct ex_acyclic Hcan
           ex_assembles ex_size_static).
Qed.

(* without the second conjunct of rule_ok the statement is false: a production that assigns to its own typed
   parameter has a static size (8) that is not its size (16); the assembler converges, the definition rejects *)
Definition bad_rules : text :=
  txt ("#ruledef {" ++ nl ++ "ld {x: u8} => { x = 0x1234" ++ nl ++ " x }" ++ nl ++ "}" ++ nl).
Definition bad_defs : list ruledef := Eval vm_compute in match parse_defs bad_rules with Some d => d | None => [] end.
(* #d8 l    ld 5    l: *)
Definition bad_ns : list node := Eval vm_compute in [NData (Some 8%N) [(0%nat, pe "l")]; NInstr 0 (txt "ld 5"); NLabel 0].
Example shadowed_parameter_refutes :
  defs_ok bad_defs = false /\
  assemble true bad_defs [txt "l"] bad_ns 10 = Some ((201268, 24), [VInt (un 3)], 3%nat) /\
  denote true bad_defs [txt "l"] bad_ns = DReject.
Proof. vm_compute. auto. Qed.

(* hence the statement without the rule well-formedness hypothesis (the former C01_sound_statement) is refuted *)
Theorem C01_sound_unrestricted_refuted :
  exists indexed defs names ns budget out syms n,
    syms_distinct ns /\ consts_acyclic names ns /\
    assemble indexed defs names ns budget = Some (out, syms, n) /\
    denote indexed defs names ns <> DUnsupported /\
    denote indexed defs names ns <> DOk out syms.
Proof.
  exists true, bad_defs, [txt "l"], bad_ns, 10%nat, (201268, 24), [VInt (un 3)], 3%nat.
  split; [|split; [|split; [|split]]].
  - intros s e Hl Hc. cbn in Hc. repeat (destruct Hc as [Hc|Hc]; try discriminate Hc). contradiction.
  - exists (fun _ => O). intros s e Hin. cbn in Hin. repeat (destruct Hin as [Hin|Hin]; try discriminate Hin). contradiction.
  - vm_compute. reflexivity.
  - vm_compute. discriminate.
  - vm_compute. discriminate.
Qed.

(* a program the definition rejects is never assembled to something else *)
Theorem C01_rejects_parsed : forall t indexed defs names ns budget,
  parse_defs t = Some defs -> no_param_assign defs = true ->
  syms_distinct ns -> consts_acyclic names ns -> data_canonical ns ->
  denote indexed defs names ns = DReject ->
  assemble indexed defs names ns budget = None.
Proof.
  intros t indexed defs names ns budget Hp Hna Hd Hac Hcan Hrej.
  destruct (assemble indexed defs names ns budget) as [[[out syms] n]|] eqn:Ha; [|reflexivity].
  assert (H : denote indexed defs names ns = DOk out syms).
  { eapply C01_sound_parsed; eauto. rewrite Hrej. discriminate. }
  rewrite Hrej in H. discriminate.
Qed.
