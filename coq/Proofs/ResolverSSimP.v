(* The resolver with the static-value optimisation (Model/ResolverS.v) simulates the resolver without it
   (Model/Resolver.v), pass by pass: identical states; an item whose `resolved` flag is set is skipped by the one and
   recomputed to exactly its stored value by the other (static_known_sound); the only difference is that in pass 1 a
   freshly flagged item reports Resolved where the unoptimised pass may report Unresolved.  (C08, static half.) *)
From Coq Require Import NArith ZArith List Bool Lia.
Import ListNotations.
From CA Require Import Model.Lexer Model.Parser Model.Literal Model.BigIntOps Model.Evaluator Model.Matcher Model.Resolver
  Model.StaticKnown Model.ResolverS Spec.StaticSpec Proofs.EvalSemP Proofs.EvalMonoP Proofs.ResolverFixP Proofs.ResolverMonoP
  Proofs.CertUniqueP Proofs.StaticKnownP.
Open Scope Z_scope.

(* ---------- small facts ---------- *)
Lemma text_eqb_refl' (t : text) : text_eqb t t = true.
Proof. induction t as [|x t IH]; cbn; [reflexivity|]. rewrite N.eqb_refl, IH. reflexivity. Qed.

Lemma bigint_identical_refl b : bigint_identical b b = true.
Proof. unfold bigint_identical. rewrite Z.eqb_refl. destruct (bsz b); cbn; [apply N.eqb_refl|reflexivity]. Qed.

Lemma value_identical_refl v : value_identical v v = true.
Proof.
  destruct v; cbn; try reflexivity.
  - apply bigint_identical_refl.
  - rewrite text_eqb_refl', N.eqb_refl. reflexivity.
  - destruct b; reflexivity.
  - apply text_eqb_refl'.
Qed.

Lemma NoDup_app_r {A} (a b : list A) : NoDup (a ++ b) -> NoDup b.
Proof. induction a as [|x a IH]; cbn; [auto|]. intro H. apply NoDup_cons_iff in H. apply IH, H. Qed.
Lemma NoDup_app_l {A} (a b : list A) : NoDup (a ++ b) -> NoDup a.
Proof.
  induction a as [|x a IH]; cbn; intro H; [constructor|]. apply NoDup_cons_iff in H. destruct H as [H1 H2].
  constructor; [|apply IH, H2]. intro Hx. apply H1. apply in_or_app. now left.
Qed.
Lemma NoDup_app_disj {A} (a b : list A) x : NoDup (a ++ b) -> In x a -> In x b -> False.
Proof.
  induction a as [|y a IH]; cbn; intros H Ha Hb; [destruct Ha|]. apply NoDup_cons_iff in H. destruct H as [H1 H2].
  destruct Ha as [->|Ha]; [apply H1; apply in_or_app; now right|eauto].
Qed.

Lemma flag_set_other l i j b : i <> j -> flag (set_nth l j b) i = flag l i.
Proof. intro H. unfold flag. rewrite nth_error_set_nth_other by exact H. reflexivity. Qed.

Lemma flag_set_mono l i j : flag l i = true -> flag (set_nth l j true) i = true.
Proof.
  intro H. destruct (Nat.eq_dec i j) as [->|Hne]; [|rewrite flag_set_other by exact Hne; exact H].
  unfold flag in *. destruct (nth_error l j) as [y|] eqn:E; [|discriminate].
  rewrite (nth_error_set_nth_same _ _ _ _ E). reflexivity.
Qed.

Lemma flag_true_set l i j : flag (set_nth l j true) i = true -> i = j \/ flag l i = true.
Proof.
  intro H. destruct (Nat.eq_dec i j) as [->|Hne]; [now left|right]. rewrite flag_set_other in H by exact Hne. exact H.
Qed.

Lemma with_state_ss x : with_state x (ss x) = x.
Proof. destruct x; reflexivity. Qed.

Lemma state_eta st : {| s_sym := s_sym st; s_instr := s_instr st; s_data := s_data st; s_res := s_res st; s_align := s_align st; s_addr := s_addr st |} = st.
Proof. destruct st; reflexivity. Qed.

(* resolve_encoding is the head of smallest_encodings *)
Lemma resolve_encoding_smallest defs pv cg ms :
  resolve_encoding defs pv cg ms =
  match smallest_encodings defs pv cg ms with
  | EErr => EErr
  | EOk None => EOk None
  | EOk (Some c) => EOk (hd_error c)
  end.
Proof.
  unfold resolve_encoding, smallest_encodings. destruct (resolve_matches defs pv ms) as [rs|]; [|reflexivity].
  destruct (flat_map _ rs) as [|b0 rest]; [reflexivity|]. cbv zeta.
  match goal with |- (if ?c then _ else _) = _ => destruct c; reflexivity end.
Qed.

(* one data element at a time *)
Lemma data_go_cons names last width d e r st pos acc :
  data_go names last width ((d, e) :: r) st pos acc =
  match data_go names last width [(d, e)] st pos acc with
  | EErr => EErr
  | EOk (st', acc', pos') => data_go names last width r st' pos' acc'
  end.
Proof.
  cbn [data_go]. cbv zeta.
  destruct (eval code_ops _ e []) as [[v c]|]; [|reflexivity].
  destruct (expect_error_or_bigint v) as [v'|]; [|reflexivity].
  destruct (match v' with VInt b => EOk (Some b) | _ => if last then EErr else EOk None end) as [menc|]; [|reflexivity].
  match goal with |- (if negb ?c then _ else _) = _ => destruct c; reflexivity end.
Qed.

Definition le_res (a b : resolution) : Prop := a = Resolved -> b = Resolved.
Lemma le_res_refl a : le_res a a. Proof. exact (fun H => H). Qed.
Lemma le_merge a b c d : le_res a b -> le_res c d -> le_res (merge a c) (merge b d).
Proof. unfold le_res. destruct a, b, c, d; cbn; auto; intros; try discriminate; auto. Qed.

Definition dflt0 : bigint := mk 0 (Some 0%N).
Definition sliced (w : option N) (b : bigint) : bigint :=
  match w with Some w => slice_to b (Z.of_N w) | None => slice_to b (size_or_min b) end.

Lemma asm_name_not_addr n : known_asm_builtin n = true -> text_eqb n s_dollar || text_eqb n s_pc = false.
Proof.
  unfold known_asm_builtin. intro H. apply orb_prop in H. destruct H as [H|H]; [apply orb_prop in H; destruct H as [H|H]|];
    apply text_eqb_eq in H; subst; reflexivity.
Qed.

(* ---------- one symbol index, one node ---------- *)
Lemma sids_eq l : sids l = CertUniqueP.sym_ids l.
Proof. reflexivity. Qed.

Lemma const_unique (ns : list node) : NoDup (sids ns) -> forall s e e', In (NConst s e) ns -> In (NConst s e') ns -> e = e'.
Proof.
  induction ns as [|n r IH]; intros Hnd s e e' H1 H2; [destruct H1|].
  assert (Hr : NoDup (sids r)).
  { unfold sids in Hnd. cbn [flat_map] in Hnd. apply NoDup_app_r in Hnd. exact Hnd. }
  destruct H1 as [->|H1], H2 as [H2|H2].
  - congruence.
  - exfalso. unfold sids in Hnd. cbn [flat_map app] in Hnd. apply NoDup_cons_iff in Hnd. apply (proj1 Hnd).
    exact (in_ids_const r s e' H2).
  - subst n. exfalso. unfold sids in Hnd. cbn [flat_map app] in Hnd. apply NoDup_cons_iff in Hnd. apply (proj1 Hnd).
    exact (in_ids_const r s e H1).
  - exact (IH Hr s e e' H1 H2).
Qed.

Lemma label_not_const (ns : list node) : NoDup (sids ns) -> forall s e, In (NLabel s) ns -> In (NConst s e) ns -> False.
Proof.
  induction ns as [|n r IH]; intros Hnd s e H1 H2; [destruct H1|].
  assert (Hr : NoDup (sids r)).
  { unfold sids in Hnd. cbn [flat_map] in Hnd. apply NoDup_app_r in Hnd. exact Hnd. }
  destruct H1 as [->|H1], H2 as [H2|H2].
  - discriminate.
  - unfold sids in Hnd. cbn [flat_map app] in Hnd. apply NoDup_cons_iff in Hnd. apply (proj1 Hnd).
    exact (in_ids_const r s e H2).
  - subst n. unfold sids in Hnd. cbn [flat_map app] in Hnd. apply NoDup_cons_iff in Hnd. apply (proj1 Hnd).
    exact (in_ids_label r s H1).
  - exact (IH Hr s e H1 H2).
Qed.


Lemma pair_unique {B} (l : list (nat * B)) d e e' : NoDup (map fst l) -> In (d, e) l -> In (d, e') l -> e = e'.
Proof.
  induction l as [|[k v] l IH]; cbn; intros Hnd H1 H2; [destruct H1|]. apply NoDup_cons_iff in Hnd. destruct Hnd as [Hk Hnd].
  destruct H1 as [H1|H1], H2 as [H2|H2].
  - congruence.
  - inversion H1; subst. exfalso. apply Hk. apply in_map_iff. exists (d, e'). auto.
  - inversion H2; subst. exfalso. apply Hk. apply in_map_iff. exists (d, e). auto.
  - eauto.
Qed.

Lemma data_id_unique (ns : list node) : NoDup (dids ns) -> forall w el d e w' el' e',
  In (NData w el) ns -> In (d, e) el -> In (NData w' el') ns -> In (d, e') el' -> w = w' /\ e = e'.
Proof.
  induction ns as [|n r IH]; intros Hnd w el d e w' el' e' H1 He H2 He'; [destruct H1|].
  unfold dids in Hnd. cbn [flat_map] in Hnd. fold (dids r) in Hnd.
  assert (Hin : forall w0 el0 e0, In (NData w0 el0) r -> In (d, e0) el0 -> In d (dids r))
    by (intros; eapply in_ids_data; eauto).
  destruct H1 as [->|H1], H2 as [H2|H2].
  - inversion H2; subst. split; [reflexivity|]. eapply pair_unique; [eapply NoDup_app_l; exact Hnd|exact He|exact He'].
  - exfalso. eapply NoDup_app_disj; [exact Hnd| |eapply Hin; eauto]. apply in_map_iff. exists (d, e). auto.
  - subst n. exfalso. eapply NoDup_app_disj; [exact Hnd| |eapply Hin; eauto]. apply in_map_iff. exists (d, e'). auto.
  - eapply IH; eauto. eapply NoDup_app_r; exact Hnd.
Qed.

Section Sim.
Variable names : list text.
Variable defs : list ruledef.
Variable ns : list node.
Variable K : kinfo.
Hypothesis Hres : reserved_free names.

Lemma pvar_asm st pos cg n : known_asm_builtin n = true -> pvar names st pos cg 0%N [n] = EErr.
Proof. intro H. unfold pvar. rewrite (asm_name_not_addr n H), (Hres n H). reflexivity. Qed.

Lemma asm_agree_pvar st pos cg st' pos' cg' : asm_agree (pvar names st pos cg) (pvar names st' pos' cg').
Proof. intros n H. rewrite !pvar_asm by exact H. reflexivity. Qed.

Lemma asm_agree_pvar_dummy st pos cg : asm_agree (pvar names st pos cg) dummy_var.
Proof. intros n H. rewrite pvar_asm by exact H. reflexivity. Qed.

(* ---------- the known constants hold their values ---------- *)
Definition cval (e : expr) : eres (value * locals) := eval code_ops dummy_var e [].

Definition good (st : state) : Prop :=
  forall s e, In (NConst s e) ns -> const_known e = true ->
    exists v c, cval e = EOk (v, c) /\ nth_error (s_sym st) s = Some v /\ should_propagate v = false.

Notation G := (global_known true names (k_sym K)).
Hypothesis HKsym : forall i, nth_error (k_sym K) i = Some true -> exists e, In (NConst i e) ns /\ const_known e = true.

Lemma good_agree st st' pos pos' cg cg' : good st -> good st' ->
  pv_agree G (pvar names st pos cg) (pvar names st' pos' cg').
Proof.
  intros Hg Hg' l p HG. unfold global_known in HG. destruct l; [|discriminate]. destruct p as [|first rest]; [discriminate|].
  cbn [andb] in HG. destruct (text_eqb first s_dollar || text_eqb first s_pc) eqn:D; [discriminate|].
  destruct rest; [|discriminate]. destruct (find_sym names first 0) as [i|] eqn:F; [|discriminate].
  destruct (nth_error (k_sym K) i) as [b|] eqn:Kb; [|discriminate]. subst b.
  destruct (HKsym i Kb) as [e [Hin Hk]].
  destruct (Hg i e Hin Hk) as [v [c [Hv [Hs Hp]]]]. destruct (Hg' i e Hin Hk) as [v' [c' [Hv' [Hs' Hp']]]].
  rewrite Hv in Hv'. inversion Hv'; subst v' c'.
  unfold pvar. rewrite D, F, Hs, Hs'. destruct v; try reflexivity. discriminate.
Qed.

(* ---------- what a set flag means: the unoptimised resolver recomputes the item to exactly what is stored ---------- *)
Definition frozen_instr_ok (i : nat) (d : instr_def) : Prop :=
  forall st' pos last src, good st' -> nth_error (s_instr st') i = Some d ->
    resolve_node names defs last (NInstr i src) st' pos = EOk (st', Resolved, pos + size_of (i_enc d)).

Definition frozen_data_ok (d : nat) (w : option N) (e : expr) (b : bigint) : Prop :=
  forall st' pos last acc, nth_error (s_data st') d = Some b ->
    data_go names last w [(d, e)] st' pos acc = EOk (st', merge acc Resolved, pos + size_of b).

Definition kinstr_ok (st : state) : Prop :=
  forall i d, nth_error (s_instr st) i = Some d -> flag (k_instr K) i = true ->
    forallb (match_known true defs G) (i_matches d) = true /\ forallb (match_kinded defs) (i_matches d) = true.

Lemma set_nth_same_entry {A} (l : list A) i d : nth_error l i = Some d -> set_nth l i d = l.
Proof. intro H. apply set_nth_id. intros y Hy. congruence. Qed.

(* a statically known constant *)
Lemma const_noop st pos last s e : good st -> In (NConst s e) ns -> const_known e = true ->
  resolve_node names defs last (NConst s e) st pos = EOk (st, Resolved, pos).
Proof.
  intros Hg Hin Hk. destruct (Hg s e Hin Hk) as [v [c [Hv [Hs Hp]]]]. cbn [resolve_node].
  rewrite (closed_known_indep _ dummy_var e [] (asm_agree_pvar_dummy _ _ _) Hk). unfold cval in Hv. rewrite Hv.
  (* F77: a failed constraint is an error on the last pass; a known constant never fails *)
  try (replace (match v with VFailed => true | _ => false end) with false by (destruct v; try reflexivity; discriminate Hp);
       rewrite andb_false_r).
  rewrite (nth_error_nth' _ _ VUnknown _ Hs). rewrite value_identical_refl.
  rewrite (set_nth_same_entry _ _ _ Hs). rewrite state_eta. reflexivity.
Qed.

(* resolve_matches over statically known matches does not depend on the (good) state, the position or the mode *)
Lemma resolve_matches_indep pv pv' ms : pv_agree G pv pv' -> asm_agree pv pv' ->
  forallb (match_known true defs G) ms = true -> forallb (match_kinded defs) ms = true ->
  resolve_matches defs pv ms = resolve_matches defs pv' ms.
Proof.
  intros Hg Ha. unfold resolve_matches. induction ms as [|m ms IH]; intros Hk Hkd; [reflexivity|].
  cbn [forallb] in Hk, Hkd. apply andb_prop in Hk. destruct Hk as [Hk1 Hk2]. apply andb_prop in Hkd. destruct Hkd as [Hd1 Hd2].
  rewrite (match_known_indep defs G pv pv' Hg Ha m Hd1 Hk1). rewrite (IH Hk2 Hd2). reflexivity.
Qed.

Lemma freeze_instr_ok i d st pos cg b :
  good st -> forallb (match_known true defs G) (i_matches d) = true -> forallb (match_kinded defs) (i_matches d) = true ->
  smallest_encodings defs (pvar names st pos cg) cg (i_matches d) = EOk (Some [b]) ->
  frozen_instr_ok i {| i_matches := i_matches d; i_enc := b |}.
Proof.
  intros Hg Hk Hkd Hs st' pos' last src Hg' Hd. cbn [resolve_node]. rewrite Hd. cbn [i_matches i_enc].
  rewrite resolve_encoding_smallest.
  assert (E : smallest_encodings defs (pvar names st' pos' (negb last)) (negb last) (i_matches d) = EOk (Some [b])).
  { unfold smallest_encodings in *.
    rewrite (resolve_matches_indep _ (pvar names st pos cg) (i_matches d)
               (good_agree _ _ _ _ _ _ Hg' Hg) (asm_agree_pvar _ _ _ _ _ _) Hk Hkd).
    destruct (resolve_matches defs (pvar names st pos cg) (i_matches d)) as [rs|]; [|discriminate].
    destruct (flat_map (fun r => match r with MResolved b0 => [b0] | _ => [] end) rs) as [|b0 rest]; [discriminate|].
    cbv zeta in *.
    match type of Hs with (if _ && Nat.ltb 1 (length ?c) then _ else _) = _ => set (cands := c) in * end.
    match type of Hs with (if ?c then _ else _) = _ => destruct c; [discriminate|] end.
    assert (Hc : cands = [b]) by congruence. rewrite Hc. change (Nat.ltb 1 (length [b])) with false. rewrite andb_false_r. reflexivity. }
  rewrite E. cbn [hd_error]. rewrite bigint_identical_refl.
  rewrite (set_nth_same_entry _ _ _ Hd). rewrite state_eta. reflexivity.
Qed.

Hypothesis HKdata : forall w elems d e, In (NData w elems) ns -> In (d, e) elems -> flag (k_data K) d = true -> data_known e = true.

Lemma set_nth_same' (l : list bigint) d : set_nth l d (nth d l dflt0) = l.
Proof. apply set_nth_same. Qed.

Lemma freeze_data_ok d w e v b0 : data_known e = true ->
  (exists st pos cg c, eval code_ops (pvar names st pos cg) e [] = EOk (v, c)) -> expect_error_or_bigint v = EOk (VInt b0) ->
  elem_checked w b0 = true -> frozen_data_ok d w e (sliced w b0).
Proof.
  intros Hk [st [pos [cg [c He]]]] Hx Hc st' pos' last acc Hnth. cbn [data_go]. cbv zeta.
  rewrite (closed_known_indep _ (pvar names st pos cg) e [] (asm_agree_pvar _ _ _ _ _ _) Hk). rewrite He. rewrite Hx.
  assert (Hchk : (if last then match w with Some w0 => negb (size_or_min b0 >? Z.of_N w0) | None => match bsz b0 with Some _ => true | None => false end end else true) = true).
  { destruct last; [exact Hc|reflexivity]. }
  rewrite Hchk. cbn [negb]. fold (sliced w b0).
  rewrite (nth_error_nth' (s_data st') d (mk 0 (Some 0%N)) _ Hnth). rewrite bigint_identical_refl.
  rewrite (set_nth_same_entry _ _ _ Hnth). rewrite state_eta.
  rewrite (nth_error_nth' (s_data st') d (mk 0 (Some 0%N)) _ Hnth). reflexivity.
Qed.

Lemma good_same_syms st st' : s_sym st' = s_sym st -> good st -> good st'.
Proof. intros E Hg s e Hin Hk. rewrite E. exact (Hg s e Hin Hk). Qed.

Lemma good_step last n st pos st' r pos' : NoDup (sids ns) -> good st -> In n ns ->
  resolve_node names defs last n st pos = EOk (st', r, pos') -> good st'.
Proof.
  intros Hnd Hg Hin H.
  destruct n as [s|s e|i src|width elems|k e|k e|k e]; cbn [resolve_node] in H.
  - destruct (address_at pos (negb last)) as [a|]; [|discriminate].
    inversion H; subst; clear H. intros s0 e0 Hin0 Hk0. cbn [s_sym].
    assert (s0 <> s) by (intro; subst; eapply label_not_const; eauto).
    rewrite nth_error_set_nth_other by assumption. exact (Hg s0 e0 Hin0 Hk0).
  - destruct (eval code_ops (pvar names st pos (negb last)) e []) as [[v c]|] eqn:E; [|discriminate].
    try (match type of H with (if ?c then _ else _) = _ => destruct c; [discriminate H|] end).
    inversion H; subst; clear H. intros s0 e0 Hin0 Hk0. cbn [s_sym].
    destruct (Hg s0 e0 Hin0 Hk0) as [v0 [c0 [Hv [Hs Hp]]]].
    destruct (Nat.eq_dec s0 s) as [->|Hne].
    + assert (e0 = e) by (eapply const_unique; eauto). subst e0.
      rewrite (closed_known_indep _ dummy_var e [] (asm_agree_pvar_dummy _ _ _) Hk0) in E. unfold cval in Hv. rewrite Hv in E.
      inversion E; subst. exists v, c. split; [exact Hv|]. split; [|exact Hp].
      exact (nth_error_set_nth_same _ _ _ _ Hs).
    + rewrite nth_error_set_nth_other by assumption. exists v0, c0. auto.
  - destruct (nth_error (s_instr st) i) as [d|]; [|discriminate].
    destruct (resolve_encoding defs _ (negb last) (i_matches d)) as [chosen|]; [|discriminate].
    inversion H; subst; clear H. eapply good_same_syms; [|exact Hg]. reflexivity.
  - apply data_go_syms in H. eapply good_same_syms; eauto.
  - destruct (eval code_ops _ e []) as [[v c]|]; [|discriminate].
    destruct (expect_error_or_bigint v) as [v'|]; [|discriminate].
    match type of H with match ?x with EErr => _ | EOk _ => _ end = _ => destruct x as [z|]; [|discriminate] end.
    inversion H; subst; clear H. eapply good_same_syms; [|exact Hg]. reflexivity.
  - destruct (eval code_ops _ e []) as [[v c]|]; [|discriminate].
    match type of H with match ?x with EErr => _ | EOk _ => _ end = _ => destruct x as [z|]; [|discriminate] end.
    destruct (negb (z =? nth k (s_align st) 0)); [inversion H; subst; eapply good_same_syms; [|exact Hg]; reflexivity|].
    destruct (last && (z =? 0)); [discriminate|]. inversion H; subst. eapply good_same_syms; [|exact Hg]. reflexivity.
  - destruct (eval code_ops _ e []) as [[v c]|]; [|discriminate].
    destruct (expect_error_or_bigint v) as [v'|]; [|discriminate].
    cbv zeta in H.
    match type of H with (if negb ?c then _ else _) = _ => destruct (negb c); [inversion H; subst; eapply good_same_syms; [|exact Hg]; reflexivity|] end.
    match type of H with (if ?c then _ else _) = _ => destruct c; [discriminate|] end.
    match type of H with (if ?c then _ else _) = _ => destruct c; [discriminate|] end.
    inversion H; subst. eapply good_same_syms; [|exact Hg]. reflexivity.
Qed.

(* nodes other than instructions and data leave the encodings alone *)
Definition plain (n : node) : Prop := match n with NInstr _ _ | NData _ _ => False | _ => True end.
Lemma plain_keeps last n st pos st' r pos' : plain n ->
  resolve_node names defs last n st pos = EOk (st', r, pos') ->
  s_instr st' = s_instr st /\ s_data st' = s_data st /\ length (s_sym st') = length (s_sym st).
Proof.
  intros Hp H. destruct n as [s|s e|i src|width elems|k e|k e|k e]; try destruct Hp; cbn [resolve_node] in H.
  - destruct (address_at pos (negb last)) as [a|]; [|discriminate]. inversion H; subst; cbn [s_sym]; rewrite set_nth_length; auto.
  - destruct (eval code_ops _ e []) as [[v c]|]; [|discriminate].
    try (match type of H with (if ?c then _ else _) = _ => destruct c; [discriminate H|] end).
    inversion H; subst; cbn [s_sym]; rewrite set_nth_length; auto.
  - destruct (eval code_ops _ e []) as [[v c]|]; [|discriminate].
    destruct (expect_error_or_bigint v) as [v'|]; [|discriminate].
    match type of H with match ?x with EErr => _ | EOk _ => _ end = _ => destruct x as [z|]; [|discriminate] end.
    inversion H; subst; auto.
  - destruct (eval code_ops _ e []) as [[v c]|]; [|discriminate].
    match type of H with match ?x with EErr => _ | EOk _ => _ end = _ => destruct x as [z|]; [|discriminate] end.
    destruct (negb (z =? nth k (s_align st) 0)); [inversion H; subst; auto|].
    destruct (last && (z =? 0)); [discriminate|]. inversion H; subst; auto.
  - destruct (eval code_ops _ e []) as [[v c]|]; [|discriminate].
    destruct (expect_error_or_bigint v) as [v'|]; [|discriminate].
    cbv zeta in H.
    match type of H with (if negb ?c then _ else _) = _ => destruct (negb c); [inversion H; subst; auto|] end.
    match type of H with (if ?c then _ else _) = _ => destruct c; [discriminate|] end.
    match type of H with (if ?c then _ else _) = _ => destruct c; [discriminate|] end.
    inversion H; subst; auto.
Qed.

(* ---------- the invariant of the optimised run ---------- *)
Variable opt : bool.
Hypothesis Hok : data_static_ok ns.
Hypothesis Hcan : opt = true -> NoDup (dids ns) /\ NoDup (sids ns).

Definition sub_flags (x x' : sstate) : Prop :=
  (forall i, flag (fz_sym x) i = true -> flag (fz_sym x') i = true) /\
  (forall i, flag (fz_instr x) i = true -> flag (fz_instr x') i = true) /\
  (forall i, flag (fz_data x) i = true -> flag (fz_data x') i = true).
Definition same_flags (x x' : sstate) : Prop :=
  fz_sym x' = fz_sym x /\ fz_instr x' = fz_instr x /\ fz_data x' = fz_data x.
Lemma sub_flags_refl x : sub_flags x x. Proof. repeat split; auto. Qed.
Lemma sub_flags_trans x y z : sub_flags x y -> sub_flags y z -> sub_flags x z.
Proof. intros (a & b & c) (a' & b' & c'). repeat split; auto. Qed.
Lemma same_flags_refl x : same_flags x x. Proof. repeat split. Qed.
Lemma same_flags_trans x y z : same_flags x y -> same_flags y z -> same_flags x z.
Proof. intros (a & b & c) (a' & b' & c'). repeat split; congruence. Qed.

Lemma sub_flags_ws x st : sub_flags x (with_state x st). Proof. repeat split; auto. Qed.
Lemma same_flags_ws x st : same_flags x (with_state x st). Proof. repeat split. Qed.

Definition lens (x : sstate) : Prop :=
  length (fz_sym x) = length (s_sym (ss x)) /\ length (fz_instr x) = length (s_instr (ss x)) /\
  length (fz_data x) = length (s_data (ss x)).

Definition Inv (x : sstate) : Prop :=
  (opt = true -> good (ss x) /\ kinstr_ok (ss x)) /\
  (forall i, flag (fz_instr x) i = true -> opt = true /\ exists d, nth_error (s_instr (ss x)) i = Some d /\ frozen_instr_ok i d) /\
  (forall d, flag (fz_data x) d = true -> exists b, nth_error (s_data (ss x)) d = Some b /\
      forall w elems e, In (NData w elems) ns -> In (d, e) elems -> frozen_data_ok d w e b) /\
  (forall s, flag (fz_sym x) s = true -> opt = true /\ exists e, In (NConst s e) ns /\ const_known e = true) /\
  lens x.

Definition upd_data (st : state) (d : nat) (b : bigint) : state :=
  {| s_sym := s_sym st; s_instr := s_instr st; s_data := set_nth (s_data st) d b; s_res := s_res st; s_align := s_align st; s_addr := s_addr st |}.

Lemma inv_data_write x d b : Inv x -> flag (fz_data x) d = false -> Inv (with_state x (upd_data (ss x) d b)).
Proof.
  intros (I1 & I2 & I3 & I4 & I5) Fd. unfold Inv. cbn [ss with_state upd_data fz_sym fz_instr fz_data s_sym s_instr s_data].
  split; [|split; [|split; [|split]]].
  - intro Ho. destruct (I1 Ho) as [Hg Hk]. split; [eapply good_same_syms; [|exact Hg]; reflexivity|exact Hk].
  - exact I2.
  - intros d0 F0. destruct (I3 d0 F0) as [b0 [Hb Hall]]. exists b0. split; [|exact Hall].
    rewrite nth_error_set_nth_other; [exact Hb|]. intro; subst; congruence.
  - exact I4.
  - destruct I5 as (L1 & L2 & L3). unfold lens. cbn [ss with_state upd_data fz_sym fz_instr fz_data s_sym s_instr s_data]. rewrite ?set_nth_length. auto.
Qed.

Lemma inv_data_freeze x d w el e b : Inv x -> opt = true -> In (NData w el) ns -> In (d, e) el ->
  frozen_data_ok d w e b ->
  Inv {| ss := upd_data (ss x) d b; fz_sym := fz_sym x; fz_instr := fz_instr x; fz_data := set_nth (fz_data x) d true |}.
Proof.
  intros (I1 & I2 & I3 & I4 & I5) Ho Hn He Hf. unfold Inv. cbn [ss upd_data fz_sym fz_instr fz_data s_sym s_instr s_data].
  split; [|split; [|split; [|split]]].
  - intros _. destruct (I1 Ho) as [Hg Hk]. split; [eapply good_same_syms; [|exact Hg]; reflexivity|exact Hk].
  - exact I2.
  - intros d0 F0. destruct (Nat.eq_dec d0 d) as [->|Hne].
    + assert (Hlt : (d < length (s_data (ss x)))%nat).
      { rewrite <- (proj2 (proj2 I5)). unfold flag in F0. destruct (nth_error (set_nth (fz_data x) d true) d) eqn:E; [|discriminate].
        assert (nth_error (set_nth (fz_data x) d true) d <> None) by congruence.
        apply nth_error_Some in H. rewrite set_nth_length in H. exact H. }
      destruct (nth_error (s_data (ss x)) d) as [prev|] eqn:Ep; [|apply nth_error_None in Ep; lia].
      exists b. split; [exact (nth_error_set_nth_same _ _ _ _ Ep)|].
      intros w' el' e' Hn' He'. destruct (data_id_unique ns (proj1 (Hcan Ho)) _ _ _ _ _ _ _ Hn He Hn' He') as [-> ->]. exact Hf.
    + rewrite flag_set_other in F0 by exact Hne. destruct (I3 d0 F0) as [b0 [Hb Hall]]. exists b0. split; [|exact Hall].
      rewrite nth_error_set_nth_other by exact Hne. exact Hb.
  - exact I4.
  - destruct I5 as (L1 & L2 & L3). unfold lens. cbn [ss with_state upd_data fz_sym fz_instr fz_data s_sym s_instr s_data]. rewrite ?set_nth_length. auto.
Qed.

(* ---------- simulation, data elements ---------- *)
Variables first last : bool.

Definition post (x : sstate) (accF accT : resolution) (st' : state) (rF : resolution) (x' : sstate) (rT : resolution) : Prop :=
  ss x' = st' /\ le_res rF rT /\ (opt && first = false -> same_flags x x' /\ (accT = accF -> rT = rF)) /\ Inv x' /\ sub_flags x x'.

Lemma strict_ok_inv w e st pos cg v c v' : data_known e = true -> elem_strict_ok w e = true ->
  eval code_ops (pvar names st pos cg) e [] = EOk (v, c) -> expect_error_or_bigint v = EOk v' ->
  exists b, v' = VInt b /\ elem_checked w b = true.
Proof.
  intros Hk Hs He Hx. unfold elem_strict_ok in Hs.
  rewrite <- (closed_known_indep (pvar names st pos cg) dummy_var e [] (asm_agree_pvar_dummy _ _ _) Hk) in Hs.
  rewrite He, Hx in Hs. destruct v'; try discriminate. eauto.
Qed.

Lemma data_sim w all_el : In (NData w all_el) ns -> forall elems, incl elems all_el -> forall x pos accF accT,
  Inv x -> le_res accF accT ->
  match data_go names last w elems (ss x) pos accF with
  | EErr => data_goS names K opt first last w elems x pos accT = EErr
  | EOk (st', rF, pos') => exists x' rT, data_goS names K opt first last w elems x pos accT = EOk (x', rT, pos') /\
                                         post x accF accT st' rF x' rT
  end.
Proof.
  intro Hn. induction elems as [|[d e] r IH]; intros Hincl x pos accF accT HI Hle.
  - cbn [data_go data_goS]. exists x, accT. split; [reflexivity|]. unfold post.
    split; [reflexivity|]. split; [exact Hle|]. split; [intros _; split; [apply same_flags_refl|auto]|]. split; [exact HI|apply sub_flags_refl].
  - assert (Hincl' : incl r all_el) by (intros y Hy; apply Hincl; now right).
    assert (Hde : In (d, e) all_el) by (apply Hincl; now left).
    (* continuation: after this element both runs are at (x1, pos1) with accumulators accF1 / accT1 *)
    assert (Cont : forall x1 pos1 accF1 accT1, Inv x1 -> le_res accF1 accT1 -> sub_flags x x1 ->
               (opt && first = false -> same_flags x x1 /\ (accT = accF -> accT1 = accF1)) ->
               match data_go names last w r (ss x1) pos1 accF1 with
               | EErr => data_goS names K opt first last w r x1 pos1 accT1 = EErr
               | EOk (st', rF, pos') => exists x' rT, data_goS names K opt first last w r x1 pos1 accT1 = EOk (x', rT, pos') /\
                                                      post x accF accT st' rF x' rT
               end).
    { intros x1 pos1 accF1 accT1 HI1 Hle1 Hsub1 Hsame1. specialize (IH Hincl' x1 pos1 accF1 accT1 HI1 Hle1).
      destruct (data_go names last w r (ss x1) pos1 accF1) as [[[st' rF] pos']|]; [|exact IH].
      destruct IH as (x' & rT & HT & Hss & Hr & Hsm & HI' & Hsub'). exists x', rT. split; [exact HT|].
      unfold post. split; [exact Hss|]. split; [exact Hr|]. split; [|split; [exact HI'|eapply sub_flags_trans; eauto]].
      intro Hof. destruct (Hsame1 Hof) as [Hs1 Ha1]. destruct (Hsm Hof) as [Hs2 Ha2]. split; [eapply same_flags_trans; eauto|auto]. }
    rewrite data_go_cons. cbn [data_goS]. cbv zeta.
    destruct (flag (fz_data x) d) eqn:Fd.
    + (* flagged: skipped by the one, recomputed to the stored value by the other *)
      pose proof HI as (I1 & I2 & I3 & I4 & I5). destruct (I3 d Fd) as [b [Hb Hall]].
      rewrite (Hall w all_el e Hn Hde (ss x) pos last accF Hb).
      rewrite (nth_error_nth' (s_data (ss x)) d (mk 0 (Some 0%N)) _ Hb).
      apply Cont; [exact HI|apply le_merge; [exact Hle|apply le_res_refl]|apply sub_flags_refl|].
      intros _. split; [apply same_flags_refl|congruence].
    + cbn [data_go]. cbv zeta.
      destruct (eval code_ops (pvar names (ss x) pos (negb last)) e []) as [[v c]|] eqn:Ev; [|reflexivity].
      destruct (expect_error_or_bigint v) as [v'|] eqn:Ex; [|reflexivity].
      destruct (flag (k_data K) d) eqn:Kd.
      * (* statically known element *)
        pose proof (HKdata w all_el d e Hn Hde Kd) as Hkn.
        destruct (strict_ok_inv w e _ _ _ _ _ _ Hkn (Hok w all_el d e Hn Hde Hkn) Ev Ex) as [b [-> Hchk]].
        rewrite orb_true_r. unfold elem_checked in Hchk. rewrite Hchk.
        replace (if last then true else true) with true by (destruct last; reflexivity). cbn [negb].
        fold (sliced w b). fold (upd_data (ss x) d (sliced w b)).
        destruct (opt && first) eqn:Hof; cbn [andb].
        -- destruct (bsz (sliced w b)) eqn:Bs.
           ++ apply andb_prop in Hof. destruct Hof as [Ho Hf].
              apply (Cont {| ss := upd_data (ss x) d (sliced w b); fz_sym := fz_sym x; fz_instr := fz_instr x; fz_data := set_nth (fz_data x) d true |}).
              ** eapply inv_data_freeze; eauto. eapply freeze_data_ok; eauto.
              ** apply le_merge; [exact Hle|]. intros _. reflexivity.
              ** repeat split; cbn [fz_sym fz_instr fz_data]; auto. intros i Hi. apply flag_set_mono. exact Hi.
              ** intro Hc. try rewrite Ho in Hc. try rewrite Hf in Hc. discriminate Hc.
           ++ apply (Cont (with_state x (upd_data (ss x) d (sliced w b)))).
              ** apply inv_data_write; assumption.
              ** apply le_merge; [exact Hle|apply le_res_refl].
              ** apply sub_flags_ws.
              ** intros _. split; [apply same_flags_ws|congruence].
        -- apply (Cont (with_state x (upd_data (ss x) d (sliced w b)))).
           ** apply inv_data_write; assumption.
           ** apply le_merge; [exact Hle|apply le_res_refl].
           ** apply sub_flags_ws.
           ** intros _. split; [apply same_flags_ws|congruence].
      * (* not statically known: the same computation *)
        rewrite orb_false_r.
        destruct (match v' with VInt b => EOk (Some b) | _ => if last then EErr else EOk None end) as [menc|]; [|reflexivity].
        match goal with |- context [if negb ?c then _ else _] => destruct c; cbn [negb]; [|reflexivity] end.
        destruct menc as [b|].
        -- rewrite !andb_false_r. cbn [andb]. fold (sliced w b). fold (upd_data (ss x) d (sliced w b)).
           apply (Cont (with_state x (upd_data (ss x) d (sliced w b)))).
           ** apply inv_data_write; assumption.
           ** apply le_merge; [exact Hle|apply le_res_refl].
           ** apply sub_flags_ws.
           ** intros _. split; [apply same_flags_ws|congruence].
        -- rewrite with_state_ss. apply Cont; [exact HI|apply le_merge; [exact Hle|apply le_res_refl]|apply sub_flags_refl|].
           intros _. split; [apply same_flags_refl|congruence].
Qed.

(* ---------- simulation, one node ---------- *)
Definition upd_instr (st : state) (i : nat) (d : instr_def) : state :=
  {| s_sym := s_sym st; s_instr := set_nth (s_instr st) i d; s_data := s_data st; s_res := s_res st; s_align := s_align st; s_addr := s_addr st |}.

Lemma kinstr_upd st i d d' : kinstr_ok st -> nth_error (s_instr st) i = Some d -> i_matches d' = i_matches d ->
  kinstr_ok (upd_instr st i d').
Proof.
  intros Hk Hd Hm j dj Hj Fj. cbn [upd_instr s_instr] in Hj. destruct (Nat.eq_dec j i) as [->|Hne].
  - rewrite (nth_error_set_nth_same _ _ _ _ Hd) in Hj. inversion Hj; subst dj. rewrite Hm. exact (Hk i d Hd Fj).
  - rewrite nth_error_set_nth_other in Hj by exact Hne. exact (Hk j dj Hj Fj).
Qed.

Lemma inv_instr_write x i d d' : Inv x -> flag (fz_instr x) i = false -> nth_error (s_instr (ss x)) i = Some d ->
  i_matches d' = i_matches d -> Inv (with_state x (upd_instr (ss x) i d')).
Proof.
  intros (I1 & I2 & I3 & I4 & I5) Fi Hd Hm. unfold Inv. cbn [ss with_state upd_instr fz_sym fz_instr fz_data s_sym s_instr s_data].
  split; [|split; [|split; [|split]]].
  - intro Ho. destruct (I1 Ho) as [Hg Hk]. split; [eapply good_same_syms; [|exact Hg]; reflexivity|].
    exact (kinstr_upd _ _ _ _ Hk Hd Hm).
  - intros j Fj. destruct (I2 j Fj) as [Ho [dj [Hj Hokj]]]. split; [exact Ho|]. exists dj. split; [|exact Hokj].
    rewrite nth_error_set_nth_other; [exact Hj|]. intro; subst; congruence.
  - exact I3.
  - exact I4.
  - destruct I5 as (L1 & L2 & L3). unfold lens. cbn [ss with_state upd_data upd_instr fz_sym fz_instr fz_data s_sym s_instr s_data]. rewrite ?set_nth_length. auto.
Qed.

Lemma inv_instr_freeze x i d d' : Inv x -> opt = true -> nth_error (s_instr (ss x)) i = Some d ->
  i_matches d' = i_matches d -> frozen_instr_ok i d' ->
  Inv {| ss := upd_instr (ss x) i d'; fz_sym := fz_sym x; fz_instr := set_nth (fz_instr x) i true; fz_data := fz_data x |}.
Proof.
  intros (I1 & I2 & I3 & I4 & I5) Ho Hd Hm Hf. unfold Inv. cbn [ss upd_instr fz_sym fz_instr fz_data s_sym s_instr s_data].
  split; [|split; [|split; [|split]]].
  - intros _. destruct (I1 Ho) as [Hg Hk]. split; [eapply good_same_syms; [|exact Hg]; reflexivity|].
    exact (kinstr_upd _ _ _ _ Hk Hd Hm).
  - intros j Fj. split; [exact Ho|]. destruct (Nat.eq_dec j i) as [->|Hne].
    + exists d'. split; [exact (nth_error_set_nth_same _ _ _ _ Hd)|exact Hf].
    + rewrite flag_set_other in Fj by exact Hne. destruct (I2 j Fj) as [_ [dj [Hj Hokj]]]. exists dj. split; [|exact Hokj].
      rewrite nth_error_set_nth_other by exact Hne. exact Hj.
  - exact I3.
  - exact I4.
  - destruct I5 as (L1 & L2 & L3). unfold lens. cbn [ss with_state upd_data upd_instr fz_sym fz_instr fz_data s_sym s_instr s_data]. rewrite ?set_nth_length. auto.
Qed.

Lemma kinstr_same st st' : s_instr st' = s_instr st -> kinstr_ok st -> kinstr_ok st'.
Proof. intros E Hk i d Hd. rewrite E in Hd. exact (Hk i d Hd). Qed.

Lemma inv_plain n x pos st' r pos' : plain n -> In n ns -> Inv x ->
  resolve_node names defs last n (ss x) pos = EOk (st', r, pos') -> Inv (with_state x st').
Proof.
  intros Hp Hin (I1 & I2 & I3 & I4 & I5) H. destruct (plain_keeps _ _ _ _ _ _ _ Hp H) as (Ei & Ed & El).
  unfold Inv, lens. cbn [ss with_state fz_sym fz_instr fz_data]. rewrite Ei, Ed, El.
  split; [|split; [|split; [|split]]]; auto.
  intro Ho. destruct (I1 Ho) as [Hg Hk]. split.
  - eapply good_step; [exact (proj2 (Hcan Ho))|exact Hg|exact Hin|exact H].
  - eapply kinstr_same; eauto.
Qed.

Lemma inv_sym_flag y s : Inv y -> opt = true -> (exists e, In (NConst s e) ns /\ const_known e = true) ->
  Inv {| ss := ss y; fz_sym := set_nth (fz_sym y) s true; fz_instr := fz_instr y; fz_data := fz_data y |}.
Proof.
  intros (I1 & I2 & I3 & I4 & I5) Ho He. unfold Inv, lens. cbn [ss fz_sym fz_instr fz_data]. rewrite set_nth_length.
  split; [|split; [|split; [|split]]]; auto.
  intros s0 F0. destruct (flag_true_set _ _ _ F0) as [->|F]; [split; assumption|exact (I4 s0 F)].
Qed.

Definition npost (x : sstate) (st' : state) (rF : resolution) (x' : sstate) (rT : resolution) : Prop :=
  ss x' = st' /\ le_res rF rT /\ (opt && first = false -> same_flags x x' /\ rT = rF) /\ Inv x' /\ sub_flags x x'.

Lemma npost_same x st' r : Inv (with_state x st') -> npost x st' r (with_state x st') r.
Proof.
  intro HI. unfold npost. split; [reflexivity|]. split; [apply le_res_refl|]. split; [intros _; split; [apply same_flags_ws|reflexivity]|].
  split; [exact HI|apply sub_flags_ws].
Qed.

Lemma node_sim n x pos : In n ns -> Inv x ->
  match resolve_node names defs last n (ss x) pos with
  | EErr => resolve_nodeS names defs K opt first last n x pos = EErr
  | EOk (st', rF, pos') => exists x' rT, resolve_nodeS names defs K opt first last n x pos = EOk (x', rT, pos') /\ npost x st' rF x' rT
  end.
Proof.
  intros Hin HI.
  assert (Plain : plain n ->
    (resolve_nodeS names defs K opt first last n x pos =
       match resolve_node names defs last n (ss x) pos with EErr => EErr | EOk (st', res, pos') => EOk (with_state x st', res, pos') end) ->
    match resolve_node names defs last n (ss x) pos with
    | EErr => resolve_nodeS names defs K opt first last n x pos = EErr
    | EOk (st', rF, pos') => exists x' rT, resolve_nodeS names defs K opt first last n x pos = EOk (x', rT, pos') /\ npost x st' rF x' rT
    end).
  { intros Hp E. rewrite E. destruct (resolve_node names defs last n (ss x) pos) as [[[st' r] p']|] eqn:F; [|reflexivity].
    exists (with_state x st'), r. split; [reflexivity|]. apply npost_same. eapply inv_plain; eauto. }
  destruct n as [s|s e|i src|width elems|k e|k e|k e].
  - apply Plain; [exact I|reflexivity].
  - (* constant *)
    cbn [resolve_nodeS]. destruct (flag (fz_sym x) s) eqn:Fs.
    + pose proof HI as (I1 & I2 & I3 & I4 & I5). destruct (I4 s Fs) as [Ho [e' [Hin' Hk']]].
      assert (e' = e) by (eapply const_unique; [exact (proj2 (Hcan Ho))|exact Hin'|exact Hin]). subst e'.
      rewrite (const_noop (ss x) pos last s e (proj1 (I1 Ho)) Hin Hk').
      exists x, Resolved. split; [reflexivity|]. unfold npost. split; [reflexivity|]. split; [apply le_res_refl|].
      split; [intros _; split; [apply same_flags_refl|reflexivity]|]. split; [exact HI|apply sub_flags_refl].
    + destruct (resolve_node names defs last (NConst s e) (ss x) pos) as [[[st' r] p']|] eqn:F; [|reflexivity].
      assert (HI' : Inv (with_state x st')) by (eapply inv_plain; eauto; exact I).
      destruct (opt && first && flag (k_sym K) s) eqn:C.
      * apply andb_prop in C. destruct C as [C Ck]. pose proof C as Cof. apply andb_prop in C. destruct C as [Ho Hf].
        eexists. exists Resolved. split; [reflexivity|]. unfold npost. cbn [ss]. split; [reflexivity|]. split; [intros _; reflexivity|].
        split; [intro Hc; rewrite Cof in Hc; discriminate Hc|]. split.
        -- apply (inv_sym_flag (with_state x st') s HI' Ho). apply HKsym. unfold flag in Ck.
           destruct (nth_error (k_sym K) s) as [b|]; [subst b; reflexivity|discriminate].
        -- repeat split; cbn [fz_sym fz_instr fz_data]; auto. intros j Hj. apply flag_set_mono. exact Hj.
      * exists (with_state x st'), r. split; [reflexivity|]. apply npost_same. exact HI'.
  - (* instruction *)
    cbn [resolve_nodeS]. destruct (nth_error (s_instr (ss x)) i) as [d|] eqn:Hd; [|cbn [resolve_node]; rewrite Hd; reflexivity].
    destruct (flag (fz_instr x) i) eqn:Fi.
    + pose proof HI as (I1 & I2 & I3 & I4 & I5). destruct (I2 i Fi) as [Ho [d0 [Hd0 Hokd]]].
      rewrite Hd in Hd0. inversion Hd0; subst d0.
      rewrite (Hokd (ss x) pos last src (proj1 (I1 Ho)) Hd).
      exists x, Resolved. split; [reflexivity|]. unfold npost. split; [reflexivity|]. split; [apply le_res_refl|].
      split; [intros _; split; [apply same_flags_refl|reflexivity]|]. split; [exact HI|apply sub_flags_refl].
    + cbn [resolve_node]. rewrite Hd. rewrite resolve_encoding_smallest.
      destruct (smallest_encodings defs (pvar names (ss x) pos (negb last)) (negb last) (i_matches d)) as [encs|] eqn:Es; [|reflexivity].
      set (chosen := match encs with Some c => hd_error c | None => None end).
      assert (Ech : match encs with None => EOk None | Some c => EOk (hd_error c) end = EOk chosen) by (destruct encs; reflexivity).
      rewrite Ech. clear Ech. cbv zeta.
      set (d' := match chosen with Some b => {| i_matches := i_matches d; i_enc := b |} | None => d end).
      assert (Hm : i_matches d' = i_matches d) by (unfold d'; destruct chosen; reflexivity).
      fold (upd_instr (ss x) i d').
      match goal with |- context [if ?c then EOk ({| ss := _; fz_sym := _; fz_instr := set_nth _ _ _; fz_data := _ |}, _, _) else _] => destruct c eqn:Fz end.
      * (* flagged now *)
        destruct chosen as [b|] eqn:Hch; [|discriminate].
        apply andb_prop in Fz. destruct Fz as [Fz Hsingle]. apply andb_prop in Fz. destruct Fz as [Cof Ki].
        pose proof Cof as Cof'. apply andb_prop in Cof. destruct Cof as [Ho Hf].
        destruct encs as [c|]; [|discriminate]. apply Nat.eqb_eq in Hsingle.
        assert (c = [b]).
        { destruct c as [|b1 [|b2 c]]; cbn in Hsingle; try discriminate. unfold chosen in Hch. cbn in Hch. congruence. }
        subst c.
        pose proof HI as (I1 & I2 & I3 & I4 & I5). destruct (I1 Ho) as [Hg Hk]. destruct (Hk i d Hd Ki) as [Hkn Hkd].
        eexists. exists Resolved. split; [reflexivity|]. unfold npost. cbn [ss]. split; [reflexivity|]. split; [intros _; reflexivity|].
        split; [intro Hc; rewrite Cof' in Hc; discriminate Hc|]. split.
        -- eapply inv_instr_freeze; eauto. unfold d'. eapply freeze_instr_ok; eauto.
        -- repeat split; cbn [fz_sym fz_instr fz_data]; auto. intros j Hj. apply flag_set_mono. exact Hj.
      * eexists (with_state x (upd_instr (ss x) i d')), _. split; [reflexivity|]. apply npost_same.
        eapply inv_instr_write; eauto.
  - (* data *)
    cbn [resolve_node resolve_nodeS].
    pose proof (data_sim width elems Hin elems (fun y Hy => Hy) x pos Resolved Resolved HI (le_res_refl _)) as H.
    destruct (data_go names last width elems (ss x) pos Resolved) as [[[st' rF] p']|]; [|exact H].
    destruct H as (x' & rT & HT & Hss & Hr & Hsm & HI' & Hsub). exists x', rT. split; [exact HT|].
    unfold npost. split; [exact Hss|]. split; [exact Hr|]. split; [|split; assumption].
    intro Hof. destruct (Hsm Hof) as [Hs Ha]. split; [exact Hs|apply Ha; reflexivity].
  - apply Plain; [exact I|reflexivity].
  - apply Plain; [exact I|reflexivity].
  - apply Plain; [exact I|reflexivity].
Qed.

(* ---------- simulation, one pass ---------- *)
Lemma pass_sim : forall l, incl l ns -> forall x pos accF accT, Inv x -> le_res accF accT ->
  match pass names defs last l (ss x) pos accF with
  | EErr => passS names defs K opt first last l x pos accT = EErr
  | EOk (st', rF) => exists x' rT, passS names defs K opt first last l x pos accT = EOk (x', rT) /\
                                   post x accF accT st' rF x' rT
  end.
Proof.
  induction l as [|n l IH]; intros Hincl x pos accF accT HI Hle.
  - cbn [pass passS]. exists x, accT. split; [reflexivity|]. unfold post.
    split; [reflexivity|]. split; [exact Hle|]. split; [intros _; split; [apply same_flags_refl|auto]|]. split; [exact HI|apply sub_flags_refl].
  - cbn [pass passS]. pose proof (node_sim n x pos (Hincl n (or_introl eq_refl)) HI) as Hn.
    destruct (resolve_node names defs last n (ss x) pos) as [[[st1 r1] p1]|]; [|rewrite Hn; reflexivity].
    destruct Hn as (x1 & rT1 & HT1 & Hss1 & Hr1 & Hsm1 & HI1 & Hsub1). rewrite HT1. subst st1.
    assert (Hincl' : incl l ns) by (intros y Hy; apply Hincl; now right).
    specialize (IH Hincl' x1 p1 (merge accF r1) (merge accT rT1) HI1 (le_merge _ _ _ _ Hle Hr1)).
    destruct (pass names defs last l (ss x1) p1 (merge accF r1)) as [[st' rF]|]; [|exact IH].
    destruct IH as (x' & rT & HT & Hss & Hr & Hsm & HI' & Hsub). exists x', rT. split; [exact HT|].
    unfold post. split; [exact Hss|]. split; [exact Hr|]. split; [|split; [exact HI'|eapply sub_flags_trans; eauto]].
    intro Hof. destruct (Hsm1 Hof) as [Hs1 Ha1]. destruct (Hsm Hof) as [Hs2 Ha2].
    split; [eapply same_flags_trans; eauto|]. intro Hacc. apply Ha2. subst accT. rewrite Ha1. reflexivity.
Qed.

End Sim.
