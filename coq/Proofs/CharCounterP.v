(* Lemmas about the model of util/char_counter.rs and the location part of diagn/report.rs (property C13). *)
From Coq Require Import NArith List Bool Lia ZifyBool.
From CA Require Import Model.CharCounter Spec.LineCol.
Import ListNotations.
Open Scope N_scope.

(* ------------------------------------------------------------------ text basics *)
Lemma utf8_len_pos c : 1 <= utf8_len c.
Proof. unfold utf8_len. repeat match goal with |- context[if ?b then _ else _] => destruct b end; lia. Qed.

Lemma utf8_len_le4 c : utf8_len c <= 4.
Proof. unfold utf8_len. repeat match goal with |- context[if ?b then _ else _] => destruct b end; lia. Qed.

Lemma utf8_len_NL : utf8_len NL = 1.
Proof. reflexivity. Qed.

Lemma byte_len_cons c r : byte_len (c :: r) = utf8_len c + byte_len r.
Proof. reflexivity. Qed.

Lemma byte_len_app a b : byte_len (a ++ b) = byte_len a + byte_len b.
Proof. induction a as [|c a IH]; [reflexivity|]. rewrite <- app_comm_cons, !byte_len_cons, IH. lia. Qed.

Lemma length_le_byte_len t : N.of_nat (length t) <= byte_len t.
Proof.
  induction t as [|c t IH]; [reflexivity|]. rewrite byte_len_cons. pose proof (utf8_len_pos c).
  cbn [length]. lia.
Qed.

(* ------------------------------------------------------------------ split_at / boundaries *)
Lemma split_at_eq t i :
  split_at t i =
  if i =? 0 then Some ([], t)
  else match t with
       | [] => None
       | c :: r => if i <? utf8_len c then None
                   else match split_at r (i - utf8_len c) with Some (a, b) => Some (c :: a, b) | None => None end
       end.
Proof. destruct t; reflexivity. Qed.

Lemma split_at_app p s : split_at (p ++ s) (byte_len p) = Some (p, s).
Proof.
  induction p as [|c p IH]; rewrite split_at_eq.
  - reflexivity.
  - rewrite <- app_comm_cons, byte_len_cons. pose proof (utf8_len_pos c).
    destruct (utf8_len c + byte_len p =? 0) eqn:E; [lia|].
    destruct (utf8_len c + byte_len p <? utf8_len c) eqn:E2; [lia|].
    replace (utf8_len c + byte_len p - utf8_len c) with (byte_len p) by lia.
    rewrite IH. reflexivity.
Qed.

Lemma split_at_some t : forall i a b, split_at t i = Some (a, b) -> t = a ++ b /\ byte_len a = i.
Proof.
  induction t as [|c t IH]; intros i a b H; rewrite split_at_eq in H.
  - destruct (i =? 0) eqn:E; [|discriminate]. inversion H; subst. split; [reflexivity|]. cbn. lia.
  - destruct (i =? 0) eqn:E.
    + inversion H; subst. split; [reflexivity|]. cbn. lia.
    + destruct (i <? utf8_len c) eqn:E2; [discriminate|].
      destruct (split_at t (i - utf8_len c)) as [[a' b']|] eqn:E3; [|discriminate].
      inversion H; subst. apply IH in E3. destruct E3 as [-> E4]. split; [reflexivity|].
      rewrite byte_len_cons. lia.
Qed.

Lemma boundary_iff t i : on_boundary t i <-> is_char_boundary t i = true.
Proof.
  unfold on_boundary, is_char_boundary. split.
  - intros (p & s & -> & <-). rewrite split_at_app. reflexivity.
  - destruct (split_at t i) as [[a b]|] eqn:E; [|discriminate]. intros _.
    apply split_at_some in E. exists a, b. exact E.
Qed.

Lemma prefix_at_eq t i :
  prefix_at t i =
  if i =? 0 then Some []
  else match t with
       | [] => None
       | c :: r => if i <? utf8_len c then None
                   else match prefix_at r (i - utf8_len c) with Some a => Some (c :: a) | None => None end
       end.
Proof. destruct t; reflexivity. Qed.

Lemma prefix_at_split t : forall i, prefix_at t i = match split_at t i with Some (a, _) => Some a | None => None end.
Proof.
  induction t as [|c t IH]; intro i; rewrite prefix_at_eq, split_at_eq.
  - destruct (i =? 0); reflexivity.
  - destruct (i =? 0); [reflexivity|]. destruct (i <? utf8_len c); [reflexivity|].
    rewrite IH. destruct (split_at t (i - utf8_len c)) as [[a b]|]; reflexivity.
Qed.

Lemma prefix_at_app p s : prefix_at (p ++ s) (byte_len p) = Some p.
Proof. rewrite prefix_at_split, split_at_app. reflexivity. Qed.

Lemma prefix_at_none t i : prefix_at t i = None <-> ~ on_boundary t i.
Proof.
  rewrite boundary_iff, prefix_at_split. unfold is_char_boundary.
  destruct (split_at t i) as [[a b]|]; split; intro H; try discriminate; try reflexivity.
  exfalso. apply H. reflexivity.
Qed.

(* ------------------------------------------------------------------ str::get *)
Lemma get_excerpt_mid a x c :
  get_excerpt (a ++ x ++ c) (byte_len a) (byte_len a + byte_len x) = Ok x.
Proof.
  unfold get_excerpt. destruct (byte_len a + byte_len x <? byte_len a) eqn:E; [lia|].
  rewrite split_at_app. replace (byte_len a + byte_len x - byte_len a) with (byte_len x) by lia.
  rewrite split_at_app. reflexivity.
Qed.

Lemma get_excerpt_ok t s e x : get_excerpt t s e = Ok x -> s <= e /\ on_boundary t s /\ on_boundary t e.
Proof.
  unfold get_excerpt. destruct (e <? s) eqn:E; [discriminate|].
  destruct (split_at t s) as [[a rest]|] eqn:E1; [|discriminate].
  destruct (split_at rest (e - s)) as [[y z]|] eqn:E2; [|discriminate].
  intros _. apply split_at_some in E1. apply split_at_some in E2. destruct E1 as [-> E1], E2 as [-> E2].
  split; [lia|]. split.
  - exists a, (y ++ z). split; [reflexivity|exact E1].
  - exists (a ++ y), z. split; [rewrite app_assoc; reflexivity|]. rewrite byte_len_app. lia.
Qed.

(* ------------------------------------------------------------------ line / column *)
Definition has_nl (p : text) : bool := existsb (N.eqb NL) p.

Lemma has_nl_cons c r : has_nl (c :: r) = (NL =? c) || has_nl r.
Proof. reflexivity. Qed.

Lemma after_last_nl_cons c r :
  after_last_nl (c :: r) = if has_nl r then after_last_nl r else if c =? NL then r else c :: r.
Proof. reflexivity. Qed.

Lemma no_nl_after_last p : has_nl p = false -> after_last_nl p = p.
Proof.
  induction p as [|c p IH]; [reflexivity|]. rewrite has_nl_cons, after_last_nl_cons.
  intro H. apply orb_false_iff in H. destruct H as [H1 H2]. rewrite H2.
  rewrite N.eqb_sym, H1. reflexivity.
Qed.

Lemma has_nl_false_iff p : has_nl p = false <-> ~ In NL p.
Proof.
  unfold has_nl. split.
  - intros H Hin. assert (existsb (N.eqb NL) p = true) as E.
    { apply existsb_exists. exists NL. split; [exact Hin|apply N.eqb_refl]. }
    congruence.
  - intro H. destruct (existsb (N.eqb NL) p) eqn:E; [|reflexivity].
    apply existsb_exists in E. destruct E as (x & Hx & Ex). apply N.eqb_eq in Ex. subst x. contradiction.
Qed.

Lemma count_nl_line_of p : count_nl p = line_of p.
Proof.
  unfold line_of. induction p as [|c p IH]; [reflexivity|].
  cbn [count_nl count_occ]. destruct (N.eq_dec c NL) as [->|Hne].
  - rewrite N.eqb_refl, IH. lia.
  - destruct (c =? NL) eqn:E; [apply N.eqb_eq in E; contradiction|]. exact IH.
Qed.

Lemma lc_loop_eq index off t line col :
  lc_loop index off t line col =
  match t with
  | [] => (line, col)
  | c :: r => if index <=? off then (line, col)
              else if c =? NL then lc_loop index (off + utf8_len c) r (line + 1) 0
              else lc_loop index (off + utf8_len c) r line (col + 1)
  end.
Proof. destruct t; reflexivity. Qed.

Lemma lc_loop_prefix p : forall s off line col,
  lc_loop (off + byte_len p) off (p ++ s) line col =
  (line + count_nl p, if has_nl p then col_of p else col + N.of_nat (length p)).
Proof.
  induction p as [|c p IH]; intros s off line col.
  - cbn [app byte_len count_nl has_nl existsb length]. rewrite lc_loop_eq.
    destruct s; [f_equal; lia|]. destruct (off + 0 <=? off) eqn:E; [f_equal; lia|lia].
  - rewrite <- app_comm_cons, lc_loop_eq, byte_len_cons. pose proof (utf8_len_pos c).
    destruct (off + (utf8_len c + byte_len p) <=? off) eqn:E; [lia|].
    replace (off + (utf8_len c + byte_len p)) with ((off + utf8_len c) + byte_len p) by lia.
    rewrite has_nl_cons. unfold col_of. rewrite after_last_nl_cons. fold (col_of p).
    cbn [count_nl length]. destruct (c =? NL) eqn:Ec.
    + rewrite IH. rewrite (N.eqb_sym NL c), Ec. cbn [orb].
      destruct (has_nl p); f_equal; lia.
    + rewrite IH. rewrite (N.eqb_sym NL c), Ec. cbn [orb].
      destruct (has_nl p); f_equal; lia.
Qed.

(* the model returns the specified line and column at every character boundary *)
Theorem linecol_correct p s :
  get_line_column_at_index (p ++ s) (byte_len p) = (line_of p, col_of p).
Proof.
  unfold get_line_column_at_index. pose proof (lc_loop_prefix p s 0 0 0) as H.
  rewrite N.add_0_l in H. rewrite H. rewrite count_nl_line_of. f_equal.
  destruct (has_nl p) eqn:E; [reflexivity|]. unfold col_of. rewrite (no_nl_after_last p E). lia.
Qed.

Theorem linecol_exec t i : on_boundary t i -> spec_linecol t i = Some (get_line_column_at_index t i).
Proof.
  intros (p & s & -> & <-). unfold spec_linecol. rewrite prefix_at_app, linecol_correct. reflexivity.
Qed.

(* the counters never exceed the number of characters, hence the byte length: no usize overflow *)
Lemma lc_loop_bounded t : forall index off line col,
  let '(l, c) := lc_loop index off t line col in l + c <= line + col + N.of_nat (length t).
Proof.
  induction t as [|x t IH]; intros index off line col; rewrite lc_loop_eq.
  - cbn [length]. lia.
  - destruct (index <=? off); [cbn [length]; lia|].
    destruct (x =? NL).
    + specialize (IH index (off + utf8_len x) (line + 1) 0).
      destruct (lc_loop index (off + utf8_len x) t (line + 1) 0) as [l c]. cbn [length]. lia.
    + specialize (IH index (off + utf8_len x) line (col + 1)).
      destruct (lc_loop index (off + utf8_len x) t line (col + 1)) as [l c]. cbn [length]. lia.
Qed.

Theorem linecol_bounded t i :
  let '(l, c) := get_line_column_at_index t i in l + c <= byte_len t.
Proof.
  unfold get_line_column_at_index. pose proof (lc_loop_bounded t i 0 0 0) as H.
  destruct (lc_loop i 0 t 0 0) as [l c]. pose proof (length_le_byte_len t). lia.
Qed.

(* the executable "last line" is the declarative one *)
Lemma after_last_nl_spec p : is_last_line p (after_last_nl p).
Proof.
  induction p as [|c p IH].
  - exists []. repeat split; [intros []|left; reflexivity].
  - rewrite after_last_nl_cons. destruct (has_nl p) eqn:E.
    + destruct IH as (a & Hp & Hn & Ha). exists (c :: a). split; [cbn; f_equal; exact Hp|]. split; [exact Hn|].
      right. destruct Ha as [->|(a' & ->)].
      * exfalso. cbn in Hp. apply has_nl_false_iff in Hn. rewrite <- Hp in Hn. congruence.
      * exists (c :: a'). reflexivity.
    + apply has_nl_false_iff in E. destruct (c =? NL) eqn:Ec.
      * apply N.eqb_eq in Ec. subst c. exists [NL]. split; [reflexivity|]. split; [exact E|]. right. exists []. reflexivity.
      * exists []. split; [reflexivity|]. split; [|left; reflexivity].
        intros [H|H]; [apply N.eqb_neq in Ec; congruence|contradiction].
Qed.

Lemma after_last_nl_nl a b : ~ In NL b -> after_last_nl (a ++ NL :: b) = b.
Proof.
  intro Hb. induction a as [|c a IH].
  - cbn [app]. rewrite after_last_nl_cons. apply has_nl_false_iff in Hb. rewrite Hb. reflexivity.
  - rewrite <- app_comm_cons, after_last_nl_cons.
    assert (has_nl (a ++ NL :: b) = true) as E.
    { unfold has_nl. apply existsb_exists. exists NL. split; [apply in_or_app; right; left; reflexivity|apply N.eqb_refl]. }
    rewrite E. exact IH.
Qed.

Lemma last_line_unique p b : is_last_line p b -> b = after_last_nl p.
Proof.
  intros (a & -> & Hn & [->|(a' & ->)]).
  - cbn [app]. symmetry. apply no_nl_after_last. apply has_nl_false_iff. exact Hn.
  - rewrite <- app_assoc. cbn [app]. symmetry. apply after_last_nl_nl. exact Hn.
Qed.

(* ------------------------------------------------------------------ lines *)
Lemma lines_nl_cons c r :
  lines_nl (c :: r) =
  if c =? NL then [NL] :: lines_nl r
  else match lines_nl r with [] => [[c]] | l :: ls => (c :: l) :: ls end.
Proof. reflexivity. Qed.

Lemma lines_nl_nonempty t : lines_nl t <> [].
Proof.
  induction t as [|c t IH]; [discriminate|]. rewrite lines_nl_cons.
  destruct (c =? NL); [discriminate|]. destruct (lines_nl t); discriminate.
Qed.

Lemma concat_lines_nl t : concat (lines_nl t) = t.
Proof.
  induction t as [|c t IH]; [reflexivity|]. rewrite lines_nl_cons. destruct (c =? NL) eqn:E.
  - apply N.eqb_eq in E. subst c. cbn [concat app]. rewrite IH. reflexivity.
  - destruct (lines_nl t) as [|l ls] eqn:El; [exfalso; exact (lines_nl_nonempty t El)|].
    cbn [concat] in *. rewrite <- app_comm_cons, IH. reflexivity.
Qed.

Lemma length_lines_nl t : N.of_nat (length (lines_nl t)) = get_line_count t.
Proof.
  unfold get_line_count. induction t as [|c t IH]; [reflexivity|]. rewrite lines_nl_cons. cbn [count_nl].
  destruct (c =? NL).
  - cbn [length]. lia.
  - destruct (lines_nl t) as [|l ls] eqn:El; [exfalso; exact (lines_nl_nonempty t El)|]. cbn [length] in *. lia.
Qed.

(* every line but the last ends with its only '\n'; the last has none *)
Lemma lines_nl_shape t :
  Forall (fun l => exists b, l = b ++ [NL] /\ ~ In NL b) (removelast (lines_nl t)) /\ ~ In NL (last (lines_nl t) []).
Proof.
  induction t as [|c t [IH1 IH2]].
  - cbn. split; [constructor|intros []].
  - rewrite lines_nl_cons. destruct (c =? NL) eqn:E.
    + apply N.eqb_eq in E. subst c.
      destruct (lines_nl t) as [|l ls] eqn:El; [exfalso; exact (lines_nl_nonempty t El)|].
      split.
      * change (removelast ([NL] :: l :: ls)) with ([NL] :: removelast (l :: ls)). constructor; [|exact IH1].
        exists []. split; [reflexivity|intros []].
      * change (last ([NL] :: l :: ls) []) with (last (l :: ls) []). exact IH2.
    + destruct (lines_nl t) as [|l ls] eqn:El; [exfalso; exact (lines_nl_nonempty t El)|].
      apply N.eqb_neq in E. destruct ls as [|l2 ls].
      * cbn in *. split; [constructor|]. intros [H|H]; [congruence|contradiction].
      * change (removelast ((c :: l) :: l2 :: ls)) with ((c :: l) :: removelast (l2 :: ls)).
        change (removelast (l :: l2 :: ls)) with (l :: removelast (l2 :: ls)) in IH1.
        change (last ((c :: l) :: l2 :: ls) []) with (last (l2 :: ls) []).
        change (last (l :: l2 :: ls) []) with (last (l2 :: ls) []) in IH2.
        split; [|exact IH2]. inversion IH1 as [|? ? (b & Hb & Hn) Hr]; subst. constructor; [|exact Hr].
        exists (c :: b). split; [reflexivity|]. intros [H|H]; [congruence|contradiction].
Qed.

(* ------------------------------------------------------------------ the two loops, byte level = character level *)
Lemma flb_eq line lc pos bs :
  find_line_begin line lc pos bs =
  if line <=? lc then (pos, bs)
  else match bs with
       | [] => (pos, [])
       | b :: r => find_line_begin line (if b =? NL then lc + 1 else lc) (pos + 1) r
       end.
Proof. destruct bs; reflexivity. Qed.

Lemma fle_eq pos bs :
  find_line_end pos bs =
  match bs with [] => pos | b :: r => if b =? NL then pos + 1 else find_line_end (pos + 1) r end.
Proof. destruct bs; reflexivity. Qed.

(* the same loops over characters, advancing by the encoded length *)
Fixpoint flb_chars (line lc pos : N) (t : text) : N * text :=
  if line <=? lc then (pos, t)
  else match t with
       | [] => (pos, [])
       | c :: r => flb_chars line (if c =? NL then lc + 1 else lc) (pos + utf8_len c) r
       end.

Fixpoint fle_chars (pos : N) (t : text) : N :=
  match t with [] => pos | c :: r => if c =? NL then pos + 1 else fle_chars (pos + utf8_len c) r end.

Lemma flb_chars_eq line lc pos t :
  flb_chars line lc pos t =
  if line <=? lc then (pos, t)
  else match t with
       | [] => (pos, [])
       | c :: r => flb_chars line (if c =? NL then lc + 1 else lc) (pos + utf8_len c) r
       end.
Proof. destruct t; reflexivity. Qed.

Lemma byte_ne k x : 11 <= k -> (k + x =? NL) = false.
Proof. intro H. apply N.eqb_neq. unfold NL. lia. Qed.
Ltac nl_false := rewrite byte_ne by (clear; lia).

(* a '\n' byte occurs in the encoding only as the character '\n': the other bytes of a character are >= 128 *)
Lemma flb_char c bs line lc pos : (line <=? lc) = false ->
  find_line_begin line lc pos (utf8_bytes c ++ bs) =
  find_line_begin line (if c =? NL then lc + 1 else lc) (pos + utf8_len c) bs.
Proof.
  intro H. unfold utf8_bytes, utf8_len.
  destruct (c <? 128) eqn:E1.
  { cbn [app]. rewrite flb_eq, H. reflexivity. }
  assert ((c =? NL) = false) as Ec by (apply N.eqb_neq; unfold NL; lia). rewrite Ec.
  destruct (c <? 2048) eqn:E2; [|destruct (c <? 65536) eqn:E3]; cbn [app].
  - rewrite flb_eq, H. nl_false. rewrite flb_eq, H. nl_false. f_equal. lia.
  - rewrite flb_eq, H. nl_false. rewrite flb_eq, H. nl_false. rewrite flb_eq, H. nl_false. f_equal. lia.
  - rewrite flb_eq, H. nl_false. rewrite flb_eq, H. nl_false. rewrite flb_eq, H. nl_false. rewrite flb_eq, H. nl_false.
    f_equal. lia.
Qed.

Lemma fle_char c bs pos :
  find_line_end pos (utf8_bytes c ++ bs) = if c =? NL then pos + 1 else find_line_end (pos + utf8_len c) bs.
Proof.
  unfold utf8_bytes, utf8_len.
  destruct (c <? 128) eqn:E1.
  { cbn [app]. rewrite fle_eq. reflexivity. }
  assert ((c =? NL) = false) as Ec by (apply N.eqb_neq; unfold NL; lia). rewrite Ec.
  destruct (c <? 2048) eqn:E2; [|destruct (c <? 65536) eqn:E3]; cbn [app].
  - rewrite fle_eq. nl_false. rewrite fle_eq. nl_false. f_equal. lia.
  - rewrite fle_eq. nl_false. rewrite fle_eq. nl_false. rewrite fle_eq. nl_false. f_equal. lia.
  - rewrite fle_eq. nl_false. rewrite fle_eq. nl_false. rewrite fle_eq. nl_false. rewrite fle_eq. nl_false. f_equal. lia.
Qed.

Lemma flb_encode t : forall line lc pos,
  find_line_begin line lc pos (encode t) = let '(p, r) := flb_chars line lc pos t in (p, encode r).
Proof.
  induction t as [|c t IH]; intros line lc pos; rewrite flb_chars_eq.
  - cbn [encode]. rewrite flb_eq. destruct (line <=? lc); reflexivity.
  - destruct (line <=? lc) eqn:E.
    + rewrite flb_eq, E. reflexivity.
    + cbn [encode]. rewrite flb_char by exact E. apply IH.
Qed.

Lemma fle_encode t : forall pos, find_line_end pos (encode t) = fle_chars pos t.
Proof.
  induction t as [|c t IH]; intro pos; [reflexivity|].
  cbn [encode fle_chars]. rewrite fle_char. destruct (c =? NL); [reflexivity|apply IH].
Qed.

(* ------------------------------------------------------------------ the loops compute the specified range *)
Lemma fle_chars_first_line t : forall pos,
  fle_chars pos t = pos + byte_len (match lines_nl t with l :: _ => l | [] => [] end).
Proof.
  induction t as [|c t IH]; intro pos.
  - cbn. lia.
  - cbn [fle_chars]. rewrite lines_nl_cons. destruct (c =? NL) eqn:E.
    + apply N.eqb_eq in E. subst c. cbn. lia.
    + rewrite IH. destruct (lines_nl t) as [|l ls] eqn:El; [exfalso; exact (lines_nl_nonempty t El)|].
      rewrite byte_len_cons. lia.
Qed.

Definition range_spec_from (pos : N) (t : text) (k : nat) : N * N :=
  let ls := lines_nl t in
  let before := byte_len (concat (firstn k ls)) in
  match nth_error ls k with
  | Some l => (pos + before, pos + before + byte_len l)
  | None => (pos + byte_len t, pos + byte_len t)
  end.

Lemma range_chars t : forall k lc pos line, line = lc + N.of_nat k ->
  (let '(b, rest) := flb_chars line lc pos t in (b, fle_chars b rest)) = range_spec_from pos t k.
Proof.
  induction t as [|c t IH]; intros k lc pos line Hl; rewrite flb_chars_eq; unfold range_spec_from.
  - destruct k as [|k].
    + destruct (line <=? lc) eqn:E; [|lia]. cbn. f_equal; lia.
    + destruct (line <=? lc) eqn:E; [lia|]. cbn [lines_nl nth_error fle_chars byte_len].
      destruct k; cbn [nth_error]; f_equal; lia.
  - destruct k as [|k].
    + destruct (line <=? lc) eqn:E; [|lia]. rewrite fle_chars_first_line.
      destruct (lines_nl (c :: t)) as [|l ls] eqn:El; [exfalso; exact (lines_nl_nonempty _ El)|].
      cbn [firstn concat byte_len nth_error]. f_equal; lia.
    + destruct (line <=? lc) eqn:E; [lia|]. rewrite lines_nl_cons. destruct (c =? NL) eqn:Ec.
      * apply N.eqb_eq in Ec. subst c. rewrite (IH k (lc + 1) (pos + utf8_len NL) line) by lia.
        unfold range_spec_from. cbn [firstn concat nth_error]. rewrite byte_len_app, byte_len_cons.
        destruct (nth_error (lines_nl t) k); rewrite ?byte_len_cons;
          change (utf8_len NL) with 1; change (byte_len []) with 0; f_equal; lia.
      * rewrite (IH (S k) lc (pos + utf8_len c) line) by lia. unfold range_spec_from.
        destruct (lines_nl t) as [|l ls] eqn:El; [exfalso; exact (lines_nl_nonempty t El)|].
        cbn [firstn concat nth_error]. rewrite !byte_len_app, !byte_len_cons.
        destruct (nth_error ls k); f_equal; lia.
Qed.

Theorem line_range_correct t n : get_index_range_of_line t n = spec_line_range t n.
Proof.
  unfold get_index_range_of_line, range_of_line_in.
  pose proof (flb_encode t n 0 0) as H. destruct (find_line_begin n 0 0 (encode t)) as [b rest].
  pose proof (range_chars t (N.to_nat n) 0 0 n ltac:(lia)) as R.
  destruct (flb_chars n 0 0 t) as [b' rest']. inversion H; subst.
  rewrite fle_encode. rewrite R. unfold range_spec_from, spec_line_range.
  destruct (nth_error (lines_nl t) (N.to_nat n)); f_equal; lia.
Qed.

(* the specified range lies on character boundaries and slicing it gives the line *)
Definition line_or_empty (t : text) (n : N) : text :=
  match nth_error (lines_nl t) (N.to_nat n) with Some l => l | None => [] end.

Lemma firstn_skipn_nth {A} (ls : list A) k l :
  nth_error ls k = Some l -> ls = firstn k ls ++ l :: skipn (S k) ls.
Proof.
  revert k. induction ls as [|x ls IH]; intros [|k] H; try discriminate.
  - inversion H. reflexivity.
  - cbn [firstn skipn app]. f_equal. cbn [nth_error] in H. apply IH in H. exact H.
Qed.

Lemma spec_line_range_excerpt t n :
  let '(b, e) := spec_line_range t n in
  b <= e /\ e <= byte_len t /\ on_boundary t b /\ on_boundary t e /\ get_excerpt t b e = Ok (line_or_empty t n).
Proof.
  unfold spec_line_range, line_or_empty. set (k := N.to_nat n).
  destruct (nth_error (lines_nl t) k) as [l|] eqn:E.
  - pose proof (firstn_skipn_nth _ _ _ E) as D.
    assert (t = concat (firstn k (lines_nl t)) ++ l ++ concat (skipn (S k) (lines_nl t))) as Ht.
    { rewrite <- (concat_lines_nl t) at 1. rewrite D at 1. rewrite concat_app. reflexivity. }
    set (a := concat (firstn k (lines_nl t))) in *. set (c := concat (skipn (S k) (lines_nl t))) in *.
    clearbody a c. clear D E k. subst t.
    split; [lia|]. split; [rewrite !byte_len_app; lia|].
    split; [exists a, (l ++ c); split; reflexivity|].
    split; [exists (a ++ l), c; split; [rewrite <- app_assoc; reflexivity|apply byte_len_app]|].
    apply get_excerpt_mid.
  - split; [lia|]. split; [lia|].
    assert (on_boundary t (byte_len t)) as B by (exists t, []; split; [rewrite app_nil_r; reflexivity|reflexivity]).
    split; [exact B|]. split; [exact B|].
    pose proof (get_excerpt_mid t [] []) as G. rewrite !app_nil_r in G. cbn [byte_len] in G.
    rewrite N.add_0_r in G. exact G.
Qed.

Theorem line_range_total t n :
  let '(b, e) := get_index_range_of_line t n in
  (b, e) = spec_line_range t n /\ b <= e /\ e <= byte_len t /\ on_boundary t b /\ on_boundary t e /\
  get_excerpt t b e = Ok (line_or_empty t n).
Proof.
  rewrite line_range_correct. pose proof (spec_line_range_excerpt t n) as H.
  destruct (spec_line_range t n) as [b e]. split; [reflexivity|exact H].
Qed.

(* ------------------------------------------------------------------ report.rs *)
Lemma excerpts_total t ls :
  excerpts_with get_index_range_of_line t ls = Ok (map (fun l => (l + 1, line_or_empty t l)) ls).
Proof.
  induction ls as [|l ls IH]; [reflexivity|]. cbn [excerpts_with map].
  pose proof (line_range_total t l) as H. destruct (get_index_range_of_line t l) as [b e].
  destruct H as (_ & _ & _ & _ & _ & ->). rewrite IH. reflexivity.
Qed.

Lemma li_start lc t s e sh :
  li_line1 (get_line_info_with lc t s e sh) = fst (lc t s) /\ li_col1 (get_line_info_with lc t s e sh) = snd (lc t s).
Proof. unfold get_line_info_with. destruct (lc t s), (lc t e). split; reflexivity. Qed.

Theorem print_total p s end_ short :
  exists xs, print_msg_src (p ++ s) (byte_len p) end_ short = Ok (line_of p + 1, col_of p + 1, xs) /\
             Forall (fun '(n, x) => 1 <= n /\ x = line_or_empty (p ++ s) (n - 1)) xs.
Proof.
  unfold print_msg_src, print_msg_src_with. cbv zeta. rewrite excerpts_total.
  destruct (li_start get_line_column_at_index (p ++ s) (byte_len p) end_ short) as [-> ->].
  rewrite linecol_correct. cbn [fst snd]. eexists. split; [reflexivity|].
  apply Forall_forall. intros [n x] Hin. apply in_map_iff in Hin. destruct Hin as (l & Hl & _).
  inversion Hl; subst. split; [lia|]. f_equal. lia.
Qed.

(* printing never panics, whatever the span (even an invalid one) *)
Theorem print_never_panics t start end_ short : print_msg_src t start end_ short <> Panic.
Proof. unfold print_msg_src, print_msg_src_with. cbv zeta. rewrite excerpts_total. discriminate. Qed.

(* ------------------------------------------------------------------ the pinned algorithms are wrong (F3, F2) *)
Lemma pinned_linecol_wrong :
  exists t i, on_boundary t i /\ spec_linecol t i <> Some (get_line_column_at_index_pinned t i).
Proof.
  exists [233; 10; 97], 3. split.
  - exists [233; 10], [97]. split; reflexivity.
  - vm_compute. discriminate.
Qed.

Lemma pinned_excerpt_panics :
  exists t n, n < get_line_count t /\
    (let '(b, e) := get_index_range_of_line_pinned t n in get_excerpt t b e) = Panic.
Proof.
  (* "; éééé\nfoo" , line 0 *)
  exists [59; 32; 233; 233; 233; 233; 10; 102; 111; 111], 0. split; vm_compute; reflexivity.
Qed.

Lemma pinned_print_panics :
  exists t start end_, on_boundary t start /\ on_boundary t end_ /\ start <= end_ /\
    print_msg_src_pinned t start end_ false = Panic.
Proof.
  exists [59; 32; 233; 233; 233; 233; 10; 102; 111; 111], 11, 14. repeat split.
  - exists [59; 32; 233; 233; 233; 233; 10], [102; 111; 111]. split; reflexivity.
  - exists [59; 32; 233; 233; 233; 233; 10; 102; 111; 111], []. split; reflexivity.
  - vm_compute. discriminate.
Qed.

(* ------------------------------------------------------------------ packaged statements for Props/C13.v *)
Lemma spec_domain t i : spec_linecol t i = None <-> ~ on_boundary t i.
Proof. unfold spec_linecol. rewrite <- prefix_at_none. destruct (prefix_at t i); split; congruence. Qed.

Lemma last_line_iff p b : is_last_line p b <-> b = after_last_nl p.
Proof. split; [apply last_line_unique|intros ->; apply after_last_nl_spec]. Qed.

Lemma lines_facts t :
  concat (lines_nl t) = t /\ N.of_nat (length (lines_nl t)) = get_line_count t /\
  Forall (fun l => exists b, l = b ++ [NL] /\ ~ In NL b) (removelast (lines_nl t)) /\
  ~ In NL (last (lines_nl t) []).
Proof. split; [apply concat_lines_nl|]. split; [apply length_lines_nl|]. apply lines_nl_shape. Qed.
