(* C17: the asm-block model (Model/AsmBlock.v) against the in-place meaning (Spec/Inline.v).
   Shape of the argument: the unstable flag of a round is monotone; a round that ends stable has met, at every label,
   a previous value equal to the new one, so (labels being Unknown or plain unsized integers) it rewrites every label
   with the value it already had: the label map is a fixed point of the round, every line was therefore resolved
   under that very map at its in-place position, and the value is the concatenation.  The loop returns a value only
   out of such a round. *)
From Coq Require Import NArith ZArith List Bool Lia ZifyBool.
From CA Require Import Model.Lexer Model.Parser Model.BigIntOps Model.Evaluator Model.Matcher Model.Resolver Model.AsmBlock Spec.Inline.
Import ListNotations.
Open Scope Z_scope.

(* ---------- label maps ---------- *)
Definition label_value_ok (v : value) : Prop := v = VUnknown \/ exists a, v = VInt (un a).
Definition labels_wf (ls : labels) : Prop := Forall (fun kv => label_value_ok (snd kv)) ls.
Definition covers (ns : list anode) (ls : labels) : Prop := forall name, In (ALabel name) ns -> lookup ls name <> None.

Lemma set_label_same : forall ls n v, lookup ls n = Some v -> set_label ls n v = ls.
Proof.
  induction ls as [|[k x] r IH]; intros n v H; cbn [lookup set_label] in *; [discriminate|].
  destruct (text_eqb k n).
  - inversion H; subst. reflexivity.
  - rewrite (IH _ _ H). reflexivity.
Qed.

Lemma set_label_wf : forall ls n v, labels_wf ls -> label_value_ok v -> labels_wf (set_label ls n v).
Proof.
  induction ls as [|[k x] r IH]; intros n v Hw Hv; cbn [set_label].
  - constructor; [exact Hv|constructor].
  - inversion Hw; subst. destruct (text_eqb k n); constructor; auto. apply IH; assumption.
Qed.

Lemma lookup_set_label : forall ls n v m, lookup ls m <> None -> lookup (set_label ls n v) m <> None.
Proof.
  induction ls as [|[k x] r IH]; intros n v m H; cbn [lookup set_label] in *; [congruence|].
  destruct (text_eqb k n) eqn:Ekn; cbn [lookup]; destruct (text_eqb k m) eqn:Ekm; try discriminate; auto.
Qed.

Lemma text_eqb_refl : forall t, text_eqb t t = true.
Proof. induction t as [|c r IH]; cbn [text_eqb]; [reflexivity|]. rewrite N.eqb_refl, IH. reflexivity. Qed.

Lemma text_eqb_eq : forall a b, text_eqb a b = true -> a = b.
Proof.
  induction a as [|x a IH]; destruct b as [|y b]; cbn [text_eqb]; intro H; try discriminate; [reflexivity|].
  apply andb_true_iff in H. destruct H as [H1 H2]. apply N.eqb_eq in H1. subst. rewrite (IH _ H2). reflexivity.
Qed.

Lemma lookup_set_label_same : forall ls n v, lookup (set_label ls n v) n <> None.
Proof.
  induction ls as [|[k x] r IH]; intros n v; cbn [lookup set_label].
  - rewrite text_eqb_refl. discriminate.
  - destruct (text_eqb k n) eqn:E; cbn [lookup]; rewrite E; [discriminate|apply IH].
Qed.

Lemma lookup_wf : forall ls n v, labels_wf ls -> lookup ls n = Some v -> label_value_ok v.
Proof.
  induction ls as [|[k x] r IH]; intros n v Hw H; cbn [lookup] in H; [discriminate|].
  inversion Hw; subst. destruct (text_eqb k n); [inversion H; subst; assumption|eapply IH; eassumption].
Qed.

Lemma eqv_label : forall prev a, label_value_ok prev -> value_eqv prev (VInt (un a)) = true -> prev = VInt (un a).
Proof.
  intros prev a [->|[a' ->]] H; cbn in H; [discriminate|].
  unfold bigint_eqv in H. cbn in H. apply Z.eqb_eq in H. subst. reflexivity.
Qed.

Section BlockP.
Variable match_resolve : text -> Z -> labels -> bool -> eres (option bigint).
Variable address_of : Z -> bool -> eres Z.
Variable substitute : text -> eres text.
Variable outer_last : bool.

Notation rn := (resolve_nodes match_resolve address_of substitute).
Notation inl := (inline_nodes match_resolve address_of substitute).

(* the unstable flag never goes back to false *)
Lemma unstable_mono : forall first last ns pos res ls v u ls',
  rn first last ns pos res true ls = BOk (v, u, ls') -> u = true.
Proof.
  induction ns as [|n r IH]; intros pos res ls v u ls' H; cbn [resolve_nodes] in H.
  - inversion H; reflexivity.
  - destruct n as [name|src].
    + destruct (address_of pos true) as [a|]; [|discriminate].
      destruct (lookup ls name) as [prev|]; [destruct (value_eqv prev (VInt (un a)))|]; eapply IH; exact H.
    + destruct (substitute src) as [line|]; [|discriminate].
      destruct (match_resolve line pos ls (negb last)) as [[enc|]|]; [| |discriminate].
      * destruct (bsz enc) as [size|]; [|discriminate]. destruct (bsz res) as [rsize|]; [|discriminate].
        destruct (pos + Z.of_N size >? usize_max); [discriminate|]. eapply IH; exact H.
      * destruct last; [discriminate|]. eapply IH; exact H.
Qed.

(* a round preserves the shape of the label map *)
Lemma round_wf : forall first last ns pos res u ls v u' ls',
  labels_wf ls -> rn first last ns pos res u ls = BOk (v, u', ls') -> labels_wf ls'.
Proof.
  induction ns as [|n r IH]; intros pos res u ls v u' ls' Hw H; cbn [resolve_nodes] in H.
  - inversion H; subst; assumption.
  - destruct n as [name|src].
    + destruct (address_of pos true) as [a|]; [|discriminate].
      eapply IH; [|exact H]. apply set_label_wf; [assumption|right; eexists; reflexivity].
    + destruct (substitute src) as [line|]; [|discriminate].
      destruct (match_resolve line pos ls (negb last)) as [[enc|]|]; [| |discriminate].
      * destruct (bsz enc) as [size|]; [|discriminate]. destruct (bsz res) as [rsize|]; [|discriminate].
        destruct (pos + Z.of_N size >? usize_max); [discriminate|]. eapply IH; eassumption.
      * destruct last; [discriminate|]. eapply IH; eassumption.
Qed.

Lemma round_covers : forall ns0 first last ns pos res u ls v u' ls',
  covers ns0 ls -> rn first last ns pos res u ls = BOk (v, u', ls') -> covers ns0 ls'.
Proof.
  intros ns0 first last. induction ns as [|n r IH]; intros pos res u ls v u' ls' Hc H; cbn [resolve_nodes] in H.
  - inversion H; subst; assumption.
  - destruct n as [name|src].
    + destruct (address_of pos true) as [a|]; [|discriminate].
      eapply IH; [|exact H]. intros m Hm. apply lookup_set_label. apply Hc; assumption.
    + destruct (substitute src) as [line|]; [|discriminate].
      destruct (match_resolve line pos ls (negb last)) as [[enc|]|]; [| |discriminate].
      * destruct (bsz enc) as [size|]; [|discriminate]. destruct (bsz res) as [rsize|]; [|discriminate].
        destruct (pos + Z.of_N size >? usize_max); [discriminate|]. eapply IH; eassumption.
      * destruct last; [discriminate|]. eapply IH; eassumption.
Qed.

(* the core: a stable round is a fixed point of the label map and computes the in-place meaning under it *)
Lemma stable_round : forall first last ns pos res ls V ls',
  labels_wf ls -> covers ns ls ->
  rn first last ns pos res false ls = BOk (V, false, ls') ->
  ls' = ls /\ exists fin, inl ns ls (negb last) pos res = Some (V, fin).
Proof.
  induction ns as [|n r IH]; intros pos res ls V ls' Hw Hc H; cbn [resolve_nodes] in H; cbn [inline_nodes].
  - inversion H; subst. split; [reflexivity|eexists; reflexivity].
  - assert (Hc' : covers r ls) by (intros m Hm; apply Hc; right; exact Hm).
    destruct n as [name|src].
    + destruct (address_of pos true) as [a|]; [|discriminate].
      destruct (lookup ls name) as [prev|] eqn:El; [|exfalso; apply (Hc name); [left; reflexivity|exact El]].
      destruct (value_eqv prev (VInt (un a))) eqn:Ev.
      * pose proof (eqv_label prev a (lookup_wf _ _ _ Hw El) Ev) as Hp. subst prev.
        rewrite (set_label_same _ _ _ El) in H. apply IH; assumption.
      * apply unstable_mono in H. discriminate.
    + destruct (substitute src) as [line|]; [|discriminate].
      destruct (match_resolve line pos ls (negb last)) as [[enc|]|]; [| |discriminate].
      * destruct (bsz enc) as [size|]; [|discriminate]. destruct (bsz res) as [rsize|]; [|discriminate].
        destruct (pos + Z.of_N size >? usize_max); [discriminate|]. apply IH; assumption.
      * destruct last; [discriminate|]. apply unstable_mono in H. discriminate.
Qed.

Lemma rounds_inv : forall ns pos k i max ls ls1,
  labels_wf ls -> covers ns ls ->
  rounds match_resolve address_of substitute outer_last ns pos k i max ls = BOk ls1 ->
  labels_wf ls1 /\ covers ns ls1.
Proof.
  induction k as [|k IH]; intros i max ls ls1 Hw Hc H; cbn [rounds] in H.
  - inversion H; subst; split; assumption.
  - unfold resolve_once in H.
    destruct (rn (Nat.eqb (S i) 1) (Nat.eqb (S i) max && outer_last) ns pos zero_bits false ls) as [[[v u] ls']| |] eqn:E; try discriminate.
    pose proof (round_wf _ _ _ _ _ _ _ _ _ _ Hw E) as Hw'.
    pose proof (round_covers ns _ _ _ _ _ _ _ _ _ _ Hc E) as Hc'.
    destruct u; [eapply IH; eassumption|inversion H; subst; split; assumption].
Qed.

(* every outcome of the loop: a value comes out of a stable confirming round and IS the in-place meaning under the
   final label map; otherwise Unknown (only while the enclosing pass may guess) or an error/panic *)
Lemma resolve_iteratively_outcomes : forall ns pos max ls v,
  labels_wf ls -> covers ns ls ->
  resolve_iteratively match_resolve address_of substitute outer_last ns pos max ls = BOk v ->
  (exists V L fin, v = VInt V /\ labels_wf L /\ covers ns L /\
                   inline_block match_resolve address_of substitute ns L (negb outer_last) pos = Some (V, fin) /\
                   resolve_once match_resolve address_of substitute false outer_last ns pos L = BOk (V, false, L))
  \/ (v = VUnknown /\ outer_last = false).
Proof.
  intros ns pos max ls v Hw Hc H. unfold resolve_iteratively in H.
  destruct (rounds match_resolve address_of substitute outer_last ns pos max 0 max ls) as [ls1| |] eqn:Er; try discriminate.
  destruct (rounds_inv _ _ _ _ _ _ _ Hw Hc Er) as [Hw1 Hc1].
  destruct (resolve_once match_resolve address_of substitute false outer_last ns pos ls1) as [[[V u] ls2]| |] eqn:E; try discriminate.
  destruct u.
  - right. destruct outer_last; cbn in H; [discriminate|]. inversion H; subst. split; reflexivity.
  - left. inversion H; subst. unfold resolve_once in E.
    destruct (stable_round _ _ _ _ _ _ _ _ Hw1 Hc1 E) as [-> [fin Hi]].
    exists V, ls1, fin. repeat split; try assumption.
Qed.

End BlockP.

(* ---------- the pre-scan ---------- *)
Lemma prescan_inv : forall raw ls acc ns ls',
  labels_wf ls -> (forall name, In (ALabel name) acc -> lookup ls name <> None) ->
  prescan raw ls acc = EOk (ns, ls') ->
  labels_wf ls' /\ covers ns ls'.
Proof.
  induction raw as [|n r IH]; intros ls acc ns ls' Hw Hc H; cbn [prescan] in H.
  - inversion H; subst. split; [assumption|]. intros name Hin. apply Hc. apply in_rev. exact Hin.
  - destruct n as [name is_label level|src|]; [| |discriminate].
    + destruct is_label; cbn [negb] in H; [|discriminate].
      destruct (level =? 0)%N; cbn [negb] in H; [|discriminate].
      eapply IH; [| |exact H].
      * apply set_label_wf; [assumption|left; reflexivity].
      * intros m [Hm|Hm].
        -- inversion Hm; subst. apply lookup_set_label_same.
        -- apply lookup_set_label. apply Hc. exact Hm.
    + eapply IH; [exact Hw| |exact H]. intros m [Hm|Hm]; [discriminate|apply Hc; exact Hm].
Qed.

Theorem eval_asm_outcomes : forall mr ao sub outer_last depth raw pos max v,
  eval_asm mr ao sub outer_last depth raw pos max = BOk v ->
  depth < EVAL_DEPTH_MAX /\
  exists ns ls0, prescan raw [] [] = EOk (ns, ls0) /\
  ((exists V L fin, v = VInt V /\ labels_wf L /\ covers ns L /\
                    inline_block mr ao sub ns L (negb outer_last) pos = Some (V, fin) /\
                    resolve_once mr ao sub false outer_last ns pos L = BOk (V, false, L))
   \/ (v = VUnknown /\ outer_last = false)).
Proof.
  intros mr ao sub outer_last depth raw pos max v H. unfold eval_asm in H.
  destruct (depth >=? EVAL_DEPTH_MAX) eqn:Ed; [discriminate|]. split; [lia|].
  destruct (prescan raw [] []) as [[ns ls0]|] eqn:Ep; [|discriminate].
  exists ns, ls0. split; [reflexivity|].
  destruct (prescan_inv raw [] [] ns ls0 (Forall_nil _) (fun _ F => match F with end) Ep) as [Hw Hc].
  eapply resolve_iteratively_outcomes; eassumption.
Qed.

Theorem eval_asm_value_inplace : forall mr ao sub outer_last depth raw pos max V,
  eval_asm mr ao sub outer_last depth raw pos max = BOk (VInt V) ->
  exists ns ls0 L fin, prescan raw [] [] = EOk (ns, ls0) /\ covers ns L /\
    inline_block mr ao sub ns L (negb outer_last) pos = Some (V, fin).
Proof.
  intros mr ao sub outer_last depth raw pos max V H.
  destruct (eval_asm_outcomes _ _ _ _ _ _ _ _ _ H) as [_ [ns [ls0 [Hp [[V' [L [fin [Hv [_ [Hc [Hi _]]]]]]]|[Hv _]]]]]]; [|discriminate].
  inversion Hv; subst. exists ns, ls0, L, fin. repeat split; assumption.
Qed.

(* strict mode: a value or an error, never Unknown, and the value is the strict in-place meaning *)
Theorem eval_asm_strict : forall mr ao sub depth raw pos max v,
  eval_asm mr ao sub true depth raw pos max = BOk v ->
  exists V ns ls0 L fin, v = VInt V /\ prescan raw [] [] = EOk (ns, ls0) /\
    inline_block mr ao sub ns L false pos = Some (V, fin).
Proof.
  intros mr ao sub depth raw pos max v H.
  destruct (eval_asm_outcomes _ _ _ _ _ _ _ _ _ H) as [_ [ns [ls0 [Hp [[V [L [fin [Hv [_ [_ [Hi _]]]]]]]|[_ F]]]]]]; [|discriminate].
  exists V, ns, ls0, L, fin. repeat split; assumption.
Qed.

Theorem eval_asm_depth : forall mr ao sub outer_last depth raw pos max,
  depth >= EVAL_DEPTH_MAX -> eval_asm mr ao sub outer_last depth raw pos max = BErr.
Proof.
  intros. unfold eval_asm. destruct (depth >=? EVAL_DEPTH_MAX) eqn:E; [reflexivity|lia].
Qed.

(* ---------- textual substitution ---------- *)
Lemma take_bytes_0 : forall t, take_bytes 0 t = [].
Proof. destruct t; reflexivity. Qed.

Lemma perform_substs_pieces : forall get t ss copied acc,
  substs_wf copied ss ->
  perform_substs get t ss copied acc = match pieces get t copied ss with Some p => EOk (acc ++ p) | None => EErr end.
Proof.
  induction ss as [|s r IH]; intros copied acc Hwf; cbn [perform_substs pieces].
  - reflexivity.
  - cbn [substs_wf] in Hwf. destruct Hwf as [H1 [H2 H3]].
    destruct (get (s_name s)) as [txt|] eqn:Eg.
    + assert (Hsum : forall c, (c = s_start s -> c + (s_end s - s_start s) = s_end s)%N) by (intros; lia).
      destruct (copied <? s_start s)%N eqn:Ec.
      * rewrite (Hsum _ eq_refl). rewrite (IH _ _ H3).
        destruct (pieces get t (s_end s) r); [|reflexivity]. rewrite <- !app_assoc. reflexivity.
      * assert (copied = s_start s) by lia. subst copied. rewrite (Hsum _ eq_refl). rewrite (IH _ _ H3).
        destruct (pieces get t (s_end s) r); [|reflexivity].
        unfold slice_bytes. rewrite N.sub_diag, take_bytes_0. cbn [app]. rewrite <- app_assoc. reflexivity.
    + destruct (copied <? s_start s)%N; reflexivity.
Qed.

Theorem perform_substitutions_pieces : forall get t ss,
  substs_wf 0 ss ->
  perform_substitutions get t ss = match pieces get t 0 ss with Some p => EOk p | None => EErr end.
Proof.
  intros. unfold perform_substitutions. rewrite perform_substs_pieces by assumption.
  destruct (pieces get t 0 ss); reflexivity.
Qed.

(* ---------- contexts: an inner binding shadows every outer textual substitution of the same name ---------- *)
Lemma deepened_forgets : forall parent n, ctx_token_subst (new_deepened parent) n = None.
Proof. reflexivity. Qed.

Lemma lookup_text_bind_rule : forall ps c n,
  ~ In n (map (fun p => fst (fst p)) ps) ->
  lookup_text (e_tsub (bind_rule_params c ps)) n = lookup_text (e_tsub c) n.
Proof.
  induction ps as [|[[k v] t] r IH]; intros c n Hn; cbn [bind_rule_params]; [reflexivity|].
  rewrite IH; [|intro H; apply Hn; right; exact H].
  cbn [ctx_set_token_subst ctx_set_local e_tsub lookup_text].
  destruct (text_eqb k n) eqn:E; [|reflexivity].
  exfalso. apply Hn. left. cbn. apply text_eqb_eq. exact E.
Qed.

Lemma locals_bind_rule_mono : forall ps c n,
  existsb (text_eqb n) (map fst (e_locals c)) = true ->
  existsb (text_eqb n) (map fst (e_locals (bind_rule_params c ps))) = true.
Proof.
  induction ps as [|[[k v] t] r IH]; intros c n H; cbn [bind_rule_params]; [exact H|].
  apply IH. cbn [ctx_set_token_subst ctx_set_local e_locals map fst existsb]. rewrite H. apply orb_true_r.
Qed.

(* a by-value local n of an inner rule (assigned in its production, not one of its parameters) is substituted by its
   hygienised name, whatever the calling context binds n to *)
Theorem inner_local_shadows_outer_subst : forall parent ps n v,
  ~ In n (map (fun p => fst (fst p)) ps) ->
  ctx_token_subst (ctx_set_local (rule_ctx parent ps) n v) n = Some (hygienize_name n).
Proof.
  intros parent ps n v Hn. unfold ctx_token_subst, get_token_subst, rule_ctx.
  cbn [ctx_set_local e_tsub e_locals map fst existsb].
  rewrite lookup_text_bind_rule by (auto). cbn [new_deepened e_tsub lookup_text].
  rewrite text_eqb_refl. reflexivity.
Qed.

(* a rule parameter is substituted by ITS argument text, whatever the calling context binds the name to *)
Theorem inner_param_shadows_outer_subst : forall parent ps1 n v t ps2,
  ~ In n (map (fun p => fst (fst p)) ps2) ->
  ctx_token_subst (rule_ctx parent (ps1 ++ (n, v, t) :: ps2)) n = Some t.
Proof.
  intros parent ps1 n v t ps2 Hn. unfold ctx_token_subst, get_token_subst, rule_ctx.
  generalize (new_deepened parent) as c. induction ps1 as [|[[k v'] t'] r IH]; intro c; cbn [app bind_rule_params].
  - rewrite lookup_text_bind_rule by auto.
    cbn [ctx_set_token_subst ctx_set_local e_tsub lookup_text]. rewrite text_eqb_refl. reflexivity.
  - apply IH.
Qed.

Lemma tsub_bind_fn : forall ps c, e_tsub (bind_fn_params c ps) = e_tsub c.
Proof. induction ps as [|[k v] r IH]; intro c; cbn [bind_fn_params]; [reflexivity|]. rewrite IH. reflexivity. Qed.

Lemma locals_bind_fn : forall ps c n,
  existsb (text_eqb n) (map fst (e_locals c)) = true \/ In n (map fst ps) ->
  existsb (text_eqb n) (map fst (e_locals (bind_fn_params c ps))) = true.
Proof.
  induction ps as [|[k v] r IH]; intros c n H; cbn [bind_fn_params].
  - destruct H as [H|[]]. exact H.
  - apply IH. cbn [ctx_set_local e_locals map fst existsb]. destruct H as [H|[H|H]].
    + left. rewrite H. apply orb_true_r.
    + left. cbn in H. subst k. rewrite text_eqb_refl. reflexivity.
    + right. exact H.
Qed.

(* inside a function body a parameter is substituted BY VALUE (hygienised name), whatever the caller's context holds *)
Theorem fn_param_substituted_by_value : forall caller ps n,
  In n (map fst ps) -> ctx_token_subst (fn_ctx caller ps) n = Some (hygienize_name n).
Proof.
  intros caller ps n Hin. unfold ctx_token_subst, get_token_subst, fn_ctx.
  rewrite tsub_bind_fn. cbn [new_deepened e_tsub lookup_text].
  rewrite locals_bind_fn; [reflexivity|right; exact Hin].
Qed.

(* ---------- material for the non-vacuity examples of Props/C17.v ---------- *)
From Coq Require Import String Ascii.
Fixpoint t_of (s : string) : text :=
  match s with EmptyString => [] | String c r => N_of_ascii c :: t_of r end.

(* a toy one-line resolver: `n` is one zero byte; `j` is one byte holding the value of the block label `l`
   (no encoding while `l` is unknown) *)
Definition toy_resolve (line : text) (pos : Z) (ls : labels) (can_guess : bool) : eres (option bigint) :=
  if text_eqb line (t_of "n") then EOk (Some (mk 0 (Some 8%N)))
  else if text_eqb line (t_of "j") then
    match lookup ls (t_of "l") with
    | Some (VInt b) => EOk (Some (mk (bv b) (Some 8%N)))
    | Some VUnknown => EOk None
    | _ => EErr
    end
  else EErr.
Definition toy_address (pos : Z) (can_guess : bool) : eres Z := EOk (pos / 8).
Definition toy_block : list rawnode := [RInstr (t_of "j"); RInstr (t_of "n"); RSymbol (t_of "l") true 0%N; RInstr (t_of "j")].
