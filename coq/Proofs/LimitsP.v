(* Lemmas about the guards of Model/Limits.v (C19): no guard overflows, every guard rejects a magnitude above its
   bound BEFORE the work it protects, and below the bound the work is at most the bound. *)
From Coq Require Import ZArith NArith List Bool Lia ZifyBool.
From CA Require Import Model.Overlap Model.Cursor Model.Limits.
From CA Require Model.BigIntOps Model.IncFns Model.Paths.
From CA Require Proofs.BitOpsP Proofs.IncFnsP Proofs.CursorP.
Import ListNotations.
Open Scope Z_scope.

Definition U : Z := 18446744073709551615.
Lemma U_eq : Z.of_N usize_max = U. Proof. reflexivity. Qed.
Lemma U32_eq : Z.of_N u32_max = 4294967295. Proof. reflexivity. Qed.

(* ------------------------------------------------------------------ conversions and machine arithmetic *)
Lemma to_usize_spec v :
  match to_usize v with
  | Some n => 0 <= v <= U /\ Z.of_N n = v
  | None => v < 0 \/ U < v
  end.
Proof.
  unfold to_usize. rewrite U_eq. unfold U.
  destruct ((0 <=? v) && (v <=? 18446744073709551615)) eqn:E; lia.
Qed.
Lemma to_u32_spec v :
  match to_u32 v with
  | Some n => 0 <= v <= 4294967295 /\ Z.of_N n = v
  | None => v < 0 \/ 4294967295 < v
  end.
Proof.
  unfold to_u32. rewrite U32_eq.
  destruct ((0 <=? v) && (v <=? 4294967295)) eqn:E; lia.
Qed.
Lemma checked_add_spec a b :
  match checked_add a b with
  | Some c => c = (a + b)%N /\ Z.of_N a + Z.of_N b <= U
  | None => U < Z.of_N a + Z.of_N b
  end.
Proof.
  unfold checked_add. pose proof U_eq. unfold U in *.
  destruct (a + b <=? usize_max)%N eqn:E; lia.
Qed.
Lemma checked_mul_spec a b :
  match checked_mul a b with
  | Some c => c = (a * b)%N /\ Z.of_N a * Z.of_N b <= U
  | None => U < Z.of_N a * Z.of_N b
  end.
Proof.
  unfold checked_mul. pose proof U_eq. unfold U in *.
  destruct (a * b <=? usize_max)%N eqn:E; lia.
Qed.
Lemma uadd_spec a b :
  match uadd a b with
  | Ok c => c = (a + b)%N /\ Z.of_N a + Z.of_N b <= U
  | Panic => U < Z.of_N a + Z.of_N b
  | Err => False
  end.
Proof.
  unfold uadd. pose proof U_eq. unfold U in *.
  destruct (a + b <=? usize_max)%N eqn:E; lia.
Qed.
Lemma usub_spec a b :
  match usub a b with
  | Ok c => c = (a - b)%N /\ (b <= a)%N
  | Panic => (a < b)%N
  | Err => False
  end.
Proof. unfold usub. destruct (b <=? a)%N eqn:E; lia. Qed.
Lemma zbits_nonneg a : 0 <= zbits a.
Proof. unfold zbits, BigIntOps.bits. destruct (Z.abs a =? 0); [lia|]. pose proof (Z.log2_nonneg (Z.abs a)). lia. Qed.

Ltac spec_usize v := let H := fresh "Hu" in pose proof (to_usize_spec v) as H; destruct (to_usize v).
Ltac spec_u32 v := let H := fresh "Hu" in pose proof (to_u32_spec v) as H; destruct (to_u32 v).
Ltac spec_cadd a b := let H := fresh "Hc" in pose proof (checked_add_spec a b) as H; destruct (checked_add a b).
Ltac spec_cmul a b := let H := fresh "Hc" in pose proof (checked_mul_spec a b) as H; destruct (checked_mul a b).
Ltac spec_uadd a b := let H := fresh "Ha" in pose proof (uadd_spec a b) as H; destruct (uadd a b).
Ltac spec_usub a b := let H := fresh "Hs" in pose proof (usub_spec a b) as H; destruct (usub a b).

(* ------------------------------------------------------------------ shifts *)
Lemma shl_no_panic mb a b : guard_shl mb a b <> Panic.
Proof. unfold guard_shl, guard_shl_bits. destruct (to_u32 b); [destruct (_ >=? _)|]; discriminate. Qed.
Lemma shl_above mb a b : b < 0 \/ 4294967295 < b \/ mb <= zbits a + b -> guard_shl mb a b = Err.
Proof.
  unfold guard_shl, guard_shl_bits. intros H. spec_u32 b; [|reflexivity].
  destruct (zbits a + Z.of_N n >=? mb) eqn:E; [reflexivity|lia].
Qed.
Lemma shl_work mb a b w : guard_shl mb a b = Ok w ->
  Z.of_N w = zbits a + b /\ zbits a + b < mb /\ 0 <= b <= 4294967295.
Proof.
  unfold guard_shl, guard_shl_bits. intros H. pose proof (zbits_nonneg a). spec_u32 b; [|discriminate].
  destruct (zbits a + Z.of_N n >=? mb) eqn:E; [discriminate|]. inversion H; subst. lia.
Qed.
Lemma shr_no_panic a b : guard_shr a b <> Panic.
Proof. unfold guard_shr. destruct (to_usize b); discriminate. Qed.
Lemma shr_above a b : b < 0 \/ U < b -> guard_shr a b = Err.
Proof. unfold guard_shr. intros H. spec_usize b; [lia|reflexivity]. Qed.
Lemma shr_work a b w : guard_shr a b = Ok w -> Z.of_N w = zbits a /\ 0 <= b <= U.
Proof.
  unfold guard_shr. intros H. pose proof (zbits_nonneg a). spec_usize b; [|discriminate]. inversion H. lia.
Qed.

(* ------------------------------------------------------------------ slices *)
Lemma slice_loop_spec left right : (right <= left)%N -> Z.of_N left <= U ->
  slice_loop_work left right = Ok (left - right)%N.
Proof.
  intros Hle Hu. unfold slice_loop_work. replace (left <? right)%N with false by lia.
  unfold bindr. spec_usub left right; try lia. destruct Hs as (-> & _).
  destruct (left - right =? 0)%N eqn:E0. { f_equal. lia. }
  spec_uadd right (left - right - 1)%N; try lia. reflexivity.
Qed.
Lemma checked_slice_spec mb left right : Z.of_N left <= U ->
  guard_checked_slice mb left right =
  if (left <? right)%N then Err else if Z.of_N (left - right) >? mb then Err else Ok (left - right)%N.
Proof.
  intros Hu. unfold guard_checked_slice. destruct (left <? right)%N eqn:E; [reflexivity|].
  unfold bindr. spec_usub left right; try lia. destruct Hs as (-> & _).
  destruct (Z.of_N (left - right) >? mb); [reflexivity|]. apply slice_loop_spec; lia.
Qed.
Lemma slice_cases mb l r :
  guard_slice mb l r =
  if (l <? 0) || (U <=? l) || (r <? 0) || (U <? r) then Err
  else if l + 1 <? r then Err else if l + 1 - r >? mb then Err else Ok (Z.to_N (l + 1 - r)).
Proof.
  unfold guard_slice, bindr, of_opt. spec_usize l.
  2:{ replace ((l <? 0) || (U <=? l)) with true by lia. reflexivity. }
  destruct Hu as (Hl & El). spec_cadd n 1%N.
  2:{ replace ((l <? 0) || (U <=? l)) with true by lia. reflexivity. }
  destruct Hc as (-> & Hc). spec_usize r.
  2:{ replace ((l <? 0) || (U <=? l) || (r <? 0) || (U <? r)) with true by lia. reflexivity. }
  destruct Hu as (Hr & Er).
  replace ((l <? 0) || (U <=? l) || (r <? 0) || (U <? r)) with false by lia.
  rewrite checked_slice_spec by lia.
  destruct (n + 1 <? n0)%N eqn:E1.
  - replace (l + 1 <? r) with true by lia. reflexivity.
  - replace (l + 1 <? r) with false by lia.
    replace (Z.of_N (n + 1 - n0)) with (l + 1 - r) by lia.
    destruct (l + 1 - r >? mb); [reflexivity|]. f_equal. lia.
Qed.
Lemma slice_no_panic mb l r : guard_slice mb l r <> Panic.
Proof. rewrite slice_cases. repeat match goal with |- context [if ?c then _ else _] => destruct c end; discriminate. Qed.
Lemma slice_above mb l r :
  l < 0 \/ r < 0 \/ U <= l \/ U < r \/ l + 1 < r \/ mb < l + 1 - r -> guard_slice mb l r = Err.
Proof.
  intros H. rewrite slice_cases.
  destruct ((l <? 0) || (U <=? l) || (r <? 0) || (U <? r)) eqn:E; [reflexivity|].
  destruct (l + 1 <? r) eqn:E1; [reflexivity|]. destruct (l + 1 - r >? mb) eqn:E2; [reflexivity|]. lia.
Qed.
Lemma slice_work mb l r w : guard_slice mb l r = Ok w -> Z.of_N w = l + 1 - r /\ Z.of_N w <= mb /\ 0 <= r <= l + 1.
Proof.
  rewrite slice_cases.
  destruct ((l <? 0) || (U <=? l) || (r <? 0) || (U <? r)) eqn:E; [discriminate|].
  destruct (l + 1 <? r) eqn:E1; [discriminate|]. destruct (l + 1 - r >? mb) eqn:E2; [discriminate|].
  intros H; inversion H; subst. lia.
Qed.
Lemma slice_short_cases mb s :
  guard_slice_short mb s = if (s <? 0) || (U <? s) then Err else if s >? mb then Err else Ok (Z.to_N s).
Proof.
  unfold guard_slice_short, bindr, of_opt. spec_usize s.
  2:{ replace ((s <? 0) || (U <? s)) with true by lia. reflexivity. }
  destruct Hu as (Hs & Es). replace ((s <? 0) || (U <? s)) with false by lia.
  rewrite checked_slice_spec by lia. replace (n <? 0)%N with false by lia.
  replace (Z.of_N (n - 0)) with s by lia. destruct (s >? mb); [reflexivity|]. f_equal. lia.
Qed.
Lemma slice_short_no_panic mb s : guard_slice_short mb s <> Panic.
Proof. rewrite slice_short_cases. repeat match goal with |- context [if ?c then _ else _] => destruct c end; discriminate. Qed.
Lemma slice_short_above mb s : s < 0 \/ U < s \/ mb < s -> guard_slice_short mb s = Err.
Proof.
  intros H. rewrite slice_short_cases. destruct ((s <? 0) || (U <? s)) eqn:E; [reflexivity|].
  destruct (s >? mb) eqn:E2; [reflexivity|]. lia.
Qed.
Lemma slice_short_work mb s w : guard_slice_short mb s = Ok w -> Z.of_N w = s /\ s <= mb.
Proof.
  rewrite slice_short_cases. destruct ((s <? 0) || (U <? s)) eqn:E; [discriminate|].
  destruct (s >? mb) eqn:E2; [discriminate|]. intros H; inversion H; subst. lia.
Qed.

(* ------------------------------------------------------------------ concat (no guard) and bigint arithmetic *)
Lemma concat_unbounded mb : 1 <= mb -> 2 * mb <= U ->
  exists lw rw w, Z.of_N lw <= mb /\ Z.of_N rw <= mb /\ guard_concat lw rw = Ok w /\ mb < Z.of_N w.
Proof.
  intros H1 H2. exists (Z.to_N mb), (Z.to_N mb), (Z.to_N mb + Z.to_N mb)%N.
  repeat split; try lia. unfold guard_concat. spec_uadd (Z.to_N mb) (Z.to_N mb); try lia.
  destruct Ha as (-> & _). reflexivity.
Qed.
Lemma concat_overflows : guard_concat usize_max 1 = Panic.
Proof. reflexivity. Qed.
Lemma add_no_panic mb a b : guard_add mb a b <> Panic.
Proof. unfold guard_add, guard_add_bits. destruct (_ >=? _); discriminate. Qed.
Lemma sub_no_panic mb a b : guard_sub mb a b <> Panic.
Proof. unfold guard_sub, guard_sub_bits. destruct (_ >=? _); discriminate. Qed.
Lemma mul_no_panic mb a b : guard_mul mb a b <> Panic.
Proof. unfold guard_mul, guard_mul_bits. destruct (_ >=? _); discriminate. Qed.
Lemma add_work mb a b w : guard_add mb a b = Ok w -> Z.of_N w < mb.
Proof.
  unfold guard_add, guard_add_bits. pose proof (zbits_nonneg a). pose proof (zbits_nonneg b).
  destruct (_ >=? _) eqn:E; [discriminate|]. intros X; inversion X; subst. lia.
Qed.
Lemma sub_work mb a b w : guard_sub mb a b = Ok w -> Z.of_N w < mb.
Proof.
  unfold guard_sub, guard_sub_bits. pose proof (zbits_nonneg a). pose proof (zbits_nonneg b).
  destruct (_ >=? _) eqn:E; [discriminate|]. intros X; inversion X; subst. lia.
Qed.
Lemma mul_work mb a b w : guard_mul mb a b = Ok w -> Z.of_N w < mb.
Proof.
  unfold guard_mul, guard_mul_bits. pose proof (zbits_nonneg a). pose proof (zbits_nonneg b).
  destruct (_ >=? _) eqn:E; [discriminate|]. intros X; inversion X; subst.
  assert (2 * (mb / 2) <= mb) by (pose proof (Z.mul_div_le mb 2 ltac:(lia)); lia). lia.
Qed.
Lemma add_above mb a b : mb - 1 <= Z.max (zbits a) (zbits b) -> guard_add mb a b = Err.
Proof. unfold guard_add, guard_add_bits. intros. destruct (_ >=? _) eqn:E; [reflexivity|lia]. Qed.
Lemma mul_above mb a b : mb / 2 <= Z.max (zbits a) (zbits b) -> guard_mul mb a b = Err.
Proof. unfold guard_mul, guard_mul_bits. intros. destruct (_ >=? _) eqn:E; [reflexivity|lia]. Qed.

(* ------------------------------------------------------------------ width suffixes *)
Lemma width_cases mb n :
  guard_width_suffix mb n = if (n <? 0) || (U <? n) then Err else if n >? mb then Err else Ok (Z.to_N n).
Proof.
  unfold guard_width_suffix, parse_usize, bindr, of_opt. spec_usize n.
  - destruct Hu as (Hn & En). replace ((n <? 0) || (U <? n)) with false by lia. rewrite En.
    destruct (n >? mb); [reflexivity|]. f_equal. lia.
  - replace ((n <? 0) || (U <? n)) with true by lia. reflexivity.
Qed.
Lemma width_no_panic mb n : guard_width_suffix mb n <> Panic.
Proof. rewrite width_cases. repeat match goal with |- context [if ?c then _ else _] => destruct c end; discriminate. Qed.
Lemma width_above mb n : mb < n -> guard_width_suffix mb n = Err.
Proof.
  intros H. rewrite width_cases. destruct ((n <? 0) || (U <? n)); [reflexivity|].
  destruct (n >? mb) eqn:E; [reflexivity|lia].
Qed.
Lemma width_work mb n w : guard_width_suffix mb n = Ok w -> Z.of_N w = n /\ n <= mb.
Proof.
  rewrite width_cases. destruct ((n <? 0) || (U <? n)) eqn:E; [discriminate|].
  destruct (n >? mb) eqn:E2; [discriminate|]. intros H; inversion H; subst. lia.
Qed.

(* ------------------------------------------------------------------ #res *)
Lemma res_cases unit v :
  guard_res unit v = if (v <? 0) || (4294967295 <? v) || (U <? v * Z.of_N unit) then Err else Ok (Z.to_N v * unit)%N.
Proof.
  unfold guard_res, bindr, of_opt. spec_u32 v.
  - destruct Hu as (Hv & Ev). spec_cmul n unit.
    + destruct Hc as (-> & Hc). replace ((v <? 0) || (4294967295 <? v) || (U <? v * Z.of_N unit)) with false by nia.
      f_equal. f_equal. lia.
    + replace ((v <? 0) || (4294967295 <? v) || (U <? v * Z.of_N unit)) with true by nia. reflexivity.
  - replace ((v <? 0) || (4294967295 <? v)) with true by lia. reflexivity.
Qed.
Lemma res_no_panic unit v : guard_res unit v <> Panic.
Proof. rewrite res_cases. destruct (_ || _); discriminate. Qed.
Lemma res_above unit v : v < 0 \/ 4294967295 < v \/ U < v * Z.of_N unit -> guard_res unit v = Err.
Proof. intros H. rewrite res_cases. destruct (_ || _) eqn:E; [reflexivity|lia]. Qed.
Lemma res_work unit v s : guard_res unit v = Ok s -> Z.of_N s = v * Z.of_N unit /\ Z.of_N s <= U.
Proof. rewrite res_cases. destruct (_ || _) eqn:E; [discriminate|]. intros H; inversion H; subst. lia. Qed.
Lemma advance_by_cases pos size :
  advance_by pos size = if U <? Z.of_N pos + Z.of_N size then Err else Ok (pos + size)%N.
Proof.
  unfold advance_by, checked_position. spec_cadd pos size.
  - destruct Hc as (-> & Hc). replace (U <? Z.of_N pos + Z.of_N size) with false by lia. reflexivity.
  - replace (U <? Z.of_N pos + Z.of_N size) with true by lia. reflexivity.
Qed.
Lemma res_position_no_panic unit pos v : guard_res_position unit pos v <> Panic.
Proof.
  unfold guard_res_position, bindr. pose proof (res_no_panic unit v). destruct (guard_res unit v); try congruence; try discriminate.
  rewrite advance_by_cases. destruct (_ <? _); discriminate.
Qed.
Lemma res_position_work unit pos v p : guard_res_position unit pos v = Ok p ->
  Z.of_N p = Z.of_N pos + v * Z.of_N unit /\ Z.of_N p <= U.
Proof.
  unfold guard_res_position, bindr. destruct (guard_res unit v) eqn:E; try discriminate.
  apply res_work in E. rewrite advance_by_cases. destruct (_ <? _) eqn:E2; [discriminate|].
  intros H; inversion H; subst. lia.
Qed.

(* ------------------------------------------------------------------ #align *)
Lemma align_value_cases v : guard_align_value v = if (v <=? 0) || (U <? v) then Err else Ok (Z.to_N v).
Proof.
  unfold guard_align_value, bindr, of_opt. spec_usize v.
  - destruct Hu as (Hv & Ev). destruct (n =? 0)%N eqn:E0.
    + replace ((v <=? 0) || (U <? v)) with true by lia. reflexivity.
    + replace ((v <=? 0) || (U <? v)) with false by lia. f_equal. lia.
  - replace ((v <=? 0) || (U <? v)) with true by lia. reflexivity.
Qed.
Lemma big_no_panic mb a b : big_add mb a b <> Panic /\ big_sub mb a b <> Panic /\ big_mul mb a b <> Panic /\ big_mod a b <> Panic.
Proof.
  unfold big_add, big_sub, big_mul, big_mod.
  repeat split; match goal with |- context [if ?c then _ else _] => destruct c end; discriminate.
Qed.
Lemma bits_until_alignment_no_panic c al : bits_until_alignment c al <> Panic.
Proof.
  unfold bits_until_alignment. destruct (al =? 0)%N eqn:E0; [discriminate|].
  unfold big_mod. replace (Z.of_N al =? 0) with false by lia.
  spec_usize (Z.rem c (Z.of_N al)); [|discriminate]. destruct Hu as (Hr & Er).
  destruct (n =? 0)%N eqn:En; cbn [negb]; [discriminate|].
  pose proof (Z.rem_bound_abs c (Z.of_N al) ltac:(lia)).
  destruct (n <=? al)%N eqn:El; [discriminate|]. lia.
Qed.
Lemma align_position_no_panic mb b pos al : align_position mb b pos al <> Panic.
Proof.
  unfold align_position, cur_address_in_bits.
  destruct (big_no_panic mb (bk_addr b) (Z.of_N (bk_unit b))) as (_ & _ & Hm & _).
  destruct (big_mul mb (bk_addr b) (Z.of_N (bk_unit b))) as [m| |]; try congruence; try discriminate.
  destruct (big_no_panic mb m (Z.of_N pos)) as (Ha & _).
  destruct (big_add mb m (Z.of_N pos)) as [c| |]; try congruence; try discriminate.
  pose proof (bits_until_alignment_no_panic c al).
  destruct (bits_until_alignment c al); try congruence; try discriminate.
  unfold checked_position. destruct (checked_add pos a); discriminate.
Qed.
Lemma align_guard_no_panic mb b pos v : guard_align_position mb b pos v <> Panic.
Proof.
  unfold guard_align_position, bindr. rewrite align_value_cases. destruct (_ || _); [discriminate|].
  apply align_position_no_panic.
Qed.
Lemma align_above mb b pos v : v <= 0 \/ U < v -> guard_align_position mb b pos v = Err.
Proof.
  intros H. unfold guard_align_position, bindr. rewrite align_value_cases.
  destruct (_ || _) eqn:E; [reflexivity|lia].
Qed.
Lemma align_work mb b pos v p : guard_align_position mb b pos v = Ok p ->
  (pos <= p)%N /\ Z.of_N p - Z.of_N pos < v /\ Z.of_N p <= U.
Proof.
  unfold guard_align_position, bindr. rewrite align_value_cases. destruct (_ || _) eqn:E; [discriminate|].
  intros H. pose proof H as H'. apply CursorP.align_position_spec in H; [|lia].
  destruct H as (H1 & H2 & _). split; [exact H1|]. split; [lia|].
  unfold align_position in H'. destruct (cur_address_in_bits mb b pos) as [ca| |]; try discriminate.
  destruct (bits_until_alignment ca (Z.to_N v)) as [pad| |]; try discriminate.
  unfold checked_position in H'. spec_cadd pos pad; [|discriminate]. inversion H'; subst. lia.
Qed.

(* ------------------------------------------------------------------ #addr *)
Lemma addr_position_no_panic mb b a : addr_position mb b a <> Panic.
Proof.
  unfold addr_position. destruct (bk_addr b <=? a); [|discriminate].
  destruct (big_no_panic mb a (bk_addr b)) as (_ & Hs & _).
  destruct (big_sub mb a (bk_addr b)); try congruence; try discriminate.
  unfold checked_position. destruct (Cursor.checked_mul _ _); discriminate.
Qed.
Lemma addr_guard_no_panic mb b a : guard_addr_position mb b a <> Panic.
Proof.
  unfold guard_addr_position, guard_addr_value, bindr, of_opt. destruct (a <? bk_addr b); [discriminate|].
  destruct (big_no_panic mb a (bk_addr b)) as (_ & Hs & _).
  destruct (big_sub mb a (bk_addr b)) as [d| |]; try congruence; try discriminate.
  destruct (big_no_panic mb d (Z.of_N (bk_unit b))) as (_ & _ & Hm & _).
  destruct (big_mul mb d (Z.of_N (bk_unit b))) as [m| |]; try congruence; try discriminate.
  destruct (to_usize m); [|discriminate].
  destruct (bk_size b); [destruct (_ <=? _)%N|]; try discriminate; apply addr_position_no_panic.
Qed.
Lemma addr_above mb b a : a < bk_addr b \/ U < (a - bk_addr b) * Z.of_N (bk_unit b) -> guard_addr_position mb b a = Err.
Proof.
  intros H. unfold guard_addr_position, guard_addr_value, bindr, of_opt.
  destruct (a <? bk_addr b) eqn:E; [reflexivity|].
  destruct (big_sub mb a (bk_addr b)) as [d| |] eqn:Ed; try reflexivity.
  2:{ destruct (big_no_panic mb a (bk_addr b)) as (_ & Hs & _). congruence. }
  apply CursorP.big_sub_ok in Ed. subst d.
  destruct (big_mul mb _ _) as [m| |] eqn:Em; try reflexivity.
  2:{ destruct (big_no_panic mb (a - bk_addr b) (Z.of_N (bk_unit b))) as (_ & _ & Hm & _). congruence. }
  apply CursorP.big_mul_ok in Em. subst m.
  spec_usize ((a - bk_addr b) * Z.of_N (bk_unit b)); [lia|reflexivity].
Qed.
Lemma addr_work mb b a p : guard_addr_position mb b a = Ok p ->
  Z.of_N p = (a - bk_addr b) * Z.of_N (bk_unit b) /\ Z.of_N p <= U /\
  match bk_size b with Some sz => (p < sz)%N | None => True end.
Proof.
  unfold guard_addr_position, guard_addr_value, bindr, of_opt.
  destruct (a <? bk_addr b) eqn:E; [discriminate|].
  destruct (big_sub mb a (bk_addr b)) as [d| |] eqn:Ed; try discriminate.
  apply CursorP.big_sub_ok in Ed. subst d.
  destruct (big_mul mb _ _) as [m| |] eqn:Em; try discriminate.
  apply CursorP.big_mul_ok in Em. subst m.
  spec_usize ((a - bk_addr b) * Z.of_N (bk_unit b)); [|discriminate]. destruct Hu as (Hm & En).
  assert (Hp : addr_position mb b a = Ok p -> Z.of_N p = (a - bk_addr b) * Z.of_N (bk_unit b)).
  { unfold addr_position. replace (bk_addr b <=? a) with true by lia.
    destruct (big_sub mb a (bk_addr b)) as [d| |] eqn:Ed; try discriminate.
    apply CursorP.big_sub_ok in Ed. subst d. unfold checked_position.
    pose proof (to_usize_spec (a - bk_addr b)) as Hd. destruct (to_usize (a - bk_addr b)) as [x|].
    - pose proof (CursorP.checked_mul_some x (bk_unit b)) as Hc. destruct (Cursor.checked_mul x (bk_unit b)); [|discriminate].
      intros Hp. inversion Hp; subst. specialize (Hc _ eq_refl). subst. nia.
    - pose proof (CursorP.checked_mul_some 0%N (bk_unit b)) as Hc. destruct (Cursor.checked_mul 0 (bk_unit b)); [|discriminate].
      intros Hp. inversion Hp; subst. specialize (Hc _ eq_refl). subst.
      destruct (Z.eq_dec (Z.of_N (bk_unit b)) 0) as [Hz|Hz]; [rewrite Hz; lia|].
      exfalso. assert (1 <= Z.of_N (bk_unit b)) by lia. nia. }
  destruct (bk_size b) as [sz|].
  - destruct (sz <=? n)%N eqn:Es; [discriminate|]. intros H. specialize (Hp H). repeat split; lia.
  - intros H. specialize (Hp H). repeat split; lia.
Qed.

(* ------------------------------------------------------------------ #bankdef *)
Lemma expect_usize_cases v : expect_usize v = if (v <? 0) || (U <? v) then Err else Ok (Z.to_N v).
Proof.
  unfold expect_usize, of_opt. spec_usize v.
  - replace ((v <? 0) || (U <? v)) with false by lia. f_equal. lia.
  - replace ((v <? 0) || (U <? v)) with true by lia. reflexivity.
Qed.
Lemma expect_nonzero_cases v : expect_nonzero_usize v = if (v <=? 0) || (U <? v) then Err else Ok (Z.to_N v).
Proof.
  unfold expect_nonzero_usize, bindr. rewrite expect_usize_cases.
  destruct ((v <? 0) || (U <? v)) eqn:E.
  - replace ((v <=? 0) || (U <? v)) with true by lia. reflexivity.
  - destruct (Z.to_N v =? 0)%N eqn:E0.
    + replace ((v <=? 0) || (U <? v)) with true by lia. reflexivity.
    + replace ((v <=? 0) || (U <? v)) with false by lia. reflexivity.
Qed.
Definition fits (o : option N) : Prop := match o with Some n => Z.of_N n <= U | None => True end.
Lemma opt_usize_spec o r : opt_field o expect_usize = Ok r ->
  fits r /\ match o, r with Some v, Some n => Z.of_N n = v | None, None => True | _, _ => False end.
Proof.
  unfold opt_field, bindr. destruct o as [v|]; [|intros H; inversion H; subst; cbn; auto].
  rewrite expect_usize_cases. destruct (_ || _) eqn:E; [discriminate|]. intros H; inversion H; subst. cbn. lia.
Qed.
Lemma opt_usize_no_panic o : opt_field o expect_usize <> Panic.
Proof. unfold opt_field, bindr. destruct o; [|discriminate]. rewrite expect_usize_cases. destruct (_ || _); discriminate. Qed.

Lemma bankdef_no_panic mb s : guard_bankdef mb s <> Panic.
Proof.
  unfold guard_bankdef, bindr.
  assert (Hu : match s_bits s with None => Ok 8%N | Some v => expect_nonzero_usize v end <> Panic).
  { destruct (s_bits s); [|discriminate]. rewrite expect_nonzero_cases. destruct (_ || _); discriminate. }
  destruct (match s_bits s with None => Ok 8%N | Some v => expect_nonzero_usize v end) as [unit| |]; try congruence; try discriminate.
  pose proof (opt_usize_no_panic (s_labelalign s)). destruct (opt_field (s_labelalign s) expect_usize) as [la| |]; try congruence; try discriminate.
  pose proof (opt_usize_no_panic (s_size s)). destruct (opt_field (s_size s) expect_usize) as [asz| |]; try congruence; try discriminate.
  assert (Ha : match asz, s_addr_end s with
    | None, None => Ok None
    | Some sz, None => Ok (Some sz)
    | None, Some e => match big_sub mb e (match s_addr s with None => 0 | Some a => a end) with
                      | Ok d => match expect_usize d with Ok n => Ok (Some n) | Err => Err | Panic => Panic end
                      | Err => Err | Panic => Panic end
    | Some _, Some _ => Err end <> Panic).
  { destruct asz, (s_addr_end s); try discriminate.
    destruct (big_no_panic mb z (match s_addr s with None => 0 | Some a => a end)) as (_ & Hs & _).
    destruct (big_sub mb z _); try congruence; try discriminate.
    rewrite expect_usize_cases. destruct (_ || _); discriminate. }
  match goal with |- context [match ?X with Ok a => _ | Err => Err | Panic => Panic end] =>
    match X with context [s_addr_end] => destruct X as [addr_size| |] end end; try congruence; try discriminate.
  assert (Hsz : match addr_size with
               | None => Ok None
               | Some sz => match of_opt (Cursor.checked_mul sz unit) with Ok x => Ok (Some x) | Err => Err | Panic => Panic end
               end <> Panic).
  { destruct addr_size; [|discriminate]. unfold of_opt. destruct (Cursor.checked_mul n unit); discriminate. }
  match goal with |- context [match ?X with Ok a => _ | Err => Err | Panic => Panic end] =>
    match X with context [addr_size] => destruct X as [size| |] end end; try congruence; try discriminate.
  pose proof (opt_usize_no_panic (s_outp s)). destruct (opt_field (s_outp s) expect_usize) as [outp| |]; try congruence; try discriminate.
Qed.

(* what an accepted #bankdef looks like: every field is a usize, bits is non-zero, size = given size * bits *)
Lemma bankdef_ok mb s b : guard_bankdef mb s = Ok b ->
  bk_unit b <> 0%N /\ Z.of_N (bk_unit b) <= U /\ fits (bk_labelalign b) /\ fits (bk_size b) /\ fits (bk_outp b) /\
  match s_bits s with Some v => Z.of_N (bk_unit b) = v | None => bk_unit b = 8%N end /\
  match s_size s, bk_size b with Some v, Some sz => Z.of_N sz = v * Z.of_N (bk_unit b) | Some _, None => False | None, _ => True end /\
  match s_outp s, bk_outp b with Some v, Some o => Z.of_N o = v | None, None => True | _, _ => False end /\
  match s_labelalign s, bk_labelalign b with Some v, Some o => Z.of_N o = v | None, None => True | _, _ => False end.
Proof.
  unfold guard_bankdef, bindr.
  destruct (match s_bits s with None => Ok 8%N | Some v => expect_nonzero_usize v end) as [unit| |] eqn:Eu; try discriminate.
  assert (Hunit : unit <> 0%N /\ Z.of_N unit <= U /\ match s_bits s with Some v => Z.of_N unit = v | None => unit = 8%N end).
  { destruct (s_bits s) as [v|].
    - rewrite expect_nonzero_cases in Eu. destruct (_ || _) eqn:E; [discriminate|]. inversion Eu; subst. lia.
    - inversion Eu; subst. unfold U. lia. }
  destruct (opt_field (s_labelalign s) expect_usize) as [la| |] eqn:Ela; try discriminate.
  apply opt_usize_spec in Ela.
  destruct (opt_field (s_size s) expect_usize) as [asz| |] eqn:Esz; try discriminate.
  apply opt_usize_spec in Esz.
  match goal with |- context [match ?X with Ok a => _ | Err => Err | Panic => Panic end] =>
    match X with context [s_addr_end] => destruct X as [addr_size| |] eqn:Eas end end; try discriminate.
  match goal with |- context [match ?X with Ok a => _ | Err => Err | Panic => Panic end] =>
    match X with context [addr_size] => destruct X as [size| |] eqn:Esize end end; try discriminate.
  destruct (opt_field (s_outp s) expect_usize) as [outp| |] eqn:Eo; try discriminate.
  apply opt_usize_spec in Eo.
  intros H; inversion H; subst; clear H. cbn [bk_unit bk_labelalign bk_size bk_outp].
  destruct Hunit as (H1 & H2 & H3). destruct Ela as (L1 & L2). destruct Eo as (O1 & O2). destruct Esz as (S1 & S2).
  split; [exact H1|]. split; [exact H2|]. split; [exact L1|].
  assert (Hsize : fits size /\ match s_size s, size with Some v, Some sz => Z.of_N sz = v * Z.of_N unit | Some _, None => False | None, _ => True end).
  { destruct addr_size as [n|].
    - unfold of_opt in Esize. spec_cmul n unit; [|discriminate]. destruct Hc as (-> & Hc). inversion Esize; subst.
      split; [cbn; lia|]. destruct (s_size s) as [v|]; [|exact I].
      destruct asz as [a|]; [|contradiction]. destruct (s_addr_end s); [discriminate|]. inversion Eas; subst. lia.
    - inversion Esize; subst. split; [exact I|]. destruct (s_size s) as [v|]; [|exact I].
      destruct asz as [a|]; [|contradiction]. destruct (s_addr_end s); discriminate. }
  destruct Hsize as (Z1 & Z2).
  split; [exact Z1|]. split; [exact O1|]. split; [exact H3|]. split; [exact Z2|]. split; assumption.
Qed.
Lemma bankdef_bits_above mb s v : s_bits s = Some v -> v <= 0 \/ U < v -> guard_bankdef mb s = Err.
Proof.
  intros Hs H. unfold guard_bankdef, bindr. rewrite Hs, expect_nonzero_cases.
  destruct (_ || _) eqn:E; [reflexivity|lia].
Qed.
Lemma bankdef_field_above mb s : 
  (exists v, s_labelalign s = Some v /\ (v < 0 \/ U < v)) \/
  (exists v, s_size s = Some v /\ (v < 0 \/ U < v)) \/
  (exists v, s_outp s = Some v /\ (v < 0 \/ U < v)) \/
  (exists v u, s_size s = Some v /\ s_bits s = Some u /\ U < v * u) ->
  guard_bankdef mb s = Err.
Proof.
  intros H. pose proof (bankdef_no_panic mb s) as Hnp.
  destruct (guard_bankdef mb s) as [b| |] eqn:E; [|reflexivity|congruence].
  exfalso. apply bankdef_ok in E. destruct E as (Hnz & _ & F1 & F2 & F3 & B & S & O & L).
  assert (Hu1 : 1 <= Z.of_N (bk_unit b)) by lia.
  destruct H as [(v & Hv & Hr)|[(v & Hv & Hr)|[(v & Hv & Hr)|(v & u & Hv & Hu & Hr)]]].
  - rewrite Hv in L. destruct (bk_labelalign b); [cbn in F1; lia|contradiction].
  - rewrite Hv in S. destruct (bk_size b) as [sz|]; [|contradiction]. cbn in F2.
    destruct Hr; nia.
  - rewrite Hv in O. destruct (bk_outp b); [cbn in F3; lia|contradiction].
  - rewrite Hv in S. rewrite Hu in B. destruct (bk_size b) as [sz|]; [|contradiction]. cbn in F2. nia.
Qed.

(* ------------------------------------------------------------------ output placement *)
Lemma fill_no_panic mb b : guard_fill mb b <> Panic.
Proof.
  unfold guard_fill, bindr. destruct (negb (bk_fill b)); [discriminate|].
  destruct (bk_size b) as [size|]; [|discriminate]. destruct (bk_outp b) as [off|]; [|discriminate].
  destruct (size =? 0)%N eqn:E0; [discriminate|]. spec_cadd off size; [|discriminate].
  destruct Hc as (-> & Hc). destruct (_ >? mb); [discriminate|].
  spec_uadd off size; try lia; try discriminate. destruct Ha as (-> & _).
  spec_usub (off + size)%N 1%N; try lia; discriminate.
Qed.
Lemma fill_work mb b w : guard_fill mb b = Ok w -> Z.of_N w <= Z.max 0 mb.
Proof.
  unfold guard_fill, bindr. destruct (negb (bk_fill b)); [intros H; inversion H; lia|].
  destruct (bk_size b) as [size|]; [|intros H; inversion H; lia]. destruct (bk_outp b) as [off|]; [|intros H; inversion H; lia].
  destruct (size =? 0)%N eqn:E0; [intros H; inversion H; lia|]. spec_cadd off size; [|discriminate].
  destruct Hc as (-> & Hc). destruct (_ >? mb) eqn:Em; [discriminate|].
  spec_uadd off size; try discriminate. destruct Ha as (-> & _).
  spec_usub (off + size)%N 1%N; try discriminate. destruct Hs as (-> & _). intros H; inversion H; subst. lia.
Qed.
Lemma fill_above mb b size off : bk_fill b = true -> bk_size b = Some size -> bk_outp b = Some off -> size <> 0%N ->
  mb < Z.of_N off + Z.of_N size -> guard_fill mb b = Err.
Proof.
  intros Hf Hs Ho Hz H. unfold guard_fill. rewrite Hf, Hs, Ho. cbn [negb].
  replace (size =? 0)%N with false by lia. spec_cadd off size; [|reflexivity].
  destruct Hc as (-> & Hc). destruct (_ >? mb) eqn:E; [reflexivity|lia].
Qed.

(* the resolver's checked advance over the item has succeeded before build_output looks at it *)
Definition advanced (pos size : N) : Prop := Z.of_N pos + Z.of_N size <= U.
Lemma advanced_iff pos size : advanced pos size <-> advance_by pos size <> Err.
Proof. unfold advanced. rewrite advance_by_cases. destruct (_ <? _) eqn:E; split; intros; try lia; try congruence; discriminate. Qed.

Lemma bank_output_no_panic mb b pos size wr : guard_bank_output mb b pos size wr <> Panic.
Proof.
  unfold guard_bank_output, bindr.
  assert (Hw : match wr, bk_outp b with
    | true, Some off => match checked_add off pos with None => Err | Some p => match checked_add p size with None => Err
        | Some e => if Z.of_N e >? mb then Err else Ok e end end
    | true, None => Err | false, _ => Ok 0%N end <> Panic).
  { destruct wr; [|discriminate]. destruct (bk_outp b) as [off|]; [|discriminate].
    destruct (checked_add off pos) as [p|]; [|discriminate]. destruct (checked_add p size); [|discriminate].
    destruct (_ >? mb); discriminate. }
  destruct (bk_size b) as [bsz|]; [|exact Hw].
  destruct (checked_add pos size) as [e|]; [|discriminate]. destruct (bsz <? e)%N; [discriminate|exact Hw].
Qed.
Lemma bank_output_work mb b pos size wr w : guard_bank_output mb b pos size wr = Ok w ->
  Z.of_N w <= Z.max 0 mb /\
  (wr = true -> exists off, bk_outp b = Some off /\ Z.of_N w = Z.of_N off + Z.of_N pos + Z.of_N size /\ Z.of_N w <= mb) /\
  match bk_size b with Some bsz => Z.of_N pos + Z.of_N size <= Z.of_N bsz | None => True end.
Proof.
  unfold guard_bank_output, bindr.
  assert (Hw : match wr, bk_outp b with
    | true, Some off => match checked_add off pos with None => Err | Some p => match checked_add p size with None => Err
        | Some e => if Z.of_N e >? mb then Err else Ok e end end
    | true, None => Err | false, _ => Ok 0%N end = Ok w ->
    Z.of_N w <= Z.max 0 mb /\ (wr = true -> exists off, bk_outp b = Some off /\ Z.of_N w = Z.of_N off + Z.of_N pos + Z.of_N size /\ Z.of_N w <= mb)).
  { destruct wr.
    - destruct (bk_outp b) as [off|]; [|discriminate]. spec_cadd off pos; [|discriminate]. destruct Hc as (-> & _).
      spec_cadd (off + pos)%N size; [|discriminate]. destruct Hc as (-> & _). destruct (_ >? mb) eqn:E; [discriminate|].
      intros H; inversion H; subst. split; [lia|]. intros _. exists off. split; [reflexivity|lia].
    - intros H; inversion H; subst. split; [lia|]. discriminate. }
  destruct (bk_size b) as [bsz|].
  - spec_cadd pos size; [|discriminate]. destruct Hc as (-> & _). destruct (bsz <? pos + size)%N eqn:E; [discriminate|].
    intros H. apply Hw in H. destruct H. repeat split; try assumption. lia.
  - intros H. apply Hw in H. destruct H. repeat split; assumption.
Qed.
Lemma bank_output_above mb b pos size off : bk_outp b = Some off ->
  mb < Z.of_N off + Z.of_N pos + Z.of_N size -> guard_bank_output mb b pos size true = Err.
Proof.
  intros Ho H. pose proof (bank_output_no_panic mb b pos size true) as Hnp.
  destruct (guard_bank_output mb b pos size true) as [w| |] eqn:E; [|reflexivity|congruence].
  apply bank_output_work in E. destruct E as (E1 & E2 & _). destruct (E2 eq_refl) as (off' & Ho' & Hw & Hle).
  rewrite Ho in Ho'. inversion Ho'; subst. lia.
Qed.
(* a bank with a declared size: an item that does not fit -- also when position + size is not representable -- is an error *)
Lemma bank_output_size_above mb b pos size wr bsz : bk_size b = Some bsz ->
  Z.of_N bsz < Z.of_N pos + Z.of_N size -> guard_bank_output mb b pos size wr = Err.
Proof.
  intros Hs H. unfold guard_bank_output, bindr. rewrite Hs. spec_cadd pos size; [|reflexivity].
  destruct Hc as (-> & _). replace (bsz <? pos + size)%N with true by lia. reflexivity.
Qed.
(* placing an item: the range check, then the output position; written items unwrap it AFTER the range check proved it
   representable; labels and #res never unwrap it.  No case overflows or panics. *)
Lemma place_item_no_panic mb b pos size wr : mb <= U -> place_item mb b pos size wr <> Panic.
Proof.
  intros Hmb. unfold place_item, bindr.
  pose proof (bank_output_no_panic mb b pos size wr) as Hnp.
  destruct (guard_bank_output mb b pos size wr) as [w| |] eqn:E; try congruence; try discriminate.
  destruct wr; [|discriminate].
  apply bank_output_work in E. destruct E as (E1 & E2 & _). destruct (E2 eq_refl) as (off & Ho & Hw & Hle).
  unfold output_position. rewrite Ho. spec_cadd off pos; [discriminate|]. lia.
Qed.
Lemma place_written_work mb b pos size w : place_item mb b pos size true = Ok w -> Z.of_N w <= Z.max 0 mb.
Proof.
  unfold place_item, bindr. destruct (guard_bank_output mb b pos size true) as [w'| |] eqn:E; try discriminate.
  apply bank_output_work in E. destruct (output_position b pos); try discriminate.
  intros H; inversion H; subst. tauto.
Qed.
(* the output position of a label / #res is simply absent when outp + position is not representable *)
Lemma output_position_spec b pos :
  match output_position b pos with
  | Some p => exists off, bk_outp b = Some off /\ p = (off + pos)%N /\ Z.of_N p <= U
  | None => bk_outp b = None \/ exists off, bk_outp b = Some off /\ U < Z.of_N off + Z.of_N pos
  end.
Proof.
  unfold output_position. destruct (bk_outp b) as [off|]; [|left; reflexivity].
  spec_cadd off pos.
  - destruct Hc as (-> & Hc). exists off. repeat split; lia.
  - right. exists off. split; [reflexivity|lia].
Qed.
(* check_bank_overlap: total; a window whose end is not representable ends after everything *)
Lemma bank_overlap_no_panic b1 b2 : guard_bank_overlap b1 b2 <> Panic.
Proof. unfold guard_bank_overlap. destruct (bk_outp b1), (bk_outp b2); discriminate. Qed.
Lemma ends_after_spec outp size other : Z.of_N other <= U ->
  ends_after outp size other = (Z.of_N other <? Z.of_N outp + Z.of_N size).
Proof. intros Ho. unfold ends_after. spec_cadd outp size; [destruct Hc as (-> & _)|]; lia. Qed.
(* the asm block's inner position: checked like every other advance *)
Lemma asm_block_positions_no_panic pos sizes : asm_block_positions pos sizes <> Panic.
Proof.
  revert pos. induction sizes as [|s r IH]; intros pos; cbn [asm_block_positions]; [discriminate|].
  unfold bindr. rewrite advance_by_cases. destruct (_ <? _); [discriminate|apply IH].
Qed.
Lemma asm_block_positions_fits pos sizes p : Z.of_N pos <= U -> asm_block_positions pos sizes = Ok p ->
  Z.of_N p = Z.of_N pos + Z.of_N (fold_right N.add 0%N sizes) /\ Z.of_N p <= U.
Proof.
  revert pos. induction sizes as [|s r IH]; intros pos Hp H; cbn [asm_block_positions fold_right] in *.
  - inversion H; subst. lia.
  - unfold bindr in H. rewrite advance_by_cases in H. destruct (_ <? _) eqn:E; [discriminate|].
    apply IH in H; lia.
Qed.

(* ------------------------------------------------------------------ inclusion ranges *)
Lemma incbin_no_panic bytes a : Z.of_nat (length bytes) <= IncFnsP.isize_max -> guard_incbin bytes a <> Panic.
Proof.
  intros L. unfold guard_incbin, of_rres. destruct (IncFnsP.incbin_no_panic bytes a L) as (H1 & H2).
  destruct (IncFns.incbin bytes a); try congruence; discriminate.
Qed.
Lemma incstr_no_panic bpc chars a : (1 <= bpc)%nat ->
  (forall ds, IncFns.read_digits bpc chars = Some ds -> Z.of_nat (length ds * bpc) <= IncFnsP.isize_max) ->
  guard_incstr bpc chars a <> Panic.
Proof.
  intros B L. unfold guard_incstr, of_rres. destruct (IncFnsP.incstr_no_panic bpc chars a B L) as (H1 & H2).
  destruct (IncFns.incstr bpc chars a); try congruence; discriminate.
Qed.
Lemma slice_range_length {A} (l : list A) s e r : IncFns.slice_range l s e = Some r -> (length r <= length l)%nat.
Proof.
  unfold IncFns.slice_range. destruct (_ && _) eqn:E; [|discriminate]. intros H; inversion H; subst.
  rewrite firstn_length, skipn_length. lia.
Qed.
Lemma incbin_work bytes a w : guard_incbin bytes a = Ok w -> (w <= N.of_nat (length bytes))%N.
Proof.
  unfold guard_incbin, of_rres, IncFns.incbin.
  destruct (IncFns.arg_start a) as [st|]; [|discriminate].
  destruct (IncFns.arg_end a st _) as [e|]; [|discriminate].
  destruct (_ && _). { intros H; inversion H; subst. cbn. lia. }
  destruct (st >=? _); [discriminate|]. destruct (e >? _); [discriminate|].
  destruct (IncFns.slice_range bytes st e) as [r|] eqn:Er; [|discriminate].
  apply slice_range_length in Er. intros H; inversion H; subst. lia.
Qed.
Lemma incbin_above bytes a st : IncFns.arg_start a = Some st -> Z.of_nat (length bytes) <= st -> bytes <> [] ->
  guard_incbin bytes a = Err.
Proof.
  intros Hs H Hne. unfold guard_incbin, of_rres, IncFns.incbin. rewrite Hs.
  destruct (IncFns.arg_end a st _) as [e|]; [|reflexivity].
  assert (Z.of_nat (length bytes) =? 0 = false) by (destruct bytes; [congruence|cbn [length]; lia]).
  rewrite H0. cbn [andb]. replace (st >=? Z.of_nat (length bytes)) with true by lia. reflexivity.
Qed.
Lemma incbin_size_above bytes st sz : Z.of_nat (length bytes) <= IncFnsP.isize_max ->
  st < 0 \/ sz < 0 \/ Z.of_nat (length bytes) < st + sz -> guard_incbin bytes (IncFns.A3 st sz) = Err.
Proof.
  intros L H. unfold guard_incbin, of_rres. rewrite IncFnsP.incbin_A3 by exact L.
  destruct (_ && _) eqn:E; [lia|reflexivity].
Qed.

(* ------------------------------------------------------------------ command line *)
Lemma group_cases lo hi v :
  guard_group lo hi v = if (v <? 0) || (U <? v) then Err
                        else if (Z.of_N lo <=? v) && (v <=? Z.of_N hi) then Ok (Z.to_N v) else Err.
Proof.
  unfold guard_group, parse_usize, bindr, of_opt. spec_usize v.
  - replace ((v <? 0) || (U <? v)) with false by lia.
    destruct ((lo <=? n)%N && (n <=? hi)%N) eqn:E.
    + replace ((Z.of_N lo <=? v) && (v <=? Z.of_N hi)) with true by lia. f_equal. lia.
    + replace ((Z.of_N lo <=? v) && (v <=? Z.of_N hi)) with false by lia. reflexivity.
  - replace ((v <? 0) || (U <? v)) with true by lia. reflexivity.
Qed.
Lemma group_no_panic lo hi v : guard_group lo hi v <> Panic.
Proof. rewrite group_cases. repeat match goal with |- context [if ?c then _ else _] => destruct c end; discriminate. Qed.
Lemma group_above lo hi v : Z.of_N hi < v \/ v < Z.of_N lo -> guard_group lo hi v = Err.
Proof.
  intros H. rewrite group_cases. destruct ((v <? 0) || (U <? v)); [reflexivity|].
  destruct (_ && _) eqn:E; [lia|reflexivity].
Qed.
Lemma group_work lo hi v w : guard_group lo hi v = Ok w -> Z.of_N w = v /\ Z.of_N lo <= v <= Z.of_N hi.
Proof.
  rewrite group_cases. destruct ((v <? 0) || (U <? v)) eqn:E0; [discriminate|].
  destruct (_ && _) eqn:E; [|discriminate]. intros H; inversion H; subst. lia.
Qed.

(* ------------------------------------------------------------------ every position update of the iterator is checked *)
Lemma advance_by_no_panic pos size : advance_by pos size <> Panic.
Proof. rewrite advance_by_cases. destruct (_ <? _); discriminate. Qed.
Lemma advance_by_fits pos size p : advance_by pos size = Ok p -> Z.of_N p = Z.of_N pos + Z.of_N size /\ Z.of_N p <= U.
Proof. rewrite advance_by_cases. destruct (_ <? _) eqn:E; [discriminate|]. intros H; inversion H; subst. lia. Qed.
(* the padding of a label (#labelalign) and of #align: the padded position is a usize or the directive is an error *)
Lemma align_position_fits mb b pos al p : align_position mb b pos al = Ok p -> (pos <= p)%N /\ Z.of_N p <= U.
Proof.
  unfold align_position. destruct (cur_address_in_bits mb b pos) as [ca| |]; try discriminate.
  destruct (bits_until_alignment ca al) as [pad| |]; try discriminate.
  unfold checked_position. spec_cadd pos pad; [|discriminate]. intros H; inversion H; subst. lia.
Qed.
Lemma addr_position_fits mb b a p : addr_position mb b a = Ok p -> Z.of_N p <= U.
Proof.
  unfold addr_position. destruct (bk_addr b <=? a); [|intros H; inversion H; subst; unfold U; lia].
  destruct (big_sub mb a (bk_addr b)); try discriminate. unfold checked_position.
  match goal with |- context [Cursor.checked_mul ?x ?y] => pose proof (checked_mul_spec x y) as Hc; destruct (Cursor.checked_mul x y) end;
    [|discriminate]. intros H; inversion H; subst. destruct Hc as (-> & Hc). lia.
Qed.
