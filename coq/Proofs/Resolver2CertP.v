(* What a Resolver2 certificate says, item by item (C02, banks and nested symbols): in a certified state the
   per-bank cursor walk is determined by the state alone; every node, visited at the bank and position the walk
   reaches it with, recomputes to the state itself; every label equals addr_start + position / unit of its bank
   with the position on an address boundary; every instruction's stored encoding is what the rules select under
   this state, in the instruction's own symbol context, at its own address. *)
From Coq Require Import NArith ZArith List Bool Lia.
From CA Require Import Model.Lexer Model.Parser Model.Literal Model.BigIntOps Model.Evaluator Model.Matcher Model.Resolver
  Model.Resolver2 Proofs.ResolverFixP Proofs.Resolver2FixP Proofs.Resolver2TopP.
From CA Require Model.Paths Model.Overlap Model.Cursor Model.LastPass Model.Output Model.Symbols Proofs.CursorP.
Import ListNotations.
Open Scope Z_scope.

Section Cert.
Variable m : Symbols.mgr.
Variable banks : list Cursor.bank.
Variable defs : list ruledef.
Variable mb : Z.

(* where the iterator stands after the nodes ns (cursor, and the node it will advance past next), from the state alone *)
Fixpoint walk (ns : list cnode) (st : state) (c : Cursor.cursor) (prev : option Cursor.node)
    : ores (Cursor.cursor * option Cursor.node) :=
  match ns with
  | [] => Ok (c, prev)
  | n :: r =>
    match Cursor.advance mb banks c prev with
    | Err => Err | Panic => Panic
    | Ok c1 =>
      match Cursor.enter mb banks c1 (shape (fst n)) with
      | Err => Err | Panic => Panic
      | Ok c2 => walk r st c2 (Some (view st (fst n)))
      end
    end
  end.

(* the bank and position at which node n is visited when the iterator stands at (c, prev) *)
Definition visit (n : cnode) (c : Cursor.cursor) (prev : option Cursor.node) : ores (Cursor.bank * N) :=
  match Cursor.advance mb banks c prev with
  | Err => Err | Panic => Panic
  | Ok c1 =>
    match Cursor.enter mb banks c1 (shape (fst n)) with
    | Err => Err | Panic => Panic
    | Ok c2 => Cursor.cur_bank banks c2
    end
  end.

Lemma certified2_nodes_gen all : forall ns1 n ns2 st c prev,
  labels_ok2 all st -> (forall x, In x (ns1 ++ n :: ns2) -> In x all) ->
  pass2 m banks defs mb true (ns1 ++ n :: ns2) st c prev Resolved = Ok (st, Resolved) ->
  exists c0 p0 b pos,
    walk ns1 st c prev = Ok (c0, p0) /\ visit n c0 p0 = Ok (b, pos) /\
    resolve_node2 m defs mb true (fst n) (snd n) st b pos = Ok (st, Resolved).
Proof.
  induction ns1 as [|x ns1 IH]; intros n ns2 st c prev Hl Hsub H; cbn [app pass2] in H.
  - destruct (step2 m banks defs mb true n st c prev) as [[[[s r] c'] p']| |] eqn:E; try discriminate.
    destruct r; cbn [merge] in H; [|exfalso; eapply pass2_unresolved_sticky; eauto].
    assert (s = st) by (eapply step2_fix; eauto; apply Hsub; now left). subst s.
    unfold step2 in E. cbn [walk].
    destruct (Cursor.advance mb banks c prev) as [c1| |] eqn:A1; try discriminate.
    destruct (Cursor.enter mb banks c1 (shape (fst n))) as [c2| |] eqn:A2; try discriminate.
    destruct (Cursor.cur_bank banks c2) as [[b pos]| |] eqn:A3; try discriminate.
    destruct (resolve_node2 m defs mb true (fst n) (snd n) st b pos) as [[s0 r0]| |] eqn:E2; try discriminate.
    inversion E; subst; clear E. exists c, prev, b, pos.
    split; [reflexivity|]. split; [unfold visit; rewrite A1, A2; exact A3|exact E2].
  - destruct (step2 m banks defs mb true x st c prev) as [[[[s r] c'] p']| |] eqn:E; try discriminate.
    destruct r; cbn [merge] in H; [|exfalso; eapply pass2_unresolved_sticky; eauto].
    assert (s = st) by (eapply step2_fix; eauto; apply Hsub; now left). subst s.
    unfold step2 in E. cbn [walk].
    destruct (Cursor.advance mb banks c prev) as [c1| |]; try discriminate.
    destruct (Cursor.enter mb banks c1 (shape (fst x))) as [c2| |]; try discriminate.
    destruct (Cursor.cur_bank banks c2) as [[b pos]| |]; try discriminate.
    destruct (resolve_node2 m defs mb true (fst x) (snd x) st b pos) as [[s0 r0]| |] eqn:E2; try discriminate.
    inversion E; subst; clear E.
    apply (IH n ns2 st c' (Some (view st (fst x)))); auto. intros y Hy. apply Hsub. now right.
Qed.

(* in a certified state every node, visited where the walk reaches it, recomputes to the state itself *)
Theorem certified2_node ns1 n ns2 st :
  labels_ok2 (ns1 ++ n :: ns2) st -> Certified2 m banks defs mb (ns1 ++ n :: ns2) st ->
  exists c0 p0 b pos,
    walk ns1 st (Cursor.init_cursor banks) None = Ok (c0, p0) /\ visit n c0 p0 = Ok (b, pos) /\
    resolve_node2 m defs mb true (fst n) (snd n) st b pos = Ok (st, Resolved).
Proof. intros Hl Hc. eapply certified2_nodes_gen with (all := ns1 ++ n :: ns2); eauto. Qed.

(* every label equals the address of the cursor that reaches it: addr_start + position / unit of its bank, and the
   position lies on an address boundary *)
Theorem certified2_label ns1 s d0 ctx ns2 st :
  labels_ok2 (ns1 ++ (XLabel s d0, ctx) :: ns2) st -> Certified2 m banks defs mb (ns1 ++ (XLabel s d0, ctx) :: ns2) st ->
  exists c0 p0 b pos,
    walk ns1 st (Cursor.init_cursor banks) None = Ok (c0, p0) /\ visit (XLabel s d0, ctx) c0 p0 = Ok (b, pos) /\
    (pos mod Cursor.bk_unit b = 0)%N /\
    nth s (s_sym st) VUnknown = VInt (un (Cursor.bk_addr b + Z.of_N (pos / Cursor.bk_unit b))).
Proof.
  intros Hl Hc. destruct (certified2_node _ _ _ _ Hl Hc) as (c0 & p0 & b & pos & Hw & Hv & H).
  exists c0, p0, b, pos. split; [exact Hw|]. split; [exact Hv|].
  cbn [fst snd] in H. unfold resolve_node2 in H. cbv zeta in H. cbn [negb] in H.
  destruct (Cursor.eval_address mb b pos false) as [a| |] eqn:E; try discriminate.
  destruct (CursorP.eval_address_exact _ _ _ _ E) as (Hu & Hm & _).
  assert (Ha : a = Cursor.bk_addr b + Z.of_N (pos / Cursor.bk_unit b)).
  { unfold Cursor.eval_address in E. destruct (Cursor.bk_unit b =? 0)%N; [discriminate|].
    destruct (negb (pos mod Cursor.bk_unit b =? 0)%N && negb false); [discriminate|].
    apply CursorP.big_add_ok in E. lia. }
  split; [exact Hm|].
  destruct (value_eqv (VInt (un a)) (nth s (s_sym st) VUnknown)) eqn:Ev; [|discriminate].
  destruct (Hl s d0 ctx) as [Hu'|[a' Ha']]; [apply in_or_app; right; now left| |].
  - rewrite Hu' in Ev. discriminate.
  - rewrite Ha' in Ev |- *. cbn in Ev. unfold bigint_eqv in Ev. cbn in Ev. apply Z.eqb_eq in Ev. subst a'.
    rewrite Ha. reflexivity.
Qed.

(* every instruction's stored encoding is what the rules select under this state, in the instruction's own
   symbol context, at its own bank and position (strict mode: no unknowns, unique smallest candidate) *)
Theorem certified2_instruction ns1 i src ctx ns2 st :
  labels_ok2 (ns1 ++ (XInstr i src, ctx) :: ns2) st -> Certified2 m banks defs mb (ns1 ++ (XInstr i src, ctx) :: ns2) st ->
  exists c0 p0 b pos d,
    walk ns1 st (Cursor.init_cursor banks) None = Ok (c0, p0) /\ visit (XInstr i src, ctx) c0 p0 = Ok (b, pos) /\
    nth_error (s_instr st) i = Some d /\
    resolve_encoding defs (pvar2 m st ctx (Cursor.eval_address mb b pos false) false) false (i_matches d) = EOk (Some (i_enc d)).
Proof.
  intros Hl Hc. destruct (certified2_node _ _ _ _ Hl Hc) as (c0 & p0 & b & pos & Hw & Hv & H).
  cbn [fst snd] in H. unfold resolve_node2 in H. cbv zeta in H. cbn [negb] in H.
  destruct (nth_error (s_instr st) i) as [d|] eqn:Hd; [|discriminate].
  match type of H with match ?x with EOk _ => _ | EErr => _ end = _ => destruct x as [[e|]|] eqn:E; try discriminate end.
  destruct (bigint_identical (i_enc d) e) eqn:Ei; [|discriminate].
  apply bigint_identical_eq in Ei. subst e.
  exists c0, p0, b, pos, d. auto.
Qed.

(* a certified state holds no failed constraint in a constant: the final pass rejects it (/repo b4e61a4, F77),
   as the pre-pass does for address-free constants; the stored value is the expression's value under this state *)
Theorem certified2_const_not_failed ns1 s d0 e ctx ns2 st :
  labels_ok2 (ns1 ++ (XConst s d0 e, ctx) :: ns2) st -> Certified2 m banks defs mb (ns1 ++ (XConst s d0 e, ctx) :: ns2) st ->
  nth s (s_sym st) VUnknown <> VFailed /\
  exists c0 p0 b pos loc,
    walk ns1 st (Cursor.init_cursor banks) None = Ok (c0, p0) /\ visit (XConst s d0 e, ctx) c0 p0 = Ok (b, pos) /\
    eval code_ops (pvar2 m st ctx (Cursor.eval_address mb b pos false) false) e [] = EOk (nth s (s_sym st) VUnknown, loc).
Proof.
  intros Hl Hc. destruct (certified2_node _ _ _ _ Hl Hc) as (c0 & p0 & b & pos & Hw & Hv & H).
  cbn [fst snd] in H. unfold resolve_node2 in H. cbv zeta in H. cbn [negb andb] in H.
  match type of H with match ?x with EOk _ => _ | EErr => _ end = _ => destruct x as [[v loc]|] eqn:E; [|discriminate] end.
  assert (Q : v = nth s (s_sym st) VUnknown /\ v <> VFailed).
  { destruct v; try discriminate;
      (destruct (value_identical _ (nth s (s_sym st) VUnknown)) eqn:Q; [|discriminate];
       apply value_identical_eq in Q; split; [exact Q|discriminate]). }
  destruct Q as [Q Hnf]. split; [rewrite <- Q; exact Hnf|].
  exists c0, p0, b, pos, loc. rewrite <- Q. auto.
Qed.

(* every #assert condition evaluates to TRUE under the certified state, in the directive's own symbol context, at
   the bank and position the cursor walk reaches it with *)
Theorem certified2_assert ns1 e ctx ns2 st :
  labels_ok2 (ns1 ++ (XAssert e, ctx) :: ns2) st -> Certified2 m banks defs mb (ns1 ++ (XAssert e, ctx) :: ns2) st ->
  exists c0 p0 b pos loc,
    walk ns1 st (Cursor.init_cursor banks) None = Ok (c0, p0) /\ visit (XAssert e, ctx) c0 p0 = Ok (b, pos) /\
    eval code_ops (pvar2 m st ctx (Cursor.eval_address mb b pos false) false) e [] = EOk (VBool true, loc).
Proof.
  intros Hl Hc. destruct (certified2_node _ _ _ _ Hl Hc) as (c0 & p0 & b & pos & Hw & Hv & H).
  cbn [fst snd] in H. unfold resolve_node2 in H. cbv zeta in H. cbn [negb] in H.
  match type of H with match ?x with EOk _ => _ | EErr => _ end = _ => destruct x as [[v loc]|] eqn:E; [|discriminate] end.
  destruct v as [| | | | |[|]|]; try discriminate.
  exists c0, p0, b, pos, loc. auto.
Qed.
End Cert.

(* ---- whole programs ---- *)
(* C02: in the state behind a successful assembly every #assert holds at its place *)
Theorem assemble2_asserts_hold indexed defs ps budget r :
  assemble2 indexed defs ps budget = Ok r ->
  exists m ns st1 st,
    setup indexed defs ps = Some (m, ns, r_banks r, st1) /\ r_syms r = symbol_values m st /\
    Certified2 m (r_banks r) defs max_bits ns st /\
    forall ns1 e ctx ns2, ns = ns1 ++ (XAssert e, ctx) :: ns2 ->
      exists c0 p0 b pos loc,
        walk (r_banks r) max_bits ns1 st (Cursor.init_cursor (r_banks r)) None = Ok (c0, p0) /\
        visit (r_banks r) max_bits (XAssert e, ctx) c0 p0 = Ok (b, pos) /\
        eval code_ops (pvar2 m st ctx (Cursor.eval_address max_bits b pos false) false) e [] = EOk (VBool true, loc).
Proof.
  intro H. destruct (assemble2_certificate_inv _ _ _ _ _ H) as (m & ns & st1 & st & S & Hl & Hc & Hs & _).
  exists m, ns, st1, st. repeat split; auto.
  intros ns1 e ctx ns2 ->. eapply certified2_assert; eauto.
Qed.

(* a program with an assertion that is not true in ANY certified state never assembles, at any budget *)
Theorem assert_false_never_assembles indexed defs ps m ns banks st1 ns1 e ctx ns2 :
  setup indexed defs ps = Some (m, ns, banks, st1) -> ns = ns1 ++ (XAssert e, ctx) :: ns2 ->
  (forall st c0 p0 b pos loc,
     Certified2 m banks defs max_bits ns st ->
     walk banks max_bits ns1 st (Cursor.init_cursor banks) None = Ok (c0, p0) ->
     visit banks max_bits (XAssert e, ctx) c0 p0 = Ok (b, pos) ->
     eval code_ops (pvar2 m st ctx (Cursor.eval_address max_bits b pos false) false) e [] <> EOk (VBool true, loc)) ->
  forall budget r, assemble2 indexed defs ps budget <> Ok r.
Proof.
  intros S E Hno budget r H.
  destruct (assemble2_asserts_hold _ _ _ _ _ H) as (m' & ns' & st1' & st & S' & _ & Hc & Ha).
  rewrite S in S'. inversion S'; subst m' ns' st1'. clear S'.
  match goal with Hb : banks = r_banks r |- _ => rewrite <- Hb in * end.
  destruct (Ha _ _ _ _ E) as (c0 & p0 & b & pos & loc & Hw & Hv & He).
  eapply Hno; eauto.
Qed.

(* in particular: a condition that is true under no valuation of the symbols at all *)
Corollary assert_unsatisfiable_never_assembles indexed defs ps m ns banks st1 ns1 e ctx ns2 :
  setup indexed defs ps = Some (m, ns, banks, st1) -> ns = ns1 ++ (XAssert e, ctx) :: ns2 ->
  (forall pv loc, eval code_ops pv e [] <> EOk (VBool true, loc)) ->
  forall budget r, assemble2 indexed defs ps budget <> Ok r.
Proof. intros S E Hno. eapply assert_false_never_assembles; eauto. Qed.
