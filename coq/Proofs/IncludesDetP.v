(* The declarative splice expansion Exp (Spec/PathSpec.v) is a FUNCTION of the file system, the file name and the
   once-set: it has at most one result.  Together with soundness (IncludesP.expand_root_exp) and termination
   (expand_root_nopanic) this gives completeness of the modelled include expansion: whatever the splice expansion
   yields is what the expansion returns, unless it reports an error. *)
From Coq Require Import NArith List Bool Lia Arith.
From CA Require Import Model.Paths Model.Includes Spec.PathSpec Proofs.PathsP Proofs.IncludesP.
Import ListNotations.
Open Scope nat_scope.

Scheme Exp_mind := Minimality for Exp Sort Prop
  with ExpItems_mind := Minimality for ExpItems Sort Prop.
Combined Scheme Exp_mutind from Exp_mind, ExpItems_mind.

Lemma Exp_det_both : forall fs,
  (forall name once out o, Exp fs name once out o ->
     forall out' o', Exp fs name once out' o' -> out = out' /\ o = o') /\
  (forall cur items once out o, ExpItems fs cur items once out o ->
     forall out' o', ExpItems fs cur items once out' o' -> out = out' /\ o = o').
Proof.
  intro fs. apply Exp_mutind.
  - intros name once M out' o' H'. inversion H'; subst; [split; reflexivity|congruence].
  - intros name once items out o M F _ IH out' o' H'. inversion H'; subst; [congruence|].
    match goal with A : fs _ = Some ?it |- _ => rewrite F in A; inversion A; subst end.
    apply IH; assumption.
  - intros cur once out' o' H'. inversion H'; subst. split; reflexivity.
  - intros cur id r once out o _ IH out' o' H'. inversion H'; subst.
    match goal with A : ExpItems _ _ _ _ _ _ |- _ => destruct (IH _ _ A) as [E1 E2] end.
    subst. split; reflexivity.
  - intros cur r once out o _ IH out' o' H'. inversion H'; subst. apply IH; assumption.
  - intros cur p r inc once out1 once1 out2 once2 NV _ IH1 _ IH2 out' o' H'. inversion H'; subst.
    match goal with A : navigate _ _ = ROk ?i |- _ => rewrite NV in A; inversion A; subst end.
    match goal with A : Exp _ _ _ _ _ |- _ => destruct (IH1 _ _ A) as [E1 E2] end. subst.
    match goal with A : ExpItems _ _ _ _ _ _ |- _ => destruct (IH2 _ _ A) as [E3 E4] end. subst.
    split; reflexivity.
Qed.

Lemma Exp_det : forall fs name once out o out' o',
  Exp fs name once out o -> Exp fs name once out' o' -> out = out' /\ o = o'.
Proof. intros fs name once out o out' o' H H'. exact (proj1 (Exp_det_both fs) _ _ _ _ H _ _ H'). Qed.

(* completeness: in a finite file system, if the splice expansion of the root yields (ns, o) and the modelled
   expansion does not report an error, it returns exactly (ns, o) *)
Lemma expand_root_complete : forall fs dom root ns o,
  (forall n items, fs n = Some items -> In n dom) ->
  Exp fs root [] ns o ->
  expand_root fs (length dom + 2) root <> RErr ->
  exists lg, expand_root fs (length dom + 2) root = ROk (ns, o, lg).
Proof.
  intros fs dom root ns o D HE NE.
  destruct (expand_root_nopanic fs dom D root) as [NP NF].
  destruct (expand_root fs (length dom + 2) root) as [[[ns' o'] lg]| | |] eqn:E; try congruence.
  apply expand_root_exp in E. destruct (Exp_det _ _ _ _ _ _ _ HE E) as [E1 E2]. subst. eauto.
Qed.

(* and two successful expansions (any fuels) of the same root agree on nodes and once-set *)
Lemma expand_root_fuel_indep : forall fs f1 f2 root ns1 o1 lg1 ns2 o2 lg2,
  expand_root fs f1 root = ROk (ns1, o1, lg1) -> expand_root fs f2 root = ROk (ns2, o2, lg2) ->
  ns1 = ns2 /\ o1 = o2.
Proof.
  intros fs f1 f2 root ns1 o1 lg1 ns2 o2 lg2 H1 H2.
  apply expand_root_exp in H1. apply expand_root_exp in H2. eapply Exp_det; eauto.
Qed.

(* ------------------------------------------------------------------ an error has a cause
   The modelled expansion reports an error only for one of the three documented reasons, located at a file that is
   reachable from the root by include directives:
     - a reachable name that does not exist (the root itself or the target of a reachable directive),
     - a reachable directive whose file name is refused (escapes the project, empty, ...),
     - a reachable directive whose target is one of the files currently being expanded (it reaches the
       including file again: recursive inclusion). *)
Section Cause.
Variable fs : text -> option file.

Definition fault (root : text) : Prop :=
  (exists n, reach fs root n /\ fs n = None) \/
  (exists a items p, reach fs root a /\ fs a = Some items /\ In (Include p) items /\
     (navigate a p = RErr \/ exists b, navigate a p = ROk b /\ reach fs b a)).

Lemma reach_trans_edge : forall s a b, reach fs s a -> inc_edge fs a b -> reach fs s b.
Proof. intros s a b R E. eapply reach_step; eauto. Qed.

Lemma expand_items_err_cause : forall root rec cur items0 seen,
  fs cur = Some items0 -> reach fs root cur -> (forall s, In s seen -> reach fs s cur) ->
  (forall inc seen' once, reach fs root inc -> (forall s, In s seen' -> reach fs s inc) ->
     rec inc seen' once = RErr -> fault root) ->
  forall items, incl items items0 -> forall once, expand_items rec cur items seen once = RErr -> fault root.
Proof.
  intros root rec cur items0 seen F RC RS IHrec. induction items as [|it r IH]; intros IN once H.
  - cbn in H. discriminate.
  - assert (INr : incl r items0) by (intros x Hx; apply IN; right; exact Hx).
    destruct it as [p| |id]; cbn [expand_items] in H.
    + assert (IP : In (Include p) items0) by (apply IN; left; reflexivity).
      destruct (navigate cur p) as [inc| | |] eqn:NV; try discriminate.
      * destruct (mem inc seen) eqn:M.
        { right. exists cur, items0, p. repeat split; auto. right. exists inc. split; auto.
          apply RS. apply mem_In. exact M. }
        assert (ED : inc_edge fs cur inc) by (exists items0, p; auto).
        destruct (rec inc (inc :: seen) once) as [[[ns1 o1] lg1]| | |] eqn:E1; try discriminate.
        { destruct (expand_items rec cur r seen o1) as [[[ns2 o2] lg2]| | |] eqn:E2; try discriminate.
          eapply IH; eauto. }
        { eapply IHrec; [| |exact E1].
          - eapply reach_trans_edge; eauto.
          - intros s [<-|I]; [apply reach_root|]. eapply reach_trans_edge; eauto. }
      * right. exists cur, items0, p. repeat split; auto.
    + eapply IH; eauto.
    + destruct (expand_items rec cur r seen once) as [[[ns2 o2] lg2]| | |] eqn:E2; try discriminate.
      eapply IH; eauto.
Qed.

Lemma expand_err_cause : forall root fuel name seen once,
  reach fs root name -> (forall s, In s seen -> reach fs s name) ->
  expand fs fuel name seen once = RErr -> fault root.
Proof.
  intros root. induction fuel as [|f IH]; intros name seen once RN RS H; [discriminate|].
  cbn [expand] in H. destruct (mem name once); [discriminate|].
  destruct (fs name) as [items|] eqn:F.
  - destruct (expand_items _ _ _ _ _) as [[[ns o] lg]| | |] eqn:E; try discriminate.
    eapply expand_items_err_cause; [exact F|exact RN|exact RS| |apply incl_refl|exact E].
    intros inc seen' once' R1 R2 H1. eapply IH; eauto.
  - left. exists name. split; auto.
Qed.

Lemma expand_root_err_cause : forall fuel root, expand_root fs fuel root = RErr -> fault root.
Proof.
  intros fuel root H. unfold expand_root in H. eapply expand_err_cause; [apply reach_root| |exact H].
  intros s [].
Qed.
End Cause.

(* fault-free finite file systems expand successfully, to the splice expansion *)
Lemma expand_root_ok_of_no_fault : forall fs dom root,
  (forall n items, fs n = Some items -> In n dom) -> ~ fault fs root ->
  exists ns o lg, expand_root fs (length dom + 2) root = ROk (ns, o, lg) /\ Exp fs root [] ns o.
Proof.
  intros fs dom root D NF.
  destruct (expand_root_nopanic fs dom D root) as [NP NFu].
  destruct (expand_root fs (length dom + 2) root) as [[[ns o] lg]| | |] eqn:E; try congruence.
  - exists ns, o, lg. split; auto. eapply expand_root_exp; eauto.
  - exfalso. apply NF. eapply expand_root_err_cause; eauto.
Qed.

(* non-vacuity: a one-file system without directives has no fault; a file including itself has one *)
Lemma fault_examples :
  let fs1 := fun n => if text_eqb n [109%N] then Some [Other 1%N] else None in
  let fs2 := fun n => if text_eqb n [97%N] then Some [Include [97%N]] else None in
  ~ fault fs1 [109%N] /\ fault fs2 [97%N] /\ expand_root fs1 3 [109%N] = ROk ([1%N], [], [[109%N]]).
Proof.
  intros fs1 fs2. split; [|split; [|reflexivity]].
  - assert (R : forall n, reach fs1 [109%N] n -> n = [109%N]).
    { intros n H. induction H as [|a b Ha IH ED]; [reflexivity|]. subst a.
      destruct ED as (items & p & F & I & _). cbn in F. inversion F; subst items.
      destruct I as [I|[]]. discriminate. }
    intros [(n & Rn & F)|(a & items & p & Ra & F & I & _)].
    + apply R in Rn. subst n. cbn in F. discriminate.
    + apply R in Ra. subst a. cbn in F. inversion F; subst items. destruct I as [I|[]]. discriminate.
  - right. exists [97%N], [Include [97%N]], [97%N]. repeat split.
    + apply reach_root.
    + left. reflexivity.
    + right. exists [97%N]. split; [reflexivity|apply reach_root].
Qed.
