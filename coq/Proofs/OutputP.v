(* Proofs about Model/Output.v: BitVec writes, bank windows, rejection of the bad classes, and the
   layout invariant of build_output (Spec/LayoutInv.layout_ok). *)
From Coq Require Import ZArith NArith List Bool Lia ZifyBool PeanoNat Arith.
From CA Require Import Model.Overlap Model.Cursor Model.Output Spec.OverlapSpec Spec.LayoutInv
  Proofs.OverlapP Proofs.CursorP.
Import ListNotations.
Open Scope N_scope.

Ltac Zify.zify_post_hook ::= Z.to_euclidean_division_equations.
Ltac llia := solve [lia | exfalso; lia].

(* ================================================================= A. BitVec *)
Lemma nth_update_nil i v k : nth k (update [] i v) false = if Nat.eqb k i then v else false.
Proof.
  revert k. induction i as [|i IH]; intros k; cbn [update].
  - destruct k as [|[|k]]; reflexivity.
  - destruct k as [|k]; [reflexivity|]. cbn [nth]. rewrite IH. reflexivity.
Qed.
Lemma length_update_nil i v : length (update [] i v) = S i.
Proof. induction i as [|i IH]; cbn [update length]; [reflexivity | rewrite IH; reflexivity]. Qed.

Lemma nth_update out i v k : nth k (update out i v) false = if Nat.eqb k i then v else nth k out false.
Proof.
  revert i k. induction out as [|x out IH]; intros i k.
  - rewrite nth_update_nil. destruct (Nat.eqb k i); [reflexivity | destruct k; reflexivity].
  - destruct i as [|i]; cbn [update].
    + destruct k; reflexivity.
    + destruct k as [|k]; [reflexivity|]. cbn [nth]. rewrite IH. reflexivity.
Qed.
Lemma length_update out i v : length (update out i v) = Nat.max (length out) (S i).
Proof.
  revert i. induction out as [|x out IH]; intros i.
  - rewrite length_update_nil. cbn. lia.
  - destruct i as [|i]; cbn [update length]; [lia | rewrite IH; lia].
Qed.

Lemma nth_write_loop enc : forall out idx k,
  nth k (write_loop out idx enc) false =
  if Nat.leb idx k && Nat.ltb k (idx + length enc) then nth (k - idx) enc false else nth k out false.
Proof.
  induction enc as [|b r IH]; intros out idx k; cbn [write_loop length].
  - replace (Nat.ltb k (idx + 0)) with (negb (Nat.leb idx k)) by (destruct (Nat.leb idx k) eqn:E; destruct (Nat.ltb k (idx + 0)) eqn:F; llia).
    destruct (Nat.leb idx k); reflexivity.
  - rewrite IH, nth_update.
    destruct (Nat.leb (S idx) k && Nat.ltb k (S idx + length r)) eqn:E1.
    + replace (Nat.leb idx k && Nat.ltb k (idx + S (length r))) with true by llia.
      replace (k - idx)%nat with (S (k - S idx)) by llia. reflexivity.
    + destruct (Nat.eqb k idx) eqn:E2.
      * replace (Nat.leb idx k && Nat.ltb k (idx + S (length r))) with true by llia.
        replace (k - idx)%nat with 0%nat by llia. reflexivity.
      * replace (Nat.leb idx k && Nat.ltb k (idx + S (length r))) with false by llia. reflexivity.
Qed.
Lemma length_write_loop enc : forall out idx,
  length (write_loop out idx enc) = match enc with [] => length out | _ => Nat.max (length out) (idx + length enc) end.
Proof.
  induction enc as [|b r IH]; intros out idx; cbn [write_loop]; [reflexivity|].
  rewrite IH, length_update. destruct r; cbn [length]; lia.
Qed.

Lemma nth_repeat_false n k : nth k (repeat false n) false = false.
Proof. revert k. induction n; intros [|k]; cbn; auto. Qed.
Lemma nth_pad_to out n k : nth k (pad_to out n) false = nth k out false.
Proof.
  unfold pad_to. destruct (Nat.lt_ge_cases k (length out)).
  - rewrite app_nth1; auto.
  - rewrite app_nth2 by lia. rewrite nth_repeat_false. rewrite nth_overflow; auto.
Qed.
Lemma length_pad_to out n : length (pad_to out n) = Nat.max (length out) n.
Proof. unfold pad_to. rewrite app_length, repeat_length. lia. Qed.

Lemma nth_write_bigint out idx enc k :
  nth k (write_bigint out idx enc) false =
  if Nat.leb idx k && Nat.ltb k (idx + length enc) then nth (k - idx) enc false else nth k out false.
Proof.
  unfold write_bigint. destruct enc as [|e0 enc0]; [|rewrite nth_pad_to; apply nth_write_loop].
  cbn [length]. replace (Nat.leb idx k && Nat.ltb k (idx + 0)) with false by llia. reflexivity.
Qed.
(* an empty value does not extend the output (F49 repaired) *)
Lemma length_write_bigint out idx enc :
  length (write_bigint out idx enc) = match enc with [] => length out | _ :: _ => Nat.max (length out) (idx + length enc) end.
Proof. unfold write_bigint. destruct enc; [reflexivity|]. rewrite length_pad_to, length_write_loop. cbn [length]; lia. Qed.

(* ================================================================= B. bank windows *)
Lemma ends_after_false o sz other : ends_after o sz other = false -> o + sz <= other.
Proof.
  unfold ends_after. destruct (checked_add o sz) as [e|] eqn:E; [|discriminate]. apply checked_add_some in E. llia.
Qed.
Lemma ends_after_true o sz other : other < o + sz -> ends_after o sz other = true.
Proof.
  unfold ends_after. intro H. destruct (checked_add o sz) as [e|] eqn:E; [|reflexivity]. apply checked_add_some in E. llia.
Qed.

Lemma windows_overlap_false b1 b2 : windows_overlap b1 b2 = Ok false -> windows_disjoint b1 b2.
Proof.
  unfold windows_overlap, windows_disjoint, in_window. intros H k.
  destruct (bk_outp b1) as [o1|]; [|tauto]. destruct (bk_outp b2) as [o2|]; [|tauto].
  destruct (bk_size b1) as [s1|], (bk_size b2) as [s2|]; try discriminate; inversion H as [H'].
  - apply andb_false_iff in H'. destruct H' as [H'|H']; apply ends_after_false in H'; llia.
  - apply ends_after_false in H'. llia.
  - apply ends_after_false in H'. llia.
Qed.

Lemma windows_overlap_false_b b1 b2 : windows_overlap b1 b2 = Ok false -> windows_disjointb b1 b2 = true.
Proof.
  unfold windows_overlap, windows_disjointb. intros H.
  destruct (bk_outp b1) as [o1|]; [|reflexivity]. destruct (bk_outp b2) as [o2|]; [|reflexivity].
  destruct (bk_size b1) as [s1|], (bk_size b2) as [s2|]; try discriminate; inversion H as [H'].
  - apply andb_false_iff in H'. destruct H' as [H'|H']; apply ends_after_false in H'; llia.
  - apply ends_after_false in H'. llia.
  - apply ends_after_false in H'. llia.
Qed.

Lemma overlap_with_any_false b1 rest : overlap_with_any b1 rest = Ok false ->
  forall b2, In b2 rest -> windows_overlap b1 b2 = Ok false.
Proof.
  induction rest as [|b r IH]; intros H b2 Hin; [destruct Hin|].
  cbn [overlap_with_any] in H. destruct (windows_overlap b1 b) as [[|]| |] eqn:E; try discriminate.
  destruct Hin as [<-|Hin]; [exact E | apply IH; assumption].
Qed.

Lemma check_pairs_ok l : check_pairs l = Ok tt ->
  forall i j b1 b2, (i < j)%nat -> nth_error l i = Some b1 -> nth_error l j = Some b2 ->
    windows_overlap b1 b2 = Ok false.
Proof.
  induction l as [|b r IH]; intros H i j b1 b2 Hlt Hi Hj; [destruct i; discriminate|].
  cbn [check_pairs] in H. destruct (overlap_with_any b r) as [[|]| |] eqn:E; try discriminate.
  destruct j as [|j]; [llia|]. cbn in Hj. destruct i as [|i]; cbn in Hi.
  - inversion Hi; subst. eapply overlap_with_any_false; eauto. eapply nth_error_In; eauto.
  - apply (IH H i j); auto. llia.
Qed.

Theorem bank_windows banks : check_bank_overlap banks = Ok tt ->
  forall i j b1 b2, (1 <= i)%nat -> (i < j)%nat -> nth_error banks i = Some b1 -> nth_error banks j = Some b2 ->
    windows_disjoint b1 b2.
Proof.
  unfold check_bank_overlap. intros H i j b1 b2 Hi Hlt H1 H2.
  destruct banks as [|d rest]; [destruct i; discriminate|]. cbn [tl] in H.
  destruct i as [|i]; [llia|]. destruct j as [|j]; [llia|]. cbn in H1, H2.
  apply windows_overlap_false. apply (check_pairs_ok _ H i j); auto. llia.
Qed.

Lemma all_windows_of_pairs l : check_pairs l = Ok tt -> all_windows_disjointb l = true.
Proof.
  induction l as [|b r IH]; intros H; [reflexivity|]. cbn [check_pairs] in H.
  destruct (overlap_with_any b r) as [[|]| |] eqn:E; try discriminate.
  cbn [all_windows_disjointb]. rewrite (IH H), andb_true_r. apply forallb_forall. intros b2 Hin.
  apply windows_overlap_false_b. eapply overlap_with_any_false; eauto.
Qed.
Theorem bank_windows_b banks : check_bank_overlap banks = Ok tt -> windows_ok banks = true.
Proof. unfold check_bank_overlap, windows_ok. apply all_windows_of_pairs. Qed.

(* completeness: two user banks whose windows share a bit are rejected (or the end of a window overflows usize) *)
Lemma windows_overlap_true b1 b2 k : in_window b1 k -> in_window b2 k -> windows_overlap b1 b2 <> Ok false.
Proof. intros H1 H2 H. apply windows_overlap_false in H. apply (H k). auto. Qed.

Lemma overlap_with_any_hit b1 rest b2 k : In b2 rest -> in_window b1 k -> in_window b2 k ->
  overlap_with_any b1 rest <> Ok false.
Proof.
  intros Hin H1 H2 H. pose proof (overlap_with_any_false _ _ H _ Hin) as E.
  exact (windows_overlap_true b1 b2 k H1 H2 E).
Qed.

Theorem bank_windows_complete banks i j b1 b2 k :
  (1 <= i)%nat -> (i < j)%nat -> nth_error banks i = Some b1 -> nth_error banks j = Some b2 ->
  in_window b1 k -> in_window b2 k -> check_bank_overlap banks <> Ok tt.
Proof.
  intros Hi Hlt H1 H2 K1 K2 H. exact (bank_windows banks H i j b1 b2 Hi Hlt H1 H2 k (conj K1 K2)).
Qed.

Definition window_fits (b : bank) : Prop :=
  match bk_outp b, bk_size b with Some o, Some s => o + s <= usize_max | _, _ => True end.

(* since /repo abbd199 (F48) the window comparison cannot panic: an unrepresentable window end "ends after everything" *)
Lemma windows_overlap_never_panics b1 b2 : windows_overlap b1 b2 <> Panic.
Proof.
  unfold windows_overlap. destruct (bk_outp b1); [|discriminate]. destruct (bk_outp b2); [|discriminate].
  destruct (bk_size b1), (bk_size b2); discriminate.
Qed.
Lemma windows_overlap_never_err b1 b2 : windows_overlap b1 b2 <> Err.
Proof.
  unfold windows_overlap. destruct (bk_outp b1); [|discriminate]. destruct (bk_outp b2); [|discriminate].
  destruct (bk_size b1), (bk_size b2); discriminate.
Qed.
Lemma overlap_with_any_never_panics b1 rest : overlap_with_any b1 rest <> Panic.
Proof.
  induction rest as [|b r IH]; cbn [overlap_with_any]; [discriminate|].
  pose proof (windows_overlap_never_panics b1 b). destruct (windows_overlap b1 b) as [[|]| |]; try discriminate; congruence.
Qed.
Lemma check_pairs_never_panics l : check_pairs l <> Panic.
Proof.
  induction l as [|b r IH]; cbn [check_pairs]; [discriminate|].
  pose proof (overlap_with_any_never_panics b r). destruct (overlap_with_any b r) as [[|]| |]; try discriminate; congruence.
Qed.
Theorem check_bank_overlap_never_panics banks : check_bank_overlap banks <> Panic.
Proof. unfold check_bank_overlap. apply check_pairs_never_panics. Qed.

(* two user banks whose windows share a bit are rejected -- unconditionally *)
Theorem bank_windows_rejected banks i j b1 b2 k :
  (1 <= i)%nat -> (i < j)%nat -> nth_error banks i = Some b1 -> nth_error banks j = Some b2 ->
  in_window b1 k -> in_window b2 k -> check_bank_overlap banks = Err.
Proof.
  intros Hi Hlt H1 H2 K1 K2.
  pose proof (bank_windows_complete banks i j b1 b2 k Hi Hlt H1 H2 K1 K2) as Hn.
  pose proof (check_bank_overlap_never_panics banks) as Hp.
  destruct (check_bank_overlap banks) as [[]| |]; congruence.
Qed.

(* ================================================================= D. the layout invariant of build_output *)
Lemma ranges_app l1 l2 : ranges (l1 ++ l2) = ranges l1 ++ ranges l2.
Proof. unfold ranges. apply flat_map_app. Qed.

Lemma covered_app l1 l2 k : covered (l1 ++ l2) k = covered l1 k || covered l2 k.
Proof. unfold covered. rewrite ranges_app, existsb_app. reflexivity. Qed.

Lemma all_disjoint_from_app a l x :
  all_disjoint_from a (l ++ [x]) = all_disjoint_from a l && ((snd x =? 0) || disjointb a x).
Proof.
  induction l as [|b l IH]; cbn [app all_disjoint_from].
  - rewrite andb_true_r. reflexivity.
  - rewrite IH. rewrite andb_assoc. reflexivity.
Qed.

Lemma pairwise_app_one l x :
  pairwise_disjointb l = true ->
  (0 < snd x -> forall a, In a l -> 0 < snd a -> disjoint a x) ->
  pairwise_disjointb (l ++ [x]) = true.
Proof.
  induction l as [|a l IH]; intros Hl Hx; cbn [app pairwise_disjointb all_disjoint_from].
  - rewrite orb_true_r. reflexivity.
  - cbn [pairwise_disjointb] in Hl. apply andb_true_iff in Hl. destruct Hl as (H1 & H2).
    rewrite IH; [|exact H2|intros Hp b Hb; apply Hx; [exact Hp|right; exact Hb]].
    rewrite andb_true_r. rewrite all_disjoint_from_app.
    destruct (snd a =? 0) eqn:Ea; [reflexivity|]. cbn [orb] in *. rewrite H1. cbn [andb].
    destruct (snd x =? 0) eqn:Ex; [reflexivity|]. cbn [orb]. apply disjointb_iff.
    apply Hx; [llia | left; reflexivity | llia].
Qed.

(* end of the last WRITTEN item; a zero-sized one writes nothing and does not count (F49 repaired) *)
Definition written_end (items : list item) : N :=
  fold_right (fun it m => match it_off it, it_enc it with
                          | Some o, Some _ => if 0 <? it_size it then N.max (o + it_size it) m else m
                          | _, _ => m end) 0 items.

Lemma written_end_app l x : written_end (l ++ [x]) = N.max (written_end l) (written_end [x]).
Proof.
  induction l as [|a l IH]; cbn [app]; [unfold written_end at 2; cbn [fold_right]; llia|].
  unfold written_end in *. cbn [fold_right] in *. rewrite IH.
  destruct (it_off a), (it_enc a), (it_off x), (it_enc x); try destruct (0 <? it_size a); try destruct (0 <? it_size x); llia.
Qed.

Lemma items_end_written items :
  (forall it, In it items -> it_enc it = None -> it_size it = 0) ->
  items_end items = written_end items.
Proof.
  unfold items_end, written_end, ranges. induction items as [|a l IH]; intros H0; [reflexivity|].
  cbn [flat_map fold_right]. rewrite fold_right_app.
  rewrite IH; [|intros; apply H0; [right|]; assumption].
  destruct (it_off a) as [o|] eqn:Eo; cbn [fold_right fst snd]; [|destruct (it_enc a); reflexivity].
  destruct (it_enc a) as [enc|] eqn:Ee.
  - reflexivity.
  - pose proof (H0 a (or_introl eq_refl) Ee) as Hz. rewrite Hz. reflexivity.
Qed.

Section Invariant.
Variable Q : list bool -> Prop.          (* a property of every emitted encoding (e.g. non-empty) *)
Variable banks : list bank.
Variable L0 : N.                         (* output length after fill_banks *)

Definition nodeQ (n : node) : Prop := match n with NEmit enc => Q enc | _ => True end.

Record J (es : list entry) (out : list bool) (spans : list item) : Prop := mkJ {
  J_inv : inv es;
  J_in : forall e, In e (ranges spans) -> 0 < snd e -> In e es;
  J_ok : forall it, In it spans -> item_ok banks it = true;
  J_zero : forall k, nth k out false = true -> covered spans (N.of_nat k) = true;
  J_len : N.of_nat (length out) = N.max L0 (written_end spans);
  J_bits : forall it o enc, In it spans -> it_off it = Some o -> it_enc it = Some enc ->
             it_size it = N.of_nat (length enc) /\
             forall j, (j < length enc)%nat -> nth (N.to_nat o + j) out false = nth j enc false;
  J_pd : pairwise_disjointb (ranges spans) = true;
  J_lbl : forall it, In it spans -> it_enc it = None -> it_size it = 0;
  J_q : forall it enc, In it spans -> it_enc it = Some enc -> Q enc }.

Lemma check_and_insert_step es o size es' :
  inv es -> check_and_insert es o size = Ok es' ->
  inv es' /\ (forall e, In e es -> In e es') /\ (0 < size -> In (o, size) es') /\
  (0 < size -> forall e, In e es -> disjoint e (o, size)).
Proof.
  intros Hinv H. destruct (N.eq_dec size 0) as [->|Hnz].
  - unfold check_and_insert, check_and_insert_with in H. cbn in H. inversion H; subst.
    split; [exact Hinv|]. split; [auto|]. split; intros; llia.
  - assert (Hs : 0 < size) by llia.
    destruct (step_pos bsearch es o size es' bsearch_ok Hinv Hs H) as (I1 & I2 & I3).
    split; [exact I1|]. split; [intros e He; apply I2; right; exact He|].
    split; [intros _; apply I2; left; reflexivity | intros _; exact I3].
Qed.

Lemma cur_bank_nth c b pos : cur_bank banks c = Ok (b, pos) -> nth_error banks (c_bank c) = Some b.
Proof.
  unfold cur_bank. destruct (nth_error banks (c_bank c)); [|discriminate].
  destruct (nth_error (c_pos c) (c_bank c)); [|discriminate]. intros H. inversion H; subst. reflexivity.
Qed.

Lemma usage_ok c : check_bank_usage banks c = Ok tt ->
  negb (Nat.eqb (c_bank c) 0) || Nat.eqb (length banks) 1 = true.
Proof.
  unfold check_bank_usage. destruct (Nat.eqb (c_bank c) 0); cbn; [|reflexivity].
  destruct (Nat.eqb (length banks) 1); [reflexivity|discriminate].
Qed.

(* what a passed check_bank_output says (the BIGINT_MAX_BITS bound is checked for writes only) *)
Lemma bank_output_ok mb b pos size write : check_bank_output mb b pos size write = Ok tt ->
  (forall sz, bk_size b = Some sz -> pos + size <= sz) /\
  (write = true -> bk_outp b <> None) /\
  (write = true -> forall o, bk_outp b = Some o -> o + pos + size <= mb).
Proof.
  unfold check_bank_output. intros H.
  assert (Hsize : forall sz, bk_size b = Some sz -> pos + size <= sz).
  { intros sz Hs. rewrite Hs in H. destruct (checked_add pos size) as [e|] eqn:E; [|discriminate].
    apply checked_add_some in E. destruct (sz <? e) eqn:L; [discriminate|]. llia. }
  split; [exact Hsize|].
  assert (Hrest : match (match write, bk_outp b with
             | true, Some o =>
                 match (match checked_add o pos with Some p => checked_add p size | None => None end) with
                 | None => Err
                 | Some e => if mb <? e then Err else Ok tt
                 end
             | _, _ => Ok tt
             end) with
      | Err => Err | Panic => Panic
      | Ok _ => if write && (match bk_outp b with None => true | Some _ => false end) then Err else Ok tt
      end = Ok tt).
  { destruct (bk_size b) as [sz|]; [|exact H].
    destruct (checked_add pos size) as [e|]; [|discriminate]. destruct (sz <? e); [discriminate|exact H]. }
  clear H. destruct write; [|split; discriminate].
  destruct (bk_outp b) as [o|]; [|discriminate].
  destruct (checked_add o pos) as [p|] eqn:E1; [|discriminate]. apply checked_add_some in E1.
  destruct (checked_add p size) as [e2|] eqn:E2; [|discriminate]. apply checked_add_some in E2.
  destruct (mb <? e2) eqn:L2; [discriminate|].
  split; [discriminate|]. intros _ o' Ho. inversion Ho; subst. llia.
Qed.

Lemma output_position_some b pos o : get_output_position b pos = Ok (Some o) ->
  exists outp, bk_outp b = Some outp /\ o = outp + pos.
Proof.
  unfold get_output_position. destruct (bk_outp b) as [outp|]; [|discriminate].
  destruct (checked_add outp pos) as [p|] eqn:E; [|discriminate]. apply checked_add_some in E.
  intros H. inversion H; subst. eauto.
Qed.
(* no output position: the bank has no outp, or outp + position is not representable (/repo 6fb2301, F61) *)
Lemma output_position_none b pos : get_output_position b pos = Ok None ->
  bk_outp b = None \/ exists outp, bk_outp b = Some outp /\ usize_max < outp + pos.
Proof.
  unfold get_output_position. destruct (bk_outp b) as [outp|]; [|auto].
  unfold checked_add. destruct (outp + pos <=? usize_max) eqn:E; [discriminate|]. intros _. right. exists outp. split; [reflexivity|llia].
Qed.
Lemma get_output_position_never_panics b pos : get_output_position b pos <> Panic.
Proof. unfold get_output_position. destruct (bk_outp b); discriminate. Qed.

Lemma covered_one bank o size addr enc k :
  covered [mkItem bank (Some o) size addr enc] k = (0 <? size) && (o <=? k) && (k <? o + size).
Proof. unfold covered, ranges. cbn. rewrite orb_false_r. reflexivity. Qed.

Lemma emit_node_inv mb c b pos n es out spans es' out' spans' :
  J es out spans -> cur_bank banks c = Ok (b, pos) -> nodeQ n ->
  emit_node mb banks c b pos n es out spans = Ok (es', out', spans') ->
  J es' out' spans'.
Proof.
  intros HJ Hcb HQ H. pose proof (cur_bank_nth _ _ _ Hcb) as Hnth.
  destruct n as [i|is_label d0 value|enc|k|a|a|]; cbn [emit_node] in H;
    try (inversion H; subst; exact HJ).
  - (* symbol *)
    destruct is_label; [|inversion H; subst; exact HJ].
    destruct (check_bank_usage banks c) as [[]| |] eqn:Eu; try discriminate.
    destruct (check_bank_output mb b pos 0 false) as [[]| |] eqn:Eo; try discriminate.
    destruct (get_output_position b pos) as [mp| |] eqn:Ep; try discriminate.
    inversion H; subst es' out' spans'. clear H.
    destruct (bank_output_ok _ _ _ _ _ Eo) as (Hsz & _ & _).
    set (it := mkItem (c_bank c) mp 0 value None).
    assert (Hr0 : forall e, In e (ranges [it]) -> snd e = 0).
    { unfold ranges. cbn. destruct mp; cbn; [intros e [<-|[]]; reflexivity | intros e []]. }
    destruct HJ. constructor; auto.
    + intros e He Hp. rewrite ranges_app in He. apply in_app_iff in He. destruct He as [He|He]; [auto|].
      apply Hr0 in He. llia.
    + intros x Hx. apply in_app_iff in Hx. destruct Hx as [Hx|[<-|[]]]; [auto|].
      unfold item_ok. cbn [it_bank it_off it_size it]. rewrite Hnth. rewrite (usage_ok _ Eu). cbn [andb].
      destruct mp as [o|]; [|reflexivity]. cbn [N.eqb]. 
      destruct (output_position_some _ _ _ Ep) as (outp & Ho & ->).
      unfold mark_ok. rewrite Ho. destruct (bk_size b) as [sz|] eqn:Es; [|llia].
      pose proof (Hsz sz eq_refl). llia.
    + intros k Hk. rewrite covered_app. rewrite (J_zero0 k Hk). reflexivity.
    + rewrite written_end_app. unfold written_end at 2. cbn [fold_right it it_enc it_off].
      destruct mp; llia.
    + intros x o enc Hx Ho He. apply in_app_iff in Hx. destruct Hx as [Hx|[<-|[]]]; [eauto|].
      cbn in He. discriminate.
    + rewrite ranges_app. destruct (ranges [it]) as [|e [|? ?]] eqn:Er.
      * rewrite app_nil_r. assumption.
      * apply pairwise_app_one; [assumption|]. intros Hp. pose proof (Hr0 e (or_introl eq_refl)). llia.
      * unfold ranges in Er. cbn in Er. destruct mp; discriminate.
    + intros x Hx He. apply in_app_iff in Hx. destruct Hx as [Hx|[<-|[]]]; [auto|reflexivity].
    + intros x enc Hx He. apply in_app_iff in Hx. destruct Hx as [Hx|[<-|[]]]; [eauto|]. cbn in He. discriminate.
  - (* emit *)
    destruct (check_bank_usage banks c) as [[]| |] eqn:Eu; try discriminate.
    destruct (check_bank_output mb b pos (N.of_nat (length enc)) true) as [[]| |] eqn:Eo; try discriminate.
    destruct (get_address (Z.of_N mb) b pos true) as [[addr|]| |] eqn:Ea; try discriminate.
    destruct (get_output_position b pos) as [[o|]| |] eqn:Ep; try discriminate.
    destruct (check_and_insert es o (N.of_nat (length enc))) as [es1| |] eqn:Ec; try discriminate.
    inversion H; subst es' out' spans'. clear H.
    destruct (bank_output_ok _ _ _ _ _ Eo) as (Hsz & _ & _).
    destruct (output_position_some _ _ _ Ep) as (outp & Ho & ->).
    destruct (get_address_guess _ _ _ _ Ea) as (Hu & Haddr & Hform).
    set (size := N.of_nat (length enc)) in *.
    set (it := mkItem (c_bank c) (Some (outp + pos)) size addr (Some enc)).
    destruct HJ.
    destruct (check_and_insert_step _ _ _ _ J_inv0 Ec) as (K1 & K2 & K3 & K4).
    assert (Hr : ranges [it] = [(outp + pos, size)]) by reflexivity.
    constructor.
    + exact K1.
    + intros e He Hp. rewrite ranges_app, Hr in He. apply in_app_iff in He. destruct He as [He|[<-|[]]]; [auto|].
      apply K3. exact Hp.
    + intros x Hx. apply in_app_iff in Hx. destruct Hx as [Hx|[<-|[]]]; [auto|].
      unfold item_ok. cbn [it_bank it_off it_size it_addr it]. rewrite Hnth. rewrite (usage_ok _ Eu). cbn [andb].
      destruct (size =? 0) eqn:Ez.
      * unfold mark_ok. rewrite Ho. destruct (bk_size b) as [sz|] eqn:Es; [|llia].
        pose proof (Hsz sz eq_refl). llia.
      * assert (Hq : (0 <= addr - bk_addr b)%Z).
        { pose proof (N2Z.is_nonneg (pos / bk_unit b)) as Hnn. clear -Haddr Hnn.
          set (d := Z.of_N (pos / bk_unit b)) in *. clearbody d. lia. }
        clear Haddr. unfold placed_ok. rewrite Ho.
        replace (outp + pos - outp) with pos by llia.
        remember ((addr - bk_addr b) * Z.of_N (bk_unit b))%Z as P eqn:EP. clear EP.
        destruct (bk_size b) as [sz|] eqn:Es.
        -- pose proof (Hsz sz eq_refl). llia.
        -- llia.
    + intros k Hk. rewrite covered_app. rewrite nth_write_bigint in Hk.
      destruct (Nat.leb (N.to_nat (outp + pos)) k && Nat.ltb k (N.to_nat (outp + pos) + length enc)) eqn:Er.
      * unfold it. rewrite covered_one. apply orb_true_iff. right. llia.
      * rewrite (J_zero0 k Hk). reflexivity.
    + rewrite length_write_bigint. rewrite written_end_app. unfold written_end at 2. cbn [fold_right it it_enc it_off it_size].
      subst size. destruct enc as [|e0 enc0]; cbn [length N.of_nat].
      * replace (0 <? 0) with false by reflexivity. llia.
      * replace (0 <? N.pos (Pos.of_succ_nat (length enc0))) with true by llia. llia.
    + intros x o enc1 Hx Hox Hex. apply in_app_iff in Hx. destruct Hx as [Hx|[<-|[]]].
      * destruct (J_bits0 x o enc1 Hx Hox Hex) as (Hs1 & Hb1). split; [exact Hs1|].
        intros j Hj. rewrite nth_write_bigint.
        destruct (Nat.leb (N.to_nat (outp + pos)) (N.to_nat o + j) && Nat.ltb (N.to_nat o + j) (N.to_nat (outp + pos) + length enc)) eqn:Er;
          [|apply Hb1; exact Hj].
        exfalso.
        assert (Hin : In (o, it_size x) (ranges spans)).
        { unfold ranges. apply in_flat_map. exists x. split; [exact Hx|]. rewrite Hox. left. reflexivity. }
        assert (Hpx : 0 < it_size x) by llia.
        pose proof (K4 ltac:(llia) _ (J_in0 _ Hin Hpx)) as D. unfold disjoint in D. cbn [fst snd] in D. llia.
      * cbn in Hox, Hex. inversion Hox; inversion Hex; subst. split; [reflexivity|].
        intros j Hj. rewrite nth_write_bigint.
        replace (Nat.leb (N.to_nat (outp + pos)) (N.to_nat (outp + pos) + j) && Nat.ltb (N.to_nat (outp + pos) + j) (N.to_nat (outp + pos) + length enc1)) with true by llia.
        f_equal. llia.
    + rewrite ranges_app, Hr. apply pairwise_app_one; [assumption|].
      cbn [snd]. intros Hp a0 Ha0 Hpa. apply K4; [exact Hp|]. apply J_in0; assumption.
    + intros x Hx He. apply in_app_iff in Hx. destruct Hx as [Hx|[<-|[]]]; [auto|]. cbn in He. discriminate.
    + intros x enc1 Hx He. apply in_app_iff in Hx. destruct Hx as [Hx|[<-|[]]]; [eauto|]. cbn in He. inversion He; subst. exact HQ.
  - (* res *)
    destruct (check_bank_usage banks c) as [[]| |] eqn:Eu; try discriminate.
    destruct (check_bank_output mb b pos k false) as [[]| |] eqn:Eo; try discriminate.
    destruct (get_output_position b pos) as [[o|]| |] eqn:Ep; try discriminate.
    + destruct (check_and_insert es o k) as [es1| |] eqn:Ec; try discriminate.
      inversion H; subst es' out' spans'. clear H. destruct HJ.
      destruct (check_and_insert_step _ _ _ _ J_inv0 Ec) as (K1 & K2 & K3 & K4).
      constructor; auto.
    + inversion H; subst. exact HJ.
Qed.

Lemma step_inv mb st n st' :
  J (w_es st) (w_out st) (w_spans st) -> nodeQ n -> step mb banks st n = Ok st' ->
  J (w_es st') (w_out st') (w_spans st').
Proof.
  intros HJ HQ H. unfold step in H.
  destruct (advance (Z.of_N mb) banks (w_cur st) (w_prev st)) as [c1| |]; try discriminate.
  destruct (enter (Z.of_N mb) banks c1 n) as [c2| |]; try discriminate.
  destruct (cur_bank banks c2) as [[b pos]| |] eqn:Ecb; try discriminate.
  destruct (emit_node mb banks c2 b pos n (w_es st) (w_out st) (w_spans st)) as [[[es out] spans]| |] eqn:Ee; try discriminate.
  inversion H; subst st'. cbn. eapply emit_node_inv; eauto.
Qed.

Lemma run_nodes_inv mb nodes : forall st st',
  J (w_es st) (w_out st) (w_spans st) -> Forall nodeQ nodes -> run_nodes mb banks nodes st = Ok st' ->
  J (w_es st') (w_out st') (w_spans st').
Proof.
  induction nodes as [|n nodes IH]; intros st st' HJ HQ H; unfold run_nodes in H; cbn [fold_left] in H.
  - inversion H; subst. exact HJ.
  - inversion HQ as [|? ? Hn Hrest]; subst.
    destruct (step mb banks st n) as [st1| |] eqn:Es.
    + apply (IH st1 st'); [eapply step_inv; eauto | exact Hrest | exact H].
    + exfalso. clear -H. induction nodes; cbn in H; [discriminate|auto].
    + exfalso. clear -H. induction nodes; cbn in H; [discriminate|auto].
Qed.
End Invariant.

(* fill_banks: all bits false, length = end of the last filled bank *)
Lemma fill_one_spec mb out b out' : fill_one mb out b = Ok out' ->
  (forall k, nth k out false = false) ->
  (forall k, nth k out' false = false) /\
  N.of_nat (length out') =
    (if bk_fill b then match bk_size b, bk_outp b with
       | Some s, Some o => if s =? 0 then N.of_nat (length out) else N.max (N.of_nat (length out)) (o + s)
       | _, _ => N.of_nat (length out) end else N.of_nat (length out)).
Proof.
  unfold fill_one. intros H Hz. destruct (bk_fill b); cbn [negb] in H; [|inversion H; subst; auto].
  destruct (bk_size b) as [s|]; [|inversion H; subst; auto].
  destruct (bk_outp b) as [o|]; [|inversion H; subst; auto].
  destruct (s =? 0) eqn:Es; [inversion H; subst; auto|].
  destruct (checked_add o s) as [e|] eqn:Ec; [|discriminate]. apply checked_add_some in Ec.
  destruct (mb <? e); [discriminate|].
  destruct (N.of_nat (length out) <=? o + s - 1) eqn:El; inversion H; subst out'.
  - split.
    + intros k. unfold write_bit. rewrite nth_update. destruct (Nat.eqb k _); auto.
    + unfold write_bit. rewrite length_update. llia.
  - split; [exact Hz|llia].
Qed.

Lemma fill_banks_spec mb banks : forall out out', fill_banks mb banks out = Ok out' ->
  (forall k, nth k out false = false) ->
  (forall k, nth k out' false = false) /\
  N.of_nat (length out') = fold_left (fun m b =>
    if bk_fill b then
      match bk_size b, bk_outp b with
      | Some s, Some o => if s =? 0 then m else N.max m (o + s)
      | _, _ => m
      end
    else m) banks (N.of_nat (length out)).
Proof.
  induction banks as [|b banks IH]; intros out out' H Hz; unfold fill_banks in H; cbn [fold_left] in H.
  - inversion H; subst. auto.
  - destruct (fill_one mb out b) as [o1| |] eqn:E1.
    + destruct (fill_one_spec _ _ _ _ E1 Hz) as (Z1 & L1).
      destruct (IH o1 out' H Z1) as (Z2 & L2). split; [exact Z2|]. rewrite L2, L1. cbn [fold_left].
      destruct (bk_fill b); [|reflexivity]. destruct (bk_size b); [|reflexivity]. destruct (bk_outp b); [|reflexivity].
      destruct (n =? 0); reflexivity.
    + exfalso. clear -H. induction banks; cbn in H; [discriminate|auto].
    + exfalso. clear -H. induction banks; cbn in H; [discriminate|auto].
Qed.

Lemma build_output_J (Q : list bool -> Prop) mb banks nodes out items :
  Forall (nodeQ Q) nodes -> build_output mb banks nodes = Ok (out, items) ->
  exists es, J Q banks (fill_end banks) es out items.
Proof.
  intros HQ H. unfold build_output in H.
  destruct (fill_banks mb banks []) as [out0| |] eqn:Ef; try discriminate.
  destruct (run_nodes mb banks nodes _) as [st| |] eqn:Er; try discriminate.
  destruct (advance _ _ _ _); try discriminate. inversion H; subst out items. clear H.
  destruct (fill_banks_spec _ _ _ _ Ef) as (Z0 & Len0); [intros [|k]; reflexivity|].
  exists (w_es st).
  apply (run_nodes_inv Q banks (fill_end banks) mb nodes (mkW (init_cursor banks) None [] out0 []) st); [|exact HQ|exact Er].
  cbn [w_es w_out w_spans]. constructor.
  - exact inv_nil.
  - intros e [].
  - intros it [].
  - intros k Hk. rewrite Z0 in Hk. discriminate.
  - rewrite Len0. unfold fill_end. cbn [length written_end fold_right N.of_nat]. rewrite N.max_0_r. reflexivity.
  - intros it o enc [].
  - reflexivity.
  - intros it [].
  - intros it enc [].
Qed.

Lemma unwritten_zero_of items out :
  (forall k, nth k out false = true -> covered items (N.of_nat k) = true) -> unwritten_zero items out = true.
Proof.
  intros H. unfold unwritten_zero. apply forallb_forall. intros k _.
  destruct (nth k out false) eqn:E; [rewrite (H k E); reflexivity | reflexivity].
Qed.

(* the three order-free clauses, and the length with zero-sized written items counted *)
Theorem layout_partial mb banks nodes out items :
  build_output mb banks nodes = Ok (out, items) ->
  forallb (item_ok banks) items = true /\
  pairwise_disjointb (ranges items) = true /\
  unwritten_zero items out = true /\
  N.of_nat (length out) = N.max (fill_end banks) (written_end items) /\
  content_ok items out = true.
Proof.
  intros H. destruct (build_output_J (fun _ => True) mb banks nodes out items) as (es & HJ); [|exact H|].
  { apply Forall_forall. intros n _. destruct n; exact I. }
  destruct HJ. split; [apply forallb_forall; auto|]. split; [assumption|]. split; [apply unwritten_zero_of; assumption|].
  split; [assumption|].
  unfold content_ok. apply forallb_forall. intros it Hit.
  destruct (it_off it) as [o|] eqn:Eo; [|reflexivity]. destruct (it_enc it) as [enc|] eqn:Ee; [|reflexivity].
  destruct (J_bits0 it o enc Hit Eo Ee) as (Hs & Hb). apply andb_true_iff. split; [llia|].
  apply forallb_forall. intros j Hj. apply in_seq in Hj. rewrite (Hb j ltac:(llia)). apply eqb_reflx.
Qed.

Definition no_empty_emit (n : node) : Prop := match n with NEmit [] => False | _ => True end.

(* the FULL layout invariant, unconditionally: since the F49 repair a zero-sized written item no longer extends the
   output, so the length is exactly the end of the last item with bits / filled bank for EVERY program *)
Theorem layout_full mb banks nodes out items :
  build_output mb banks nodes = Ok (out, items) -> layout_ok banks items out = true.
Proof.
  intros H.
  destruct (build_output_J (fun _ => True) mb banks nodes out items) as (es & HJ); [|exact H|].
  { apply Forall_forall. intros n _. destruct n; exact I. }
  destruct HJ. unfold layout_ok. repeat (apply andb_true_iff; split).
  - apply forallb_forall; auto.
  - assumption.
  - apply unwritten_zero_of; assumption.
  - unfold length_exact. rewrite J_len0. rewrite (items_end_written items).
    + apply N.eqb_refl.
    + exact J_lbl0.
Qed.

(* ================================================================= C. the bad classes are rejected *)
Lemma usage_default_bank banks c : c_bank c = 0%nat -> length banks <> 1%nat -> check_bank_usage banks c = Err.
Proof.
  intros H0 H1. unfold check_bank_usage. rewrite H0. cbn.
  destruct (Nat.eqb (length banks) 1) eqn:E; [apply Nat.eqb_eq in E; congruence | reflexivity].
Qed.

(* no side condition "pos + size fits in usize" any more: an unrepresentable end is past every bank size (/repo abbd199) *)
Lemma output_past_size mb b pos size w sz :
  bk_size b = Some sz -> sz < pos + size -> check_bank_output mb b pos size w = Err.
Proof.
  intros Hs Hlt. unfold check_bank_output. rewrite Hs. unfold checked_add.
  destruct (pos + size <=? usize_max); [|reflexivity].
  replace (sz <? pos + size) with true by llia. reflexivity.
Qed.

Lemma output_no_outp mb b pos size :
  bk_outp b = None -> check_bank_output mb b pos size true = Err.
Proof.
  intros Ho. unfold check_bank_output. rewrite Ho.
  destruct (bk_size b) as [sz|]; [|reflexivity]. destruct (checked_add pos size); [|reflexivity].
  destruct (sz <? n); reflexivity.
Qed.

Lemma usage_not_panic banks c : check_bank_usage banks c <> Panic.
Proof. unfold check_bank_usage. destruct (Nat.eqb (c_bank c) 0); [destruct (Nat.eqb (length banks) 1)|]; discriminate. Qed.

(* a write (instruction / data element) in any of the three per-item bad situations *)
Theorem emit_rejected mb banks c b pos enc es out spans :
  (c_bank c = 0%nat /\ length banks <> 1%nat) \/
  (exists sz, bk_size b = Some sz /\ sz < pos + N.of_nat (length enc)) \/
  bk_outp b = None ->
  emit_node mb banks c b pos (NEmit enc) es out spans = Err.
Proof.
  intros Hbad. cbn [emit_node].
  destruct Hbad as [(H0 & H1)|[(sz & Hs & Hlt)|Ho]].
  - rewrite (usage_default_bank _ _ H0 H1). reflexivity.
  - pose proof (usage_not_panic banks c). destruct (check_bank_usage banks c) as [[]| |]; try congruence.
    rewrite (output_past_size _ _ _ _ _ _ Hs Hlt). reflexivity.
  - pose proof (usage_not_panic banks c). destruct (check_bank_usage banks c) as [[]| |]; try congruence.
    rewrite (output_no_outp _ _ _ _ Ho). reflexivity.
Qed.

(* a reservation or a label past the bank's size, or in the default bank after #bankdef *)
Theorem res_rejected mb banks c b pos k es out spans :
  (c_bank c = 0%nat /\ length banks <> 1%nat) \/ (exists sz, bk_size b = Some sz /\ sz < pos + k) ->
  emit_node mb banks c b pos (NRes k) es out spans = Err.
Proof.
  intros Hbad. cbn [emit_node]. destruct Hbad as [(H0 & H1)|(sz & Hs & Hlt)].
  - rewrite (usage_default_bank _ _ H0 H1). reflexivity.
  - pose proof (usage_not_panic banks c). destruct (check_bank_usage banks c) as [[]| |]; try congruence.
    rewrite (output_past_size _ _ _ _ _ _ Hs Hlt). reflexivity.
Qed.
Theorem label_rejected mb banks c b pos d0 v es out spans :
  (c_bank c = 0%nat /\ length banks <> 1%nat) \/ (exists sz, bk_size b = Some sz /\ sz < pos) ->
  emit_node mb banks c b pos (NSymbol true d0 v) es out spans = Err.
Proof.
  intros Hbad. cbn [emit_node]. destruct Hbad as [(H0 & H1)|(sz & Hs & Hlt)].
  - rewrite (usage_default_bank _ _ H0 H1). reflexivity.
  - pose proof (usage_not_panic banks c). destruct (check_bank_usage banks c) as [[]| |]; try congruence.
    rewrite (output_past_size _ _ _ 0 _ _ Hs); [reflexivity | llia].
Qed.

(* an item sharing a bit with an earlier write or reservation *)
Theorem overlapping_request_rejected es o size e :
  inv es -> Forall fits es -> In e es -> 0 < size -> fits (o, size) -> ~ disjoint e (o, size) ->
  check_and_insert es o size = Err.
Proof.
  intros Hinv Hf He Hs Hfo Hnd.
  pose proof (step_no_panic bsearch es o size bsearch_ok Hinv Hf Hfo) as Hnp.
  destruct (check_and_insert es o size) as [es'| |] eqn:E; [|reflexivity|unfold check_and_insert in E; congruence].
  exfalso. destruct (step_pos bsearch es o size es' bsearch_ok Hinv Hs E) as (_ & _ & D). apply Hnd, D, He.
Qed.

(* an error at any node is the result of the whole stage *)
Lemma run_nodes_app mb banks l1 l2 st :
  run_nodes mb banks (l1 ++ l2) st =
  match run_nodes mb banks l1 st with Ok s => run_nodes mb banks l2 s | Err => Err | Panic => Panic end.
Proof.
  unfold run_nodes. rewrite fold_left_app.
  destruct (fold_left _ l1 (Ok st)) as [s| |]; [reflexivity| |].
  - induction l2; cbn; auto.
  - induction l2; cbn; auto.
Qed.

Theorem error_propagates mb banks pre n post out0 st :
  fill_banks mb banks [] = Ok out0 ->
  run_nodes mb banks pre (mkW (init_cursor banks) None [] out0 []) = Ok st ->
  step mb banks st n = Err ->
  build_output mb banks (pre ++ n :: post) = Err.
Proof.
  intros Hf Hr Hs. unfold build_output. rewrite Hf. rewrite run_nodes_app, Hr.
  change (n :: post) with ([n] ++ post). rewrite run_nodes_app.
  unfold run_nodes at 1. cbn [fold_left]. rewrite Hs. reflexivity.
Qed.

(* a rejected item makes its step fail *)
Lemma step_emit_err mb banks st n c1 c2 b pos :
  advance (Z.of_N mb) banks (w_cur st) (w_prev st) = Ok c1 -> enter (Z.of_N mb) banks c1 n = Ok c2 ->
  cur_bank banks c2 = Ok (b, pos) ->
  emit_node mb banks c2 b pos n (w_es st) (w_out st) (w_spans st) = Err ->
  step mb banks st n = Err.
Proof. intros H1 H2 H3 H4. unfold step. rewrite H1, H2, H3, H4. reflexivity. Qed.
