(* C08b: frame and replay lemmas on the Resolver2 fragment (cursors, banks, symbol contexts) -- the lift of
   Proofs/ResolverSFrameP.v: if the optimised first pass reports Resolved, the unoptimised pass in the same mode from the
   resulting state changes nothing and reports Resolved. *)
From Coq Require Import NArith ZArith List Bool Lia.
Import ListNotations.
From CA Require Import Model.Lexer Model.Parser Model.Literal Model.BigIntOps Model.Evaluator Model.Matcher Model.Resolver
  Model.Resolver2 Model.StaticKnown Model.ResolverS Model.ResolverS2 Spec.StaticSpec
  Proofs.ResolverFixP Proofs.CertUniqueP Proofs.StaticKnownP Proofs.ResolverSSimP Proofs.ResolverSFrameP
  Proofs.Resolver2FixP Proofs.Resolver2MonoP Proofs.ResolverS2P.
From CA Require Model.Paths Model.Overlap Model.Cursor Model.LastPass Model.Output Model.Symbols.
Open Scope Z_scope.

Ltac crush2 H tac :=
  repeat match type of H with
         | Ok _ = Ok _ => inversion H; subst; clear H; tac
         | match ?q with _ => _ end = _ => destruct q; try discriminate H
         | (if ?q then _ else _) = _ => destruct q; try discriminate H
         | (let _ := _ in _) = _ => cbv zeta in H
         end.

(* ---------- a step of the unoptimised resolver writes only its own item ---------- *)
Section Frame2.
Variable m : Symbols.mgr.
Variable defs : list ruledef.
Variable mb : Z.
Variable last : bool.

Lemma node2_frame n c st b pos st' r : resolve_node2 m defs mb last n c st b pos = Ok (st', r) ->
  (forall i, ~ In i (iref (n, c)) -> nth_error (s_instr st') i = nth_error (s_instr st) i) /\
  (forall d, ~ In d (dref (n, c)) -> nth_error (s_data st') d = nth_error (s_data st) d) /\
  length (s_data st') = length (s_data st).
Proof.
  intro H. unfold resolve_node2 in H. cbv zeta in H.
  destruct n as [s d0|s d0 e|i src|width d e|k e|k e|k e|bi|e]; cbn [iref dref fst].
  4:{ destruct (eval code_ops _ e []) as [[v c1]|]; [|discriminate].
      destruct (expect_error_or_bigint v) as [v'|]; [|discriminate].
      match type of H with match ?q with _ => _ end = _ => destruct q as [menc|]; [|discriminate] end.
      match type of H with (if negb ?q then _ else _) = _ => destruct q; cbn [negb] in H; [|discriminate] end.
      inversion H; subst; clear H. destruct menc; cbn [s_instr s_data]; rewrite ?set_nth_length; (split; [|split]); try reflexivity.
      intros j Hj. rewrite nth_error_set_nth_other; [reflexivity|intro; subst; apply Hj; now left]. }
  all: crush2 H ltac:(cbn [s_instr s_data]; rewrite ?set_nth_length;
                   (split; [|split]); try reflexivity; intros j Hj; try reflexivity;
                   try (rewrite nth_error_set_nth_other; [reflexivity|intro; subst; apply Hj; now left])).
Qed.

Lemma heavy_aux2 n c st b pos st' r : match n with XInstr _ _ | XData _ _ _ => True | _ => False end ->
  resolve_node2 m defs mb last n c st b pos = Ok (st', r) -> aux_eq st st'.
Proof.
  intros Hn H. unfold resolve_node2 in H. cbv zeta in H.
  destruct n as [s d0|s d0 e|i src|width d e|k e|k e|k e|bi|e]; try destruct Hn.
  - crush2 H ltac:(repeat split).
  - destruct (eval code_ops _ e []) as [[v c1]|]; [|discriminate].
    destruct (expect_error_or_bigint v) as [v'|]; [|discriminate].
    match type of H with match ?q with _ => _ end = _ => destruct q as [menc|]; [|discriminate] end.
    match type of H with (if negb ?q then _ else _) = _ => destruct q; cbn [negb] in H; [|discriminate] end.
    inversion H; subst; clear H. destruct menc; repeat split.
Qed.

(* what a step reads *)
Definition own_eq2 (n : xnode) (a b : state) : Prop :=
  match n with
  | XInstr i _ => nth_error (s_instr a) i = nth_error (s_instr b) i
  | XData _ d _ => nth_error (s_data a) d = nth_error (s_data b) d
  | _ => True
  end.

Lemma pvar2_eq st st' c addr cg : s_sym st = s_sym st' -> pvar2 m st c addr cg = pvar2 m st' c addr cg.
Proof. intro E. unfold pvar2. rewrite E. reflexivity. Qed.

Lemma view_eq n a b : aux_eq a b -> own_eq2 n a b -> view a n = view b n.
Proof.
  intros (Es & Er & Eal & Ead) Ho. destruct n; cbn [view own_eq2] in *; rewrite ?Es, ?Er, ?Eal, ?Ead; try reflexivity.
  - rewrite Ho. reflexivity.
  - rewrite !nth_nth_error, Ho. reflexivity.
Qed.

Lemma node_loc2 n c a b bk pos a' r : resolve_node2 m defs mb last n c a bk pos = Ok (a', r) -> aux_eq a b -> own_eq2 n a b ->
  exists b', resolve_node2 m defs mb last n c b bk pos = Ok (b', r).
Proof.
  intros H (Es & Er & Eal & Ead) Ho. unfold resolve_node2 in *. cbv zeta in *.
  rewrite <- (pvar2_eq a b c _ _ Es).
  destruct n as [s d0|s d0 e|i src|width d e|k e|k e|k e|bi|e]; cbn [own_eq2] in Ho;
    rewrite <- ?Es, <- ?Er, <- ?Eal, <- ?Ead, <- ?Ho; rewrite ?nth_nth_error in *; rewrite <- ?Ho.
  4:{ destruct (eval code_ops _ e []) as [[v c1]|]; [|discriminate].
      destruct (expect_error_or_bigint v) as [v'|]; [|discriminate].
      match type of H with match ?q with _ => _ end = _ => destruct q as [menc|]; [|discriminate] end.
      match type of H with (if negb ?q then _ else _) = _ => destruct q; cbn [negb] in H |- *; [|discriminate] end.
      inversion H; subst; clear H. eauto. }
  all: crush2 H ltac:(eauto).
Qed.
End Frame2.
