(* C08b: frame and replay lemmas on the Resolver2 fragment (cursors, banks, symbol contexts) -- the lift of
   Proofs/ResolverSFrameP.v: if the optimised first pass reports Resolved, the unoptimised pass in the same mode from the
   resulting state changes nothing and reports Resolved. *)
From Coq Require Import NArith ZArith List Bool Lia.
Import ListNotations.
From CA Require Import Model.Lexer Model.Parser Model.Literal Model.BigIntOps Model.Evaluator Model.Matcher Model.Resolver
  Model.Resolver2 Model.StaticKnown Model.ResolverS Model.ResolverS2 Spec.StaticSpec
  Proofs.ResolverFixP Proofs.CertUniqueP Proofs.StaticKnownP Proofs.ResolverSSimP Proofs.ResolverSFrameP
  Proofs.Resolver2FixP Proofs.Resolver2MonoP Proofs.ResolverS2P.
From CA Require Model.Paths Model.Overlap Model.Cursor Model.LastPass Model.Output Model.Symbols.
Open Scope Z_scope.

Ltac crush2 H tac :=
  repeat match type of H with
         | Ok _ = Ok _ => inversion H; subst; clear H; tac
         | match ?q with _ => _ end = _ => destruct q; try discriminate H
         | (if ?q then _ else _) = _ => destruct q; try discriminate H
         | (let _ := _ in _) = _ => cbv zeta in H
         end.

(* ---------- a step of the unoptimised resolver writes only its own item ---------- *)
Section Frame2.
Variable m : Symbols.mgr.
Variable defs : list ruledef.
Variable mb : Z.
Variable last : bool.

Lemma node2_frame n c st b pos st' r : resolve_node2 m defs mb last n c st b pos = Ok (st', r) ->
  (forall i, ~ In i (iref (n, c)) -> nth_error (s_instr st') i = nth_error (s_instr st) i) /\
  (forall d, ~ In d (dref (n, c)) -> nth_error (s_data st') d = nth_error (s_data st) d) /\
  length (s_data st') = length (s_data st).
Proof.
  intro H. unfold resolve_node2 in H. cbv zeta in H.
  destruct n as [s d0|s d0 e|i src|width d e|k e|k e|k e|bi|e]; cbn [iref dref fst].
  4:{ destruct (eval code_ops _ e []) as [[v c1]|]; [|discriminate].
      destruct (expect_error_or_bigint v) as [v'|]; [|discriminate].
      match type of H with match ?q with _ => _ end = _ => destruct q as [menc|]; [|discriminate] end.
      match type of H with (if negb ?q then _ else _) = _ => destruct q; cbn [negb] in H; [|discriminate] end.
      inversion H; subst; clear H. destruct menc; cbn [s_instr s_data]; rewrite ?set_nth_length; (split; [|split]); try reflexivity.
      intros j Hj. rewrite nth_error_set_nth_other; [reflexivity|intro; subst; apply Hj; now left]. }
  all: crush2 H ltac:(cbn [s_instr s_data]; rewrite ?set_nth_length;
                   (split; [|split]); try reflexivity; intros j Hj; try reflexivity;
                   try (rewrite nth_error_set_nth_other; [reflexivity|intro; subst; apply Hj; now left])).
Qed.

Lemma heavy_aux2 n c st b pos st' r : match n with XInstr _ _ | XData _ _ _ => True | _ => False end ->
  resolve_node2 m defs mb last n c st b pos = Ok (st', r) -> aux_eq st st'.
Proof.
  intros Hn H. unfold resolve_node2 in H. cbv zeta in H.
  destruct n as [s d0|s d0 e|i src|width d e|k e|k e|k e|bi|e]; try destruct Hn.
  - crush2 H ltac:(repeat split).
  - destruct (eval code_ops _ e []) as [[v c1]|]; [|discriminate].
    destruct (expect_error_or_bigint v) as [v'|]; [|discriminate].
    match type of H with match ?q with _ => _ end = _ => destruct q as [menc|]; [|discriminate] end.
    match type of H with (if negb ?q then _ else _) = _ => destruct q; cbn [negb] in H; [|discriminate] end.
    inversion H; subst; clear H. destruct menc; repeat split.
Qed.

(* what a step reads *)
Definition own_eq2 (n : xnode) (a b : state) : Prop :=
  match n with
  | XInstr i _ => nth_error (s_instr a) i = nth_error (s_instr b) i
  | XData _ d _ => nth_error (s_data a) d = nth_error (s_data b) d
  | _ => True
  end.

Lemma pvar2_eq st st' c addr cg : s_sym st = s_sym st' -> pvar2 m st c addr cg = pvar2 m st' c addr cg.
Proof. intro E. unfold pvar2. rewrite E. reflexivity. Qed.

Lemma view_eq n a b : aux_eq a b -> own_eq2 n a b -> view a n = view b n.
Proof.
  intros (Es & Er & Eal & Ead) Ho. destruct n; cbn [view own_eq2] in *; rewrite ?Es, ?Er, ?Eal, ?Ead; try reflexivity.
  - rewrite Ho. reflexivity.
  - rewrite !nth_nth_error, Ho. reflexivity.
Qed.

Lemma node_loc2 n c a b bk pos a' r : resolve_node2 m defs mb last n c a bk pos = Ok (a', r) -> aux_eq a b -> own_eq2 n a b ->
  exists b', resolve_node2 m defs mb last n c b bk pos = Ok (b', r).
Proof.
  intros H (Es & Er & Eal & Ead) Ho. unfold resolve_node2 in *. cbv zeta in *.
  rewrite <- (pvar2_eq a b c _ _ Es).
  destruct n as [s d0|s d0 e|i src|width d e|k e|k e|k e|bi|e]; cbn [own_eq2] in Ho;
    rewrite <- ?Es, <- ?Er, <- ?Eal, <- ?Ead, <- ?Ho; rewrite ?nth_nth_error in *; rewrite <- ?Ho.
  4:{ destruct (eval code_ops _ e []) as [[v c1]|]; [|discriminate].
      destruct (expect_error_or_bigint v) as [v'|]; [|discriminate].
      match type of H with match ?q with _ => _ end = _ => destruct q as [menc|]; [|discriminate] end.
      match type of H with (if negb ?q then _ else _) = _ => destruct q; cbn [negb] in H |- *; [|discriminate] end.
      inversion H; subst; clear H. eauto. }
  all: crush2 H ltac:(eauto).
Qed.
End Frame2.

(* ---------- a step of the optimised resolver sets only the flag of its own item ---------- *)
Section Flags2.
Variable m : Symbols.mgr.
Variable banks : list Cursor.bank.
Variable defs : list ruledef.
Variable mb : Z.
Variable K : kinfo.
Variables opt first last : bool.

Lemma nodeS2_flags n c x b pos x' r : resolve_nodeS2 m defs mb K opt first last n c x b pos = Ok (x', r) ->
  (forall s, ~ In s (sref (n, c)) -> flag (fz_sym x') s = flag (fz_sym x) s) /\
  (forall i, ~ In i (iref (n, c)) -> flag (fz_instr x') i = flag (fz_instr x) i) /\
  (forall d, ~ In d (dref (n, c)) -> flag (fz_data x') d = flag (fz_data x) d).
Proof.
  intro H.
  assert (Same : x' = x \/ (exists st', x' = with_state x st') ->
            (forall s, ~ In s (sref (n, c)) -> flag (fz_sym x') s = flag (fz_sym x) s) /\
            (forall i, ~ In i (iref (n, c)) -> flag (fz_instr x') i = flag (fz_instr x) i) /\
            (forall d, ~ In d (dref (n, c)) -> flag (fz_data x') d = flag (fz_data x) d)).
  { intros [->|[st' ->]]; auto. }
  assert (Plain : forall st0, (match resolve_node2 m defs mb last n c st0 b pos with
                    | Err => Err | Panic => Panic | Ok (st', res) => Ok (with_state x st', res) end) = Ok (x', r) ->
                    exists st', x' = with_state x st').
  { intros st0 H0. destruct (resolve_node2 m defs mb last n c st0 b pos) as [[st' r0]| |]; try discriminate. inversion H0; eauto. }
  destruct n as [s d0|s d0 e|i src|width d e|k e|k e|k e|bi|e]; cbn [resolve_nodeS2] in H; cbn [sref iref dref fst];
    try (apply Same; right; eapply Plain; eauto; fail).
  - destruct (flag (fz_sym x) s); [inversion H; subst; apply Same; now left|].
    destruct (resolve_node2 m defs mb last (XConst s d0 e) c (ss x) b pos) as [[st' r0]| |]; try discriminate.
    destruct (opt && first && flag (k_sym K) s); inversion H; subst; [|apply Same; right; eauto].
    cbn [fz_sym fz_instr fz_data]. split; [|auto]. intros s0 Hs0. apply flag_set_other. intro; subst. apply Hs0. now left.
  - destruct (nth_error (s_instr (ss x)) i) as [d|]; [|discriminate].
    destruct (flag (fz_instr x) i); [inversion H; subst; apply Same; now left|].
    destruct (smallest_encodings defs _ _ (i_matches d)) as [encs|]; [|discriminate]. cbv zeta in H.
    match type of H with (if ?q then _ else _) = _ => destruct q end; inversion H; subst; [|apply Same; right; eauto].
    cbn [fz_sym fz_instr fz_data]. split; [auto|]. split; [|auto]. intros i0 Hi0. apply flag_set_other. intro; subst. apply Hi0. now left.
  - destruct (flag (fz_data x) d); [inversion H; subst; apply Same; now left|]. cbv zeta in H.
    destruct (eval code_ops _ e []) as [[v c1]|]; [|discriminate].
    destruct (expect_error_or_bigint v) as [v'|]; [|discriminate].
    match type of H with match ?q with _ => _ end = _ => destruct q as [menc|]; [|discriminate] end.
    match type of H with (if negb ?q then _ else _) = _ => destruct q; cbn [negb] in H; [|discriminate] end.
    match type of H with (if ?q then _ else _) = _ => destruct q end; inversion H; subst; [|apply Same; right; eauto].
    cbn [fz_sym fz_instr fz_data]. split; [auto|]. split; [auto|]. intros d1 Hd1. apply flag_set_other. intro; subst. apply Hd1. now left.
Qed.

Lemma pass2S_flags : forall l x c prev acc x' r,
  pass2S m banks defs mb K opt first last l x c prev acc = Ok (x', r) ->
  (forall s, ~ In s (flat_map sref l) -> flag (fz_sym x') s = flag (fz_sym x) s) /\
  (forall i, ~ In i (flat_map iref l) -> flag (fz_instr x') i = flag (fz_instr x) i) /\
  (forall d, ~ In d (flat_map dref l) -> flag (fz_data x') d = flag (fz_data x) d).
Proof.
  induction l as [|[n cn] l IH]; intros x c prev acc x' r H; cbn [pass2S] in H.
  - destruct (Cursor.advance mb banks c prev); try discriminate. inversion H; subst. auto.
  - unfold step2S in H. cbn [fst snd] in H.
    destruct (Cursor.advance mb banks c prev) as [c1| |]; try discriminate.
    destruct (Cursor.enter mb banks c1 (shape n)) as [c2| |]; try discriminate.
    destruct (Cursor.cur_bank banks c2) as [[b pos]| |]; try discriminate.
    destruct (resolve_nodeS2 m defs mb K opt first last n cn x b pos) as [[x1 r1]| |] eqn:E; try discriminate.
    destruct (nodeS2_flags _ _ _ _ _ _ _ E) as (A1 & A2 & A3). destruct (IH _ _ _ _ _ _ H) as (B1 & B2 & B3).
    cbn [flat_map]. repeat split; intros j Hj; [rewrite B1, A1|rewrite B2, A2|rewrite B3, A3]; auto; intro; apply Hj; apply in_or_app; auto.
Qed.
End Flags2.

Lemma pass2_frame m banks defs mb last : forall l st c prev acc st' r,
  pass2 m banks defs mb last l st c prev acc = Ok (st', r) ->
  (forall i, ~ In i (flat_map iref l) -> nth_error (s_instr st') i = nth_error (s_instr st) i) /\
  (forall d, ~ In d (flat_map dref l) -> nth_error (s_data st') d = nth_error (s_data st) d) /\
  length (s_data st') = length (s_data st).
Proof.
  induction l as [|[n cn] l IH]; intros st c prev acc st' r H; cbn [pass2] in H.
  - destruct (Cursor.advance mb banks c prev); try discriminate. inversion H; subst. auto.
  - unfold step2 in H. cbn [fst snd] in H.
    destruct (Cursor.advance mb banks c prev) as [c1| |]; try discriminate.
    destruct (Cursor.enter mb banks c1 (shape n)) as [c2| |]; try discriminate.
    destruct (Cursor.cur_bank banks c2) as [[b pos]| |]; try discriminate.
    destruct (resolve_node2 m defs mb last n cn st b pos) as [[st1 r1]| |] eqn:E; try discriminate.
    destruct (node2_frame _ _ _ _ _ _ _ _ _ _ _ E) as (A1 & A2 & A3). destruct (IH _ _ _ _ _ _ H) as (B1 & B2 & B3).
    cbn [flat_map]. split; [|split; [|congruence]]; intros j Hj; [rewrite B1, A1|rewrite B2, A2]; auto; intro; apply Hj; apply in_or_app; auto.
Qed.

Section Replay2.
Variable m : Symbols.mgr.
Variable banks : list Cursor.bank.
Variable defs : list ruledef.
Variable mb : Z.
Variable ns : list cnode.
Variable K : kinfo.
Hypothesis Hres : reserved_free2 m.
Hypothesis HKsym : forall r, nth_error (k_sym K) r = Some true -> exists d0 e c, In (XConst r d0 e, c) ns /\ const_known e = true.
Hypothesis Hok : forall w d e c, In (XData w d e, c) ns -> data_known e = true -> elem_strict_ok w e = true.
Hypothesis HKdata : forall w d e c, In (XData w d e, c) ns -> flag (k_data K) d = true -> data_known e = true.
Hypothesis Hcanon : canonical2 ns.
Hypothesis Hdist : syms_distinct2 ns.
Variables first md : bool.

Let Hcan : true = true -> canonical2 ns := fun _ => Hcanon.
Notation INV := (Inv2 m defs mb ns K true).
Notation NS n c x b pos := (resolve_nodeS2 m defs mb K true first md n c x b pos).
Notation NF n c st b pos := (resolve_node2 m defs mb md n c st b pos).

Lemma node_T_to_F2 n c x b pos x' rT : In (n, c) ns -> INV x -> NS n c x b pos = Ok (x', rT) ->
  exists rF, NF n c (ss x) b pos = Ok (ss x', rF) /\ le_res rF rT /\ INV x' /\ sub_flags x x'.
Proof.
  intros Hin HI HT.
  pose proof (node_sim2 m defs mb ns K Hres HKsym true Hok HKdata Hcan md first n c x b pos Hin HI) as H.
  destruct (NF n c (ss x) b pos) as [[st' rF]| |]; try (rewrite H in HT; discriminate).
  destruct H as (x'' & rT'' & HT' & Hss & Hr & _ & HI' & Hsub). rewrite HT' in HT. inversion HT; subst. exists rF. auto.
Qed.

Lemma pass_T_to_F2 l x c prev accF accT x' rT : incl l ns -> INV x -> le_res accF accT ->
  pass2S m banks defs mb K true first md l x c prev accT = Ok (x', rT) ->
  exists rF, pass2 m banks defs mb md l (ss x) c prev accF = Ok (ss x', rF) /\ le_res rF rT /\ INV x' /\ sub_flags x x'.
Proof.
  intros Hincl HI Hle HT.
  pose proof (pass_sim2 m banks defs mb ns K Hres HKsym true Hok HKdata Hcan md first l Hincl x c prev accF accT HI Hle) as H.
  destruct (pass2 m banks defs mb md l (ss x) c prev accF) as [[st' rF]| |]; try (rewrite H in HT; discriminate).
  destruct H as (x'' & rT'' & HT' & Hss & Hr & _ & HI' & Hsub). rewrite HT' in HT. inversion HT; subst. exists rF. auto.
Qed.

Definition frozen_at2 (n : xnode) (x' : sstate) : Prop :=
  match n with
  | XConst s _ _ => flag (fz_sym x') s = true
  | XInstr i _ => flag (fz_instr x') i = true
  | XData _ d _ => flag (fz_data x') d = true
  | _ => False
  end.

Lemma node_outcome2 n c x b pos x' rT st' rF : In (n, c) ns -> INV x ->
  (forall d, In d (dref (n, c)) -> (d < length (s_data (ss x)))%nat) ->
  NS n c x b pos = Ok (x', rT) -> NF n c (ss x) b pos = Ok (st', rF) ->
  (rT = rF /\ x' = with_state x st') \/ frozen_at2 n x'.
Proof.
  intros Hin HI Hrange HT HF. pose proof HI as (I1 & I2 & I3 & I4 & L1 & L2 & L3).
  destruct n as [s d0|s d0 e|i src|width d e|k e|k e|k e|bi|e]; cbn [resolve_nodeS2] in HT;
    try (rewrite HF in HT; inversion HT; subst; left; auto; fail).
  - destruct (flag (fz_sym x) s) eqn:Fs; [inversion HT; subst; right; exact Fs|].
    rewrite HF in HT. destruct (true && first && flag (k_sym K) s) eqn:C; inversion HT; subst; [|left; auto].
    right. cbn [frozen_at2 fz_sym]. apply flag_set_in_range. rewrite L1.
    apply andb_prop in C. destruct C as [_ Ck]. unfold flag in Ck.
    destruct (nth_error (k_sym K) s) as [bb|] eqn:Kb; [subst bb|discriminate].
    destruct (HKsym s Kb) as (d0' & e' & c' & Hin' & Hk').
    destruct (proj1 (I1 eq_refl) s d0' e' c' Hin' Hk') as (v & c1 & _ & Hs & _).
    apply nth_error_Some. congruence.
  - unfold resolve_node2 in HF. cbv zeta in HF. destruct (nth_error (s_instr (ss x)) i) as [d|] eqn:Hd; [|discriminate].
    destruct (flag (fz_instr x) i) eqn:Fi; [inversion HT; subst; right; exact Fi|].
    rewrite resolve_encoding_smallest in HF.
    destruct (smallest_encodings defs _ _ (i_matches d)) as [encs|]; [|discriminate]. cbv zeta in HT.
    match type of HT with (if ?q then _ else _) = _ => destruct q end; inversion HT; subst.
    + right. cbn [frozen_at2 fz_instr]. apply flag_set_in_range. rewrite L2. apply nth_error_Some. congruence.
    + left. destruct encs as [cc|]; inversion HF; subst; auto.
  - destruct (flag (fz_data x) d) eqn:Fd; [inversion HT; subst; right; exact Fd|].
    unfold resolve_node2 in HF. cbv zeta in HF, HT.
    destruct (eval code_ops _ e []) as [[v c1]|]; [|discriminate].
    destruct (expect_error_or_bigint v) as [v'|]; [|discriminate].
    destruct (flag (k_data K) d) eqn:Kd.
    + rewrite orb_true_r in HT.
      match type of HT with match ?q with _ => _ end = _ => destruct q as [menc|] eqn:Em; [|discriminate] end.
      match type of HT with (if negb ?q then _ else _) = _ => destruct q; cbn [negb] in HT; [|discriminate] end.
      match type of HT with (if ?q then _ else _) = _ => destruct q eqn:Fz end; inversion HT; subst.
      * right. cbn [frozen_at2 fz_data]. apply flag_set_in_range. rewrite L3. apply Hrange. cbn. now left.
      * left. destruct v'; try discriminate Em. inversion Em; subst menc.
        match type of HF with (if negb ?q then _ else _) = _ => destruct q; cbn [negb] in HF; [|discriminate] end.
        inversion HF; subst. auto.
    + rewrite orb_false_r in HT.
      match type of HT with match ?q with _ => _ end = _ => destruct q as [menc|]; [|discriminate] end.
      match type of HT with (if negb ?q then _ else _) = _ => destruct q; cbn [negb] in HT, HF; [|discriminate] end.
      assert (Efr : match menc with Some bb => true && first && false && match bsz (match width with Some w => slice_to bb (Z.of_N w) | None => slice_to bb (size_or_min bb) end) with Some _ => true | None => false end | None => false end = false)
        by (destruct menc; [rewrite !andb_false_r|]; reflexivity).
      left. destruct menc as [bb|]; [rewrite !andb_false_r in HT; cbn [andb] in HT|]; inversion HT; inversion HF; subst; auto.
Qed.
(* a step that reports Resolved leaves the symbols and the reservation / alignment / address tables alone *)
Lemma node_aux2 n c x b pos x' : In (n, c) ns -> INV x -> labels_ok2 ns (ss x) ->
  (forall d, In d (dref (n, c)) -> (d < length (s_data (ss x)))%nat) ->
  NS n c x b pos = Ok (x', Resolved) -> aux_eq (ss x) (ss x').
Proof.
  intros Hin HI Hl Hrange HT. destruct (node_T_to_F2 n c x b pos x' Resolved Hin HI HT) as (rF & HF & _ & HI' & _).
  destruct (node_outcome2 n c x b pos x' Resolved _ _ Hin HI Hrange HT HF) as [[<- _]|Hz].
  - rewrite <- (resolve_node2_fix m defs mb md ns n c _ _ _ _ Hl Hin HF). apply aux_refl.
  - destruct n as [s d0|s d0 e|i src|width d e|k e|k e|k e|bi|e]; try (exfalso; exact Hz);
      try (eapply heavy_aux2; [|exact HF]; exact I).
    cbn [frozen_at2] in Hz. pose proof HI' as (_ & _ & _ & I4 & _). destruct (I4 s Hz) as (_ & d0' & e' & c' & Hin' & Hk').
    assert (e' = e) by (eapply const_unique2; [exact (proj1 Hcanon)|exact Hin'|exact Hin]). subst e'.
    pose proof HI as (I1 & _). rewrite (const_noop2 m defs mb ns Hres (ss x) b pos md s d0 e c (proj1 (I1 eq_refl)) Hin Hk') in HF.
    inversion HF. apply aux_refl.
Qed.

(* replaying one step of the optimised first pass (which reported Resolved) from the state x2 at the end of that pass *)
Lemma replay_node2 n c x b pos x' x2 : In (n, c) ns -> INV x -> labels_ok2 ns (ss x) ->
  (forall d, In d (dref (n, c)) -> (d < length (s_data (ss x)))%nat) ->
  NS n c x b pos = Ok (x', Resolved) ->
  INV x2 -> labels_ok2 ns (ss x2) -> aux_eq (ss x') (ss x2) -> sub_flags x' x2 -> own_eq2 n (ss x') (ss x2) ->
  NF n c (ss x2) b pos = Ok (ss x2, Resolved).
Proof.
  intros Hin HI Hl Hrange HT HI2 Hl2 Ha Hsub Ho.
  destruct (node_T_to_F2 n c x b pos x' Resolved Hin HI HT) as (rF & HF & _ & HI' & _).
  destruct (node_outcome2 n c x b pos x' Resolved _ _ Hin HI Hrange HT HF) as [[<- _]|Hz].
  - pose proof (resolve_node2_fix m defs mb md ns n c _ _ _ _ Hl Hin HF) as E. rewrite E in *.
    destruct (node_loc2 m defs mb md n c (ss x) (ss x2) b pos _ _ HF Ha Ho) as [b' Hb'].
    rewrite <- (resolve_node2_fix m defs mb md ns n c _ _ _ _ Hl2 Hin Hb') at 2. exact Hb'.
  - destruct Hsub as (S1 & S2 & S3). pose proof HI2 as (I1 & I2 & I3 & I4 & _).
    destruct n as [s d0|s d0 e|i src|width d e|k e|k e|k e|bi|e]; try (exfalso; exact Hz); cbn [frozen_at2] in Hz.
    + destruct (I4 s (S1 s Hz)) as (_ & d0' & e' & c' & Hin' & Hk').
      assert (e' = e) by (eapply const_unique2; [exact (proj1 Hcanon)|exact Hin'|exact Hin]). subst e'.
      exact (const_noop2 m defs mb ns Hres (ss x2) b pos md s d0 e c (proj1 (I1 eq_refl)) Hin Hk').
    + destruct (I2 i (S2 i Hz)) as (_ & d2 & Hd2 & Hok2). exact (Hok2 src c Hin (ss x2) b pos md src (proj1 (I1 eq_refl)) Hd2).
    + destruct (I3 d (S3 d Hz)) as (bb & Hb & Hall). exact (Hall width e c Hin c (ss x2) b pos md Hb).
Qed.

(* the whole pass *)
Lemma replay_pass2 : forall l, incl l ns -> NoDup (flat_map iref l) -> NoDup (flat_map dref l) ->
  forall x c prev x2, INV x -> labels_ok2 ns (ss x) -> (forall d, In d (flat_map dref l) -> (d < length (s_data (ss x)))%nat) ->
  pass2S m banks defs mb K true first md l x c prev Resolved = Ok (x2, Resolved) ->
  pass2 m banks defs mb md l (ss x2) c prev Resolved = Ok (ss x2, Resolved) /\ INV x2 /\ labels_ok2 ns (ss x2) /\ aux_eq (ss x) (ss x2).
Proof.
  induction l as [|[n cn] l IH]; intros Hincl Ni Nd x c prev x2 HI Hl Hrange H; cbn [pass2S] in H.
  - cbn [pass2]. destruct (Cursor.advance mb banks c prev); try discriminate. inversion H; subst. split; [reflexivity|]. split; [exact HI|]. split; [exact Hl|apply aux_refl].
  - assert (Hin : In (n, cn) ns) by (apply Hincl; now left).
    assert (Hincl' : incl l ns) by (intros y Hy; apply Hincl; now right).
    cbn [flat_map] in Ni, Nd.
    unfold step2S in H. cbn [fst snd] in H. cbn [pass2]. unfold step2. cbn [fst snd].
    destruct (Cursor.advance mb banks c prev) as [c1| |]; try discriminate.
    destruct (Cursor.enter mb banks c1 (shape n)) as [c2| |]; try discriminate.
    destruct (Cursor.cur_bank banks c2) as [[b pos]| |]; try discriminate.
    destruct (NS n cn x b pos) as [[x1 r1]| |] eqn:E; try discriminate.
    destruct r1; cbn [merge] in H; [|exfalso; eapply pass2S_sticky; eauto].
    assert (Hr0 : forall d, In d (dref (n, cn)) -> (d < length (s_data (ss x)))%nat)
      by (intros d Hd; apply Hrange; cbn [flat_map]; apply in_or_app; now left).
    pose proof (node_aux2 n cn x b pos x1 Hin HI Hl Hr0 E) as Ha0.
    destruct (node_T_to_F2 n cn x b pos x1 Resolved Hin HI E) as (rF & HF & _ & HI1 & _).
    assert (Hl1 : labels_ok2 ns (ss x1)) by (eapply resolve_node2_labels_ok; [exact Hdist|exact Hl|exact Hin|exact HF]).
    destruct (node2_frame _ _ _ _ _ _ _ _ _ _ _ HF) as (_ & _ & Hlen).
    destruct (IH Hincl' (NoDup_app_r _ _ Ni) (NoDup_app_r _ _ Nd) x1 c2 (Some (view (ss x1) n)) x2 HI1 Hl1) as (IHp & HI2 & Hl2 & Ha1); [|exact H|].
    { intros d Hd. rewrite Hlen. apply Hrange. cbn [flat_map]. apply in_or_app. now right. }
    destruct (pass_T_to_F2 l x1 c2 (Some (view (ss x1) n)) Resolved Resolved x2 Resolved Hincl' HI1 (le_res_refl _) H) as (rF' & HF' & _ & _ & Hsub).
    destruct (pass2_frame _ _ _ _ _ _ _ _ _ _ _ _ HF') as (Fi & Fd & _).
    destruct (pass2S_flags _ _ _ _ _ _ _ _ _ _ _ _ _ _ _ H) as (_ & _ & Ff).
    assert (Ho : own_eq2 n (ss x1) (ss x2)).
    { destruct n; cbn [own_eq2]; try exact I.
      - symmetry. apply Fi. intro Hi. eapply NoDup_app_disj; [exact Ni| |exact Hi]. cbn. now left.
      - symmetry. apply Fd. intro Hd. eapply NoDup_app_disj; [exact Nd| |exact Hd]. cbn. now left. }
    rewrite (replay_node2 n cn x b pos x1 x2 Hin HI Hl Hr0 E HI2 Hl2 Ha1 Hsub Ho). cbn [merge].
    rewrite (view_eq n (ss x2) (ss x1) (aux_sym _ _ Ha1)).
    2:{ destruct n; cbn [own_eq2] in *; try exact I; symmetry; exact Ho. }
    split; [exact IHp|]. split; [exact HI2|]. split; [exact Hl2|eapply aux_trans; eauto].
Qed.

End Replay2.
