(* C05 round trip: every constructor of the printable sub-language, read at its own level; then by induction on
   the size of the tree `Q e` (the text `pr full p e` is read as e at every level p), for BOTH printers at once
   (`full = true` parenthesises every non-leaf, `full = false` only where the precedence table requires it).
   Final statements: `parse_full`, `parse_min`. *)
From Coq Require Import NArith List Bool Arith Lia ZifyBool.
From CA Require Import Model.Lexer Model.Parser Spec.Printer Proofs.ParseWfP Proofs.RoundTripLex Proofs.RoundTripNum
  Proofs.RoundTripLevels Proofs.RoundTripSpec.
Import ListNotations.
Open Scope N_scope.

Ltac tx := repeat rewrite <- app_assoc; reflexivity.

(* token lemmas on a text that is only provably of the shape  blank ++ spelling ++ rest ; the walker position,
   the text and the queried kind are found by matching the goal *)
Lemma tokM b p rest k : Lex p rest k -> blank b -> forall c t, t = b ++ p ++ rest -> forall k',
  maybe_expect (W c t) k' = if tkind_eqb k' k then Some (W (c + bytes_len b + bytes_len p) rest, p) else None.
Proof. intros HL Hb c t -> k'. apply tok_maybe; assumption. Qed.
Lemma tokI b p rest k : Lex p rest k -> blank b -> forall c t, t = b ++ p ++ rest -> forall k',
  next_useful_is (W c t) k' = tkind_eqb k' k.
Proof. intros HL Hb c t -> k'. apply tok_is; assumption. Qed.
Lemma tokE b p rest k : Lex p rest k -> blank b -> forall c t, t = b ++ p ++ rest ->
  expect (W c t) k = POk p (W (c + bytes_len b + bytes_len p) rest).
Proof. intros HL Hb c t ->. apply tok_expect; assumption. Qed.
Lemma tokA b p rest k : Lex p rest k -> blank b -> forall c t, t = b ++ p ++ rest -> at_linebreak (W c t) = false.
Proof. intros HL Hb c t ->. apply (tok_atlb c b p rest k); assumption. Qed.
Lemma tokL b p rest k : Lex p rest k -> blank b -> forall c t, t = b ++ p ++ rest ->
  next_linebreak (fuel_of (W c t)) (W c t) = None.
Proof. intros HL Hb c t ->. apply (tok_nolb c b p rest k); assumption. Qed.

Lemma PU g bad n dp s e : Parses g bad n dp s e -> forall b r, blank b ->
  forall f d c t, t = b ++ s ++ r -> (n <= f)%nat -> (d + dp <= PARSE_DEPTH_MAX)%nat -> Follow bad r ->
    g f d (W c t) = POk e (W (c + bytes_len b + bytes_len s) r).
Proof. intros H b r Hb f d c t -> Hf Hd HF. apply H; assumption. Qed.

Ltac side := first [ tx | assumption | solve [auto with rt] | lia ].

Lemma follow_sp bad p rest k : Lex p rest k -> bad k = false -> Follow bad ([32] ++ p ++ rest).
Proof. intros HL Hk. apply follow_tok with (k := k); auto with rt. reflexivity. Qed.

Lemma bad0_le o o' k : (o' = true -> o = true) -> bad0 o k = false -> bad0 o' k = false.
Proof.
  unfold bad0. intros Ho H. apply orb_false_elim in H. destruct H as [-> H]. cbn [orb].
  destruct o'; [|reflexivity]. rewrite (Ho eq_refl) in H. exact H.
Qed.

(* positions *)
Lemma bytes_len_cons2 x y l : bytes_len (x :: y :: l) = bytes_len [x] + bytes_len (y :: l).
Proof. cbn [bytes_len]. lia. Qed.
Ltac posnorm :=
  rewrite ?bytes_len_app; rewrite ?bytes_len_cons2;
  repeat match goal with |- context [bytes_len [?x]] => change (bytes_len [x]) with 1 end;
  change (bytes_len []) with 0.
Ltac wpos := f_equal; apply W_eq; posnorm; lia.

(* ---------- how operands begin ---------- *)
Lemma starts_is c b s r k' : blank b -> starts s -> (k' = TParenClose \/ k' = TBraceClose) ->
  next_useful_is (W c (b ++ s ++ r)) k' = false.
Proof.
  intros Hb Hs Hk. destruct s as [|x s]; [contradiction|]. cbn [starts] in Hs.
  destruct (start_kind x (s ++ r) Hs) as [Hw Ho]. apply open_kind_facts in Ho. destruct Ho as (Hi & H1 & H2).
  change ((x :: s) ++ r) with (x :: s ++ r). rewrite (kind_is c b x (s ++ r) k' Hb Hw Hi).
  destruct Hk as [-> | ->]; assumption.
Qed.
Lemma lex_minus_s s r : starts s -> Lex [45] (s ++ r) TMinus.
Proof. destruct s as [|x s]; [contradiction|]. cbn [starts]. intro H. apply lex_minus. apply (start_char_cases x H). Qed.
Lemma lex_excl_s s r : starts s -> Lex [33] (s ++ r) TExclamation.
Proof. destruct s as [|x s]; [contradiction|]. cbn [starts]. intro H. apply lex_excl. apply (start_char_cases x H). Qed.
Lemma lex_colon_s s r : starts s -> Lex [58] (s ++ r) TColon.
Proof. destruct s as [|x s]; [contradiction|]. cbn [starts]. intro H. apply lex_colon. apply (start_char_cases x H). Qed.

Lemma lstarts_starts s : lstarts s -> starts s.
Proof. destruct s; [auto|]. apply lstart_start. Qed.
Lemma starts_app s t : starts s -> starts (s ++ t).
Proof. destruct s; [contradiction|auto]. Qed.
Lemma lstarts_app s t : lstarts s -> lstarts (s ++ t).
Proof. destruct s; [contradiction|auto]. Qed.

Lemma name_first n : name_ok n = true -> exists c0 n', n = c0 :: n' /\ lstart_char c0 = true.
Proof.
  unfold name_ok. intro H. apply orb_prop in H. destruct H as [H | H].
  - apply text_eqb_eq in H. subst n. exists 36, []. split; reflexivity.
  - unfold wf_name in H. destruct n as [|c0 n]; [discriminate|]. repeat (apply andb_prop in H; destruct H as [H ?]).
    exists c0, n. split; [reflexivity|]. unfold lstart_char. rewrite H. rewrite orb_true_r. reflexivity.
Qed.
Lemma sepby_cons2 sp (x y : text) l : sepby sp (x :: y :: l) = x ++ sp ++ sepby sp (y :: l).
Proof. reflexivity. Qed.

Section Main.
Variable full : bool.
Notation pr := (pr full).
Notation pd := (pd full).
Notation body := (body full).
Notation bd := (bd full).
Notation gtext := (gtext full).
Notation gdep := (gdep full).
Notation chain := (chain full).
Notation Q := (Q full).
Notation OwnSpec := (OwnSpec full).

Lemma begins e : printable e = true ->
  (forall p, starts (pr p e)) /\ (forall p, needs_paren full p e = true \/ (15 <= prec e)%nat -> lstarts (pr p e))
  /\ ((15 <= prec e)%nat -> lstarts (body e)).
Proof.
  induction e as [v sz|bb|raw|lv path|uo a IHa|o a IHa b0 IHb|c IHc t IHt f0 IHf|l IHl r0 IHr a IHa|s IHs a IHa|es|f IHf args];
    intro Hw.
  all: match type of Hw with printable ?e = true =>
         assert (Hb : starts (body e) /\ ((15 <= prec e)%nat -> lstarts (body e))) end;
    [ | destruct Hb as [Hb1 Hb2]; split; [|split];
        [ intro p; rewrite pr_eq; destruct (needs_paren full p _); [reflexivity | exact Hb1]
        | intros p Hp; rewrite pr_eq; destruct (needs_paren full p _) eqn:E; [reflexivity|];
          destruct Hp as [Hp|Hp]; [discriminate | exact (Hb2 Hp)]
        | exact Hb2 ] ].
  - destruct (print_num_shape v sz Hw) as (d0 & s0 & E & Hd & _). cbn [body]. rewrite E.
    assert (lstart_char d0 = true) by (unfold lstart_char; rewrite Hd; reflexivity).
    split; [apply lstart_start; assumption | intro; assumption].
  - destruct bb; split; try intro; reflexivity.
  - cbn [printable] in Hw. destruct (str_ok_shape raw Hw) as (bd0 & -> & _). split; [|intro]; reflexivity.
  - cbn [printable] in Hw. destruct path as [|n path]; [discriminate|]. cbn [forallb] in Hw.
    apply andb_prop in Hw. destruct Hw as [Hn _].
    assert (Hl : lstarts (body (EVar lv (n :: path)))).
    { cbn [body]. unfold print_var. destruct (N.to_nat lv) as [|k]; [|reflexivity]. cbn [repeat app].
      destruct (name_first n Hn) as (c0 & n' & -> & Hc). destruct path; [exact Hc|]. rewrite sepby_cons2. exact Hc. }
    split; [apply lstarts_starts; exact Hl | intro; exact Hl].
  - split; [destruct uo; reflexivity | cbn [prec]; lia].
  - cbn [printable] in Hw. apply andb_prop in Hw. destruct Hw as [Hwa _]. destruct (IHa Hwa) as (Ha & _).
    split; [|cbn [prec]; destruct o; cbn; lia]. cbn [body]. destruct o; apply starts_app; apply Ha.
  - cbn [printable] in Hw. apply andb_prop in Hw. destruct Hw as [Hw _]. apply andb_prop in Hw. destruct Hw as [Hwc _].
    destruct (IHc Hwc) as (Hc & _). split; [|cbn [prec]; lia]. cbn [body]. apply starts_app; apply Hc.
  - cbn [printable] in Hw. apply andb_prop in Hw. destruct Hw as [_ Hwa]. destruct (IHa Hwa) as (Ha & _).
    split; [|cbn [prec]; lia]. cbn [body]. apply starts_app; apply Ha.
  - cbn [printable] in Hw. apply andb_prop in Hw. destruct Hw as [_ Hwa]. destruct (IHa Hwa) as (Ha & _).
    split; [|cbn [prec]; lia]. cbn [body]. apply starts_app; apply Ha.
  - split; try intro; reflexivity.
  - cbn [printable] in Hw. apply andb_prop in Hw. destruct Hw as [Hwf _]. destruct (IHf Hwf) as (_ & Hf & _).
    assert (Hl : lstarts (pr 16 f)).
    { apply Hf. unfold needs_paren. destruct (Nat.ltb_spec (prec f) 16); [left; reflexivity|right; lia]. }
    cbn [body]. split; [apply lstarts_starts|intro]; apply lstarts_app; exact Hl.
Qed.

Lemma pr_starts e p : printable e = true -> starts (pr p e).
Proof. intro Hw. apply (begins e Hw). Qed.
Lemma body_lstarts e : printable e = true -> (15 <= prec e)%nat -> lstarts (body e).
Proof. intro Hw. apply (begins e Hw). Qed.

(* ---------- reading the statements of a sub-tree ---------- *)
Lemma q0 a : Q a -> Parses parse_expr (bad0 (guard_paren full a)) (K * size a) (S (pd 0 a)) (pr 0 a) a.
Proof. intro H. exact (H 0%nat ltac:(lia)). Qed.
Lemma q13 a : Q a -> Parses parse_short (badp 13) (K * size a) (pd 13 a) (pr 13 a) a.
Proof. intro H. exact (H 13%nat ltac:(lia)). Qed.
Lemma q14 a : Q a -> Parses parse_unary (badp 14) (K * size a) (pd 14 a) (pr 14 a) a.
Proof. intro H. exact (H 14%nat ltac:(lia)). Qed.
Lemma q16 a : Q a -> Parses parse_leaf (badp 16) (K * size a) (pd 16 a) (pr 16 a) a.
Proof. intro H. exact (H 16%nat ltac:(lia)). Qed.

Lemma qlev a p : Q a -> (2 <= p <= 12)%nat ->
  Parses (plev (skipn (p - 2) level_ops)) (badp p) (K * size a) (pd p a) (pr p a) a.
Proof.
  intros H Hp. pose proof (H p ltac:(lia)) as Hs. destruct p as [|[|i]]; [lia|lia|].
  rewrite SpecAt_bin in Hs by lia. replace (S (S i) - 2)%nat with i by lia.
  apply (bin_plain i) in Hs; [exact Hs|lia|]. pose proof (chain_le full (S (S i)) a). pose proof (size_pos a). unfold K. lia.
Qed.

Lemma qassign a : Q a -> Parses parse_assign (badp 1) (K * size a + 1) (pd 2 a) (pr 2 a) a.
Proof.
  intro H. pose proof (qlev a 2 H ltac:(lia)) as H2. change (skipn (2 - 2) level_ops) with level_ops in H2.
  replace (K * size a + 1)%nat with (S (K * size a)) by lia. apply lift_assign; [|reflexivity].
  apply (Parses_bad _ _ _ _ _ _ _ H2). intro k. apply badp_mono. lia.
Qed.

Lemma gspec a : Q a -> Parses parse_expr (bad0 false) (K * size a + 40) (S (gdep a)) (gtext a) a.
Proof.
  intro H. pose proof (q0 a H) as H0. unfold gtext, gdep. destruct (guard_paren full a) eqn:E.
  - pose proof (paren_leaf (badp 16) _ _ _ _ _ H0) as H16.
    pose proof (spec_down 16 (paren (pr 0 a)) 0 _ (S (pd 0 a)) a false ltac:(lia) H16 ltac:(unfold K; pose proof (size_pos a); lia) 16%nat ltac:(lia)
                  ltac:(intros; apply paren_lstarts)) as Hd.
    change (Parses parse_expr (bad0 false) (S (K * size a) + 2 * 16) (S (S (pd 0 a))) (paren (pr 0 a)) a) in Hd.
    apply (Parses_fuel _ _ _ _ _ _ _ Hd). lia.
  - apply (Parses_fuel _ _ _ _ _ _ _ H0). lia.
Qed.

(* ---------- leaves ---------- *)
Lemma own_num v sz : printable (ENum v sz) = true -> Parses parse_leaf (badp 16) 1 0 (print_num v sz) (ENum v sz).
Proof.
  intros Hw f d c b r Hbl Hf Hd HF. destruct f as [|f]; [lia|]. rewrite parse_leaf_S.
  pose proof (num_lex v sz r Hw (follow_sep _ _ HF)) as HL.
  rewrite !(tokI b _ r TNumber HL Hbl) by tx. cbn [tkind_eqb orb].
  rewrite (tokE b _ r TNumber HL Hbl) by tx. cbn [bind]. rewrite (num_literal v sz Hw). reflexivity.
Qed.

Lemma own_bool (bb : bool) : Parses parse_leaf (badp 16) 1 0 (if bb then kw_true else kw_false) (EBool bb).
Proof.
  intros f d c b r Hbl Hf Hd HF. destruct f as [|f]; [lia|]. rewrite parse_leaf_S. destruct bb.
  - pose proof (lex_true r (follow_sep _ _ HF)) as HL.
    rewrite !(tokI b _ r TKeywordTrue HL Hbl) by tx. cbn [tkind_eqb orb].
    rewrite (tokE b _ r TKeywordTrue HL Hbl) by tx. reflexivity.
  - pose proof (lex_false r (follow_sep _ _ HF)) as HL.
    rewrite !(tokI b _ r TKeywordFalse HL Hbl) by tx. cbn [tkind_eqb orb].
    rewrite (tokE b _ r TKeywordFalse HL Hbl) by tx. reflexivity.
Qed.

Lemma own_str raw : str_ok raw = true -> Parses parse_leaf (badp 16) 1 0 raw (EStr raw).
Proof.
  intros Hw f d c b r Hbl Hf Hd HF. destruct f as [|f]; [lia|]. rewrite parse_leaf_S.
  pose proof (lex_string raw r Hw) as HL.
  rewrite !(tokI b _ r TString HL Hbl) by tx. cbn [tkind_eqb orb].
  rewrite (tokE b _ r TString HL Hbl) by tx. reflexivity.
Qed.

(* ---------- variables: leading dots, then names joined by dots ---------- *)

Lemma names_split n path r : sep r ->
  exists restn, sepby [46] (n :: path) ++ r = n ++ restn /\ sep restn.
Proof.
  intro Hr. destruct path as [|m path].
  - exists r. split; [reflexivity|exact Hr].
  - exists ([46] ++ sepby [46] (m :: path) ++ r). split; [rewrite sepby_cons2; tx|reflexivity].
Qed.

Lemma names_loop path : forall n acc f c b r lvl t, blank b -> name_ok n = true -> forallb name_ok path = true ->
  Follow (badp 16) r -> t = b ++ sepby [46] (n :: path) ++ r -> (length path + 1 <= f)%nat ->
  parse_var_names f (W c t) lvl acc =
  POk (EVar lvl (rev acc ++ n :: path)) (W (c + bytes_len b + bytes_len (sepby [46] (n :: path))) r).
Proof.
  induction path as [|m path IH]; intros n acc f c b r lvl t Hbl Hn Hp HF -> Hf;
    (destruct f as [|f]; [cbn [length] in Hf; lia|]); rewrite parse_var_names_S.
  - cbn [sepby]. pose proof (lex_nameok n r Hn (follow_sep _ _ HF)) as HL.
    rewrite (tokE b n r TIdentifier HL Hbl) by tx. cbn [bind rev].
    destruct (at_linebreak _); [reflexivity|]. rewrite (follow_maybe _ r _ TDot HF eq_refl). reflexivity.
  - rewrite sepby_cons2. cbn [forallb] in Hp. apply andb_prop in Hp. destruct Hp as [Hm Hp].
    pose proof (lex_nameok n ([46] ++ sepby [46] (m :: path) ++ r) Hn eq_refl) as HL.
    rewrite (tokE b n ([46] ++ sepby [46] (m :: path) ++ r) TIdentifier HL Hbl) by tx. cbn [bind].
    rewrite (tokA [] [46] (sepby [46] (m :: path) ++ r) TDot (lex_dot _) blank_nil) by tx.
    rewrite (tokM [] [46] (sepby [46] (m :: path) ++ r) TDot (lex_dot _) blank_nil) by tx. cbn [tkind_eqb].
    rewrite (IH m (n :: acc) f _ [] r lvl _ blank_nil Hm Hp HF eq_refl) by (cbn [length] in Hf; lia).
    cbn [rev]. rewrite <- (app_assoc (rev acc)). change ([n] ++ m :: path) with (n :: m :: path).
    f_equal. apply W_eq. posnorm. lia.
Qed.

Lemma bytes_len_dots k : bytes_len (repeat 46 k) = N.of_nat k.
Proof. induction k as [|k IH]; [reflexivity|]. cbn [repeat bytes_len]. rewrite IH. change (utf8_len 46) with 1. lia. Qed.

Lemma dots_loop k : forall lvl f c b t n path r, blank b -> name_ok n = true -> forallb name_ok path = true ->
  Follow (badp 16) r -> t = b ++ repeat 46 k ++ sepby [46] (n :: path) ++ r -> (k + length path + 2 <= f)%nat ->
  parse_var_dots f (W c t) lvl =
  POk (EVar (lvl + N.of_nat k) (n :: path)) (W (c + bytes_len b + N.of_nat k + bytes_len (sepby [46] (n :: path))) r).
Proof.
  induction k as [|k IH]; intros lvl f c b t n path r Hbl Hn Hp HF -> Hf; (destruct f as [|f]; [lia|]); rewrite parse_var_dots_S.
  - cbn [repeat app]. destruct (names_split n path r (follow_sep _ _ HF)) as (restn & E & Hs).
    pose proof (lex_nameok n restn Hn Hs) as HL.
    rewrite (tokA b n restn TIdentifier HL Hbl) by (rewrite E; reflexivity).
    rewrite (tokM b n restn TIdentifier HL Hbl) by (rewrite E; reflexivity). cbn [tkind_eqb].
    rewrite (names_loop path n [] f c b r lvl _ Hbl Hn Hp HF eq_refl) by lia.
    cbn [rev app]. change (N.of_nat 0) with 0. rewrite !N.add_0_r. reflexivity.
  - cbn [repeat].
    rewrite (tokA b [46] (repeat 46 k ++ sepby [46] (n :: path) ++ r) TDot (lex_dot _) Hbl) by tx.
    rewrite (tokM b [46] (repeat 46 k ++ sepby [46] (n :: path) ++ r) TDot (lex_dot _) Hbl) by tx. cbn [tkind_eqb].
    rewrite (IH (lvl + 1) f _ [] _ n path r blank_nil Hn Hp HF eq_refl) by lia.
    rewrite Nat2N.inj_succ. replace (lvl + 1 + N.of_nat k) with (lvl + N.succ (N.of_nat k)) by lia.
    f_equal. apply W_eq. posnorm. lia.
Qed.

Lemma own_var l n path : name_ok n = true -> forallb name_ok path = true ->
  Parses parse_leaf (badp 16) (N.to_nat l + length path + 3) 0 (print_var l (n :: path)) (EVar l (n :: path)).
Proof.
  intros Hn Hp f d c b r Hbl Hf Hd HF. destruct f as [|f]; [lia|]. rewrite parse_leaf_S. unfold print_var.
  assert (Hdots : parse_var_dots f (W c (b ++ (repeat 46 (N.to_nat l) ++ sepby [46] (n :: path)) ++ r)) 0 =
                  POk (EVar l (n :: path)) (W (c + bytes_len b + bytes_len (repeat 46 (N.to_nat l) ++ sepby [46] (n :: path))) r)).
  { rewrite (dots_loop (N.to_nat l) 0 f c b _ n path r Hbl Hn Hp HF) by (tx || lia).
    rewrite N2Nat.id, N.add_0_l. f_equal. apply W_eq. rewrite bytes_len_app, bytes_len_dots, N2Nat.id. lia. }
  destruct (N.to_nat l) as [|k] eqn:El.
  - cbn [repeat app] in *. destruct (names_split n path r (follow_sep _ _ HF)) as (restn & E & Hs).
    pose proof (lex_nameok n restn Hn Hs) as HL.
    rewrite !(tokI b n restn TIdentifier HL Hbl) by (first [rewrite E; reflexivity | rewrite <- app_assoc, E; reflexivity]). cbn [tkind_eqb orb].
    exact Hdots.
  - cbn [repeat] in *.
    rewrite !(tokI b [46] (repeat 46 k ++ sepby [46] (n :: path) ++ r) TDot (lex_dot _) Hbl) by tx. cbn [tkind_eqb orb].
    exact Hdots.
Qed.

(* ---------- unary ---------- *)
Lemma own_un o a : Q a -> printable a = true ->
  Parses parse_unary (badp 14) (K * size a + 1) (S (pd 14 a)) (unop_text o ++ pr 14 a) (EUn o a).
Proof.
  intros Qa Wa f d c b r Hbl Hf Hd HF. destruct f as [|f]; [lia|]. rewrite parse_unary_S.
  pose proof (pr_starts a 14 Wa) as Hst. pose proof (q14 a Qa) as Ha.
  destruct o; cbn [unop_text].
  - pose proof (lex_minus_s (pr 14 a) r Hst) as HL.
    rewrite !(tokM b [45] (pr 14 a ++ r) TMinus HL Hbl) by tx. cbn [tkind_eqb].
    rewrite (depth_ok d _ Hd).
    rewrite (PU _ _ _ _ _ _ Ha [] r blank_nil) by side.
    cbn [bind]. wpos.
  - pose proof (lex_excl_s (pr 14 a) r Hst) as HL.
    rewrite !(tokM b [33] (pr 14 a ++ r) TExclamation HL Hbl) by tx. cbn [tkind_eqb].
    rewrite (depth_ok d _ Hd).
    rewrite (PU _ _ _ _ _ _ Ha [] r blank_nil) by side.
    cbn [bind]. wpos.
Qed.

(* ---------- short slice ---------- *)
Lemma own_short s a : Q s -> Q a ->
  Parses parse_short (badp 13) (K * (size s + size a) + 1) (Nat.max (pd 14 a) (pd 16 s))
    (pr 14 a ++ [96] ++ pr 16 s) (EShort s a).
Proof.
  intros Qs Qa f d c b r Hbl Hf Hd HF. destruct f as [|f]; [lia|]. rewrite parse_short_S.
  pose proof (q14 a Qa) as Ha. pose proof (q16 s Qs) as Hs.
  rewrite (PU _ _ _ _ _ _ Ha b ([96] ++ pr 16 s ++ r) Hbl)
    by (side || (apply follow_one with (k := TGrave); [apply lex_grave | reflexivity | reflexivity])).
  cbn [bind].
  rewrite (tokA [] [96] (pr 16 s ++ r) TGrave (lex_grave _) blank_nil) by tx.
  rewrite (tokM [] [96] (pr 16 s ++ r) TGrave (lex_grave _) blank_nil) by tx. cbn [tkind_eqb].
  rewrite (PU _ _ _ _ _ _ Hs [] r blank_nil)
    by (side || (revert HF; apply follow_weaken; intro k; apply badp_mono; lia)).
  cbn [bind]. wpos.
Qed.

(* ---------- slice ---------- *)
Lemma own_slice l r0 a : Q l -> Q r0 -> Q a -> printable r0 = true ->
  Parses parse_slice (badp 12) (K * (size l + size r0 + size a) + 50)
    (Nat.max (pd 13 a) (Nat.max (S (gdep l)) (S (pd 0 r0))))
    (pr 13 a ++ [91] ++ gtext l ++ [58] ++ pr 0 r0 ++ [93]) (ESlice l r0 a).
Proof.
  intros Ql Qr Qa Wr f d c b r Hbl Hf Hd HF. destruct f as [|f]; [lia|]. rewrite parse_slice_S.
  pose proof (q13 a Qa) as Ha. pose proof (gspec l Ql) as Hl. pose proof (q0 r0 Qr) as Hr.
  pose proof (pr_starts r0 0 Wr) as Hst.
  rewrite (PU _ _ _ _ _ _ Ha b ([91] ++ gtext l ++ [58] ++ pr 0 r0 ++ [93] ++ r) Hbl)
    by (side || (apply follow_one with (k := TBracketOpen); [apply lex_bopen | reflexivity | reflexivity])).
  cbn [bind].
  rewrite (tokA [] [91] (gtext l ++ [58] ++ pr 0 r0 ++ [93] ++ r) TBracketOpen (lex_bopen _) blank_nil) by tx.
  rewrite (tokM [] [91] (gtext l ++ [58] ++ pr 0 r0 ++ [93] ++ r) TBracketOpen (lex_bopen _) blank_nil) by tx.
  cbn [tkind_eqb].
  pose proof (lex_colon_s (pr 0 r0) ([93] ++ r) Hst) as HLc.
  rewrite (PU _ _ _ _ _ _ Hl [] ([58] ++ pr 0 r0 ++ [93] ++ r) blank_nil)
    by (side || (apply follow_one with (k := TColon); [exact HLc | reflexivity | reflexivity])).
  cbn [bind].
  rewrite (tokE [] [58] (pr 0 r0 ++ [93] ++ r) TColon HLc blank_nil) by tx.
  cbn [bind].
  rewrite (PU _ _ _ _ _ _ Hr [] ([93] ++ r) blank_nil)
    by (side || (apply follow_one with (k := TBracketClose); [apply lex_bclose | destruct (guard_paren full r0); reflexivity | reflexivity])).
  cbn [bind].
  rewrite (tokE [] [93] r TBracketClose (lex_bclose _) blank_nil) by tx. cbn [bind]. wpos.
Qed.

(* ---------- assignment and ternary: right-associative through parse_expr ---------- *)
Lemma own_assign a b0 : Q a -> Q b0 ->
  Parses parse_expr (bad0 (ends_open b0)) (K * (size a + size b0) + 10) (S (Nat.max (pd 2 a) (S (pd 0 b0))))
    (pr 2 a ++ [32; 61; 32] ++ pr 0 b0) (EBin Assign a b0).
Proof.
  intros Qa Qb f d c b r Hbl Hf Hd HF. destruct f as [|[|f]]; try lia. rewrite parse_expr_S. cbv zeta.
  rewrite (depth_ok d _ Hd). rewrite parse_assign_S.
  pose proof (qlev a 2 Qa ltac:(lia)) as Ha. change (skipn (2 - 2) level_ops) with level_ops in Ha. unfold plev in Ha.
  pose proof (q0 b0 Qb) as Hb.
  rewrite (PU _ _ _ _ _ _ Ha b ([32] ++ [61] ++ 32 :: pr 0 b0 ++ r) Hbl)
    by (side || (apply follow_sp with (k := TEqual); [apply lex_equal | reflexivity])).
  cbn [bind].
  rewrite (tokM [32] [61] (32 :: pr 0 b0 ++ r) TEqual (lex_equal _) blank_sp) by tx. cbn [tkind_eqb].
  rewrite (PU _ _ _ _ _ _ Hb [32] r blank_sp)
    by (side || (revert HF; apply follow_weaken; intro k; apply bad0_le; unfold guard_paren; destruct full, (ends_open b0); cbn; congruence)).
  cbn [bind].
  rewrite (follow_maybe _ r _ TQuestion HF) by (destruct (ends_open b0); reflexivity).
  wpos.
Qed.

Lemma own_tern c0 t f0 : Q c0 -> Q t -> Q f0 ->
  Parses parse_expr (bad0 (ends_open (ETern c0 t f0))) (K * (size c0 + size t + size f0) + 50)
    (S (bd (ETern c0 t f0))) (body (ETern c0 t f0)) (ETern c0 t f0).
Proof.
  intros Qc Qt Qf f d c b r Hbl Hf Hd HF. destruct f as [|f]; [lia|]. rewrite parse_expr_S. cbv zeta.
  cbn [bd] in Hd. rewrite (depth_ok d _ Hd).
  pose proof (qassign c0 Qc) as Hc. pose proof (q0 t Qt) as Ht. pose proof (gspec t Qt) as Hg. pose proof (q0 f0 Qf) as Hf0.
  cbn [body]. destruct (is_empty_block f0) eqn:Eb.
  - (* no else *)
    assert (Ef : f0 = EBlock []) by (destruct f0 as [| | | | | | | | |[|? ?]|]; try discriminate; reflexivity). subst f0.
    cbn [ends_open] in HF.
    rewrite (PU _ _ _ _ _ _ Hc b ([32] ++ [63] ++ 32 :: pr 0 t ++ r) Hbl)
      by (side || (apply follow_sp with (k := TQuestion); [apply lex_question | reflexivity])).
    cbn [bind].
    rewrite (tokM [32] [63] (32 :: pr 0 t ++ r) TQuestion (lex_question _) blank_sp) by tx. cbn [tkind_eqb].
    rewrite (PU _ _ _ _ _ _ Ht [32] r blank_sp)
      by (side || (revert HF; apply follow_weaken; intro k; apply bad0_mono)).
    cbn [bind].
    rewrite (follow_maybe _ r _ TColon HF eq_refl). wpos.
  - (* with else *)
    assert (Eo : ends_open (ETern c0 t f0) = ends_open f0).
    { cbn [ends_open]. destruct f0 as [| | | | | | | | |[|? ?]|]; try reflexivity. discriminate. }
    rewrite Eo in HF.
    rewrite (PU _ _ _ _ _ _ Hc b ([32] ++ [63] ++ 32 :: gtext t ++ [32; 58; 32] ++ pr 0 f0 ++ r) Hbl)
      by (side || (apply follow_sp with (k := TQuestion); [apply lex_question | reflexivity])).
    cbn [bind].
    rewrite (tokM [32] [63] (32 :: gtext t ++ [32; 58; 32] ++ pr 0 f0 ++ r) TQuestion (lex_question _) blank_sp) by tx.
    cbn [tkind_eqb].
    rewrite (PU _ _ _ _ _ _ Hg [32] ([32] ++ [58] ++ 32 :: pr 0 f0 ++ r) blank_sp)
      by (side || (apply follow_sp with (k := TColon); [apply lex_colon_b | reflexivity])).
    cbn [bind].
    rewrite (tokM [32] [58] (32 :: pr 0 f0 ++ r) TColon (lex_colon_b _) blank_sp) by tx. cbn [tkind_eqb].
    rewrite (PU _ _ _ _ _ _ Hf0 [32] r blank_sp)
      by (side || (revert HF; apply follow_weaken; intro k; apply bad0_le; unfold guard_paren; destruct full, (ends_open f0); cbn; congruence)).
    cbn [bind]. wpos.
Qed.

(* ---------- a binary operator of the table: the generic level lemma, once ---------- *)
Lemma binop_range o : o <> Assign -> (2 <= binop_prec o <= 11)%nat.
Proof. destruct o; cbn; intros; try lia. congruence. Qed.
Lemma body_bin o a b0 : o <> Assign ->
  body (EBin o a b0) = pr (binop_prec o) a ++ [32] ++ binop_text o ++ [32] ++ pr (S (binop_prec o)) b0.
Proof. destruct o; try reflexivity. congruence. Qed.
Lemma bd_bin o a b0 : o <> Assign -> bd (EBin o a b0) = Nat.max (pd (binop_prec o) a) (pd (S (binop_prec o)) b0).
Proof. destruct o; try reflexivity. congruence. Qed.

Lemma own_bin o a b0 : o <> Assign -> Q a -> Q b0 ->
  BinSpec (binop_prec o - 2) (body (EBin o a b0)) (S (chain (binop_prec o) a)) (K * (size a + size b0) + 10)
    (bd (EBin o a b0)) (EBin o a b0).
Proof.
  intros Ho Qa Qb. pose proof (binop_range o Ho) as Hq. set (q := binop_prec o) in *.
  destruct (level_split (q - 2) ltac:(lia)) as (ops & inner & E1 & E2 & Hok).
  replace (2 + (q - 2))%nat with q in Hok by lia.
  unfold BinSpec. rewrite E1. replace (3 + (q - 2))%nat with (S q) by lia.
  rewrite (body_bin o a b0 Ho), (bd_bin o a b0 Ho). fold q.
  pose proof (Qa q ltac:(lia)) as Ha. replace q with (S (S (q - 2))) in Ha at 1 by lia.
  rewrite SpecAt_bin in Ha by lia. unfold BinSpec in Ha. rewrite E1 in Ha. replace (3 + (q - 2))%nat with (S q) in Ha by lia.
  pose proof (qlev b0 (S q) Qb ltac:(lia)) as Hb. replace (S q - 2)%nat with (S (q - 2)) in Hb by lia. rewrite E2 in Hb.
  pose proof (chain_le full q a) as Hch.
  apply (loop_step q ops inner Hok _ _ _ _ _ _ _ _ _ o _ _ Ha Hb Ho eq_refl); unfold K in *; lia.
Qed.

(* ---------- lists: block elements and call arguments ---------- *)
Definition ElemOK (x : expr) : Prop := Q x /\ printable x = true.

Lemma in_size_sum x (es : list expr) : In x es -> (size x + length es <= list_sum (map size es) + 1)%nat.
Proof.
  induction es as [|y es IH]; [contradiction|]. cbn [In map length].
  change (list_sum (size y :: map size es)) with (size y + list_sum (map size es))%nat. pose proof (size_pos y).
  intros [-> | Hin]; [|specialize (IH Hin); lia].
  clear IH. assert (length es <= list_sum (map size es))%nat; [|lia].
  induction es as [|z es IH]; cbn [length map]; [cbn; lia|].
  change (list_sum (size z :: map size es)) with (size z + list_sum (map size es))%nat. pose proof (size_pos z). lia.
Qed.

Lemma in_depth_max (g : expr -> nat) x (es : list expr) : In x es -> (g x <= list_max (map g es))%nat.
Proof.
  intro Hin. pose proof (proj1 (list_max_le (map g es) (list_max (map g es))) (le_n _)) as HF.
  rewrite Forall_forall in HF. apply HF. apply in_map. exact Hin.
Qed.

Lemma follow_comma o rest : Follow (bad0 o) ([44] ++ rest).
Proof. apply follow_one with (k := TComma); [apply lex_comma | destruct o; reflexivity | reflexivity]. Qed.

Lemma block_loop es : forall acc f d c b r0, es <> [] -> Forall ElemOK es -> blank b ->
  (forall x, In x es -> K * size x + length es + 1 <= f)%nat ->
  (forall x, In x es -> d + S (pd 0 x) <= PARSE_DEPTH_MAX)%nat ->
  parse_block f d (W c (b ++ sepby [44; 32] (map (pr 0) es) ++ [125] ++ r0)) acc =
  POk (rev acc ++ es) (W (c + bytes_len b + bytes_len (sepby [44; 32] (map (pr 0) es))) ([125] ++ r0)).
Proof.
  induction es as [|x es IH]; intros acc f d c b r0 Hne Hall Hbl Hf Hd; [congruence|].
  inversion Hall as [|? ? [Qx Wx] Hall']; subst.
  pose proof (Hf x (or_introl eq_refl)) as Hfx. pose proof (Hd x (or_introl eq_refl)) as Hdx.
  destruct f as [|f]; [lia|]. rewrite parse_block_S. pose proof (q0 x Qx) as Hx. pose proof (pr_starts x 0 Wx) as Hst.
  destruct es as [|y es].
  - cbn [map sepby].
    rewrite (starts_is c b (pr 0 x) ([125] ++ r0) TBraceClose Hbl Hst (or_intror eq_refl)).
    rewrite (PU _ _ _ _ _ _ Hx b ([125] ++ r0) Hbl)
      by (cbn [length] in *; side || (apply follow_one with (k := TBraceClose); [apply lex_cclose | destruct (guard_paren full x); reflexivity | reflexivity])).
    cbn [bind].
    rewrite (tokL [] [125] r0 TBraceClose (lex_cclose _) blank_nil) by tx.
    rewrite (tokI [] [125] r0 TBraceClose (lex_cclose _) blank_nil) by tx. cbn [tkind_eqb rev]. reflexivity.
  - cbn [map]. rewrite sepby_cons2.
    replace (b ++ (pr 0 x ++ [44; 32] ++ sepby [44; 32] (pr 0 y :: map (pr 0) es)) ++ [125] ++ r0)
      with (b ++ pr 0 x ++ ([44] ++ [32] ++ sepby [44; 32] (map (pr 0) (y :: es)) ++ [125] ++ r0)) by tx.
    rewrite (starts_is c b (pr 0 x) _ TBraceClose Hbl Hst (or_intror eq_refl)).
    rewrite (PU _ _ _ _ _ _ Hx b ([44] ++ [32] ++ sepby [44; 32] (map (pr 0) (y :: es)) ++ [125] ++ r0) Hbl)
      by (cbn [length] in *; side || apply follow_comma).
    cbn [bind].
    rewrite (tokL [] [44] _ TComma (lex_comma _) blank_nil) by tx.
    rewrite (tokI [] [44] _ TComma (lex_comma _) blank_nil) by tx. cbn [tkind_eqb].
    rewrite (tokE [] [44] _ TComma (lex_comma _) blank_nil) by tx. cbn [bind].
    rewrite (IH (x :: acc) f d _ [32] r0); auto with rt; try congruence.
    + cbn [rev map]. rewrite <- (app_assoc (rev acc)). apply (f_equal (POk (rev acc ++ x :: y :: es))). apply W_eq. posnorm. lia.
    + intros z Hz. specialize (Hf z (or_intror Hz)). cbn [length] in *. lia.
    + intros z Hz. apply Hd. right. exact Hz.
Qed.

Lemma args_loop es : forall acc f d c b r0, es <> [] -> Forall ElemOK es -> blank b ->
  (forall x, In x es -> K * size x + length es + 1 <= f)%nat ->
  (forall x, In x es -> d + S (pd 0 x) <= PARSE_DEPTH_MAX)%nat ->
  parse_args f d (W c (b ++ sepby [44; 32] (map (pr 0) es) ++ [41] ++ r0)) acc =
  POk (rev acc ++ es) (W (c + bytes_len b + bytes_len (sepby [44; 32] (map (pr 0) es))) ([41] ++ r0)).
Proof.
  induction es as [|x es IH]; intros acc f d c b r0 Hne Hall Hbl Hf Hd; [congruence|].
  inversion Hall as [|? ? [Qx Wx] Hall']; subst.
  pose proof (Hf x (or_introl eq_refl)) as Hfx. pose proof (Hd x (or_introl eq_refl)) as Hdx.
  destruct f as [|f]; [lia|]. rewrite parse_args_S. pose proof (q0 x Qx) as Hx. pose proof (pr_starts x 0 Wx) as Hst.
  destruct es as [|y es].
  - cbn [map sepby].
    rewrite (starts_is c b (pr 0 x) ([41] ++ r0) TParenClose Hbl Hst (or_introl eq_refl)).
    rewrite (PU _ _ _ _ _ _ Hx b ([41] ++ r0) Hbl)
      by (cbn [length] in *; side || (apply follow_one with (k := TParenClose); [apply lex_pclose | destruct (guard_paren full x); reflexivity | reflexivity])).
    cbn [bind].
    rewrite (tokI [] [41] r0 TParenClose (lex_pclose _) blank_nil) by tx. cbn [tkind_eqb rev]. reflexivity.
  - cbn [map]. rewrite sepby_cons2.
    replace (b ++ (pr 0 x ++ [44; 32] ++ sepby [44; 32] (pr 0 y :: map (pr 0) es)) ++ [41] ++ r0)
      with (b ++ pr 0 x ++ ([44] ++ [32] ++ sepby [44; 32] (map (pr 0) (y :: es)) ++ [41] ++ r0)) by tx.
    rewrite (starts_is c b (pr 0 x) _ TParenClose Hbl Hst (or_introl eq_refl)).
    rewrite (PU _ _ _ _ _ _ Hx b ([44] ++ [32] ++ sepby [44; 32] (map (pr 0) (y :: es)) ++ [41] ++ r0) Hbl)
      by (cbn [length] in *; side || apply follow_comma).
    cbn [bind].
    rewrite (tokI [] [44] _ TComma (lex_comma _) blank_nil) by tx. cbn [tkind_eqb].
    rewrite (tokE [] [44] _ TComma (lex_comma _) blank_nil) by tx. cbn [bind].
    rewrite (IH (x :: acc) f d _ [32] r0); auto with rt; try congruence.
    + cbn [rev map]. rewrite <- (app_assoc (rev acc)). apply (f_equal (POk (rev acc ++ x :: y :: es))). apply W_eq. posnorm. lia.
    + intros z Hz. specialize (Hf z (or_intror Hz)). cbn [length] in *. lia.
    + intros z Hz. apply Hd. right. exact Hz.
Qed.

Lemma own_block es : Forall ElemOK es ->
  Parses parse_leaf (badp 16) (K * size (EBlock es) - 70) (bd (EBlock es)) (body (EBlock es)) (EBlock es).
Proof.
  intros Hall f d c b r Hbl Hf Hd HF. cbn [size bd body] in *. destruct f as [|f]; [unfold K in *; lia|].
  rewrite parse_leaf_S.
  rewrite !(tokI b [123] (sepby [44; 32] (map (pr 0) es) ++ [125] ++ r) TBraceOpen (lex_copen _) Hbl) by tx. cbn [tkind_eqb].
  rewrite (tokE b [123] (sepby [44; 32] (map (pr 0) es) ++ [125] ++ r) TBraceOpen (lex_copen _) Hbl) by tx. cbn [bind].
  destruct es as [|x es].
  - cbn [map sepby app]. destruct f as [|f]; [unfold K in *; lia|]. rewrite parse_block_S.
    rewrite (tokI [] [125] r TBraceClose (lex_cclose _) blank_nil) by tx. cbn [tkind_eqb rev bind].
    rewrite (tokE [] [125] r TBraceClose (lex_cclose _) blank_nil) by tx. cbn [bind]. wpos.
  - rewrite (block_loop (x :: es) [] f d _ [] r); auto with rt; try congruence.
    + cbn [bind]. change (rev [] ++ x :: es) with (x :: es). rewrite (tokE [] [125] r TBraceClose (lex_cclose _) blank_nil) by tx. cbn [bind]. wpos.
    + intros z Hz. pose proof (in_size_sum z (x :: es) Hz). cbn [length] in *. unfold K in *. lia.
    + intros z Hz. pose proof (in_depth_max (fun x => S (pd 0 x)) z (x :: es) Hz). cbn beta in *. lia.
Qed.

Lemma own_call f0 args : Q f0 -> Forall ElemOK args ->
  Parses parse_call (badp 15) (K * size (ECall f0 args) - 70) (bd (ECall f0 args)) (body (ECall f0 args)) (ECall f0 args).
Proof.
  intros Qf Hall f d c b r Hbl Hf Hd HF. cbn [size bd body] in *. destruct f as [|f]; [unfold K in *; lia|].
  rewrite parse_call_S. pose proof (q16 f0 Qf) as Hf0. pose proof (size_pos f0) as Hsz.
  rewrite (PU _ _ _ _ _ _ Hf0 b ([40] ++ sepby [44; 32] (map (pr 0) args) ++ [41] ++ r) Hbl)
    by (unfold K in *; side || (apply follow_one with (k := TParenOpen); [apply lex_popen | reflexivity | reflexivity])).
  cbn [bind].
  rewrite (tokA [] [40] (sepby [44; 32] (map (pr 0) args) ++ [41] ++ r) TParenOpen (lex_popen _) blank_nil) by tx.
  rewrite (tokM [] [40] (sepby [44; 32] (map (pr 0) args) ++ [41] ++ r) TParenOpen (lex_popen _) blank_nil) by tx.
  cbn [tkind_eqb].
  destruct args as [|x args].
  - cbn [map sepby app]. destruct f as [|f]; [unfold K in *; lia|]. rewrite parse_args_S.
    rewrite (tokI [] [41] r TParenClose (lex_pclose _) blank_nil) by tx. cbn [tkind_eqb rev bind].
    rewrite (tokE [] [41] r TParenClose (lex_pclose _) blank_nil) by tx. cbn [bind]. wpos.
  - rewrite (args_loop (x :: args) [] f d _ [] r); auto with rt; try congruence.
    + cbn [bind]. change (rev [] ++ x :: args) with (x :: args). rewrite (tokE [] [41] r TParenClose (lex_pclose _) blank_nil) by tx. cbn [bind]. wpos.
    + intros z Hz. pose proof (in_size_sum z (x :: args) Hz). cbn [length] in *. unfold K in *. lia.
    + intros z Hz. pose proof (in_depth_max (fun x => S (pd 0 x)) z (x :: args) Hz). cbn beta in *. lia.
Qed.

End Main.
