(* static_known_sound: what the static-value analysis (Model/StaticKnown.v) calls statically known evaluates to the same
   result -- value, error, and resulting locals -- under any two variable providers that agree on the variables the
   analysis calls known (for the resolver: statically known constants).  For constants and data elements (no variable is
   known) the result does not depend on the provider at all; for an instruction match it depends only on the known
   constants.  (C08, static half.) *)
From Coq Require Import NArith ZArith List Bool Lia.
Import ListNotations.
From CA Require Import Model.Lexer Model.Parser Model.Literal Model.BigIntOps Model.Evaluator Model.Matcher Model.Resolver
  Model.StaticKnown Model.ResolverS Spec.StaticSpec Proofs.EvalSemP Proofs.ResolverFixP.
Open Scope Z_scope.

(* ---------- the locals only grow during an evaluation ---------- *)
Definition bound (ctx : locals) (n : text) : Prop := lookup ctx n <> None.

Section Grows.
Variable pv : provider.
Definition growsE (e : expr) : Prop :=
  forall ctx v c, eval code_ops pv e ctx = EOk (v, c) -> forall n, bound ctx n -> bound c n.

Ltac inv H := inversion H; subst; clear H.
Ltac stepg H v c :=
  match type of H with
  | context [eval code_ops pv ?a ?c0] =>
    let E := fresh "E" in
    destruct (eval code_ops pv a c0) as [[v c]|] eqn:E; [|discriminate H];
    match goal with IH : growsE a |- _ => pose proof (IH _ _ _ E) end
  end.
Ltac propg H :=
  match type of H with
  | context [should_propagate ?v] => destruct (should_propagate v); [inv H; auto|]
  end.
Ltac crush H := repeat match type of H with match ?x with _ => _ end = _ => destruct x; try discriminate H end; inv H; auto.

Lemma bound_cons ctx n m v : bound ctx n -> bound ((m, v) :: ctx) n.
Proof. unfold bound. cbn [lookup]. destruct (text_eqb m n); [discriminate|auto]. Qed.

Lemma eval_grows : forall e, growsE e.
Proof.
  induction e using expr_ind'; intros ctx rv rc Hr n Hb; cbn [eval] in Hr.
  - inv Hr; auto.
  - inv Hr; auto.
  - destruct (string_contents raw); inv Hr; auto.
  - destruct level.
    + destruct path as [|x [|? ?]].
      * destruct (pv 0%N []); inv Hr; auto.
      * destruct (is_builtin x); [inv Hr; auto|]. destruct (lookup ctx x); [inv Hr; auto|]. destruct (pv 0%N [x]); inv Hr; auto.
      * destruct (pv 0%N (x :: t :: l)); inv Hr; auto.
    + destruct (pv (N.pos p) path); inv Hr; auto.
  - stepg Hr v1 c1. propg Hr. crush Hr.
  - destruct o.
    1:{ destruct e1; try discriminate. destruct level; try discriminate. destruct path as [|x [|? ?]]; try discriminate.
        stepg Hr v1 c1. propg Hr. inv Hr. apply bound_cons. auto. }
    18:{ stepg Hr v1 c1. propg Hr. destruct v1; try discriminate. destruct (eqb b true); [inv Hr; auto|]. stepg Hr v2 c2. propg Hr.
         crush Hr. }
    17:{ stepg Hr v1 c1. propg Hr. destruct v1; try discriminate. destruct (eqb b false); [inv Hr; auto|]. stepg Hr v2 c2. propg Hr.
         crush Hr. }
    all: stepg Hr v1 c1; propg Hr; stepg Hr v2 c2; propg Hr; crush Hr.
  - stepg Hr v1 c1. propg Hr. destruct v1; try discriminate. destruct b; [eapply IHe2|eapply IHe3]; eauto.
  - stepg Hr v1 c1. propg Hr. destruct (get_bigint v1); [|discriminate]. stepg Hr v2 c2. propg Hr. stepg Hr v3 c3. propg Hr.
    crush Hr.
  - stepg Hr v1 c1. propg Hr. destruct (get_bigint v1); [|discriminate]. stepg Hr v2 c2. propg Hr. crush Hr.
  - revert ctx Hr Hb. generalize VVoid as lastv.
    induction H as [|x rest Hx Hrest IH]; intros lastv ctx Hr Hb; [inv Hr; auto|].
    stepg Hr v1 c1. propg Hr. eapply IH; eauto.
  - stepg Hr v1 c1. propg Hr. assert (Hb' : bound c1 n) by auto. clear Hb H0 E. revert c1 Hr Hb'. generalize (@nil value) as acc.
    induction H as [|x rest Hx Hrest IH]; intros acc ctx' Hr Hb.
    + destruct v1; try discriminate. destruct (eval_builtin code_ops name (rev acc)); inv Hr; auto.
    + stepg Hr v2 c2. propg Hr. eapply IH; eauto.
Qed.
End Grows.

(* ---------- names ---------- *)
Lemma known_value_is_builtin n : known_value_builtin n = true -> is_builtin n = true.
Proof.
  unfold known_value_builtin, is_builtin, builtins. cbn [existsb].
  destruct (text_eqb n s_assert); [discriminate|].
  repeat match goal with |- context [text_eqb n ?s] => destruct (text_eqb n s) end; cbn; congruence.
Qed.

Lemma covers_grows L ctx c : covers L ctx -> (forall n, bound ctx n -> bound c n) -> covers L c.
Proof. intros Hc Hg n Hn. destruct (Hc n Hn) as [Hb|Hb]; [left; exact Hb|right; apply Hg; exact Hb]. Qed.

(* ---------- expressions ---------- *)
Section Indep.
Variable L : list (text * bool).
Variable G : N -> list text -> bool.
Variables pv pv' : provider.
Hypothesis Hg : pv_agree G pv pv'.
(* either the two providers agree on the names of the asm built-in functions (fr = false), or the expression does not
   call them (fr = true) *)
Variable fr : bool.
Hypothesis Ha : fr = false -> asm_agree pv pv'.
Definition acf (e : expr) : bool := negb fr || asm_call_free e.

Definition indepE (e : expr) : Prop :=
  forall ctx, expr_known L G e = true -> acf e = true -> covers L ctx -> eval code_ops pv e ctx = eval code_ops pv' e ctx.

Lemma acf2 (f : expr -> expr -> expr) a b : (asm_call_free (f a b) = asm_call_free a && asm_call_free b) ->
  acf (f a b) = true -> acf a = true /\ acf b = true.
Proof. unfold acf. intros E H. rewrite E in H. destruct fr; cbn in *; [apply andb_prop in H; exact H|auto]. Qed.
Lemma acf3 (f : expr -> expr -> expr -> expr) a b c : (asm_call_free (f a b c) = asm_call_free a && asm_call_free b && asm_call_free c) ->
  acf (f a b c) = true -> acf a = true /\ acf b = true /\ acf c = true.
Proof.
  unfold acf. intros E H. rewrite E in H. destruct fr; cbn in *; [|auto].
  apply andb_prop in H. destruct H as [H H3]. apply andb_prop in H. destruct H. auto.
Qed.

(* rewrite the evaluation of a known subexpression under pv' into the one under pv, then case on it *)
Ltac stepi a ctx v c Hc :=
  match goal with
  | IH : indepE a |- _ =>
    rewrite <- (IH ctx) by assumption;
    let E := fresh "E" in
    destruct (eval code_ops pv a ctx) as [[v c]|] eqn:E; [|reflexivity];
    let Hc' := fresh "Hc" in
    assert (Hc' : covers L c) by (eapply covers_grows; [exact Hc|exact (eval_grows pv a _ _ _ E)])
  end.
Ltac propi := match goal with |- context [should_propagate ?v] => destruct (should_propagate v); [reflexivity|] end.

Lemma head_indep n ctx : known_value_builtin n || known_asm_builtin n = true -> negb fr || negb (known_asm_builtin n) = true ->
  eval code_ops pv (EVar 0%N [n]) ctx = eval code_ops pv' (EVar 0%N [n]) ctx.
Proof.
  intros H Hf. cbn [eval]. destruct (is_builtin n) eqn:B; [reflexivity|]. destruct (lookup ctx n); [reflexivity|].
  apply orb_prop in H. destruct H as [H|H].
  - apply known_value_is_builtin in H. congruence.
  - rewrite H in Hf. destruct fr; [discriminate|]. rewrite (Ha eq_refl n H). reflexivity.
Qed.

Lemma acf_block x rest : acf (EBlock (x :: rest)) = true -> acf x = true /\ acf (EBlock rest) = true.
Proof. unfold acf. destruct fr; cbn [negb orb]; [|auto]. cbn [asm_call_free]. intro H. apply andb_prop in H. exact H. Qed.

Lemma expr_known_indep : forall e, indepE e.
Proof.
  induction e using expr_ind'; intros ctx Hk Hf Hc; cbn [expr_known] in Hk.
  - reflexivity.
  - reflexivity.
  - reflexivity.
  - cbn [eval]. destruct level.
    + destruct path as [|x [|y r]].
      * rewrite (Hg _ _ Hk). reflexivity.
      * destruct (is_builtin x) eqn:B; [reflexivity|]. destruct (lookup ctx x) eqn:Lk; [reflexivity|].
        destruct (lookupb L x) as [b|] eqn:Lb.
        -- subst b. destruct (Hc x Lb) as [Hb|Hb]; [congruence|]. exfalso. apply Hb. exact Lk.
        -- rewrite (Hg _ _ Hk). reflexivity.
      * rewrite (Hg _ _ Hk). reflexivity.
    + rewrite (Hg _ _ Hk). reflexivity.
  - discriminate.
  - apply andb_prop in Hk. destruct Hk as [Hk1 Hk2].
    destruct (acf2 (EBin o) e1 e2 eq_refl Hf) as [Hf1 Hf2]. cbn [eval]. destruct o.
    1:{ destruct e1; try reflexivity. destruct level; try reflexivity. destruct path as [|x [|? ?]]; try reflexivity.
        stepi e2 ctx v1 c1 Hc. reflexivity. }
    18:{ stepi e1 ctx v1 c1 Hc. propi. destruct v1; try reflexivity. destruct (eqb b true); [reflexivity|].
         stepi e2 c1 v2 c2 Hc0. reflexivity. }
    17:{ stepi e1 ctx v1 c1 Hc. propi. destruct v1; try reflexivity. destruct (eqb b false); [reflexivity|].
         stepi e2 c1 v2 c2 Hc0. reflexivity. }
    all: stepi e1 ctx v1 c1 Hc; propi; stepi e2 c1 v2 c2 Hc0; reflexivity.
  - apply andb_prop in Hk. destruct Hk as [Hk Hk3]. apply andb_prop in Hk. destruct Hk as [Hk1 Hk2].
    destruct (acf3 ETern e1 e2 e3 eq_refl Hf) as [Hf1 [Hf2 Hf3]]. cbn [eval].
    stepi e1 ctx v1 c1 Hc. propi. destruct v1; try reflexivity. destruct b; [apply IHe2|apply IHe3]; assumption.
  - apply andb_prop in Hk. destruct Hk as [Hk Hk3]. apply andb_prop in Hk. destruct Hk as [Hk1 Hk2].
    destruct (acf3 ESlice e1 e2 e3 eq_refl Hf) as [Hf1 [Hf2 Hf3]]. cbn [eval].
    stepi e3 ctx v1 c1 Hc. propi. destruct (get_bigint v1); [|reflexivity].
    stepi e1 c1 v2 c2 Hc0. propi. stepi e2 c2 v3 c3 Hc1. reflexivity.
  - apply andb_prop in Hk. destruct Hk as [Hk1 Hk2].
    destruct (acf2 EShort e1 e2 eq_refl Hf) as [Hf1 Hf2]. cbn [eval].
    stepi e2 ctx v1 c1 Hc. propi. destruct (get_bigint v1); [|reflexivity]. stepi e1 c1 v2 c2 Hc0. reflexivity.
  - cbn [eval]. revert ctx Hk Hf Hc. generalize VVoid as lastv.
    induction H as [|x rest Hx Hrest IH]; intros lastv ctx Hk Hf Hc; [reflexivity|].
    apply andb_prop in Hk. destruct Hk as [Hk1 Hk2]. destruct (acf_block _ _ Hf) as [Hf1 Hf2].
    stepi x ctx v1 c1 Hc. propi. apply IH; assumption.
  - destruct e; try discriminate. destruct level; try discriminate.
    match type of Hk with (if ?c then _ else _) = true => destruct c eqn:Hargs; [|discriminate] end.
    destruct path as [|n [|? ?]]; try discriminate.
    assert (Hhead : negb fr || negb (known_asm_builtin n) = true).
    { unfold acf in Hf. destruct fr; [|reflexivity]. cbn [negb orb] in *. cbn [asm_call_free] in Hf.
      apply andb_prop in Hf. destruct Hf as [Hf _]. apply andb_prop in Hf. exact (proj1 Hf). }
    assert (Hfargs : acf (EBlock args) = true).
    { unfold acf in *. destruct fr; [|reflexivity]. cbn [negb orb] in *. cbn [asm_call_free] in *.
      apply andb_prop in Hf. exact (proj2 Hf). }
    cbn [eval]. fold (eval code_ops pv (EVar 0%N [n]) ctx) (eval code_ops pv' (EVar 0%N [n]) ctx).
    rewrite <- (head_indep n ctx Hk Hhead).
    destruct (eval code_ops pv (EVar 0%N [n]) ctx) as [[fv c1]|] eqn:E; [|reflexivity].
    assert (Hc1 : covers L c1) by (eapply covers_grows; [exact Hc|exact (eval_grows pv _ _ _ _ E)]).
    propi. clear E IHe Hk Hf Hhead. revert c1 Hargs Hfargs Hc1. generalize (@nil value) as acc.
    induction H as [|x rest Hx Hrest IH]; intros acc c1 Hargs Hfargs Hc1; [reflexivity|].
    apply andb_prop in Hargs. destruct Hargs as [Hk1 Hk2]. destruct (acf_block _ _ Hfargs) as [Hf1 Hf2].
    stepi x c1 v2 c2 Hc1. propi. apply IH; assumption.
Qed.
End Indep.

(* ---------- constants and data elements: no variable is known, so the provider does not matter at all ---------- *)
Lemma covers_nil ctx : covers [] ctx.
Proof. intros n H. discriminate. Qed.

Theorem closed_known_indep pv pv' e ctx :
  asm_agree pv pv' -> const_known e = true -> eval code_ops pv e ctx = eval code_ops pv' e ctx.
Proof.
  intros Ha Hk. apply (expr_known_indep [] no_globals pv pv') with (fr := false); auto.
  - intros l p H. discriminate.
  - apply covers_nil.
Qed.

(* ... without any condition on the providers when the expression includes no file *)
Theorem closed_known_indep_free pv pv' e ctx :
  asm_call_free e = true -> const_known e = true -> eval code_ops pv e ctx = eval code_ops pv' e ctx.
Proof.
  intros Hf Hk. apply (expr_known_indep [] no_globals pv pv') with (fr := true); auto.
  - intros l p H. discriminate.
  - discriminate.
  - apply covers_nil.
Qed.

(* ---------- instruction matches ---------- *)
Fixpoint rm_go (defs : list ruledef) (pv : provider) (r : rule) (args : list iarg) (params : list (text * pty)) (ctx : locals)
  {struct args} : eres value :=
  match args, params with
  | [], _ => match eval code_ops pv (rexpr r) ctx with EOk (v, _) => EOk v | EErr => EErr end
  | AExpr e _ _ _ :: ar, (pn, pt) :: pr =>
    match eval code_ops pv e [] with
    | EErr => EErr
    | EOk (v, _) =>
      if should_propagate v then EOk v else
      match constrain v pt with
      | EErr => EErr
      | EOk c => if should_propagate c then EOk c else rm_go defs pv r ar pr ((pn, c) :: ctx)
      end
    end
  | ANested n _ _ _ :: ar, (pn, _) :: pr =>
    match resolve_match defs pv n with
    | EErr => EErr
    | EOk v => if should_propagate v then EOk v else rm_go defs pv r ar pr ((pn, v) :: ctx)
    end
  | _ :: _, [] => EErr
  end.

Lemma resolve_match_unfold defs pv rd ru args ex :
  resolve_match defs pv (IMatch rd ru args ex) =
  match get_rule defs rd ru with None => EErr | Some r => rm_go defs pv r args (rparams r) [] end.
Proof.
  cbn [resolve_match]. destruct (get_rule defs rd ru) as [r|]; [|reflexivity].
  match goal with |- ?f args ?ps0 [] = _ => assert (E : forall a q c, f a q c = rm_go defs pv r a q c); [|apply E] end.
  induction a as [|a ar IH]; intros ps ctx; [destruct ps; reflexivity|].
  destruct a as [e s t exc|n s t exc]; destruct ps as [|[pn pt] pr]; cbn [rm_go]; cbn beta iota; try reflexivity.
  - destruct (eval code_ops pv e []) as [[v c0]|]; [|reflexivity].
    destruct (should_propagate v); [reflexivity|]. destruct (constrain v pt) as [c|]; [|reflexivity].
    destruct (should_propagate c); [reflexivity|]. apply IH.
  - destruct (resolve_match defs pv n) as [v|]; [|reflexivity]. destruct (should_propagate v); [reflexivity|]. apply IH.
Qed.

Fixpoint known_go (ac : bool) (defs : list ruledef) (G : N -> list text -> bool) (args : list iarg) (params : list (text * pty))
  (acc : list (text * bool)) (all : bool) {struct args} : list (text * bool) * bool :=
  match args, params with
  | a :: ar, (pn, pt) :: pr =>
    match pt, a with
    | TyRule _, ANested nm _ _ _ => let k := match_known ac defs G nm in known_go ac defs G ar pr ((pn, k) :: acc) (all && k)
    | TyRule _, AExpr _ _ _ _ => known_go ac defs G ar pr acc all
    | _, AExpr e _ _ _ => let k := expr_known [] G e in known_go ac defs G ar pr ((pn, k) :: acc) (all && k)
    | _, ANested _ _ _ _ => known_go ac defs G ar pr acc all
    end
  | _, _ => (acc, all)
  end.

Lemma match_known_unfold ac defs G rd ru args ex :
  match_known ac defs G (IMatch rd ru args ex) =
  match get_rule defs rd ru with
  | None => false
  | Some r => let '(L, a) := known_go ac defs G args (rparams r) [] true in (negb ac || a) && expr_known L G (rexpr r)
  end.
Proof.
  cbn [match_known]. destruct (get_rule defs rd ru) as [r|]; [|reflexivity].
  match goal with |- (let '(L, a) := ?f args ?ps ?acc ?al in _) = _ =>
    assert (E : forall xs q c b, f xs q c b = known_go ac defs G xs q c b); [|rewrite E; reflexivity] end.
  induction xs as [|a ar IH]; intros ps acc al; [destruct ps; reflexivity|].
  destruct ps as [|[pn pt] pr]; [destruct a; reflexivity|].
  destruct a as [e s t exc|n s t exc]; destruct pt; cbn [known_go]; rewrite <- IH; reflexivity.
Qed.

Fixpoint kinded_go (defs : list ruledef) (args : list iarg) (params : list (text * pty)) {struct args} : bool :=
  match args, params with
  | AExpr _ _ _ _ :: ar, (_, pt) :: pr => match pt with TyRule _ => false | _ => true end && kinded_go defs ar pr
  | ANested n _ _ _ :: ar, (_, pt) :: pr => match pt with TyRule _ => true | _ => false end && match_kinded defs n && kinded_go defs ar pr
  | [], [] => true
  | _, _ => false
  end.

Lemma match_kinded_unfold defs rd ru args ex :
  match_kinded defs (IMatch rd ru args ex) =
  match get_rule defs rd ru with None => true | Some r => kinded_go defs args (rparams r) end.
Proof.
  cbn [match_kinded]. destruct (get_rule defs rd ru) as [r|]; [|reflexivity].
  generalize (rparams r). induction args as [|a ar IH]; intros ps; [destruct ps; reflexivity|].
  destruct a; destruct ps as [|[pn pt] pr]; cbn [kinded_go]; try reflexivity; rewrite <- IH; reflexivity.
Qed.

Lemma known_go_all ac defs G : forall args params acc all L a,
  known_go ac defs G args params acc all = (L, a) -> a = true -> all = true.
Proof.
  induction args as [|x ar IH]; intros params acc all L a H Ha; cbn [known_go] in H.
  - destruct params; inversion H; subst; reflexivity.
  - destruct params as [|[pn pt] pr]; [inversion H; subst; reflexivity|].
    destruct x as [e s t exc|n s t exc]; destruct pt; cbv zeta in H;
      (apply IH in H; [|exact Ha]); try exact H; apply andb_prop in H; exact (proj1 H).
Qed.

Lemma covers_cons L ctx pn (k : bool) (v : value) : covers L ctx -> covers ((pn, k) :: L) ((pn, v) :: ctx).
Proof.
  intros Hc n Hn. cbn [lookupb] in Hn. cbn [lookup].
  destruct (text_eqb pn n); [right; discriminate|]. exact (Hc n Hn).
Qed.

Section MatchIndep.
Variable defs : list ruledef.
Variable G : N -> list text -> bool.
Variables pv pv' : provider.
Hypothesis Hg : pv_agree G pv pv'.
Hypothesis Ha : asm_agree pv pv'.

Theorem match_known_indep : forall m,
  match_kinded defs m = true -> match_known true defs G m = true -> resolve_match defs pv m = resolve_match defs pv' m.
Proof.
  fix IH 1. intros [rd ru args ex] Hkd Hk.
  rewrite match_kinded_unfold in Hkd. rewrite match_known_unfold in Hk. rewrite !resolve_match_unfold.
  destruct (get_rule defs rd ru) as [r|]; [|reflexivity].
  assert (Gen : forall args params acc all ctx L a,
             kinded_go defs args params = true ->
             known_go true defs G args params acc all = (L, a) -> a = true -> expr_known L G (rexpr r) = true ->
             covers acc ctx ->
             rm_go defs pv r args params ctx = rm_go defs pv' r args params ctx).
  { clear Hkd Hk args. fix IHa 1. intros [|x ar] params acc all ctx L a Hkd Hkg Hall Hbody Hc.
    - cbn [rm_go]. cbn [known_go] in Hkg. assert (L = acc) by (destruct params; inversion Hkg; reflexivity). subst L.
      rewrite (expr_known_indep acc G pv pv' Hg false (fun _ => Ha) (rexpr r) ctx Hbody eq_refl Hc). reflexivity.
    - destruct params as [|[pn pt] pr]; [destruct x; discriminate|].
      destruct x as [e s t exc|n s t exc]; cbn [kinded_go] in Hkd; cbn [known_go] in Hkg; cbn [rm_go].
      + apply andb_prop in Hkd. destruct Hkd as [Hty Hkd].
        assert (Hkg' : known_go true defs G ar pr ((pn, expr_known [] G e) :: acc) (all && expr_known [] G e) = (L, a))
          by (destruct pt; try discriminate; exact Hkg).
        pose proof (known_go_all _ _ _ _ _ _ _ _ _ Hkg' Hall) as Hand. apply andb_prop in Hand. destruct Hand as [_ Hke].
        rewrite (expr_known_indep [] G pv pv' Hg false (fun _ => Ha) e [] Hke eq_refl (covers_nil [])).
        destruct (eval code_ops pv' e []) as [[v c0]|]; [|reflexivity].
        destruct (should_propagate v); [reflexivity|]. destruct (constrain v pt) as [c|]; [|reflexivity].
        destruct (should_propagate c); [reflexivity|].
        eapply IHa; [exact Hkd|exact Hkg'|exact Hall|exact Hbody|apply covers_cons; exact Hc].
      + apply andb_prop in Hkd. destruct Hkd as [Hkd1 Hkd]. apply andb_prop in Hkd1. destruct Hkd1 as [Hty Hkn].
        assert (Hkg' : known_go true defs G ar pr ((pn, match_known true defs G n) :: acc) (all && match_known true defs G n) = (L, a))
          by (destruct pt; try discriminate; exact Hkg).
        pose proof (known_go_all _ _ _ _ _ _ _ _ _ Hkg' Hall) as Hand. apply andb_prop in Hand. destruct Hand as [_ Hkm].
        rewrite (IH n Hkn Hkm).
        destruct (resolve_match defs pv' n) as [v|]; [|reflexivity].
        destruct (should_propagate v); [reflexivity|].
        eapply IHa; [exact Hkd|exact Hkg'|exact Hall|exact Hbody|apply covers_cons; exact Hc]. }
  destruct (known_go true defs G args (rparams r) [] true) as [L a] eqn:Hkg.
  cbn [negb orb] in Hk. apply andb_prop in Hk. destruct Hk as [Hall Hbody].
  eapply Gen; eauto. apply covers_nil.
Qed.
End MatchIndep.

(* ---------- a statically known constant that includes no file never evaluates to Unknown / FailedConstraint ---------- *)
Lemma int_binop_value o x y v : int_binop code_ops o x y = EOk v -> should_propagate v = false.
Proof.
  unfold int_binop. intro H.
  destruct o; cbn in H;
    repeat match type of H with match ?x with _ => _ end = _ => destruct x; try discriminate H end;
    inversion H; reflexivity.
Qed.

Lemma eval_builtin_value n args v :
  known_value_builtin n = true -> eval_builtin code_ops n args = EOk v -> should_propagate v = false.
Proof.
  unfold known_value_builtin, eval_builtin. destruct (text_eqb n s_assert); [discriminate|]. intros _ H.
  repeat match type of H with
         | match ?x with _ => _ end = _ => destruct x; try discriminate H
         | (let _ := _ in _) = _ => cbv zeta in H
         end; inversion H; reflexivity.
Qed.

Section ClosedValue.
Variable pv : provider.
Definition valueE (e : expr) : Prop :=
  forall ctx v c, const_known e = true -> asm_call_free e = true -> eval code_ops pv e ctx = EOk (v, c) -> should_propagate v = false.

Ltac inv H := inversion H; subst; clear H.
Ltac stepv H v c :=
  match type of H with
  | context [eval code_ops pv ?a ?c0] =>
    let E := fresh "E" in
    destruct (eval code_ops pv a c0) as [[v c]|] eqn:E; [|discriminate H];
    match goal with IH : valueE a |- _ =>
      let P := fresh "P" in
      assert (P : should_propagate v = false) by (eapply IH; [| |exact E]; assumption); rewrite P in H end
  end.
Ltac crushv H := repeat match type of H with match ?x with _ => _ end = _ => destruct x; try discriminate H end; inv H; try reflexivity.

Lemma closed_known_value : forall e, valueE e.
Proof.
  induction e using expr_ind'; intros ctx rv rc Hk Hf Hr; unfold const_known in Hk; cbn [expr_known] in Hk; cbn [eval] in Hr.
  - inv Hr. reflexivity.
  - inv Hr. reflexivity.
  - destruct (string_contents raw); inv Hr. reflexivity.
  - destruct level; [destruct path as [|x [|? ?]]|]; discriminate.
  - discriminate.
  - apply andb_prop in Hk. destruct Hk as [Hk1 Hk2]. cbn [asm_call_free] in Hf. apply andb_prop in Hf. destruct Hf as [Hf1 Hf2].
    destruct o.
    1:{ destruct e1; try discriminate. destruct level; try discriminate. destruct path as [|x [|? ?]]; discriminate. }
    18:{ stepv Hr v1 c1. destruct v1; try discriminate. destruct (eqb b true); [inv Hr; reflexivity|]. stepv Hr v2 c2. crushv Hr. }
    17:{ stepv Hr v1 c1. destruct v1; try discriminate. destruct (eqb b false); [inv Hr; reflexivity|]. stepv Hr v2 c2. crushv Hr. }
    all: stepv Hr v1 c1; stepv Hr v2 c2;
      (destruct v1, v2; cbn [get_bigint] in Hr; try discriminate;
       try (match type of Hr with match int_binop _ _ ?x ?y with _ => _ end = _ =>
              destruct (int_binop code_ops _ x y) eqn:IB; [|discriminate]; inv Hr; eapply int_binop_value; exact IB end);
       try (inv Hr; reflexivity)).
  - apply andb_prop in Hk. destruct Hk as [Hk Hk3]. apply andb_prop in Hk. destruct Hk as [Hk1 Hk2].
    cbn [asm_call_free] in Hf. apply andb_prop in Hf. destruct Hf as [Hf Hf3]. apply andb_prop in Hf. destruct Hf as [Hf1 Hf2].
    stepv Hr v1 c1. destruct v1; try discriminate. destruct b; [eapply IHe2|eapply IHe3]; eauto.
  - apply andb_prop in Hk. destruct Hk as [Hk Hk3]. apply andb_prop in Hk. destruct Hk as [Hk1 Hk2].
    cbn [asm_call_free] in Hf. apply andb_prop in Hf. destruct Hf as [Hf Hf3]. apply andb_prop in Hf. destruct Hf as [Hf1 Hf2].
    stepv Hr v1 c1. destruct (get_bigint v1); [|discriminate]. stepv Hr v2 c2. stepv Hr v3 c3. crushv Hr.
  - apply andb_prop in Hk. destruct Hk as [Hk1 Hk2]. cbn [asm_call_free] in Hf. apply andb_prop in Hf. destruct Hf as [Hf1 Hf2].
    stepv Hr v1 c1. destruct (get_bigint v1); [|discriminate]. stepv Hr v2 c2. crushv Hr.
  - cbn [asm_call_free] in Hf. assert (Hl : should_propagate VVoid = false) by reflexivity.
    revert ctx Hk Hf Hr Hl. generalize VVoid as lastv.
    induction H as [|x rest Hx Hrest IH]; intros lastv ctx Hk Hf Hr Hl; [inv Hr; exact Hl|].
    apply andb_prop in Hk. destruct Hk as [Hk1 Hk2]. apply andb_prop in Hf. destruct Hf as [Hf1 Hf2].
    stepv Hr v1 c1. eapply IH; eauto.
  - destruct e; try discriminate. destruct level; try discriminate.
    match type of Hk with (if ?c then _ else _) = true => destruct c eqn:Hargs; [|discriminate] end.
    destruct path as [|n [|? ?]]; try discriminate.
    cbn [asm_call_free] in Hf. apply andb_prop in Hf. destruct Hf as [Hf Hfa]. apply andb_prop in Hf. destruct Hf as [Hn _].
    destruct (known_asm_builtin n); [discriminate|]. rewrite orb_false_r in Hk.
    cbn [eval] in Hr. rewrite (known_value_is_builtin n Hk) in Hr. cbn [should_propagate] in Hr.
    clear IHe. revert ctx Hargs Hfa Hr. generalize (@nil value) as acc.
    induction H as [|x rest Hx Hrest IH]; intros acc ctx Hargs Hfa Hr.
    + destruct (eval_builtin code_ops n (rev acc)) eqn:EB; [|discriminate]. inv Hr. eapply eval_builtin_value; eauto.
    + apply andb_prop in Hargs. destruct Hargs as [Hk1 Hk2]. apply andb_prop in Hfa. destruct Hfa as [Hf1 Hf2].
      stepv Hr v1 c1. eapply IH; eauto.
Qed.
End ClosedValue.

(* ---------- calls: only the listed built-in functions can make a call statically known ---------- *)
Theorem call_known_only_listed L G f args : expr_known L G (ECall f args) = true ->
  exists n, f = EVar 0%N [n] /\ known_value_builtin n || known_asm_builtin n = true.
Proof.
  cbn [expr_known]. destruct f; try discriminate. destruct level; try discriminate.
  match goal with |- (if ?c then _ else _) = true -> _ => destruct c; [|discriminate] end.
  destruct path as [|n [|? ?]]; try discriminate. eauto.
Qed.

Theorem listed_functions n : known_value_builtin n || known_asm_builtin n = true ->
  In n [s_sizeof; s_le; s_ascii; s_utf8; s_utf16be; s_utf16le; s_utf32be; s_utf32le; s_strlen; s_incbin; s_incbinstr; s_inchexstr].
Proof.
  unfold known_value_builtin, known_asm_builtin. destruct (text_eqb n s_assert); cbn [orb].
  - intro H. repeat (apply orb_prop in H; destruct H as [H|H]); apply ResolverFixP.text_eqb_eq in H; subst; cbn; tauto.
  - intro H. repeat (apply orb_prop in H; destruct H as [H|H]); apply ResolverFixP.text_eqb_eq in H; subst; cbn; tauto.
Qed.
