(* C11 round-trip theorems, part 2: MIF and Intel HEX. *)
From Coq Require Import Ascii String ZArith NArith List Bool Lia ZifyBool Arith.
From CA Require Import Model.Formats Spec.Decoders Proofs.FmtBase Proofs.FormatsP.
Import ListNotations.
Open Scope N_scope.
Ltac Zify.zify_post_hook ::= Z.div_mod_to_equations.

(* both sides equal up to associativity of ++ *)
Ltac reassoc a b := replace a with b by (rewrite <- ?app_assoc; cbn [app]; rewrite <- ?app_assoc; reflexivity).

Ltac clean_tac :=
  repeat first
    [ reflexivity
    | apply clean_app
    | apply clean_cons; [reflexivity|]
    | apply hexpad_clean
    | apply clean_fmt_num; [lia|]
    | apply clean_pad_left; [reflexivity|]
    | apply clean_repeat; reflexivity ].

Lemma split_on_line c l rest : clean (N.eqb c) l -> split_on c (l ++ c :: rest) = l :: split_on c rest.
Proof. intro H. unfold split_on. apply split_by_app; [exact H|apply N.eqb_refl]. Qed.

Lemma split_on_clean c l : clean (N.eqb c) l -> split_on c l = [l].
Proof. intro H. unfold split_on. now apply split_by_clean. Qed.

(* ------------------------------------------------------------------ MIF *)
Lemma tokens_space_pad w t : t <> [] -> clean is_space t -> tokens is_space (32 :: pad_left 32 w t) = [t].
Proof.
  intros NE Hc. rewrite tokens_sep by reflexivity. unfold pad_left.
  rewrite tokens_seps. { now apply tokens_one. }
  induction (w - length t)%nat; [reflexivity|]. cbn [repeat forallb]. now rewrite IHn.
Qed.

Lemma mif_entry_line w count idx v : idx = 8 * count -> v < 256 ->
  mif_entry count ((32 :: pad_left 32 w (hex_upper (idx / 8)) ++ 58 :: 32 :: hex02X v) ++ [59]) = Some v.
Proof.
  intros -> Hv. unfold mif_entry.
  rewrite split_on_line by (unfold hex_upper, hex02X, hex_upper; clean_tac).
  change (split_on 59 []) with [@nil N].
  change (32 :: ?a ++ 58 :: 32 :: ?b) with ((32 :: a) ++ 58 :: (32 :: b)).
  rewrite split_on_line by (unfold hex_upper; clean_tac).
  rewrite split_on_clean by (unfold hex02X, hex_upper; clean_tac).
  rewrite tokens_space_pad; [|apply fmt_num_nonempty; lia|unfold hex_upper; clean_tac].
  change (32 :: hex02X v) with (32 :: pad_left 32 0 (hex02X v)).
  rewrite tokens_space_pad; [|apply hexpad_nonempty|unfold hex02X, hex_upper; clean_tac].
  unfold hex_upper. rewrite parse_hex_fmt0.
  replace (8 * count / 8) with count by (rewrite N.mul_comm, N.div_mul; lia).
  rewrite N.eqb_refl. unfold hex02X, hex_upper. rewrite parse_hex_fmt. cbn [bind]. now apply below_ok.
Qed.

Lemma mif_content_lines w vs : forall idx count,
  idx = 8 * count -> Forall (fun v => v < 256) vs ->
  mif_content count (split_on 10 (concat (map (render_mif_line w) (number_from idx 8 vs)) ++ [69; 78; 68; 59]))
  = Some vs.
Proof.
  induction vs as [|v t IH]; intros idx count Hidx F; [reflexivity|].
  inversion F as [|? ? Hv Ft]; subst.
  cbn [number_from map concat]. unfold render_mif_line at 1. cbn [fst snd].
  match goal with |- context [split_on 10 ((([32] ++ ?a ++ [58; 32] ++ ?b ++ [59; 10]) ++ ?r) ++ ?e)] =>
    reassoc ((([32] ++ a ++ [58; 32] ++ b ++ [59; 10]) ++ r) ++ e) (((32 :: a ++ 58 :: 32 :: b) ++ [59]) ++ 10 :: (r ++ e))
  end.
  rewrite split_on_line by (unfold hex_upper, hex02X, hex_upper; clean_tac).
  specialize (IH (8 * count + 8) (count + 1) ltac:(lia) Ft).
  destruct (split_on 10 _) as [|h tl] eqn:E; [discriminate IH|].
  cbn [mif_content]. rewrite mif_entry_line by (reflexivity || exact Hv).
  cbn [bind]. cbn [mif_content] in IH. rewrite IH. reflexivity.
Qed.

Lemma mif_header_lines d rest :
  mif_header d ++ rest
  = (lit "DEPTH = " ++ dec d ++ [59]) ++ 10 :: lit "WIDTH = 8;" ++ 10 :: lit "ADDRESS_RADIX = HEX;" ++ 10 ::
    lit "DATA_RADIX = HEX;" ++ 10 :: [] ++ 10 :: lit "CONTENT" ++ 10 :: lit "BEGIN" ++ 10 :: rest.
Proof. unfold mif_header. rewrite <- !app_assoc. cbn [app]. reflexivity. Qed.

Theorem mif_roundtrip bs : decode_mif (format_mif bs) = Some (pad 8 bs).
Proof.
  unfold decode_mif, format_mif. rewrite mif_header_lines.
  rewrite split_on_line by (unfold dec; clean_tac).
  do 6 (rewrite split_on_line by reflexivity).
  rewrite !text_eqb_refl. cbn [andb].
  unfold mif_depth.
  reassoc ([68; 69; 80; 84; 72; 32; 61; 32] ++ dec (byte_num bs) ++ [59])
          (([68; 69; 80; 84; 72; 32; 61; 32] ++ dec (byte_num bs)) ++ 59 :: []).
  rewrite split_on_line by (unfold dec; clean_tac).
  change (split_on 59 []) with [@nil N].
  rewrite strip_prefix_app. cbn [bind]. rewrite parse_dec_fmt. cbn [bind].
  rewrite chunks_numbered by lia. change (N.of_nat 8) with 8.
  rewrite mif_content_lines; [|reflexivity|apply (vals_bound 8 bs); lia].
  cbn [bind]. rewrite byte_num_count, N.eqb_refl. now rewrite vals_pad by lia.
Qed.

(* ------------------------------------------------------------------ Intel HEX: bytes as two hex digits *)
Lemma hex02X_byte_nat : forall i, (i < 256)%nat ->
  hex02X (N.of_nat i) = [digit_char true (N.of_nat i / 16); digit_char true (N.of_nat i mod 16)].
Proof.
  assert (forallb (fun i => text_eqb (hex02X (N.of_nat i))
            [digit_char true (N.of_nat i / 16); digit_char true (N.of_nat i mod 16)]) (seq 0 256) = true) as H
    by (vm_compute; reflexivity).
  rewrite forallb_forall in H. intros i Hi. apply text_eqb_eq. apply H. apply in_seq. lia.
Qed.

Lemma hex02X_byte b : b < 256 -> hex02X b = [digit_char true (b / 16); digit_char true (b mod 16)].
Proof. intro H. rewrite <- (N2Nat.id b). apply hex02X_byte_nat. lia. Qed.

Lemma hex_pairs_bytes bs : Forall (fun b => b < 256) bs -> forall r,
  hex_pairs (concat (map hex02X bs) ++ r) = bind (hex_pairs r) (fun rest => Some (bs ++ rest)).
Proof.
  induction 1 as [|b t Hb Ft IH]; intro r.
  - cbn [map concat app]. destruct (hex_pairs r); reflexivity.
  - cbn [map concat]. rewrite hex02X_byte by exact Hb. rewrite <- app_assoc. cbn [app hex_pairs].
    rewrite !hex_val_digit_char by (try apply N.mod_lt; try apply N.div_lt_upper_bound; lia).
    rewrite IH. destruct (hex_pairs r); cbn [bind app]; [|reflexivity].
    f_equal. f_equal. pose proof (N.div_mod b 16 ltac:(lia)). lia.
Qed.

Lemma hex02X_clean p b : clean p hexchars -> clean p (hex02X b).
Proof. intro H. unfold hex02X, hex_upper. now apply hexpad_clean. Qed.

Lemma concat_hex_clean p bs : clean p hexchars -> clean p (concat (map hex02X bs)).
Proof. intro H. induction bs as [|b t IH]; [reflexivity|]. cbn [map concat]. apply clean_app; [now apply hex02X_clean|exact IH]. Qed.

(* ------------------------------------------------------------------ Intel HEX: one record *)
Lemma sum_bytes_mod l : forall a, fold_left (fun a b => (a + b) mod 256) l (a mod 256) = (a + byte_sum l) mod 256.
Proof.
  induction l as [|b t IH]; intro a; cbn [fold_left byte_sum fold_right].
  - now rewrite N.add_0_r.
  - fold (byte_sum t). rewrite N.add_mod_idemp_l by lia. rewrite IH. f_equal. lia.
Qed.

Lemma sum_bytes_spec l : sum_bytes l = byte_sum l mod 256.
Proof. unfold sum_bytes. change 0 with (0 mod 256) at 1. now rewrite sum_bytes_mod. Qed.

Lemma byte_sum_app a b : byte_sum (a ++ b) = byte_sum a + byte_sum b.
Proof. induction a as [|x a IH]; [reflexivity|]. cbn [app byte_sum fold_right]. fold (byte_sum (a ++ b)). fold (byte_sum a). lia. Qed.

Definition ihex_all_bytes (unit idx : N) (data : list N) : list N :=
  let ll := N.of_nat (length data) mod 256 in
  let ah := (idx / unit / 256) mod 256 in
  let al := (idx / unit) mod 256 in
  let ck := (255 - sum_bytes (ll :: ah :: al :: data) + 1) mod 256 in
  ll :: ah :: al :: 0 :: data ++ [ck].

Lemma render_ihex_record_bytes unit idx data :
  render_ihex_record unit (idx, data) = (58 :: concat (map hex02X (ihex_all_bytes unit idx data))) ++ [10].
Proof.
  unfold render_ihex_record, ihex_all_bytes. cbn [map concat].
  rewrite map_app, concat_app. cbn [map concat]. rewrite app_nil_r.
  change (hex02X 0) with [48; 48]. cbn [app]. rewrite <- ?app_assoc. cbn [app]. rewrite <- ?app_assoc. reflexivity.
Qed.

Lemma ihex_line_record unit idx data :
  data <> [] -> (length data <= 32)%nat -> Forall (fun b => b < 256) data -> idx / unit < 65536 ->
  ihex_line (58 :: concat (map hex02X (ihex_all_bytes unit idx data))) = Some (IData (idx / unit) data).
Proof.
  intros NE Hlen F Ha. unfold ihex_line.
  rewrite <- (app_nil_r (concat _)).
  assert (Forall (fun b => b < 256) (ihex_all_bytes unit idx data)) as Fall.
  { unfold ihex_all_bytes. repeat (constructor; [try apply N.mod_lt; lia|]).
    apply Forall_app. split; [exact F|]. constructor; [apply N.mod_lt; lia|constructor]. }
  rewrite hex_pairs_bytes by exact Fall. cbn [hex_pairs bind]. rewrite app_nil_r.
  unfold ihex_all_bytes.
  set (ll := N.of_nat (length data) mod 256). set (ah := (idx / unit / 256) mod 256).
  set (al := (idx / unit) mod 256).
  set (s := sum_bytes (ll :: ah :: al :: data)).
  assert (byte_sum (ll :: ah :: al :: 0 :: data ++ [(255 - s + 1) mod 256]) mod 256 = 0) as Hck.
  { subst s. rewrite sum_bytes_spec. cbn [byte_sum fold_right]. fold (byte_sum (data ++ [(255 - (ll + (ah + (al + byte_sum data))) mod 256 + 1) mod 256])).
    fold (byte_sum data). rewrite byte_sum_app. cbn [byte_sum fold_right].
    set (S := ll + (ah + (al + byte_sum data))).
    pose proof (N.mod_lt S 256 ltac:(lia)). pose proof (N.div_mod S 256 ltac:(lia)).
    set (m := S mod 256) in *.
    destruct (N.eq_dec m 0) as [E|E].
    - rewrite E. change ((255 - 0 + 1) mod 256) with 0.
      replace (ll + (ah + (al + (0 + (byte_sum data + (0 + 0)))))) with S by (subst S; lia). exact E.
    - rewrite (N.mod_small (255 - m + 1)) by lia.
      replace (ll + (ah + (al + (0 + (byte_sum data + (255 - m + 1 + 0)))))) with (0 + (S / 256 + 1) * 256) by (subst S; lia).
      now rewrite N.mod_add by lia. }
  rewrite Hck. rewrite N.eqb_refl.
  rewrite app_length. cbn [length]. rewrite removelast_last.
  assert (ll = N.of_nat (length data)) as Ell by (subst ll; apply N.mod_small; lia).
  replace (N.of_nat (length data + 1) =? ll + 1) with true by (symmetry; apply N.eqb_eq; lia).
  do 2 f_equal.
  subst ah al. pose proof (N.div_mod (idx / unit) 256 ltac:(lia)).
  rewrite (N.mod_small (idx / unit / 256)) by (apply N.div_lt_upper_bound; lia). lia.
Qed.

(* ------------------------------------------------------------------ Intel HEX: the file *)
Definition rec_ok (unit : N) (r : N * list N) : Prop :=
  snd r <> [] /\ (length (snd r) <= 32)%nat /\ Forall (fun b => b < 256) (snd r) /\ fst r / unit < 65536.

Lemma ihex_file unit recs : Forall (rec_ok unit) recs ->
  decode_intelhex_records (concat (map (render_ihex_record unit) recs) ++ [58; 48; 48; 48; 48; 48; 48; 48; 49; 70; 70])
  = Some (map (fun r => (fst r / unit, snd r)) recs).
Proof.
  unfold decode_intelhex_records.
  induction 1 as [|[idx data] t (NE & Hl & F & Ha) Ft IH]; [reflexivity|].
  cbn [fst snd] in *. cbn [map concat]. rewrite render_ihex_record_bytes.
  rewrite <- !app_assoc. cbn [app].
  change (58 :: ?x ++ 10 :: ?r) with ((58 :: x) ++ 10 :: r).
  rewrite split_on_line by (apply clean_cons; [reflexivity|apply concat_hex_clean; reflexivity]).
  destruct (split_on 10 _) as [|h tl] eqn:E; [discriminate IH|].
  cbn [ihex_lines]. rewrite ihex_line_record by assumption.
  cbn [ihex_lines] in IH. rewrite IH. reflexivity.
Qed.

(* ------------------------------------------------------------------ Intel HEX: the accumulate / flush loop *)
Fixpoint recs_chain (end_ next : N) (recs : list (N * list N)) : Prop :=
  match recs with
  | [] => True
  | (idx, d) :: r =>
    idx = next /\ d <> [] /\ (length d <= 32)%nat /\ idx < end_ /\ (r <> [] -> length d = 32%nat)
    /\ recs_chain end_ (next + 256) r
  end.

Lemma bits_of_vals_app k a b : bits_of_vals k (a ++ b) = bits_of_vals k a ++ bits_of_vals k b.
Proof. unfold bits_of_vals. now rewrite map_app, concat_app. Qed.

Lemma flush_data ai accum : concat (map snd (flush ai accum)) = accum.
Proof. destruct accum; [reflexivity|]. cbn. now rewrite app_nil_r. Qed.

Lemma ihex_block_spec end_ : forall fuel l ri ai accum,
  (length l <= fuel)%nat ->
  (l = [] /\ end_ <= ri \/ l <> [] /\ end_ = ri + N.of_nat (length l)) ->
  ri = ai + 8 * N.of_nat (length accum) -> (length accum < 32)%nat ->
  (accum <> [] -> ai < end_) -> Forall (fun b => b < 256) accum ->
  recs_chain end_ ai (ihex_block fuel ri end_ ai accum l)
  /\ bits_of_vals 8 (concat (map snd (ihex_block fuel ri end_ ai accum l))) = bits_of_vals 8 accum ++ pad 8 l
  /\ Forall (fun b => b < 256) (concat (map snd (ihex_block fuel ri end_ ai accum l))).
Proof.
  assert (forall ai accum, (length accum < 32)%nat -> (accum <> [] -> ai < end_) ->
          Forall (fun b => b < 256) accum ->
          recs_chain end_ ai (flush ai accum)
          /\ bits_of_vals 8 (concat (map snd (flush ai accum))) = bits_of_vals 8 accum ++ pad 8 []
          /\ Forall (fun b => b < 256) (concat (map snd (flush ai accum)))) as Hflush.
  { intros ai accum Hl Ha F. rewrite flush_data, pad_nil, app_nil_r. repeat split; [|exact F].
    destruct accum as [|x t]; [exact I|]. cbn [flush recs_chain].
    repeat split; [congruence|cbn [length] in *; lia|apply Ha; congruence|congruence]. }
  induction fuel as [|f IH]; intros l ri ai accum Hf Hend Hri Hacc Hai F.
  - destruct l; [|cbn in Hf; lia]. destruct Hend as [[_ He]|[C _]]; [|congruence].
    cbn [ihex_block]. destruct (N.ltb_spec ri end_); [lia|]. now apply Hflush.
  - cbn [ihex_block]. destruct Hend as [[-> He]|[NE He]].
    + destruct (N.ltb_spec ri end_); [lia|]. now apply Hflush.
    + assert (0 < length l)%nat by (destruct l; [congruence|cbn; lia]).
      destruct (N.ltb_spec ri end_); [|lia].
      rewrite take_val_spec.
      set (v := bits_val (first_bits 8 l) 0). set (rest := skipn 8 l).
      assert (v < 256) as Hv.
      { subst v. pose proof (bits_val_lt (first_bits 8 l)) as Hb. rewrite first_bits_length in Hb. exact Hb. }
      assert (val_bits 8 v = first_bits 8 l) as Ev.
      { subst v. rewrite <- (first_bits_length 8 l) at 1. apply val_bits_bits_val. }
      assert (length rest = length l - 8)%nat as Lr by (subst rest; apply skipn_length).
      assert (rest = [] /\ end_ <= ri + 8 \/ rest <> [] /\ end_ = ri + 8 + N.of_nat (length rest)) as Hend'.
      { destruct rest as [|x t] eqn:Er; [left|right]; (split; [congruence|]); cbn [length] in *; lia. }
      assert (Forall (fun b => b < 256) (accum ++ [v])) as F' by (apply Forall_app; split; [exact F|repeat constructor; exact Hv]).
      assert (bits_of_vals 8 (accum ++ [v]) ++ pad 8 rest = bits_of_vals 8 accum ++ pad 8 l) as Hbits.
      { rewrite bits_of_vals_app, <- app_assoc. f_equal. unfold bits_of_vals at 1. cbn [map concat].
        rewrite app_nil_r, Ev. subst rest. apply first_bits_pad; [lia|exact NE]. }
      rewrite app_length. cbn [length].
      destruct (Nat.leb_spec 32 (length accum + 1)) as [Hfull|Hnot].
      * destruct (IH rest (ri + 8) (ri + 8) [] ltac:(lia) Hend' ltac:(cbn [length]; lia) ltac:(cbn [length]; lia)
                   ltac:(congruence) ltac:(constructor)) as (C & B & FF).
        assert (accum ++ [v] <> []) as NEa by (intro E; apply app_eq_nil in E; destruct E; congruence).
        destruct (accum ++ [v]) as [|a0 at_] eqn:Ea; [congruence|]. rewrite <- Ea in *.
        assert (flush ai (accum ++ [v]) = [(ai, accum ++ [v])]) as Efl by (rewrite Ea; reflexivity).
        rewrite Efl. cbn [app map concat snd recs_chain].
        repeat split.
        -- exact NEa.
        -- rewrite app_length. cbn [length]. lia.
        -- lia.
        -- intros _. rewrite app_length. cbn [length]. lia.
        -- replace (ai + 256) with (ri + 8) by lia. exact C.
        -- rewrite bits_of_vals_app, B. cbn [bits_of_vals map concat app]. exact Hbits.
        -- apply Forall_app. split; assumption.
      * destruct (IH rest (ri + 8) ai (accum ++ [v]) ltac:(lia) Hend'
                   ltac:(rewrite app_length; cbn [length]; lia) ltac:(rewrite app_length; cbn [length]; lia)
                   ltac:(intros _; lia) F') as (C & B & FF).
        repeat split; [exact C| |exact FF]. rewrite B. exact Hbits.
Qed.

Lemma chain_rec_ok unit end_ recs : forall next, 0 < unit -> end_ <= 65536 * unit ->
  recs_chain end_ next recs -> Forall (fun b => b < 256) (concat (map snd recs)) -> Forall (rec_ok unit) recs.
Proof.
  induction recs as [|[idx d] r IH]; intros next Hu He C F; [constructor|].
  cbn [recs_chain] in C. destruct C as (-> & NE & Hl & Hlt & _ & C).
  cbn [map concat snd] in F. apply Forall_app in F. destruct F as [Fd Fr].
  constructor; [|eapply IH; eassumption].
  unfold rec_ok. cbn [fst snd]. repeat split; try assumption.
  apply N.div_lt_upper_bound; lia.
Qed.

Lemma contiguous_chain unit end_ recs : unit = 8 \/ unit = 16 \/ unit = 32 -> forall j,
  recs_chain end_ (256 * j) recs ->
  contiguous unit (32 * j) (map (fun r => (fst r / unit, snd r)) recs) = Some (concat (map snd recs)).
Proof.
  intro U. induction recs as [|[idx d] r IH]; intros j C; [reflexivity|].
  cbn [recs_chain] in C. destruct C as (-> & NE & Hl & Hlt & H32 & C).
  cbn [map contiguous fst snd concat].
  replace (256 * j / unit * (unit / 8) =? 32 * j) with true.
  2:{ symmetry. apply N.eqb_eq. destruct U as [ -> | [ -> | -> ] ].
      - change (8 / 8) with 1. replace (256 * j) with ((32 * j) * 8) by lia. rewrite N.div_mul; lia.
      - change (16 / 8) with 2. replace (256 * j) with ((16 * j) * 16) by lia. rewrite N.div_mul; lia.
      - change (32 / 8) with 4. replace (256 * j) with ((8 * j) * 32) by lia. rewrite N.div_mul; lia. }
  destruct r as [|r0 r'].
  - reflexivity.
  - rewrite (H32 ltac:(congruence)).
    replace (32 * j + N.of_nat 32) with (32 * (j + 1)) by lia.
    rewrite IH; [reflexivity|]. replace (256 * (j + 1)) with (256 * j + 256) by lia. exact C.
Qed.

(* the output written as one block from offset 0, under the 16-bit address side condition *)
Theorem intelhex_roundtrip unit bs : unit = 8 \/ unit = 16 \/ unit = 32 -> blen bs <= 65536 * unit ->
  decode_intelhex unit (format_intelhex_blocks unit bs (whole_block bs)) = Some (pad 8 bs).
Proof.
  intros U Hlen. unfold format_intelhex_blocks, whole_block, push_block, decode_intelhex.
  destruct (N.eqb_spec (blen bs) 0) as [E|E].
  - assert (bs = []) as -> by (destruct bs; [reflexivity|unfold blen in E; cbn [length] in E; lia]).
    rewrite pad_nil. reflexivity.
  - unfold ihex_records. cbn [map concat]. rewrite app_nil_r. cbn [skipn N.to_nat].
    change (N.to_nat 0) with 0%nat. cbn [skipn].
    assert (bs <> []) as NE by (intros ->; apply E; reflexivity).
    destruct (ihex_block_spec (0 + blen bs) (S (N.to_nat (blen bs))) bs 0 0 []) as (C & B & F).
    + unfold blen. rewrite Nat2N.id. lia.
    + right. split; [exact NE|reflexivity].
    + reflexivity.
    + cbn [length]. lia.
    + congruence.
    + constructor.
    + set (recs := ihex_block _ _ _ _ _ _) in *.
      assert (0 < unit) by (destruct U as [ -> | [ -> | -> ] ]; lia).
      rewrite ihex_file by (eapply chain_rec_ok; [eassumption| |exact C|exact F]; lia).
      cbn [bind]. change 0 with (32 * 0) at 1. rewrite (contiguous_chain unit (0 + blen bs)); [|exact U|exact C].
      cbn [bind]. rewrite map_opt_id.
      * cbn [bind]. rewrite B. reflexivity.
      * intros x Hx. apply below_ok. rewrite Forall_forall in F. now apply F.
Qed.

(* the same through get_blocks, for the span list a gap-free program produces *)
Lemma get_blocks_single n : get_blocks [(Some 0, n)] = push_block 0 n.
Proof. reflexivity. Qed.

Theorem intelhex_roundtrip_span unit bs : unit = 8 \/ unit = 16 \/ unit = 32 -> blen bs <= 65536 * unit ->
  decode_intelhex unit (format_intelhex unit bs [(Some 0, blen bs)]) = Some (pad 8 bs).
Proof. intros U H. unfold format_intelhex. rewrite get_blocks_single. now apply intelhex_roundtrip. Qed.
