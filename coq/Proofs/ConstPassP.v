(* C15, constants: evaluation is monotone in the information order (Unknown below everything), and every
   stable state of the pre-pass gives each address-free acyclic constant its denotation. *)
From Coq Require Import ZArith NArith List Bool Arith Lia.
From CA Require Import Model.Paths Model.BigIntOps Model.Symbols Model.ConstPass Spec.ConstDen.
Import ListNotations.
Open Scope nat_scope.

Definition vals (defs : list sym) (r : nat) : cval :=
  match nth_error defs r with Some s => sv s | None => VUnknown end.

Section Fix.
Variable nm : names.
Variable m : mgr.

Definition plain (p : list text) : Prop :=
  expr_level_builtin nm 0 p = false /\ match p with n :: _ => is_pc nm n = false | [] => False end.

(* ---------------------------------------------------------------- monotonicity (DESIGN A.7) *)
Definition below (d1 d2 : list sym) : Prop := forall r, vals d1 r = VUnknown \/ vals d1 r = vals d2 r.

Lemma var_simple_vals : forall defs lvl path,
  eval_variable_simple nm m defs lvl path =
  let lookup := match try_get_by_name m ctx_global lvl path with
                | ROk (Some r) => ROk (vals defs r) | ROk None => ROk VUnknown
                | RErr => RErr | RPanic => RPanic | RFuel => RFuel end in
  match lvl with
  | O => match path with [] => RPanic | n :: _ => if is_pc nm n then ROk VUnknown else lookup end
  | S _ => lookup
  end.
Proof.
  intros. unfold eval_variable_simple, vals.
  destruct (try_get_by_name m ctx_global lvl path) as [[r|]| | |]; try reflexivity.
  destruct (nth_error defs r); reflexivity.
Qed.

Lemma binop_mono : forall op a1 a2 b1 b2,
  (a1 = ROk VUnknown \/ a1 = a2) -> (b1 tt = ROk VUnknown \/ b1 tt = b2 tt) ->
  binop op a1 b1 = ROk VUnknown \/ binop op a1 b1 = binop op a2 b2.
Proof.
  intros op a1 a2 b1 b2 [A|A] B; [left; subst; reflexivity|]. subst a2.
  unfold binop. destruct a1 as [[|x|]| | |]; auto;
  (destruct B as [B|B]; [rewrite B; auto | rewrite B; auto]).
Qed.

Theorem eval_monotone : forall d1 d2 e, below d1 d2 ->
  eval_simple nm m d1 e = ROk VUnknown \/ eval_simple nm m d1 e = eval_simple nm m d2 e.
Proof.
  intros d1 d2 e B. induction e; cbn [eval_simple]; auto.
  - destruct (expr_level_builtin nm lvl path); auto.
    rewrite !var_simple_vals. cbn zeta.
    assert (L : forall (X : res (option nat)),
      match X with ROk (Some r) => ROk (vals d1 r) | ROk None => ROk VUnknown | RErr => RErr | RPanic => RPanic | RFuel => RFuel end = ROk VUnknown \/
      match X with ROk (Some r) => ROk (vals d1 r) | ROk None => ROk VUnknown | RErr => RErr | RPanic => RPanic | RFuel => RFuel end =
      match X with ROk (Some r) => ROk (vals d2 r) | ROk None => ROk VUnknown | RErr => RErr | RPanic => RPanic | RFuel => RFuel end).
    { intros [[r|]| | |]; auto. destruct (B r) as [E|E]; rewrite E; auto. }
    destruct lvl; [destruct path; auto; destruct (is_pc nm t); auto|]; apply L.
  - apply binop_mono; auto.
  - apply binop_mono; auto.
  - apply binop_mono; auto.
Qed.

(* ---------------------------------------------------------------- stable states *)
Variable cs : list (nat * cexpr).
Variable look : list text -> option nat.
Hypothesis look_ok : forall p, try_get_by_name m ctx_global 0 p = ROk (look p).

(* a state the pre-pass can stop in: every constant holds what its expression evaluates to *)
Definition stable (defs : list sym) : Prop :=
  forall r e, In (r, e) cs -> eval_simple nm m defs e = ROk (vals defs r).

Lemma binop_int : forall op ea eb v x y, binop op ea eb = ROk v ->
  (forall va, ea = ROk va -> va = VInt x) -> (forall vb, eb tt = ROk vb -> vb = VInt y) ->
  v = VInt (match op with OAdd => x + y | OSub => x - y | OMul => x * y end)%Z.
Proof.
  intros op ea eb v x y H A B. unfold binop in H.
  destruct ea as [va| | |]; try discriminate. specialize (A va eq_refl). subst va.
  destruct (eb tt) as [vb| | |]; try discriminate. specialize (B vb eq_refl). subst vb.
  cbn in H. destruct op; cbn in H.
  - unfold checked_add in H. destruct (Z.max (bits x) (bits y) >=? BigIntOps.BIGINT_MAX_BITS - 1)%Z; [discriminate|]. inversion H; reflexivity.
  - unfold checked_sub in H. destruct (Z.max (bits x) (bits y) >=? BigIntOps.BIGINT_MAX_BITS - 2)%Z; [discriminate|]. inversion H; reflexivity.
  - unfold checked_mul in H. destruct (Z.max (bits x) (bits y) >=? BigIntOps.BIGINT_MAX_BITS / 2)%Z; [discriminate|]. inversion H; reflexivity.
Qed.

Theorem stable_den : forall defs, stable defs ->
  forall r z, den plain look cs r z -> vals defs r = VInt z.
Proof.
  intros defs St.
  apply (den_mut plain look cs
           (fun r z => vals defs r = VInt z)
           (fun e z => forall v, eval_simple nm m defs e = ROk v -> v = VInt z)).
  - intros r e z Hin _ IH. apply IH. apply St; auto.
  - intros z v H. cbn in H. inversion H; reflexivity.
  - intros p r z [P1 P2] L _ IH v H. cbn [eval_simple] in H. rewrite P1 in H.
    rewrite var_simple_vals in H. cbn zeta in H. rewrite look_ok, L in H.
    destruct p as [|n p']; [contradiction|]. rewrite P2 in H. inversion H; subst. exact IH.
  - intros a b x y _ IHa _ IHb v H. cbn [eval_simple] in H. exact (binop_int OAdd _ _ _ _ _ H IHa IHb).
  - intros a b x y _ IHa _ IHb v H. cbn [eval_simple] in H. exact (binop_int OSub _ _ _ _ _ H IHa IHb).
  - intros a b x y _ IHa _ IHb v H. cbn [eval_simple] in H. exact (binop_int OMul _ _ _ _ _ H IHa IHb).
Qed.

(* whatever the order in which the constants were visited: two stable states agree on every
   address-free acyclic constant *)
Theorem stable_unique : forall d1 d2, stable d1 -> stable d2 ->
  forall r z, den plain look cs r z -> vals d1 r = vals d2 r.
Proof. intros d1 d2 S1 S2 r z D. rewrite (stable_den d1 S1 r z D), (stable_den d2 S2 r z D). reflexivity. Qed.
End Fix.

(* `stable` does not mention the order of cs *)
Lemma stable_perm : forall nm m cs cs' defs, (forall x, In x cs <-> In x cs') -> stable nm m cs defs -> stable nm m cs' defs.
Proof. intros nm m cs cs' defs P S r e Hin. apply S. apply P. exact Hin. Qed.
