(* C12 lemmas, part 1: the order of the rows (stable sort by output position) and the "listed exactly once,
   in output order" predicate of Spec/ListingSpec.v. *)
From Coq Require Import ZArith NArith List Bool Lia ZifyBool Arith.
From CA Require Import Model.Formats Spec.Decoders Model.CharCounter Model.Listing Spec.ListingSpec.
Import ListNotations.
Open Scope N_scope.

Lemma okey_leb_offset_leb a b : okey_leb a b = offset_leb a b.
Proof. destruct a, b; reflexivity. Qed.

Lemma okey_leb_total a b : okey_leb a b = false -> okey_leb b a = true.
Proof. destruct a, b; cbn; try congruence; intro H; lia. Qed.

Lemma okey_leb_trans a b c : okey_leb a b = true -> okey_leb b c = true -> okey_leb a c = true.
Proof. destruct a, b, c; cbn; try congruence; intros; lia. Qed.

Lemma okey_eqb_leb a b : okey_eqb a b = true -> okey_leb b a = true.
Proof. destruct a, b; cbn; try congruence; intros; lia. Qed.

Lemma okey_eqb_refl a : okey_eqb a a = true.
Proof. destruct a; cbn; [apply N.eqb_refl|reflexivity]. Qed.

Lemma okey_eqb_eq a b : okey_eqb a b = true -> a = b.
Proof. destruct a, b; cbn; try congruence. intro H. apply N.eqb_eq in H. now subst. Qed.

(* ------------------------------------------------------------------ nondecreasing *)
Definition hd_ok (a : okey) (l : list okey) : bool :=
  match l with [] => true | b :: _ => okey_leb a b end.

Lemma nondecreasing_cons a l : nondecreasing (a :: l) = hd_ok a l && nondecreasing l.
Proof. destruct l; reflexivity. Qed.

Lemma nondecreasing_all a l : nondecreasing (a :: l) = true -> Forall (fun b => okey_leb a b = true) l.
Proof.
  revert a. induction l as [|b t IH]; intros a H; [constructor|].
  rewrite nondecreasing_cons in H. apply andb_true_iff in H. destruct H as [H1 H2]. cbn in H1.
  constructor; [exact H1|].
  specialize (IH b H2). eapply Forall_impl; [|exact IH]. intros c Hc. eapply okey_leb_trans; eassumption.
Qed.

Section Sort.
Context {A : Type} (key : A -> option N).

Definition sortedk (l : list A) : Prop := nondecreasing (map key l) = true.
Definition at_key (o : okey) (x : A) : bool := okey_eqb (key x) o.

Lemma insert_hd a s l : okey_leb a (key s) = true -> hd_ok a (map key l) = true ->
  hd_ok a (map key (insert_by key s l)) = true.
Proof.
  intros Hs Hl. destruct l as [|h t]; cbn [insert_by map hd_ok]; [exact Hs|].
  destruct (offset_leb (key h) (key s)); cbn [map hd_ok]; [exact Hl|exact Hs].
Qed.

Lemma insert_sorted s l : sortedk l -> sortedk (insert_by key s l).
Proof.
  unfold sortedk. induction l as [|h t IH]; intro H; [reflexivity|].
  cbn [insert_by]. destruct (offset_leb (key h) (key s)) eqn:E.
  - cbn [map] in *. rewrite nondecreasing_cons in *. apply andb_true_iff in H. destruct H as [H1 H2].
    apply andb_true_iff. split; [|now apply IH].
    apply insert_hd; [now rewrite okey_leb_offset_leb|exact H1].
  - cbn [map]. rewrite nondecreasing_cons. apply andb_true_iff. split; [|exact H].
    cbn [map hd_ok]. apply okey_leb_total. now rewrite okey_leb_offset_leb.
Qed.

Lemma filter_insert o s l : sortedk l ->
  filter (at_key o) (insert_by key s l) = filter (at_key o) l ++ (if at_key o s then [s] else []).
Proof.
  unfold sortedk. induction l as [|h t IH]; intro H.
  - cbn. destruct (at_key o s); reflexivity.
  - cbn [insert_by]. destruct (offset_leb (key h) (key s)) eqn:E.
    + cbn [map] in H. rewrite nondecreasing_cons in H. apply andb_true_iff in H. destruct H as [_ H2].
      cbn [filter]. rewrite IH by exact H2. destruct (at_key o h); reflexivity.
    + (* s goes in front: nothing in h :: t has the key of s *)
      assert (at_key o s = true -> filter (at_key o) (h :: t) = []) as Hnil.
      { intro Es. unfold at_key in Es. apply okey_eqb_eq in Es. subst o.
        pose proof (nondecreasing_all _ _ H) as Hall. cbn [map] in Hall.
        rewrite <- okey_leb_offset_leb in E.
        assert (Forall (fun x => at_key (key s) x = false) (h :: t)) as F.
        { constructor.
          - unfold at_key. destruct (okey_eqb (key h) (key s)) eqn:Q; [|reflexivity].
            apply okey_eqb_eq in Q. rewrite Q in E. destruct (key s); cbn in E; [lia|congruence].
          - rewrite Forall_forall. intros x Hx. unfold at_key.
            destruct (okey_eqb (key x) (key s)) eqn:Q; [|reflexivity].
            rewrite Forall_forall in Hall. specialize (Hall (key x) (in_map key _ _ Hx)).
            apply okey_eqb_eq in Q. rewrite Q in Hall. congruence. }
        clear -F. induction F as [|x r Hx _ IHr]; [reflexivity|]. cbn [filter]. now rewrite Hx. }
      change (filter (at_key o) (s :: h :: t))
        with (if at_key o s then s :: filter (at_key o) (h :: t) else filter (at_key o) (h :: t)).
      destruct (at_key o s) eqn:Es; [rewrite (Hnil eq_refl); reflexivity|now rewrite app_nil_r].
Qed.

Lemma sort_fold l : forall acc, sortedk acc ->
  sortedk (fold_left (fun a s => insert_by key s a) l acc)
  /\ forall o, filter (at_key o) (fold_left (fun a s => insert_by key s a) l acc)
               = filter (at_key o) acc ++ filter (at_key o) l.
Proof.
  induction l as [|s r IH]; intros acc H.
  - split; [exact H|]. intro o. cbn. now rewrite app_nil_r.
  - cbn [fold_left]. destruct (IH (insert_by key s acc) (insert_sorted s acc H)) as [S F].
    split; [exact S|]. intro o. rewrite F, filter_insert by exact H.
    cbn [filter]. rewrite <- app_assoc. destruct (at_key o s); reflexivity.
Qed.

(* the order of the rows: positions never decrease ... *)
Lemma sort_by_sorted l : nondecreasing (map key (sort_by key l)) = true.
Proof. unfold sort_by. apply (sort_fold l []). reflexivity. Qed.

(* ... and at every position the spans are those recorded there, in the order they were recorded *)
Lemma sort_by_filter l o : filter (at_key o) (sort_by key l) = filter (at_key o) l.
Proof. unfold sort_by. destruct (sort_fold l [] eq_refl) as [_ F]. now rewrite F. Qed.

End Sort.
