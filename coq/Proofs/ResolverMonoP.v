(* Mode agreement (a resolved last-mode pass is reproduced by the guessing pass) and budget monotonicity
   of resolve_iteratively: the iteration budget decides whether a program assembles, never to what (C09). *)
From Coq Require Import NArith ZArith List Bool Lia.
From CA Require Import Model.Lexer Model.Parser Model.Literal Model.BigIntOps Model.Evaluator Model.Matcher Model.Resolver
  Proofs.EvalMonoP Proofs.ResolverFixP.
Import ListNotations.
Open Scope Z_scope.

Definition pv_le (pv1 pv2 : N -> list text -> eres value) : Prop :=
  forall l p v, pv1 l p = EOk v -> pv2 l p = EOk v.

Lemma address_at_mono pos a : address_at pos false = EOk a -> address_at pos true = EOk a.
Proof.
  unfold address_at. cbn [negb]. rewrite andb_true_r, andb_false_r.
  destruct (negb (pos mod 8 =? 0)); [discriminate|auto].
Qed.

Lemma pvar_mono names st pos : pv_le (pvar names st pos false) (pvar names st pos true).
Proof.
  intros l p v. unfold pvar. destruct l; [|auto]. destruct p as [|first rest]; [auto|].
  destruct (text_eqb first s_dollar || text_eqb first s_pc).
  - destruct (address_at pos false) as [a|] eqn:E; [|discriminate].
    rewrite (address_at_mono _ _ E). auto.
  - destruct rest; [|auto]. destruct (find_sym names first 0) as [i|]; [|auto].
    destruct (nth_error (s_sym st) i) as [[]|]; auto; discriminate.
Qed.

Section Mono.
Variable defs : list ruledef.
Variables pv1 pv2 : N -> list text -> eres value.
Hypothesis Hle : pv_le pv1 pv2.

Lemma resolve_match_mono : forall m v, resolve_match defs pv1 m = EOk v -> resolve_match defs pv2 m = EOk v.
Proof.
  fix IH 1. intros [rd ru args ex] v. cbn [resolve_match].
  destruct (get_rule defs rd ru) as [r|]; [|intro HH; discriminate HH].
  match goal with |- ?f args ?p [] = _ -> ?g args ?p [] = _ =>
    assert (G : forall a q c w, f a q c = EOk w -> g a q c = EOk w); [|apply G] end.
  fix IHa 1. intros [|a args0] params ctx w H.
  - cbn beta iota in H |- *. destruct (eval code_ops pv1 (rexpr r) ctx) as [[x c]|] eqn:E; [|discriminate].
    rewrite (eval_mono code_ops pv1 pv2 Hle _ _ _ E). exact H.
  - destruct a as [e s t exc|n s t exc].
    + destruct params as [|[pn pt] pr]; cbn beta iota in H |- *; [exact H|].
      destruct (eval code_ops pv1 e []) as [[x c]|] eqn:E; [|discriminate].
      rewrite (eval_mono code_ops pv1 pv2 Hle _ _ _ E).
      destruct (should_propagate x); [exact H|].
      destruct (constrain x pt) as [c0|]; [|discriminate].
      destruct (should_propagate c0); [exact H|]. apply IHa. exact H.
    + destruct params as [|[pn pt] pr]; cbn beta iota in H |- *; [exact H|].
      destruct (resolve_match defs pv1 n) as [x|] eqn:E; [|discriminate].
      rewrite (IH n x E).
      destruct (should_propagate x); [exact H|]. apply IHa. exact H.
Qed.

Lemma resolve_matches_mono ms rs : resolve_matches defs pv1 ms = EOk rs -> resolve_matches defs pv2 ms = EOk rs.
Proof.
  unfold resolve_matches. revert rs. induction ms as [|m ms IH]; intros rs H; [exact H|].
  destruct (resolve_match defs pv1 m) as [v|] eqn:E; [|discriminate].
  rewrite (resolve_match_mono m v E).
  destruct (coallesce v) as [| | |b| | |]; try discriminate.
  - match type of H with match ?x with _ => _ end = _ => destruct x as [l|] eqn:G; [|discriminate] end.
    rewrite (IH l eq_refl). exact H.
  - match type of H with match ?x with _ => _ end = _ => destruct x as [l|] eqn:G; [|discriminate] end.
    rewrite (IH l eq_refl). exact H.
  - destruct (bsz b); [|discriminate].
    match type of H with match ?x with _ => _ end = _ => destruct x as [l|] eqn:G; [|discriminate] end.
    rewrite (IH l eq_refl). exact H.
Qed.

(* a definite choice in last mode is also what the guessing mode picks *)
Lemma resolve_encoding_mono ms b :
  resolve_encoding defs pv1 false ms = EOk (Some b) -> resolve_encoding defs pv2 true ms = EOk (Some b).
Proof.
  unfold resolve_encoding.
  destruct (resolve_matches defs pv1 ms) as [rs|] eqn:E; [|discriminate].
  rewrite (resolve_matches_mono ms rs E).
  destruct (flat_map (fun r => match r with MResolved b0 => [b0] | _ => [] end) rs) as [|b0 rest]; [auto|].
  cbn [negb andb].
  match goal with |- (if ?c then _ else _) = _ -> _ => destruct c; [discriminate|auto] end.
Qed.
End Mono.

Section Agree.
Variable names : list text.
Variable defs : list ruledef.

Lemma data_go_agree width : forall elems st pos acc st' r pos',
  data_go names true width elems st pos acc = EOk (st', r, pos') ->
  data_go names false width elems st pos acc = EOk (st', r, pos').
Proof.
  induction elems as [|[d e] rest IH]; intros st pos acc st' r pos' H; cbn [data_go] in *; [exact H|].
  cbv zeta in *. cbn [negb] in *.
  destruct (eval code_ops (pvar names st pos false) e []) as [[v c]|] eqn:E; [|discriminate].
  rewrite (eval_mono code_ops _ _ (pvar_mono names st pos) _ _ _ E).
  destruct (expect_error_or_bigint v) as [v'|]; [|discriminate].
  destruct v'; try discriminate.
  (* only the integer case survives in last mode *)
  match type of H with (if negb ?c then _ else _) = _ => destruct c; cbn [negb] in H; [|discriminate] end.
  cbn [negb]. apply IH. exact H.
Qed.

Lemma resolve_node_agree n st pos st' pos' :
  resolve_node names defs true n st pos = EOk (st', Resolved, pos') ->
  resolve_node names defs false n st pos = EOk (st', Resolved, pos').
Proof.
  intro H. destruct n as [s|s e|i src|width elems|k e|k e|k e]; cbn [resolve_node] in *; cbn [negb] in *.
  - destruct (address_at pos false) as [a|] eqn:E; [|discriminate].
    rewrite (address_at_mono _ _ E). exact H.
  - destruct (eval code_ops (pvar names st pos false) e []) as [[v c]|] eqn:E; [|discriminate].
    rewrite (eval_mono code_ops _ _ (pvar_mono names st pos) _ _ _ E).
    cbn [andb] in *. destruct (match v with VFailed => true | _ => false end); [discriminate|]. exact H.
  - destruct (nth_error (s_instr st) i) as [d|]; [|discriminate].
    destruct (resolve_encoding defs (pvar names st pos false) false (i_matches d)) as [[b|]|] eqn:E; try discriminate.
    rewrite (resolve_encoding_mono defs _ _ (pvar_mono names st pos) _ _ E). exact H.
  - apply data_go_agree. exact H.
  - destruct (eval code_ops (pvar names st pos false) e []) as [[v c]|] eqn:E; [|discriminate].
    rewrite (eval_mono code_ops _ _ (pvar_mono names st pos) _ _ _ E). exact H.
  - destruct (eval code_ops (pvar names st pos false) e []) as [[v c]|] eqn:E; [|discriminate].
    rewrite (eval_mono code_ops _ _ (pvar_mono names st pos) _ _ _ E).
    match type of H with match ?x with EErr => _ | EOk _ => _ end = _ => destruct x as [z|]; [|discriminate] end.
    destruct (negb (z =? nth k (s_align st) 0)); [exact H|].
    cbn [andb] in *. destruct (z =? 0); [discriminate|exact H].
  - destruct (eval code_ops (pvar names st pos false) e []) as [[v c]|] eqn:E; [|discriminate].
    rewrite (eval_mono code_ops _ _ (pvar_mono names st pos) _ _ _ E).
    destruct (expect_error_or_bigint v) as [v'|]; [|discriminate].
    cbv zeta in *.
    match type of H with (if negb ?c then _ else _) = _ => destruct (negb c); [exact H|] end.
    cbn [andb] in *.
    match type of H with (if ?c then _ else _) = _ => destruct c; [discriminate|] end.
    match type of H with (if ?c then _ else _) = _ => destruct c; [discriminate|] end.
    exact H.
Qed.

Lemma pass_agree ns st pos st' :
  pass names defs true ns st pos Resolved = EOk (st', Resolved) ->
  pass names defs false ns st pos Resolved = EOk (st', Resolved).
Proof.
  revert st pos. induction ns as [|n ns IH]; intros st pos H; cbn [pass] in *; [exact H|].
  destruct (resolve_node names defs true n st pos) as [[[s r] p]|] eqn:E; [|discriminate].
  destruct r.
  - rewrite (resolve_node_agree _ _ _ _ _ E). cbn [merge] in *. auto.
  - cbn [merge] in H. exfalso. eapply pass_unresolved_sticky; eauto.
Qed.
End Agree.

(* ---- budget monotonicity ---- *)
Section Budget.
Variable names : list text.
Variable defs : list ruledef.
Variable ns : list node.
Notation P last st := (pass names defs last ns st 0 Resolved).

(* once on a fixed point, every longer run stays there *)
Lemma sit k i max s : P true s = EOk (s, Resolved) -> (k + i = max)%nat ->
  exists n, loop names defs ns k i max s = EOk (s, n).
Proof.
  revert i. induction k as [|k IH]; intros i Hfix E; cbn [loop].
  - rewrite Hfix. eauto.
  - destruct (Nat.eqb (S i) max) eqn:L.
    + rewrite Hfix. eauto.
    + rewrite (pass_agree _ _ _ _ _ _ Hfix). rewrite Hfix. eauto.
Qed.

Lemma mono k k' i max max' st st' n : labels_ok ns st -> syms_distinct ns ->
  loop names defs ns k i max st = EOk (st', n) -> (k + i = max)%nat -> (k' + i = max')%nat -> (max <= max')%nat -> (1 <= k)%nat ->
  exists n', loop names defs ns k' i max' st = EOk (st', n').
Proof.
  intros Hl Hd. revert k' i st Hl. induction k as [|k IH]; intros k' i st Hl H E E' Hle Hk; [lia|].
  destruct k' as [|k']; [lia|]. cbn [loop] in *.
  destruct (Nat.eqb (S i) max) eqn:L.
  - (* pass S i is the last one under budget max *)
    destruct (P true st) as [[s r]|] eqn:Q; [|discriminate].
    destruct r; [|discriminate]. inversion H; subst s n; clear H.
    assert (st' = st) by (eapply pass_fix; eauto). subst st'.
    destruct (Nat.eqb (S i) max') eqn:L'.
    + rewrite Q. eauto.
    + rewrite (pass_agree _ _ _ _ _ _ Q). rewrite Q. eauto.
  - apply Nat.eqb_neq in L.
    assert (Nat.eqb (S i) max' = false) as L' by (apply Nat.eqb_neq; lia).
    rewrite L'.
    destruct (P false st) as [[s r]|] eqn:Q; [|discriminate].
    destruct r.
    + eauto.
    + eapply IH; eauto; try lia. eapply pass_labels_ok; eauto.
Qed.

Theorem budget_monotone b b' st st' n : labels_ok ns st -> syms_distinct ns ->
  (1 <= b)%nat -> (b <= b')%nat ->
  loop names defs ns b 0 b st = EOk (st', n) ->
  exists n', loop names defs ns b' 0 b' st = EOk (st', n').
Proof. intros Hl Hd Hb Hle H. eapply mono; eauto; lia. Qed.
End Budget.
